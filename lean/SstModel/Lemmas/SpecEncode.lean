import SstModel.Spec.Encode
import SstModel.Spec.WFTable
import SstModel.Lemmas.SpecBlockComplete
import SstModel.Lemmas.SpecTable
import SstModel.Lemmas.CmpLaws
/-
  Adequacy of the independent decoder (`Spec/Format.lean`): it inverts the independent free-layout encoder
  of `Spec/Encode.lean`, so it accepts EVERY table the format description allows a producer to write
  (within the layout class of `TableLayout`), not only the crate's.

  * `Enc.varint_encVarint`, `Enc.handle_encHandle`, `Enc.u32le_encU32le`, `Enc.u32list_flatMap` -- integers;
  * `Enc.entries_encEntries`, `Enc.parseBlock_encodeBlock` -- blocks with free restart points and free
    (partial) prefix sharing;
  * `Enc.block_physWith_zero / _one`, `Enc.block_section` -- physical blocks anywhere in a file;
  * `decodeTable_encodeTable` -- tables; `wfTable_of_layout` -- `WFTable` from the order conditions.

  Reused from the existing lemma files: only facts about the DECODER (`varint_cons`, `nat_and80`,
  `SBC.entries_succ_intro`, `SBC.parseBlock_intro`, `SBC.u32le_of_length`, `ST.decodeTable_eq`) and
  arithmetic of the codec (`decodeFixed32_encodeFixed32`, lengths of `encodeVarint`); nothing about the
  crate's writer.
-/
namespace Sst.Spec.Format
open Sst

namespace Enc

/-! ### ties to the codec model: the two descriptions of varint / fixed32 coincide -/

theorem encVarint_eq (n : Nat) : encVarint n = encodeVarint n := by
  induction n using Nat.strongRecOn with
  | _ n ih =>
    by_cases h : n < 128
    · rw [encVarint, if_pos h, encodeVarint_lt n h]
    · rw [encVarint, if_neg h, encodeVarint_ge n h, ih (n / 128) (by omega)]

theorem encU32le_eq (n : Nat) : encU32le n = encodeFixed32 n := rfl

theorem encVarint_length_pos (n : Nat) : 0 < (encVarint n).length := by
  rw [encVarint_eq]; exact encodeVarint_length_pos n

theorem encVarint_length_le (n : Nat) (h : n < 2 ^ 64) : (encVarint n).length ≤ 10 := by
  rw [encVarint_eq]; exact encodeVarint_length_le n h

/-! ### varint -/

theorem shift_split (n s : Nat) : (n % 128) <<< s ||| (n / 128) <<< (s + 7) = n <<< s := by
  have e : (n / 128) <<< (s + 7) = ((n / 128) <<< 7) <<< s := by
    rw [Nat.add_comm, Nat.shiftLeft_add]
  rw [e, ← Nat.shiftLeft_or_distrib]
  congr 1
  rw [Nat.shiftLeft_eq, or_mul_two_pow _ _ 7 (Nat.mod_lt _ (by decide))]
  omega

/-- the decoder reads back a shortest-form varint of `l` bytes, wherever it starts, as long as the
    10 byte limit is kept -/
theorem varint_encVarint_gen (n : Nat) : ∀ (shift k : Nat) (rest : Bytes),
    k + (encVarint n).length ≤ 10 →
    varint (encVarint n ++ rest) shift k = some (n <<< shift, rest) := by
  induction n using Nat.strongRecOn with
  | _ n ih =>
    intro shift k rest hk
    by_cases h : n < 128
    · rw [encVarint, if_pos h] at hk ⊢
      simp only [List.length_cons, List.length_nil] at hk
      rw [List.singleton_append, varint_cons, if_neg (by omega)]
      have hb : (UInt8.ofNat n).toNat = n := by
        rw [UInt8.toNat_ofNat']; omega
      rw [hb, if_pos ((nat_and80 n (by omega)).2 h)]
    · rw [encVarint, if_neg h] at hk ⊢
      simp only [List.length_cons] at hk
      rw [List.cons_append, varint_cons, if_neg (by omega)]
      have hb : (UInt8.ofNat (n % 128 + 128)).toNat = n % 128 + 128 := by
        rw [UInt8.toNat_ofNat']; omega
      rw [hb, if_neg (by
        intro hc
        have := (nat_and80 (n % 128 + 128) (by omega)).1 hc
        omega)]
      rw [ih (n / 128) (by omega) (shift + 7) (k + 1) rest (by omega)]
      simp only [Option.map_some]
      rw [nat_and7f]
      have : (n % 128 + 128) % 128 = n % 128 := by omega
      rw [this, shift_split]

theorem varint_encVarint (n : Nat) (h : n < 2 ^ 64) (rest : Bytes) :
    varint (encVarint n ++ rest) 0 0 = some (n, rest) := by
  have := varint_encVarint_gen n 0 0 rest (by have := encVarint_length_le n h; omega)
  rwa [Nat.shiftLeft_zero] at this

theorem handle_encHandle (h : Handle) (ho : h.offset < 2 ^ 64) (hs : h.size < 2 ^ 64) (rest : Bytes) :
    handle (encHandle h ++ rest) = some (h, rest) := by
  unfold handle encHandle
  rw [List.append_assoc, varint_encVarint _ ho]
  simp only [Option.bind_eq_bind, Option.bind_some]
  rw [varint_encVarint _ hs]
  rfl




/-! ### fixed 32 -/

theorem encU32le_length (n : Nat) : (encU32le n).length = 4 := rfl

theorem u32le_encU32le (n : Nat) (h : n < 2 ^ 32) : u32le (encU32le n) = some n := by
  rw [SBC.u32le_of_length _ rfl, encU32le_eq, decodeFixed32_encodeFixed32 n h]

theorem u32list_flatMap : ∀ xs : List Nat, (∀ x ∈ xs, x < 2 ^ 32) →
    u32list (xs.flatMap encU32le) = some xs
  | [], _ => rfl
  | x :: xs, h => by
    have hx := u32le_encU32le x (h x (by simp))
    have ih := u32list_flatMap xs (fun y hy => h y (by simp [hy]))
    obtain ⟨a, b, c, d, hq⟩ : ∃ a b c d, encU32le x = [a, b, c, d] := ⟨_, _, _, _, rfl⟩
    rw [List.flatMap_cons, hq]
    rw [hq] at hx
    simp only [List.cons_append, List.nil_append]
    rw [u32list, hx, ih]
    rfl

theorem flatMap_encU32le_length (xs : List Nat) : (xs.flatMap encU32le).length = 4 * xs.length := by
  induction xs with
  | nil => rfl
  | cons x xs ih => rw [List.flatMap_cons, List.length_append, ih, encU32le_length, List.length_cons]; omega

/-! ### prefix sharing -/

theorem commonPrefix_take : ∀ (a b : Bytes) (s : Nat), s ≤ commonPrefix a b →
    a.take s = b.take s ∧ s ≤ a.length ∧ s ≤ b.length
  | _, _, 0, _ => by simp
  | [], _, s + 1, h => by simp [commonPrefix] at h
  | _ :: _, [], s + 1, h => by simp [commonPrefix] at h
  | x :: a, y :: b, s + 1, h => by
    rw [commonPrefix] at h
    by_cases hxy : x = y
    · rw [if_pos hxy] at h
      obtain ⟨h1, h2, h3⟩ := commonPrefix_take a b s (by omega)
      subst hxy
      simp only [List.take_succ_cons, h1, List.length_cons]
      exact ⟨trivial, by omega, by omega⟩
    · rw [if_neg hxy] at h; omega

/-! ### entries -/

/-- what the entry parser reports: entry, start offset, shared length -/
def entryOuts (share : Nat → Nat) : Nat → Nat → List Spec.Entry → List (Spec.Entry × Nat × Nat)
  | _, _, [] => []
  | i, pos, e :: es =>
    (e, pos, share i) :: entryOuts share (i + 1) (pos + (encEntry (share i) e).length) es

/-- every entry shares at most the common prefix with its predecessor (`prev` before the first) -/
def ShareOK (share : Nat → Nat) : Nat → Bytes → List Spec.Entry → Prop
  | _, _, [] => True
  | i, prev, e :: es => share i ≤ commonPrefix prev e.1 ∧ ShareOK share (i + 1) e.1 es

theorem encEntry_length_pos (s : Nat) (e : Spec.Entry) : 0 < (encEntry s e).length := by
  unfold encEntry
  have := encVarint_length_pos s
  simp only [List.length_append]; omega

theorem encEntries_append (share : Nat → Nat) : ∀ (a b : List Spec.Entry) (i : Nat),
    encEntries share i (a ++ b) = encEntries share i a ++ encEntries share (i + a.length) b
  | [], b, i => by simp [encEntries]
  | e :: a, b, i => by
    simp only [List.cons_append, encEntries, List.length_cons, List.append_assoc]
    rw [encEntries_append share a b (i + 1)]
    congr 3; omega

theorem encEntries_length_ge (share : Nat → Nat) : ∀ (es : List Spec.Entry) (i : Nat),
    es.length ≤ (encEntries share i es).length
  | [], _ => by simp
  | e :: es, i => by
    have := encEntries_length_ge share es (i + 1)
    have := encEntry_length_pos (share i) e
    simp only [encEntries, List.length_append, List.length_cons]; omega

theorem entryOuts_map_fst (share : Nat → Nat) : ∀ (es : List Spec.Entry) (i pos : Nat),
    (entryOuts share i pos es).map (·.1) = es
  | [], _, _ => rfl
  | e :: es, i, pos => by simp only [entryOuts, List.map_cons, entryOuts_map_fst share es]

theorem entryOuts_getElem? (share : Nat → Nat) : ∀ (es : List Spec.Entry) (i pos j : Nat) (e : Spec.Entry),
    es[j]? = some e →
    (entryOuts share i pos es)[j]? = some (e, pos + (encEntries share i (es.take j)).length, share (i + j))
  | [], _, _, _, _, h => by simp at h
  | e0 :: es, i, pos, 0, e, h => by
    simp only [List.getElem?_cons_zero, Option.some.injEq] at h
    subst h
    simp [entryOuts, encEntries]
  | e0 :: es, i, pos, j + 1, e, h => by
    simp only [List.getElem?_cons_succ] at h
    have := entryOuts_getElem? share es (i + 1) (pos + (encEntry (share i) e0).length) j e h
    simp only [entryOuts, List.getElem?_cons_succ, this, List.take_succ_cons, encEntries,
      List.length_append, Option.some.injEq, Prod.mk.injEq, true_and]
    constructor
    · omega
    · congr 1; omega

theorem encEntry_length (s : Nat) (e : Spec.Entry) : (encEntry s e).length
    = (encVarint s).length + (encVarint (e.1.length - s)).length + (encVarint e.2.length).length
      + (e.1.length - s) + e.2.length := by
  simp only [encEntry, List.length_append, List.length_drop]

/-- the entry parser reads back encoded entries; `prev` is the key before the first of them -/
theorem entries_encEntries (share : Nat → Nat) : ∀ (es : List Spec.Entry) (i pos : Nat) (prev : Bytes)
    (fuel : Nat), es.length < fuel → ShareOK share i prev es →
    prev.length + (encEntries share i es).length < 2 ^ 64 →
    entries (encEntries share i es) pos prev fuel = some (entryOuts share i pos es)
  | [], i, pos, prev, fuel, hf, _, _ => by
    obtain ⟨f, rfl⟩ : ∃ f, fuel = f + 1 := ⟨fuel - 1, by simp at hf; omega⟩
    rw [encEntries, entries]; simp [entryOuts]
  | e :: es, i, pos, prev, fuel, hf, hs, hb => by
    obtain ⟨f, rfl⟩ : ∃ f, fuel = f + 1 := ⟨fuel - 1, by simp at hf; omega⟩
    obtain ⟨hs1, hs2⟩ := hs
    obtain ⟨htk, hsp, hse⟩ := commonPrefix_take prev e.1 (share i) hs1
    have hel := encEntry_length (share i) e
    have hb' : prev.length + ((encEntry (share i) e).length
        + (encEntries share (i + 1) es).length) < 2 ^ 64 := by
      simpa only [encEntries, List.length_append] using hb
    have ih := entries_encEntries share es (i + 1) (pos + (encEntry (share i) e).length) e.1 f
      (by simp only [List.length_cons] at hf; omega) hs2 (by omega)
    -- the three header reads
    let tail := encEntries share (i + 1) es
    let r3 : Bytes := e.1.drop (share i) ++ (e.2 ++ tail)
    let r2 : Bytes := encVarint e.2.length ++ r3
    let r1 : Bytes := encVarint (e.1.length - share i) ++ r2
    have hbody : encEntries share i (e :: es) = encVarint (share i) ++ r1 := by
      simp only [encEntries, encEntry, List.append_assoc, r1, r2, r3, tail]
    have h1 : varint (encEntries share i (e :: es)) 0 0 = some (share i, r1) := by
      rw [hbody]; exact varint_encVarint _ (by omega) _
    have h2 : varint r1 0 0 = some (e.1.length - share i, r2) := varint_encVarint _ (by omega) _
    have h3 : varint r2 0 0 = some (e.2.length, r3) := varint_encVarint _ (by omega) _
    have hdl : (e.1.drop (share i)).length = e.1.length - share i := List.length_drop
    have hr3take : r3.take (e.1.length - share i) = e.1.drop (share i) := by
      simp only [r3]; rw [List.take_left' hdl]
    have hr3drop : r3.drop (e.1.length - share i) = e.2 ++ tail := by
      simp only [r3]; rw [List.drop_left' hdl]
    have hval : (r3.drop (e.1.length - share i)).take e.2.length = e.2 := by
      rw [hr3drop, List.take_left' rfl]
    have hrest : r3.drop (e.1.length - share i + e.2.length) = tail := by
      rw [← List.drop_drop, hr3drop, List.drop_left' rfl]
    have hkey : prev.take (share i) ++ r3.take (e.1.length - share i) = e.1 := by
      rw [hr3take, htk, List.take_append_drop]
    have hne : encEntries share i (e :: es) ≠ [] := by
      intro hh
      have := encEntry_length_pos (share i) e
      have hl := congrArg List.length hh
      simp only [encEntries, List.length_append, List.length_nil] at hl
      omega
    have hused : pos + ((encEntries share i (e :: es)).length - tail.length)
        = pos + (encEntry (share i) e).length := by
      simp only [encEntries, List.length_append, tail]; omega
    have hr3len : r3.length = (e.1.length - share i) + e.2.length + tail.length := by
      simp only [r3, List.length_append, hdl]; omega
    have := SBC.entries_succ_intro (encEntries share i (e :: es)) pos prev f (share i)
      (e.1.length - share i) e.2.length r1 r2 r3 (entryOuts share (i + 1)
        (pos + (encEntry (share i) e).length) es) hne h1 h2 h3 hsp (by omega)
      (by rw [hrest, hkey, hused]; exact ih)
    rw [this, hkey, hval]
    rfl

/-! ### blocks -/

theorem shareOK_of (share : Nat → Nat) : ∀ (es : List Spec.Entry) (i : Nat) (prev : Bytes),
    (∀ e, es.head? = some e → share i ≤ commonPrefix prev e.1) →
    (∀ j a b, es[j]? = some a → es[j + 1]? = some b → share (i + j + 1) ≤ commonPrefix a.1 b.1) →
    ShareOK share i prev es
  | [], _, _, _, _ => trivial
  | e :: es, i, prev, h0, h => by
    refine ⟨h0 e rfl, shareOK_of share es (i + 1) e.1 ?_ ?_⟩
    · intro e' he'
      have := h 0 e e' rfl (by rw [List.head?_eq_getElem?] at he'; simpa using he')
      simpa using this
    · intro j a b ha hb
      have := h (j + 1) a b (by simpa using ha) (by simpa using hb)
      have e : i + (j + 1) + 1 = i + 1 + j + 1 := by omega
      rwa [e] at this

theorem pairwise_zip_tail {α : Type} (R : α → α → Prop) : ∀ l : List α, l.Pairwise R →
    ∀ p ∈ l.zip l.tail, R p.1 p.2
  | [], _, p, hp => by simp at hp
  | [_], _, p, hp => by simp at hp
  | a :: b :: l, h, p, hp => by
    rw [List.pairwise_cons] at h
    simp only [List.tail_cons, List.zip_cons_cons, List.mem_cons] at hp
    rcases hp with rfl | hp
    · exact h.1 b (by simp)
    · exact pairwise_zip_tail R (b :: l) h.2 p hp

theorem entryOffset_lt (bl : BlockLayout) (a b : Nat) (hab : a < b) (hb : b ≤ bl.entries.length) :
    bl.entryOffset a < bl.entryOffset b := by
  unfold BlockLayout.entryOffset
  have hsplit : bl.entries.take b = bl.entries.take a ++ (bl.entries.take b).drop a := by
    have := (List.take_append_drop a (bl.entries.take b)).symm
    rwa [List.take_take, Nat.min_eq_left (Nat.le_of_lt hab)] at this
  rw [hsplit, encEntries_append, List.length_append]
  have hl : ((bl.entries.take b).drop a).length = b - a := by
    rw [List.length_drop, List.length_take, Nat.min_eq_left hb]
  have := encEntries_length_ge bl.share ((bl.entries.take b).drop a) (0 + (bl.entries.take a).length)
  omega

theorem entryOffset_le_body (bl : BlockLayout) (j : Nat) :
    bl.entryOffset j ≤ (encEntries bl.share 0 bl.entries).length := by
  unfold BlockLayout.entryOffset
  have := congrArg (fun l => (encEntries bl.share 0 l).length) (List.take_append_drop j bl.entries)
  simp only [encEntries_append, List.length_append] at this
  omega

theorem encodeBlock_length (bl : BlockLayout) : (encodeBlock bl).length
    = (encEntries bl.share 0 bl.entries).length + 4 * bl.restartAt.length + 4 := by
  simp only [encodeBlock, List.length_append, flatMap_encU32le_length, encU32le_length,
    BlockLayout.restartOffsets, List.length_map]

/-- **the block parser inverts the block encoder** on every well-formed block layout -/
theorem parseBlock_encodeBlock (bl : BlockLayout) (wf : bl.WF) :
    parseBlock (encodeBlock bl) = some { entries := bl.entries, restarts := bl.restartOffsets } := by
  have hlen := encodeBlock_length bl
  have hsmall := wf.small
  have hRlen : (bl.restartOffsets.flatMap encU32le).length = 4 * bl.restartAt.length := by
    rw [flatMap_encU32le_length, BlockLayout.restartOffsets, List.length_map]
  have h0mem : 0 ∈ bl.restartAt := by
    have := wf.first
    cases hr : bl.restartAt with
    | nil => rw [hr] at this; simp at this
    | cons a l => rw [hr] at this; simp at this; subst this; simp
  have hn0 : bl.restartAt.length ≠ 0 := by
    intro h; rw [List.length_eq_zero_iff] at h; rw [h] at h0mem; simp at h0mem
  have hbodyLen : (encodeBlock bl).length - 4 - 4 * bl.restartAt.length
      = (encEntries bl.share 0 bl.entries).length := by omega
  have hcount : u32le ((encodeBlock bl).drop ((encodeBlock bl).length - 4))
      = some bl.restartAt.length := by
    unfold encodeBlock
    rw [List.drop_left' (by
      simp only [List.length_append, encU32le_length]; omega)]
    exact u32le_encU32le _ (by omega)
  have hrs : u32list (((encodeBlock bl).drop ((encodeBlock bl).length - 4 - 4 * bl.restartAt.length)).take
      (4 * bl.restartAt.length)) = some bl.restartOffsets := by
    rw [hbodyLen]
    unfold encodeBlock
    rw [List.append_assoc, List.drop_left' rfl, List.take_left' hRlen]
    apply u32list_flatMap
    intro x hx
    simp only [BlockLayout.restartOffsets, List.mem_map] at hx
    obtain ⟨j, _, rfl⟩ := hx
    have := entryOffset_le_body bl j
    omega
  have hshare : ShareOK bl.share 0 [] bl.entries := by
    apply shareOK_of
    · intro e _
      rw [wf.shareZero 0 h0mem]; exact Nat.zero_le _
    · intro j a b ha hb
      have := wf.shareLe j a b ha hb
      simpa using this
  have hes : entries ((encodeBlock bl).take ((encodeBlock bl).length - 4 - 4 * bl.restartAt.length)) 0 []
      ((encodeBlock bl).length - 4 - 4 * bl.restartAt.length + 1)
      = some (entryOuts bl.share 0 0 bl.entries) := by
    rw [hbodyLen]
    unfold encodeBlock
    rw [List.append_assoc, List.take_left' rfl]
    apply entries_encEntries
    · have := encEntries_length_ge bl.share bl.entries 0; omega
    · exact hshare
    · simp only [List.length_nil]; omega
  have := SBC.parseBlock_intro (encodeBlock bl) bl.restartAt.length bl.restartOffsets
    (entryOuts bl.share 0 0 bl.entries) (by omega) hcount hn0 (by omega) hrs hes ?_ ?_ ?_
  · rw [this, entryOuts_map_fst]
  · -- first restart offset is 0
    have := wf.first
    cases hr : bl.restartAt with
    | nil => rw [hr] at this; simp at this
    | cons a l =>
      rw [hr] at this; simp at this; subst this
      simp [BlockLayout.restartOffsets, hr, BlockLayout.entryOffset, encEntries]
  · -- every restart offset is the start of an entry that shares nothing
    intro r hr
    simp only [BlockLayout.restartOffsets, List.mem_map] at hr
    obtain ⟨j, hj, rfl⟩ := hr
    by_cases hjl : j < bl.entries.length
    · left
      have hget : bl.entries[j]? = some bl.entries[j] := List.getElem?_eq_getElem hjl
      have ho := entryOuts_getElem? bl.share bl.entries 0 0 j _ hget
      refine ⟨_, List.mem_of_getElem? ho, ?_, ?_⟩
      · simp [BlockLayout.entryOffset]
      · simp only [Nat.zero_add]; exact wf.shareZero j hj
    · right
      have hj0 : j = 0 := by rcases wf.inRange j hj with h | h <;> omega
      subst hj0
      have hnil : bl.entries = [] := List.eq_nil_of_length_eq_zero (by omega)
      simp [hnil, entryOuts, BlockLayout.entryOffset, encEntries]
  · -- restart offsets strictly increase
    apply pairwise_zip_tail
    unfold BlockLayout.restartOffsets
    rw [List.pairwise_map]
    refine List.Pairwise.imp_of_mem ?_ wf.incr
    intro a b _ hb hab
    refine entryOffset_lt bl a b hab ?_
    rcases wf.inRange b hb with h | h <;> omega

/-! ### physical blocks -/

theorem physWith_length (ty : UInt8) (raw : Bytes) : (physWith ty raw).length = raw.length + 5 := by
  simp only [physWith, List.length_append, encU32le_length, List.length_cons, List.length_nil]

theorem mask_lt (c : Nat) : mask c < 2 ^ 32 := Nat.mod_lt _ (by decide)

/-- the pieces the block reader cuts out of an image that holds a physical block after `pre` -/
theorem phys_parts (pre post raw : Bytes) (ty : UInt8) :
    ¬ (pre.length + raw.length + trailerLen > (pre ++ physWith ty raw ++ post).length)
    ∧ ((pre ++ physWith ty raw ++ post).drop pre.length).take raw.length = raw
    ∧ ((pre ++ physWith ty raw ++ post).drop (pre.length + raw.length)).take 1 = [ty]
    ∧ ((pre ++ physWith ty raw ++ post).drop (pre.length + raw.length + 1)).take 4
        = encU32le (mask (crc32c (raw ++ [ty]))) := by
  have e : pre ++ physWith ty raw ++ post
      = pre ++ (raw ++ ([ty] ++ (encU32le (mask (crc32c (raw ++ [ty]))) ++ post))) := by
    simp only [physWith, List.append_assoc]
  refine ⟨?_, ?_, ?_, ?_⟩
  · simp only [List.length_append, physWith_length, trailerLen]; omega
  · rw [e, List.drop_left' rfl, List.take_left' rfl]
  · rw [e, ← List.append_assoc, List.drop_left' (by simp), List.take_left' (l₁ := [ty]) (i := 1) rfl]
  · rw [e, ← List.append_assoc, ← List.append_assoc, List.drop_left' (by simp [Nat.add_assoc]),
      List.take_left' (l₁ := encU32le _) (i := 4) rfl]

theorem block_physWith_zero (pre post raw : Bytes) :
    block (pre ++ physWith 0 raw ++ post) ⟨pre.length, raw.length⟩ = some raw := by
  obtain ⟨h1, h2, h3, h4⟩ := phys_parts pre post raw 0
  unfold block
  simp only []
  rw [if_neg h1, h2, h3, h4, u32le_encU32le _ (mask_lt _), if_neg (by simp)]
  rfl

theorem block_physWith_one (pre post raw : Bytes) :
    block (pre ++ physWith 1 raw ++ post) ⟨pre.length, raw.length⟩ = Snappy.decode raw := by
  obtain ⟨h1, h2, h3, h4⟩ := phys_parts pre post raw 1
  unfold block
  simp only []
  rw [if_neg h1, h2, h3, h4, u32le_encU32le _ (mask_lt _), if_neg (by simp)]
  rfl

/-! ### sections of a file -/

theorem layoutBytes_append (a b : List Section) : layoutBytes (a ++ b) = layoutBytes a ++ layoutBytes b := by
  simp only [layoutBytes, List.flatMap_append]

theorem layoutBytes_cons (s : Section) (l : List Section) :
    layoutBytes (s :: l) = s.bytes ++ layoutBytes l := by
  simp only [layoutBytes, List.flatMap_cons]

theorem secs_split (secs : List Section) (j : Nat) (s : Section) (hs : secs[j]? = some s) :
    secs = secs.take j ++ s :: secs.drop (j + 1) := by
  have hj : j < secs.length := (List.getElem?_eq_some_iff.mp hs).1
  have hget : secs[j] = s := (List.getElem?_eq_some_iff.mp hs).2
  rw [← hget, List.getElem_cons_drop, List.take_append_drop]

theorem getD_of_getElem? (secs : List Section) (j : Nat) (s : Section) (hs : secs[j]? = some s) :
    secs.getD j emptySection = s := by
  rw [List.getD_eq_getElem?_getD, hs]; rfl

theorem handleIn_append (secs more : List Section) (j : Nat) (hj : j < secs.length) :
    handleIn (secs ++ more) j = handleIn secs j := by
  unfold handleIn
  have h1 : (secs ++ more).take j = secs.take j := List.take_append_of_le_length (Nat.le_of_lt hj)
  have h2 : (secs ++ more).getD j emptySection = secs.getD j emptySection := by
    rw [List.getD_eq_getElem?_getD, List.getD_eq_getElem?_getD, List.getElem?_append_left hj]
  rw [h1, h2]

/-- a section lies inside the file -/
theorem handleIn_bound (secs : List Section) (j : Nat) (s : Section) (hs : secs[j]? = some s) :
    (handleIn secs j).offset + (handleIn secs j).size + 5 ≤ (layoutBytes secs).length := by
  have hsp := secs_split secs j s hs
  have hl := congrArg (fun l => (layoutBytes l).length) hsp
  simp only [layoutBytes_append, layoutBytes_cons, List.length_append, Section.bytes,
    physWith_length] at hl
  simp only [handleIn, getD_of_getElem? secs j s hs]
  omega

/-- offsets grow with the position in the file -/
theorem handleIn_offset_lt (secs : List Section) (i j : Nat) (hij : i < j) (hj : j < secs.length) :
    (handleIn secs i).offset < (handleIn secs j).offset := by
  have hi : i < secs.length := by omega
  have hs : (secs.take j)[i]? = some secs[i] := by
    rw [List.getElem?_take_of_lt hij, List.getElem?_eq_getElem hi]
  have hb := handleIn_bound (secs.take j) i secs[i] hs
  have h1 : handleIn (secs.take j) i = handleIn secs i := by
    have := handleIn_append (secs.take j) (secs.drop j) i (by rw [List.length_take]; omega)
    rw [List.take_append_drop] at this
    exact this.symm
  rw [h1] at hb
  have : (handleIn secs j).offset
      = (layoutBytes (secs.take j)).length + (secs.getD j emptySection).gap.length := rfl
  omega

/-- the block reader finds the contents of every section of a file, whatever follows the sections -/
theorem block_section (secs : List Section) (post : Bytes) (j : Nat) (s : Section)
    (hs : secs[j]? = some s) (ok : s.OK) :
    block (layoutBytes secs ++ post) (handleIn secs j) = some (encodeBlock s.block) := by
  have hsp := secs_split secs j s hs
  have himg : layoutBytes secs ++ post
      = (layoutBytes (secs.take j) ++ s.gap) ++ physWith s.ty s.raw
          ++ (layoutBytes (secs.drop (j + 1)) ++ post) := by
    conv => lhs; rw [hsp]
    simp only [layoutBytes_append, layoutBytes_cons, Section.bytes, List.append_assoc]
  have hh : handleIn secs j = ⟨(layoutBytes (secs.take j) ++ s.gap).length, s.raw.length⟩ := by
    simp only [handleIn, getD_of_getElem? secs j s hs, List.length_append]
  rw [himg, hh]
  cases hst : s.stored with
  | none =>
    have hty : s.ty = 0 := by simp [Section.ty, hst]
    have hraw : s.raw = encodeBlock s.block := by simp [Section.raw, hst]
    rw [hty, block_physWith_zero, hraw]
  | some raw =>
    have hty : s.ty = 1 := by simp [Section.ty, hst]
    have hraw : s.raw = raw := by simp [Section.raw, hst]
    rw [hty, block_physWith_one, hraw, ok.stored raw hst]

/-- … and the handle of a section points at its stored bytes -/
theorem raw_at_handle (secs : List Section) (post : Bytes) (j : Nat) (s : Section)
    (hs : secs[j]? = some s) :
    ((layoutBytes secs ++ post).drop (handleIn secs j).offset).take (handleIn secs j).size = s.raw := by
  have hsp := secs_split secs j s hs
  have himg : layoutBytes secs ++ post
      = (layoutBytes (secs.take j) ++ s.gap) ++ physWith s.ty s.raw
          ++ (layoutBytes (secs.drop (j + 1)) ++ post) := by
    conv => lhs; rw [hsp]
    simp only [layoutBytes_append, layoutBytes_cons, Section.bytes, List.append_assoc]
  have hh : handleIn secs j = ⟨(layoutBytes (secs.take j) ++ s.gap).length, s.raw.length⟩ := by
    simp only [handleIn, getD_of_getElem? secs j s hs, List.length_append]
  rw [himg, hh]
  exact (phys_parts _ _ _ _).2.1

/-! ### the footer -/

theorem magic_length : magic.length = 8 := rfl

theorem encHandle_length_le (h : Handle) (ho : h.offset < 2 ^ 64) (hs : h.size < 2 ^ 64) :
    (encHandle h).length ≤ 20 := by
  have := encVarint_length_le _ ho
  have := encVarint_length_le _ hs
  simp only [encHandle, List.length_append]; omega

theorem mapM_map_option {α β γ : Type} (f : α → β) (g : β → Option γ) (k : α → γ) :
    ∀ l : List α, (∀ a ∈ l, g (f a) = some (k a)) → (l.map f).mapM g = some (l.map k)
  | [], _ => rfl
  | a :: l, h => by
    rw [List.map_cons, List.mapM_cons, h a (by simp),
      mapM_map_option f g k l (fun a' ha' => h a' (by simp [ha']))]
    rfl

end Enc

open Enc in
/-- **the table decoder inverts the table encoder** on every well-formed table layout -/
theorem decodeTable_encodeTable (tl : TableLayout) (wf : tl.WF) :
    decodeTable (encodeTable tl) = some tl.decoded := by
  have hsmall := wf.small
  -- the image: sections and index block, then gap and footer
  have himg : encodeTable tl = layoutBytes tl.allSections ++ (tl.footerGap ++ tl.footer) := by
    simp only [encodeTable, List.append_assoc]
  have hlenimg : (encodeTable tl).length
      = (layoutBytes tl.allSections).length + tl.footerGap.length + tl.footer.length := by
    simp only [encodeTable, List.length_append]
  -- sections
  have hsecAll : ∀ j, j < tl.sections.length → tl.allSections[j]? = some (tl.sectionAt j) := by
    intro j hj
    simp only [TableLayout.allSections, TableLayout.sectionAt]
    rw [List.getElem?_append_left hj, List.getD_eq_getElem?_getD, List.getElem?_eq_getElem hj]
    rfl
  have hallOK : ∀ s ∈ tl.allSections, s.OK := by
    intro s hs
    simp only [TableLayout.allSections, List.mem_append, List.mem_cons] at hs
    rcases hs with h | rfl | h
    · exact wf.sections s h
    · exact wf.index
    · exact wf.tail s h
  have hmetaAll : tl.allSections[tl.metaAt]? = some tl.metaSection := by
    simp only [TableLayout.metaSection]
    rw [List.getD_eq_getElem?_getD, List.getElem?_eq_getElem wf.metaIn]
    rfl
  have hsecOK : ∀ j, j < tl.sections.length → (tl.sectionAt j).OK := by
    intro j hj
    apply wf.sections
    simp only [TableLayout.sectionAt]
    rw [List.getD_eq_getElem?_getD, List.getElem?_eq_getElem hj]
    exact List.getElem_mem hj
  have hhAll : ∀ j, j < tl.sections.length → tl.handleOf j = handleIn tl.allSections j := by
    intro j hj
    exact (handleIn_append tl.sections (tl.indexSection :: tl.tail) j hj).symm
  have hixAll : tl.allSections[tl.sections.length]? = some tl.indexSection := by
    simp [TableLayout.allSections]
  have hblock : ∀ j s, tl.allSections[j]? = some s → s.OK →
      block (encodeTable tl) (handleIn tl.allSections j) = some (encodeBlock s.block) := by
    intro j s hs ok
    rw [himg]
    exact block_section tl.allSections _ j s hs ok
  have hbound : ∀ j s, tl.allSections[j]? = some s →
      (handleIn tl.allSections j).offset < 2 ^ 64 ∧ (handleIn tl.allSections j).size < 2 ^ 64 := by
    intro j s hs
    have := handleIn_bound tl.allSections j s hs
    omega
  have hmb : tl.metaHandle.offset < 2 ^ 64 ∧ tl.metaHandle.size < 2 ^ 64 := hbound tl.metaAt _ hmetaAll
  have hib : tl.indexHandle.offset < 2 ^ 64 ∧ tl.indexHandle.size < 2 ^ 64 :=
    hbound tl.sections.length _ hixAll
  -- the footer
  have hhs : (encHandle tl.metaHandle ++ encHandle tl.indexHandle).length ≤ 40 := by
    have := encHandle_length_le _ hmb.1 hmb.2
    have := encHandle_length_le tl.indexHandle hib.1 hib.2
    simp only [List.length_append]; omega
  have hpad : ((tl.footerPad ++ List.replicate 40 0).take
      (40 - (encHandle tl.metaHandle ++ encHandle tl.indexHandle).length)).length
      = 40 - (encHandle tl.metaHandle ++ encHandle tl.indexHandle).length := by
    have := hhs
    simp only [List.length_take, List.length_append, List.length_replicate] at this ⊢
    omega
  have hfoot40 : (encHandle tl.metaHandle ++ encHandle tl.indexHandle
      ++ (tl.footerPad ++ List.replicate 40 0).take
        (40 - (encHandle tl.metaHandle ++ encHandle tl.indexHandle).length)).length = 40 := by
    rw [List.length_append, hpad]; omega
  have hfootlen : tl.footer.length = 48 := by
    simp only [TableLayout.footer]
    rw [List.length_append, hfoot40, magic_length]
  have hfoot : (encodeTable tl).drop ((encodeTable tl).length - footerLen) = tl.footer := by
    unfold encodeTable
    apply List.drop_left'
    simp only [List.length_append, footerLen]; omega
  have hmagic : tl.footer.drop 40 = magic := by
    simp only [TableLayout.footer]
    exact List.drop_left' hfoot40
  have htake : tl.footer.take 40 = encHandle tl.metaHandle ++ (encHandle tl.indexHandle
      ++ (tl.footerPad ++ List.replicate 40 0).take
        (40 - (encHandle tl.metaHandle ++ encHandle tl.indexHandle).length)) := by
    simp only [TableLayout.footer]
    rw [List.take_left' hfoot40, List.append_assoc]
  -- the index block and the metaindex block
  have hixblock : block (encodeTable tl) tl.indexHandle = some (encodeBlock tl.indexBlock) :=
    hblock _ _ hixAll wf.index
  have hmOK : tl.metaSection.OK := hallOK _ (List.mem_of_getElem? hmetaAll)
  have hmblock : block (encodeTable tl) tl.metaHandle = some (encodeBlock tl.metaSection.block) :=
    hblock _ _ hmetaAll hmOK
  have hixwf : tl.indexBlock.WF := wf.index.block
  -- the data blocks
  have hdata : ∀ p ∈ tl.index, ST.dataStep (encodeTable tl) (p.1, encHandle (tl.handleOf p.2))
      = some { handle := tl.handleOf p.2, indexKey := p.1,
               entries := (tl.sectionAt p.2).block.entries,
               restarts := (tl.sectionAt p.2).block.restartOffsets } := by
    intro p hp
    have hj := wf.indexIn p hp
    have hb := hbound p.2 _ (hsecAll _ hj)
    rw [← hhAll _ hj] at hb
    have hh := handle_encHandle (tl.handleOf p.2) hb.1 hb.2 []
    rw [List.append_nil] at hh
    have hbl : block (encodeTable tl) (tl.handleOf p.2) = some (encodeBlock (tl.sectionAt p.2).block) := by
      rw [hhAll _ hj]
      exact hblock _ _ (hsecAll _ hj) (hsecOK _ hj)
    rw [ST.dataStep_eq, hh, Option.bind_some, hbl, Option.bind_some,
      parseBlock_encodeBlock _ (hsecOK _ hj).block, Option.bind_some]
  rw [ST.decodeTable_eq, if_neg (by rw [hlenimg, hfootlen]; simp only [footerLen]; omega), hfoot,
    if_neg (by rw [hmagic]; simp), htake, handle_encHandle _ hmb.1 hmb.2, Option.bind_some]
  simp only []
  rw [handle_encHandle _ hib.1 hib.2, Option.bind_some]
  simp only []
  rw [hixblock, Option.bind_some, parseBlock_encodeBlock _ hixwf, Option.bind_some,
    hmblock, Option.bind_some, parseBlock_encodeBlock _ hmOK.block, Option.bind_some]
  simp only []
  have hmap : (tl.indexBlock.entries).mapM (ST.dataStep (encodeTable tl))
      = some (tl.index.map fun p =>
          ({ handle := tl.handleOf p.2, indexKey := p.1, entries := (tl.sectionAt p.2).block.entries,
             restarts := (tl.sectionAt p.2).block.restartOffsets } : DataBlock)) :=
    mapM_map_option _ _ _ tl.index hdata
  rw [hmap, Option.bind_some]
  rfl

/-! ### from a layout to a well-formed table (`WFTable`) -/

namespace Enc

theorem nodup_getElem?_inj {α : Type} : ∀ (l : List α) (i j : Nat) (a : α), l.Nodup →
    l[i]? = some a → l[j]? = some a → i = j
  | [], _, _, _, _, h, _ => by simp at h
  | x :: l, 0, 0, _, _, _, _ => rfl
  | x :: l, 0, j + 1, a, hn, hi, hj => by
    simp only [List.getElem?_cons_zero, Option.some.injEq] at hi
    simp only [List.getElem?_cons_succ] at hj
    subst hi
    exact absurd (List.mem_of_getElem? hj) (List.nodup_cons.mp hn).1
  | x :: l, i + 1, 0, a, hn, hi, hj => by
    simp only [List.getElem?_cons_zero, Option.some.injEq] at hj
    simp only [List.getElem?_cons_succ] at hi
    subst hj
    exact absurd (List.mem_of_getElem? hi) (List.nodup_cons.mp hn).1
  | x :: l, i + 1, j + 1, a, hn, hi, hj => by
    simp only [List.getElem?_cons_succ] at hi hj
    rw [nodup_getElem?_inj l i j a (List.nodup_cons.mp hn).2 hi hj]

/-- elements of an earlier list of a flattened pairwise-related list are related to those of a later -/
theorem pairwise_flatten_get {α : Type} (R : α → α → Prop) : ∀ (L : List (List α)) (a b : Nat)
    (la lb : List α), a < b → L[a]? = some la → L[b]? = some lb → L.flatten.Pairwise R →
    ∀ x ∈ la, ∀ y ∈ lb, R x y
  | [], _, _, _, _, _, h, _, _ => by simp at h
  | l :: L, 0, 0, _, _, h, _, _, _ => by omega
  | l :: L, _ + 1, 0, _, _, h, _, _, _ => by omega
  | l :: L, 0, b + 1, la, lb, _, ha, hb, hp => by
    simp only [List.getElem?_cons_zero, Option.some.injEq] at ha
    simp only [List.getElem?_cons_succ] at hb
    subst ha
    rw [List.flatten_cons, List.pairwise_append] at hp
    intro x hx y hy
    exact hp.2.2 x hx y (List.mem_flatten.mpr ⟨lb, List.mem_of_getElem? hb, hy⟩)
  | l :: L, a + 1, b + 1, la, lb, hab, ha, hb, hp => by
    simp only [List.getElem?_cons_succ] at ha hb
    rw [List.flatten_cons, List.pairwise_append] at hp
    exact pairwise_flatten_get R L a b la lb (by omega) ha hb hp.2.1

theorem decoded_entries (tl : TableLayout) : tl.decoded.entries = tl.entries := by
  simp only [Decoded.entries, TableLayout.decoded, TableLayout.entries, List.map_map]
  rfl

theorem decoded_blocks_get (tl : TableLayout) (i : Nat) (b : DataBlock)
    (h : tl.decoded.blocks[i]? = some b) :
    ∃ p, tl.index[i]? = some p ∧ b.handle = tl.handleOf p.2 ∧ b.indexKey = p.1
      ∧ b.entries = (tl.sectionAt p.2).block.entries
      ∧ b.restarts = (tl.sectionAt p.2).block.restartOffsets := by
  simp only [TableLayout.decoded, List.getElem?_map] at h
  cases hp : tl.index[i]? with
  | none => rw [hp] at h; simp at h
  | some p =>
    rw [hp] at h
    simp only [Option.map_some, Option.some.injEq] at h
    subst h
    exact ⟨p, rfl, rfl, rfl, rfl, rfl⟩

end Enc

open Enc in
/-- a well-formed layout whose keys are sorted and whose index keys bracket their blocks encodes to a
    well-formed table in the sense of `Spec/WFTable.lean` -/
theorem wfTable_of_layout (cmp : Cmp) (hc : cmp.Lawful) (tl : TableLayout) (wf : tl.WF)
    (ho : tl.Ordered cmp) : WFTable cmp (encodeTable tl) tl.decoded where
  decodes := decodeTable_encodeTable tl wf
  small := wf.small
  nonempty := by
    intro b hb
    obtain ⟨i, hi⟩ := List.getElem?_of_mem hb
    obtain ⟨p, hp, _, _, he, _⟩ := decoded_blocks_get tl i b hi
    rw [he]
    exact ho.nonempty p (List.mem_of_getElem? hp)
  sorted := by rw [decoded_entries]; exact ho.sorted
  sepGe := by
    intro b hb e he
    obtain ⟨i, hi⟩ := List.getElem?_of_mem hb
    obtain ⟨p, hp, _, hk, hes, _⟩ := decoded_blocks_get tl i b hi
    rw [hk]
    rw [hes] at he
    exact ho.sepGe p (List.mem_of_getElem? hp) e he
  sepLt := by
    intro i j bi bj hij hbi hbj e he
    obtain ⟨p, hp, _, hk, _, _⟩ := decoded_blocks_get tl i bi hbi
    obtain ⟨q, hq, _, _, hes, _⟩ := decoded_blocks_get tl j bj hbj
    rw [hk]
    rw [hes] at he
    have hjl : j < tl.index.length := (List.getElem?_eq_some_iff.mp hq).1
    have hi1 : tl.index[i + 1]? = some tl.index[i + 1] := List.getElem?_eq_getElem (by omega)
    by_cases hj : j = i + 1
    · subst hj
      exact ho.sepNext i p q hp hq e he
    · -- through the first key of the next block
      have hne := ho.nonempty _ (List.mem_of_getElem? hi1)
      obtain ⟨e0, he0⟩ := List.exists_mem_of_ne_nil _ hne
      have h1 := ho.sepNext i p _ hp hi1 e0 he0
      have hs := ho.sorted
      rw [List.pairwise_map] at hs
      have h2 := pairwise_flatten_get (fun a b : Spec.Entry => cmp.cmp a.1 b.1 = .lt)
        (tl.index.map fun p => (tl.sectionAt p.2).block.entries) (i + 1) j _ _ (by omega)
        (by rw [List.getElem?_map, hi1]; rfl) (by rw [List.getElem?_map, hq]; rfl) hs e0 he0 e he
      exact hc.trans _ _ _ h1 h2
  distinct := by
    intro i j bi bj hbi hbj hoff
    obtain ⟨p, hp, hph, _, _, _⟩ := decoded_blocks_get tl i bi hbi
    obtain ⟨q, hq, hqh, _, _, _⟩ := decoded_blocks_get tl j bj hbj
    rw [hph, hqh] at hoff
    have hpl := wf.indexIn p (List.mem_of_getElem? hp)
    have hql := wf.indexIn q (List.mem_of_getElem? hq)
    have hpq : p.2 = q.2 := by
      rcases Nat.lt_trichotomy p.2 q.2 with h | h | h
      · have := handleIn_offset_lt tl.sections p.2 q.2 h hql
        simp only [TableLayout.handleOf] at hoff; omega
      · exact h
      · have := handleIn_offset_lt tl.sections q.2 p.2 h hpl
        simp only [TableLayout.handleOf] at hoff; omega
    exact nodup_getElem?_inj (tl.index.map (·.2)) i j p.2 ho.nodup
      (by rw [List.getElem?_map, hp]; rfl) (by rw [List.getElem?_map, hq, hpq]; rfl)
  metaSorted := ho.metaSorted

/-! ### decidable forms of the side conditions (to discharge them on concrete layouts by evaluation) -/

namespace Enc

theorem getD_of_getElem?' {α : Type} (l : List α) (i : Nat) (a d : α) (h : l[i]? = some a) :
    l.getD i d = a := by
  rw [List.getD_eq_getElem?_getD, h]; rfl

theorem blockWF_of_checks (bl : BlockLayout)
    (h1 : bl.restartAt.head? = some 0)
    (h2 : bl.restartAt.Pairwise (· < ·))
    (h3 : ∀ r ∈ bl.restartAt, (r < bl.entries.length ∨ r = 0) ∧ bl.share r = 0)
    (h4 : ∀ i, i < bl.entries.length - 1 →
      bl.share (i + 1) ≤ commonPrefix (bl.entries.getD i ([], [])).1 (bl.entries.getD (i + 1) ([], [])).1)
    (h5 : (encodeBlock bl).length < 2 ^ 32) : bl.WF where
  first := h1
  incr := h2
  inRange := fun r hr => (h3 r hr).1
  shareZero := fun r hr => (h3 r hr).2
  shareLe := by
    intro i a b ha hb
    have hl : i + 1 < bl.entries.length := (List.getElem?_eq_some_iff.mp hb).1
    have := h4 i (by omega)
    rwa [getD_of_getElem?' _ _ _ _ ha, getD_of_getElem?' _ _ _ _ hb] at this
  small := h5

theorem ordered_of_checks (cmp : Cmp) (tl : TableLayout)
    (h1 : ∀ p ∈ tl.index, (tl.sectionAt p.2).block.entries ≠ []
      ∧ ∀ e ∈ (tl.sectionAt p.2).block.entries, cmp.cmp e.1 p.1 ≠ .gt)
    (h2 : (tl.entries.map (·.1)).Pairwise (fun a b => cmp.cmp a b = .lt))
    (h3 : ∀ i, i < tl.index.length - 1 →
      ∀ e ∈ (tl.sectionAt (tl.index.getD (i + 1) ([], 0)).2).block.entries,
        cmp.cmp (tl.index.getD i ([], 0)).1 e.1 = .lt)
    (h4 : (tl.index.map (·.2)).Nodup)
    (h5 : (tl.metaEntries.map (·.1)).Pairwise (fun a b => cmp.cmp a b = .lt)) : tl.Ordered cmp where
  nonempty := fun p hp => (h1 p hp).1
  sorted := h2
  sepGe := fun p hp => (h1 p hp).2
  sepNext := by
    intro i p q hp hq
    have hl : i + 1 < tl.index.length := (List.getElem?_eq_some_iff.mp hq).1
    have := h3 i (by omega)
    rwa [getD_of_getElem?' _ _ _ _ hp, getD_of_getElem?' _ _ _ _ hq] at this
  nodup := h4
  metaSorted := h5

end Enc

end Sst.Spec.Format
