import SstModel.Lemmas.BlockVerify
import SstModel.Lemmas.IterRun
/-
  C08, "without allocating without bound": every allocation the reader makes (`World.allocs`: the
  `read_bytes` buffers, the footer buffer, the buffer `decompress_vec` allocates up front) is bounded by
  a multiple of the declared file size — for ANY file bytes, ANY fault schedule, ANY cache contents,
  whether or not the operation succeeds.

  `Alloc B m Q`: whatever `m` does, every size it adds to `allocs` is at most `B`, and a result
  `ok a` satisfies `Q a`. Nothing is assumed about the world, and nothing about the outcome.
-/
namespace Sst
namespace AB

/-- every allocation logged in `w'` was already logged in `w` or is at most `B` -/
def Step (B : Nat) (w w' : World) : Prop := ∀ a ∈ w'.allocs, a ∈ w.allocs ∨ a ≤ B

theorem Step.refl (B : Nat) (w : World) : Step B w w := fun _ h => .inl h

theorem Step.of_eq {B : Nat} {w w' : World} (h : w'.allocs = w.allocs) : Step B w w' :=
  fun _ ha => .inl (h ▸ ha)

theorem Step.trans {B : Nat} {w1 w2 w3 : World} (h1 : Step B w1 w2) (h2 : Step B w2 w3) :
    Step B w1 w3 := by
  intro a ha
  rcases h2 a ha with h | h
  · exact h1 a h
  · exact .inr h

theorem Step.mono {B B' : Nat} {w w' : World} (hB : B ≤ B') (h : Step B w w') : Step B' w w' := by
  intro a ha
  rcases h a ha with h | h
  · exact .inl h
  · exact .inr (Nat.le_trans h hB)

theorem Step.append {B : Nat} {w w' : World} {l : List Nat} (h : w'.allocs = l ++ w.allocs)
    (hl : ∀ a ∈ l, a ≤ B) : Step B w w' := by
  intro a ha
  rw [h, List.mem_append] at ha
  rcases ha with ha | ha
  · exact .inr (hl a ha)
  · exact .inl ha

/-- whatever `m` does (result `ok`, `err`, `panic` or `diverge`), it only adds allocations of at most
    `B`; results `ok a` satisfy `Q a` -/
def Alloc {α} (B : Nat) (m : M α) (Q : α → Prop) : Prop :=
  ∀ w, Step B w (m w).1 ∧ ∀ a, (m w).2 = .ok a → Q a

theorem Alloc.mono {α} {B} {m : M α} {Q Q' : α → Prop} (h : Alloc B m Q) (hq : ∀ a, Q a → Q' a) :
    Alloc B m Q' :=
  fun w => ⟨(h w).1, fun a ha => hq a ((h w).2 a ha)⟩

theorem alloc_bind {α β} {B} {m : M α} {f : α → M β} {Q : α → Prop} {R : β → Prop}
    (h1 : Alloc B m Q) (h2 : ∀ a, Q a → Alloc B (f a) R) : Alloc B (m >>= f) R := by
  intro w
  show Step B w (M.bind' m f w).1 ∧ ∀ a, (M.bind' m f w).2 = .ok a → R a
  unfold M.bind'
  obtain ⟨hs, hq⟩ := h1 w
  rcases hm : m w with ⟨w1, r⟩
  rw [hm] at hs hq
  cases r with
  | ok a =>
    obtain ⟨hs2, hq2⟩ := h2 a (hq a rfl) w1
    exact ⟨hs.trans hs2, hq2⟩
  | err c => exact ⟨hs, fun a h => by cases h⟩
  | panic s => exact ⟨hs, fun a h => by cases h⟩
  | diverge => exact ⟨hs, fun a h => by cases h⟩

theorem alloc_pure {α} {B} {Q : α → Prop} (a : α) (h : Q a) : Alloc B (pure a : M α) Q :=
  fun w => ⟨Step.refl B w, fun a' ha => by cases ha; exact h⟩

theorem alloc_fail {α} {B} {Q : α → Prop} (c : Code) : Alloc B (M.fail c : M α) Q :=
  fun w => ⟨Step.refl B w, fun a' ha => by cases ha⟩

theorem alloc_lift {α} {B} (r : Res α) : Alloc B (M.lift r) (fun _ => True) :=
  fun w => ⟨Step.refl B w, fun _ _ => trivial⟩

/-- a step that leaves `allocs` alone -/
theorem alloc_keep {α} {B} {m : M α} (h : ∀ w, (m w).1.allocs = w.allocs) :
    Alloc B m (fun _ => True) :=
  fun w => ⟨Step.of_eq (h w), fun _ _ => trivial⟩

theorem alloc_try {α} {B} {m : M α} {Q : α → Prop} (h : Alloc B m Q) :
    Alloc B (M.try' m) (fun r => ∀ a, r = .ok a → Q a) := by
  intro w
  obtain ⟨hs, hq⟩ := h w
  unfold M.try'
  rcases hm : m w with ⟨w1, r⟩
  rw [hm] at hs hq
  cases r with
  | ok a => exact ⟨hs, fun x hx => by cases hx; intro a' h'; cases h'; exact hq a rfl⟩
  | err c => exact ⟨hs, fun x hx => by cases hx; intro a' h'; cases h'⟩
  | panic s => exact ⟨hs, fun a h => by cases h⟩
  | diverge => exact ⟨hs, fun a h => by cases h⟩

/-! ### the primitives -/

theorem readAt_allocs (file off len : Nat) (w : World) : (readAt file off len w).1.allocs = w.allocs := by
  unfold readAt
  rcases w.sched with _ | ⟨f, rest⟩
  · rfl
  · cases f <;> rfl

theorem readBytes_allocs (file : Nat) (loc : BlockHandle) (w : World) :
    (readBytes file loc w).1.allocs = loc.size :: w.allocs :=
  readAt_allocs file loc.offset loc.size { w with allocs := loc.size :: w.allocs }

theorem alloc_readBytes {B} (file : Nat) (loc : BlockHandle) (h : loc.size ≤ B) :
    Alloc B (readBytes file loc) (fun _ => True) := by
  intro w
  refine ⟨Step.append (l := [loc.size]) (readBytes_allocs file loc w) ?_, fun _ _ => trivial⟩
  intro a ha
  cases List.mem_singleton.mp ha
  exact h

theorem alloc_decompressGuarded {B} (data : Bytes) (h : Consts.snappyMaxExpansion * data.length ≤ B) :
    Alloc B (decompressGuarded data) (fun _ => True) := by
  intro w
  refine ⟨Step.append (by rw [decompressGuarded_world]) ?_, fun _ _ => trivial⟩
  intro a ha
  split at ha
  · cases ha
  · split at ha
    · cases ha
    · cases List.mem_singleton.mp ha
      omega

/-- a block whose physical extent (contents, type byte, checksum) is at most `F` bytes: the read
    buffer is at most `F` and the decompression buffer at most `snappyMaxExpansion * F` -/
theorem alloc_readBlockContents {B F} (file : Nat) (loc : BlockHandle)
    (hF : loc.size + Consts.tableBlockCompressLen + Consts.tableBlockCksumLen ≤ F)
    (hB : (Consts.snappyMaxExpansion + 1) * F ≤ B) :
    Alloc B (readBlockContents file loc) (fun _ => True) := by
  have h32 : Consts.snappyMaxExpansion = 32 := rfl
  have h1 : Consts.tableBlockCompressLen = 1 := rfl
  have h4 : Consts.tableBlockCksumLen = 4 := rfl
  rw [h32] at hB
  rw [h1, h4] at hF
  unfold readBlockContents
  refine alloc_bind (alloc_readBytes file _ ?_) ?_
  · show loc.size + Consts.tableBlockCksumLen + Consts.tableBlockCompressLen ≤ B
    rw [h1, h4]; omega
  intro buf _
  simp only
  split
  · exact alloc_fail _
  · split
    · exact alloc_pure _ trivial
    · split
      · refine alloc_decompressGuarded _ ?_
        rw [h32, List.length_take]
        have := Nat.min_le_left loc.size buf.length
        omega
      · exact alloc_fail _

theorem alloc_readTableBlock {B F} (file : Nat) (loc : BlockHandle)
    (hF : loc.size + Consts.tableBlockCompressLen + Consts.tableBlockCksumLen ≤ F)
    (hB : (Consts.snappyMaxExpansion + 1) * F ≤ B) :
    Alloc B (readTableBlock file loc) (fun _ => True) := by
  unfold readTableBlock
  refine alloc_bind (alloc_readBlockContents file loc hF hB) ?_
  intro c _
  split
  · exact alloc_fail _
  · refine alloc_bind (alloc_lift _) ?_
    intro _ _
    exact alloc_pure _ trivial

theorem alloc_readFilterBlock {B F} (file : Nat) (loc : BlockHandle)
    (hF : loc.size + Consts.tableBlockCompressLen + Consts.tableBlockCksumLen ≤ F)
    (hB : (Consts.snappyMaxExpansion + 1) * F ≤ B) :
    Alloc B (Sst.readFilterBlock file loc) (fun _ => True) := by
  unfold Sst.readFilterBlock
  split
  · exact alloc_fail _
  · refine alloc_bind (alloc_readBlockContents file loc hF hB) ?_
    intro buf _
    split
    · exact alloc_fail _
    · exact alloc_lift _

theorem alloc_checkBlockBounds {B} (loc : BlockHandle) (fileSize : Nat) :
    Alloc B (checkBlockBounds loc fileSize)
      (fun _ => loc.size + Consts.tableBlockCompressLen + Consts.tableBlockCksumLen ≤ fileSize) := by
  unfold checkBlockBounds
  simp only
  split
  · rename_i h
    exact alloc_pure _ (by omega)
  · exact alloc_fail _

theorem alloc_curKV {B} (bi : BlockIter) : Alloc B (curKV bi) (fun _ => True) := alloc_lift _

/-! ### opening a table -/

theorem alloc_readFooter {B} (file size : Nat) (hB : Consts.fullFooterLength ≤ B) :
    Alloc B (Table.readFooter file size) (fun _ => True) := by
  unfold Table.readFooter
  split
  · exact alloc_fail _
  · refine alloc_bind (alloc_readBytes file _ hB) ?_
    intro buf _
    split
    · exact alloc_pure _ trivial
    · exact alloc_fail _

theorem alloc_tableReadFilterBlock {B} (metaix : Bytes) (file fileSize : Nat) (opt : ROpts)
    (hB : (Consts.snappyMaxExpansion + 1) * fileSize ≤ B) :
    Alloc B (Table.readFilterBlock metaix file fileSize opt) (fun _ => True) := by
  unfold Table.readFilterBlock
  simp only
  refine alloc_bind (alloc_lift _) ?_
  intro it _
  refine alloc_bind (alloc_lift _) ?_
  intro it2 _
  refine alloc_bind (alloc_curKV _) ?_
  intro kv _
  split
  · split
    · exact alloc_pure _ trivial
    · split
      · exact alloc_fail _
      · rename_i loc _ _
        split
        · refine alloc_bind (alloc_checkBlockBounds loc fileSize) ?_
          intro _ hsz
          refine alloc_bind (alloc_readFilterBlock file loc hsz hB) ?_
          intro r _
          exact alloc_pure _ trivial
        · exact alloc_pure _ trivial
  · exact alloc_pure _ trivial

/-- `Table::new` on ANY file: the footer buffer and, for each of the (at most three) blocks it reads,
    at most `size` bytes for the read and `snappyMaxExpansion * size` for decompression -/
theorem alloc_new {B} (opt : ROpts) (file size : Nat) (hfoot : Consts.fullFooterLength ≤ B)
    (hB : (Consts.snappyMaxExpansion + 1) * size ≤ B) :
    Alloc B (Table.new opt file size) (fun tb => tb.fileSize = size) := by
  unfold Table.new
  refine alloc_bind (alloc_readFooter file size hfoot) ?_
  intro footer _
  refine alloc_bind (alloc_checkBlockBounds footer.index size) ?_
  intro _ h1
  refine alloc_bind (alloc_checkBlockBounds footer.metaIndex size) ?_
  intro _ h2
  refine alloc_bind (alloc_readTableBlock file footer.index h1 hB) ?_
  intro ib _
  refine alloc_bind (alloc_readTableBlock file footer.metaIndex h2 hB) ?_
  intro mb _
  refine alloc_bind (alloc_tableReadFilterBlock mb file size opt hB) ?_
  intro filters _
  refine alloc_bind (alloc_keep (fun w => rfl)) ?_
  intro id _
  exact alloc_pure _ rfl

/-! ### `Table::read_block`, `Table::get`, `Table::approx_offset_of` -/

theorem alloc_readBlock {B} (t : Table) (loc : BlockHandle)
    (hB : (Consts.snappyMaxExpansion + 1) * t.fileSize ≤ B) :
    Alloc B (t.readBlock loc) (fun _ => True) := by
  unfold Table.readBlock
  refine alloc_bind (alloc_checkBlockBounds loc t.fileSize) ?_
  intro _ hsz
  simp only
  refine alloc_bind (alloc_keep (fun w => rfl)) ?_
  intro hit _
  split
  · exact alloc_pure _ trivial
  · refine alloc_bind (alloc_readTableBlock t.file loc hsz hB) ?_
    intro b _
    refine alloc_bind (alloc_keep (fun w => rfl)) ?_
    intro _ _
    exact alloc_pure _ trivial

theorem alloc_get {B} (t : Table) (key : Bytes)
    (hB : (Consts.snappyMaxExpansion + 1) * t.fileSize ≤ B) :
    Alloc B (t.get key) (fun _ => True) := by
  unfold Table.get
  refine alloc_bind (alloc_lift _) ?_
  intro it _
  refine alloc_bind (alloc_lift _) ?_
  intro it2 _
  refine alloc_bind (alloc_curKV _) ?_
  intro kv _
  split
  · exact alloc_pure _ trivial
  · split
    · exact alloc_pure _ trivial
    · split
      · exact alloc_fail _
      · rename_i handle _ _
        extract_lets jp
        have hjp : ∀ pass, Alloc B (jp pass) (fun _ => True) := by
          intro pass
          simp only [jp]
          split
          · exact alloc_pure _ trivial
          · refine alloc_bind (alloc_readBlock t handle hB) ?_
            intro tb _
            refine alloc_bind (alloc_lift _) ?_
            intro bi _
            refine alloc_bind (alloc_lift _) ?_
            intro bi2 _
            refine alloc_bind (alloc_curKV _) ?_
            intro kv2 _
            split
            · split
              · exact alloc_pure _ trivial
              · exact alloc_pure _ trivial
            · exact alloc_pure _ trivial
        split
        · exact alloc_bind (alloc_lift _) (fun pass _ => hjp pass)
        · exact alloc_bind (Q := fun _ => True) (alloc_pure true trivial) (fun pass _ => hjp pass)

theorem alloc_approx {B} (t : Table) (key : Bytes) : Alloc B (t.approxOffsetOf key) (fun _ => True) := by
  unfold Table.approxOffsetOf
  refine alloc_bind (alloc_lift _) ?_
  intro it _
  refine alloc_bind (alloc_lift _) ?_
  intro it2 _
  refine alloc_bind (alloc_curKV _) ?_
  intro kv _
  split
  · split
    · exact alloc_pure _ trivial
    · exact alloc_pure _ trivial
  · exact alloc_pure _ trivial

/-! ### the table iterator: every call keeps the table handle, hence the bound -/

theorem alloc_iterNew {B} (t : Table) : Alloc B (TableIter.new t) (fun it => it.table = t) := by
  unfold TableIter.new
  refine alloc_bind (alloc_lift _) ?_
  intro ib _
  exact alloc_pure _ rfl

theorem alloc_loadBlock {B} (it : TableIter) (handle : Bytes)
    (hB : (Consts.snappyMaxExpansion + 1) * it.table.fileSize ≤ B) :
    Alloc B (it.loadBlock handle) (fun it' => it'.table = it.table) := by
  unfold TableIter.loadBlock
  split
  · exact alloc_fail _
  · rename_i h _ _
    refine alloc_bind (alloc_readBlock it.table h hB) ?_
    intro b _
    refine alloc_bind (alloc_lift _) ?_
    intro bi _
    exact alloc_pure _ rfl

theorem alloc_skipToNextEntry {B} (it : TableIter)
    (hB : (Consts.snappyMaxExpansion + 1) * it.table.fileSize ≤ B) :
    Alloc B it.skipToNextEntry (fun r => r.1.table = it.table) := by
  unfold TableIter.skipToNextEntry
  refine alloc_bind (alloc_lift _) ?_
  intro r _
  obtain ⟨ib, e⟩ := r
  simp only
  split
  · refine alloc_bind (alloc_try (alloc_loadBlock _ _ hB)) ?_
    intro x hx
    split
    · rename_i it'
      exact alloc_pure _ (hx it' rfl)
    · exact alloc_pure _ rfl
  · exact alloc_pure _ rfl

theorem alloc_advanceLoop {B} : ∀ (fuel : Nat) (it : TableIter),
    (Consts.snappyMaxExpansion + 1) * it.table.fileSize ≤ B →
    Alloc B (it.advanceLoop fuel) (fun r => r.1.table = it.table) := by
  intro fuel
  induction fuel with
  | zero =>
    intro it _ w
    exact ⟨Step.refl B w, fun a h => by cases h⟩
  | succ fuel ih =>
    intro it hB
    unfold TableIter.advanceLoop
    extract_lets jp
    have hjp : ∀ s : TableIter × Bool, s.1.table = it.table →
        Alloc B (jp s) (fun r => r.1.table = it.table) := by
      intro s hs
      obtain ⟨it1, ok⟩ := s
      simp only at hs
      simp only [jp]
      split
      · exact alloc_pure _ hs
      · refine alloc_bind (alloc_skipToNextEntry _ (by show _ * it1.table.fileSize ≤ B; rw [hs]; exact hB)) ?_
        intro r hr
        obtain ⟨it2, res⟩ := r
        simp only at hr ⊢
        have ht2 : it2.table = it.table := hr.trans hs
        have hrec : Alloc B (it2.advanceLoop fuel) (fun r => r.1.table = it.table) :=
          (ih it2 (by rw [ht2]; exact hB)).mono (fun r h => h.trans ht2)
        split
        · exact hrec
        · exact alloc_pure _ ht2
        · exact hrec
    split
    · refine alloc_bind (alloc_lift _) ?_
      intro r _
      obtain ⟨cb', ok⟩ := r
      simp only
      exact alloc_bind (Q := fun (s : TableIter × Bool) => s.1.table = it.table) (alloc_pure _ rfl) hjp
    · exact alloc_bind (Q := fun (s : TableIter × Bool) => s.1.table = it.table) (alloc_pure _ rfl) hjp

theorem alloc_advance {B} (it : TableIter)
    (hB : (Consts.snappyMaxExpansion + 1) * it.table.fileSize ≤ B) :
    Alloc B it.advance (fun r => r.1.table = it.table) :=
  alloc_advanceLoop _ it hB

theorem alloc_current {B} (it : TableIter) : Alloc B it.current (fun _ => True) := by
  unfold TableIter.current
  split
  · exact alloc_lift _
  · exact alloc_pure _ trivial

theorem alloc_next {B} (it : TableIter)
    (hB : (Consts.snappyMaxExpansion + 1) * it.table.fileSize ≤ B) :
    Alloc B it.next (fun r => r.1.table = it.table) := by
  unfold TableIter.next
  refine alloc_bind (alloc_advance it hB) ?_
  intro r hr
  obtain ⟨it1, ok⟩ := r
  simp only at hr ⊢
  split
  · exact alloc_pure _ hr
  · refine alloc_bind (alloc_current it1) ?_
    intro c _
    exact alloc_pure _ hr

theorem alloc_seekToFirst {B} (it : TableIter)
    (hB : (Consts.snappyMaxExpansion + 1) * it.table.fileSize ≤ B) :
    Alloc B it.seekToFirst (fun it' => it'.table = it.table) := by
  unfold TableIter.seekToFirst
  refine alloc_bind (alloc_advance it.reset hB) ?_
  intro r hr
  obtain ⟨it1, ok⟩ := r
  exact alloc_pure _ hr

theorem alloc_seek {B} (it : TableIter) (to : Bytes)
    (hB : (Consts.snappyMaxExpansion + 1) * it.table.fileSize ≤ B) :
    Alloc B (it.seek to) (fun it' => it'.table = it.table) := by
  unfold TableIter.seek
  refine alloc_bind (alloc_lift _) ?_
  intro ib _
  simp only
  refine alloc_bind (alloc_curKV _) ?_
  intro kv _
  split
  · split
    · refine alloc_bind (alloc_try (alloc_loadBlock _ _ hB)) ?_
      intro x hx
      split
      · rename_i it2
        have ht2 : it2.table = it.table := hx it2 rfl
        split
        · intro w; exact ⟨Step.refl B w, fun a ha => by cases ha⟩
        · refine alloc_bind (alloc_lift _) ?_
          intro cb2 _
          split
          · refine alloc_bind (alloc_advance _ (by show _ * it2.table.fileSize ≤ B; rw [ht2]; exact hB)) ?_
            intro r3 hr3
            obtain ⟨it3, ok⟩ := r3
            exact alloc_pure _ (hr3.trans ht2)
          · exact alloc_pure _ ht2
      · exact alloc_pure _ rfl
    · exact alloc_pure _ rfl
  · exact alloc_pure _ rfl

theorem alloc_prev {B} (it : TableIter)
    (hB : (Consts.snappyMaxExpansion + 1) * it.table.fileSize ≤ B) :
    Alloc B it.prev (fun r => r.1.table = it.table) := by
  unfold TableIter.prev
  extract_lets jp
  have hjp : ∀ s : TableIter × Bool, s.1.table = it.table →
      Alloc B (jp s) (fun r => r.1.table = it.table) := by
    intro s hs
    obtain ⟨it1, ok⟩ := s
    simp only [jp]
    simp only at hs
    split
    · exact alloc_pure _ hs
    · refine alloc_bind (alloc_lift _) ?_
      intro r _
      obtain ⟨ib', ok'⟩ := r
      simp only
      split
      · refine alloc_bind (alloc_curKV _) ?_
        intro kv _
        split
        · refine alloc_bind (alloc_try (alloc_loadBlock _ _
            (by show _ * it1.table.fileSize ≤ B; rw [hs]; exact hB))) ?_
          intro x hx
          split
          · rename_i it2
            have ht2 : it2.table = it.table := (hx it2 rfl).trans hs
            split
            · intro w; exact ⟨Step.refl B w, fun a ha => by cases ha⟩
            · refine alloc_bind (alloc_lift _) ?_
              intro cb2 _
              exact alloc_pure _ ht2
          · exact alloc_pure _ hs
        · exact alloc_pure _ hs
      · exact alloc_pure _ hs
  split
  · refine alloc_bind (alloc_lift _) ?_
    intro r _
    obtain ⟨cb', ok⟩ := r
    simp only
    exact alloc_bind (Q := fun (s : TableIter × Bool) => s.1.table = it.table) (alloc_pure _ rfl) hjp
  · exact alloc_bind (Q := fun (s : TableIter × Bool) => s.1.table = it.table) (alloc_pure _ rfl) hjp

theorem alloc_call {B} (it : TableIter) (op : Spec.IterOp)
    (hB : (Consts.snappyMaxExpansion + 1) * it.table.fileSize ≤ B) :
    Alloc B (it.call op) (fun r => r.1.table = it.table) := by
  cases op with
  | advance => exact alloc_bind (alloc_advance it hB) (fun r hr => alloc_pure _ hr)
  | next => exact alloc_bind (alloc_next it hB) (fun r hr => alloc_pure _ hr)
  | prev => exact alloc_bind (alloc_prev it hB) (fun r hr => alloc_pure _ hr)
  | reset => exact alloc_pure _ rfl
  | seekToFirst => exact alloc_bind (alloc_seekToFirst it hB) (fun r hr => alloc_pure _ hr)
  | seek t => exact alloc_bind (alloc_seek it t hB) (fun r hr => alloc_pure _ hr)
  | valid => exact alloc_pure _ rfl
  | current => exact alloc_bind (alloc_current it) (fun r _ => alloc_pure _ rfl)
  | currentKey => exact alloc_pure _ rfl

theorem alloc_run {B} : ∀ (ops : List Spec.IterOp) (it : TableIter),
    (Consts.snappyMaxExpansion + 1) * it.table.fileSize ≤ B →
    Alloc B (it.run ops) (fun r => r.1.table = it.table) := by
  intro ops
  induction ops with
  | nil => intro it _; exact alloc_pure _ rfl
  | cons op ops ih =>
    intro it hB
    unfold TableIter.run
    refine alloc_bind (alloc_call it op hB) ?_
    intro r hr
    refine alloc_bind (ih r.1 (by rw [hr]; exact hB)) ?_
    intro s hs
    exact alloc_pure _ (hs.trans hr)

end AB
end Sst

#print axioms Sst.AB.alloc_new
#print axioms Sst.AB.alloc_readBlock
#print axioms Sst.AB.alloc_get
#print axioms Sst.AB.alloc_call
#print axioms Sst.AB.alloc_run
