import SstModel.Lemmas.BuildLayout
import SstModel.Lemmas.SpecTable
import SstModel.Lemmas.SpecBloom
import SstModel.Spec.Judge
/-
  C05 bridge, direction reader/writer ⇒ Spec: a table image that is well formed in the reader's sense
  (`TableImg.WF`) and whose blocks / handles / footer are canonical (`SpecExtras`, which the builder
  guarantees) is accepted by the independent decoder `Spec.Format.decodeTable`, and satisfies every clause
  of the conformance judge `Judge.c05`.
-/
namespace Sst
namespace SC
open Spec.Format

/-! ### physical blocks: reader ⇒ Spec -/

/-- what a fault-free reader reads at an in-bounds handle, the independent decoder reads too -/
theorem blockAt_specBlock (img : Bytes) (h : BlockHandle) (c : Bytes) (hb : InBounds h img.length)
    (hr : blockAt img h = .ok c) : Spec.Format.block img ⟨h.offset, h.size⟩ = some c := by
  unfold InBounds at hb
  simp only [Consts.tableBlockCksumLen, Consts.tableBlockCompressLen] at hb
  obtain ⟨_, hb⟩ := hb
  unfold blockAt cleanBuf at hr
  simp only [Consts.tableBlockCksumLen, Consts.tableBlockCompressLen] at hr
  have hrep : h.size + 4 + 1 - min (h.size + 4 + 1) (img.length - h.offset) = 0 := by omega
  have hraw : ((img.drop h.offset).take h.size).length = h.size := by
    rw [List.length_take, List.length_drop]; omega
  have hl1 : ((img.drop (h.offset + h.size)).take 1).length = 1 := by
    rw [List.length_take, List.length_drop]; omega
  obtain ⟨t, ht⟩ : ∃ t, (img.drop (h.offset + h.size)).take 1 = [t] := by
    match (img.drop (h.offset + h.size)).take 1, hl1 with
    | [t], _ => exact ⟨t, rfl⟩
  have hck4 : ((img.drop (h.offset + h.size + 1)).take 4).length = 4 := by
    rw [List.length_take, List.length_drop]; omega
  have hsplit : (img.drop h.offset).take (h.size + 4 + 1)
      = (img.drop h.offset).take h.size ++ [t] ++ (img.drop (h.offset + h.size + 1)).take 4 := by
    have e : h.size + 4 + 1 = h.size + (1 + 4) := by omega
    rw [e, List.take_add, List.take_add, List.drop_drop, List.drop_drop, ht, List.append_assoc,
      Nat.add_assoc]
  rw [hrep, List.replicate_zero, List.append_nil, hsplit] at hr
  have hv := verifyBlock_concat ((img.drop h.offset).take h.size) t
    ((img.drop (h.offset + h.size + 1)).take 4)
  rw [hraw] at hv
  rw [hv, List.take_of_length_le (Nat.le_of_eq hck4)] at hr
  by_cases hcrc : crc32c ((img.drop h.offset).take h.size ++ [t])
      ≠ unmaskCrc (decodeFixed32 ((img.drop (h.offset + h.size + 1)).take 4))
  · rw [if_pos hcrc] at hr; cases hr
  rw [if_neg hcrc] at hr
  have hcrc := Classical.not_not.mp hcrc
  unfold Spec.Format.block
  have ht5 : Spec.Format.trailerLen = 5 := rfl
  rw [if_neg (by show ¬ h.offset + h.size + Spec.Format.trailerLen > img.length; omega)]
  simp only []
  have hmask : Spec.Format.u32le ((img.drop (h.offset + h.size + 1)).take 4)
      = some (Spec.Format.mask (crc32c ((img.drop h.offset).take h.size ++ (img.drop (h.offset + h.size)).take 1))) := by
    rw [SBC.u32le_of_length _ hck4, ht, Spec.mask_eq _ (crc32c_lt _), hcrc,
      maskCrc_unmaskCrc _ (decodeFixed32_lt _)]
  rw [if_neg (by rw [hmask]; simp)]
  rw [ht]
  unfold decodeByType at hr
  by_cases h0 : t.toNat = 0
  · rw [if_pos h0] at hr
    have : t = 0 := UInt8.toNat_inj.mp h0
    subst this
    simp only [Res.ok.injEq] at hr
    rw [hr]
    rfl
  · rw [if_neg h0] at hr
    by_cases h1 : t.toNat = 1
    · rw [if_pos h1] at hr
      have : t = 1 := UInt8.toNat_inj.mp h1
      subst this
      cases hd : Snappy.decode ((img.drop h.offset).take h.size) with
      | none => rw [hd] at hr; cases hr
      | some d =>
        rw [hd] at hr
        simp only [Res.ok.injEq] at hr
        subst hr
        rfl
    · rw [if_neg h1] at hr; cases hr

theorem tableBlockAt_blockAt (img : Bytes) (h : BlockHandle) (c : Bytes)
    (hr : tableBlockAt img h = .ok c) : blockAt img h = .ok c := by
  unfold tableBlockAt at hr
  cases hb : blockAt img h with
  | ok c' =>
    rw [hb] at hr
    simp only [] at hr
    split at hr
    · exact hr
    · cases hr
  | err e => rw [hb] at hr; cases hr
  | panic s => rw [hb] at hr; cases hr
  | diverge => rw [hb] at hr; cases hr

/-! ### handles and the footer -/

theorem handle_encode (h : BlockHandle) (ho : h.offset < 2 ^ 63) (hs : h.size < 2 ^ 63) (rest : Bytes) :
    Spec.Format.handle (h.encode ++ rest) = some (⟨h.offset, h.size⟩, rest) := by
  unfold Spec.Format.handle BlockHandle.encode
  rw [List.append_assoc, SBC.varint_encodeVarint _ ho]
  simp only [Option.bind_eq_bind, Option.bind_some]
  rw [SBC.varint_encodeVarint _ hs]
  rfl

theorem footer_spec (mh ih : BlockHandle) (h1 : mh.offset < 2 ^ 63) (h2 : mh.size < 2 ^ 63)
    (h3 : ih.offset < 2 ^ 63) (h4 : ih.size < 2 ^ 63) :
    (Footer.mk mh ih).encode.length = 48
      ∧ (Footer.mk mh ih).encode.drop 40 = Spec.Format.magic
      ∧ ∃ r r', Spec.Format.handle ((Footer.mk mh ih).encode.take 40) = some (⟨mh.offset, mh.size⟩, r)
          ∧ Spec.Format.handle r = some (⟨ih.offset, ih.size⟩, r') := by
  have hlen := Footer.encode_length (Footer.mk mh ih) ⟨by simp only; omega, by simp only; omega,
    by simp only; omega, by simp only; omega⟩
  have hl1 := BlockHandle.encode_length_le mh (by omega) (by omega)
  have hl2 := BlockHandle.encode_length_le ih (by omega) (by omega)
  have hpre : ((mh.encode ++ ih.encode) ++ List.replicate (40 - (mh.encode ++ ih.encode).length) 0).length = 40 := by
    simp only [List.length_append, List.length_replicate]; omega
  have henc : (Footer.mk mh ih).encode
      = ((mh.encode ++ ih.encode) ++ List.replicate (40 - (mh.encode ++ ih.encode).length) 0)
          ++ Consts.magicFooterEncoded := rfl
  refine ⟨hlen, ?_, ?_⟩
  · rw [henc, List.drop_left' hpre, ConstsTie.magic_eq]
  · rw [henc, List.take_left' hpre]
    refine ⟨ih.encode ++ List.replicate (40 - (mh.encode ++ ih.encode).length) 0,
      List.replicate (40 - (mh.encode ++ ih.encode).length) 0, ?_, ?_⟩
    · rw [List.append_assoc]
      exact handle_encode mh h1 h2 _
    · exact handle_encode ih h3 h4 _

/-! ### the table decoder -/

/-- the Spec's view of a data block record -/
def toDB (d : DBlock) : Spec.Format.DataBlock :=
  { handle := ⟨d.handle.offset, d.handle.size⟩, indexKey := d.sep, entries := d.blk.kvs, restarts := d.blk.rs }

/-- what the independent decoder yields on a table image -/
def decoded (t : TableImg) : Spec.Format.Decoded :=
  { metaIndex := ⟨t.metaHandle.offset, t.metaHandle.size⟩, index := ⟨t.indexHandle.offset, t.indexHandle.size⟩,
    blocks := t.blocks.map toDB, metaEntries := t.metaix.kvs }

theorem mapM_map_some {α β γ : Type} (f : α → β) (g : β → Option γ) (k : α → γ) :
    ∀ l : List α, (∀ a ∈ l, g (f a) = some (k a)) → (l.map f).mapM g = some (l.map k)
  | [], _ => rfl
  | a :: l, h => by
    rw [List.map_cons, List.mapM_cons, h a (by simp), mapM_map_some f g k l (fun a' ha' => h a' (by simp [ha']))]
    rfl

theorem decoded_entries (t : TableImg) : (decoded t).entries = t.entries := by
  unfold Spec.Format.Decoded.entries decoded TableImg.entries
  simp only [List.map_map]
  rfl

/-- a table image that is well formed for the reader, with canonical blocks and handles, is accepted
    by the independent decoder -/
theorem decodeTable_of_wf (cmp : Cmp) (t : TableImg) (hwf : t.WF cmp) (hx : SpecExtras t)
    (hsmall : t.img.length < 2 ^ 63) : Spec.Format.decodeTable t.img = some (decoded t) := by
  have hmb := hwf.metaBounds
  have hib := hwf.indexBounds
  unfold InBounds at hmb hib
  simp only [Consts.tableBlockCksumLen, Consts.tableBlockCompressLen] at hmb hib
  obtain ⟨hf48, hfmagic, r, r', hfh1, hfh2⟩ := footer_spec t.metaHandle t.indexHandle
    (by omega) (by omega) (by omega) (by omega)
  rw [← hx.footerEnc] at hf48 hfmagic hfh1
  have hiblk := blockAt_specBlock t.img t.indexHandle _ hwf.indexBounds (tableBlockAt_blockAt _ _ _ hwf.indexRead)
  have hmblk := blockAt_specBlock t.img t.metaHandle _ hwf.metaBounds (tableBlockAt_blockAt _ _ _ hwf.metaRead)
  have hdata : t.index.kvs.mapM (ST.dataStep t.img) = some (t.blocks.map toDB) := by
    rw [hwf.indexKVs]
    apply mapM_map_some
    intro d hd
    have hdb := hwf.dataBounds d hd
    have hblk := blockAt_specBlock t.img d.handle _ hdb (tableBlockAt_blockAt _ _ _ (hwf.dataRead d hd))
    unfold InBounds at hdb
    simp only [Consts.tableBlockCksumLen, Consts.tableBlockCompressLen] at hdb
    rw [ST.dataStep_eq, hx.hvalEnc d hd]
    have := handle_encode d.handle (by omega) (by omega) []
    rw [List.append_nil] at this
    rw [this]
    simp only [Option.bind_some]
    rw [hblk]
    simp only [Option.bind_some]
    rw [hx.dataParse d hd]
    rfl
  rw [ST.decodeTable_eq]
  have hfl : Spec.Format.footerLen = 48 := rfl
  rw [if_neg (by rw [hfl]; have := hwf.size.1; omega), hfl, if_neg (by rw [hfmagic]; simp), hfh1]
  simp only [Option.bind_some]
  rw [hfh2]
  simp only [Option.bind_some]
  rw [hiblk]
  simp only [Option.bind_some]
  rw [hx.indexParse]
  simp only [Option.bind_some]
  rw [hmblk]
  simp only [Option.bind_some]
  rw [hx.metaParse]
  simp only [Option.bind_some]
  rw [hdata]
  rfl

/-! ### the clauses of the conformance judge -/

theorem zip_tail_idx {α : Type} (l : List α) (p : α × α) (h : p ∈ l.zip l.tail) :
    ∃ i, l[i]? = some p.1 ∧ l[i + 1]? = some p.2 := by
  obtain ⟨i, hi⟩ := List.mem_iff_getElem?.1 h
  have := List.getElem?_zip_eq_some.1 hi
  rw [List.getElem?_tail] at this
  exact ⟨i, this⟩

theorem c05_of_wf (cmp : Cmp) (t : TableImg) (hwf : t.WF cmp) (hx : SpecExtras t)
    (hsmall : t.img.length < 2 ^ 63) (p : FilterPolicy) (fhv : Bytes)
    (hmeta : t.metaix.kvs = [(Table.filterName p, fhv)])
    (fb : Bytes) (hview : FilterView p t (some fb)) (hsound : FilterSound p t fb)
    (hord : ∀ (i : Nat) (di dj : DBlock), t.blocks[i]? = some di → t.blocks[i+1]? = some dj →
      di.handle.offset + di.handle.size + 5 ≤ dj.handle.offset)
    (isBloom : Bool) (hbloom : isBloom = true → (∃ b, p = Bloom.policy b) ∧ t.img.length < 2 ^ 32) :
    Judge.c05 cmp t.img t.entries p.name isBloom = "ok" := by
  -- membership / indexing in the decoded block list
  have hblocks : (decoded t).blocks = t.blocks.map toDB := rfl
  have hmemB : ∀ b ∈ (decoded t).blocks, ∃ d ∈ t.blocks, b = toDB d := by
    intro b hb
    obtain ⟨d, hd, rfl⟩ := List.mem_map.1 hb
    exact ⟨d, hd, rfl⟩
  have hpair : ∀ x ∈ (decoded t).blocks.zip (decoded t).blocks.tail,
      ∃ i di dj, t.blocks[i]? = some di ∧ t.blocks[i + 1]? = some dj ∧ x.1 = toDB di ∧ x.2 = toDB dj := by
    intro x hxm
    obtain ⟨i, h1, h2⟩ := zip_tail_idx _ _ hxm
    rw [hblocks, List.getElem?_map] at h1 h2
    cases hdi : t.blocks[i]? with
    | none => rw [hdi] at h1; cases h1
    | some di =>
      cases hdj : t.blocks[i + 1]? with
      | none => rw [hdj] at h2; cases h2
      | some dj =>
        rw [hdi] at h1; rw [hdj] at h2
        exact ⟨i, di, dj, hdi, hdj, (Option.some.inj h1).symm, (Option.some.inj h2).symm⟩
  have hkeys : ∀ d : DBlock, d.keys = d.blk.kvs.map (·.1) := fun d => (ST.kvs_keys d.blk).symm
  -- clause: decoded entries
  have c1 : ¬ (decoded t).entries ≠ t.entries := by rw [decoded_entries]; exact fun h => h rfl
  -- clause: no empty block
  have c2 : ¬ ((decoded t).blocks.any fun x => x.entries.isEmpty) = true := by
    rw [Bool.not_eq_true, List.any_eq_false]
    intro b hb
    obtain ⟨d, hd, rfl⟩ := hmemB b hb
    have hne := hwf.dataNonempty d hd
    show ¬ (d.blk.kvs.isEmpty = true)
    rw [List.isEmpty_iff]
    intro he
    apply hne
    have : (d.blk.kvs.map (·.1)) = [] := by rw [he]; rfl
    rw [← hkeys] at this
    exact List.map_eq_nil_iff.1 this
  -- clause: the metaindex names the filter
  have c5 : List.find? (fun x => decide (x.fst = ("filter." ++ p.name).toUTF8.toList)) (decoded t).metaEntries
      = some (Table.filterName p, fhv) := by
    show List.find? _ t.metaix.kvs = _
    rw [hmeta]
    apply List.find?_cons_of_pos
    exact decide_eq_true rfl
  -- the filter block as the reader sees it
  obtain ⟨fh, hfhv, hfb, hfblock, hfwf, hflen⟩ : ∃ fh : BlockHandle, Spec.Format.handle fhv = some (⟨fh.offset, fh.size⟩, [])
      ∧ InBounds fh t.img.length ∧ blockAt t.img fh = .ok fb ∧ FilterBlockReader.isWellFormed fb = true
      ∧ fb.length ≤ t.img.length := by
    cases hview with
    | present v fh n _ hm hd hz hb hr hw =>
      rw [hmeta] at hm
      have hv : v = fhv := by
        have := List.mem_singleton.1 hm
        exact (Prod.mk.inj this).2
      subst hv
      obtain ⟨h', he, hle, hunc⟩ := hx.metaValEnc (Table.filterName p, v) (by rw [hmeta]; exact List.mem_singleton.2 rfl)
      have he' : v = h'.encode := he
      have hdec := BlockHandle.tryDecode_encode h' (by omega) (by omega) []
      rw [List.append_nil, ← he', hd] at hdec
      have hfh : fh = h' := (Prod.mk.inj (Option.some.inj hdec)).1
      subst hfh
      refine ⟨fh, ?_, hb, hr, hw, ?_⟩
      · have := handle_encode fh (by omega) (by omega) []
        rw [List.append_nil, ← he'] at this
        exact this
      · rw [hunc fb hr]; omega
  have c7 := blockAt_specBlock t.img fh fb hfb hfblock
  -- clause: every key passes the filter of its block
  have c8 : ¬ (isBloom = true ∧ (!(decoded t).blocks.all fun b =>
      b.entries.all fun e => filterBlockMayMatch fb b.handle.offset e.fst) = true) := by
    rintro ⟨hB, hfail⟩
    obtain ⟨⟨bits, hp⟩, h29⟩ := hbloom hB
    rw [Bool.not_eq_true', ← Bool.not_eq_true, List.all_eq_true] at hfail
    apply hfail
    intro b hb
    obtain ⟨d, hd, rfl⟩ := hmemB b hb
    rw [List.all_eq_true]
    intro e he
    have he' : e ∈ d.blk.kvs := he
    have h5 : fb.length ≥ 5 := by
      unfold FilterBlockReader.isWellFormed at hfwf
      by_cases h : fb.length < 5
      · rw [if_pos h] at hfwf; cases hfwf
      · omega
    have hnew : FilterBlockReader.new fb = .ok
        { block := fb, baseLg2 := (fb.getD (fb.length - 1) 0).toNat,
          offsetsOffset := decodeFixed32 ((fb.drop (fb.length - 5)).take 4) } := by
      unfold FilterBlockReader.new
      simp only [assert, decide_eq_true h5, if_true, Res.bind_ok, Res.pure_eq]
    have hm := hsound d hd e.1 (by rw [hkeys]; exact List.mem_map_of_mem he') _ hnew
    rw [hp] at hm
    exact specFilterBlock_of_model fb _ hnew hfwf (by omega) bits d.handle.offset e.1 hm
  -- clause: file order
  have c9 : ¬ (!((decoded t).blocks.zip (decoded t).blocks.tail).all fun x =>
      decide (x.fst.handle.offset + x.fst.handle.size + 5 ≤ x.snd.handle.offset)) = true := by
    rw [Bool.not_eq_true, Bool.not_eq_false', List.all_eq_true]
    intro x hxm
    obtain ⟨i, di, dj, hi, hj, h1, h2⟩ := hpair x hxm
    rw [h1, h2]
    exact decide_eq_true (hord i di dj hi hj)
  unfold Judge.c05
  rw [decodeTable_of_wf cmp t hwf hx hsmall]
  simp only []
  rw [if_neg c1, if_neg c2]
  -- clause: last key ≤ index key
  refine (if_neg ?_).trans ?_
  · rw [Bool.not_eq_true, Bool.not_eq_false', List.all_eq_true]
    intro b hb
    obtain ⟨d, hd, rfl⟩ := hmemB b hb
    cases hgl : (toDB d).entries.getLast? with
    | none => rfl
    | some e =>
      have hmem : e ∈ d.blk.kvs := List.mem_of_getLast? hgl
      have := hwf.sepGe d hd e.1 (by rw [hkeys]; exact List.mem_map_of_mem hmem)
      show (cmp.cmp e.1 d.sep != Ordering.gt) = true
      rw [bne_iff_ne]
      exact this
  -- clause: index key < first key of the next block
  refine (if_neg ?_).trans ?_
  · rw [Bool.not_eq_true, Bool.not_eq_false', List.all_eq_true]
    intro x hxm
    obtain ⟨i, di, dj, hi, hj, h1, h2⟩ := hpair x hxm
    rw [h1, h2]
    cases hhd : (toDB dj).entries.head? with
    | none => rfl
    | some e =>
      have hmem : e ∈ dj.blk.kvs := List.mem_of_head? hhd
      have := hwf.sepLt i (i + 1) di dj (Nat.lt_succ_self i) hi hj e.1
        (by rw [hkeys]; exact List.mem_map_of_mem hmem)
      show (cmp.cmp di.sep e.1 == Ordering.lt) = true
      rw [beq_iff_eq]
      exact this
  rw [c5]
  simp only []
  rw [hfhv]
  simp only []
  rw [c7]
  simp only []
  rw [if_neg c8, if_neg c9]

end SC

end Sst

#print axioms Sst.SC.blockAt_specBlock
#print axioms Sst.SC.decodeTable_of_wf
#print axioms Sst.SC.c05_of_wf
