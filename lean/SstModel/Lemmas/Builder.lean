import SstModel.Model.TableBuilder
/- Lemmas about `TableBuilder.add` used by C16 (and later by the layout lemmas of C05). -/
namespace Sst

theorem BlockBuilder.add_ok {cmp : Cmp} {b b' : BlockBuilder} {key val : Bytes}
    (h : b.add cmp key val = .ok b') :
    b'.lastKey = key ∧ b'.counter = b.counter + 1 ∧ b'.restartInterval = b.restartInterval := by
  unfold BlockBuilder.add at h
  simp only [assert] at h
  split at h
  · split at h
    · simp only [Res.bind_ok, Res.pure_eq] at h
      cases h
      exact ⟨List.take_append_drop _ _, rfl, rfl⟩
    · simp at h
  · simp at h

namespace TableBuilder

/-- the most recently added key, as the builder itself tracks it -/
def tracked (t : TableBuilder) : Option Bytes :=
  match t.dataBlock with
  | none => none
  | some db => if t.numEntries > 0 then some (if db.entries > 0 then db.lastKey else t.prevBlockLastKey) else none

theorem writeBlock_opt (t : TableBuilder) (b : Bytes) (c : Nat) : (t.writeBlock b c).1.opt = t.opt := by
  unfold writeBlock
  repeat' split
  all_goals simp [withSink]

theorem writeDataBlock_opt (t : TableBuilder) (k : Bytes) : (t.writeDataBlock k).1.opt = t.opt := by
  unfold writeDataBlock
  split
  · rfl
  · rename_i block _
    have h := writeBlock_opt { { t with dataBlock := none } with prevBlockLastKey := block.lastKey } block.finish t.opt.compression
    generalize hw : writeBlock _ block.finish t.opt.compression = w at h ⊢
    obtain ⟨t1, r⟩ := w
    simp only at h ⊢
    cases r <;> simp only [] <;> try exact h
    split
    · exact h
    · split
      · split
        · exact h
        · split <;> simp_all
      all_goals exact h

/-- after a successful add the builder tracks exactly the key just added, whatever was flushed -/
theorem add_ok_tracked {t t' : TableBuilder} {key val : Bytes} (h : t.add key val = (t', .ok ())) :
    t'.tracked = some key ∧ t'.opt = t.opt := by
  unfold add at h
  split at h
  · simp at h
  · rename_i db hdb
    split at h
    · simp at h
    · -- the flush step
      generalize hf : (if db.entries > 0 ∧ db.sizeEstimate > t.opt.blockSize then t.writeDataBlock key
                        else (t, Res.ok ())) = fl at h
      have hopt : fl.1.opt = t.opt := by
        rw [← hf]; split
        · exact writeDataBlock_opt t key
        · rfl
      obtain ⟨t1, r1⟩ := fl
      cases r1 with
      | ok u =>
        simp only at h
        split at h
        · simp at h
        · rename_i db1 hdb1
          split at h
          · rename_i db2 hadd
            simp only [Prod.mk.injEq, and_true] at h
            subst h
            have := BlockBuilder.add_ok hadd
            refine ⟨?_, hopt⟩
            simp only [tracked]
            have hc : db2.entries > 0 := by simp [BlockBuilder.entries, this.2.1]
            simp [hc, this.1]
          all_goals simp at h
      | err c => simp at h
      | panic s => simp at h
      | diverge => simp at h

/-- the order check of `add`: a key that is not above the tracked one is refused with a panic -/
theorem add_rejects {t : TableBuilder} {k key val : Bytes} (ht : t.tracked = some k)
    (hbad : t.opt.cmp.cmp k key ≠ .lt) : ∃ site, (t.add key val).2 = .panic site := by
  unfold tracked at ht
  unfold add
  split
  · rename_i h; simp [h] at ht
  · rename_i db hdb
    simp only [hdb] at ht
    split at ht
    · rename_i hn
      simp only [Option.some.injEq] at ht
      have : (if t.numEntries > 0 then
                (t.opt.cmp.cmp (if db.entries > 0 then db.lastKey else t.prevBlockLastKey) key == .lt)
              else true) = false := by
        simp only [hn, if_true, ht]
        cases hc : t.opt.cmp.cmp k key <;> simp_all
      simp only [this]
      exact ⟨_, rfl⟩
    · simp at ht

theorem addAll_append (t : TableBuilder) (a b : List (Bytes × Bytes)) :
    t.addAll (a ++ b) = match t.addAll a with
      | (t', .ok ()) => t'.addAll b
      | r => r := by
  induction a generalizing t with
  | nil => simp [addAll]
  | cons e a ih =>
    obtain ⟨k, v⟩ := e
    simp only [List.cons_append, addAll]
    generalize t.add k v = r
    obtain ⟨t1, r1⟩ := r
    cases r1 <;> simp [ih]

/-- after successfully adding a non-empty list, the builder tracks the last key of the list -/
theorem addAll_ok_tracked {t t' : TableBuilder} {es : List (Bytes × Bytes)} {k v : Bytes}
    (h : t.addAll (es ++ [(k, v)]) = (t', .ok ())) : t'.tracked = some k ∧ t'.opt = t.opt := by
  rw [addAll_append] at h
  generalize hr : t.addAll es = r at h
  obtain ⟨t1, r1⟩ := r
  have hopt1 : ∀ t1, t.addAll es = (t1, .ok ()) → t1.opt = t.opt := by
    intro t1 h1
    induction es generalizing t with
    | nil => simp [addAll] at h1; rw [← h1]
    | cons e es ih =>
      obtain ⟨k', v'⟩ := e
      simp only [addAll] at h1
      generalize ha : t.add k' v' = ra at h1
      obtain ⟨t2, r2⟩ := ra
      cases r2 with
      | ok u =>
        have := (add_ok_tracked (by rw [ha])).2
        rw [ih t2 _ h1, this]
        · exact hr ▸ rfl |> fun _ => ha ▸ rfl |> fun _ => rfl
      | err c => simp at h1
      | panic s => simp at h1
      | diverge => simp at h1
  cases r1 with
  | ok u =>
    simp only [addAll] at h
    generalize ha : t1.add k v = ra at h
    obtain ⟨t2, r2⟩ := ra
    cases r2 with
    | ok u2 =>
      simp only [Prod.mk.injEq, and_true] at h
      subst h
      have := add_ok_tracked (by rw [ha] : t1.add k v = (t2, .ok ()))
      exact ⟨this.1, by rw [this.2, hopt1 t1 hr]⟩
    | err c => simp at h
    | panic s => simp at h
    | diverge => simp at h
  | err c => simp at h
  | panic s => simp at h
  | diverge => simp at h

end TableBuilder
end Sst
