import SstModel.Model.TableBuilder
import SstModel.Spec.Map
/- Lemmas about `TableBuilder.add` used by C16 (and later by the layout lemmas of C05). -/
namespace Sst

theorem BlockBuilder.add_ok {cmp : Cmp} {b b' : BlockBuilder} {key val : Bytes}
    (h : b.add cmp key val = .ok b') :
    b'.lastKey = key ∧ b'.counter = b.counter + 1 ∧ b'.restartInterval = b.restartInterval := by
  unfold BlockBuilder.add at h
  simp only [assert] at h
  split at h
  · split at h
    · simp only [Res.bind_ok, Res.pure_eq] at h
      cases h
      exact ⟨List.take_append_drop _ _, rfl, rfl⟩
    · simp at h
  · simp at h

namespace TableBuilder

/-- the most recently added key, as the builder itself tracks it -/
def tracked (t : TableBuilder) : Option Bytes :=
  match t.dataBlock with
  | none => none
  | some db =>
    if t.numEntries > 0 then some (if db.entries > 0 then db.lastKey else t.prevBlockLastKey) else none

theorem writeBlock_opt (t : TableBuilder) (b : Bytes) (c : Nat) : (t.writeBlock b c).1.opt = t.opt := by
  unfold writeBlock
  simp only []
  split <;> try rfl
  split <;> try rfl
  split <;> rfl

theorem writeDataBlock_opt (t : TableBuilder) (k : Bytes) : (t.writeDataBlock k).1.opt = t.opt := by
  unfold writeDataBlock
  split
  · rfl
  · rename_i block _
    simp only []
    have h := writeBlock_opt { t with dataBlock := none, prevBlockLastKey := block.lastKey }
      block.finish t.opt.compression
    generalize writeBlock _ block.finish t.opt.compression = w at h ⊢
    obtain ⟨t1, r⟩ := w
    simp only [] at h
    split <;> rename_i heq <;> cases heq <;> try exact h
    split <;> try exact h
    split <;> try exact h
    split <;> try exact h
    split <;> exact h

/-- the flush step of `add` -/
def flushStep (t : TableBuilder) (db : BlockBuilder) (key : Bytes) : TableBuilder × Res Unit :=
  if db.entries > 0 ∧ db.sizeEstimate > t.opt.blockSize then t.writeDataBlock key else (t, .ok ())

theorem flushStep_opt (t : TableBuilder) (db : BlockBuilder) (key : Bytes) :
    (t.flushStep db key).1.opt = t.opt := by
  unfold flushStep
  split
  · exact writeDataBlock_opt t key
  · rfl

/-- inversion of a successful `add`: the order check passed, the (possible) flush succeeded and left a
    pending data block, and the block builder accepted the entry -/
theorem add_ok_inv {t t' : TableBuilder} {key val : Bytes} (h : t.add key val = (t', .ok ())) :
    ∃ db t1 db1 db2, t.dataBlock = some db ∧ t.flushStep db key = (t1, .ok ()) ∧ t1.opt = t.opt ∧
      t1.dataBlock = some db1 ∧ db1.add t1.opt.cmp key val = .ok db2 ∧
      t' = { t1 with filterBlock := t1.filterBlock.map (·.addKey key), numEntries := t1.numEntries + 1,
                     dataBlock := some db2 } := by
  unfold add at h
  split at h
  · simp at h
  · rename_i db hdb
    refine ⟨db, ?_⟩
    have hopt := flushStep_opt t db key
    unfold flushStep at hopt ⊢
    generalize (if t.numEntries > 0 then
        t.opt.cmp.cmp (if db.entries > 0 then db.lastKey else t.prevBlockLastKey) key == Ordering.lt
        else true) = ok at h
    generalize (if db.entries > 0 ∧ db.sizeEstimate > t.opt.blockSize then t.writeDataBlock key
                else (t, Res.ok ())) = fl at h hopt ⊢
    cases ok
    · simp at h
    simp only [Bool.not_true, Bool.false_eq_true, if_false] at h
    obtain ⟨t1, r1⟩ := fl
    cases r1 with
    | ok u =>
      cases u
      simp only [] at h hopt
      refine ⟨t1, ?_⟩
      split at h
      · simp at h
      · rename_i db1 hdb1
        split at h
        · rename_i db2 hadd
          simp only [Prod.mk.injEq, and_true] at h
          exact ⟨db1, db2, hdb, rfl, hopt, hdb1, hadd, h.symm⟩
        all_goals simp at h
    | _ => simp at h

/-- after a successful add the builder tracks exactly the key just added, whatever was flushed -/
theorem add_ok_tracked {t t' : TableBuilder} {key val : Bytes} (h : t.add key val = (t', .ok ())) :
    t'.tracked = some key ∧ t'.opt = t.opt := by
  obtain ⟨db, t1, db1, db2, _, _, hopt, _, hadd, rfl⟩ := add_ok_inv h
  have hb := BlockBuilder.add_ok hadd
  refine ⟨?_, hopt⟩
  have hc : db2.entries > 0 := by simp [BlockBuilder.entries, hb.2.1]
  simp [tracked, hc, hb.1]

/-- the order check of `add`: a key that is not above the tracked one is refused with a panic -/
theorem add_rejects {t : TableBuilder} {k key val : Bytes} (ht : t.tracked = some k)
    (hbad : t.opt.cmp.cmp k key ≠ .lt) : ∃ site, (t.add key val).2 = .panic site := by
  unfold tracked at ht
  unfold add
  split
  · exact ⟨_, rfl⟩
  · rename_i db hdb
    simp only [hdb] at ht
    split at ht
    · rename_i hn
      simp only [Option.some.injEq] at ht
      have hchk : (if t.numEntries > 0 then
                (t.opt.cmp.cmp (if db.entries > 0 then db.lastKey else t.prevBlockLastKey) key == .lt)
              else true) = false := by
        rw [if_pos hn, ht]
        cases hc : t.opt.cmp.cmp k key
        · exact absurd hc hbad
        · rfl
        · rfl
      simp only [hchk]
      exact ⟨_, rfl⟩
    · simp at ht

/-- a successful add after a tracked key `k` means `k < key` -/
theorem add_ok_lt {t t' : TableBuilder} {k key val : Bytes} (ht : t.tracked = some k)
    (h : t.add key val = (t', .ok ())) : t.opt.cmp.cmp k key = .lt := by
  apply Classical.byContradiction
  intro hbad
  obtain ⟨site, hs⟩ := add_rejects (val := val) ht hbad
  rw [h] at hs
  simp at hs

theorem addAll_cons_ok {t t' : TableBuilder} {k v : Bytes} {rest : List (Bytes × Bytes)}
    (h : t.addAll ((k, v) :: rest) = (t', .ok ())) :
    ∃ t1, t.add k v = (t1, .ok ()) ∧ t1.addAll rest = (t', .ok ()) := by
  simp only [addAll] at h
  split at h
  · rename_i t1 ha
    exact ⟨t1, ha, h⟩
  · rename_i hne
    generalize t.add k v = r at h hne
    subst h
    exact absurd rfl (hne t')

theorem addAll_append (t : TableBuilder) (a b : List (Bytes × Bytes)) :
    t.addAll (a ++ b) = match t.addAll a with
      | (t', .ok ()) => t'.addAll b
      | r => r := by
  induction a generalizing t with
  | nil => simp [addAll]
  | cons e a ih =>
    obtain ⟨k, v⟩ := e
    simp only [List.cons_append, addAll]
    generalize t.add k v = r
    obtain ⟨t1, r1⟩ := r
    cases r1 <;> simp [ih]

theorem addAll_append_ok {t t' : TableBuilder} {a b : List (Bytes × Bytes)}
    (h : t.addAll (a ++ b) = (t', .ok ())) :
    ∃ t1, t.addAll a = (t1, .ok ()) ∧ t1.addAll b = (t', .ok ()) := by
  rw [addAll_append] at h
  split at h
  · rename_i t1 ha
    exact ⟨t1, ha, h⟩
  · rename_i hne
    generalize t.addAll a = r at h hne
    subst h
    exact absurd rfl (hne t')

theorem addAll_ok_opt {t t' : TableBuilder} {es : List (Bytes × Bytes)}
    (h : t.addAll es = (t', .ok ())) : t'.opt = t.opt := by
  induction es generalizing t with
  | nil => simp only [addAll, Prod.mk.injEq, and_true] at h; rw [h]
  | cons e es ih =>
    obtain ⟨k, v⟩ := e
    obtain ⟨t1, ha, hr⟩ := addAll_cons_ok h
    rw [ih hr, (add_ok_tracked ha).2]

/-- after successfully adding a non-empty list, the builder tracks the last key of the list -/
theorem addAll_ok_tracked {t t' : TableBuilder} {es : List (Bytes × Bytes)} {k v : Bytes}
    (h : t.addAll (es ++ [(k, v)]) = (t', .ok ())) : t'.tracked = some k ∧ t'.opt = t.opt := by
  obtain ⟨t1, h1, h2⟩ := addAll_append_ok h
  obtain ⟨t2, ha, hn⟩ := addAll_cons_ok h2
  simp only [addAll, Prod.mk.injEq, and_true] at hn
  subst hn
  have := add_ok_tracked ha
  exact ⟨this.1, by rw [this.2, addAll_ok_opt h1]⟩

/-- from a builder tracking `k`, every list it accepts continues `k` in strictly increasing order -/
theorem addAll_ok_sorted_from {t t' : TableBuilder} {es : List (Bytes × Bytes)} {k v : Bytes}
    (ht : t.tracked = some k) (h : t.addAll es = (t', .ok ())) :
    Spec.StrictSorted t.opt.cmp ((k, v) :: es) := by
  induction es generalizing t k v with
  | nil => exact True.intro
  | cons e es ih =>
    obtain ⟨k1, v1⟩ := e
    obtain ⟨t1, ha, hr⟩ := addAll_cons_ok h
    have hlt := add_ok_lt ht ha
    have ht1 := add_ok_tracked ha
    have := ih (v := v1) ht1.1 hr
    rw [ht1.2] at this
    refine ⟨?_, this⟩
    simp [Spec.keyLt, hlt]

/-- whatever state the builder starts in, a list it accepts entirely is strictly sorted -/
theorem addAll_ok_sorted {t t' : TableBuilder} {es : List (Bytes × Bytes)}
    (h : t.addAll es = (t', .ok ())) : Spec.StrictSorted t.opt.cmp es := by
  cases es with
  | nil => exact True.intro
  | cons e es =>
    obtain ⟨k, v⟩ := e
    obtain ⟨t1, ha, hr⟩ := addAll_cons_ok h
    have ht1 := add_ok_tracked ha
    have := addAll_ok_sorted_from (v := v) ht1.1 hr
    rwa [ht1.2] at this

theorem build_ok_inv {opt : WOpts} {sink : Sink} {es : List (Bytes × Bytes)} {t : TableBuilder} {n : Nat}
    (h : build opt sink es = (t, .ok n)) :
    ∃ t1, (new opt sink).addAll es = (t1, .ok ()) ∧ t1.finish = (t, .ok n) := by
  unfold build at h
  split at h
  · rename_i t1 ha
    exact ⟨t1, ha, h⟩
  all_goals simp at h

/-- a pair whose result component is `ok` (used to turn a kernel-evaluated `isOk` into the equation
    the C16 hypotheses ask for) -/
theorem exists_ok_of_isOk {α : Type} (p : TableBuilder × Res α) (h : p.2.isOk = true) :
    ∃ t a, p = (t, .ok a) := by
  obtain ⟨t, r⟩ := p
  cases r with
  | ok a => exact ⟨t, a, rfl⟩
  | _ => simp [Res.isOk] at h

theorem exists_ok_unit_of_isOk (p : TableBuilder × Res Unit) (h : p.2.isOk = true) :
    ∃ t, p = (t, .ok ()) := by
  obtain ⟨t, _, rfl⟩ := exists_ok_of_isOk p h
  exact ⟨t, rfl⟩

/-- fixture for the non-vacuity examples of C16: bytewise comparator, restart interval 2, no
    compression, given block size and filter policy -/
def exampleOpts (blockSize : Nat) (filter : FilterPolicy) : WOpts :=
  { cmp := defaultCmp, blockSize, restartInterval := 2, compression := 0, filter, compress := id }

/-- fixture: three increasing keys, in the `pre ++ [(k, v)]` shape of `C16_rejects` -/
abbrev exampleEntries : List (Bytes × Bytes) := [([1], [10]), ([2], [20])] ++ [([3, 5], [30])]

end TableBuilder
end Sst
