import SstModel.Lemmas.MultiDamage
import SstModel.Lemmas.BuiltRead
/-
  Non-vacuity of the C14 / C07 (table level) theorems: Bool-valued checkers for `NoShortCollision` /
  `NoShortCollisionMeta` that work on the bytes of an image (sound for every well-formed `TableImg` with
  these bytes; the harness can call them), facts that transport evaluated data of a concrete image to the
  abstract `TableImg`, and a concrete table (3 entries, 3 data blocks, written by the model writer) on
  which all hypotheses hold and the conclusions are evaluated.
-/
namespace Sst
set_option linter.unusedSectionVars false

/-! ### Bool checkers -/

/-- `NoShortCollisionAt`, checked: for every truncation length `k ≤ size + 5` the zero-padded short read
    is rejected, or fails the validation `good`, or yields the contents a full read yields -/
def noShortAtB (img : Bytes) (h : BlockHandle) (good : Bytes → Bool) : Bool :=
  (List.range (h.size + 6)).all fun k =>
    match verifyBlock (((cleanBuf img h.offset (h.size + 5)).take k)
        ++ List.replicate (h.size + 5 - k) 0) h.size, blockAt img h with
    | .ok c, .ok c0 => !good c || c == c0
    | .ok c, _ => !good c
    | _, _ => true

theorem noShortAtB_sound (img : Bytes) (h : BlockHandle) (good : Bytes → Bool) (c0 : Bytes)
    (hb : noShortAtB img h good = true) (hr : blockAt img h = .ok c0) :
    NoShortCollisionAt img h good c0 := by
  intro k c hk hv hg
  unfold noShortAtB at hb
  rw [List.all_eq_true] at hb
  have := hb k (List.mem_range.mpr (by omega))
  rw [hv, hr] at this
  simp only [hg, Bool.not_true, Bool.false_or, beq_iff_eq] at this
  exact this

/-- the (key, value) pairs of an index-like block decoded as handles -/
def handlesOfKVs : List Spec.Entry → Option (List BlockHandle)
  | [] => some []
  | e :: es =>
    match BlockHandle.tryDecode e.2, handlesOfKVs es with
    | some (h, _), some hs => some (h :: hs)
    | _, _ => none

/-- the entries of the validated block at `h`, by the independent Spec parser -/
def blockKVsAt (img : Bytes) (h : BlockHandle) : Option (List Spec.Entry) :=
  match tableBlockAt img h with
  | .ok c => (Spec.Format.parseBlock c).map (·.entries)
  | _ => none

/-- the handles of the data blocks, read off the bytes: footer, index block, its values -/
def dataHandlesOf (img : Bytes) : Option (List BlockHandle) :=
  match Footer.tryDecode (img.drop (img.length - 48)) with
  | some f =>
    match blockKVsAt img f.index with
    | some kvs => handlesOfKVs kvs
    | none => none
  | none => none

/-- `NoShortCollision`, checked on the bytes of the image -/
def noShortCollisionB (img : Bytes) : Bool :=
  match dataHandlesOf img with
  | some hs => hs.all fun h => noShortAtB img h Block.isWellFormed
  | none => false

/-- `NoShortCollisionMeta`, checked on the bytes of the image: index block, metaindex block and every
    handle the metaindex stores under the policy's filter name -/
def noShortCollisionMetaB (p : FilterPolicy) (img : Bytes) : Bool :=
  match Footer.tryDecode (img.drop (img.length - 48)) with
  | some f =>
    noShortAtB img f.index Block.isWellFormed && noShortAtB img f.metaIndex Block.isWellFormed
      && (match blockKVsAt img f.metaIndex with
          | some kvs => kvs.all fun e =>
              if e.1 = Table.filterName p then
                match BlockHandle.tryDecode e.2 with
                | some (fh, _) => noShortAtB img fh FilterBlockReader.isWellFormed
                | none => true
              else true
          | none => false)
  | none => false

namespace FT

/-! ### transporting evaluated facts to a well-formed `TableImg` -/

theorem kvs_of_parse (b : PBlock) (hwf : b.WF) (kvs : List Spec.Entry)
    (h : (Spec.Format.parseBlock b.contents).map (·.entries) = some kvs) : b.kvs = kvs := by
  cases hp : Spec.Format.parseBlock b.contents with
  | none => rw [hp] at h; cases h
  | some info =>
    rw [hp] at h
    have := parseBlock_eq_of_wf b.contents b.es b.rs hwf.1 hwf.2 info hp
    simp only [Option.map_some, Option.some.injEq] at h
    rw [← h, this]
    rfl

section
variable {cmp : Cmp} {t : TableImg}

theorem index_kvs_of_eval (hwf : t.WF cmp) (kvs : List Spec.Entry)
    (h : blockKVsAt t.img t.indexHandle = some kvs) : t.index.kvs = kvs := by
  unfold blockKVsAt at h
  rw [hwf.indexRead] at h
  exact kvs_of_parse t.index hwf.indexWF kvs h

theorem metaix_kvs_of_eval (hwf : t.WF cmp) (kvs : List Spec.Entry)
    (h : blockKVsAt t.img t.metaHandle = some kvs) : t.metaix.kvs = kvs := by
  unfold blockKVsAt at h
  rw [hwf.metaRead] at h
  exact kvs_of_parse t.metaix hwf.metaWF kvs h

theorem data_kvs_of_eval (hwf : t.WF cmp) (d : DBlock) (hd : d ∈ t.blocks) (kvs : List Spec.Entry)
    (h : blockKVsAt t.img d.handle = some kvs) : d.blk.kvs = kvs := by
  unfold blockKVsAt at h
  rw [hwf.dataRead d hd] at h
  exact kvs_of_parse d.blk (hwf.dataWF d hd) kvs h

theorem handlesOfKVs_blocks (bl : List DBlock)
    (h : ∀ d ∈ bl, ∃ n, BlockHandle.tryDecode d.hval = some (d.handle, n)) :
    handlesOfKVs (bl.map (fun d => (d.sep, d.hval))) = some (bl.map (·.handle)) := by
  induction bl with
  | nil => rfl
  | cons d bl ih =>
    obtain ⟨n, hn⟩ := h d List.mem_cons_self
    simp only [List.map_cons, handlesOfKVs, hn, ih (fun x hx => h x (List.mem_cons_of_mem _ hx))]

/-- the handles computed from the bytes are the handles of the data blocks -/
theorem dataHandles_sound (hwf : t.WF cmp) (hs : List BlockHandle) (h : dataHandlesOf t.img = some hs) :
    t.blocks.map (·.handle) = hs := by
  unfold dataHandlesOf at h
  rw [hwf.footer] at h
  simp only at h
  cases hk : blockKVsAt t.img t.indexHandle with
  | none => rw [hk] at h; cases h
  | some kvs =>
    rw [hk] at h
    simp only at h
    have := index_kvs_of_eval hwf kvs hk
    rw [hwf.indexKVs] at this
    rw [← this, handlesOfKVs_blocks t.blocks hwf.hval] at h
    exact Option.some.inj h

/-- the checker is sound: it implies `NoShortCollision` for every well-formed image with these bytes -/
theorem noShortCollisionB_sound (hwf : t.WF cmp) (h : noShortCollisionB t.img = true) :
    NoShortCollision t := by
  unfold noShortCollisionB at h
  cases hh : dataHandlesOf t.img with
  | none => rw [hh] at h; cases h
  | some hs =>
    rw [hh] at h
    simp only at h
    have hmap := dataHandles_sound hwf hs hh
    rw [List.all_eq_true] at h
    intro d hd
    have hm : d.handle ∈ hs := by rw [← hmap]; exact List.mem_map_of_mem hd
    exact noShortAtB_sound t.img d.handle _ _ (h _ hm) (blockAt_of_tableBlockAt (hwf.dataRead d hd)).1

theorem noShortCollisionMetaB_sound (hwf : t.WF cmp) (p : FilterPolicy)
    (h : noShortCollisionMetaB p t.img = true) : NoShortCollisionMeta p t := by
  unfold noShortCollisionMetaB at h
  rw [hwf.footer] at h
  simp only [Bool.and_eq_true] at h
  obtain ⟨⟨h1, h2⟩, h3⟩ := h
  refine ⟨noShortAtB_sound _ _ _ _ h1 (blockAt_of_tableBlockAt hwf.indexRead).1,
    noShortAtB_sound _ _ _ _ h2 (blockAt_of_tableBlockAt hwf.metaRead).1, ?_⟩
  intro v fh n fb hmem hd hr
  cases hk : blockKVsAt t.img t.metaHandle with
  | none => rw [hk] at h3; cases h3
  | some kvs =>
    rw [hk] at h3
    simp only at h3
    have hkv := metaix_kvs_of_eval hwf kvs hk
    rw [hkv] at hmem
    rw [List.all_eq_true] at h3
    have := h3 _ hmem
    simp only [if_true, hd] at this
    exact noShortAtB_sound _ _ _ _ this hr

end

/-! ### comparing outputs by evaluation -/

def outB : Spec.IterOut → Spec.IterOut → Bool
  | .flag a, .flag b => a == b
  | .entry a, .entry b => a == b
  | .key a, .key b => a == b
  | .unit, .unit => true
  | _, _ => false

theorem outB_eq {a b : Spec.IterOut} (h : outB a b = true) : a = b := by
  cases a <;> cases b <;> simp_all [outB]

def outsB : List Spec.IterOut → List Spec.IterOut → Bool
  | [], [] => true
  | a :: as, b :: bs => outB a b && outsB as bs
  | _, _ => false

theorem outsB_eq : ∀ {as bs : List Spec.IterOut}, outsB as bs = true → as = bs
  | [], [], _ => rfl
  | [], _ :: _, h => by simp [outsB] at h
  | _ :: _, [], h => by simp [outsB] at h
  | a :: as, b :: bs, h => by
    simp only [outsB, Bool.and_eq_true] at h
    rw [outB_eq h.1, outsB_eq h.2]

/-- `it.run ops w` returned `ok` with exactly the outputs `expected` -/
def runB (it : TableIter) (ops : List Spec.IterOp) (w : World) (expected : List Spec.IterOut) : Bool :=
  match it.run ops w with
  | (_, .ok (_, outs)) => outsB outs expected
  | _ => false

theorem runB_sound {it : TableIter} {ops : List Spec.IterOp} {w : World} {expected : List Spec.IterOut}
    (h : runB it ops w expected = true) : ∃ w' it', it.run ops w = (w', .ok (it', expected)) := by
  unfold runB at h
  rcases hr : it.run ops w with ⟨w', r⟩
  rw [hr] at h
  cases r with
  | ok a =>
    obtain ⟨it', outs⟩ := a
    simp only at h
    exact ⟨w', it', by rw [outsB_eq h]⟩
  | err c => simp at h
  | panic s => simp at h
  | diverge => simp at h

/-- `tb.get k w` returned exactly `expected` -/
def getB (tb : Table) (k : Bytes) (w : World) (expected : Res (Option Bytes)) : Bool :=
  match (tb.get k w).2, expected with
  | .ok a, .ok b => a == b
  | .err a, .err b => a == b
  | _, _ => false

theorem getB_sound {tb : Table} {k : Bytes} {w : World} {expected : Res (Option Bytes)}
    (h : getB tb k w expected = true) : (tb.get k w).2 = expected := by
  unfold getB at h
  cases hr : (tb.get k w).2 <;> cases expected <;> rw [hr] at h <;> simp_all

/-! ### the concrete table -/

/-- the image the model writer produces for the three entries `([1],[10]) ([2],[20]) ([3,5],[30])` with block
    size 0 (every key starts a new data block), restart interval 2, no compression, the "no filter" policy:
    182 bytes; data blocks at offsets 0, 18, 36, filter block at 55, metaindex at 69, index at 95 -/
def witnessImg : Bytes :=
  (TableBuilder.build (TableBuilder.exampleOpts 0 noFilterPolicy) {} TableBuilder.exampleEntries).1.sink.received

/-- the image with the value byte of the entry of the SECOND data block (offset 22) changed from 20 to 21 -/
def witnessImgDamaged : Bytes := witnessImg.take 22 ++ [21] ++ witnessImg.drop 23

/-- the world before opening: file 0 holds the image, an empty cache of capacity 4, no faults -/
def witnessWorld (img : Bytes) : World := { files := [img], cache := { cap := 4 } }

/-- open the table on `witnessWorld img`, create an iterator, then evaluate `f` -/
def withOpened (img : Bytes) (f : Table → TableIter → World → Bool) : Bool :=
  match Table.new ⟨defaultCmp, noFilterPolicy⟩ 0 img.length (witnessWorld img) with
  | (w1, .ok tb) =>
    match TableIter.new tb w1 with
    | (w2, .ok it) => f tb it w2
    | _ => false
  | _ => false

theorem withOpened_of {img : Bytes} {f : Table → TableIter → World → Bool} {w1 : World} {tb : Table}
    {it : TableIter} (hnew : Table.new ⟨defaultCmp, noFilterPolicy⟩ 0 img.length (witnessWorld img) = (w1, .ok tb))
    (hit : TableIter.new tb w1 = (w1, .ok it)) (h : withOpened img f = true) : f tb it w1 = true := by
  unfold withOpened at h
  rw [hnew] at h
  simp only at h
  rw [hit] at h
  exact h

theorem witnessImg_length : witnessImg.length = 182 := by decide +kernel

theorem witness_handles : dataHandlesOf witnessImg = some [⟨0, 13⟩, ⟨18, 13⟩, ⟨36, 14⟩] := by
  decide +kernel

theorem witness_footer : Footer.tryDecode (witnessImg.drop (witnessImg.length - 48))
    = some ⟨⟨69, 21⟩, ⟨95, 34⟩⟩ := by decide +kernel

theorem witness_noShort : noShortCollisionB witnessImg = true := by decide +kernel

theorem witness_noShortMeta : noShortCollisionMetaB noFilterPolicy witnessImg = true := by decide +kernel

theorem witness_metaKVs : blockKVsAt witnessImg ⟨69, 21⟩
    = some [(Table.filterName noFilterPolicy, [55, 9])] := by decide +kernel

theorem witness_blockKVs :
    blockKVsAt witnessImg ⟨0, 13⟩ = some [([1], [10])]
      ∧ blockKVsAt witnessImg ⟨18, 13⟩ = some [([2], [20])]
      ∧ blockKVsAt witnessImg ⟨36, 14⟩ = some [([3, 5], [30])] := by decide +kernel

/-- everything the C14 / C07 theorems assume, on the concrete table: the image `t` (bytes `witnessImg`), the
    filter block `fv` the "no filter" policy sees, the handle `tb` and the world `w1` `Table::new` returns on
    `witnessWorld witnessImg`, a fresh iterator `it` -/
structure WitnessOK (t : TableImg) (fv : Option Bytes) (tb : Table) (it : TableIter) (w1 : World) : Prop where
  img : t.img = witnessImg
  wf : t.WF defaultCmp
  entries : t.entries = TableBuilder.exampleEntries
  fview : FilterView noFilterPolicy t fv
  sound : ∀ fb, fv = some fb → FilterSound noFilterPolicy t fb
  fwf : ∀ fb, fv = some fb → FilterBlockReader.isWellFormed fb = true
  opened : Opened tb t defaultCmp noFilterPolicy fv
  file : tb.file = 0
  hnew : Table.new ⟨defaultCmp, noFilterPolicy⟩ 0 witnessImg.length (witnessWorld witnessImg) = (w1, .ok tb)
  hit : TableIter.new tb w1 = (w1, .ok it)
  files : w1.files = [witnessImg]
  sched : w1.sched = []
  cache : w1.cache.entries = []
  sim : SimT t tb it none
  iterOK : IterOK it
  itab : it.table = tb
  blocks : ∃ d0 d1 d2, t.blocks = [d0, d1, d2]
    ∧ d0.handle = ⟨0, 13⟩ ∧ d1.handle = ⟨18, 13⟩ ∧ d2.handle = ⟨36, 14⟩
    ∧ d0.blk.kvs = [([1], [10])] ∧ d1.blk.kvs = [([2], [20])] ∧ d2.blk.kvs = [([3, 5], [30])]
  indexHandle : t.indexHandle = ⟨95, 34⟩
  metaHandle : t.metaHandle = ⟨69, 21⟩
  metaKVs : t.metaix.kvs = [(Table.filterName noFilterPolicy, [55, 9])]
  noShort : NoShortCollision t
  noShortMeta : NoShortCollisionMeta noFilterPolicy t

theorem witness_exists : ∃ t fv tb it w1, WitnessOK t fv tb it w1 := by
  let opt := TableBuilder.exampleOpts 0 noFilterPolicy
  have hokw : WOptsOK opt := wOptsOK_default 0 2 (by decide) noFilterPolicy (fun _ _ _ _ => rfl) id
  obtain ⟨t0, n, hb⟩ : ∃ t0 n, TableBuilder.build opt {} TableBuilder.exampleEntries = (t0, .ok n) :=
    TableBuilder.exists_ok_of_isOk _ (by decide +kernel)
  have hn : n < 2 ^ 32 := by
    have h : (match (TableBuilder.build opt {} TableBuilder.exampleEntries).2 with
              | .ok n => decide (n < 2 ^ 32) | _ => false) = true := by decide +kernel
    rw [hb] at h
    simpa using h
  have hsz : opt.compression = 1 → sizeBound opt TableBuilder.exampleEntries < 2 ^ 32 := by
    intro h; cases h
  obtain ⟨_, _, t, himg, _, twf, hent, ⟨fv, hfv, hsound, _⟩, _⟩ :=
    built_image opt hokw noFilterPolicy (readerPolicyOK_refl _) [] TableBuilder.exampleEntries t0 n hb hn hsz
  have himg' : t.img = witnessImg := by
    rw [himg]
    show t0.sink.received = (TableBuilder.build opt {} TableBuilder.exampleEntries).1.sink.received
    rw [hb]
  have hc : defaultCmp.Lawful := hokw.lawful
  have twf' : t.WF defaultCmp := twf
  have hfwf : ∀ fb, fv = some fb → FilterBlockReader.isWellFormed fb = true := by
    intro fb hfb
    subst hfb
    cases hfv with
    | present v fh n fb h hd hz hb hr hw => exact hw
  -- open on the clean world, create an iterator
  have hcw : CleanWorld (witnessWorld t.img) 0 t.img := ⟨rfl, rfl⟩
  obtain ⟨w1, tb, hnew, hop, hfile, _, hcw1, hf1, hent1, _, _, _⟩ :=
    open_ok defaultCmp hc noFilterPolicy t twf' fv hfv (witnessWorld t.img) 0 hcw
  obtain ⟨it, hit, hs⟩ := iter_new_ok defaultCmp hc noFilterPolicy t twf' fv tb hop w1
  have hho : HandleOK tb := handleOK defaultCmp hc noFilterPolicy t twf' fv tb hop hfwf
  obtain ⟨it', hit', hok'⟩ := iter_new_total tb hho w1
  have hitok : IterOK it := by
    rw [hit] at hit'
    cases hit'
    exact hok'
  rw [himg'] at hnew hf1
  -- the data blocks, read off the evaluated image
  have hmap := dataHandles_sound twf' _ (himg' ▸ witness_handles)
  have hblocks : ∃ d0 d1 d2, t.blocks = [d0, d1, d2]
      ∧ d0.handle = ⟨0, 13⟩ ∧ d1.handle = ⟨18, 13⟩ ∧ d2.handle = ⟨36, 14⟩ := by
    match hbl : t.blocks, hmap with
    | [d0, d1, d2], hm =>
      simp only [List.map_cons, List.map_nil, List.cons.injEq, and_true] at hm
      exact ⟨d0, d1, d2, rfl, hm.1, hm.2.1, hm.2.2⟩
    | [], hm => simp at hm
    | [_], hm => simp at hm
    | [_, _], hm => simp at hm
    | _ :: _ :: _ :: _ :: _, hm => simp at hm
  obtain ⟨d0, d1, d2, hbl, h0, h1, h2⟩ := hblocks
  obtain ⟨k0, k1, k2⟩ := witness_blockKVs
  have hm0 : d0 ∈ t.blocks := by rw [hbl]; simp
  have hm1 : d1 ∈ t.blocks := by rw [hbl]; simp
  have hm2 : d2 ∈ t.blocks := by rw [hbl]; simp
  have hfoot := twf'.footer
  rw [himg', witness_footer] at hfoot
  simp only [Option.some.injEq, Footer.mk.injEq] at hfoot
  obtain ⟨hmh, hih⟩ := hfoot
  refine ⟨t, fv, tb, it, w1,
    { img := himg', wf := twf', entries := hent, fview := hfv, sound := hsound, fwf := hfwf, opened := hop,
      file := hfile, hnew := hnew, hit := hit, files := hf1, sched := hcw1.sched,
      cache := by rw [hent1]; rfl, sim := hs, iterOK := hitok, itab := hs.table,
      blocks := ⟨d0, d1, d2, hbl, h0, h1, h2,
        data_kvs_of_eval twf' d0 hm0 _ (by rw [himg', h0]; exact k0),
        data_kvs_of_eval twf' d1 hm1 _ (by rw [himg', h1]; exact k1),
        data_kvs_of_eval twf' d2 hm2 _ (by rw [himg', h2]; exact k2)⟩,
      indexHandle := hih.symm, metaHandle := hmh.symm,
      metaKVs := metaix_kvs_of_eval twf' _ (by rw [himg', ← hmh]; exact witness_metaKVs),
      noShort := noShortCollisionB_sound twf' (himg' ▸ witness_noShort),
      noShortMeta := noShortCollisionMetaB_sound twf' _ (himg' ▸ witness_noShortMeta) }⟩

/-- the world of the instance: as `Table::new` left it, with the fault schedule `S` armed -/
def armed (w1 : World) (S : List Fault) : World := { w1 with sched := S }

theorem WitnessOK.world {t fv tb it w1} (h : WitnessOK t fv tb it w1) (S : List Fault) :
    FileOK (armed w1 S) tb.file t.img ∧ Coherent (armed w1 S) tb.cacheId t ∧ CacheValid (armed w1 S)
      ∧ (armed w1 S).sched = S := by
  refine ⟨?_, ?_, ?_, rfl⟩
  · show (w1.files.getD tb.file []) = t.img
    rw [h.files, h.file, h.img]; rfl
  · intro off c hm
    have : (armed w1 S).cache.entries = [] := h.cache
    rw [this] at hm; cases hm
  · intro k c hm
    have : (armed w1 S).cache.entries = [] := h.cache
    rw [this] at hm; cases hm

/-! ### evaluated runs on the concrete table -/

/-- fault schedule `[none, ioError]`: the 2nd `read_at` fails. 7 calls of `next` on a fresh iterator: the
    first scan (3 calls) loses exactly the second data block; the schedule is then exhausted and the second
    scan (4 calls) returns everything -/
theorem witness_scan_eval :
    withOpened witnessImg (fun _ it w => runB it (List.replicate 7 .next) (armed w [.none, .ioError])
      [.entry (some ([1], [10])), .entry (some ([3, 5], [30])), .entry none,
       .entry (some ([1], [10])), .entry (some ([2], [20])), .entry (some ([3, 5], [30])), .entry none]) = true := by
  decide +kernel

theorem witness_scan3_eval :
    withOpened witnessImg (fun _ it w => runB it (List.replicate 3 .next) (armed w [.none, .ioError])
      [.entry (some ([1], [10])), .entry (some ([3, 5], [30])), .entry none]) = true := by
  decide +kernel

/-- schedule `[ioError]`: `seek [2]` finds its block unreadable and is invalid; repeated (schedule exhausted)
    it stands on the entry of `[2]` -/
theorem witness_seek_eval :
    withOpened witnessImg (fun _ it w => runB it [.seek [2], .valid, .current, .seek [2], .valid, .current]
      (armed w [.ioError])
      [.unit, .flag false, .entry none, .unit, .flag true, .entry (some ([2], [20]))]) = true := by
  decide +kernel

/-- schedule `[ioError]`: the lookup of `[2]` fails with the source's error; repeated it is exact -/
theorem witness_get_eval :
    withOpened witnessImg (fun tb _ w =>
      getB tb [2] (armed w [.ioError]) (.err .ioError)
        && getB tb [2] (tb.get [2] (armed w [.ioError])).1 (.ok (some [20]))) = true := by
  decide +kernel

/-- schedule `[short 7]` (the read of the block delivers 7 of its 18 bytes): the lookup reports
    `Corruption` — the zero-padded buffer does not verify -/
theorem witness_get_short_eval :
    withOpened witnessImg (fun tb _ w => getB tb [2] (armed w [.short 7]) (.err .corruption)) = true := by
  decide +kernel

/-! ### the damaged image -/

theorem witnessImg_split : witnessImg = witnessImg.take 22 ++ [20] ++ witnessImg.drop 23 := by
  decide +kernel

theorem witness_pre_length : (witnessImg.take 22).length = 22 := by decide +kernel

/-- the concrete table with one byte of its second data block altered is a `Damaged` image -/
theorem witness_damaged {t fv tb it w1} (h : WitnessOK t fv tb it w1) :
    ∃ d0 d1 d2, t.blocks = [d0, d1, d2] ∧ Damaged noFilterPolicy t d1 witnessImgDamaged
      ∧ d0.blk.kvs = [([1], [10])] ∧ d1.blk.kvs = [([2], [20])] ∧ d2.blk.kvs = [([3, 5], [30])] := by
  obtain ⟨d0, d1, d2, hbl, h0, h1, h2, k0, k1, k2⟩ := h.blocks
  refine ⟨d0, d1, d2, hbl, ?_, k0, k1, k2⟩
  have hm1 : d1 ∈ t.blocks := by rw [hbl]; simp
  have hlen : t.img.length = 182 := by rw [h.img]; exact witnessImg_length
  refine damaged_of_window defaultCmp noFilterPolicy t h.wf d1 hm1 (witnessImg.take 22) [20] [21]
    (witnessImg.drop 23) (h.img.trans witnessImg_split) rfl (by decide) (by decide) ?_ ?_ ?_ ?_ ?_ ?_ ?_
  · rw [h1, witness_pre_length]; decide
  · rw [h1, witness_pre_length]; decide
  · rw [witness_pre_length, hlen]; decide
  · rw [witness_pre_length, h.indexHandle]; right; decide
  · rw [witness_pre_length, h.metaHandle]; right; decide
  · intro v fh n hmem hd
    rw [h.metaKVs] at hmem
    simp only [List.mem_singleton, Prod.mk.injEq, true_and] at hmem
    subst hmem
    have : BlockHandle.tryDecode [55, 9] = some (⟨55, 9⟩, 2) := by decide +kernel
    rw [this] at hd
    cases hd
    rw [witness_pre_length]; right; decide
  · intro d' hd' hne
    rw [hbl] at hd'
    simp only [List.mem_cons, List.mem_nil_iff, or_false] at hd'
    rw [witness_pre_length]
    rcases hd' with rfl | rfl | rfl
    · left; rw [h0]; decide
    · exact absurd rfl hne
    · right; rw [h2]; decide

/-- evaluated cross-check on the damaged image: scan, lookup of the damaged block's key, of another key -/
theorem witness_damaged_eval :
    withOpened witnessImgDamaged (fun tb it w =>
      runB it (List.replicate 3 .next) w
        [.entry (some ([1], [10])), .entry (some ([3, 5], [30])), .entry none]
      && getB tb [2] w (.err .corruption) && getB tb [1] w (.ok (some [10]))
      && getB tb [3, 5] w (.ok (some [30]))) = true := by
  decide +kernel

end FT
end Sst

#print axioms Sst.FT.noShortCollisionB_sound
#print axioms Sst.FT.noShortCollisionMetaB_sound
#print axioms Sst.FT.witness_exists
#print axioms Sst.FT.witness_scan_eval
#print axioms Sst.FT.witness_damaged
#print axioms Sst.FT.witness_damaged_eval
