import SstModel.Lemmas.Order
/- Helper lemmas for C17: DefaultCmp separator / successor. -/
namespace Sst
namespace DefaultCmp

theorem u8_succ_toNat {x : UInt8} (h : x < 0xff) : (x + 1).toNat = x.toNat + 1 := by
  have h2 : x.toNat < 255 := UInt8.lt_iff_toNat_lt.mp h
  rw [UInt8.toNat_add]
  show (x.toNat + 1) % 256 = _
  omega

theorem u8_lt_succ {x : UInt8} (h : x < 0xff) : x < x + 1 :=
  UInt8.lt_iff_toNat_lt.mpr (by rw [u8_succ_toNat h]; omega)

theorem u8_lt_succ_of_ne {x : UInt8} (h : x ≠ 0xff) : x < x + 1 := by
  apply u8_lt_succ
  apply UInt8.lt_iff_toNat_lt.mpr
  have : x.toNat ≠ 255 := fun e => h (UInt8.toNat_inj.mp e)
  have := x.toNat_lt
  show x.toNat < 255
  omega

/-- The separator recursion peels a common head byte. -/
theorem sep_cons_same (x : UInt8) (as bs : Bytes) :
    findShortestSep (x :: as) (x :: bs) = x :: findShortestSep as bs := by
  unfold findShortestSep
  by_cases h : as = bs
  · simp [h]
  · have hne : ¬ (x :: as = x :: bs) := by simpa using h
    simp only [hne, h, if_false, commonPrefixLen, if_true, List.length_cons, List.drop_succ_cons,
      List.take_succ_cons]
    have hmin : min (as.length + 1) (bs.length + 1) = min as.length bs.length + 1 := by omega
    rw [hmin]
    by_cases hd : commonPrefixLen as bs = min as.length bs.length
    · simp [hd]
    · have : ¬ (commonPrefixLen as bs + 1 = min as.length bs.length + 1) := by omega
      simp only [hd, this, if_false]
      cases sepScan (List.drop (commonPrefixLen as bs) as) (List.drop (commonPrefixLen as bs) bs) <;> simp

/-- whatever `sepScan` returns is above its first argument and not longer -/
theorem sepScan_spec {as bs t : Bytes} (h : sepScan as bs = some t) :
    blt as t ∧ t.length ≤ as.length := by
  induction as generalizing bs t with
  | nil => cases bs <;> simp [sepScan] at h
  | cons x xs ih =>
    cases bs with
    | nil => simp [sepScan] at h
    | cons y ys =>
      simp only [sepScan] at h
      split at h
      · rename_i hc
        cases h
        exact ⟨blt_cons_of_lt _ _ (u8_lt_succ hc.1), by simp⟩
      · cases hs : sepScan xs ys with
        | none => simp [hs] at h
        | some t' =>
          simp [hs] at h
          subst h
          have := ih hs
          exact ⟨blt_cons_same.mpr this.1, by simp; exact this.2⟩

theorem sep_spec (a b : Bytes) (h : blt a b) :
    ble a (findShortestSep a b) ∧ blt (findShortestSep a b) b
      ∧ (findShortestSep a b).length ≤ a.length + 1 := by
  induction a generalizing b with
  | nil =>
    cases b with
    | nil => exact absurd h (blt_irrefl _)
    | cons y ys =>
      have : findShortestSep [] (y :: ys) = [] := by simp [findShortestSep, commonPrefixLen]
      rw [this]; exact ⟨ble_refl _, h, by simp⟩
  | cons x xs ih =>
    cases b with
    | nil => exact absurd h (not_blt_nil _)
    | cons y ys =>
      rcases blt_cons_iff.mp h with hxy | ⟨hxy, hrest⟩
      · -- first byte differs
        have hne : x ≠ y := fun e => by subst e; exact u8_lt_irrefl _ hxy
        have hne' : ¬ (x :: xs = y :: ys) := by simp [hne]
        unfold findShortestSep
        simp only [hne', if_false, commonPrefixLen, hne, List.length_cons, List.drop_zero,
          List.take_zero, List.nil_append]
        have hmin : ¬ (0 = min (xs.length + 1) (ys.length + 1)) := by omega
        simp only [hmin, if_false]
        cases hs : sepScan (x :: xs) (y :: ys) with
        | none =>
          simp only
          refine ⟨ble_append_right _ _, ?_, by simp⟩
          exact blt_cons_of_lt _ _ hxy
        | some t =>
          simp only
          have hsp := sepScan_spec hs
          refine ⟨ble_of_blt hsp.1, ?_, by have := hsp.2; simp at this ⊢; omega⟩
          -- t starts with x or x+1 < y
          simp only [sepScan] at hs
          split at hs
          · rename_i hc; cases hs
            exact blt_cons_of_lt _ _ hc.2
          · cases hs2 : sepScan xs ys with
            | none => simp [hs2] at hs
            | some t' => simp [hs2] at hs; subst hs; exact blt_cons_of_lt _ _ hxy
      · subst hxy
        rw [sep_cons_same]
        have := ih ys hrest
        exact ⟨ble_cons_same.mpr this.1, blt_cons_same.mpr this.2.1, by simp; exact this.2.2⟩

theorem succ_spec (a : Bytes) : blt a (findShortSucc a) := by
  induction a with
  | nil => exact nil_blt_cons _ _
  | cons x xs ih =>
    unfold findShortSucc
    by_cases h : x ≠ 0xff
    · rw [if_pos h]
      exact blt_cons_of_lt _ _ (u8_lt_succ_of_ne h)
    · rw [if_neg h]
      exact blt_cons_same.mpr ih

end DefaultCmp
end Sst
