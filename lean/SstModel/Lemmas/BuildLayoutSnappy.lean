import SstModel.Lemmas.BuildLayout
/-
  Side remarks on the `lossless` hypothesis of `WOptsOK`:
  the modelled raw-snappy decoder only ever returns outputs shorter than 2^32 bytes, so the
  unrestricted hypothesis `∀ b, Snappy.decode (compress b) = some b` is unsatisfiable; this is why
  `WOptsOK.lossless` is restricted to inputs shorter than 2^32 bytes.
-/
namespace Sst
namespace BL
open Snappy

theorem copyBack_length (offset : Nat) (h1 : 0 < offset) : ∀ (len : Nat) (outRev : Bytes),
    offset ≤ outRev.length → (copyBack outRev offset len).length = outRev.length + len
  | 0, _, _ => rfl
  | len + 1, outRev, h2 => by
    unfold copyBack
    have : offset - 1 < outRev.length := by omega
    rw [List.getElem?_eq_getElem this]
    show (copyBack (outRev[offset - 1] :: outRev) offset len).length = _
    rw [copyBack_length offset h1 len (outRev[offset - 1] :: outRev)
      (by simp only [List.length_cons]; omega)]
    simp only [List.length_cons]; omega

theorem elements_length : ∀ (fuel : Nat) (src outRev : Bytes) (produced total : Nat) (out : Bytes),
    elements fuel src outRev produced total = some out → produced = outRev.length → out.length = total
  | 0, _, _, _, _, _, h, _ => by unfold elements at h; cases h
  | fuel + 1, src, outRev, produced, total, out, h, hp => by
    unfold elements at h
    split at h
    · split at h
      · injection h with h
        subst h
        simp; omega
      · cases h
    · rename_i tag rest
      simp only [] at h
      split at h
      · -- literal
        split at h
        · cases h
        · rename_i len rest' _
          split at h
          · cases h
          · rename_i hc
            refine elements_length fuel _ _ _ _ _ h ?_
            simp only [List.length_append, List.length_reverse, List.length_take]
            omega
      · split at h
        · cases h
        · rename_i len offset rest' _
          split at h
          · cases h
          · rename_i hc
            refine elements_length fuel _ _ _ _ _ h ?_
            rw [copyBack_length offset (by omega) len outRev (by omega)]
            omega

theorem header_le : ∀ (bs : Bytes) (acc shift i v hl : Nat), header bs acc shift i = some (v, hl) →
    v ≤ 4294967295
  | [], _, _, _, _, _, h => by simp [header] at h
  | b :: rest, acc, shift, i, v, hl, h => by
    unfold header at h
    split at h
    · cases h
    · split at h
      · simp only [] at h
        split at h
        · cases h
        · injection h with h
          injection h with h1 h2
          omega
      · exact header_le rest _ _ _ _ _ h

/-- the decoder never returns 2^32 bytes or more -/
theorem decode_length_lt (input out : Bytes) (h : Snappy.decode input = some out) : out.length < 2 ^ 32 := by
  unfold Snappy.decode at h
  split at h
  · cases h
  · split at h
    · cases h
    · rename_i total hlen hh
      have := header_le _ _ _ _ _ _ hh
      have := elements_length _ _ _ _ _ _ h rfl
      omega

/-- hence the unrestricted losslessness hypothesis cannot hold for any compressor -/
theorem no_unrestricted_lossless (compress : Bytes → Bytes) :
    ¬ ∀ b : Bytes, Snappy.decode (compress b) = some b := by
  intro h
  have := decode_length_lt _ _ (h (List.replicate (2 ^ 32) 0))
  rw [List.length_replicate] at this
  exact Nat.lt_irrefl _ this

/-! ### a (literal-only) compressor satisfying the restricted hypothesis -/

/-- literal elements of at most 60 bytes each -/
def litChunks : Nat → Bytes → Bytes
  | 0, _ => []
  | f + 1, b =>
    if b = [] then []
    else UInt8.ofNat (((b.take 60).length - 1) * 4) :: (b.take 60 ++ litChunks f (b.drop 60))

/-- a valid raw-snappy encoding without any compression -/
def litCompress (b : Bytes) : Bytes := encodeVarint b.length ++ litChunks (b.length + 1) b

theorem header_encodeVarint : ∀ (n : Nat) (rest : Bytes) (acc shift i : Nat),
    i + (encodeVarint n).length ≤ 5 → acc + n * 2 ^ shift ≤ 4294967295 →
    header (encodeVarint n ++ rest) acc shift i = some (acc + n * 2 ^ shift, i + (encodeVarint n).length) := by
  intro n
  induction n using Nat.strongRecOn with
  | _ n ih =>
    intro rest acc shift i hi hv
    by_cases hn : n < 128
    · rw [encodeVarint_lt n hn] at hi ⊢
      simp only [List.length_cons, List.length_nil] at hi ⊢
      show header (UInt8.ofNat n :: rest) acc shift i = _
      unfold header
      have ht : (UInt8.ofNat n).toNat = n := by
        rw [UInt8.toNat_ofNat']; omega
      rw [if_neg (by omega), ht, if_pos hn]
      simp only []
      rw [if_neg (by omega)]
    · rw [encodeVarint_ge n hn] at hi ⊢
      simp only [List.length_cons] at hi ⊢
      show header (UInt8.ofNat (n % 128 + 128) :: (encodeVarint (n / 128) ++ rest)) acc shift i = _
      unfold header
      have ht : (UInt8.ofNat (n % 128 + 128)).toNat = n % 128 + 128 := by
        rw [UInt8.toNat_ofNat']; omega
      rw [if_neg (by omega), ht, if_neg (by omega)]
      have hpow : 2 ^ (shift + 7) = 2 ^ shift * 128 := by rw [Nat.pow_add]
      have hsplit : n * 2 ^ shift = (n % 128) * 2 ^ shift + (n / 128) * (2 ^ shift * 128) := by
        have : n = n % 128 + n / 128 * 128 := by omega
        conv => lhs; rw [this]
        rw [Nat.add_mul, Nat.mul_assoc, Nat.mul_comm 128]
      have hmod : (n % 128 + 128) % 128 = n % 128 := by omega
      rw [ih (n / 128) (by omega) rest _ _ _ (by omega) (by rw [hmod, hpow]; omega)]
      rw [hmod, hpow]
      congr 2
      · omega
      · omega

theorem elements_litChunks (total : Nat) : ∀ (f : Nat) (b : Bytes) (fuel : Nat) (outRev : Bytes) (produced : Nat),
    b.length ≤ f → b.length < fuel → produced + b.length = total →
    elements fuel (litChunks f b) outRev produced total = some (outRev.reverse ++ b)
  | 0, b, fuel, outRev, produced, hf, hfuel, hp => by
    have hb : b = [] := List.eq_nil_of_length_eq_zero (by omega)
    subst hb
    obtain ⟨fuel', rfl⟩ : ∃ k, fuel = k + 1 := ⟨fuel - 1, by omega⟩
    unfold litChunks elements
    simp only [List.length_nil, Nat.add_zero] at hp
    simp [hp]
  | f + 1, b, fuel, outRev, produced, hf, hfuel, hp => by
    obtain ⟨fuel', rfl⟩ : ∃ k, fuel = k + 1 := ⟨fuel - 1, by omega⟩
    unfold litChunks
    by_cases hb : b = []
    · subst hb
      unfold elements
      simp only [List.length_nil, Nat.add_zero] at hp
      simp [hp]
    · rw [if_neg hb]
      have hpos : 0 < b.length := List.length_pos_iff.mpr hb
      have hcl : (b.take 60).length = min 60 b.length := List.length_take
      have hc1 : 1 ≤ (b.take 60).length := by omega
      have hc2 : (b.take 60).length ≤ 60 := by omega
      have ht : (UInt8.ofNat (((b.take 60).length - 1) * 4)).toNat = ((b.take 60).length - 1) * 4 := by
        rw [UInt8.toNat_ofNat']; omega
      unfold elements
      simp only [ht]
      rw [if_pos (by omega)]
      have hl0 : ((b.take 60).length - 1) * 4 / 4 + 1 = (b.take 60).length := by omega
      rw [hl0, if_pos (by omega)]
      simp only []
      rw [if_neg (by simp only [List.length_append]; omega)]
      have hdrop : (b.take 60 ++ litChunks f (b.drop 60)).drop (b.take 60).length = litChunks f (b.drop 60) :=
        List.drop_left
      have htake : (b.take 60 ++ litChunks f (b.drop 60)).take (b.take 60).length = b.take 60 :=
        List.take_left
      rw [hdrop, htake]
      rw [elements_litChunks total f (b.drop 60) fuel' _ _ (by rw [List.length_drop]; omega)
        (by rw [List.length_drop]; omega) (by rw [List.length_drop]; omega)]
      simp

theorem litChunks_length : ∀ (f : Nat) (b : Bytes), b.length ≤ f → b.length ≤ (litChunks f b).length
  | 0, b, h => by omega
  | f + 1, b, h => by
    unfold litChunks
    by_cases hb : b = []
    · subst hb; simp
    · rw [if_neg hb]
      have hpos : 0 < b.length := List.length_pos_iff.mpr hb
      have := litChunks_length f (b.drop 60) (by rw [List.length_drop]; omega)
      simp only [List.length_cons, List.length_append, List.length_take, List.length_drop] at this ⊢
      omega

theorem decode_litCompress (b : Bytes) (hb : b.length < 2 ^ 32) : Snappy.decode (litCompress b) = some b := by
  have hvl : (encodeVarint b.length).length ≤ 5 := vlen_le5 b.length hb
  have hvp := encodeVarint_length_pos b.length
  unfold Snappy.decode
  split
  · rename_i heq
    have : (litCompress b).length = 0 := by rw [heq]; rfl
    unfold litCompress at this
    simp only [List.length_append] at this
    omega
  · unfold litCompress
    rw [header_encodeVarint b.length _ 0 0 0 (by omega) (by simp; omega)]
    simp only [Nat.zero_add, Nat.pow_zero, Nat.mul_one, List.drop_left]
    rw [elements_litChunks b.length (b.length + 1) b _ [] 0 (by omega)
      (by have := litChunks_length (b.length + 1) b (by omega)
          simp only [List.length_append]; omega) (by omega)]
    simp

/-- non-vacuity for the compressing configuration -/
theorem wOptsOK_snappy (blockSize ri : Nat) (hri : 1 ≤ ri) (filter : FilterPolicy)
    (hf : ∀ ks k, k ∈ ks → (filter.createFilter ks).length < 2 ^ 32 →
      filter.keyMayMatch k (filter.createFilter ks) = true) :
    WOptsOK { cmp := defaultCmp, blockSize, restartInterval := ri, compression := 1, filter,
              compress := litCompress } where
  lawful := defaultCmp_lawful
  ri := hri
  ctype := .inr rfl
  lossless := fun _ b hb => decode_litCompress b hb
  filterSound := hf
  lastSep := defaultCmp_lastSep
  sepLen := fun _ => defaultCmp_sepLen

/-- … with the crate's default filter policy (bloom) -/
theorem wOptsOK_snappy_bloom (blockSize ri : Nat) (hri : 1 ≤ ri) (b : Nat) :
    WOptsOK { cmp := defaultCmp, blockSize, restartInterval := ri, compression := 1,
              filter := Bloom.policy b, compress := litCompress } :=
  wOptsOK_snappy blockSize ri hri (Bloom.policy b) (bloom_policy_sound b)

end BL
end Sst

#print axioms Sst.BL.no_unrestricted_lossless
#print axioms Sst.BL.wOptsOK_snappy
#print axioms Sst.BL.wOptsOK_snappy_bloom
