import SstModel.Lemmas.BlockAdvance
import SstModel.Lemmas.CmpLaws
/-
  `BlockIter::seek` refines `Spec.lowerBound` on a well-formed block with strictly increasing keys
  under a lawful comparator (T4).
-/
namespace Sst
open Spec

/-! ### small facts about chains, offsets and sortedness -/

/-- each entry takes at least one byte, so there are at most `roff - off` entries -/
theorem Chain.length_le_seek {b : Bytes} {roff : Nat} :
    ∀ {es : List EInfo} {prev : Bytes} {off : Nat}, Chain b roff prev off es →
      off + es.length ≤ roff := by
  intro es
  induction es with
  | nil => intro _ off h; have : off = roff := h; simp [this]
  | cons a es ih =>
    intro prev off h
    obtain ⟨hoff, hlt, hp, hsh, hnext, hkey, hrest⟩ := h
    have hhl := parseHeader_headLen hp
    have hnx : a.off < a.next := by simp only [EInfo.next, EInfo.valOff]; omega
    have := ih hrest
    simp only [List.length_cons]
    omega

/-- entry offsets determine entry indices monotonically -/
theorem idx_lt_of_off_lt {b es rs} (wf : BlockWF b es rs) {i j : Nat} {p e : EInfo}
    (hp : es[i]? = some p) (he : es[j]? = some e) (h : p.off < e.off) : i < j := by
  rcases Nat.lt_trichotomy i j with h1 | h1 | h1
  · exact h1
  · subst h1; rw [hp] at he; cases he; omega
  · have := (Chain.off_lt_of_lt wf.chain h1 he hp).2; omega

theorem keysSorted_get {cmp : Cmp} {es : List EInfo} (hs : KeysSorted cmp (es.map (·.key)))
    {i j : Nat} {p e : EInfo} (hij : i < j) (hp : es[i]? = some p) (he : es[j]? = some e) :
    cmp.cmp p.key e.key = .lt := by
  unfold KeysSorted at hs
  rw [List.pairwise_map, List.pairwise_iff_getElem] at hs
  obtain ⟨hi, rfl⟩ := List.getElem?_eq_some_iff.mp hp
  obtain ⟨hj, rfl⟩ := List.getElem?_eq_some_iff.mp he
  exact hs i j hi hj hij

/-- every restart point of a non-empty block is the offset of an entry with `shared = 0` -/
theorem restart_entry {b es rs} (wf : BlockWF b es rs) (hne : es ≠ []) (ix : Nat)
    (hix : ix < rs.length) : ∃ (j : Nat) (e : EInfo), es[j]? = some e ∧ e.off = rs[ix] ∧ e.shared = 0 := by
  rcases wf.isStart rs[ix] (List.getElem_mem hix) with ⟨e, hm, ho, hs⟩ | ⟨h, _⟩
  · obtain ⟨j, hj⟩ := List.mem_iff_getElem?.mp hm
    exact ⟨j, e, hj, ho, hs⟩
  · exact absurd h hne

/-- an empty block has exactly one restart point -/
theorem restarts_of_empty {b rs} (wf : BlockWF b [] rs) : rs.length = 1 := by
  have hn := wf.nrs
  match rs, wf with
  | [_], _ => rfl
  | r0 :: r1 :: rest, wf =>
    have h0 : r0 = 0 := by
      rcases wf.isStart r0 (by simp) with ⟨e, hm, _⟩ | ⟨_, h⟩
      · simp at hm
      · exact h
    have h1 : r1 = 0 := by
      rcases wf.isStart r1 (by simp) with ⟨e, hm, _⟩ | ⟨_, h⟩
      · simp at hm
      · exact h
    have := wf.incr
    simp only [List.pairwise_cons] at this
    have := this.1 r1 (by simp)
    omega

/-! ### `lowerBound` from a prefix characterisation -/

theorem takeWhile_length_of_prefix {α : Type} (p : α → Bool) :
    ∀ (l : List α) (j : Nat), j ≤ l.length →
      (∀ i x, i < j → l[i]? = some x → p x = true) →
      (∀ x, l[j]? = some x → p x = false) → (l.takeWhile p).length = j := by
  intro l
  induction l with
  | nil => intro j hj _ _; simp at hj; simp [hj]
  | cons a l ih =>
    intro j hj h1 h2
    cases j with
    | zero =>
      have := h2 a (by simp)
      simp [this]
    | succ j =>
      have ha := h1 0 a (by omega) (by simp)
      simp only [List.takeWhile_cons, ha, if_true, List.length_cons, Nat.add_right_cancel_iff]
      refine ih j (by simpa using hj) ?_ ?_
      · intro i x hi hx
        exact h1 (i + 1) x (by omega) (by simpa using hx)
      · intro x hx
        exact h2 x (by simpa using hx)

theorem lowerBound_some {b : Bytes} {es : List EInfo} {cmp : Cmp} {t : Bytes} {j : Nat} {e : EInfo}
    (he : es[j]? = some e)
    (h1 : ∀ i p, i < j → es[i]? = some p → cmp.cmp p.key t = .lt)
    (h2 : cmp.cmp e.key t ≠ .lt) : Spec.lowerBound cmp (kvOf b es) t = some j := by
  have hj : j < es.length := (List.getElem?_eq_some_iff.mp he).1
  have hlen : ((kvOf b es).takeWhile (fun e => keyLt cmp e.1 t)).length = j := by
    apply takeWhile_length_of_prefix
    · rw [kvOf_length]; omega
    · intro i x hi hx
      rw [kvOf_getElem?] at hx
      cases hp : es[i]? with
      | none => rw [hp] at hx; simp at hx
      | some p =>
        rw [hp] at hx
        simp only [Option.map_some, Option.some.injEq] at hx
        subst hx
        simp [keyLt, h1 i p hi hp]
    · intro x hx
      rw [kvOf_getElem?, he] at hx
      simp only [Option.map_some, Option.some.injEq] at hx
      subst hx
      simp [keyLt, h2]
  unfold Spec.lowerBound
  simp only [hlen, kvOf_length, if_pos hj]

theorem lowerBound_none {b : Bytes} {es : List EInfo} {cmp : Cmp} {t : Bytes}
    (h1 : ∀ (i : Nat) (p : EInfo), es[i]? = some p → cmp.cmp p.key t = .lt) :
    Spec.lowerBound cmp (kvOf b es) t = none := by
  have hlen : ((kvOf b es).takeWhile (fun e => keyLt cmp e.1 t)).length = es.length := by
    apply takeWhile_length_of_prefix
    · rw [kvOf_length]; omega
    · intro i x hi hx
      rw [kvOf_getElem?] at hx
      cases hp : es[i]? with
      | none => rw [hp] at hx; simp at hx
      | some p =>
        rw [hp] at hx
        simp only [Option.map_some, Option.some.injEq] at hx
        subst hx
        simp [keyLt, h1 i p hp]
    · intro x hx
      rw [kvOf_getElem?] at hx
      simp at hx
  unfold Spec.lowerBound
  simp only [hlen, kvOf_length, Nat.lt_irrefl, if_false]

/-! ### `seek_to_restart_point` -/

theorem seekToRestartPoint_ok' {b es rs} (wf : BlockWF b es rs) (hsmall : b.length < 2 ^ 64)
    (it : BlockIter) (hb : it.block = b) (hr : it.restartsOff = b.length - 4 - 4 * rs.length)
    (ix : Nat) (hix : ix < rs.length) (j : Nat) (e : EInfo) (he : es[j]? = some e)
    (hoff : e.off = rs[ix]) (hsh : e.shared = 0) :
    ∃ it', it.seekToRestartPoint ix = .ok it' ∧ SimB b es rs it' (some j)
      ∧ it'.curRestartIx = ix := by
  obtain ⟨hhl, hlt, hnext, hp⟩ := wf.entry he
  have hpa := parse_at wf hsmall
    { it with offset := rs[ix], curEntryOff := rs[ix], curRestartIx := ix } j e hb he hoff.symm
  have hvn : e.off + e.headLen + e.nonShared ≤ e.next := by
    simp only [EInfo.next, EInfo.valOff]; omega
  have hsl : slice? b (rs[ix] + e.headLen) (rs[ix] + e.headLen + e.nonShared)
      = some ((b.drop (e.off + e.headLen)).take e.nonShared) := by
    rw [← hoff]; exact slice?_add (by omega)
  have h1 : e.valOff > 0 := by simp only [EInfo.valOff]; omega
  have h2 : e.valOff ≤ b.length - 4 - 4 * rs.length := by
    simp only [EInfo.next] at hnext; omega
  obtain ⟨prev', hc, hm⟩ := Chain.at_index wf.chain j e he
  have hkey : e.key = prev'.take e.shared ++ (b.drop (e.off + e.headLen)).take e.nonShared :=
    hc.2.2.2.2.2.1
  unfold BlockIter.seekToRestartPoint
  simp only [getRestartPoint_eq wf it hb hr ix hix, Res.bind_ok, hpa]
  have ha1 : assert (e.shared == 0) "seek_to_restart_point: shared == 0" = .ok () := by
    simp [assert, hsh]
  simp only [ha1, Res.bind_ok, BlockIter.assembleKey, hb, hsl]
  have ha2 : ∀ k : Bytes, assert (BlockIter.valid
      { block := b, restartsOff := it.restartsOff, offset := e.next, curEntryOff := rs[ix],
        curRestartIx := ix, key := k, valOffset := e.valOff })
      "seek_to_restart_point: valid" = .ok () := by
    intro k
    simp [assert, BlockIter.valid, hr, h1, h2]
  simp only [ha2, Res.bind_ok, Res.pure_eq]
  refine ⟨_, rfl, ?_, rfl⟩
  exact {
    block := rfl
    roff := hr
    rix := hix
    at_ := ⟨e, he, hoff.symm, rfl, rfl, by rw [hkey, hsh]; simp⟩ }

/-! ### the linear scan -/

/-- the scan from a simulated position `j` all of whose predecessors (and itself) lie below `t` -/
theorem seekLinear_sim {b es rs} (cmp : Cmp) (wf : BlockWF b es rs) (hsmall : b.length < 2 ^ 64)
    (t : Bytes) :
    ∀ (fuel : Nat) (it : BlockIter) (j : Nat), SimB b es rs it (some j) →
      (∀ (i : Nat) (p : EInfo), i ≤ j → es[i]? = some p → cmp.cmp p.key t = .lt) →
      es.length ≤ j + fuel →
      ∃ it', it.seekLinear cmp t fuel = .ok it'
        ∧ SimB b es rs it' (Spec.lowerBound cmp (kvOf b es) t) := by
  intro fuel
  induction fuel with
  | zero =>
    intro it j h _ hf
    obtain ⟨e, he, _⟩ := h.at_
    have := (List.getElem?_eq_some_iff.mp he).1
    omega
  | succ fuel ih =>
    intro it j h hlt hf
    obtain ⟨it', hn, hs⟩ := simB_next wf hsmall h
    unfold BlockIter.seekLinear
    by_cases hnext : j + 1 < es.length
    · have hadv : Spec.advance (kvOf b es) (some j) = (some (j + 1), true) := by
        simp only [Spec.advance, kvOf_length, if_pos hnext]
      have he' : es[j + 1]? = some es[j + 1] := List.getElem?_eq_getElem hnext
      rw [hadv] at hn hs
      simp only [Spec.entryAt, kvOf_getElem?, he', Option.map_some] at hn
      simp only [hn]
      by_cases hk : cmp.cmp es[j + 1].key t = .lt
      · have hk' : (cmp.cmp es[j + 1].key t != .lt) = false := by simp [hk]
        simp only [hk', Bool.false_eq_true, if_false]
        refine ih it' (j + 1) hs ?_ (by omega)
        intro i p hi hp
        by_cases hij : i ≤ j
        · exact hlt i p hij hp
        · have : i = j + 1 := by omega
          subst this
          rw [he'] at hp; cases hp; exact hk
      · have hk' : (cmp.cmp es[j + 1].key t != .lt) = true := by simp [hk]
        simp only [hk', if_true]
        refine ⟨it', rfl, ?_⟩
        rw [lowerBound_some he' (fun i p hi hp => hlt i p (by omega) hp) hk]
        exact hs
    · have hadv : Spec.advance (kvOf b es) (some j) = (none, false) := by
        simp only [Spec.advance, kvOf_length, if_neg hnext]
      rw [hadv] at hn hs
      simp only [Spec.entryAt] at hn
      simp only [hn]
      refine ⟨it', rfl, ?_⟩
      rw [lowerBound_none (b := b) (cmp := cmp) (t := t) (es := es) ?_]
      · exact hs
      · intro i p hp
        have := (List.getElem?_eq_some_iff.mp hp).1
        exact hlt i p (by omega) hp

/-- the scan started just before entry `j` (offset set, key register arbitrary but `shared = 0`) -/
theorem seekLinear_at {b es rs} (cmp : Cmp) (wf : BlockWF b es rs) (hsmall : b.length < 2 ^ 64)
    (t : Bytes) (fuel : Nat) (it : BlockIter) (j : Nat) (e : EInfo)
    (hb : it.block = b) (hr : it.restartsOff = b.length - 4 - 4 * rs.length)
    (hrix : it.curRestartIx < rs.length)
    (he : es[j]? = some e) (ho : it.offset = e.off) (hsh : e.shared = 0)
    (hlt : ∀ (i : Nat) (p : EInfo), i < j → es[i]? = some p → cmp.cmp p.key t = .lt)
    (hf : es.length ≤ j + fuel) :
    ∃ it', it.seekLinear cmp t (fuel + 1) = .ok it'
      ∧ SimB b es rs it' (Spec.lowerBound cmp (kvOf b es) t) := by
  obtain ⟨it', ha, hs, _⟩ := advance_at wf hsmall it j e hb hr hrix he ho (Or.inl hsh)
  have hcur := simB_current wf hs
  simp only [Spec.entryAt, kvOf_getElem?, he, Option.map_some] at hcur
  have hn : it.next = .ok (it', some (e.key, (b.drop e.valOff).take e.valLen)) := by
    unfold BlockIter.next
    simp only [ha, Res.bind_ok, Bool.not_true, Bool.false_eq_true, if_false, hcur, Res.pure_eq]
  unfold BlockIter.seekLinear
  simp only [hn]
  by_cases hk : cmp.cmp e.key t = .lt
  · have hk' : (cmp.cmp e.key t != .lt) = false := by simp [hk]
    simp only [hk', Bool.false_eq_true, if_false]
    refine seekLinear_sim cmp wf hsmall t fuel it' j hs ?_ hf
    intro i p hi hp
    by_cases hij : i < j
    · exact hlt i p hij hp
    · have : i = j := by omega
      subst this
      rw [he] at hp; cases hp; exact hk
  · have hk' : (cmp.cmp e.key t != .lt) = true := by simp [hk]
    simp only [hk', if_true]
    refine ⟨it', rfl, ?_⟩
    rw [lowerBound_some he hlt hk]
    exact hs

/-! ### the binary search over the restart points -/

/-- invariant of the binary search: every entry before restart point `l` lies below `t` -/
def SeekInv (cmp : Cmp) (es : List EInfo) (rs : List Nat) (t : Bytes) (l : Nat) : Prop :=
  ∀ r, rs[l]? = some r → ∀ (i : Nat) (p : EInfo), es[i]? = some p → p.off < r → cmp.cmp p.key t = .lt

theorem seekBinSearch_ok {b es rs} (cmp : Cmp) (hc : cmp.Lawful) (wf : BlockWF b es rs)
    (hsmall : b.length < 2 ^ 64) (hsorted : KeysSorted cmp (es.map (·.key))) (hne : es ≠ [])
    (t : Bytes) :
    ∀ (fuel left right : Nat) (it : BlockIter), it.block = b →
      it.restartsOff = b.length - 4 - 4 * rs.length →
      left ≤ right → right < rs.length → right - left + 1 ≤ fuel → SeekInv cmp es rs t left →
      ∃ it' l, BlockIter.seekBinSearch cmp it t fuel left right = .ok (it', l)
        ∧ it'.block = b ∧ it'.restartsOff = b.length - 4 - 4 * rs.length ∧ l < rs.length
        ∧ SeekInv cmp es rs t l := by
  intro fuel
  induction fuel with
  | zero => intro left right it _ _ _ _ hf; omega
  | succ fuel ih =>
    intro left right it hb hr hle hright hf hinv
    unfold BlockIter.seekBinSearch
    by_cases hlr : left < right
    · rw [if_pos hlr]
      have hm1 : left < (left + right + 1) / 2 := by omega
      have hm2 : (left + right + 1) / 2 ≤ right := by omega
      generalize (left + right + 1) / 2 = middle at hm1 hm2
      have hmid : middle < rs.length := by omega
      obtain ⟨j, e, he, hoff, hsh⟩ := restart_entry wf hne middle hmid
      obtain ⟨it', hseek, hs, _⟩ :=
        seekToRestartPoint_ok' wf hsmall it hb hr middle hmid j e he hoff hsh
      obtain ⟨e', he', _, _, _, hkey⟩ := hs.at_
      rw [he] at he'; cases he'
      simp only [hseek]
      by_cases hk : cmp.cmp it'.key t = .lt
      · have hk' : (cmp.cmp it'.key t == .lt) = true := by simp [hk]
        simp only [hk', if_true]
        refine ih middle right it' hs.block hs.roff hm2 hright (by omega) ?_
        intro r hrm i p hp hpo
        rw [List.getElem?_eq_getElem hmid] at hrm
        cases hrm
        rw [← hoff] at hpo
        have hij := idx_lt_of_off_lt wf hp he hpo
        have := keysSorted_get hsorted hij hp he
        rw [hkey] at hk
        exact hc.trans _ _ _ this hk
      · have hk' : (cmp.cmp it'.key t == .lt) = false := by simp [hk]
        simp only [hk', Bool.false_eq_true, if_false]
        exact ih left (middle - 1) it' hs.block hs.roff (by omega) (by omega) (by omega) hinv
    · rw [if_neg hlr]
      have : left = right := by omega
      rw [if_pos this]
      exact ⟨it, left, rfl, hb, hr, by omega, hinv⟩

/-! ### `seek` -/

/-- T4: on a well-formed block whose keys strictly increase under a lawful comparator, `seek t` from ANY
    simulated state positions the iterator at the least entry whose key is not below `t`
    (or before-first/invalid if there is none) -/
theorem simB_seek {b es rs it pos} (cmp : Cmp) (hc : cmp.Lawful) (wf : BlockWF b es rs) (hsmall : b.length < 2^64)
    (hsorted : KeysSorted cmp (es.map (·.key))) (h : SimB b es rs it pos) (t : Bytes) :
    ∃ it', it.seek cmp t = .ok it' ∧ SimB b es rs it' (Spec.lowerBound cmp (kvOf b es) t) := by
  have hrs := simB_reset wf h
  have hnum : it.reset.numberRestarts = rs.length := numberRestarts_eq wf it.reset hrs.block
  have hnrs := wf.nrs
  have hright : (if rs.length = 0 then 0 else rs.length - 1) = rs.length - 1 := by
    rw [if_neg (by omega)]
  have hr0 : rs[0]'(by omega) = 0 := by
    have := wf.first
    rw [List.getElem?_eq_getElem (by omega)] at this
    exact Option.some.inj this
  by_cases hne : es = []
  · subst hne
    have hlen1 := restarts_of_empty wf
    have hbs : BlockIter.seekBinSearch cmp it.reset t (rs.length + 2) 0 (rs.length - 1)
        = .ok (it.reset, 0) := by
      rw [hlen1]
      simp [BlockIter.seekBinSearch]
    have hgr := getRestartPoint_eq wf it.reset hrs.block hrs.roff 0 (by omega)
    unfold BlockIter.seek
    simp only [hnum, hright, hbs, Res.bind_ok, hgr, hr0]
    have hs1 : SimB b [] rs { it.reset with curRestartIx := 0, offset := 0 } none :=
      { block := hrs.block, roff := hrs.roff, rix := hrs.rix, at_ := hrs.at_ }
    obtain ⟨it', hn, hs⟩ := simB_next wf hsmall hs1
    have hadv : Spec.advance (kvOf b []) none = (none, false) := rfl
    rw [hadv] at hn hs
    simp only [Spec.entryAt] at hn
    unfold BlockIter.seekLinear
    simp only [hn]
    exact ⟨it', rfl, hs⟩
  · have hinv0 : SeekInv cmp es rs t 0 := by
      intro r hr i p _ hpo
      rw [List.getElem?_eq_getElem (by omega), hr0] at hr
      cases hr
      omega
    obtain ⟨it1, l, hbs, hb1, hroff1, hl, hinv⟩ :=
      seekBinSearch_ok cmp hc wf hsmall hsorted hne t (rs.length + 2) 0 (rs.length - 1) it.reset
        hrs.block hrs.roff (by omega) (by omega) (by omega) hinv0
    have hgr := getRestartPoint_eq wf it1 hb1 hroff1 l hl
    obtain ⟨j, e, he, hoff, hsh⟩ := restart_entry wf hne l hl
    have hlenle : es.length ≤ b.length := by
      have := Chain.length_le_seek wf.chain
      omega
    unfold BlockIter.seek
    simp only [hnum, hright, hbs, Res.bind_ok, hgr]
    rw [show it1.block.length + 2 = b.length + 1 + 1 by rw [hb1]]
    refine seekLinear_at cmp wf hsmall t (b.length + 1)
      { it1 with curRestartIx := l, offset := rs[l] } j e hb1 hroff1 hl he hoff.symm hsh ?_
      (by omega)
    intro i p hi hp
    have hpe := (Chain.off_lt_of_lt wf.chain hi hp he).2
    rw [hoff] at hpe
    exact hinv rs[l] (List.getElem?_eq_getElem hl) i p hp hpe

end Sst

#print axioms Sst.simB_seek
#print axioms Sst.seekToRestartPoint_ok'
