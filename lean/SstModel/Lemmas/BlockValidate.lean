import SstModel.Lemmas.BlockSpec
import SstModel.Lemmas.Codec
/-
  Soundness of `Block.isWellFormed`: whatever passes the validation is a `BlockWF` block.
-/
namespace Sst

/-- a varint decoded from a truncated slice decodes identically from the full slice -/
theorem decodeVarint_of_take (xs : Bytes) (m v l : Nat)
    (h : decodeVarint (xs.take m) = some (v, l)) :
    decodeVarint xs = some (v, l) ∧ 1 ≤ l ∧ l ≤ m ∧ l ≤ xs.length := by
  have hlen := decodeVarint_some_len _ _ _ h
  have hl : l ≤ m ∧ l ≤ xs.length := by
    have := hlen.2.2.1
    rw [List.length_take] at this
    omega
  have hp := decodeVarint_prefix _ _ _ h (xs.drop l)
  rw [List.take_take, Nat.min_eq_left hl.1, List.take_append_drop] at hp
  exact ⟨hp, hlen.1, hl.1, hl.2⟩

/-- an entry header parsed from a truncated slice parses identically from the full slice -/
theorem parseHeader_of_take (xs : Bytes) (m s ns vs hl : Nat)
    (h : Block.parseHeader (xs.take m) = some (s, ns, vs, hl)) :
    Block.parseHeader xs = some (s, ns, vs, hl) ∧ 3 ≤ hl ∧ hl ≤ m ∧ hl ≤ xs.length := by
  unfold Block.parseHeader at h
  split at h
  · simp at h
  · rename_i s' l1 h1
    split at h
    · simp at h
    · rename_i ns' l2 h2
      split at h
      · simp at h
      · rename_i vs' l3 h3
        simp only [Option.some.injEq, Prod.mk.injEq] at h
        obtain ⟨rfl, rfl, rfl, rfl⟩ := h
        rw [List.drop_take] at h2 h3
        have g1 := decodeVarint_of_take _ _ _ _ h1
        have g2 := decodeVarint_of_take _ _ _ _ h2
        have g3 := decodeVarint_of_take _ _ _ _ h3
        rw [List.length_drop] at g2 g3
        refine ⟨?_, by omega, by omega, by omega⟩
        unfold Block.parseHeader
        rw [g1.1]
        simp only
        rw [g2.1]
        simp only
        rw [g3.1]

/-- the `i`-th restart point as read from the block -/
def restartOf (b : Bytes) (roff i : Nat) : Nat := (fixed32At b (roff + 4 * i)).getD 0

theorem wfWalk_sound (b : Bytes) (roff n : Nat) (hroff : roff ≤ b.length) :
    ∀ (fuel off keyLen nr : Nat) (prev : Bytes),
      Block.wfWalk b roff n fuel off keyLen nr = true → off ≤ roff → prev.length = keyLen →
      ∃ es, Chain b roff prev off es
        ∧ (∀ j, nr ≤ j → j < n → ∃ e ∈ es, e.off = restartOf b roff j ∧ e.shared = 0)
        ∧ (∀ j, nr ≤ j → j < n → off ≤ restartOf b roff j)
        ∧ (∀ i j, nr ≤ i → i < j → j < n → restartOf b roff i < restartOf b roff j) := by
  intro fuel
  induction fuel with
  | zero => intro off keyLen nr prev h; simp [Block.wfWalk] at h
  | succ fuel ih =>
    intro off keyLen nr prev h hoff hprev
    rw [Block.wfWalk] at h
    split at h
    · rename_i hlt
      simp only at h
      split at h
      · simp at h
      · rename_i s ns vs hl hp
        have hent : ((b.drop off).take (roff - off)).length = roff - off := by
          rw [List.length_take, List.length_drop]; omega
        rw [hent] at h
        split at h
        · simp at h
        · rename_i hbounds
          split at h
          · simp at h
          · rename_i hrs
            have hph := parseHeader_of_take _ _ _ _ _ _ hp
            obtain ⟨hfull, hl3, hlm, _⟩ := hph
            have hs : s ≤ keyLen := by omega
            have hns : ns ≤ roff - off - hl := by omega
            have hvs : vs ≤ roff - off - hl - ns := by omega
            let e : EInfo := ⟨off, s, ns, vs, hl,
              prev.take s ++ (b.drop (off + hl)).take ns⟩
            have hklen : e.key.length = s + ns := by
              show (prev.take s ++ (b.drop (off + hl)).take ns).length = s + ns
              rw [List.length_append, List.length_take, List.length_take, List.length_drop]
              omega
            have hnext : e.next = off + hl + ns + vs := rfl
            obtain ⟨es, hch, hmem, hge, hinc⟩ :=
              ih (off + hl + ns + vs) (s + ns) _ e.key h (by omega) hklen
            refine ⟨e :: es, ?_, ?_, ?_, ?_⟩
            · refine ⟨rfl, hlt, hfull, by show s ≤ prev.length; omega, by rw [hnext]; omega,
                rfl, ?_⟩
              rw [hnext]; exact hch
            · intro j hj hjn
              by_cases hR : nr < n ∧ fixed32At b (roff + 4 * nr) = some off
              · rw [if_pos hR] at hmem
                by_cases hjeq : j = nr
                · subst hjeq
                  refine ⟨e, List.mem_cons_self, ?_, ?_⟩
                  · show off = restartOf b roff j
                    simp [restartOf, hR.2]
                  · show s = 0
                    by_cases hs0 : s = 0
                    · exact hs0
                    · exact absurd ⟨hR, hs0⟩ hrs
                · obtain ⟨e', he', h1, h2⟩ := hmem j (by omega) hjn
                  exact ⟨e', List.mem_cons_of_mem _ he', h1, h2⟩
              · rw [if_neg hR] at hmem
                obtain ⟨e', he', h1, h2⟩ := hmem j hj hjn
                exact ⟨e', List.mem_cons_of_mem _ he', h1, h2⟩
            · intro j hj hjn
              by_cases hR : nr < n ∧ fixed32At b (roff + 4 * nr) = some off
              · rw [if_pos hR] at hge
                by_cases hjeq : j = nr
                · subst hjeq
                  simp [restartOf, hR.2]
                · have := hge j (by omega) hjn
                  omega
              · rw [if_neg hR] at hge
                have := hge j hj hjn
                omega
            · intro i j hi hij hjn
              by_cases hR : nr < n ∧ fixed32At b (roff + 4 * nr) = some off
              · rw [if_pos hR] at hinc hge
                by_cases hieq : i = nr
                · subst hieq
                  have h1 : restartOf b roff i = off := by simp [restartOf, hR.2]
                  have := hge j (by omega) hjn
                  omega
                · exact hinc i j (by omega) hij hjn
              · rw [if_neg hR] at hinc
                exact hinc i j hi hij hjn
    · rename_i hge
      have hnr : nr = n := by simpa using h
      refine ⟨[], ?_, ?_, ?_, ?_⟩
      · show off = roff
        omega
      · intro j hj hjn; omega
      · intro j hj hjn; omega
      · intro i j hi hij hjn; omega

/-- whatever passes the validation is a well-formed block -/
theorem isWellFormed_sound (b : Bytes) (h : Block.isWellFormed b = true) :
    ∃ es rs, BlockWF b es rs := by
  unfold Block.isWellFormed at h
  simp only at h
  split at h
  · simp at h
  · rename_i hlen
    split at h
    · simp at h
    · rename_i hn
      split at h
      · simp at h
      · rename_i hfirst
        generalize hnd : decodeFixed32 (b.drop (b.length - 4)) = n at *
        have hn1 : 1 ≤ n := by omega
        have hn2 : 4 * n ≤ b.length - 4 := by omega
        have hfirst' : fixed32At b (b.length - 4 - 4 * n) = some 0 := by
          simpa using hfirst
        -- the restart array
        let roff := b.length - 4 - 4 * n
        let rs : List Nat := (List.range n).map (restartOf b roff)
        have hrsl : rs.length = n := by simp [rs]
        have hget : ∀ i (hi : i < rs.length), rs[i] = restartOf b roff i := by
          intro i hi; simp [rs]
        have hrestartAt : ∀ i, (hi : i < rs.length) →
            fixed32At b (b.length - 4 - 4 * rs.length + 4 * i) = some rs[i] := by
          intro i hi
          rw [hget i hi, hrsl]
          have : (fixed32At b (roff + 4 * i)).isSome := by
            rw [fixed32At_some_iff]; omega
          show fixed32At b (roff + 4 * i) = some ((fixed32At b (roff + 4 * i)).getD 0)
          cases hx : fixed32At b (roff + 4 * i) with
          | none => rw [hx] at this; simp at this
          | some v => rfl
        have hr0 : restartOf b roff 0 = 0 := by
          simp [restartOf, roff, hfirst']
        have hfirstrs : rs[0]? = some 0 := by
          rw [List.getElem?_eq_getElem (by omega), hget, hr0]
        split at h
        · -- empty block
          rename_i hz
          have hn1' : n = 1 := by simpa using h
          refine ⟨[], rs, ⟨by omega, by omega, by omega, by omega, hrestartAt, ?_, hfirstrs, ?_, ?_⟩⟩
          · show 0 = b.length - 4 - 4 * rs.length
            omega
          · have : rs = [restartOf b roff 0] := by simp [rs, hn1', List.range_succ]
            rw [this]; simp
          · intro r hr
            right
            have : rs = [restartOf b roff 0] := by simp [rs, hn1', List.range_succ]
            rw [this, hr0] at hr
            simpa using hr
        · rename_i hnz
          obtain ⟨es, hch, hmem, _, hinc⟩ :=
            wfWalk_sound b roff n (by omega) (roff + 1) 0 0 0 [] h (by omega) rfl
          refine ⟨es, rs, ⟨by omega, by omega, by omega, by omega, hrestartAt, ?_, hfirstrs, ?_, ?_⟩⟩
          · rw [hrsl]; exact hch
          · rw [List.pairwise_iff_getElem]
            intro i j hi hj hij
            rw [hget, hget]
            exact hinc i j (by omega) hij (by omega)
          · intro r hr
            left
            obtain ⟨i, hi, rfl⟩ := List.getElem_of_mem hr
            rw [hget]
            exact hmem i (by omega) (by omega)

end Sst

#print axioms Sst.isWellFormed_sound
