import SstModel.Model.Sched
/-
  N threads over one non-reentrant lock: the invariant is inductive, some thread can always move,
  every schedule finishes after exactly `measure s` steps.
-/
namespace Sst.Sched

/-! ### the discipline -/

/-- a remaining program cannot be both "inside" and "outside" a critical section -/
theorem disc_exclusive : ∀ (p : List Instr), disc true p = true → disc false p = true → False
  | [], h, _ => by simp [disc] at h
  | .acquire :: p, h, _ => by simp [disc] at h
  | .release :: p, _, h => by simp [disc] at h
  | .step :: p, h1, h2 => by
    simp only [disc] at h1 h2
    exact disc_exclusive p h1 h2

/-- a thread inside a critical section has something left to do -/
theorem disc_true_ne_nil {p : List Instr} (h : disc true p = true) : p ≠ [] := by
  intro hp; subst hp; simp [disc] at h

/-! ### the measure -/

theorem total_set : ∀ (ts : List Thread) (i : Nat) (x : Instr) (p : List Instr),
    ts[i]? = some ⟨x :: p⟩ → total (ts.set i ⟨p⟩) + 1 = total ts
  | [], _, _, _, h => by simp at h
  | t :: ts, 0, x, p, h => by
    simp only [List.getElem?_cons_zero, Option.some.injEq] at h
    subst h
    simp only [List.set_cons_zero, total, List.length_cons]
    omega
  | t :: ts, i + 1, x, p, h => by
    simp only [List.getElem?_cons_succ] at h
    have := total_set ts i x p h
    simp only [List.set_cons_succ, total]
    omega

theorem total_eq_zero : ∀ (ts : List Thread), total ts = 0 ↔ ∀ t ∈ ts, t.prog = []
  | [] => by simp [total]
  | t :: ts => by
    have ih := total_eq_zero ts
    simp only [total, List.mem_cons, forall_eq_or_imp, Nat.add_eq_zero_iff, List.length_eq_zero_iff, ih]

theorem finished_iff (s : State) : finished s = true ↔ ∀ t ∈ s.threads, t.prog = [] := by
  simp [finished, List.all_eq_true]

theorem measure_eq_zero (s : State) : measure s = 0 ↔ finished s = true := by
  rw [finished_iff]; exact total_eq_zero s.threads

/-! ### one step -/

theorem lt_of_getElem? {α} {l : List α} {i : Nat} {a : α} (h : l[i]? = some a) : i < l.length := by
  rcases Nat.lt_or_ge i l.length with h' | h'
  · exact h'
  · rw [List.getElem?_eq_none h'] at h; cases h

/-- a step of an enabled thread executes exactly one instruction … -/
theorem step_measure (s : State) (i : Nat) (he : enabled s i = true) :
    measure (stepThread s i) + 1 = measure s := by
  unfold enabled at he
  unfold stepThread measure
  cases hi : s.threads[i]? with
  | none => rw [hi] at he; cases he
  | some t =>
    obtain ⟨prog⟩ := t
    cases prog with
    | nil => rw [hi] at he; cases he
    | cons x p =>
      cases x <;> exact total_set s.threads i _ p hi

/-- … and keeps the invariant -/
theorem step_inv (s : State) (hinv : Inv s) (i : Nat) (he : enabled s i = true) :
    Inv (stepThread s i) := by
  unfold enabled at he
  unfold stepThread
  cases hi : s.threads[i]? with
  | none => rw [hi] at he; cases he
  | some t =>
    obtain ⟨prog⟩ := t
    have hlt := lt_of_getElem? hi
    have hdi := hinv.disc i _ hi
    rw [hi] at he
    -- the other threads: their view of the lock does not change unless `i` takes / frees it
    have hget : ∀ (p : List Instr) (j : Nat) (t' : Thread), (s.threads.set i ⟨p⟩)[j]? = some t' →
        (j = i ∧ t' = ⟨p⟩) ∨ (j ≠ i ∧ s.threads[j]? = some t') := by
      intro p j t' h
      rw [List.getElem?_set] at h
      by_cases hji : i = j
      · subst hji
        simp only [if_true, hlt] at h
        injection h with h
        exact .inl ⟨rfl, h.symm⟩
      · simp only [hji, if_false] at h
        exact .inr ⟨fun e => hji e.symm, h⟩
    cases prog with
    | nil => cases he
    | cons x p =>
      cases x with
      | acquire =>
        simp only [decide_eq_true_eq] at he
        simp only [he, disc] at hdi
        constructor
        · intro h hh
          simp only [Option.some.injEq] at hh
          subst hh
          simpa using hlt
        · intro j t' hj
          rcases hget p j t' hj with ⟨rfl, rfl⟩ | ⟨hne, hj'⟩
          · simpa using hdi
          · have := hinv.disc j t' hj'
            simp only [he] at this
            have e : (some i = some j) ↔ False := by
              simp only [Option.some.injEq, iff_false]; exact fun e => hne e.symm
            simpa [e] using this
      | release =>
        simp only [decide_eq_true_eq] at he
        simp only [he, disc, decide_true, Bool.true_and] at hdi
        constructor
        · intro h hh; cases hh
        · intro j t' hj
          rcases hget p j t' hj with ⟨rfl, rfl⟩ | ⟨hne, hj'⟩
          · simpa using hdi
          · have := hinv.disc j t' hj'
            simp only [he] at this
            have e : (some i = some j) ↔ False := by
              simp only [Option.some.injEq, iff_false]; exact fun e => hne e.symm
            simpa [e] using this
      | step =>
        simp only [disc] at hdi
        constructor
        · intro h hh
          simpa using hinv.holderValid h hh
        · intro j t' hj
          rcases hget p j t' hj with ⟨rfl, rfl⟩ | ⟨_, hj'⟩
          · exact hdi
          · exact hinv.disc j t' hj'

/-! ### progress -/

theorem exists_index {α} {l : List α} {a : α} (h : a ∈ l) : ∃ i : Nat, l[i]? = some a := by
  obtain ⟨i, hi, rfl⟩ := List.getElem_of_mem h
  exact ⟨i, List.getElem?_eq_getElem hi⟩

/-- no deadlock: while some thread is not finished, some thread can move -/
theorem progress (s : State) (hinv : Inv s) (hnot : ∃ t ∈ s.threads, t.prog ≠ []) :
    ∃ i, enabled s i = true := by
  cases hh : s.holder with
  | some h =>
    -- the holder can move: its next instruction is `step` or `release`
    have hlt := hinv.holderValid h hh
    have hget : s.threads[h]? = some s.threads[h] := List.getElem?_eq_getElem hlt
    have hd := hinv.disc h _ hget
    simp only [hh, decide_true] at hd
    refine ⟨h, ?_⟩
    unfold enabled
    rw [hget]
    generalize s.threads[h] = t at hd
    obtain ⟨prog⟩ := t
    cases prog with
    | nil => simp [disc] at hd
    | cons x p =>
      cases x with
      | acquire => simp [disc] at hd
      | release => simp [hh]
      | step => rfl
  | none =>
    -- the lock is free: any unfinished thread can move (`step` or `acquire`)
    obtain ⟨t, ht, hne⟩ := hnot
    obtain ⟨i, hi⟩ := exists_index ht
    have hd := hinv.disc i t hi
    simp only [hh] at hd
    refine ⟨i, ?_⟩
    unfold enabled
    rw [hi]
    obtain ⟨prog⟩ := t
    cases prog with
    | nil => exact absurd rfl hne
    | cons x p =>
      cases x with
      | acquire => simp [hh]
      | release => simp [disc] at hd
      | step => rfl

/-- when every program is finished the lock is free -/
theorem finished_holder (s : State) (hinv : Inv s) (hf : finished s = true) : s.holder = none := by
  cases hh : s.holder with
  | none => rfl
  | some h =>
    exfalso
    have hlt := hinv.holderValid h hh
    have hget : s.threads[h]? = some s.threads[h] := List.getElem?_eq_getElem hlt
    have hd := hinv.disc h _ hget
    simp only [hh, decide_true] at hd
    exact disc_true_ne_nil hd ((finished_iff s).mp hf _ (List.getElem_mem hlt))

/-- mutual exclusion: at most one thread's remaining program starts inside a critical section (and
    that thread is the holder) -/
theorem mutex (s : State) (hinv : Inv s) (i j : Nat) (ti tj : Thread)
    (hi : s.threads[i]? = some ti) (hj : s.threads[j]? = some tj)
    (hii : disc true ti.prog = true) (hjj : disc true tj.prog = true) :
    i = j ∧ s.holder = some i := by
  have inside : ∀ k t, s.threads[k]? = some t → disc true t.prog = true → s.holder = some k := by
    intro k t hk hd
    have := hinv.disc k t hk
    by_cases e : s.holder = some k
    · exact e
    · simp only [e, decide_false] at this
      exact (disc_exclusive _ hd this).elim
  have h1 := inside i ti hi hii
  have h2 := inside j tj hj hjj
  rw [h1] at h2
  injection h2 with h2
  exact ⟨h2, h1⟩

/-! ### whole schedules -/

theorem run_ok : ∀ (sched : List Nat) (s : State), Inv s → ValidSched s sched →
    Inv (run s sched) ∧ measure (run s sched) + sched.length = measure s
  | [], s, hinv, _ => ⟨hinv, rfl⟩
  | i :: is, s, hinv, hv => by
    obtain ⟨he, hv'⟩ := hv
    obtain ⟨h1, h2⟩ := run_ok is (stepThread s i) (step_inv s hinv i he) hv'
    have h3 := step_measure s i he
    refine ⟨h1, ?_⟩
    show measure (run (stepThread s i) is) + (is.length + 1) = measure s
    omega

theorem validSched_append : ∀ (sched : List Nat) (s : State) (i : Nat), ValidSched s sched →
    enabled (run s sched) i = true → ValidSched s (sched ++ [i])
  | [], _, _, _, he => ⟨he, trivial⟩
  | j :: js, s, i, hv, he => ⟨hv.1, validSched_append js (stepThread s j) i hv.2 he⟩

/-- a complete schedule exists (by `progress`) -/
theorem sched_exists : ∀ (n : Nat) (s : State), Inv s → measure s = n →
    ∃ sched, ValidSched s sched ∧ sched.length = n
  | 0, _, _, _ => ⟨[], trivial, rfl⟩
  | n + 1, s, hinv, hm => by
    have hnf : ¬ finished s = true := by
      intro hf; rw [← measure_eq_zero] at hf; omega
    have hnot : ∃ t ∈ s.threads, t.prog ≠ [] := by
      have hff : finished s = false := by
        cases h : finished s with
        | false => rfl
        | true => exact absurd h hnf
      simp only [finished, List.all_eq_false, List.isEmpty_iff] at hff
      obtain ⟨t, ht, hne⟩ := hff
      exact ⟨t, ht, by simpa using hne⟩
    obtain ⟨i, he⟩ := progress s hinv hnot
    have h3 := step_measure s i he
    obtain ⟨sched, hv, hl⟩ := sched_exists n (stepThread s i) (step_inv s hinv i he) (by omega)
    exact ⟨i :: sched, ⟨he, hv⟩, by simp [hl]⟩

/-! ### the initial state -/

theorem init_inv (progs : List (List Instr)) (h : ∀ p ∈ progs, Disciplined p = true) :
    Inv { threads := progs.map Thread.mk, holder := none } := by
  constructor
  · intro h' hh; cases hh
  · intro i t hi
    simp only [List.getElem?_map, Option.map_eq_some_iff] at hi
    obtain ⟨p, hp, rfl⟩ := hi
    have hmem : p ∈ progs := List.mem_of_getElem? hp
    simpa [Disciplined] using h p hmem

/-! ### `deadlocked` means what it says -/

theorem enabled_lt {s : State} {i : Nat} (h : enabled s i = true) : i < s.threads.length := by
  unfold enabled at h
  cases hi : s.threads[i]? with
  | none => rw [hi] at h; cases h
  | some t => exact lt_of_getElem? hi

theorem deadlocked_iff (s : State) :
    deadlocked s = true ↔ (∀ i, enabled s i = false) ∧ ∃ t ∈ s.threads, t.prog ≠ [] := by
  unfold deadlocked
  rw [Bool.and_eq_true, List.all_eq_true]
  constructor
  · rintro ⟨h1, h2⟩
    refine ⟨?_, ?_⟩
    · intro i
      cases he : enabled s i with
      | false => rfl
      | true =>
        have := h1 i (List.mem_range.mpr (enabled_lt he))
        rw [he] at this; cases this
    · simp only [finished, Bool.not_eq_true', List.all_eq_false, List.isEmpty_iff] at h2
      obtain ⟨t, ht, hne⟩ := h2
      exact ⟨t, ht, by simpa using hne⟩
  · rintro ⟨h1, t, ht, hne⟩
    refine ⟨fun i _ => by rw [h1 i]; rfl, ?_⟩
    simp only [finished, Bool.not_eq_true', List.all_eq_false, List.isEmpty_iff]
    exact ⟨t, ht, by simpa using hne⟩

end Sst.Sched

/-! ## threads with a shared counter (`Sst.SchedS`) -/

namespace Sst.SchedS

/-! ### erasure: the lock behaves as in `Sst.Sched` -/

theorem erase_getElem? (s : State) (i : Nat) :
    (erase s).threads[i]? = (s.threads[i]?).map eraseThread := by
  simp [erase]

theorem enabled_erase (s : State) (i : Nat) : Sched.enabled (erase s) i = enabled s i := by
  unfold Sched.enabled enabled
  rw [erase_getElem?]
  cases s.threads[i]? with
  | none => rfl
  | some t =>
    obtain ⟨prog, reg⟩ := t
    cases prog with
    | nil => rfl
    | cons x p => cases x <;> rfl

theorem stepThread_erase (s : State) (i : Nat) :
    erase (stepThread s i) = Sched.stepThread (erase s) i := by
  unfold Sched.stepThread stepThread
  rw [erase_getElem?]
  cases s.threads[i]? with
  | none => rfl
  | some t =>
    obtain ⟨prog, reg⟩ := t
    cases prog with
    | nil => rfl
    | cons x p => cases x <;> simp [erase, eraseThread, eraseInstr, List.map_set]

theorem run_erase : ∀ (sched : List Nat) (s : State), erase (run s sched) = Sched.run (erase s) sched
  | [], _ => rfl
  | i :: is, s => by
    show erase (run (stepThread s i) is) = Sched.run (Sched.stepThread (erase s) i) is
    rw [run_erase is, stepThread_erase]

theorem validSched_erase : ∀ (sched : List Nat) (s : State),
    ValidSched s sched ↔ Sched.ValidSched (erase s) sched
  | [], _ => Iff.rfl
  | i :: is, s => by
    show (enabled s i = true ∧ ValidSched (stepThread s i) is) ↔
      (Sched.enabled (erase s) i = true ∧ Sched.ValidSched (Sched.stepThread (erase s) i) is)
    rw [enabled_erase, validSched_erase is, stepThread_erase]

theorem validSched_append (sched : List Nat) (s : State) (i : Nat) (hv : ValidSched s sched)
    (he : enabled (run s sched) i = true) : ValidSched s (sched ++ [i]) := by
  rw [validSched_erase] at hv ⊢
  apply Sched.validSched_append sched (erase s) i hv
  rw [← run_erase, enabled_erase]; exact he

theorem exists_unfinished_erase (s : State) (h : ∃ t ∈ s.threads, t.prog ≠ []) :
    ∃ t ∈ (erase s).threads, t.prog ≠ [] := by
  obtain ⟨t, ht, hne⟩ := h
  refine ⟨eraseThread t, List.mem_map_of_mem ht, ?_⟩
  intro h0
  apply hne
  simpa [eraseThread] using h0

theorem finished_iff (s : State) : finished s = true ↔ ∀ t ∈ s.threads, t.prog = [] := by
  unfold finished
  rw [Sched.finished_iff]
  simp [erase, eraseThread]

/-- no deadlock, carried over from `Sched.progress` -/
theorem progress (s : State) (hinv : Sched.Inv (erase s)) (hnot : ∃ t ∈ s.threads, t.prog ≠ []) :
    ∃ i, enabled s i = true := by
  obtain ⟨i, hi⟩ := Sched.progress (erase s) hinv (exists_unfinished_erase s hnot)
  exact ⟨i, by rw [← enabled_erase]; exact hi⟩

/-! ### the allocator invariant -/

theorem ainside_loaded {h : Bool} {p : List Instr} (hp : ainside h true p = true) :
    h = true ∧ ∃ q, p = .store :: q := by
  cases p with
  | nil => simp [ainside] at hp
  | cons x q =>
    cases x <;> simp [ainside] at hp
    exact ⟨hp.1, _, rfl⟩

theorem storesLeft_set : ∀ (ts : List Thread) (i : Nat) (x : Instr) (p : List Instr) (r r' : Nat),
    ts[i]? = some ⟨x :: p, r⟩ →
    storesLeft (ts.set i ⟨p, r'⟩) + (if x = .store then 1 else 0) = storesLeft ts
  | [], _, _, _, _, _, h => by simp at h
  | t :: ts, 0, x, p, r, r', h => by
    simp only [List.getElem?_cons_zero, Option.some.injEq] at h
    subst h
    simp only [List.set_cons_zero, storesLeft, List.count_cons, beq_iff_eq]
    omega
  | t :: ts, i + 1, x, p, r, r', h => by
    simp only [List.getElem?_cons_succ] at h
    have := storesLeft_set ts i x p r r' h
    simp only [List.set_cons_succ, storesLeft]
    omega

/-- each `store` executed hands out one id -/
theorem step_stores (s : State) (i : Nat) :
    (stepThread s i).log.length + storesLeft (stepThread s i).threads
      = s.log.length + storesLeft s.threads := by
  unfold stepThread
  cases hi : s.threads[i]? with
  | none => rfl
  | some t =>
    obtain ⟨prog, reg⟩ := t
    cases prog with
    | nil => rfl
    | cons x p =>
      cases x with
      | store =>
        have := storesLeft_set s.threads i .store p reg reg hi
        simp only [if_true] at this
        simp only [List.length_append, List.length_singleton]
        omega
      | load =>
        have := storesLeft_set s.threads i .load p reg s.counter hi
        simp only [reduceCtorEq, if_false] at this
        simp only; omega
      | acquire =>
        have := storesLeft_set s.threads i .acquire p reg reg hi
        simp only [reduceCtorEq, if_false] at this
        simp only; omega
      | release =>
        have := storesLeft_set s.threads i .release p reg reg hi
        simp only [reduceCtorEq, if_false] at this
        simp only; omega
      | step =>
        have := storesLeft_set s.threads i .step p reg reg hi
        simp only [reduceCtorEq, if_false] at this
        simp only; omega

theorem enabled_cases {s : State} {i : Nat} (he : enabled s i = true) :
    ∃ x p reg, s.threads[i]? = some ⟨x :: p, reg⟩ ∧ (x = .acquire → s.holder = none)
      ∧ (x = .release → s.holder = some i) := by
  unfold enabled at he
  cases hi : s.threads[i]? with
  | none => rw [hi] at he; cases he
  | some t =>
    obtain ⟨prog, reg⟩ := t
    rw [hi] at he
    cases prog with
    | nil => cases he
    | cons x p =>
      refine ⟨x, p, reg, rfl, ?_, ?_⟩
      · intro hx; subst hx; simpa using he
      · intro hx; subst hx; simpa using he

theorem getElem?_set_cases {ts : List Thread} {i : Nat} (hlt : i < ts.length) (a : Thread) (j : Nat)
    (t' : Thread) (h : (ts.set i a)[j]? = some t') :
    (j = i ∧ t' = a) ∨ (j ≠ i ∧ ts[j]? = some t') := by
  rw [List.getElem?_set] at h
  by_cases hji : i = j
  · subst hji
    simp only [if_true, hlt] at h
    injection h with h
    exact .inl ⟨rfl, h.symm⟩
  · simp only [hji, if_false] at h
    exact .inr ⟨fun e => hji e.symm, h⟩

/-- the allocator invariant is inductive -/
theorem step_ainv (c0 : Nat) (s : State) (hinv : AInv c0 s) (i : Nat) (he : enabled s i = true) :
    AInv c0 (stepThread s i) := by
  have hlock : Sched.Inv (erase (stepThread s i)) := by
    rw [stepThread_erase]
    exact Sched.step_inv _ hinv.lock i (by rw [enabled_erase]; exact he)
  obtain ⟨x, p, reg, hi, hacq, hrel⟩ := enabled_cases he
  have hlt := Sched.lt_of_getElem? hi
  obtain ⟨l, hal, hreg⟩ := hinv.alloc i _ hi
  have hne : ∀ j, j ≠ i → (some i = some j) = False := by
    intro j hj; simp only [Option.some.injEq, eq_iff_iff, iff_false]; exact fun e => hj e.symm
  cases x with
  | acquire =>
    have hst : stepThread s i = { s with threads := s.threads.set i ⟨p, reg⟩, holder := some i } := by
      unfold stepThread; rw [hi]
    have hh := hacq rfl
    simp only [ainside, Bool.and_eq_true] at hal
    refine ⟨hlock, ?_, ?_, ?_⟩ <;> rw [hst]
    · exact hinv.counter
    · exact hinv.ids
    · intro j t' hj
      rcases getElem?_set_cases hlt _ j t' hj with ⟨rfl, rfl⟩ | ⟨hji, hj'⟩
      · exact ⟨false, by simpa using hal.2, fun h => by cases h⟩
      · obtain ⟨l', h1, h2⟩ := hinv.alloc j t' hj'
        refine ⟨l', ?_, h2⟩
        simp only [hh, hne j hji, decide_false] at h1 ⊢
        exact h1
  | release =>
    have hst : stepThread s i = { s with threads := s.threads.set i ⟨p, reg⟩, holder := none } := by
      unfold stepThread; rw [hi]
    have hh := hrel rfl
    simp only [ainside, Bool.and_eq_true] at hal
    refine ⟨hlock, ?_, ?_, ?_⟩ <;> rw [hst]
    · exact hinv.counter
    · exact hinv.ids
    · intro j t' hj
      rcases getElem?_set_cases hlt _ j t' hj with ⟨rfl, rfl⟩ | ⟨hji, hj'⟩
      · exact ⟨false, by simpa using hal.2, fun h => by cases h⟩
      · obtain ⟨l', h1, h2⟩ := hinv.alloc j t' hj'
        refine ⟨l', ?_, h2⟩
        simp only [hh, hne j hji, decide_false] at h1 ⊢
        exact h1
  | step =>
    have hst : stepThread s i = { s with threads := s.threads.set i ⟨p, reg⟩ } := by
      unfold stepThread; rw [hi]
    simp only [ainside, Bool.and_eq_true] at hal
    refine ⟨hlock, ?_, ?_, ?_⟩ <;> rw [hst]
    · exact hinv.counter
    · exact hinv.ids
    · intro j t' hj
      rcases getElem?_set_cases hlt _ j t' hj with ⟨rfl, rfl⟩ | ⟨_, hj'⟩
      · exact ⟨false, hal.2, fun h => by cases h⟩
      · exact hinv.alloc j t' hj'
  | load =>
    have hst : stepThread s i = { s with threads := s.threads.set i ⟨p, s.counter⟩ } := by
      unfold stepThread; rw [hi]
    simp only [ainside, Bool.and_eq_true] at hal
    refine ⟨hlock, ?_, ?_, ?_⟩ <;> rw [hst]
    · exact hinv.counter
    · exact hinv.ids
    · intro j t' hj
      rcases getElem?_set_cases hlt _ j t' hj with ⟨rfl, rfl⟩ | ⟨_, hj'⟩
      · exact ⟨true, hal.2, fun _ => rfl⟩
      · exact hinv.alloc j t' hj'
  | store =>
    have hst : stepThread s i =
        { s with threads := s.threads.set i ⟨p, reg⟩, counter := reg + 1,
                 log := s.log ++ [(i, reg + 1)] } := by
      unfold stepThread; rw [hi]
    simp only [ainside, Bool.and_eq_true, decide_eq_true_eq] at hal
    have hr : reg = s.counter := hreg hal.1.2
    refine ⟨hlock, ?_, ?_, ?_⟩ <;> rw [hst]
    · show reg + 1 = c0 + (s.log ++ [(i, reg + 1)]).length
      rw [List.length_append, List.length_singleton, hr, hinv.counter]; omega
    · show (s.log ++ [(i, reg + 1)]).map Prod.snd
        = (List.range (s.log ++ [(i, reg + 1)]).length).map (fun n => c0 + 1 + n)
      rw [List.map_append, List.length_append, List.length_singleton, List.range_succ, List.map_append,
        hinv.ids, hr, hinv.counter]
      simp only [List.map_cons, List.map_nil]
      congr 2; omega
    · intro j t' hj
      rcases getElem?_set_cases hlt _ j t' hj with ⟨rfl, rfl⟩ | ⟨hji, hj'⟩
      · exact ⟨false, hal.2, fun h => by cases h⟩
      · obtain ⟨l', h1, h2⟩ := hinv.alloc j t' hj'
        refine ⟨l', h1, ?_⟩
        intro hl'
        subst hl'
        -- thread `j` would hold the lock, but `i` does
        have := (ainside_loaded h1).1
        simp only [hal.1.1, decide_eq_true_eq] at this
        exact absurd (Option.some.inj this) (fun e => hji e.symm)

theorem run_ainv (c0 : Nat) : ∀ (sched : List Nat) (s : State), AInv c0 s → ValidSched s sched →
    AInv c0 (run s sched)
  | [], _, hinv, _ => hinv
  | i :: is, s, hinv, hv => run_ainv c0 is _ (step_ainv c0 s hinv i hv.1) hv.2

theorem run_stores : ∀ (sched : List Nat) (s : State),
    (run s sched).log.length + storesLeft (run s sched).threads = s.log.length + storesLeft s.threads
  | [], _ => rfl
  | i :: is, s => by
    show (run (stepThread s i) is).log.length + storesLeft (run (stepThread s i) is).threads = _
    rw [run_stores is, step_stores]

theorem init_ainv (c0 : Nat) (progs : List (List Instr)) (hd : ∀ p ∈ progs, Disciplined p = true)
    (ha : ∀ p ∈ progs, AllocInside p = true) : AInv c0 (init c0 progs) := by
  refine ⟨?_, rfl, rfl, ?_⟩
  · have e : erase (init c0 progs)
        = { threads := (progs.map (List.map eraseInstr)).map Sched.Thread.mk, holder := none } := by
      simp [erase, init, eraseThread, Function.comp_def]
    rw [e]
    apply Sched.init_inv
    intro p hp
    obtain ⟨p', hp', rfl⟩ := List.mem_map.mp hp
    exact hd p' hp'
  · intro i t hi
    simp only [init, List.getElem?_map, Option.map_eq_some_iff] at hi
    obtain ⟨p, hp, rfl⟩ := hi
    exact ⟨false, by simpa [init, AllocInside] using ha p (List.mem_of_getElem? hp), fun h => by cases h⟩

theorem nodup_ids (c0 n : Nat) : ((List.range n).map (fun k => c0 + 1 + k)).Nodup := by
  induction n with
  | zero => simp
  | succ n ih =>
    rw [List.range_succ, List.map_append, List.nodup_append]
    refine ⟨ih, by simp, ?_⟩
    intro a ha b hb
    simp only [List.mem_map, List.mem_range] at ha
    simp only [List.map_cons, List.map_nil, List.mem_singleton] at hb
    obtain ⟨k, hk, rfl⟩ := ha
    omega

end Sst.SchedS
