import SstModel.Model.Sched
/-
  N threads over one non-reentrant lock: the invariant is inductive, some thread can always move,
  every schedule finishes after exactly `measure s` steps.
-/
namespace Sst.Sched

/-! ### the discipline -/

/-- a remaining program cannot be both "inside" and "outside" a critical section -/
theorem disc_exclusive : ∀ (p : List Instr), disc true p = true → disc false p = true → False
  | [], h, _ => by simp [disc] at h
  | .acquire :: p, h, _ => by simp [disc] at h
  | .release :: p, _, h => by simp [disc] at h
  | .step :: p, h1, h2 => by
    simp only [disc] at h1 h2
    exact disc_exclusive p h1 h2

/-- a thread inside a critical section has something left to do -/
theorem disc_true_ne_nil {p : List Instr} (h : disc true p = true) : p ≠ [] := by
  intro hp; subst hp; simp [disc] at h

/-! ### the measure -/

theorem total_set : ∀ (ts : List Thread) (i : Nat) (x : Instr) (p : List Instr),
    ts[i]? = some ⟨x :: p⟩ → total (ts.set i ⟨p⟩) + 1 = total ts
  | [], _, _, _, h => by simp at h
  | t :: ts, 0, x, p, h => by
    simp only [List.getElem?_cons_zero, Option.some.injEq] at h
    subst h
    simp only [List.set_cons_zero, total, List.length_cons]
    omega
  | t :: ts, i + 1, x, p, h => by
    simp only [List.getElem?_cons_succ] at h
    have := total_set ts i x p h
    simp only [List.set_cons_succ, total]
    omega

theorem total_eq_zero : ∀ (ts : List Thread), total ts = 0 ↔ ∀ t ∈ ts, t.prog = []
  | [] => by simp [total]
  | t :: ts => by
    have ih := total_eq_zero ts
    simp only [total, List.mem_cons, forall_eq_or_imp, Nat.add_eq_zero_iff, List.length_eq_zero_iff, ih]

theorem finished_iff (s : State) : finished s = true ↔ ∀ t ∈ s.threads, t.prog = [] := by
  simp [finished, List.all_eq_true]

theorem measure_eq_zero (s : State) : measure s = 0 ↔ finished s = true := by
  rw [finished_iff]; exact total_eq_zero s.threads

/-! ### one step -/

theorem lt_of_getElem? {α} {l : List α} {i : Nat} {a : α} (h : l[i]? = some a) : i < l.length := by
  rcases Nat.lt_or_ge i l.length with h' | h'
  · exact h'
  · rw [List.getElem?_eq_none h'] at h; cases h

/-- a step of an enabled thread executes exactly one instruction … -/
theorem step_measure (s : State) (i : Nat) (he : enabled s i = true) :
    measure (stepThread s i) + 1 = measure s := by
  unfold enabled at he
  unfold stepThread measure
  cases hi : s.threads[i]? with
  | none => rw [hi] at he; cases he
  | some t =>
    obtain ⟨prog⟩ := t
    cases prog with
    | nil => rw [hi] at he; cases he
    | cons x p =>
      cases x <;> exact total_set s.threads i _ p hi

/-- … and keeps the invariant -/
theorem step_inv (s : State) (hinv : Inv s) (i : Nat) (he : enabled s i = true) :
    Inv (stepThread s i) := by
  unfold enabled at he
  unfold stepThread
  cases hi : s.threads[i]? with
  | none => rw [hi] at he; cases he
  | some t =>
    obtain ⟨prog⟩ := t
    have hlt := lt_of_getElem? hi
    have hdi := hinv.disc i _ hi
    rw [hi] at he
    -- the other threads: their view of the lock does not change unless `i` takes / frees it
    have hget : ∀ (p : List Instr) (j : Nat) (t' : Thread), (s.threads.set i ⟨p⟩)[j]? = some t' →
        (j = i ∧ t' = ⟨p⟩) ∨ (j ≠ i ∧ s.threads[j]? = some t') := by
      intro p j t' h
      rw [List.getElem?_set] at h
      by_cases hji : i = j
      · subst hji
        simp only [if_true, hlt] at h
        injection h with h
        exact .inl ⟨rfl, h.symm⟩
      · simp only [hji, if_false] at h
        exact .inr ⟨fun e => hji e.symm, h⟩
    cases prog with
    | nil => cases he
    | cons x p =>
      cases x with
      | acquire =>
        simp only [decide_eq_true_eq] at he
        simp only [he, disc] at hdi
        constructor
        · intro h hh
          simp only [Option.some.injEq] at hh
          subst hh
          simpa using hlt
        · intro j t' hj
          rcases hget p j t' hj with ⟨rfl, rfl⟩ | ⟨hne, hj'⟩
          · simpa using hdi
          · have := hinv.disc j t' hj'
            simp only [he] at this
            have e : (some i = some j) ↔ False := by
              simp only [Option.some.injEq, iff_false]; exact fun e => hne e.symm
            simpa [e] using this
      | release =>
        simp only [decide_eq_true_eq] at he
        simp only [he, disc, decide_true, Bool.true_and] at hdi
        constructor
        · intro h hh; cases hh
        · intro j t' hj
          rcases hget p j t' hj with ⟨rfl, rfl⟩ | ⟨hne, hj'⟩
          · simpa using hdi
          · have := hinv.disc j t' hj'
            simp only [he] at this
            have e : (some i = some j) ↔ False := by
              simp only [Option.some.injEq, iff_false]; exact fun e => hne e.symm
            simpa [e] using this
      | step =>
        simp only [disc] at hdi
        constructor
        · intro h hh
          simpa using hinv.holderValid h hh
        · intro j t' hj
          rcases hget p j t' hj with ⟨rfl, rfl⟩ | ⟨_, hj'⟩
          · exact hdi
          · exact hinv.disc j t' hj'

/-! ### progress -/

theorem exists_index {α} {l : List α} {a : α} (h : a ∈ l) : ∃ i : Nat, l[i]? = some a := by
  obtain ⟨i, hi, rfl⟩ := List.getElem_of_mem h
  exact ⟨i, List.getElem?_eq_getElem hi⟩

/-- no deadlock: while some thread is not finished, some thread can move -/
theorem progress (s : State) (hinv : Inv s) (hnot : ∃ t ∈ s.threads, t.prog ≠ []) :
    ∃ i, enabled s i = true := by
  cases hh : s.holder with
  | some h =>
    -- the holder can move: its next instruction is `step` or `release`
    have hlt := hinv.holderValid h hh
    have hget : s.threads[h]? = some s.threads[h] := List.getElem?_eq_getElem hlt
    have hd := hinv.disc h _ hget
    simp only [hh, decide_true] at hd
    refine ⟨h, ?_⟩
    unfold enabled
    rw [hget]
    generalize s.threads[h] = t at hd
    obtain ⟨prog⟩ := t
    cases prog with
    | nil => simp [disc] at hd
    | cons x p =>
      cases x with
      | acquire => simp [disc] at hd
      | release => simp [hh]
      | step => rfl
  | none =>
    -- the lock is free: any unfinished thread can move (`step` or `acquire`)
    obtain ⟨t, ht, hne⟩ := hnot
    obtain ⟨i, hi⟩ := exists_index ht
    have hd := hinv.disc i t hi
    simp only [hh] at hd
    refine ⟨i, ?_⟩
    unfold enabled
    rw [hi]
    obtain ⟨prog⟩ := t
    cases prog with
    | nil => exact absurd rfl hne
    | cons x p =>
      cases x with
      | acquire => simp [hh]
      | release => simp [disc] at hd
      | step => rfl

/-- when every program is finished the lock is free -/
theorem finished_holder (s : State) (hinv : Inv s) (hf : finished s = true) : s.holder = none := by
  cases hh : s.holder with
  | none => rfl
  | some h =>
    exfalso
    have hlt := hinv.holderValid h hh
    have hget : s.threads[h]? = some s.threads[h] := List.getElem?_eq_getElem hlt
    have hd := hinv.disc h _ hget
    simp only [hh, decide_true] at hd
    exact disc_true_ne_nil hd ((finished_iff s).mp hf _ (List.getElem_mem hlt))

/-- mutual exclusion: at most one thread's remaining program starts inside a critical section (and
    that thread is the holder) -/
theorem mutex (s : State) (hinv : Inv s) (i j : Nat) (ti tj : Thread)
    (hi : s.threads[i]? = some ti) (hj : s.threads[j]? = some tj)
    (hii : disc true ti.prog = true) (hjj : disc true tj.prog = true) :
    i = j ∧ s.holder = some i := by
  have inside : ∀ k t, s.threads[k]? = some t → disc true t.prog = true → s.holder = some k := by
    intro k t hk hd
    have := hinv.disc k t hk
    by_cases e : s.holder = some k
    · exact e
    · simp only [e, decide_false] at this
      exact (disc_exclusive _ hd this).elim
  have h1 := inside i ti hi hii
  have h2 := inside j tj hj hjj
  rw [h1] at h2
  injection h2 with h2
  exact ⟨h2, h1⟩

/-! ### whole schedules -/

theorem run_ok : ∀ (sched : List Nat) (s : State), Inv s → ValidSched s sched →
    Inv (run s sched) ∧ measure (run s sched) + sched.length = measure s
  | [], s, hinv, _ => ⟨hinv, rfl⟩
  | i :: is, s, hinv, hv => by
    obtain ⟨he, hv'⟩ := hv
    obtain ⟨h1, h2⟩ := run_ok is (stepThread s i) (step_inv s hinv i he) hv'
    have h3 := step_measure s i he
    refine ⟨h1, ?_⟩
    show measure (run (stepThread s i) is) + (is.length + 1) = measure s
    omega

theorem validSched_append : ∀ (sched : List Nat) (s : State) (i : Nat), ValidSched s sched →
    enabled (run s sched) i = true → ValidSched s (sched ++ [i])
  | [], _, _, _, he => ⟨he, trivial⟩
  | j :: js, s, i, hv, he => ⟨hv.1, validSched_append js (stepThread s j) i hv.2 he⟩

/-- a complete schedule exists (by `progress`) -/
theorem sched_exists : ∀ (n : Nat) (s : State), Inv s → measure s = n →
    ∃ sched, ValidSched s sched ∧ sched.length = n
  | 0, _, _, _ => ⟨[], trivial, rfl⟩
  | n + 1, s, hinv, hm => by
    have hnf : ¬ finished s = true := by
      intro hf; rw [← measure_eq_zero] at hf; omega
    have hnot : ∃ t ∈ s.threads, t.prog ≠ [] := by
      have hff : finished s = false := by
        cases h : finished s with
        | false => rfl
        | true => exact absurd h hnf
      simp only [finished, List.all_eq_false, List.isEmpty_iff] at hff
      obtain ⟨t, ht, hne⟩ := hff
      exact ⟨t, ht, by simpa using hne⟩
    obtain ⟨i, he⟩ := progress s hinv hnot
    have h3 := step_measure s i he
    obtain ⟨sched, hv, hl⟩ := sched_exists n (stepThread s i) (step_inv s hinv i he) (by omega)
    exact ⟨i :: sched, ⟨he, hv⟩, by simp [hl]⟩

/-! ### the initial state -/

theorem init_inv (progs : List (List Instr)) (h : ∀ p ∈ progs, Disciplined p = true) :
    Inv { threads := progs.map Thread.mk, holder := none } := by
  constructor
  · intro h' hh; cases hh
  · intro i t hi
    simp only [List.getElem?_map, Option.map_eq_some_iff] at hi
    obtain ⟨p, hp, rfl⟩ := hi
    have hmem : p ∈ progs := List.mem_of_getElem? hp
    simpa [Disciplined] using h p hmem

/-! ### `deadlocked` means what it says -/

theorem enabled_lt {s : State} {i : Nat} (h : enabled s i = true) : i < s.threads.length := by
  unfold enabled at h
  cases hi : s.threads[i]? with
  | none => rw [hi] at h; cases h
  | some t => exact lt_of_getElem? hi

theorem deadlocked_iff (s : State) :
    deadlocked s = true ↔ (∀ i, enabled s i = false) ∧ ∃ t ∈ s.threads, t.prog ≠ [] := by
  unfold deadlocked
  rw [Bool.and_eq_true, List.all_eq_true]
  constructor
  · rintro ⟨h1, h2⟩
    refine ⟨?_, ?_⟩
    · intro i
      cases he : enabled s i with
      | false => rfl
      | true =>
        have := h1 i (List.mem_range.mpr (enabled_lt he))
        rw [he] at this; cases this
    · simp only [finished, Bool.not_eq_true', List.all_eq_false, List.isEmpty_iff] at h2
      obtain ⟨t, ht, hne⟩ := h2
      exact ⟨t, ht, by simpa using hne⟩
  · rintro ⟨h1, t, ht, hne⟩
    refine ⟨fun i _ => by rw [h1 i]; rfl, ?_⟩
    simp only [finished, Bool.not_eq_true', List.all_eq_false, List.isEmpty_iff]
    exact ⟨t, ht, by simpa using hne⟩

end Sst.Sched
