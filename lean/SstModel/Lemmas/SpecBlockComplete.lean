import SstModel.Lemmas.SpecBlock
import SstModel.Lemmas.BlockPrev
import SstModel.Lemmas.BlockBuild
/-
  The converse of `SpecBlock.lean`: a block that is well formed in the reader's sense (`BlockWF`) is
  accepted by the independent decoder `Spec.Format.parseBlock`, with the same entries and the same
  restart array -- PROVIDED every header varint was decoded by the model without truncation.

  The proviso is necessary. The model's varint decoder (like the crate's `integer-encoding`) works in
  `u64`: it accepts a 10th byte with payload bits above bit 0 and silently drops what is shifted out
  (`0x80^9 0x02` decodes to 0), whereas the Spec decoder computes the untruncated value (2^64) and
  then rejects the entry. `SBC.cex` below is a 21-byte block that is `BlockWF`, passes
  `Block.isWellFormed`, and is rejected by `parseBlock` (`parseBlock_complete_false`).

  Contents:
  * `specVarint_of_decode_gen / _iff / specVarint_of_decode` -- model varint ⇒ Spec varint: same bytes
    consumed, Spec value = untruncated value, equal to the model's iff < 2^64, always so for ≤ 9 bytes;
  * `parseBlock_complete` -- `BlockWF` + `SBC.HeaderExact` for every entry ⇒ `parseBlock` accepts, with
    `kvOf b es` and `rs`; `parseBlock_complete_of_headLen` (proviso `headLen ≤ 11`);
  * `headerExact_of_parseBlock`, `parseBlock_complete_iff`, `parseBlock_eq_of_wf` -- the proviso is
    also necessary (so it is the weakest possible), and `parseBlock` can accept nothing else;
  * `parseBlock_complete_false` -- the counterexample;
  * `blockBuilder_parseBlock` -- blocks written by `BlockBuilder` are accepted by `parseBlock`, which
    reads back the entries added and the builder's restart array.
-/
namespace Sst
open Spec.Format

namespace SBC

/-! ### varint: model ⇒ Spec -/

/-- the model's loop against the Spec's recursion: the Spec yields the untruncated value `v'`, the
    model its residue mod 2^64; `l` bytes hold at most `7 l` payload bits -/
theorem loop_spec (bs : Bytes) :
    ∀ (acc shift n v l : Nat), shift = 7 * n → n ≤ 9 →
      decodeVarintLoop bs acc shift = some (v, l) →
      ∃ v', varint bs shift n = some (v', bs.drop (l - n)) ∧ (∃ w, v' = w * 2 ^ shift)
        ∧ v' + 2 ^ shift ≤ 2 ^ (7 * l) ∧ v = (acc + v') % 2 ^ 64 ∧ n < l := by
  induction bs with
  | nil => intro acc shift n v l _ _ h; simp [decodeVarintLoop] at h
  | cons b bs ih =>
    intro acc shift n v l hs hn h
    rw [decodeVarintLoop_cons] at h
    rw [varint_cons, if_neg (by omega)]
    have hb' : b.toNat < 256 := by simpa using b.toNat_lt
    by_cases hlt : b.toNat < 128
    · rw [if_pos hlt] at h
      simp only [Option.some.injEq, Prod.mk.injEq] at h
      obtain ⟨hv, hl⟩ := h
      have hl' : l = n + 1 := by omega
      subst hl'
      rw [if_pos ((nat_and80 _ hb').2 hlt)]
      refine ⟨b.toNat <<< shift, ?_, ⟨b.toNat, Nat.shiftLeft_eq _ _⟩, ?_, ?_, by omega⟩
      · have : n + 1 - n = 1 := by omega
        rw [this]; rfl
      · have e : 7 * (n + 1) = shift + 7 := by omega
        rw [e, Nat.pow_add, Nat.shiftLeft_eq]
        have : b.toNat * 2 ^ shift + 2 ^ shift = (b.toNat + 1) * 2 ^ shift := by
          rw [Nat.add_mul, Nat.one_mul]
        rw [this, Nat.mul_comm (2 ^ shift)]
        exact Nat.mul_le_mul_right _ (by omega)
      · rw [← hv, Nat.shiftLeft_eq, Nat.mod_eq_of_lt hlt]
    · rw [if_neg hlt] at h
      have hbit : ¬ b.toNat &&& 0x80 = 0 := fun hh => hlt ((nat_and80 _ hb').1 hh)
      rw [if_neg hbit]
      by_cases hsh : shift + 7 > 63
      · rw [if_pos hsh] at h; simp at h
      rw [if_neg hsh] at h
      obtain ⟨v', hv', ⟨w, hw⟩, hbound, hval, hnl⟩ :=
        ih _ (shift + 7) (n + 1) v l (by omega) (by omega) h
      have hx : (b.toNat % 128) * 2 ^ shift < 2 ^ (shift + 7) := by
        rw [Nat.pow_add, Nat.mul_comm (2 ^ shift)]
        exact Nat.mul_lt_mul_of_pos_right (Nat.mod_lt _ (by decide)) (Nat.pow_pos (by decide))
      have hor : (b.toNat &&& 0x7f) <<< shift ||| v' = (b.toNat % 128) * 2 ^ shift + v' := by
        rw [nat_and7f, Nat.shiftLeft_eq, hw, or_mul_two_pow _ _ _ hx]
      refine ⟨(b.toNat % 128) * 2 ^ shift + v', ?_, ⟨b.toNat % 128 + w * 128, ?_⟩, ?_, ?_, by omega⟩
      · rw [hv']
        simp only [Option.map_some, hor]
        have : l - n = (l - (n + 1)) + 1 := by omega
        rw [this, List.drop_succ_cons]
      · rw [hw, Nat.add_mul, Nat.pow_add, Nat.mul_assoc, Nat.mul_comm 128]
      · have hp : 2 ^ (shift + 7) = 128 * 2 ^ shift := by rw [Nat.pow_add, Nat.mul_comm]
        have hm : b.toNat % 128 < 128 := Nat.mod_lt _ (by decide)
        have : (b.toNat % 128) * 2 ^ shift + 2 ^ shift ≤ 128 * 2 ^ shift := by
          have : (b.toNat % 128) * 2 ^ shift + 2 ^ shift = (b.toNat % 128 + 1) * 2 ^ shift := by
            rw [Nat.add_mul, Nat.one_mul]
          rw [this]
          exact Nat.mul_le_mul_right _ (by omega)
        omega
      · rw [hval, Nat.mod_add_mod, Nat.add_assoc]

end SBC

/-- The model's varint decoder against the Spec's, in general: whenever the model decodes `(v, l)`,
    the Spec decoder consumes the same `l` bytes and yields the UNTRUNCATED value `v'`, of which the
    model's `v` is the residue mod 2^64; `v' < 2^(7 l)`. -/
theorem specVarint_of_decode_gen (bs : Bytes) (v l : Nat) (h : decodeVarint bs = some (v, l)) :
    ∃ v', Spec.Format.varint bs 0 0 = some (v', bs.drop l) ∧ v = v' % 2 ^ 64 ∧ v' < 2 ^ (7 * l) := by
  obtain ⟨v', h1, _, h3, h4, _⟩ := SBC.loop_spec bs 0 0 0 v l rfl (by omega) h
  refine ⟨v', by simpa using h1, by simpa using h4, ?_⟩
  have : 0 < 2 ^ 0 := by decide
  omega

/-- the two decoders agree exactly when nothing was truncated -/
theorem specVarint_of_decode_iff (bs : Bytes) (v l : Nat) (h : decodeVarint bs = some (v, l)) :
    Spec.Format.varint bs 0 0 = some (v, bs.drop l)
      ↔ ∃ v', Spec.Format.varint bs 0 0 = some (v', bs.drop l) ∧ v' < 2 ^ 64 := by
  obtain ⟨v', h1, h2, _⟩ := specVarint_of_decode_gen bs v l h
  constructor
  · intro hh
    exact ⟨v, hh, (decodeVarint_some_len _ _ _ h).2.2.2⟩
  · rintro ⟨v'', h1', hlt⟩
    rw [h1] at h1'
    simp only [Option.some.injEq, Prod.mk.injEq, and_true] at h1'
    subst h1'
    rw [h1, h2, Nat.mod_eq_of_lt hlt]

/-- the model's varint decoder and the Spec's agree (model ⇒ Spec direction) on every varint of at
    most 9 bytes (63 payload bits: no truncation possible). For 10-byte varints they agree iff the
    untruncated value is below 2^64 (`specVarint_of_decode_iff`), i.e. iff the 10th byte is 0 or 1;
    `0x80^9 0x02` is 0 for the model, 2^64 for the Spec (`SBC.cex_varint`). -/
theorem specVarint_of_decode (bs : Bytes) (v l : Nat) (h : decodeVarint bs = some (v, l))
    (hl : l ≤ 9) : Spec.Format.varint bs 0 0 = some (v, bs.drop l) := by
  obtain ⟨v', h1, h2, h3⟩ := specVarint_of_decode_gen bs v l h
  have : v' < 2 ^ 64 :=
    Nat.lt_of_lt_of_le h3 (Nat.pow_le_pow_right (by decide) (by omega))
  rw [h1, h2, Nat.mod_eq_of_lt this]

namespace SBC

/-- the Spec decoder only looks at the bytes it consumes -/
theorem varint_take (bs : Bytes) :
    ∀ (s n v k : Nat) (rest : Bytes), varint bs s n = some (v, rest) →
      bs.length - rest.length ≤ k →
      varint (bs.take k) s n = some (v, rest.take (k - (bs.length - rest.length))) := by
  induction bs with
  | nil => intro s n v k rest h; simp [varint] at h
  | cons b bs ih =>
    intro s n v k rest h hk
    have hrl := varint_rest_length _ _ _ _ _ h
    simp only [List.length_cons] at hrl hk
    obtain ⟨k', rfl⟩ : ∃ k', k = k' + 1 := ⟨k - 1, by omega⟩
    rw [varint_cons] at h
    rw [List.take_succ_cons, varint_cons]
    by_cases hn : n ≥ 10
    · rw [if_pos hn] at h; simp at h
    rw [if_neg hn] at h ⊢
    by_cases hbit : b.toNat &&& 0x80 = 0
    · rw [if_pos hbit] at h ⊢
      simp only [Option.some.injEq, Prod.mk.injEq] at h
      obtain ⟨rfl, rfl⟩ := h
      simp only [List.length_cons]
      have : k' + 1 - (bs.length + 1 - bs.length) = k' := by omega
      rw [this]
    · rw [if_neg hbit] at h ⊢
      cases hrec : varint bs (s + 7) (n + 1) with
      | none => rw [hrec] at h; simp at h
      | some p =>
        obtain ⟨v', r'⟩ := p
        rw [hrec] at h
        simp only [Option.map_some, Option.some.injEq, Prod.mk.injEq] at h
        obtain ⟨hv, rfl⟩ := h
        have hrl' := varint_rest_length _ _ _ _ _ hrec
        rw [ih _ _ _ k' _ hrec (by omega)]
        simp only [Option.map_some, hv, List.length_cons]
        have : k' + 1 - (bs.length + 1 - r'.length) = k' - (bs.length - r'.length) := by omega
        rw [this]

/-- `varint_take` for a rest given as a `drop` -/
theorem varint_take_drop (bs : Bytes) (v l k : Nat) (h : varint bs 0 0 = some (v, bs.drop l))
    (hl : l ≤ bs.length) (hk : l ≤ k) :
    varint (bs.take k) 0 0 = some (v, (bs.take k).drop l) := by
  have := varint_take bs 0 0 v k _ h (by rw [List.length_drop]; omega)
  rw [this, List.length_drop, List.drop_take]
  have : bs.length - (bs.length - l) = l := by omega
  rw [this]

/-! ### fixed32 and the restart array -/

theorem u32le_of_length (bs : Bytes) (h : bs.length = 4) : u32le bs = some (decodeFixed32 bs) := by
  match bs, h with
  | [a, b, c, d], _ =>
    have := (specU32le_eq [a, b, c, d] _ rfl).2
    rw [this]
    rfl

theorem u32list_of (xs : List Nat) : ∀ bs : Bytes, bs.length = 4 * xs.length →
    (∀ i, (h : i < xs.length) → decodeFixed32 ((bs.drop (4 * i)).take 4) = xs[i]) →
    u32list bs = some xs := by
  induction xs with
  | nil =>
    intro bs hl _
    have : bs = [] := List.eq_nil_of_length_eq_zero (by simpa using hl)
    subst this; rfl
  | cons x xs ih =>
    intro bs hl hi
    match bs, hl with
    | a :: b :: c :: d :: rest, hl =>
      have h0 := hi 0 (by simp)
      simp only [Nat.mul_zero, List.drop_zero, List.take_succ_cons, List.take_zero,
        List.getElem_cons_zero] at h0
      have hrest := ih rest (by simp only [List.length_cons] at hl ⊢; omega) (by
        intro i h
        have := hi (i + 1) (by simpa using h)
        have e : 4 * (i + 1) = (4 * i) + 4 := by omega
        rw [e] at this
        simpa only [List.drop_succ_cons, List.getElem_cons_succ] using this)
      rw [u32list, u32le_of_length _ rfl, hrest, h0]
      rfl

/-! ### entry headers -/

/-- The header of entry `e` is decoded by the Spec decoder to the same three values the model
    decoded (`e.shared`, `e.nonShared`, `e.valLen`); i.e. no header varint was truncated mod 2^64
    by the model. This is the hypothesis of `parseBlock_complete`. -/
def HeaderExact (b : Bytes) (e : EInfo) : Prop :=
  ∃ r1 r2 r3, varint (b.drop e.off) 0 0 = some (e.shared, r1)
    ∧ varint r1 0 0 = some (e.nonShared, r2) ∧ varint r2 0 0 = some (e.valLen, r3)

/-- a model header whose Spec reading gives the same values: the Spec rests are the model's drops -/
theorem header_rests (bs : Bytes) (s ns vl hl : Nat) (r1 r2 r3 : Bytes)
    (hp : Block.parseHeader bs = some (s, ns, vl, hl))
    (h1 : varint bs 0 0 = some (s, r1)) (h2 : varint r1 0 0 = some (ns, r2))
    (h3 : varint r2 0 0 = some (vl, r3)) :
    ∃ l1 l2 l3, hl = l1 + l2 + l3 ∧ hl ≤ bs.length
      ∧ r1 = bs.drop l1 ∧ r2 = bs.drop (l1 + l2) ∧ r3 = bs.drop (l1 + l2 + l3) := by
  obtain ⟨l1, l2, l3, d1, d2, d3, rfl⟩ := parseHeader_some hp
  have b1 := decodeVarint_some_len _ _ _ d1
  have b2 := decodeVarint_some_len _ _ _ d2
  have b3 := decodeVarint_some_len _ _ _ d3
  obtain ⟨l, e1, rfl, _⟩ := specVarint_eq _ _ _ h1 b1.2.2.2
  rw [d1] at e1
  simp only [Option.some.injEq, Prod.mk.injEq, true_and] at e1
  subst e1
  obtain ⟨l, e2, rfl, _⟩ := specVarint_eq _ _ _ h2 b2.2.2.2
  rw [d2] at e2
  simp only [Option.some.injEq, Prod.mk.injEq, true_and] at e2
  subst e2
  rw [List.drop_drop] at h3
  obtain ⟨l, e3, rfl, _⟩ := specVarint_eq _ _ _ h3 b3.2.2.2
  rw [d3] at e3
  simp only [Option.some.injEq, Prod.mk.injEq, true_and] at e3
  subst e3
  simp only [List.length_drop] at b2 b3
  refine ⟨l1, l2, l3, rfl, by omega, rfl, by rw [List.drop_drop], by rw [List.drop_drop]⟩

/-- ... and the same three Spec reads succeed on the input truncated anywhere after the header -/
theorem header_take (bs : Bytes) (m s ns vl hl : Nat) (r1 r2 r3 : Bytes)
    (hp : Block.parseHeader bs = some (s, ns, vl, hl))
    (h1 : varint bs 0 0 = some (s, r1)) (h2 : varint r1 0 0 = some (ns, r2))
    (h3 : varint r2 0 0 = some (vl, r3)) (hm : hl ≤ m) :
    ∃ q1 q2, varint (bs.take m) 0 0 = some (s, q1) ∧ varint q1 0 0 = some (ns, q2)
      ∧ varint q2 0 0 = some (vl, (bs.take m).drop hl) ∧ hl ≤ bs.length := by
  obtain ⟨l1, l2, l3, rfl, hlen, rfl, rfl, rfl⟩ := header_rests bs s ns vl hl r1 r2 r3 hp h1 h2 h3
  refine ⟨(bs.take m).drop l1, (bs.take m).drop (l1 + l2), ?_, ?_, ?_, hlen⟩
  · exact varint_take_drop bs s l1 m h1 (by omega) (by omega)
  · have := varint_take_drop (bs.drop l1) ns l2 (m - l1) (by rw [List.drop_drop]; exact h2)
      (by rw [List.length_drop]; omega) (by omega)
    rw [← List.drop_take, List.drop_drop] at this
    exact this
  · have := varint_take_drop (bs.drop (l1 + l2)) vl l3 (m - (l1 + l2))
      (by rw [List.drop_drop]; exact h3) (by rw [List.length_drop]; omega) (by omega)
    rw [← List.drop_take, List.drop_drop] at this
    exact this

/-! ### the entry chain -/

theorem entries_succ_intro (body : Bytes) (pos : Nat) (prev : Bytes) (fuel : Nat)
    (s ns vl : Nat) (r1 r2 r3 : Bytes) (tail : List (Spec.Entry × Nat × Nat)) (hne : body ≠ [])
    (h1 : varint body 0 0 = some (s, r1)) (h2 : varint r1 0 0 = some (ns, r2))
    (h3 : varint r2 0 0 = some (vl, r3)) (hs : s ≤ prev.length) (hnv : ns + vl ≤ r3.length)
    (ht : entries (r3.drop (ns + vl)) (pos + (body.length - (r3.drop (ns + vl)).length))
          (prev.take s ++ r3.take ns) fuel = some tail) :
    entries body pos prev (fuel + 1)
      = some (((prev.take s ++ r3.take ns, (r3.drop ns).take vl), pos, s) :: tail) := by
  rw [entries]
  have hemp : body.isEmpty = false := by cases body <;> simp_all
  rw [hemp]
  simp only [Bool.false_eq_true, if_false, h1, h2, h3, Option.bind_eq_bind, Option.bind_some]
  rw [if_neg (by omega), ht]
  rfl

theorem entries_of_chain (b : Bytes) (roff : Nat) (hr : roff ≤ b.length) :
    ∀ (es : List EInfo) (fuel pos : Nat) (prev : Bytes),
      Chain b roff prev pos es → (∀ e ∈ es, HeaderExact b e) → es.length < fuel →
      entries ((b.take roff).drop pos) pos prev fuel = some (es.map (specOut b)) := by
  intro es
  induction es with
  | nil =>
    intro fuel pos prev hch _ hf
    have hp : pos = roff := hch
    obtain ⟨f, rfl⟩ : ∃ f, fuel = f + 1 := ⟨fuel - 1, by simp at hf; omega⟩
    have hnil : (b.take roff).drop pos = [] :=
      List.eq_nil_of_length_eq_zero (by rw [List.length_drop, List.length_take]; omega)
    rw [hnil, entries]
    simp
  | cons e es ih =>
    intro fuel pos prev hch hex hf
    obtain ⟨hoff, hlt, hp, hsh, hnext, hkey, hrest⟩ := hch
    obtain ⟨f, rfl⟩ : ∃ f, fuel = f + 1 := ⟨fuel - 1, by simp at hf; omega⟩
    obtain ⟨r1, r2, r3, h1, h2, h3⟩ := hex e (by simp)
    rw [hoff] at h1
    have hnx : e.next = pos + e.headLen + e.nonShared + e.valLen := by
      simp only [EInfo.next, EInfo.valOff, hoff]
    have hhl : e.headLen ≤ roff - pos := by omega
    obtain ⟨q1, q2, g1, g2, g3, hlen⟩ :=
      header_take (b.drop pos) (roff - pos) _ _ _ _ r1 r2 r3 hp h1 h2 h3 hhl
    rw [← List.drop_take] at g1 g3
    -- the remaining input after the header, as a slice of the body
    have hq3 : ((b.take roff).drop pos).drop e.headLen = (b.take roff).drop (pos + e.headLen) := by
      rw [List.drop_drop]
    rw [hq3] at g3
    have hbl : ((b.take roff).drop pos).length = roff - pos := by
      rw [List.length_drop, List.length_take, Nat.min_eq_left hr]
    have hne : (b.take roff).drop pos ≠ [] := by
      intro hh; rw [hh] at hbl; simp at hbl; omega
    have hr3len : ((b.take roff).drop (pos + e.headLen)).length = roff - (pos + e.headLen) := by
      rw [List.length_drop, List.length_take, Nat.min_eq_left hr]
    have hkeyq : ((b.take roff).drop (pos + e.headLen)).take e.nonShared
        = (b.drop (pos + e.headLen)).take e.nonShared := take_drop_take _ _ _ _ (by omega)
    have hvalq : (((b.take roff).drop (pos + e.headLen)).drop e.nonShared).take e.valLen
        = (b.drop e.valOff).take e.valLen := by
      rw [List.drop_drop, take_drop_take _ _ _ _ (by omega)]
      simp only [EInfo.valOff, hoff]
    have hrestq : ((b.take roff).drop (pos + e.headLen)).drop (e.nonShared + e.valLen)
        = (b.take roff).drop e.next := by
      rw [List.drop_drop, hnx]; congr 1; omega
    have hused : pos + (((b.take roff).drop pos).length
        - (((b.take roff).drop (pos + e.headLen)).drop (e.nonShared + e.valLen)).length) = e.next := by
      rw [hbl, List.length_drop, hr3len]; omega
    have htail := ih f e.next e.key hrest (fun x hx => hex x (List.mem_cons_of_mem _ hx))
      (by simp only [List.length_cons] at hf; omega)
    have := entries_succ_intro ((b.take roff).drop pos) pos prev f e.shared e.nonShared e.valLen
      q1 q2 _ (es.map (specOut b)) hne g1 g2 g3 hsh (by rw [hr3len]; omega)
      (by rw [hused, hrestq, hkeyq, ← hkey]; exact htail)
    rw [this, hkeyq, ← hkey, hvalq, List.map_cons]
    simp only [specOut, hoff]

/-! ### blocks -/

theorem parseBlock_intro (b : Bytes) (n : Nat) (rs : List Nat)
    (out : List (Spec.Entry × Nat × Nat)) (h4 : 4 ≤ b.length)
    (hn : u32le (b.drop (b.length - 4)) = some n) (hn0 : n ≠ 0) (hfit : 4 * n + 4 ≤ b.length)
    (hrs : u32list ((b.drop (b.length - 4 - 4 * n)).take (4 * n)) = some rs)
    (hes : entries (b.take (b.length - 4 - 4 * n)) 0 [] (b.length - 4 - 4 * n + 1) = some out)
    (hhead : rs.head? = some 0)
    (hok : ∀ r ∈ rs, (∃ o ∈ out, o.2.1 = r ∧ o.2.2 = 0) ∨ (out = [] ∧ r = 0))
    (hz : ∀ p ∈ rs.zip rs.tail, p.1 < p.2) :
    parseBlock b = some { entries := out.map (·.1), restarts := rs } := by
  unfold parseBlock
  have h4' : ¬ b.length < 4 := by omega
  have hc : ¬ (n = 0 ∨ 4 * n + 4 > b.length) := by omega
  simp [h4', hn, hc, hrs, hes, hhead]
  refine ⟨?_, fun x y hxy => hz (x, y) hxy⟩
  intro r hr hno
  rcases hok r hr with ⟨⟨⟨k, v⟩, r', s⟩, ho, h1, h2⟩ | h
  · simp only at h1 h2
    subst h1; subst h2
    exact absurd ho (hno k v)
  · exact h

end SBC

/-- **Completeness of the independent decoder w.r.t. the reader's notion of well-formedness.**
    Every block that is well formed in the reader's sense, and whose entry headers were decoded
    without truncation (`SBC.HeaderExact`: the Spec varint decoder reads the same three numbers),
    is accepted by `Spec.Format.parseBlock`, with the same entries and the same restart array.
    Without `hexact` the statement is false: `parseBlock_complete_false`. -/
theorem parseBlock_complete (b : Bytes) (es : List EInfo) (rs : List Nat) (wf : BlockWF b es rs)
    (hexact : ∀ e ∈ es, SBC.HeaderExact b e) :
    Spec.Format.parseBlock b = some { entries := kvOf b es, restarts := rs } := by
  have hfit := wf.fits
  have hlen := wf.len
  have hroff : b.length - 4 - 4 * rs.length ≤ b.length := by omega
  have hn : u32le (b.drop (b.length - 4)) = some rs.length := by
    rw [SBC.u32le_of_length _ (by rw [List.length_drop]; omega), wf.count]
  have hrs : u32list ((b.drop (b.length - 4 - 4 * rs.length)).take (4 * rs.length)) = some rs := by
    apply SBC.u32list_of
    · rw [List.length_take, List.length_drop]; omega
    · intro i hi
      have := wf.restartAt i hi
      unfold fixed32At slice? at this
      rw [if_pos ⟨by omega, by omega⟩] at this
      have e : b.length - 4 - 4 * rs.length + 4 * i + 4 - (b.length - 4 - 4 * rs.length + 4 * i) = 4 := by
        omega
      rw [e, Option.map_some, Option.some.injEq] at this
      rw [take_drop_take _ _ _ _ (by omega), List.drop_drop]
      exact this
  have hes := SBC.entries_of_chain b _ hroff es (b.length - 4 - 4 * rs.length + 1) 0 [] wf.chain hexact
    (by have := Chain.length_le wf.chain; omega)
  rw [List.drop_zero] at hes
  have := SBC.parseBlock_intro b rs.length rs (es.map (specOut b)) (by omega) hn (by have := wf.nrs; omega)
    hfit hrs hes (by rw [List.head?_eq_getElem?]; exact wf.first) ?_ ?_
  · rw [this, List.map_map]; rfl
  · intro r hr
    rcases wf.isStart r hr with ⟨e, he, h1, h2⟩ | ⟨hnil, h0⟩
    · exact Or.inl ⟨specOut b e, List.mem_map_of_mem he, h1, h2⟩
    · exact Or.inr ⟨by rw [hnil]; rfl, h0⟩
  · intro p hp
    have hincr := wf.incr
    clear hrs hn hes
    generalize rs = xs at hincr hp
    induction xs with
    | nil => simp at hp
    | cons a xs ih =>
      cases xs with
      | nil => simp at hp
      | cons c cs =>
        rw [List.pairwise_cons] at hincr
        simp only [List.tail_cons, List.zip_cons_cons, List.mem_cons] at hp
        rcases hp with rfl | hp
        · exact hincr.1 c (by simp)
        · exact ih hincr.2 hp

/-! ### sufficient conditions for `HeaderExact` -/

namespace SBC

/-- header varints of at most 9 bytes each are read identically by both decoders -/
theorem headerExact_of_lens (b : Bytes) (e : EInfo) (l1 l2 l3 : Nat)
    (d1 : decodeVarint (b.drop e.off) = some (e.shared, l1))
    (d2 : decodeVarint ((b.drop e.off).drop l1) = some (e.nonShared, l2))
    (d3 : decodeVarint ((b.drop e.off).drop (l1 + l2)) = some (e.valLen, l3))
    (h1 : l1 ≤ 9) (h2 : l2 ≤ 9) (h3 : l3 ≤ 9) : HeaderExact b e := by
  have g3 := specVarint_of_decode _ _ _ d3 h3
  rw [← List.drop_drop] at g3
  exact ⟨_, _, _, specVarint_of_decode _ _ _ d1 h1, specVarint_of_decode _ _ _ d2 h2, g3⟩

/-- a header of at most 11 bytes has no 10-byte varint (the other two take at least 1 byte each) -/
theorem headerExact_of_headLen (b : Bytes) (e : EInfo)
    (hp : Block.parseHeader (b.drop e.off) = some (e.shared, e.nonShared, e.valLen, e.headLen))
    (h : e.headLen ≤ 11) : HeaderExact b e := by
  obtain ⟨l1, l2, l3, d1, d2, d3, hh⟩ := parseHeader_some hp
  have b1 := decodeVarint_some_len _ _ _ d1
  have b2 := decodeVarint_some_len _ _ _ d2
  have b3 := decodeVarint_some_len _ _ _ d3
  exact headerExact_of_lens b e l1 l2 l3 d1 d2 d3 (by omega) (by omega) (by omega)

end SBC

/-- `parseBlock_complete` under a simple syntactic proviso: headers of at most 11 bytes -/
theorem parseBlock_complete_of_headLen (b : Bytes) (es : List EInfo) (rs : List Nat)
    (wf : BlockWF b es rs) (hshort : ∀ e ∈ es, e.headLen ≤ 11) :
    Spec.Format.parseBlock b = some { entries := kvOf b es, restarts := rs } := by
  apply parseBlock_complete b es rs wf
  intro e he
  obtain ⟨i, hi⟩ := List.getElem?_of_mem he
  exact SBC.headerExact_of_headLen b e (wf.entry hi).2.2.2 (hshort e he)

/-! ### the counterexample: `HeaderExact` cannot be dropped -/

namespace SBC

/-- 10-byte varint whose 10th byte carries payload bit 1 (value 2 · 2^63 = 2^64) -/
def cexVarint : Bytes := [0x80, 0x80, 0x80, 0x80, 0x80, 0x80, 0x80, 0x80, 0x80, 0x02]

/-- the model (like the crate, which decodes into a `u64`) drops the bit shifted out; the Spec does not -/
theorem cex_varint : decodeVarint cexVarint = some (0, 10)
    ∧ Spec.Format.varint cexVarint 0 0 = some (2 ^ 64, []) := by decide

/-- one entry `"a" ↦ ""` whose `shared = 0` is written as `cexVarint`; restart array `[0]` -/
def cex : Bytes := cexVarint ++ [0x01, 0x00, 0x61] ++ [0, 0, 0, 0] ++ [1, 0, 0, 0]

def cexEntry : EInfo :=
  { off := 0, shared := 0, nonShared := 1, valLen := 0, headLen := 12, key := [0x61] }

theorem cex_wf : BlockWF cex [cexEntry] [0] where
  len := by decide
  nrs := by decide
  fits := by decide
  count := by decide
  restartAt := by
    intro i hi
    have : i = 0 := by simpa using hi
    subst this
    show fixed32At cex (cex.length - 4 - 4 * 1 + 4 * 0) = some 0
    decide
  chain := by
    simp only [Chain]
    decide
  first := rfl
  incr := by simp
  isStart := by
    intro r hr
    have : r = 0 := by simpa using hr
    subst this
    exact Or.inl ⟨cexEntry, by simp, rfl, rfl⟩

/-- the crate's validation (`Block::is_well_formed`, as modelled) accepts the block ... -/
theorem cex_isWellFormed : Block.isWellFormed cex = true := by decide

/-- ... the independent decoder rejects it -/
theorem cex_parseBlock : Spec.Format.parseBlock cex = none := by decide

end SBC

/-- `parseBlock_complete` without the hypothesis `HeaderExact` is false (even for tiny blocks):
    a well-formed block (also accepted by `Block.isWellFormed`) that `parseBlock` rejects -/
theorem parseBlock_complete_false :
    ∃ (b : Bytes) (es : List EInfo) (rs : List Nat), BlockWF b es rs ∧ b.length < 2 ^ 64
      ∧ Block.isWellFormed b = true ∧ Spec.Format.parseBlock b = none :=
  ⟨SBC.cex, [SBC.cexEntry], [0], SBC.cex_wf, by decide, SBC.cex_isWellFormed, SBC.cex_parseBlock⟩

/-! ### the proviso is also necessary -/

namespace SBC

theorem varint_append (bs : Bytes) :
    ∀ (s n v : Nat) (rest ext : Bytes), varint bs s n = some (v, rest) →
      varint (bs ++ ext) s n = some (v, rest ++ ext) := by
  induction bs with
  | nil => intro s n v rest ext h; simp [varint] at h
  | cons b bs ih =>
    intro s n v rest ext h
    rw [varint_cons] at h
    rw [List.cons_append, varint_cons]
    by_cases hn : n ≥ 10
    · rw [if_pos hn] at h; simp at h
    rw [if_neg hn] at h ⊢
    by_cases hbit : b.toNat &&& 0x80 = 0
    · rw [if_pos hbit] at h ⊢
      simp only [Option.some.injEq, Prod.mk.injEq] at h
      obtain ⟨rfl, rfl⟩ := h
      rfl
    · rw [if_neg hbit] at h ⊢
      cases hrec : varint bs (s + 7) (n + 1) with
      | none => rw [hrec] at h; simp at h
      | some p =>
        obtain ⟨v', r'⟩ := p
        rw [hrec] at h
        simp only [Option.map_some, Option.some.injEq, Prod.mk.injEq] at h
        obtain ⟨hv, rfl⟩ := h
        rw [ih _ _ _ _ ext hrec]
        simp only [Option.map_some, hv]

/-- if the Spec entry parser gets through a chain, every header of the chain is exact -/
theorem exact_of_entries (b : Bytes) (roff : Nat) (hr : roff ≤ b.length) (hlen : b.length < 2 ^ 64) :
    ∀ (es : List EInfo) (fuel pos : Nat) (prev : Bytes) (out : List (Spec.Entry × Nat × Nat)),
      Chain b roff prev pos es → prev.length ≤ pos →
      entries ((b.take roff).drop pos) pos prev fuel = some out →
      ∀ e ∈ es, HeaderExact b e := by
  intro es
  induction es with
  | nil => intro _ _ _ _ _ _ _ e he; simp at he
  | cons e es ih =>
    intro fuel pos prev out hch hprev h
    obtain ⟨hoff, hlt, hp, hsh, hnext, hkey, hrest⟩ := hch
    cases fuel with
    | zero => simp [entries] at h
    | succ fuel =>
    have hbl : ((b.take roff).drop pos).length = roff - pos := by
      rw [List.length_drop, List.length_take, Nat.min_eq_left hr]
    have hne : (b.take roff).drop pos ≠ [] := by
      intro hh; rw [hh] at hbl; simp at hbl; omega
    obtain ⟨s, r1, ns, r2, vl, r3, tail, h1, h2, h3, hs, hnv, ht, _⟩ :=
      entries_succ_some _ _ _ _ _ h hne
    have l1 := varint_rest_length _ _ _ _ _ h1
    have l2 := varint_rest_length _ _ _ _ _ h2
    have l3 := varint_rest_length _ _ _ _ _ h3
    rw [List.drop_take] at h1
    obtain ⟨hl, hph, hr3, hlm, _⟩ := specHeader (b.drop pos) (roff - pos) s ns vl r1 r2 r3 h1 h2 h3
      (by omega) (by omega) (by omega)
    rw [hp] at hph
    simp only [Option.some.injEq, Prod.mk.injEq] at hph
    obtain ⟨rfl, rfl, rfl, rfl⟩ := hph
    -- this entry
    have hthis : HeaderExact b e := by
      refine ⟨r1 ++ (b.drop pos).drop (roff - pos), r2 ++ (b.drop pos).drop (roff - pos),
        r3 ++ (b.drop pos).drop (roff - pos), ?_, varint_append _ _ _ _ _ _ h2,
        varint_append _ _ _ _ _ _ h3⟩
      have := varint_append _ _ _ _ _ ((b.drop pos).drop (roff - pos)) h1
      rw [List.take_append_drop] at this
      show varint (b.drop e.off) 0 0 = _
      rw [hoff]; exact this
    -- the rest, as in `entries_chain`
    have hr3' : r3 = (b.take roff).drop (pos + e.headLen) := by
      rw [hr3, List.drop_drop, List.drop_take]
      congr 1; omega
    have hr3len : r3.length = roff - (pos + e.headLen) := by
      rw [hr3', List.length_drop, List.length_take, Nat.min_eq_left hr]
    have hkeyq : r3.take e.nonShared = (b.drop (pos + e.headLen)).take e.nonShared := by
      rw [hr3', take_drop_take _ _ _ _ (by omega)]
    have hnx : e.next = pos + e.headLen + e.nonShared + e.valLen := by
      simp only [EInfo.next, EInfo.valOff, hoff]
    have hrestq : r3.drop (e.nonShared + e.valLen) = (b.take roff).drop e.next := by
      rw [hr3', List.drop_drop, hnx]; congr 1; omega
    have hused : pos + (((b.take roff).drop pos).length - (r3.drop (e.nonShared + e.valLen)).length)
        = e.next := by
      rw [hbl, List.length_drop, hr3len]; omega
    rw [hused, hrestq, hkeyq, ← hkey] at ht
    have hklen : e.key.length ≤ e.next := by
      rw [hkey, List.length_append, List.length_take, List.length_take]
      omega
    have htl := ih fuel e.next e.key tail hrest hklen ht
    intro x hx
    rcases List.mem_cons.1 hx with rfl | hx
    · exact hthis
    · exact htl x hx

end SBC

/-- whenever the independent decoder accepts a well-formed block, all its headers are exact -/
theorem headerExact_of_parseBlock (b : Bytes) (es : List EInfo) (rs : List Nat) (wf : BlockWF b es rs)
    (hlen : b.length < 2 ^ 64) (info : Spec.Format.BlockInfo)
    (h : Spec.Format.parseBlock b = some info) : ∀ e ∈ es, SBC.HeaderExact b e := by
  obtain ⟨n, rs', out, _, hn, _, hfit, _, hes, _⟩ := parseBlock_some b info h
  have hnl : n = rs.length := by
    rw [← (specU32le_eq _ _ hn).2, wf.count]
  subst hnl
  exact SBC.exact_of_entries b _ (by omega) hlen es _ 0 [] out wf.chain (Nat.le_refl _)
    (by rw [List.drop_zero]; exact hes)

/-- **Characterisation.** For a block that is well formed in the reader's sense (and shorter than
    2^64), the independent decoder accepts it -- then necessarily with the reader's entries and
    restart array -- exactly when no entry header was truncated by the model's varint decoder. -/
theorem parseBlock_complete_iff (b : Bytes) (es : List EInfo) (rs : List Nat) (wf : BlockWF b es rs)
    (hlen : b.length < 2 ^ 64) :
    (∀ e ∈ es, SBC.HeaderExact b e)
      ↔ Spec.Format.parseBlock b = some { entries := kvOf b es, restarts := rs } :=
  ⟨parseBlock_complete b es rs wf, headerExact_of_parseBlock b es rs wf hlen _⟩

/-- ... and it accepts nothing else for such a block -/
theorem parseBlock_eq_of_wf (b : Bytes) (es : List EInfo) (rs : List Nat) (wf : BlockWF b es rs)
    (hlen : b.length < 2 ^ 64) (info : Spec.Format.BlockInfo)
    (h : Spec.Format.parseBlock b = some info) :
    info = { entries := kvOf b es, restarts := rs } := by
  have := parseBlock_complete b es rs wf (headerExact_of_parseBlock b es rs wf hlen info h)
  rw [h] at this
  exact Option.some.inj this

/-! ### blocks written by `BlockBuilder` satisfy the proviso -/

namespace SBC
open BlockBuild BlockBuilder

/-- the Spec decoder reads back a canonical encoding (of at most 9 bytes) exactly -/
theorem varint_encodeVarint (n : Nat) (h : n < 2 ^ 63) (rest : Bytes) :
    varint (encodeVarint n ++ rest) 0 0 = some (n, rest) := by
  have hd := decodeVarint_encodeVarint n (by omega) rest
  have hl : (encodeVarint n).length ≤ 9 :=
    encodeVarint_length_le_of_lt_pow 8 n (by
      have : (2:Nat) ^ 63 = 128 ^ (8 + 1) := by decide
      omega)
  have := specVarint_of_decode _ _ _ hd hl
  rwa [List.drop_left] at this

/-- the entry table of a block is determined by the block -/
theorem chain_unique {b : Bytes} {roff : Nat} :
    ∀ {es es' : List EInfo} {prev : Bytes} {off : Nat},
      Chain b roff prev off es → Chain b roff prev off es' → es = es' := by
  intro es
  induction es with
  | nil =>
    intro es' prev off h h'
    cases es' with
    | nil => rfl
    | cons e' es' =>
      have h1 : off = roff := h
      have h2 : off < roff := h'.2.1
      omega
  | cons e es ih =>
    intro es' prev off h h'
    cases es' with
    | nil =>
      have h1 : off = roff := h'
      have h2 : off < roff := h.2.1
      omega
    | cons e' es' =>
      obtain ⟨ho, _, hp, _, _, hk, hr⟩ := h
      obtain ⟨ho', _, hp', _, _, hk', hr'⟩ := h'
      rw [hp] at hp'
      simp only [Option.some.injEq, Prod.mk.injEq] at hp'
      obtain ⟨e1, e2, e3, e4⟩ := hp'
      have hee : e = e' := by
        cases e; cases e'
        simp only at ho ho' e1 e2 e3 e4 hk hk'
        subst ho; subst ho'; subst e1; subst e2; subst e3; subst e4
        rw [← hk'] at hk
        subst hk
        rfl
      subst hee
      rw [ih hr hr']

/-- what `BlockBuild.Inv` does not record: the entry headers of the buffer are exact -/
structure ExactBody (b : BlockBuilder) : Prop where
  lk_len : b.lastKey.length ≤ b.buffer.length
  body : b.buffer.length < 2 ^ 32 → ∃ es : List EInfo,
      (∀ tail, Chain (b.buffer ++ tail) b.buffer.length [] 0 es)
      ∧ lastK [] es = b.lastKey
      ∧ (∀ tail, ∀ e ∈ es, HeaderExact (b.buffer ++ tail) e)

theorem exact_new (ri : Nat) : ExactBody (BlockBuilder.new ri) where
  lk_len := Nat.le_refl _
  body := fun _ => ⟨[], fun tail => by simp [Chain, BlockBuilder.new], rfl,
    fun _ e he => by simp at he⟩

theorem exact_step (b : BlockBuilder) (key val : Bytes) (shared : Nat) (restarts' : List Nat)
    (rc' cnt' : Nat) (hx : ExactBody b)
    (hsh1 : shared ≤ b.lastKey.length) (hsh2 : shared ≤ key.length)
    (hpre : key.take shared = b.lastKey.take shared) :
    ExactBody { b with buffer := b.buffer ++ entBytes shared key val, restarts := restarts',
                       lastKey := key, restartCounter := rc', counter := cnt' } := by
  have hl1 := encodeVarint_length_pos shared
  have hl2 := encodeVarint_length_pos (key.length - shared)
  have hl3 := encodeVarint_length_pos val.length
  have hentlen := entBytes_length shared key val
  have hlkl := hx.lk_len
  refine ⟨?_, ?_⟩
  · simp only [List.length_append]
    omega
  · intro hlen
    simp only [List.length_append] at hlen
    have hold : b.buffer.length < 2 ^ 32 := by omega
    obtain ⟨es, hch, hlk, hex⟩ := hx.body hold
    let e : EInfo := { off := b.buffer.length, shared := shared, nonShared := key.length - shared,
                       valLen := val.length,
                       headLen := (encodeVarint shared).length
                         + (encodeVarint (key.length - shared)).length
                         + (encodeVarint val.length).length,
                       key := key }
    have hbig : (2:Nat) ^ 32 < 2 ^ 63 := by decide
    have hhdr : ∀ tail, Block.parseHeader (entBytes shared key val ++ tail)
        = some (e.shared, e.nonShared, e.valLen, e.headLen) := by
      intro tail
      have := parseHeader_encode shared (key.length - shared) val.length (by omega) (by omega)
        (by omega) (key.drop shared ++ val ++ tail)
      simpa [entBytes, List.append_assoc] using this
    have hdropk : ∀ tail, ((entBytes shared key val ++ tail).drop e.headLen).take e.nonShared
        = key.drop shared := by
      intro tail
      have e1 : entBytes shared key val ++ tail
          = (encodeVarint shared ++ encodeVarint (key.length - shared) ++ encodeVarint val.length)
            ++ (key.drop shared ++ (val ++ tail)) := by
        simp [entBytes, List.append_assoc]
      have e2 : e.headLen = (encodeVarint shared ++ encodeVarint (key.length - shared)
          ++ encodeVarint val.length).length := by
        simp only [e, List.length_append]
      have e3 : e.nonShared = (key.drop shared).length := by simp [e, List.length_drop]
      rw [e1, e2, List.drop_left, e3, List.take_left]
    have hkeyeq : ∀ tail, e.key = (lastK [] es).take e.shared
        ++ ((entBytes shared key val ++ tail).drop e.headLen).take e.nonShared := by
      intro tail
      rw [hdropk tail, hlk]
      show key = b.lastKey.take shared ++ key.drop shared
      rw [← hpre, List.take_append_drop]
    have hchain := chain_snoc b.buffer (entBytes shared key val) e rfl (by omega) hhdr
      (by simp only [EInfo.next, EInfo.valOff, e]; omega) es [] 0 hch (by rw [hlk]; exact hsh1) hkeyeq
    refine ⟨es ++ [e], hchain, lastK_snoc e es [], ?_⟩
    intro tail x hxm
    rcases List.mem_append.1 hxm with hxm | hxm
    · have := hex (entBytes shared key val ++ tail) x hxm
      rwa [← List.append_assoc] at this
    · simp only [List.mem_singleton] at hxm
      subst hxm
      have hd : (b.buffer ++ entBytes shared key val ++ tail).drop e.off
          = encodeVarint shared ++ (encodeVarint (key.length - shared)
              ++ (encodeVarint val.length ++ (key.drop shared ++ (val ++ tail)))) := by
        show (b.buffer ++ entBytes shared key val ++ tail).drop b.buffer.length = _
        rw [List.append_assoc, List.drop_left]
        simp only [entBytes, List.append_assoc]
      refine ⟨encodeVarint (key.length - shared)
              ++ (encodeVarint val.length ++ (key.drop shared ++ (val ++ tail))),
        encodeVarint val.length ++ (key.drop shared ++ (val ++ tail)),
        key.drop shared ++ (val ++ tail), ?_,
        varint_encodeVarint (key.length - shared) (by omega) _,
        varint_encodeVarint val.length (by omega) _⟩
      show varint ((b.buffer ++ entBytes shared key val ++ tail).drop e.off) 0 0 = _
      rw [hd]
      exact varint_encodeVarint shared (by omega) _

theorem add_exact (cmp : Cmp) (b b' : BlockBuilder) (key val : Bytes)
    (h : b.add cmp key val = .ok b') (hx : ExactBody b) : ExactBody b' := by
  unfold BlockBuilder.add at h
  by_cases ha1 : decide (b.restartCounter ≤ b.restartInterval) = true
  · by_cases ha2 : (b.buffer.isEmpty || cmp.cmp b.lastKey key == .lt) = true
    · by_cases hc : b.restartCounter < b.restartInterval
      · simp only [assert, ha1, ha2, if_pos hc, if_true, Res.pure_eq, bind, Res.bind,
          List.take_append_drop, Res.ok.injEq] at h
        subst h
        have := exact_step b key val (sharedLen b.lastKey key) b.restarts (b.restartCounter + 1)
          (b.counter + 1) hx (sharedLen_le_left _ _) (sharedLen_le_right _ _) (sharedLen_take _ _)
        simpa only [entBytes, List.append_assoc] using this
      · simp only [assert, ha1, ha2, if_neg hc, if_true, Res.pure_eq, bind, Res.bind,
          List.take_append_drop, Res.ok.injEq] at h
        subst h
        have := exact_step b key val 0 (b.restarts ++ [b.buffer.length % 2 ^ 32]) (0 + 1)
          (b.counter + 1) hx (Nat.zero_le _) (Nat.zero_le _) (by simp)
        simpa only [entBytes, List.append_assoc] using this
    · simp [assert, ha1, ha2, bind, Res.bind] at h
  · simp [assert, ha1, bind, Res.bind] at h

theorem addAll_exact (cmp : Cmp) : ∀ (kvs : List (Bytes × Bytes)) (b bb : BlockBuilder),
    BlockBuilder.addAll cmp b kvs = .ok bb → ExactBody b → ExactBody bb := by
  intro kvs
  induction kvs with
  | nil =>
    intro b bb h hx
    simp only [BlockBuilder.addAll, Res.ok.injEq] at h
    subst h; exact hx
  | cons kv rest ih =>
    intro b bb h hx
    obtain ⟨k, v⟩ := kv
    simp only [BlockBuilder.addAll] at h
    cases hadd : b.add cmp k v with
    | ok b' =>
      rw [hadd] at h
      exact ih b' bb h (add_exact cmp b b' k v hadd hx)
    | err c => rw [hadd] at h; simp at h
    | panic s => rw [hadd] at h; simp at h
    | diverge => rw [hadd] at h; simp at h

/-- `finish`: the block is accepted by the independent decoder, which reads back exactly the
    entries added and the builder's restart array -/
theorem finish_parse (ri : Nat) (b : BlockBuilder) (kvs : List (Bytes × Bytes))
    (hinv : Inv ri b kvs) (hx : ExactBody b) (hlen : b.finish.length < 2 ^ 32) :
    parseBlock b.finish = some { entries := kvs, restarts := b.restarts } := by
  have hfl := finish_length b
  have hold : b.buffer.length < 2 ^ 32 := by omega
  obtain ⟨es, hch, hkv, _, hfirst, hincr, hstart⟩ := hinv.body hold
  obtain ⟨es', hch', _, hex⟩ := hx.body hold
  have hes : es' = es := chain_unique (hch' []) (hch [])
  subst hes
  have hne : 1 ≤ b.restarts.length := by
    cases hb : b.restarts with
    | nil => rw [hb] at hfirst; simp at hfirst
    | cons r rs => simp
  have hfin : b.finish = b.buffer ++ ((b.restarts.map encodeFixed32).flatten
      ++ encodeFixed32 b.restarts.length) := by
    simp [BlockBuilder.finish, List.append_assoc]
  have hroff : b.finish.length - 4 - 4 * b.restarts.length = b.buffer.length := by omega
  have hrlt : ∀ r ∈ b.restarts, r < 2 ^ 32 := by
    intro r hr
    rcases hstart r hr with ⟨e, he, ho, _⟩ | ⟨_, h0⟩
    · have := chain_off_lt _ _ es' [] 0 (hch []) e he
      omega
    · rw [h0]; decide
  have wf : BlockWF b.finish es' b.restarts := by
    refine ⟨by omega, hne, by omega, ?_, ?_, ?_, hfirst, hincr, hstart⟩
    · have h4 : b.finish.length - 4 = (b.buffer ++ (b.restarts.map encodeFixed32).flatten).length := by
        simp only [List.length_append, flatten_fixed32_length]; omega
      rw [h4]
      unfold BlockBuilder.finish
      rw [List.drop_left]
      exact decodeFixed32_encodeFixed32 _ (by omega)
    · intro i hi
      have hpos : b.finish.length - 4 - 4 * b.restarts.length + 4 * i = b.buffer.length + 4 * i := by
        omega
      rw [hpos]
      unfold BlockBuilder.finish
      exact fixed32At_flatten b.restarts b.buffer _ i hi (hrlt _ (List.getElem_mem hi))
    · rw [hroff, hfin]
      exact hch _
  have := parseBlock_complete b.finish es' b.restarts wf (by rw [hfin]; exact hex _)
  rw [this, hfin, hkv]

end SBC

/-- Builder corollary: whatever `BlockBuilder` writes (strictly sorted input, block below 4 GiB) is
    accepted by the independent decoder, which reads back exactly the entries added and the
    builder's restart array. (Its header varints are canonical encodings of numbers < 2^32.) -/
theorem blockBuilder_parseBlock (cmp : Cmp) (ri : Nat) (hri : 1 ≤ ri) (kvs : List (Bytes × Bytes))
    (hs : Spec.StrictSorted cmp kvs) :
    ∃ bb, BlockBuilder.addAll cmp (BlockBuilder.new ri) kvs = .ok bb
      ∧ (bb.finish.length < 2 ^ 32 →
          Spec.Format.parseBlock bb.finish = some { entries := kvs, restarts := bb.restarts }) := by
  obtain ⟨bb, hall, hinv⟩ := BlockBuild.addAll_inv cmp ri hri kvs (BlockBuilder.new ri) []
    (BlockBuild.inv_new ri) hs (Or.inl rfl)
  rw [List.nil_append] at hinv
  exact ⟨bb, hall, SBC.finish_parse ri bb kvs hinv
    (SBC.addAll_exact cmp kvs _ bb hall (SBC.exact_new ri))⟩

end Sst

#print axioms Sst.blockBuilder_parseBlock
#print axioms Sst.parseBlock_complete_iff
#print axioms Sst.parseBlock_eq_of_wf
#print axioms Sst.parseBlock_complete_false
#print axioms Sst.parseBlock_complete_of_headLen
#print axioms Sst.specVarint_of_decode_gen
#print axioms Sst.specVarint_of_decode
#print axioms Sst.parseBlock_complete
