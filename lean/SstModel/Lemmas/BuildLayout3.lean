import SstModel.Lemmas.BuildLayout2
/-
  C05 (writer side), part 3: `finish` on a perfect sink — the last data block, the filter block, the
  metaindex block, the index block, the footer.
-/
namespace Sst
namespace BL

theorem writeAll_perfect_gen {s : Sink} {buf : Bytes} {fuel : Nat} {wa : Sink × Res Unit}
    (h : s.writeAll buf fuel = wa) (hs : s.sched = []) (hf : 2 ≤ fuel) :
    ∃ s', wa = (s', .ok ()) ∧ s'.sched = [] ∧ s'.received = s.received ++ buf := by
  subst h; exact writeAll_perfect s buf fuel hs hf

theorem flush_perfect_gen {s : Sink} {fa : Sink × Res Unit} (h : s.flush = fa) (hs : s.sched = []) :
    ∃ s', fa = (s', .ok ()) ∧ s'.sched = [] ∧ s'.received = s.received := by
  subst h; exact flush_perfect s hs

/-! ### layout of the file tail -/

def fOff (opt : WOpts) (fl : List Fl) : Nat := (image opt fl).length
def mOff (opt : WOpts) (fl : List Fl) (fbytes : Bytes) : Nat := fOff opt fl + fbytes.length + 5
def iOff (opt : WOpts) (fl : List Fl) (fbytes : Bytes) (mb : BlockBuilder) : Nat :=
  mOff opt fl fbytes + (stored opt mb.finish).length + 5
def fHandle (opt : WOpts) (fl : List Fl) (fbytes : Bytes) : BlockHandle := ⟨fOff opt fl, fbytes.length⟩
def mHandle (opt : WOpts) (fl : List Fl) (fbytes : Bytes) (mb : BlockBuilder) : BlockHandle :=
  ⟨mOff opt fl fbytes, (stored opt mb.finish).length⟩
def iHandle (opt : WOpts) (fl : List Fl) (fbytes : Bytes) (mb ib : BlockBuilder) : BlockHandle :=
  ⟨iOff opt fl fbytes mb, (stored opt ib.finish).length⟩
/-- the reported file size -/
def nOf (opt : WOpts) (fl : List Fl) (fbytes : Bytes) (mb ib : BlockBuilder) : Nat :=
  iOff opt fl fbytes mb + (stored opt ib.finish).length + 5 + 48
/-- the complete file -/
def fileImg (opt : WOpts) (fl : List Fl) (fbytes : Bytes) (mb ib : BlockBuilder) : Bytes :=
  image opt fl ++ physicalBlock fbytes (UInt8.ofNat 0) ++ physicalBlock (stored opt mb.finish) (ty opt)
    ++ physicalBlock (stored opt ib.finish) (ty opt)
    ++ (Footer.mk (mHandle opt fl fbytes mb) (iHandle opt fl fbytes mb ib)).encode

/-- the metaindex entries -/
def metaEntries (opt : WOpts) (fl : List Fl) (fbytes : Bytes) : List (Bytes × Bytes) :=
  [(TableBuilder.filterKey opt.filter, (fHandle opt fl fbytes).encode)]

/-! ### the phases of `finish` -/

/-- the last data block -/
theorem final_flush {opt : WOpts} (hok : WOptsOK opt) {t : TableBuilder} {fl : List Fl}
    {pend : List (Bytes × Bytes)} (hinv : BInv opt t fl pend) (pne : fl ≠ [] → pend ≠ []) :
    ∃ db t1 r, t.dataBlock = some db ∧
      (if db.entries > 0 then t.writeDataBlock (t.opt.cmp.succ db.lastKey) else (t, .ok ())) = (t1, r) ∧
      ((r = .ok () ∧ ∃ fl', BInv opt t1 fl' [] ∧ allKvs fl' = allKvs fl ++ pend) ∨ (r ≠ .ok () ∧ Big t1)) := by
  obtain ⟨db, hdb, hdbinv, hdbsz⟩ := hinv.db
  have hcnt : db.entries = pend.length := hdbinv.counter
  by_cases hp : pend = []
  · have hfl : fl = [] := Classical.byContradiction (fun h => pne h hp)
    subst hp hfl
    refine ⟨db, t, .ok (), hdb, ?_, Or.inl ⟨rfl, [], hinv, by simp⟩⟩
    rw [if_neg (by rw [hcnt]; simp)]
  · have hpos : db.entries > 0 := by rw [hcnt]; exact List.length_pos_iff.mpr hp
    have hopt := hinv.opt_eq
    have hlk : db.lastKey = lastKey pend := hdbinv.lastKey
    obtain ⟨t1, r, db', hdb', hwd, hcase⟩ := flush_step hok hinv hp (opt.cmp.succ (lastKey pend))
      (hok.lastSep _)
    refine ⟨db, t1, r, hdb, ?_, ?_⟩
    · rw [if_pos hpos, hlk, hopt]; exact hwd
    · rcases hcase with ⟨hr, hinv1⟩ | h
      · exact Or.inl ⟨hr, _, hinv1, by rw [allKvs_snoc]⟩
      · exact Or.inr h

/-- the filter block and the metaindex builder -/
theorem finishMeta_perfect {opt : WOpts} (hok : WOptsOK opt) {t : TableBuilder} {fl : List Fl}
    (hinv : BInv opt t fl []) :
    ∃ fb mb s', t.filterBlock = some fb ∧ s'.sched = [] ∧
      s'.received = t.sink.received ++ physicalBlock (fb.finish opt.filter) (UInt8.ofNat 0) ∧
      BlockBuild.Inv opt.restartInterval mb (metaEntries opt fl (fb.finish opt.filter)) ∧
      SzB mb (metaEntries opt fl (fb.finish opt.filter)) ∧
      t.finishMeta = ({ t with sink := s', offset := t.offset + (fb.finish opt.filter).length + 5,
                               filterBlock := none }, .ok mb) := by
  have hopt := hinv.opt_eq
  subst hopt
  obtain ⟨fb, hfb, _, _⟩ := hinv.fb
  obtain ⟨s', hwb, hs', hr'⟩ := writeBlock_perfect' { t with filterBlock := none }
    (fb.finish t.opt.filter) Consts.compressionNone hinv.sched
  rw [sdata_zero] at hwb hr'
  obtain ⟨mb, hadd, hmbinv, hmbsz⟩ := bb_add t.opt.cmp _ hok.ri (BlockBuilder.new t.opt.restartInterval) []
    (TableBuilder.filterKey t.opt.filter) (BlockHandle.encode ⟨t.offset, (fb.finish t.opt.filter).length⟩)
    (BlockBuild.inv_new _) (szB_new _) (.inl rfl)
  refine ⟨fb, mb, s', hfb, hs', hr', ?_, ?_, ?_⟩
  · show BlockBuild.Inv _ mb [(_, BlockHandle.encode ⟨(image t.opt fl).length, _⟩)]
    rw [← hinv.off]; exact hmbinv
  · show SzB mb [(_, BlockHandle.encode ⟨(image t.opt fl).length, _⟩)]
    rw [← hinv.off]; exact hmbsz
  · unfold TableBuilder.finishMeta
    rw [hfb]
    simp only []
    rw [hwb]
    simp only []
    rw [hadd]

/-- metaindex block, index block, footer, flush -/
theorem finishTail_perfect (t : TableBuilder) (mb ib : BlockBuilder) (hs : t.sink.sched = [])
    (hib : t.indexBlock = some ib) :
    ∃ s', s'.sched = [] ∧
      s'.received = t.sink.received ++ physicalBlock (stored t.opt mb.finish) (ty t.opt)
        ++ physicalBlock (stored t.opt ib.finish) (ty t.opt)
        ++ (Footer.mk ⟨t.offset, (stored t.opt mb.finish).length⟩
              ⟨t.offset + (stored t.opt mb.finish).length + 5, (stored t.opt ib.finish).length⟩).encode ∧
      t.finishTail mb =
        ({ t with sink := s', indexBlock := none,
                  offset := t.offset + (stored t.opt mb.finish).length + 5
                    + (stored t.opt ib.finish).length + 5 + 48 },
          .ok (t.offset + (stored t.opt mb.finish).length + 5 + (stored t.opt ib.finish).length + 5 + 48)) := by
  obtain ⟨s1, hwb1, hs1, hr1⟩ := writeBlock_perfect' t mb.finish t.opt.compression hs
  obtain ⟨s2, hwb2, hs2, hr2⟩ := writeBlock_perfect'
    { t with sink := s1, offset := t.offset + (sdata t.opt mb.finish t.opt.compression).length + 5,
             indexBlock := none } ib.finish t.opt.compression hs1
  unfold TableBuilder.finishTail
  rw [hwb1]
  simp only [hib]
  rw [hwb2]
  simp only [TableBuilder.withSink, Consts.fullFooterLength]
  generalize hwa : Sink.writeAll _ _ _ = wa
  obtain ⟨s3, rfl, hs3, hr3⟩ := writeAll_perfect_gen hwa hs2 (by unfold TableBuilder.waFuel; omega)
  simp only []
  generalize hfa : Sink.flush _ = fa
  obtain ⟨s4, rfl, hs4, hr4⟩ := flush_perfect_gen hfa hs3
  refine ⟨s4, hs4, ?_, rfl⟩
  rw [hr4, hr3, hr2, hr1]
  rfl

/-- stage 3: `finish` -/
theorem finish_step {opt : WOpts} (hok : WOptsOK opt) {t : TableBuilder} {fl : List Fl}
    {pend : List (Bytes × Bytes)} (hinv : BInv opt t fl pend) (pne : fl ≠ [] → pend ≠ []) :
    ∃ t' r, t.finish = (t', r) ∧
      ((∃ t1 fl' fb mb ib, r = .ok (nOf opt fl' (fb.finish opt.filter) mb ib) ∧ BInv opt t1 fl' [] ∧
          allKvs fl' = allKvs fl ++ pend ∧ t1.filterBlock = some fb ∧ t1.indexBlock = some ib ∧
          BlockBuild.Inv opt.restartInterval mb (metaEntries opt fl' (fb.finish opt.filter)) ∧
          SzB mb (metaEntries opt fl' (fb.finish opt.filter)) ∧
          t'.sink.received = fileImg opt fl' (fb.finish opt.filter) mb ib ∧
          t'.numEntries = t1.numEntries)
        ∨ ((∀ n, r ≠ .ok n) ∧ Big t')) := by
  obtain ⟨db, t1, r, hdb, hff, hcase⟩ := final_flush hok hinv pne
  rw [TableBuilder.finish_eq, hdb]
  simp only []
  rw [hff]
  rcases hcase with ⟨rfl, fl', hinv1, hkvs⟩ | ⟨hr, hbig⟩
  · simp only []
    obtain ⟨fb, mb, s2, hfb, hs2, hr2, hmbinv, hmbsz, hfm⟩ := finishMeta_perfect hok hinv1
    rw [hfm]
    simp only []
    obtain ⟨ib, hib, _, _⟩ := hinv1.ib
    obtain ⟨s3, hs3, hr3, hft⟩ := finishTail_perfect
      { t1 with sink := s2, offset := t1.offset + (fb.finish opt.filter).length + 5, filterBlock := none }
      mb ib hs2 hib
    rw [hft]
    have hopt := hinv1.opt_eq
    refine ⟨_, _, rfl, Or.inl ⟨t1, fl', fb, mb, ib, ?_, hinv1, hkvs, hfb, hib, hmbinv, hmbsz, ?_, rfl⟩⟩
    · show Res.ok (t1.offset + (fb.finish opt.filter).length + 5 + (stored t1.opt mb.finish).length + 5
        + (stored t1.opt ib.finish).length + 5 + 48) = _
      rw [hopt, hinv1.off]
      rfl
    · show s3.received = _
      rw [hr3]
      show s2.received ++ physicalBlock (stored t1.opt mb.finish) (ty t1.opt)
        ++ physicalBlock (stored t1.opt ib.finish) (ty t1.opt)
        ++ (Footer.mk ⟨t1.offset + (fb.finish opt.filter).length + 5, (stored t1.opt mb.finish).length⟩
              ⟨t1.offset + (fb.finish opt.filter).length + 5 + (stored t1.opt mb.finish).length + 5,
                (stored t1.opt ib.finish).length⟩).encode = _
      rw [hr2, hinv1.recv, hopt, hinv1.off]
      rfl
  · cases r with
    | ok u => cases u; exact absurd rfl hr
    | err c => exact ⟨_, _, rfl, Or.inr ⟨by simp, hbig⟩⟩
    | panic m => exact ⟨_, _, rfl, Or.inr ⟨by simp, hbig⟩⟩
    | diverge => exact ⟨_, _, rfl, Or.inr ⟨by simp, hbig⟩⟩

/-- stages 2+3: the whole build -/
theorem build_step {opt : WOpts} (hok : WOptsOK opt) (es : List (Bytes × Bytes))
    (hs : Spec.StrictSorted opt.cmp es) :
    ∃ t' r, TableBuilder.build opt {} es = (t', r) ∧
      ((∃ t1 fl fb mb ib, r = .ok (nOf opt fl (fb.finish opt.filter) mb ib) ∧ BInv opt t1 fl [] ∧
          allKvs fl = es ∧ t1.filterBlock = some fb ∧ t1.indexBlock = some ib ∧
          BlockBuild.Inv opt.restartInterval mb (metaEntries opt fl (fb.finish opt.filter)) ∧
          SzB mb (metaEntries opt fl (fb.finish opt.filter)) ∧
          t'.sink.received = fileImg opt fl (fb.finish opt.filter) mb ib ∧
          t'.numEntries = es.length)
        ∨ ((∀ n, r ≠ .ok n) ∧ Big t')) := by
  obtain ⟨ta, ra, hall, hcase⟩ := addAll_step hok es (TableBuilder.new opt {}) [] [] (binv_new opt)
    (fun h => absurd rfl h) (by simpa [allKvs] using hs)
  unfold TableBuilder.build
  rw [hall]
  rcases hcase with ⟨rfl, fl1, pend1, hinv1, pne1, heq1⟩ | ⟨hr, hbig⟩
  · simp only []
    obtain ⟨t', r, hfin, hcase'⟩ := finish_step hok hinv1 pne1
    refine ⟨t', r, hfin, ?_⟩
    rcases hcase' with ⟨t1, fl', fb, mb, ib, hr, hinv', hkvs, hfb, hib, hmbinv, hmbsz, hrecv, hnum⟩ | h
    · have hes : allKvs fl' = es := by rw [hkvs, heq1]; simp [allKvs]
      refine Or.inl ⟨t1, fl', fb, mb, ib, hr, hinv', hes, hfb, hib, hmbinv, hmbsz, hrecv, ?_⟩
      rw [hnum, hinv'.num, List.append_nil, hes]
    · exact Or.inr h
  · cases ra with
    | ok u => cases u; exact absurd rfl hr
    | err c => exact ⟨_, _, rfl, Or.inr ⟨by simp, hbig⟩⟩
    | panic m => exact ⟨_, _, rfl, Or.inr ⟨by simp, hbig⟩⟩
    | diverge => exact ⟨_, _, rfl, Or.inr ⟨by simp, hbig⟩⟩

end BL
end Sst
