import SstModel.Lemmas.ProgSafe
import SstModel.Lemmas.CacheShare
/-
  Concurrency at the granularity of the CRITICAL SECTIONS (`Table::read_block` under the cache lock).

  A configuration is a shared `World` and a list of threads, each thread being the remaining program
  (`Prog`, Model/Prog.lean) of the operation it executes. A step of thread `i` — enabled exactly when
  its program stands at a request `rb t h k` — executes `t.readBlock h` on the shared world ATOMICALLY
  (cache lookup, on a miss file read + verification, cache insert: the code under the lock) and
  replaces the program by `k r`. A thread at `ret r` is finished. A schedule is a list of thread
  indices. There is no blocking: the lock is held only inside a step, so every unfinished thread is
  enabled (`progress`).

  Main lemma (`exec_ok`): if the world satisfies the invariant of the client family (`Inv`) and every
  thread's program follows a canonical path (`Runs`: it only asks for data blocks of its own table),
  then along EVERY schedule the invariant holds, every executed critical section returns `ok` with
  the true block contents, and each thread still follows its canonical path to the SAME result.
-/
set_option linter.unusedVariables false

namespace Sst.Fine
open Sst.CS

/-- the world invariant of a client family: every table is `WorldOK` -/
def Inv (cls : List Client) (w : World) : Prop := ∀ c ∈ cls, WorldOK w c.tb c.t

/-- what critical sections never change: files, (empty) fault schedule, cache capacity, id counter; and
    the capacity bound is preserved -/
structure Keeps (w w' : World) : Prop where
  files : w'.files = w.files
  sched : w'.sched = w.sched
  cap : w'.cache.cap = w.cache.cap
  nextId : w'.cache.nextId = w.cache.nextId
  bound : 1 ≤ w.cache.cap → w.cache.count ≤ w.cache.cap → w'.cache.count ≤ w'.cache.cap

theorem Keeps.refl (w : World) : Keeps w w := ⟨rfl, rfl, rfl, rfl, fun _ h => h⟩

theorem Keeps.trans {w1 w2 w3 : World} (a : Keeps w1 w2) (b : Keeps w2 w3) : Keeps w1 w3 :=
  ⟨b.files.trans a.files, b.sched.trans a.sched, b.cap.trans a.cap, b.nextId.trans a.nextId,
   fun h1 h2 => b.bound (a.cap ▸ h1) (a.bound h1 h2)⟩

/-! ### one critical section -/

/-- THE key fact: in a world satisfying the invariant, the critical section on a data block of a
    client's table returns that block's contents — whatever the cache holds, i.e. whatever other
    threads did before — and re-establishes the invariant for ALL tables -/
theorem readBlock_step (cls : List Client) (hok : ∀ c ∈ cls, c.OK) (hids : IdsDistinct cls)
    {c : Client} (hc : c ∈ cls) {d : DBlock} (hd : d ∈ c.t.blocks) (w : World) (hw : Inv cls w) :
    (c.tb.readBlock d.handle w).2 = .ok d.blk.contents
      ∧ Inv cls (c.tb.readBlock d.handle w).1 ∧ Keeps w (c.tb.readBlock d.handle w).1 := by
  have ho := hok c hc
  have hwc := hw c hc
  obtain ⟨w', hr, hcl, hfiles, hcoh, hoth, hcap, hnid, hbound⟩ :=
    readBlock_ok c.cmp c.t ho.wf c.tb w hwc.clean ho.opened.fileSize hwc.coh (TI.hoff ho.wf) d hd
  have hsched : w'.sched = w.sched := by rw [hcl.sched, hwc.clean.sched]
  have hfr : Frame w w' c.tb := ⟨hfiles, hsched, hcap, hnid, hoth, hbound⟩
  rw [hr]
  exact ⟨rfl, worldOK_all hids hc hfr ⟨hcl, hcoh⟩ hw, ⟨hfiles, hsched, hcap, hnid, hbound⟩⟩

/-- a program on its canonical path, run alone: result, number of critical sections, invariant -/
theorem runs_sound (cls : List Client) (hok : ∀ c ∈ cls, c.OK) (hids : IdsDistinct cls)
    {c : Client} (hc : c ∈ cls) {α : Type} {p : Prog α} {r : Res α} {n : Nat}
    (h : Runs c.tb c.t p r n) : ∀ (w : World), Inv cls w →
      (p.run w).2 = r ∧ p.steps w = n ∧ Inv cls (p.run w).1 ∧ Keeps w (p.run w).1 := by
  induction h with
  | ret r => intro w hw; exact ⟨rfl, rfl, hw, Keeps.refl w⟩
  | rb d hd k r n h ih =>
    intro w hw
    obtain ⟨h1, h2, h3⟩ := readBlock_step cls hok hids hc hd w hw
    have := ih (c.tb.readBlock d.handle w).1 h2
    simp only [Prog.run, Prog.steps, h1]
    exact ⟨this.1, by rw [this.2.1], this.2.2.1, h3.trans this.2.2.2⟩

/-! ### configurations, steps, schedules -/

structure Cfg (α : Type) where
  world : World
  threads : List (Prog α)

namespace Cfg
variable {α : Type}

/-- thread `i` executes its next critical section; `none` when it is finished (or does not exist) -/
def step (c : Cfg α) (i : Nat) : Option (Cfg α) :=
  match c.threads[i]? with
  | some (.rb t h k) =>
    some ⟨(t.readBlock h c.world).1, c.threads.set i (k (t.readBlock h c.world).2)⟩
  | _ => none

/-- run a schedule; `none` when it picks a thread that is not enabled -/
def exec : Cfg α → List Nat → Option (Cfg α)
  | c, [] => some c
  | c, i :: is =>
    match c.step i with
    | some c' => c'.exec is
    | none => none

/-- all threads have returned -/
def done (c : Cfg α) : Prop := ∀ p ∈ c.threads, p.isDone = true

theorem exec_append (c : Cfg α) (s1 s2 : List Nat) :
    c.exec (s1 ++ s2) = (c.exec s1).bind (fun c' => c'.exec s2) := by
  induction s1 generalizing c with
  | nil => rfl
  | cons i is ih =>
    simp only [List.cons_append, exec]
    cases c.step i with
    | none => rfl
    | some c' => exact ih c'

/-- no blocking: a thread that has not returned can take a step -/
theorem step_enabled (c : Cfg α) (i : Nat) (p : Prog α) (hp : c.threads[i]? = some p)
    (hnd : p.isDone = false) : ∃ c', c.step i = some c' := by
  unfold step
  rw [hp]
  cases p with
  | ret r => cases hnd
  | rb t h k => exact ⟨_, rfl⟩

/-- progress: unless all threads have returned, some thread can take a step -/
theorem progress (c : Cfg α) (h : ¬ c.done) : ∃ i c', c.step i = some c' := by
  have : ∃ p ∈ c.threads, p.isDone = false := by
    apply Classical.byContradiction
    intro hn
    apply h
    intro p hp
    cases hd : p.isDone with
    | true => rfl
    | false => exact absurd ⟨p, hp, hd⟩ hn
  obtain ⟨p, hp, hd⟩ := this
  obtain ⟨i, hi⟩ := List.mem_iff_getElem?.mp hp
  obtain ⟨c', hc'⟩ := step_enabled c i p hi hd
  exact ⟨i, c', hc'⟩

/-- only existing threads are scheduled -/
theorem step_lt (c c' : Cfg α) (i : Nat) (h : c.step i = some c') :
    i < c.threads.length ∧ c'.threads.length = c.threads.length := by
  unfold step at h
  cases hth : c.threads[i]? with
  | none => rw [hth] at h; cases h
  | some p =>
    rw [hth] at h
    cases p with
    | ret r => cases h
    | rb t hh k =>
      cases h
      exact ⟨(List.getElem?_eq_some_iff.mp hth).1, List.length_set⟩

theorem exec_lt (sched : List Nat) : ∀ (c c' : Cfg α), c.exec sched = some c' →
    (∀ i ∈ sched, i < c.threads.length) ∧ c'.threads.length = c.threads.length := by
  induction sched with
  | nil => intro c c' h; cases h; exact ⟨fun i hi => (by cases hi), rfl⟩
  | cons i is ih =>
    intro c c' h
    simp only [exec] at h
    cases hs : c.step i with
    | none => rw [hs] at h; cases h
    | some c1 =>
      rw [hs] at h
      obtain ⟨h1, h2⟩ := step_lt c c1 i hs
      obtain ⟨h3, h4⟩ := ih c1 c' h
      refine ⟨?_, h4.trans h2⟩
      intro j hj
      rcases List.mem_cons.mp hj with rfl | hj
      · exact h1
      · rw [← h2]; exact h3 j hj

end Cfg

/-! ### the invariant of a concurrent execution -/

/-- the world satisfies the family invariant and thread `i` follows the canonical path of a program on
    some table of the family, with `cnt i` critical sections left, towards result `res i` -/
def Good {α : Type} (cls : List Client) (res : Nat → Res α) (cnt : Nat → Nat)
    (c : Cfg α) : Prop :=
  Inv cls c.world ∧ ∀ i p, c.threads[i]? = some p →
    ∃ o ∈ cls, Runs o.tb o.t p (res i) (cnt i)

section
variable {α : Type} (cls : List Client) (hok : ∀ c ∈ cls, c.OK) (hids : IdsDistinct cls)
  (res : Nat → Res α)
include hok hids

/-- one step: the critical section returns the true contents of a data block, the invariant is kept,
    the stepping thread has one critical section less to go — towards the same result — and all
    other threads are untouched -/
theorem step_ok (cnt : Nat → Nat) (c c' : Cfg α) (hg : Good cls res cnt c) (i : Nat)
    (hs : c.step i = some c') :
    ∃ n, cnt i = n + 1 ∧ Good cls res (fun j => if j = i then n else cnt j) c'
      ∧ Keeps c.world c'.world
      ∧ ∃ t h k, ∃ d : DBlock, c.threads[i]? = some (.rb t h k)
          ∧ (t.readBlock h c.world).2 = .ok d.blk.contents := by
  obtain ⟨hw, hth⟩ := hg
  unfold Cfg.step at hs
  cases hp : c.threads[i]? with
  | none => rw [hp] at hs; cases hs
  | some p =>
    rw [hp] at hs
    obtain ⟨o, hown, hr⟩ := hth i p hp
    cases p with
    | ret r => cases hs
    | rb t h k =>
      cases hs
      generalize hci : cnt i = ci at hr
      cases hr with
      | rb d hd _ _ n hr' =>
        obtain ⟨h1, h2, h3⟩ := readBlock_step cls hok hids hown hd c.world hw
        refine ⟨n, rfl, ⟨h2, ?_⟩, h3, _, _, _, d, rfl, h1⟩
        intro j q hq
        by_cases hj : j = i
        · subst hj
          have hlt : j < c.threads.length := (List.getElem?_eq_some_iff.mp hp).1
          rw [List.getElem?_set_self hlt] at hq
          cases hq
          rw [h1]
          simp only [if_true]
          exact ⟨o, hown, hr'⟩
        · rw [List.getElem?_set_ne (fun h => hj h.symm)] at hq
          simp only [hj, if_false]
          exact hth j q hq

/-- a whole schedule -/
theorem exec_ok (sched : List Nat) : ∀ (cnt : Nat → Nat) (c c' : Cfg α), Good cls res cnt c →
    c.exec sched = some c' →
    ∃ cnt', Good cls res cnt' c' ∧ (∀ j, cnt' j + sched.count j = cnt j)
      ∧ Keeps c.world c'.world := by
  induction sched with
  | nil =>
    intro cnt c c' hg h
    cases h
    exact ⟨cnt, hg, fun j => rfl, Keeps.refl _⟩
  | cons i is ih =>
    intro cnt c c' hg h
    simp only [Cfg.exec] at h
    cases hs : c.step i with
    | none => rw [hs] at h; cases h
    | some c1 =>
      rw [hs] at h
      obtain ⟨n, hn, hg1, hk1, _⟩ := step_ok cls hok hids res cnt c c1 hg i hs
      obtain ⟨cnt', hg', hc', hk'⟩ := ih _ c1 c' hg1 h
      refine ⟨cnt', hg', ?_, hk1.trans hk'⟩
      intro j
      have := hc' j
      rw [List.count_cons]
      by_cases hj : j = i
      · subst hj
        simp only [if_true] at this
        simp only [beq_self_eq_true, if_true]
        omega
      · simp only [hj, if_false] at this
        have : (i == j) = false := by simp; exact fun h => hj h.symm
        simp only [this, Bool.false_eq_true, if_false]
        omega

end

/-! ### sums over thread indices (for counting critical sections) -/

def sumTo (f : Nat → Nat) : Nat → Nat
  | 0 => 0
  | n + 1 => sumTo f n + f n

theorem sumTo_congr {f g : Nat → Nat} (n : Nat) (h : ∀ i, i < n → f i = g i) : sumTo f n = sumTo g n := by
  induction n with
  | zero => rfl
  | succ n ih =>
    simp only [sumTo]
    rw [ih (fun i hi => h i (by omega)), h n (by omega)]

theorem sumTo_bump {f g : Nat → Nat} (n i : Nat) (hi : i < n)
    (h : ∀ j, g j = f j + if j = i then 1 else 0) : sumTo g n = sumTo f n + 1 := by
  induction n with
  | zero => omega
  | succ n ih =>
    simp only [sumTo]
    by_cases hin : i = n
    · subst hin
      have e : sumTo g i = sumTo f i := sumTo_congr i (fun j hj => by rw [h j, if_neg (by omega)]; rfl)
      rw [e, h i, if_pos rfl]
      omega
    · rw [ih (by omega), h n, if_neg (fun h => hin h.symm)]
      omega

theorem sumTo_le {f g : Nat → Nat} (n : Nat) (h : ∀ i, i < n → f i ≤ g i) : sumTo f n ≤ sumTo g n := by
  induction n with
  | zero => exact Nat.le_refl _
  | succ n ih =>
    simp only [sumTo]
    have := ih (fun i hi => h i (by omega))
    have := h n (by omega)
    omega

/-- a schedule over threads `< n` is as long as the per-thread step counts add up to -/
theorem length_eq_sumTo_count (n : Nat) (sched : List Nat) (h : ∀ i ∈ sched, i < n) :
    sched.length = sumTo (fun i => sched.count i) n := by
  induction sched with
  | nil =>
    have : sumTo (fun i => ([] : List Nat).count i) n = sumTo (fun _ => 0) n :=
      sumTo_congr n (fun i _ => rfl)
    rw [this]
    clear this h
    induction n with
    | zero => rfl
    | succ n ih => simp only [sumTo]; omega
  | cons a l ih =>
    have ha : a < n := h a List.mem_cons_self
    have hl := ih (fun i hi => h i (List.mem_cons_of_mem _ hi))
    rw [sumTo_bump (f := fun i => l.count i) n a ha]
    · simp only [List.length_cons]; omega
    · intro j
      show List.count j (a :: l) = _
      rw [List.count_cons]
      by_cases hj : j = a
      · subst hj; simp
      · have : (a == j) = false := by simp; exact fun h => hj h.symm
        simp [this, hj]

/-! ### the theorem for arbitrary programs on canonical paths -/

section
variable {α : Type} (cls : List Client) (hok : ∀ c ∈ cls, c.OK) (hids : IdsDistinct cls)
include hok hids

/-- complete schedules exist (every thread is always enabled until it returns, and returns after
    finitely many critical sections) -/
theorem sched_exists (res : Nat → Res α) (m : Nat) : ∀ (cnt : Nat → Nat) (c : Cfg α),
    Good cls res cnt c → sumTo cnt c.threads.length = m →
    ∃ sched c', c.exec sched = some c' ∧ c'.done := by
  induction m with
  | zero =>
    intro cnt c hg hm
    by_cases hd : c.done
    · exact ⟨[], c, rfl, hd⟩
    · obtain ⟨i, c1, hs⟩ := c.progress hd
      obtain ⟨n, hn, hg1, _⟩ := step_ok cls hok hids res cnt c c1 hg i hs
      have hb := sumTo_bump (f := fun j => if j = i then n else cnt j) (g := cnt) c.threads.length i
        (Cfg.step_lt c c1 i hs).1 (by
          intro j
          by_cases hj : j = i
          · subst hj; simp [hn]
          · simp [hj])
      omega
  | succ m ih =>
    intro cnt c hg hm
    by_cases hd : c.done
    · exact ⟨[], c, rfl, hd⟩
    · obtain ⟨i, c1, hs⟩ := c.progress hd
      obtain ⟨n, hn, hg1, _⟩ := step_ok cls hok hids res cnt c c1 hg i hs
      have hb := sumTo_bump (f := fun j => if j = i then n else cnt j) (g := cnt) c.threads.length i
        (Cfg.step_lt c c1 i hs).1 (by
          intro j
          by_cases hj : j = i
          · subst hj; simp [hn]
          · simp [hj])
      obtain ⟨sched, c', hex, hd'⟩ := ih _ c1 hg1 (by rw [(Cfg.step_lt c c1 i hs).2]; omega)
      refine ⟨i :: sched, c', ?_, hd'⟩
      simp only [Cfg.exec, hs]
      exact hex

/-- what thread `i` returns when it runs alone from `w0` / how many critical sections it executes -/
def aloneRes (ths : List (Prog α)) (w0 : World) (i : Nat) : Res α :=
  match ths[i]? with
  | some p => (p.run w0).2
  | none => .diverge

def aloneCnt (ths : List (Prog α)) (w0 : World) (i : Nat) : Nat :=
  match ths[i]? with
  | some p => p.steps w0
  | none => 0

theorem good_init (ths : List (Prog α))
    (hth : ∀ (i : Nat) (p : Prog α), ths[i]? = some p → ∃ o ∈ cls, ∃ r n, Runs o.tb o.t p r n)
    (w0 : World) (hw0 : Inv cls w0) :
    Good cls (aloneRes ths w0) (aloneCnt ths w0) ⟨w0, ths⟩ := by
  refine ⟨hw0, ?_⟩
  intro i p hp
  obtain ⟨o, hown, r, n, hr⟩ := hth i p hp
  obtain ⟨h1, h2, _⟩ := runs_sound cls hok hids hown hr w0 hw0
  refine ⟨o, hown, ?_⟩
  simp only [aloneRes, aloneCnt, hp, h1, h2]
  exact hr

/-- MAIN LEMMA. Threads `ths` (any programs, each on the canonical path of some client's table) start
    in a world satisfying the family invariant. Along EVERY schedule:
    the invariant holds again; files, capacity, id counter are unchanged and the capacity bound is
    kept; thread `i` has executed at most as many critical sections as when run alone; and a thread
    that has returned has returned EXACTLY what it returns when run alone from the initial world,
    after exactly as many critical sections. -/
theorem exec_sound (ths : List (Prog α))
    (hth : ∀ (i : Nat) (p : Prog α), ths[i]? = some p → ∃ o ∈ cls, ∃ r n, Runs o.tb o.t p r n)
    (w0 : World) (hw0 : Inv cls w0) (sched : List Nat) (c' : Cfg α)
    (hex : Cfg.exec ⟨w0, ths⟩ sched = some c') :
    Inv cls c'.world ∧ Keeps w0 c'.world ∧ c'.threads.length = ths.length
      ∧ (∀ i ∈ sched, i < ths.length)
      ∧ ∀ i p, ths[i]? = some p →
          sched.count i ≤ p.steps w0
          ∧ ∃ p', c'.threads[i]? = some p'
              ∧ (p'.isDone = true → p' = .ret (p.run w0).2 ∧ sched.count i = p.steps w0) := by
  have hg := good_init cls hok hids ths hth w0 hw0
  obtain ⟨cnt', hg', hcnt, hk⟩ := exec_ok cls hok hids _ sched _ _ c' hg hex
  obtain ⟨hlt, hlen⟩ := Cfg.exec_lt sched _ c' hex
  refine ⟨hg'.1, hk, hlen, hlt, ?_⟩
  intro i p hp
  have hc := hcnt i
  simp only [aloneCnt, hp] at hc
  refine ⟨by omega, ?_⟩
  have hi : i < c'.threads.length := by
    rw [hlen]; exact (List.getElem?_eq_some_iff.mp hp).1
  refine ⟨c'.threads[i], List.getElem?_eq_getElem hi, ?_⟩
  intro hd
  obtain ⟨_, _, hr⟩ := hg'.2 i _ (List.getElem?_eq_getElem hi)
  generalize c'.threads[i] = p' at hd hr
  cases p' with
  | rb t h k => cases hd
  | ret r =>
    generalize hci : cnt' i = ci at hr
    cases hr
    refine ⟨?_, by omega⟩
    simp only [aloneRes, hp]

/-- … and every critical section executed along the way returned `ok` with the true contents of a
    data block (no error, no panic under the lock): for every split of a schedule, the step after the
    prefix -/
theorem exec_step_ok (ths : List (Prog α))
    (hth : ∀ (i : Nat) (p : Prog α), ths[i]? = some p → ∃ o ∈ cls, ∃ r n, Runs o.tb o.t p r n)
    (w0 : World) (hw0 : Inv cls w0) (pre : List Nat) (i : Nat) (c1 c2 : Cfg α)
    (hpre : Cfg.exec ⟨w0, ths⟩ pre = some c1) (hs : c1.step i = some c2) :
    ∃ t h k, ∃ d : DBlock, c1.threads[i]? = some (.rb t h k)
      ∧ (t.readBlock h c1.world).2 = .ok d.blk.contents := by
  have hg := good_init cls hok hids ths hth w0 hw0
  obtain ⟨cnt', hg', _, _⟩ := exec_ok cls hok hids _ pre _ _ c1 hg hpre
  obtain ⟨n, _, _, _, h⟩ := step_ok cls hok hids _ cnt' c1 c2 hg' i hs
  exact h

/-- every schedule can be continued to a complete one (no deadlock, no livelock) -/
theorem sched_extends (ths : List (Prog α))
    (hth : ∀ (i : Nat) (p : Prog α), ths[i]? = some p → ∃ o ∈ cls, ∃ r n, Runs o.tb o.t p r n)
    (w0 : World) (hw0 : Inv cls w0) (sched : List Nat) (c1 : Cfg α)
    (hex : Cfg.exec ⟨w0, ths⟩ sched = some c1) :
    ∃ rest c', Cfg.exec ⟨w0, ths⟩ (sched ++ rest) = some c' ∧ c'.done := by
  have hg := good_init cls hok hids ths hth w0 hw0
  obtain ⟨cnt', hg', _, _⟩ := exec_ok cls hok hids _ sched _ _ c1 hg hex
  obtain ⟨rest, c', h1, h2⟩ := sched_exists cls hok hids _ _ _ _ hg' rfl
  refine ⟨rest, c', ?_, h2⟩
  rw [Cfg.exec_append, hex]
  exact h1

/-- the length of a schedule: at most the number of critical sections the threads execute when each
    runs alone; exactly that number when the schedule is complete -/
theorem exec_length (ths : List (Prog α))
    (hth : ∀ (i : Nat) (p : Prog α), ths[i]? = some p → ∃ o ∈ cls, ∃ r n, Runs o.tb o.t p r n)
    (w0 : World) (hw0 : Inv cls w0) (sched : List Nat) (c' : Cfg α)
    (hex : Cfg.exec ⟨w0, ths⟩ sched = some c') :
    sched.length ≤ sumTo (aloneCnt ths w0) ths.length
      ∧ (c'.done → sched.length = sumTo (aloneCnt ths w0) ths.length) := by
  obtain ⟨_, _, hlen, hlt, hall⟩ := exec_sound cls hok hids ths hth w0 hw0 sched c' hex
  rw [length_eq_sumTo_count ths.length sched hlt]
  constructor
  · apply sumTo_le
    intro i hi
    have hp : ths[i]? = some ths[i] := List.getElem?_eq_getElem hi
    have := (hall i _ hp).1
    simp only [aloneCnt, hp]
    exact this
  · intro hd
    apply sumTo_congr
    intro i hi
    have hp : ths[i]? = some ths[i] := List.getElem?_eq_getElem hi
    obtain ⟨_, p', hp', hfin⟩ := hall i _ hp
    have := (hfin (hd p' (List.mem_of_getElem? hp'))).2
    simp only [aloneCnt, hp]
    exact this

/-- complete schedules exist from the initial configuration -/
theorem complete_sched_exists (ths : List (Prog α))
    (hth : ∀ (i : Nat) (p : Prog α), ths[i]? = some p → ∃ o ∈ cls, ∃ r n, Runs o.tb o.t p r n)
    (w0 : World) (hw0 : Inv cls w0) :
    ∃ sched c', Cfg.exec ⟨w0, ths⟩ sched = some c' ∧ c'.done :=
  sched_exists cls hok hids _ _ _ _ (good_init cls hok hids ths hth w0 hw0) rfl

end

end Sst.Fine

#print axioms Sst.Fine.readBlock_step
#print axioms Sst.Fine.exec_sound
#print axioms Sst.Fine.exec_step_ok
#print axioms Sst.Fine.complete_sched_exists
#print axioms Sst.Fine.sched_extends
#print axioms Sst.Fine.exec_length
#print axioms Sst.Fine.length_eq_sumTo_count
