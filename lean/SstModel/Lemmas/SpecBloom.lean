import SstModel.Lemmas.SpecBlockComplete
import SstModel.Lemmas.Bloom
import SstModel.Props.ConstsTie
/-
  The independent (Spec) bloom hash / bloom filter / filter block reader against the model's.

  Technical note: the kernel must never be asked to decide a definitional equality between two
  *different* terms containing `x * 3332679571` (`x` not a literal): unfolding `Nat.mul` on the literal
  recurses 3·10^9 deep. Hence the unfolding equation of `Bloom.hashWords` is derived in small steps
  (`SB.hashWords_cons`), and the multiplier is generalised to a variable wherever possible.
-/
namespace Sst
open Spec.Format

namespace SB

theorem u32_eq (n : Nat) : Spec.Format.u32 n = Bloom.u32 n := rfl
theorem hx (a b : Nat) : a ^^^ b = Nat.xor a b := rfl
theorem xor_shr (h s : Nat) : h ^^^ (h >>> s) = Nat.xor h (h / 2 ^ s) := by
  rw [Nat.shiftRight_eq_div_pow]; rfl

theorem word_eq (a b c e : UInt8) :
    a.toNat ||| b.toNat <<< 8 ||| c.toNat <<< 16 ||| e.toNat <<< 24 = decodeFixed32 [a, b, c, e] :=
  ((specU32le_eq [a, b, c, e] _ rfl).2).symm

/-! #### the unfolding equation of `Bloom.hashWords`, in kernel-friendly steps -/

abbrev HM : Bytes → Type := fun _ => Nat → Nat

theorem s1 (l : Bytes) (h : Nat) :
    Bloom.hashWords l h = List.brecOn (motive := HM) l Bloom.hashWords._f h := by
  delta Bloom.hashWords; rfl

theorem s2 (a : UInt8) (l : Bytes) (F : (t : Bytes) → List.below (motive := HM) t → HM t) :
    List.brecOn (motive := HM) (a :: l) F = F (a :: l) ⟨List.brecOn l F, (List.brecOn.go l F).2⟩ := rfl

theorem s3 (a b c d : UInt8) (rest : Bytes) (h : Nat)
    (x : List.below (motive := HM) (a :: b :: c :: d :: rest)) :
    Bloom.hashWords._f (a :: b :: c :: d :: rest) x h =
      x.2.2.2.1 (Nat.xor (Bloom.u32 (Bloom.u32 (h + decodeFixed32 [a,b,c,d]) * Consts.bloomM))
        (Bloom.u32 (Bloom.u32 (h + decodeFixed32 [a,b,c,d]) * Consts.bloomM) / 2 ^ Consts.bloomMidShift)) := rfl

theorem s4 (a b c d : UInt8) (rest : Bytes) (F : (t : Bytes) → List.below (motive := HM) t → HM t) :
    (⟨List.brecOn (b :: c :: d :: rest) F, (List.brecOn.go (b :: c :: d :: rest) F).2⟩ :
      List.below (motive := HM) (a :: b :: c :: d :: rest)).2.2.2.1 = List.brecOn rest F := rfl

theorem hashWords_cons (a b c d : UInt8) (rest : Bytes) (h : Nat) :
    Bloom.hashWords (a :: b :: c :: d :: rest) h = Bloom.hashWords rest
      (Nat.xor (Bloom.u32 (Bloom.u32 (h + decodeFixed32 [a,b,c,d]) * Consts.bloomM))
        (Bloom.u32 (Bloom.u32 (h + decodeFixed32 [a,b,c,d]) * Consts.bloomM) / 2 ^ Consts.bloomMidShift)) :=
  (s1 _ _).trans ((congrFun (s2 a _ _) h).trans ((s3 a b c d rest h _).trans
    ((congrFun (s4 a b c d rest _) _).trans (s1 _ _).symm)))

theorem words_eq (m : Nat) (hm : m = Consts.bloomM) : ∀ (fuel : Nat) (d : Bytes) (h : Nat), d.length ≤ fuel →
    hash.words m d h fuel = (Bloom.hashWords d h, Bloom.hashTail d) := by
  intro fuel
  induction fuel with
  | zero =>
    intro d h hl
    have : d = [] := List.eq_nil_of_length_eq_zero (by omega)
    subst this
    rfl
  | succ fuel ih =>
    intro d h hl
    match d, hl with
    | [], _ => rfl
    | [_], _ => rfl
    | [_, _], _ => rfl
    | [_, _, _], _ => rfl
    | a :: b :: c :: e :: rest, hl =>
      rw [hash.words, hashWords_cons, Bloom.hashTail]
      rw [ih rest _ (by simp only [List.length_cons] at hl; omega), word_eq, xor_shr, u32_eq, u32_eq, hm]
      rfl

theorem hashTail_length : ∀ (n : Nat) (d : Bytes), d.length ≤ n → (Bloom.hashTail d).length < 4 := by
  intro n
  induction n with
  | zero =>
    intro d h
    have : d = [] := List.eq_nil_of_length_eq_zero (by omega)
    subst this; decide
  | succ n ih =>
    intro d h
    match d, h with
    | [], _ => decide
    | [_], _ => simp [Bloom.hashTail]
    | [_, _], _ => simp [Bloom.hashTail]
    | [_, _, _], _ => simp [Bloom.hashTail]
    | a :: b :: c :: e :: rest, h =>
      rw [Bloom.hashTail]
      exact ih rest (by simp only [List.length_cons] at h; omega)

end SB

theorem specBloomHash_eq (k : Bytes) : Spec.Format.bloomHash k = Bloom.bloomHash k := by
  obtain ⟨hseed, hm, hr, _⟩ := ConstsTie.bloom_consts
  unfold Spec.Format.bloomHash Spec.Format.hash Bloom.bloomHash
  simp only []
  rw [SB.words_eq _ hm.symm k.length k _ (Nat.le_refl _)]
  simp only []
  rw [hr, ← hm, ← hseed, SB.u32_eq, SB.hx]
  have hl := SB.hashTail_length k.length k (Nat.le_refl _)
  generalize Bloom.hashWords k _ = h0
  generalize Consts.bloomM = m
  generalize Bloom.hashTail k = tl at hl ⊢
  match tl, hl with
  | [], _ => rfl
  | [x], _ =>
    have := x.toNat_lt
    have e : Bloom.addTail [x] 0 h0 = Spec.Format.u32 (h0 + x.toNat) := by
      simp only [Bloom.addTail, Spec.Format.u32, Bloom.u32]; omega
    simp only [List.length_cons, List.length_nil, e, SB.xor_shr, SB.u32_eq]
    rw [if_pos (by omega)]
  | [x, y], _ =>
    have := x.toNat_lt
    have := y.toNat_lt
    have e : Bloom.addTail [x, y] 0 h0 = Spec.Format.u32 (Spec.Format.u32 (h0 + y.toNat <<< 8) + x.toNat) := by
      simp only [Bloom.addTail, Spec.Format.u32, Bloom.u32, Nat.shiftLeft_eq]; omega
    simp only [List.length_cons, List.length_nil, e, SB.xor_shr, SB.u32_eq]
    rw [if_pos (by omega)]
  | [x, y, z], _ =>
    have := x.toNat_lt
    have := y.toNat_lt
    have := z.toNat_lt
    have e : Bloom.addTail [x, y, z] 0 h0
        = Spec.Format.u32 (Spec.Format.u32 (Spec.Format.u32 (h0 + z.toNat <<< 16) + y.toNat <<< 8) + x.toNat) := by
      simp only [Bloom.addTail, Spec.Format.u32, Bloom.u32, Nat.shiftLeft_eq]; omega
    simp only [List.length_cons, List.length_nil, e, SB.xor_shr, SB.u32_eq]
    rw [if_pos (by omega)]

namespace SB

theorem getD_take (f : Bytes) (n i : Nat) (h : i < n) : (f.take n).getD i 0 = f.getD i 0 := by
  simp only [List.getD_eq_getElem?_getD, List.getElem?_take, if_pos h]

theorem probe_eq (filter : Bytes) (n d : Nat) (hn : 0 < n) : ∀ (j h : Nat),
    bloomMayMatch.probe filter (n * 8) d h j = Bloom.checkProbes (n * 8) d (filter.take n) j h := by
  intro j
  induction j with
  | zero => intro h; rfl
  | succ j ih =>
    intro h
    rw [bloomMayMatch.probe, Bloom.checkProbes, ih]
    have hlt : h % (n * 8) / 8 < n := by
      have := Nat.mod_lt h (show 0 < n * 8 by omega)
      omega
    simp only [Bloom.testBit, getD_take _ _ _ hlt, u32_eq]
    have e : (1 : Nat) <<< (h % (n * 8) % 8) = 2 ^ (h % (n * 8) % 8) := by
      rw [Nat.shiftLeft_eq, Nat.one_mul]
    rw [e]
    by_cases hz : (filter.getD (h % (n * 8) / 8) 0).toNat &&& 2 ^ (h % (n * 8) % 8) = 0
    · have hz' : Nat.land (filter.getD (h % (n * 8) / 8) 0).toNat (2 ^ (h % (n * 8) % 8)) = 0 := hz
      simp
    · have hz' : ¬ Nat.land (filter.getD (h % (n * 8) / 8) 0).toNat (2 ^ (h % (n * 8) % 8)) = 0 := hz
      simp

end SB

/-- The two bloom tests agree on every filter of at most 2^61 bytes: since fix D19 the crate (hence the
    model) computes the number of bits in 64 bits, like LevelDB's `size_t`; the Spec does not wrap at
    all.  (Before the fix -- bit count in `u32` -- they agreed only up to 2^29 bytes.) -/
theorem specBloomMayMatch_eq (k f : Bytes) (hf : (f.length - 1) * 8 < 2 ^ 64) :
    Spec.Format.bloomMayMatch k f = Bloom.keyMayMatch k f := by
  unfold Spec.Format.bloomMayMatch Bloom.keyMayMatch
  by_cases h2 : f.length < 2
  · rw [if_pos h2, if_pos h2]
  rw [if_neg h2, if_neg h2]
  simp only []
  by_cases hk : (f.getD (f.length - 1) 0).toNat > 30
  · rw [if_pos hk, if_pos hk]
  rw [if_neg hk, if_neg hk]
  have hb : ((f.length - 1) * 8) % 2 ^ Consts.bloomBitsWidth = (f.length - 1) * 8 :=
    Nat.mod_eq_of_lt (by rw [Bloom.two_pow_bitsWidth]; omega)
  rw [hb, specBloomHash_eq, SB.probe_eq f (f.length - 1) _ (by omega)]
  congr 1
  unfold Bloom.delta
  rw [Nat.shiftRight_eq_div_pow, Nat.shiftLeft_eq, SB.u32_eq]
  rfl

namespace SB

/-! #### the size proviso of `specBloomMayMatch_eq` is necessary -/

theorem bloomHash_nil : Bloom.bloomHash [] = 3164544308 := by decide

/-- a filter of `n + 2` bytes: first byte all ones, the rest zero, one probe -/
def bigFilter (n : Nat) : Bytes := [0xff] ++ List.replicate n 0 ++ [1]

theorem bigFilter_length (n : Nat) : (bigFilter n).length = n + 2 := by
  simp [bigFilter]

theorem bigFilter_last (n : Nat) : (bigFilter n).getD (n + 1) 0 = 1 := by
  unfold bigFilter
  rw [List.getD_eq_getElem?_getD, List.getElem?_append_right (by simp)]
  simp

theorem bigFilter_first (n : Nat) : ((bigFilter n).take (n + 1)).getD 0 0 = 0xff := by
  unfold bigFilter
  rw [List.append_assoc]
  rfl

theorem bigFilter_mid (n i : Nat) (h1 : 1 ≤ i) (h2 : i ≤ n) : (bigFilter n).getD i 0 = 0 := by
  unfold bigFilter
  rw [List.getD_eq_getElem?_getD, List.append_assoc, List.getElem?_append_right (by simpa using h1),
    List.getElem?_append_left (by simp; omega)]
  simp only [List.getElem?_replicate, List.length_cons, List.length_nil]
  split <;> rfl

/-- beyond 2^61 filter bytes (not representable on any machine) the crate's (and the model's) 64-bit
    bit count wraps whereas the Spec's unbounded one does not: the model answers "may match", the Spec
    "definitely not".  (Before fix D19 the same happened at 2^29 + 2 bytes.) -/
theorem bloom_u64_wrap_cex (n : Nat) (hn : n = 2 ^ 61) :
    Bloom.keyMayMatch [] (bigFilter n) = true ∧ Spec.Format.bloomMayMatch [] (bigFilter n) = false := by
  have hl := bigFilter_length n
  constructor
  · unfold Bloom.keyMayMatch
    rw [if_neg (by omega)]
    simp only []
    have e1 : (bigFilter n).length - 1 = n + 1 := by omega
    rw [e1, bigFilter_last, if_neg (by decide)]
    have e2 : ((n + 1) * 8) % 2 ^ Consts.bloomBitsWidth = 8 := by rw [Bloom.two_pow_bitsWidth]; omega
    rw [e2, bloomHash_nil]
    show Bloom.checkProbes 8 _ _ 1 3164544308 = true
    rw [Bloom.checkProbes]
    have : Bloom.testBit ((bigFilter n).take (n + 1)) (3164544308 % 8) = true := by
      unfold Bloom.testBit
      have e3 : 3164544308 % 8 / 8 = 0 := by decide
      rw [e3, bigFilter_first]
      decide
    rw [this]
    rfl
  · unfold Spec.Format.bloomMayMatch
    rw [if_neg (by omega)]
    simp only []
    have e1 : (bigFilter n).length - 1 = n + 1 := by omega
    rw [e1, bigFilter_last, if_neg (by decide), specBloomHash_eq, bloomHash_nil]
    show bloomMayMatch.probe _ _ _ 3164544308 1 = false
    rw [bloomMayMatch.probe]
    have e2 : 3164544308 % ((n + 1) * 8) = 3164544308 := Nat.mod_eq_of_lt (by omega)
    rw [e2, bigFilter_mid n _ (by decide) (by omega)]
    rfl
end SB

/-- without the size proviso `specBloomMayMatch_eq` is false (filter of 2^61 + 2 bytes) -/
theorem specBloomMayMatch_eq_false :
    ¬ ∀ k f : Bytes, Spec.Format.bloomMayMatch k f = Bloom.keyMayMatch k f := by
  intro h
  obtain ⟨h1, h2⟩ := SB.bloom_u64_wrap_cex (2 ^ 61) rfl
  rw [h, h1] at h2
  cases h2

/-- the Spec's filter-block reader answers `true` whenever the model reader (bloom policy, any bits)
    answers `.ok true`; for filter blocks shorter than 4 GiB (the format's offsets are 32-bit; the
    bound was 2^29 before fix D19, see `specBloomMayMatch_eq`) -/
theorem specFilterBlock_of_model (fb : Bytes) (r : FilterBlockReader) (hnew : FilterBlockReader.new fb = .ok r)
    (hwf : FilterBlockReader.isWellFormed fb = true) (hlen : fb.length < 2 ^ 32) (b : Nat) (off : Nat) (k : Bytes)
    (h : r.keyMayMatch (Bloom.policy b) off k = .ok true) : Spec.Format.filterBlockMayMatch fb off k = true := by
  have _ := hwf
  unfold FilterBlockReader.new at hnew
  by_cases h5 : fb.length ≥ 5
  case neg => simp [assert, h5] at hnew
  simp only [assert, decide_eq_true h5, if_true, Res.bind_ok, Res.pure_eq, Res.ok.injEq] at hnew
  subst hnew
  unfold Spec.Format.filterBlockMayMatch
  rw [if_neg (by omega)]
  simp only []
  rw [SBC.u32le_of_length _ (by rw [List.length_take, List.length_drop]; omega)]
  simp only []
  generalize hA : decodeFixed32 ((fb.drop (fb.length - 5)).take 4) = A at h ⊢
  by_cases hA5 : A > fb.length - 5
  · rw [if_pos hA5]
  rw [if_neg hA5]
  generalize hL : (fb.getD (fb.length - 1) 0).toNat = lg at h ⊢
  rw [Nat.shiftRight_eq_div_pow]
  by_cases hix : off / 2 ^ lg < (fb.length - 5 - A) / 4
  case neg => rw [if_neg hix]
  rw [if_pos hix]
  have hl1 : ((fb.drop (A + 4 * (off / 2 ^ lg))).take 4).length = 4 := by
    rw [List.length_take, List.length_drop]; omega
  have hl2 : ((fb.drop (A + 4 * (off / 2 ^ lg) + 4)).take 4).length = 4 := by
    rw [List.length_take, List.length_drop]; omega
  rw [SBC.u32le_of_length _ hl1, SBC.u32le_of_length _ hl2]
  simp only []
  generalize hS : decodeFixed32 ((fb.drop (A + 4 * (off / 2 ^ lg))).take 4) = S
  generalize hE : decodeFixed32 ((fb.drop (A + 4 * (off / 2 ^ lg) + 4)).take 4) = E
  by_cases hc : S < E ∧ E ≤ A
  case neg => rw [if_neg hc]
  rw [if_pos hc]
  -- the model
  unfold FilterBlockReader.keyMayMatch at h
  by_cases h64 : lg ≥ 64
  · rw [if_pos h64] at h; cases h
  rw [if_neg h64] at h
  have hnum : FilterBlockReader.num ⟨fb, A, lg⟩ = .ok ((fb.length - 5 - A) / 4) := by
    unfold FilterBlockReader.num
    rw [if_neg (by show ¬ fb.length < A + 5; omega)]
    congr 1
    show (fb.length - A - 5) / 4 % 2 ^ 32 = _
    rw [Nat.mod_eq_of_lt (by omega)]
    congr 1; omega
  have hfi : FilterBlockBuilder.filterIndex off lg = off / 2 ^ lg := by
    unfold FilterBlockBuilder.filterIndex
    exact Nat.mod_eq_of_lt (by omega)
  have hoff1 : FilterBlockReader.offsetOf ⟨fb, A, lg⟩ (off / 2 ^ lg) = .ok S := by
    unfold FilterBlockReader.offsetOf fixed32At slice?
    simp only []
    rw [if_pos ⟨by omega, by omega⟩]
    have e : A + 4 * (off / 2 ^ lg) + 4 - (A + 4 * (off / 2 ^ lg)) = 4 := by omega
    rw [e, Option.map_some, hS]
  have hoff2 : FilterBlockReader.offsetOf ⟨fb, A, lg⟩ (off / 2 ^ lg + 1) = .ok E := by
    unfold FilterBlockReader.offsetOf fixed32At slice?
    simp only []
    rw [if_pos ⟨by omega, by omega⟩]
    have e : A + 4 * (off / 2 ^ lg + 1) + 4 - (A + 4 * (off / 2 ^ lg + 1)) = 4 := by omega
    have e2 : A + 4 * (off / 2 ^ lg + 1) = A + 4 * (off / 2 ^ lg) + 4 := by omega
    rw [e, e2, Option.map_some, hE]
  simp only [hfi, hnum, Res.bind_ok, hoff1, hoff2] at h
  rw [if_neg (by omega), if_neg (by omega)] at h
  unfold slice? at h
  rw [if_pos ⟨by omega, by omega⟩] at h
  simp only [Res.pure_eq, Res.ok.injEq] at h
  rw [specBloomMayMatch_eq]
  · exact h
  · rw [List.length_take, List.length_drop]
    omega

end Sst

#print axioms Sst.specBloomHash_eq
#print axioms Sst.specBloomMayMatch_eq
#print axioms Sst.specFilterBlock_of_model
#print axioms Sst.specBloomMayMatch_eq_false
