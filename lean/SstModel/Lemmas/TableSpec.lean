import SstModel.Model.Table
import SstModel.Lemmas.BlockSpec
import SstModel.Lemmas.BlockVerify
import SstModel.Lemmas.CmpLaws
/-
  Table-level abstraction used by the reader proofs: what it means for an image to be a well-formed
  table *as a fault-free reader sees it* (`TableWF`), phrased with the pure block-read function
  `blockAt`. Bridges from the writer (`TableBuilder` output) and from the independent Spec decoder
  (`Spec.Format.decodeTable`) to this predicate are separate lemmas.
-/
namespace Sst

/-- the buffer a fault-free `read_bytes(off, len)` returns: the file slice, zero padded -/
def cleanBuf (img : Bytes) (off len : Nat) : Bytes :=
  (img.drop off).take len ++ List.replicate (len - min len (img.length - off)) 0

/-- contents of the physical block at `h`, as a fault-free reader obtains them: checksum verified and
    decompressed (`read_block_contents`) -/
def blockAt (img : Bytes) (h : BlockHandle) : Res Bytes :=
  verifyBlock (cleanBuf img h.offset (h.size + Consts.tableBlockCksumLen + Consts.tableBlockCompressLen)) h.size

/-- the allocations a fault-free `read_block_contents` of the block at `h` makes, most recent first:
    the decompression buffer (only for a block stored as snappy whose declared length passes the guard
    of fix D20), after the `read_bytes` buffer of the physical size -/
def blockAllocs (img : Bytes) (h : BlockHandle) : List Nat :=
  verifyAllocs (cleanBuf img h.offset (h.size + Consts.tableBlockCksumLen + Consts.tableBlockCompressLen)) h.size
    ++ [h.size + Consts.tableBlockCksumLen + Consts.tableBlockCompressLen]

/-- … and validated as a table block (`read_table_block`) -/
def tableBlockAt (img : Bytes) (h : BlockHandle) : Res Bytes :=
  match blockAt img h with
  | .ok c => if Block.isWellFormed c then .ok c else .err .corruption
  | r => r

/-- `check_block_bounds` as a proposition -/
def InBounds (h : BlockHandle) (fileSize : Nat) : Prop :=
  h.offset + h.size + Consts.tableBlockCompressLen + Consts.tableBlockCksumLen < 2 ^ 64
    ∧ h.offset + h.size + Consts.tableBlockCompressLen + Consts.tableBlockCksumLen ≤ fileSize

/-- a parsed block: contents plus its entry table and restart array -/
structure PBlock where
  contents : Bytes
  es : List EInfo
  rs : List Nat

def PBlock.kvs (p : PBlock) : List Spec.Entry := kvOf p.contents p.es
def PBlock.WF (p : PBlock) : Prop := BlockWF p.contents p.es p.rs ∧ p.contents.length < 2 ^ 64

/-- one data block of a table together with its index entry -/
structure DBlock where
  /-- index key (separator) -/
  sep : Bytes
  /-- index value: the encoded handle -/
  hval : Bytes
  handle : BlockHandle
  blk : PBlock

def DBlock.keys (d : DBlock) : List Bytes := d.blk.es.map (·.key)

/-- all witnesses of a table image -/
structure TableImg where
  img : Bytes
  metaHandle : BlockHandle
  indexHandle : BlockHandle
  index : PBlock
  metaix : PBlock
  blocks : List DBlock

namespace TableImg

/-- all entries of the table, in file order -/
def entries (t : TableImg) : List Spec.Entry := (t.blocks.map (·.blk.kvs)).flatten

def allKeys (t : TableImg) : List Bytes := (t.blocks.map (·.keys)).flatten

/-- well-formed table image under comparator `cmp` (reader's view) -/
structure WF (cmp : Cmp) (t : TableImg) : Prop where
  size : 48 ≤ t.img.length ∧ t.img.length < 2 ^ 64
  footer : Footer.tryDecode (t.img.drop (t.img.length - 48)) = some ⟨t.metaHandle, t.indexHandle⟩
  metaBounds : InBounds t.metaHandle t.img.length
  indexBounds : InBounds t.indexHandle t.img.length
  indexRead : tableBlockAt t.img t.indexHandle = .ok t.index.contents
  indexWF : t.index.WF
  indexKVs : t.index.kvs = t.blocks.map (fun d => (d.sep, d.hval))
  metaRead : tableBlockAt t.img t.metaHandle = .ok t.metaix.contents
  metaWF : t.metaix.WF
  metaSorted : KeysSorted cmp (t.metaix.es.map (·.key))
  hval : ∀ d ∈ t.blocks, ∃ n, BlockHandle.tryDecode d.hval = some (d.handle, n)
  dataBounds : ∀ d ∈ t.blocks, InBounds d.handle t.img.length
  dataRead : ∀ d ∈ t.blocks, tableBlockAt t.img d.handle = .ok d.blk.contents
  dataWF : ∀ d ∈ t.blocks, d.blk.WF
  dataNonempty : ∀ d ∈ t.blocks, d.blk.es ≠ []
  /-- data blocks are distinct regions of the file: no two index entries share an offset -/
  offsetsDistinct : ∀ (i j : Nat) (di dj : DBlock), t.blocks[i]? = some di → t.blocks[j]? = some dj →
            di.handle.offset = dj.handle.offset → i = j
  /-- keys strictly increase across the whole table -/
  sorted : KeysSorted cmp t.allKeys
  /-- every key of a block is ≤ the block's index key … -/
  sepGe : ∀ d ∈ t.blocks, ∀ k ∈ d.keys, cmp.cmp k d.sep ≠ .gt
  /-- … which is below every key of every later block -/
  sepLt : ∀ (i j : Nat) (di dj : DBlock), i < j → t.blocks[i]? = some di → t.blocks[j]? = some dj →
            ∀ k ∈ dj.keys, cmp.cmp di.sep k = .lt

end TableImg

/-- the filter part of a table image as reader policy `p` sees it (`Table::read_filter_block`):
    `none` when the metaindex has no entry under this policy's name (or an empty handle), otherwise
    the filter block's contents -/
inductive FilterView (p : FilterPolicy) (t : TableImg) : Option Bytes → Prop where
  | absent (h : ∀ e ∈ t.metaix.kvs, e.1 ≠ Table.filterName p) : FilterView p t none
  | empty (v : Bytes) (fh : BlockHandle) (n : Nat) (h : (Table.filterName p, v) ∈ t.metaix.kvs)
      (hd : BlockHandle.tryDecode v = some (fh, n)) (hz : fh.size = 0) : FilterView p t none
  | present (v : Bytes) (fh : BlockHandle) (n : Nat) (fb : Bytes)
      (h : (Table.filterName p, v) ∈ t.metaix.kvs)
      (hd : BlockHandle.tryDecode v = some (fh, n)) (hz : fh.size > 0)
      (hb : InBounds fh t.img.length) (hr : blockAt t.img fh = .ok fb)
      (hw : FilterBlockReader.isWellFormed fb = true) : FilterView p t (some fb)

/-- the reader's filter never denies a stored key of the block it is consulted for (`FilterCompat`) -/
def FilterSound (p : FilterPolicy) (t : TableImg) (fb : Bytes) : Prop :=
  ∀ d ∈ t.blocks, ∀ k ∈ d.keys, ∀ r, FilterBlockReader.new fb = .ok r →
    r.keyMayMatch p d.handle.offset k = .ok true

/-- a world in which file `file` holds `img` and the source never fails -/
structure CleanWorld (w : World) (file : Nat) (img : Bytes) : Prop where
  file : w.files.getD file [] = img
  sched : w.sched = []

/-- the cache holds, under this table's id, only true contents of this table's data blocks -/
def Coherent (w : World) (cacheId : Nat) (t : TableImg) : Prop :=
  ∀ off c, ((cacheId, off), c) ∈ w.cache.entries →
    ∃ d ∈ t.blocks, d.handle.offset % 2 ^ 64 = off ∧ d.blk.contents = c

end Sst
