import SstModel.Lemmas.BlockTotal
import SstModel.Lemmas.BlockValidate
import SstModel.Lemmas.TableGet
import SstModel.Lemmas.TableOpen
import SstModel.Lemmas.IterRun
/-
  C08 on the model: no reader operation returns `panic` or `diverge`, for ANY world (any file
  contents, any fault schedule, any cache whose blocks passed validation when they were inserted).
-/
namespace Sst

def NoCrash {α} (r : Res α) : Prop := (∃ a, r = .ok a) ∨ (∃ c, r = .err c)

/-- every cached block passed validation when it was inserted -/
def CacheValid (w : World) : Prop :=
  ∀ k c, (k, c) ∈ w.cache.entries → Block.isWellFormed c = true ∧ c.length < 2^64

/-- a table handle as `Table::new` can return it for ANY file: validated index block, validated
    filter block if any -/
structure HandleOK (tb : Table) : Prop where
  index : Block.isWellFormed tb.indexBlock = true ∧ tb.indexBlock.length < 2^64
  filters : ∀ r, tb.filters = some r →
    ∃ fb, FilterBlockReader.isWellFormed fb = true ∧ FilterBlockReader.new fb = .ok r

namespace TT

/-! ### a small program logic for `M`: partial (`Safe`: `ok` or `err`) and total (`Sure`: `ok`) -/

/-- from a world satisfying `P`, `m` ends with `ok a` where `Q a`, or with `err`; `P` holds after -/
def Safe {α} (P : World → Prop) (m : M α) (Q : α → Prop) : Prop :=
  ∀ w, P w → P (m w).1 ∧ ((∃ a, (m w).2 = .ok a ∧ Q a) ∨ ∃ c, (m w).2 = .err c)

/-- from a world satisfying `P`, `m` ends with `ok a` where `Q a`; `P` holds after -/
def Sure {α} (P : World → Prop) (m : M α) (Q : α → Prop) : Prop :=
  ∀ w, P w → P (m w).1 ∧ ∃ a, (m w).2 = .ok a ∧ Q a

theorem Sure.safe {α} {P} {m : M α} {Q} (h : Sure P m Q) : Safe P m Q :=
  fun w hw => ⟨(h w hw).1, .inl (h w hw).2⟩

theorem Safe.mono {α} {P} {m : M α} {Q Q' : α → Prop} (h : Safe P m Q) (hq : ∀ a, Q a → Q' a) :
    Safe P m Q' := by
  intro w hw
  obtain ⟨h1, h2⟩ := h w hw
  refine ⟨h1, ?_⟩
  rcases h2 with ⟨a, ha, hqa⟩ | h2
  · exact .inl ⟨a, ha, hq a hqa⟩
  · exact .inr h2

theorem Sure.mono {α} {P} {m : M α} {Q Q' : α → Prop} (h : Sure P m Q) (hq : ∀ a, Q a → Q' a) :
    Sure P m Q' := by
  intro w hw
  obtain ⟨h1, a, ha, hqa⟩ := h w hw
  exact ⟨h1, a, ha, hq a hqa⟩

theorem bind_run_ok {α β} {m : M α} {f : α → M β} {w : World} {a : α} (h : (m w).2 = .ok a) :
    (m >>= f) w = f a (m w).1 := by
  show M.bind' m f w = _
  unfold M.bind'
  rcases hm : m w with ⟨w1, r⟩
  rw [hm] at h
  simp only at h
  subst h
  rfl

theorem bind_run_err {α β} {m : M α} {f : α → M β} {w : World} {c : Code} (h : (m w).2 = .err c) :
    (m >>= f) w = ((m w).1, .err c) := by
  show M.bind' m f w = _
  unfold M.bind'
  rcases hm : m w with ⟨w1, r⟩
  rw [hm] at h
  simp only at h
  subst h
  rfl

theorem safe_bind {α β} {P} {m : M α} {f : α → M β} {Q : α → Prop} {R : β → Prop}
    (h1 : Safe P m Q) (h2 : ∀ a, Q a → Safe P (f a) R) : Safe P (m >>= f) R := by
  intro w hw
  obtain ⟨hp, hr⟩ := h1 w hw
  rcases hr with ⟨a, ha, hq⟩ | ⟨c, hc⟩
  · rw [bind_run_ok ha]
    exact h2 a hq _ hp
  · rw [bind_run_err hc]
    exact ⟨hp, .inr ⟨c, rfl⟩⟩

theorem sure_bind {α β} {P} {m : M α} {f : α → M β} {Q : α → Prop} {R : β → Prop}
    (h1 : Sure P m Q) (h2 : ∀ a, Q a → Sure P (f a) R) : Sure P (m >>= f) R := by
  intro w hw
  obtain ⟨hp, a, ha, hq⟩ := h1 w hw
  rw [bind_run_ok ha]
  exact h2 a hq _ hp

theorem sure_pure {α} {P} {Q : α → Prop} (a : α) (h : Q a) : Sure P (pure a : M α) Q :=
  fun _ hw => ⟨hw, a, rfl, h⟩

theorem safe_pure {α} {P} {Q : α → Prop} (a : α) (h : Q a) : Safe P (pure a : M α) Q :=
  (sure_pure a h).safe

theorem safe_fail {α} {P} {Q : α → Prop} (c : Code) : Safe P (M.fail c : M α) Q :=
  fun _ hw => ⟨hw, .inr ⟨c, rfl⟩⟩

theorem sure_lift {α} {P} {Q : α → Prop} {r : Res α} {a : α} (h : r = .ok a) (hq : Q a) :
    Sure P (M.lift r) Q := by
  subst h
  exact fun _ hw => ⟨hw, a, rfl, hq⟩

/-- `try'` absorbs errors -/
theorem sure_try {α} {P} {m : M α} {Q : α → Prop} (h : Safe P m Q) :
    Sure P (M.try' m) (fun r => ∀ a, r = .ok a → Q a) := by
  intro w hw
  obtain ⟨hp, hr⟩ := h w hw
  unfold M.try'
  rcases hm : m w with ⟨w1, r⟩
  rw [hm] at hp hr
  simp only at hp hr
  rcases hr with ⟨a, ha, hq⟩ | ⟨c, hc⟩
  · subst ha
    exact ⟨hp, _, rfl, by intro a' h'; cases h'; exact hq⟩
  · subst hc
    exact ⟨hp, _, rfl, by intro a' h'; cases h'⟩

/-! ### snappy: the decompressed length is the declared one, at most `2^32 - 1` -/

theorem header_le : ∀ (bs : Bytes) (acc shift i v h : Nat),
    Snappy.header bs acc shift i = some (v, h) → v ≤ 4294967295 := by
  intro bs
  induction bs with
  | nil => intro acc shift i v h hh; simp [Snappy.header] at hh
  | cons b rest ih =>
    intro acc shift i v h hh
    unfold Snappy.header at hh
    split at hh
    · cases hh
    · split at hh
      · simp only at hh
        generalize acc + b.toNat * 2 ^ shift = x at hh
        split at hh
        · cases hh
        · rename_i hx
          simp only [Option.some.injEq, Prod.mk.injEq] at hh
          obtain ⟨rfl, _⟩ := hh
          exact Nat.le_of_not_gt hx
      · exact ih _ _ _ _ _ hh

theorem copyBack_length (offset : Nat) (ho : 0 < offset) :
    ∀ (len : Nat) (outRev : Bytes), offset ≤ outRev.length →
      (Snappy.copyBack outRev offset len).length = outRev.length + len := by
  intro len
  induction len with
  | zero => intro outRev _; rfl
  | succ len ih =>
    intro outRev hle
    unfold Snappy.copyBack
    have hlt : offset - 1 < outRev.length := by omega
    rw [List.getElem?_eq_getElem hlt]
    simp only
    rw [ih _ (by simp only [List.length_cons]; omega)]
    simp only [List.length_cons]
    omega

theorem elements_length : ∀ (fuel : Nat) (src outRev : Bytes) (produced total : Nat) (d : Bytes),
    produced = outRev.length → Snappy.elements fuel src outRev produced total = some d →
    d.length = total := by
  intro fuel
  induction fuel with
  | zero => intro src outRev produced total d _ h; unfold Snappy.elements at h; cases h
  | succ fuel ih =>
    intro src outRev produced total d hp h
    unfold Snappy.elements at h
    split at h
    · -- end of input
      split at h
      · simp only [Option.some.injEq] at h
        subst h
        rw [List.length_reverse]; omega
      · cases h
    · rename_i tag rest
      simp only at h
      split at h
      · -- literal
        split at h
        · cases h
        · rename_i len rest' _
          split at h
          · cases h
          · rename_i hcond
            refine ih _ _ _ _ _ ?_ h
            simp only [List.length_append, List.length_reverse, List.length_take]
            omega
      · -- copy
        split at h
        · cases h
        · rename_i len offset rest' _
          split at h
          · cases h
          · rename_i hcond
            refine ih _ _ _ _ _ ?_ h
            rw [copyBack_length offset (by omega) len outRev (by omega)]
            omega

theorem snappy_small (data d : Bytes) (h : Snappy.decode data = some d) : d.length < 2 ^ 64 := by
  unfold Snappy.decode at h
  split at h
  · cases h
  · split at h
    · cases h
    · rename_i total hlen hh
      have h1 := header_le _ _ _ _ _ _ hh
      have h2 := elements_length _ _ _ _ _ _ rfl h
      omega

/-! ### the primitives -/

theorem readAt_cache (file off len : Nat) (w : World) : (readAt file off len w).1.cache = w.cache := by
  unfold readAt
  rcases w.sched with _ | ⟨f, rest⟩
  · rfl
  · cases f <;> rfl

theorem readAt_nocrash (file off len : Nat) (w : World) :
    (∃ a, (readAt file off len w).2 = .ok a) ∨ ∃ c, (readAt file off len w).2 = .err c := by
  unfold readAt
  rcases w.sched with _ | ⟨f, rest⟩
  · exact .inl ⟨_, rfl⟩
  · cases f
    · exact .inl ⟨_, rfl⟩
    · exact .inr ⟨_, rfl⟩
    · exact .inl ⟨_, rfl⟩

theorem cacheValid_of_cache {w w' : World} (h : w'.cache = w.cache) (hc : CacheValid w) :
    CacheValid w' := by
  unfold CacheValid at *
  rw [h]; exact hc

theorem safe_readAt (file off len : Nat) : Safe CacheValid (readAt file off len) (fun _ => True) := by
  intro w hw
  refine ⟨cacheValid_of_cache (readAt_cache file off len w) hw, ?_⟩
  rcases readAt_nocrash file off len w with ⟨a, ha⟩ | h
  · exact .inl ⟨a, ha, trivial⟩
  · exact .inr h

theorem safe_readBytes (file : Nat) (loc : BlockHandle) :
    Safe CacheValid (readBytes file loc) (fun _ => True) := by
  intro w hw
  exact safe_readAt file loc.offset loc.size { w with allocs := loc.size :: w.allocs } hw

theorem safe_decompressGuarded (data : Bytes) :
    Safe CacheValid (decompressGuarded data) (fun d => d.length < 2 ^ 64) := by
  intro w hw
  refine ⟨cacheValid_of_cache (by rw [decompressGuarded_world]) hw, ?_⟩
  rw [decompressGuarded_result]
  cases hd : Snappy.decode data with
  | some d => exact .inl ⟨d, rfl, snappy_small _ _ hd⟩
  | none => exact .inr ⟨_, rfl⟩

theorem safe_readBlockContents (file : Nat) (loc : BlockHandle) (hs : loc.size < 2 ^ 64) :
    Safe CacheValid (readBlockContents file loc) (fun d => d.length < 2 ^ 64) := by
  unfold readBlockContents
  refine safe_bind (safe_readBytes file _) ?_
  intro buf _
  simp only
  split
  · exact safe_fail _
  · split
    · refine safe_pure _ ?_
      rw [List.length_take]; omega
    · split
      · exact safe_decompressGuarded _
      · exact safe_fail _

theorem safe_readTableBlock (file : Nat) (loc : BlockHandle) (hs : loc.size < 2 ^ 64) :
    Safe CacheValid (readTableBlock file loc)
      (fun c => Block.isWellFormed c = true ∧ c.length < 2 ^ 64) := by
  unfold readTableBlock
  refine safe_bind (safe_readBlockContents file loc hs) ?_
  intro c hc
  split
  · exact safe_fail _
  · rename_i hwf
    simp only [Bool.not_eq_true', Bool.not_eq_false] at hwf
    have hlen := isWellFormed_length c hwf
    refine safe_bind (Q := fun _ => True) (sure_lift (a := ()) ?_ trivial).safe ?_
    · unfold assert; rw [if_pos (by simp; omega)]
    · intro _ _
      exact safe_pure _ ⟨hwf, hc⟩

theorem safe_readFilterBlock (file : Nat) (loc : BlockHandle) (hs : loc.size < 2 ^ 64) :
    Safe CacheValid (Sst.readFilterBlock file loc)
      (fun r => ∃ fb, FilterBlockReader.isWellFormed fb = true ∧ FilterBlockReader.new fb = .ok r) := by
  unfold Sst.readFilterBlock
  split
  · exact safe_fail _
  · refine safe_bind (safe_readBlockContents file loc hs) ?_
    intro buf _
    split
    · exact safe_fail _
    · rename_i hwf
      simp only [Bool.not_eq_true', Bool.not_eq_false] at hwf
      obtain ⟨r, hr⟩ := FilterBlockReader.new_of_isWellFormed buf hwf
      exact (sure_lift hr ⟨buf, hwf, hr⟩).safe

theorem safe_checkBlockBounds {P} (loc : BlockHandle) (fileSize : Nat) :
    Safe P (checkBlockBounds loc fileSize) (fun _ => loc.size < 2 ^ 64) := by
  unfold checkBlockBounds
  simp only
  split
  · rename_i h
    exact safe_pure _ (by omega)
  · exact safe_fail _

theorem sure_lift' {α} {P} {Q : α → Prop} {r : Res α} (h : ∃ a, r = .ok a ∧ Q a) :
    Sure P (M.lift r) Q := by
  obtain ⟨a, ha, hq⟩ := h
  exact sure_lift ha hq

/-! ### block iterators over validated blocks -/

/-- `bi` simulates some position of the validated block `b` -/
def BlkOn (b : Bytes) (bi : BlockIter) : Prop :=
  ∃ es rs pos, BlockWF b es rs ∧ SimB b es rs bi pos

/-- `bi` simulates some position of some validated block (of addressable length) -/
def BlkOK (bi : BlockIter) : Prop := ∃ b, b.length < 2 ^ 64 ∧ BlkOn b bi

theorem blk_iter (c : Bytes) (h : Block.isWellFormed c = true) :
    ∃ it, Block.iter c = .ok it ∧ BlkOn c it := by
  obtain ⟨es, rs, wf⟩ := isWellFormed_sound c h
  obtain ⟨it, hi, hs⟩ := simB_iter wf
  exact ⟨it, hi, es, rs, none, wf, hs⟩

theorem blk_seek {b bi} (cmp : Cmp) (hsmall : b.length < 2 ^ 64) (h : BlkOn b bi) (t : Bytes) :
    ∃ it', bi.seek cmp t = .ok it' ∧ BlkOn b it' := by
  obtain ⟨es, rs, pos, wf, hs⟩ := h
  obtain ⟨it', pos', h1, h2⟩ := simB_seek_total cmp wf hsmall hs t
  exact ⟨it', h1, es, rs, pos', wf, h2⟩

theorem blk_current {b bi} (h : BlkOn b bi) : ∃ r, bi.current = .ok r := by
  obtain ⟨es, rs, pos, wf, hs⟩ := h
  exact ⟨_, simB_current wf hs⟩

theorem blk_reset {b bi} (h : BlkOn b bi) : BlkOn b bi.reset := by
  obtain ⟨es, rs, pos, wf, hs⟩ := h
  exact ⟨es, rs, none, wf, simB_reset wf hs⟩

theorem blk_prev {b bi} (hsmall : b.length < 2 ^ 64) (h : BlkOn b bi) :
    ∃ it' ok, bi.prev = .ok (it', ok) ∧ BlkOn b it' := by
  obtain ⟨es, rs, pos, wf, hs⟩ := h
  cases pos with
  | none =>
    obtain ⟨it', pos', h1, h2⟩ := simB_prev_invalid wf hsmall hs
    exact ⟨it', _, h1, es, rs, pos', wf, h2⟩
  | some i =>
    obtain ⟨it', h1, h2⟩ := simB_prev_valid wf hsmall hs
    exact ⟨it', _, h1, es, rs, _, wf, h2⟩

theorem blk_seekToLast {b bi} (hsmall : b.length < 2 ^ 64) (h : BlkOn b bi) :
    ∃ it', bi.seekToLast = .ok it' ∧ BlkOn b it' := by
  obtain ⟨es, rs, pos, wf, hs⟩ := h
  obtain ⟨it', h1, h2⟩ := simB_seekToLast wf hsmall hs
  exact ⟨it', h1, es, rs, _, wf, h2⟩

theorem blk_advance {b bi} (hsmall : b.length < 2 ^ 64) (h : BlkOn b bi) :
    ∃ it' ok, bi.advance = .ok (it', ok) ∧ BlkOn b it' := by
  obtain ⟨es, rs, pos, wf, hs⟩ := h
  obtain ⟨it', h1, h2⟩ := simB_advance wf hsmall hs
  exact ⟨it', _, h1, es, rs, _, wf, h2⟩

/-! ### `Table::new` -/

theorem safe_readFooter (file size : Nat) : Safe CacheValid (Table.readFooter file size) (fun _ => True) := by
  unfold Table.readFooter
  split
  · exact safe_fail _
  · refine safe_bind (safe_readBytes _ _) ?_
    intro buf _
    split
    · exact safe_pure _ trivial
    · exact safe_fail _

theorem sure_curKV {P} {b bi} (h : BlkOn b bi) : Sure P (curKV bi) (fun _ => True) := by
  obtain ⟨r, hr⟩ := blk_current h
  exact sure_lift hr trivial

/-- what `HandleOK` says about the filter reader -/
def FiltOK (o : Option FilterBlockReader) : Prop :=
  ∀ r, o = some r → ∃ fb, FilterBlockReader.isWellFormed fb = true ∧ FilterBlockReader.new fb = .ok r

theorem safe_tableReadFilterBlock (metaix : Bytes) (file fileSize : Nat) (opt : ROpts)
    (hm : Block.isWellFormed metaix = true) (hsmall : metaix.length < 2 ^ 64) :
    Safe CacheValid (Table.readFilterBlock metaix file fileSize opt) FiltOK := by
  have hnone : FiltOK none := by intro r h; cases h
  unfold Table.readFilterBlock
  simp only
  refine safe_bind (Q := BlkOn metaix) (sure_lift' ?_).safe ?_
  · exact blk_iter metaix hm
  intro it hit
  refine safe_bind (Q := BlkOn metaix) (sure_lift' ?_).safe ?_
  · exact blk_seek opt.cmp hsmall hit _
  intro it2 hit2
  refine safe_bind (sure_curKV hit2).safe ?_
  intro kv _
  split
  · split
    · exact safe_pure _ hnone
    · split
      · exact safe_fail _
      · rename_i loc _ _
        split
        · refine safe_bind (safe_checkBlockBounds loc fileSize) ?_
          intro _ hsz
          refine safe_bind (safe_readFilterBlock file loc hsz) ?_
          intro r hr
          refine safe_pure _ ?_
          intro r' h'; cases h'; exact hr
        · exact safe_pure _ hnone
  · exact safe_pure _ hnone

theorem safe_new (opt : ROpts) (file size : Nat) : Safe CacheValid (Table.new opt file size) HandleOK := by
  unfold Table.new
  refine safe_bind (safe_readFooter file size) ?_
  intro footer _
  refine safe_bind (safe_checkBlockBounds footer.index size) ?_
  intro _ h1
  refine safe_bind (safe_checkBlockBounds footer.metaIndex size) ?_
  intro _ h2
  refine safe_bind (safe_readTableBlock file footer.index h1) ?_
  intro ib hib
  refine safe_bind (safe_readTableBlock file footer.metaIndex h2) ?_
  intro mb hmb
  refine safe_bind (safe_tableReadFilterBlock mb file size opt hmb.1 hmb.2) ?_
  intro filters hf
  refine safe_bind (Q := fun _ => True) (Sure.safe ?_) ?_
  · intro w hw
    exact ⟨hw, _, rfl, trivial⟩
  intro id _
  exact safe_pure _ ⟨hib, hf⟩

/-! ### `Table::read_block`, `Table::get`, `Table::approx_offset_of` -/

/-- a validated block of addressable length -/
def GoodBlock (c : Bytes) : Prop := Block.isWellFormed c = true ∧ c.length < 2 ^ 64

theorem safe_readBlock (t : Table) (loc : BlockHandle) :
    Safe CacheValid (t.readBlock loc) GoodBlock := by
  unfold Table.readBlock
  refine safe_bind (safe_checkBlockBounds loc t.fileSize) ?_
  intro _ hsz
  simp only
  refine safe_bind (Q := fun r => ∀ b, r = some b → GoodBlock b) (Sure.safe ?_) ?_
  · intro w hw
    refine ⟨?_, _, rfl, ?_⟩
    · intro k c hm
      exact hw k c (LruCache.mem_get _ _ _ hm)
    · intro b hb
      exact hw _ b (LruCache.get_some_mem _ _ _ hb)
  intro hit hhit
  split
  · rename_i b
    exact safe_pure _ (hhit b rfl)
  · refine safe_bind (safe_readTableBlock t.file loc hsz) ?_
    intro b hb
    refine safe_bind (Q := fun _ => True) (Sure.safe ?_) ?_
    · intro w hw
      refine ⟨?_, _, rfl, trivial⟩
      intro k c hm
      rcases LruCache.mem_insert _ _ _ _ hm with he | ⟨ho, _⟩
      · cases he; exact hb
      · exact hw k c ho
    intro _ _
    exact safe_pure _ hb

theorem safe_get (t : Table) (h : HandleOK t) (key : Bytes) :
    Safe CacheValid (t.get key) (fun _ => True) := by
  unfold Table.get
  refine safe_bind (Q := BlkOn t.indexBlock) (sure_lift' ?_).safe ?_
  · exact blk_iter _ h.index.1
  intro it hit
  refine safe_bind (Q := BlkOn t.indexBlock) (sure_lift' ?_).safe ?_
  · exact blk_seek t.opt.cmp h.index.2 hit _
  intro it2 hit2
  refine safe_bind (sure_curKV hit2).safe ?_
  intro kv _
  split
  · exact safe_pure _ trivial
  · split
    · exact safe_pure _ trivial
    · split
      · exact safe_fail _
      · rename_i handle _ _
        extract_lets jp
        have hjp : ∀ pass, Safe CacheValid (jp pass) (fun _ => True) := by
          intro pass
          simp only [jp]
          split
          · exact safe_pure _ trivial
          · refine safe_bind (safe_readBlock t handle) ?_
            intro tb htb
            refine safe_bind (Q := BlkOn tb) (sure_lift' ?_).safe ?_
            · exact blk_iter _ htb.1
            intro bi hbi
            refine safe_bind (Q := BlkOn tb) (sure_lift' ?_).safe ?_
            · exact blk_seek t.opt.cmp htb.2 hbi _
            intro bi2 hbi2
            refine safe_bind (sure_curKV hbi2).safe ?_
            intro kv2 _
            split
            · split
              · exact safe_pure _ trivial
              · exact safe_pure _ trivial
            · exact safe_pure _ trivial
        split
        · rename_i f hf
          obtain ⟨fb, hfb, hnew⟩ := h.filters f hf
          obtain ⟨b, hb⟩ := keyMayMatch_total t.opt.filter fb f hfb hnew handle.offset key
          exact safe_bind (Q := fun _ => True) (sure_lift hb trivial).safe (fun pass _ => hjp pass)
        · exact safe_bind (Q := fun _ => True) (safe_pure true trivial) (fun pass _ => hjp pass)

theorem sure_approx {P} (t : Table) (h : HandleOK t) (key : Bytes) :
    Sure P (t.approxOffsetOf key) (fun _ => True) := by
  unfold Table.approxOffsetOf
  refine sure_bind (Q := BlkOn t.indexBlock) (sure_lift' ?_) ?_
  · exact blk_iter _ h.index.1
  intro it hit
  refine sure_bind (Q := BlkOn t.indexBlock) (sure_lift' ?_) ?_
  · exact blk_seek t.opt.cmp h.index.2 hit _
  intro it2 hit2
  refine sure_bind (sure_curKV hit2) ?_
  intro kv _
  split
  · split
    · exact sure_pure _ trivial
    · exact sure_pure _ trivial
  · exact sure_pure _ trivial

end TT

open TT in
theorem open_total (opt : ROpts) (file size : Nat) (w : World) (hc : CacheValid w) :
    NoCrash (Table.new opt file size w).2 ∧ CacheValid (Table.new opt file size w).1
      ∧ (∀ tb, (Table.new opt file size w).2 = .ok tb → HandleOK tb) := by
  obtain ⟨h1, h2⟩ := safe_new opt file size w hc
  refine ⟨?_, h1, ?_⟩
  · rcases h2 with ⟨a, ha, _⟩ | ⟨c, hc⟩
    · exact .inl ⟨a, ha⟩
    · exact .inr ⟨c, hc⟩
  · intro tb htb
    rcases h2 with ⟨a, ha, hq⟩ | ⟨c, hc⟩
    · rw [ha] at htb; cases htb; exact hq
    · rw [hc] at htb; cases htb

open TT in
theorem get_total (tb : Table) (h : HandleOK tb) (k : Bytes) (w : World) (hc : CacheValid w) :
    NoCrash (tb.get k w).2 ∧ CacheValid (tb.get k w).1 := by
  obtain ⟨h1, h2⟩ := safe_get tb h k w hc
  refine ⟨?_, h1⟩
  rcases h2 with ⟨a, ha, _⟩ | ⟨c, hc⟩
  · exact .inl ⟨a, ha⟩
  · exact .inr ⟨c, hc⟩

open TT in
theorem approx_total (tb : Table) (h : HandleOK tb) (k : Bytes) (w : World) :
    NoCrash (tb.approxOffsetOf k w).2 := by
  obtain ⟨_, a, ha, _⟩ := sure_approx (P := fun _ => True) tb h k w trivial
  exact .inl ⟨a, ha⟩

/-- iterator invariant: the index iterator simulates some position of the (validated) index block of
    its table; the current block iterator, if any, simulates some position of a validated block -/
structure IterOK (it : TableIter) : Prop where
  handle : HandleOK it.table
  index : TT.BlkOn it.table.indexBlock it.indexBlock
  cur : ∀ cb, it.currentBlock = some cb → TT.BlkOK cb

namespace TT

/-- `IterOK` with the entry table of the index block and the index position made explicit -/
structure IterOn (ib : Bytes) (es : List EInfo) (rs : List Nat) (ipos : Spec.Pos) (it : TableIter) : Prop where
  tbl : it.table.indexBlock = ib
  handle : HandleOK it.table
  index : SimB ib es rs it.indexBlock ipos
  cur : ∀ cb, it.currentBlock = some cb → BlkOK cb

theorem IterOn.ok {ib es rs ipos it} (wf : BlockWF ib es rs) (h : IterOn ib es rs ipos it) : IterOK it :=
  ⟨h.handle, by rw [h.tbl]; exact ⟨es, rs, ipos, wf, h.index⟩, h.cur⟩

theorem IterOK.on {it} (h : IterOK it) :
    ∃ es rs ipos, BlockWF it.table.indexBlock es rs ∧ IterOn it.table.indexBlock es rs ipos it := by
  obtain ⟨es, rs, ipos, wf, hs⟩ := h.index
  exact ⟨es, rs, ipos, wf, rfl, h.handle, hs, h.cur⟩

theorem simB_pos_lt {b es rs it j} (h : SimB b es rs it (some j)) : j < es.length := by
  obtain ⟨e, he, _⟩ := h.at_
  exact (List.getElem?_eq_some_iff.mp he).1

theorem scanLeft_pos {b es rs it pos} (h : SimB b es rs it pos) : 1 ≤ scanLeft es.length pos := by
  cases pos with
  | none => simp [scanLeft]
  | some j => have := simB_pos_lt h; simp only [scanLeft]; omega

theorem scanLeft_le {b es rs it pos} (h : SimB b es rs it pos) : scanLeft es.length pos ≤ es.length + 1 := by
  cases pos with
  | none => simp [scanLeft]
  | some j => simp only [scanLeft]; omega

theorem scanLeft_advance {b : Bytes} {es : List EInfo} {pos : Spec.Pos} {j' : Nat}
    (hadv : (Spec.advance (kvOf b es) pos).1 = some j') (hj : ∀ j, pos = some j → j < es.length) :
    scanLeft es.length (some j') + 1 ≤ scanLeft es.length pos := by
  cases pos with
  | none =>
    simp only [Spec.advance] at hadv
    split at hadv
    · cases hadv
    · cases hadv
      simp only [scanLeft]; omega
  | some j =>
    have := hj j rfl
    simp only [Spec.advance, kvOf_length] at hadv
    split at hadv
    · cases hadv
      simp only [scanLeft]; omega
    · cases hadv

/-! ### the table iterator -/

theorem iterOK_reset {it} (h : IterOK it) : IterOK it.reset :=
  ⟨h.handle, blk_reset h.index, by intro cb hcb; cases hcb⟩

theorem safe_loadBlock (it : TableIter) (handle : Bytes) :
    Safe CacheValid (it.loadBlock handle)
      (fun it' => it'.table = it.table ∧ it'.indexBlock = it.indexBlock
        ∧ ∃ cb, it'.currentBlock = some cb ∧ BlkOK cb) := by
  unfold TableIter.loadBlock
  split
  · exact safe_fail _
  · rename_i h _ _
    refine safe_bind (safe_readBlock it.table h) ?_
    intro b hb
    refine safe_bind (Q := BlkOn b) (sure_lift' ?_).safe ?_
    · exact blk_iter _ hb.1
    intro bi hbi
    exact safe_pure _ ⟨rfl, rfl, bi, rfl, b, hb.2, hbi⟩

/-- `skip_to_next_entry`: the index iterator moves to the next index entry; `Ok(false)` exactly when
    there is none -/
theorem sure_skipToNextEntry {ib es rs ipos it} (wf : BlockWF ib es rs) (hsmall : ib.length < 2 ^ 64)
    (h : IterOn ib es rs ipos it) :
    Sure CacheValid (it.skipToNextEntry) (fun r =>
      IterOn ib es rs (Spec.advance (kvOf ib es) ipos).1 r.1
        ∧ (r.2 ≠ .ok false → (Spec.advance (kvOf ib es) ipos).1 ≠ none)) := by
  obtain ⟨ib', hn, hs⟩ := simB_next wf hsmall h.index
  unfold TableIter.skipToNextEntry
  refine sure_bind (sure_lift hn (Q := fun r => r = (ib', Spec.entryAt (kvOf ib es) (Spec.advance (kvOf ib es) ipos).1)) rfl) ?_
  intro r hr
  subst hr
  simp only
  cases hadv : (Spec.advance (kvOf ib es) ipos).1 with
  | none =>
    simp only [Spec.entryAt]
    rw [hadv] at hs
    refine sure_pure _ ⟨⟨h.tbl, h.handle, hs, h.cur⟩, ?_⟩
    intro hne; exact absurd rfl hne
  | some j' =>
    rw [hadv] at hs
    obtain ⟨e, he, _⟩ := hs.at_
    simp only [Spec.entryAt, kvOf_getElem?, he, Option.map_some]
    refine sure_bind (sure_try (safe_loadBlock _ _)) ?_
    intro x hx
    split
    · rename_i it' 
      obtain ⟨h1, h2, cb, hcb, hok⟩ := hx it' rfl
      refine sure_pure _ ⟨⟨?_, ?_, ?_, ?_⟩, by intro _ hh; cases hh⟩
      · show it'.table.indexBlock = ib
        rw [h1]; exact h.tbl
      · show HandleOK it'.table
        rw [h1]; exact h.handle
      · show SimB ib es rs it'.indexBlock (some j')
        rw [h2]; exact hs
      · intro cb' hcb'
        show BlkOK cb'
        rw [hcb] at hcb'; cases hcb'; exact hok
    · refine sure_pure _ ⟨⟨h.tbl, h.handle, hs, h.cur⟩, by intro _ hh; cases hh⟩

/-- the loop of `advance`: the index position moves forward in every iteration that does not return -/
theorem sure_advanceLoop {ib es rs} (wf : BlockWF ib es rs) (hsmall : ib.length < 2 ^ 64) :
    ∀ (fuel : Nat) (it : TableIter) (ipos : Spec.Pos), IterOn ib es rs ipos it →
      scanLeft es.length ipos ≤ fuel →
      Sure CacheValid (it.advanceLoop fuel) (fun r => IterOK r.1) := by
  intro fuel
  induction fuel with
  | zero =>
    intro it ipos h hf
    have := scanLeft_pos h.index
    omega
  | succ fuel ih =>
    intro it ipos h hf
    unfold TableIter.advanceLoop
    extract_lets jp
    have hjp : ∀ s : TableIter × Bool, IterOn ib es rs ipos s.1 →
        Sure CacheValid (jp s) (fun r => IterOK r.1) := by
      intro s hs
      obtain ⟨it1, ok⟩ := s
      simp only [jp]
      split
      · exact sure_pure _ (hs.ok wf)
      · have h2 : IterOn ib es rs ipos { it1 with currentBlock := none } :=
          ⟨hs.tbl, hs.handle, hs.index, by intro cb hcb; cases hcb⟩
        refine sure_bind (sure_skipToNextEntry wf hsmall h2) ?_
        intro r hr
        obtain ⟨it2, res⟩ := r
        obtain ⟨hon, hres⟩ := hr
        simp only at hon hres ⊢
        have hrec : res ≠ .ok false → Sure CacheValid (it2.advanceLoop fuel) (fun r => IterOK r.1) := by
          intro hne
          have hnn := hres hne
          cases hadv : (Spec.advance (kvOf ib es) ipos).1 with
          | none => exact absurd hadv hnn
          | some j' =>
            rw [hadv] at hon
            refine ih it2 (some j') hon ?_
            have := scanLeft_advance hadv (fun j hj => by subst hj; exact simB_pos_lt h.index)
            omega
        split
        · exact hrec (by intro hh; cases hh)
        · exact sure_pure _ (iterOK_reset (hon.ok wf))
        · exact hrec (by intro hh; cases hh)
    split
    · rename_i cb hcb
      obtain ⟨b, hb, hon⟩ := h.cur cb hcb
      obtain ⟨cb', ok, ha, hon'⟩ := blk_advance hb hon
      refine sure_bind (sure_lift ha (Q := fun r => r = (cb', ok)) rfl) ?_
      intro r hr
      subst hr
      simp only
      refine sure_bind (Q := fun (s : TableIter × Bool) => IterOn ib es rs ipos s.1) (sure_pure _ ?_) hjp
      refine ⟨h.tbl, h.handle, h.index, ?_⟩
      intro cb2 hcb2
      cases hcb2
      exact ⟨b, hb, hon'⟩
    · exact sure_bind (Q := fun (s : TableIter × Bool) => IterOn ib es rs ipos s.1) (sure_pure _ h) hjp

theorem sure_advance {it} (h : IterOK it) : Sure CacheValid it.advance (fun r => IterOK r.1) := by
  obtain ⟨es, rs, ipos, wf, hon⟩ := IterOK.on h
  unfold TableIter.advance
  refine sure_advanceLoop wf h.handle.index.2 _ it ipos hon ?_
  have h1 := scanLeft_le hon.index
  have h2 := wf.length_le
  rw [hon.index.block]
  omega

theorem sure_current {P it} (h : IterOK it) : Sure P it.current (fun _ => True) := by
  unfold TableIter.current
  split
  · rename_i cb hcb
    obtain ⟨b, _, hon⟩ := h.cur cb hcb
    obtain ⟨r, hr⟩ := blk_current hon
    exact sure_lift hr trivial
  · exact sure_pure _ trivial

theorem sure_next {it} (h : IterOK it) : Sure CacheValid it.next (fun r => IterOK r.1) := by
  unfold TableIter.next
  refine sure_bind (sure_advance h) ?_
  intro r hr
  obtain ⟨it1, ok⟩ := r
  simp only at hr ⊢
  split
  · exact sure_pure _ hr
  · refine sure_bind (sure_current hr) ?_
    intro c _
    exact sure_pure _ hr

theorem sure_seekToFirst {it} (h : IterOK it) : Sure CacheValid it.seekToFirst IterOK := by
  unfold TableIter.seekToFirst
  refine sure_bind (sure_advance (iterOK_reset h)) ?_
  intro r hr
  obtain ⟨it1, ok⟩ := r
  exact sure_pure _ hr

theorem sure_seek {it} (h : IterOK it) (to : Bytes) : Sure CacheValid (it.seek to) IterOK := by
  unfold TableIter.seek
  obtain ⟨ib', hseek, hon'⟩ := blk_seek it.table.opt.cmp h.handle.index.2 h.index to
  refine sure_bind (sure_lift hseek (Q := fun r => r = ib') rfl) ?_
  intro r hr
  subst hr
  simp only
  have h1 : IterOK { it with indexBlock := r } := ⟨h.handle, hon', h.cur⟩
  refine sure_bind (sure_curKV hon') ?_
  intro kv _
  split
  · rename_i pastBlock handle
    split
    · refine sure_bind (sure_try (safe_loadBlock _ _)) ?_
      intro x hx
      split
      · rename_i it2
        obtain ⟨ht, hi, cb, hcb, hok⟩ := hx it2 rfl
        have h2 : IterOK it2 := by
          refine ⟨by rw [ht]; exact h.handle, by rw [ht, hi]; exact hon', ?_⟩
          intro cb' hcb'
          rw [hcb] at hcb'; cases hcb'; exact hok
        rw [hcb]
        simp only
        obtain ⟨b, hb, hon⟩ := hok
        obtain ⟨cb2, hs2, hon2⟩ := blk_seek it2.table.opt.cmp hb hon to
        refine sure_bind (sure_lift hs2 (Q := fun r => r = cb2) rfl) ?_
        intro r2 hr2
        subst hr2
        split
        · have h3 : IterOK { it2 with currentBlock := (none : Option BlockIter) } :=
            ⟨h2.handle, h2.index, by intro cb' hcb'; cases hcb'⟩
          refine sure_bind (sure_advance h3) ?_
          intro r3 hr3
          obtain ⟨it3, ok⟩ := r3
          exact sure_pure _ hr3
        · refine sure_pure _ ⟨h2.handle, h2.index, ?_⟩
          intro cb' hcb'
          cases hcb'
          exact ⟨b, hb, hon2⟩
      · exact sure_pure _ (iterOK_reset h1)
    · exact sure_pure _ (iterOK_reset h1)
  · exact sure_pure _ (iterOK_reset h1)

theorem sure_prev {it} (h : IterOK it) : Sure CacheValid it.prev (fun r => IterOK r.1) := by
  unfold TableIter.prev
  extract_lets jp
  have hjp : ∀ s : TableIter × Bool, IterOK s.1 → Sure CacheValid (jp s) (fun r => IterOK r.1) := by
    intro s hs
    obtain ⟨it1, ok⟩ := s
    simp only [jp]
    simp only at hs
    split
    · exact sure_pure _ hs
    · obtain ⟨ib', ok', hp, hon'⟩ := blk_prev hs.handle.index.2 hs.index
      refine sure_bind (sure_lift hp (Q := fun r => r = (ib', ok')) rfl) ?_
      intro r hr
      subst hr
      simp only
      have h1 : IterOK { it1 with indexBlock := ib' } := ⟨hs.handle, hon', hs.cur⟩
      split
      · refine sure_bind (sure_curKV hon') ?_
        intro kv _
        split
        · rename_i k handle
          refine sure_bind (sure_try (safe_loadBlock _ _)) ?_
          intro x hx
          split
          · rename_i it2
            obtain ⟨ht, hi, cb, hcb, hok⟩ := hx it2 rfl
            have h2 : IterOK it2 := by
              refine ⟨by rw [ht]; exact hs.handle, by rw [ht, hi]; exact hon', ?_⟩
              intro cb' hcb'
              rw [hcb] at hcb'; cases hcb'; exact hok
            rw [hcb]
            simp only
            obtain ⟨b, hb, hon⟩ := hok
            obtain ⟨cb2, hs2, hon2⟩ := blk_seekToLast hb hon
            refine sure_bind (sure_lift hs2 (Q := fun r => r = cb2) rfl) ?_
            intro r2 hr2
            subst hr2
            refine sure_pure _ ⟨h2.handle, h2.index, ?_⟩
            intro cb' hcb'
            cases hcb'
            exact ⟨b, hb, hon2⟩
          · exact sure_pure _ (iterOK_reset h1)
        · exact sure_pure _ h1
      · exact sure_pure _ (iterOK_reset h1)
  split
  · rename_i cb hcb
    obtain ⟨b, hb, hon⟩ := h.cur cb hcb
    obtain ⟨cb', ok, ha, hon'⟩ := blk_prev hb hon
    refine sure_bind (sure_lift ha (Q := fun r => r = (cb', ok)) rfl) ?_
    intro r hr
    subst hr
    simp only
    refine sure_bind (Q := fun (s : TableIter × Bool) => IterOK s.1) (sure_pure _ ?_) hjp
    refine ⟨h.handle, h.index, ?_⟩
    intro cb2 hcb2
    cases hcb2
    exact ⟨b, hb, hon'⟩
  · exact sure_bind (Q := fun (s : TableIter × Bool) => IterOK s.1) (sure_pure _ h) hjp

theorem sure_call {it} (h : IterOK it) (op : Spec.IterOp) :
    Sure CacheValid (it.call op) (fun r => IterOK r.1) := by
  cases op with
  | advance =>
    exact sure_bind (sure_advance h) (fun r hr => sure_pure _ hr)
  | next =>
    exact sure_bind (sure_next h) (fun r hr => sure_pure _ hr)
  | prev =>
    exact sure_bind (sure_prev h) (fun r hr => sure_pure _ hr)
  | reset => exact sure_pure _ (iterOK_reset h)
  | seekToFirst =>
    exact sure_bind (sure_seekToFirst h) (fun r hr => sure_pure _ hr)
  | seek t =>
    exact sure_bind (sure_seek h t) (fun r hr => sure_pure _ hr)
  | valid => exact sure_pure _ h
  | current =>
    exact sure_bind (sure_current h) (fun r _ => sure_pure _ h)
  | currentKey => exact sure_pure _ h

theorem sure_run : ∀ (ops : List Spec.IterOp) (it : TableIter), IterOK it →
    Sure CacheValid (it.run ops) (fun r => IterOK r.1) := by
  intro ops
  induction ops with
  | nil => intro it h; exact sure_pure _ h
  | cons op ops ih =>
    intro it h
    unfold TableIter.run
    refine sure_bind (sure_call h op) ?_
    intro r hr
    refine sure_bind (ih r.1 hr) ?_
    intro s hs
    exact sure_pure _ hs

end TT

open TT in
theorem iter_new_total (tb : Table) (h : HandleOK tb) (w : World) :
    ∃ it, TableIter.new tb w = (w, .ok it) ∧ IterOK it := by
  obtain ⟨ib, hi, hon⟩ := blk_iter tb.indexBlock h.index.1
  refine ⟨{ table := tb, indexBlock := ib }, ?_, h, hon, by intro cb hcb; cases hcb⟩
  unfold TableIter.new
  rw [TI.lift_bind hi]
  rfl

open TT in
theorem iter_call_total (it : TableIter) (h : IterOK it) (op : Spec.IterOp) (w : World)
    (hc : CacheValid w) :
    ∃ it' out, (it.call op w).2 = .ok (it', out) ∧ IterOK it' ∧ CacheValid (it.call op w).1 := by
  obtain ⟨h1, ⟨it', out⟩, ha, hq⟩ := sure_call h op w hc
  exact ⟨it', out, ha, hq, h1⟩

open TT in
/-- every history of iterator calls succeeds -/
theorem iter_run_total (it : TableIter) (h : IterOK it) (ops : List Spec.IterOp) (w : World)
    (hc : CacheValid w) :
    ∃ it' outs, (it.run ops w).2 = .ok (it', outs) ∧ IterOK it' ∧ CacheValid (it.run ops w).1 := by
  obtain ⟨h1, ⟨it', outs⟩, ha, hq⟩ := sure_run ops it h w hc
  exact ⟨it', outs, ha, hq, h1⟩

end Sst

#print axioms Sst.open_total
#print axioms Sst.get_total
#print axioms Sst.approx_total
#print axioms Sst.iter_new_total
#print axioms Sst.iter_call_total
#print axioms Sst.iter_run_total
#print axioms Sst.TT.snappy_small
