import SstModel.Lemmas.BlockSeek
import SstModel.Lemmas.BlockPrev
/-
  Totality of `BlockIter::seek` on a validated block for an ARBITRARY comparator (no laws) and
  unsorted keys: the binary search terminates because `right - left` decreases whatever the
  comparisons answer, the linear scan stops somewhere or runs off the end.
-/
namespace Sst
open Spec

/-- the binary search over the restart points, order-free -/
theorem seekBinSearch_total {b es rs} (cmp : Cmp) (wf : BlockWF b es rs)
    (hsmall : b.length < 2 ^ 64) (hne : es ≠ []) (t : Bytes) :
    ∀ (fuel left right : Nat) (it : BlockIter), it.block = b →
      it.restartsOff = b.length - 4 - 4 * rs.length →
      left ≤ right → right < rs.length → right - left + 1 ≤ fuel →
      ∃ it' l, BlockIter.seekBinSearch cmp it t fuel left right = .ok (it', l)
        ∧ it'.block = b ∧ it'.restartsOff = b.length - 4 - 4 * rs.length ∧ l < rs.length := by
  intro fuel
  induction fuel with
  | zero => intro left right it _ _ _ _ hf; omega
  | succ fuel ih =>
    intro left right it hb hr hle hright hf
    unfold BlockIter.seekBinSearch
    by_cases hlr : left < right
    · rw [if_pos hlr]
      have hm1 : left < (left + right + 1) / 2 := by omega
      have hm2 : (left + right + 1) / 2 ≤ right := by omega
      generalize (left + right + 1) / 2 = middle at hm1 hm2
      have hmid : middle < rs.length := by omega
      obtain ⟨j, e, he, hoff, hsh⟩ := restart_entry wf hne middle hmid
      obtain ⟨it', hseek, hs, _⟩ :=
        seekToRestartPoint_ok' wf hsmall it hb hr middle hmid j e he hoff hsh
      simp only [hseek]
      by_cases hk : (cmp.cmp it'.key t == .lt) = true
      · simp only [hk, if_true]
        exact ih middle right it' hs.block hs.roff hm2 hright (by omega)
      · simp only [hk, Bool.false_eq_true, if_false]
        exact ih left (middle - 1) it' hs.block hs.roff (by omega) (by omega) (by omega)
    · rw [if_neg hlr]
      have : left = right := by omega
      rw [if_pos this]
      exact ⟨it, left, rfl, hb, hr, by omega⟩

/-- measure of a position for the forward scan: number of `next` calls certainly sufficient -/
def scanLeft (n : Nat) : Spec.Pos → Nat
  | none => n + 1
  | some j => n - j

/-- the linear scan from ANY simulated position stops in a simulated position -/
theorem seekLinear_total {b es rs} (cmp : Cmp) (wf : BlockWF b es rs) (hsmall : b.length < 2 ^ 64)
    (t : Bytes) :
    ∀ (fuel : Nat) (it : BlockIter) (pos : Spec.Pos), SimB b es rs it pos →
      scanLeft es.length pos ≤ fuel → (∀ j, pos = some j → j < es.length) →
      ∃ it' pos', it.seekLinear cmp t fuel = .ok it' ∧ SimB b es rs it' pos' := by
  intro fuel
  induction fuel with
  | zero =>
    intro it pos h hf hj
    cases pos with
    | none => simp [scanLeft] at hf
    | some j => have := hj j rfl; simp only [scanLeft] at hf; omega
  | succ fuel ih =>
    intro it pos h hf hj
    obtain ⟨it', hn, hs⟩ := simB_next wf hsmall h
    unfold BlockIter.seekLinear
    cases hadv : (Spec.advance (kvOf b es) pos).1 with
    | none =>
      rw [hadv] at hn hs
      simp only [Spec.entryAt] at hn
      simp only [hn]
      exact ⟨it', none, rfl, hs⟩
    | some j' =>
      rw [hadv] at hn hs
      obtain ⟨e, he, _⟩ := hs.at_
      have hj' : j' < es.length := (List.getElem?_eq_some_iff.mp he).1
      simp only [Spec.entryAt, kvOf_getElem?, he, Option.map_some] at hn
      simp only [hn]
      by_cases hk : (cmp.cmp e.key t != .lt) = true
      · simp only [hk, if_true]
        exact ⟨it', some j', rfl, hs⟩
      · simp only [hk, Bool.false_eq_true, if_false]
        refine ih it' (some j') hs ?_ (by intro j hjj; cases hjj; exact hj')
        -- the measure decreased
        cases pos with
        | none =>
          simp only [scanLeft] at hf ⊢
          omega
        | some j =>
          have hjl := hj j rfl
          simp only [Spec.advance, kvOf_length] at hadv
          split at hadv
          · simp only [Option.some.injEq] at hadv
            simp only [scanLeft] at hf ⊢
            omega
          · cases hadv

/-- the scan started just before entry `j` (offset set, key register arbitrary but `shared = 0`) -/
theorem seekLinear_at_total {b es rs} (cmp : Cmp) (wf : BlockWF b es rs) (hsmall : b.length < 2 ^ 64)
    (t : Bytes) (fuel : Nat) (it : BlockIter) (j : Nat) (e : EInfo)
    (hb : it.block = b) (hr : it.restartsOff = b.length - 4 - 4 * rs.length)
    (hrix : it.curRestartIx < rs.length)
    (he : es[j]? = some e) (ho : it.offset = e.off) (hsh : e.shared = 0)
    (hf : es.length ≤ j + fuel) :
    ∃ it' pos', it.seekLinear cmp t (fuel + 1) = .ok it' ∧ SimB b es rs it' pos' := by
  obtain ⟨it', ha, hs, _⟩ := advance_at wf hsmall it j e hb hr hrix he ho (Or.inl hsh)
  have hcur := simB_current wf hs
  simp only [Spec.entryAt, kvOf_getElem?, he, Option.map_some] at hcur
  have hn : it.next = .ok (it', some (e.key, (b.drop e.valOff).take e.valLen)) := by
    unfold BlockIter.next
    simp only [ha, Res.bind_ok, Bool.not_true, Bool.false_eq_true, if_false, hcur, Res.pure_eq]
  have hjl : j < es.length := (List.getElem?_eq_some_iff.mp he).1
  unfold BlockIter.seekLinear
  simp only [hn]
  by_cases hk : (cmp.cmp e.key t != .lt) = true
  · simp only [hk, if_true]
    exact ⟨it', some j, rfl, hs⟩
  · simp only [hk, Bool.false_eq_true, if_false]
    refine seekLinear_total cmp wf hsmall t fuel it' (some j) hs ?_
      (by intro j' hj'; cases hj'; exact hjl)
    simp only [scanLeft]; omega

/-- on a validated block, `seek` is total and ends in a simulated state, whatever the comparator does -/
theorem simB_seek_total {b es rs it pos} (cmp : Cmp) (wf : BlockWF b es rs) (hsmall : b.length < 2^64)
    (h : SimB b es rs it pos) (t : Bytes) :
    ∃ it' pos', it.seek cmp t = .ok it' ∧ SimB b es rs it' pos' := by
  have hrs := simB_reset wf h
  have hnum : it.reset.numberRestarts = rs.length := numberRestarts_eq wf it.reset hrs.block
  have hnrs := wf.nrs
  have hright : (if rs.length = 0 then 0 else rs.length - 1) = rs.length - 1 := by
    rw [if_neg (by omega)]
  have hr0 : rs[0]'(by omega) = 0 := wf.rs_zero
  by_cases hne : es = []
  · subst hne
    have hlen1 := restarts_of_empty wf
    have hbs : BlockIter.seekBinSearch cmp it.reset t (rs.length + 2) 0 (rs.length - 1)
        = .ok (it.reset, 0) := by
      rw [hlen1]
      simp [BlockIter.seekBinSearch]
    have hgr := getRestartPoint_eq wf it.reset hrs.block hrs.roff 0 (by omega)
    unfold BlockIter.seek
    simp only [hnum, hright, hbs, Res.bind_ok, hgr, hr0]
    have hs1 : SimB b [] rs { it.reset with curRestartIx := 0, offset := 0 } none :=
      { block := hrs.block, roff := hrs.roff, rix := hrs.rix, at_ := hrs.at_ }
    obtain ⟨it', hn, hs⟩ := simB_next wf hsmall hs1
    have hadv : Spec.advance (kvOf b []) none = (none, false) := rfl
    rw [hadv] at hn hs
    simp only [Spec.entryAt] at hn
    unfold BlockIter.seekLinear
    simp only [hn]
    exact ⟨it', none, rfl, hs⟩
  · obtain ⟨it1, l, hbs, hb1, hroff1, hl⟩ :=
      seekBinSearch_total cmp wf hsmall hne t (rs.length + 2) 0 (rs.length - 1) it.reset
        hrs.block hrs.roff (by omega) (by omega) (by omega)
    have hgr := getRestartPoint_eq wf it1 hb1 hroff1 l hl
    obtain ⟨j, e, he, hoff, hsh⟩ := restart_entry wf hne l hl
    have hlenle : es.length ≤ b.length := wf.length_le
    unfold BlockIter.seek
    simp only [hnum, hright, hbs, Res.bind_ok, hgr]
    rw [show it1.block.length + 2 = b.length + 1 + 1 by rw [hb1]]
    exact seekLinear_at_total cmp wf hsmall t (b.length + 1)
      { it1 with curRestartIx := l, offset := rs[l] } j e hb1 hroff1 hl he hoff.symm hsh
      (by omega)

end Sst

#print axioms Sst.simB_seek_total
