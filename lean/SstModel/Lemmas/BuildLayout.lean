import SstModel.Lemmas.BuildLayout5
/-
  C05 (writer side): for every lawful writer configuration and every strictly sorted entry list,
  building on a perfect sink produces a well-formed table image (in the reader's sense, `TableImg.WF`)
  holding exactly those entries, with a filter block that the same policy reads without false
  negatives.

  Files: `BuildLayout1` (basics) … `BuildLayout5` (assembly); this file states the results.

  Deviations from the naive statement "the build always succeeds" (all forced by the model):
  * `start_block` asserts that the 32-bit filter index `(offset >> 11) as u32` does not decrease.  At
    file offsets ≥ 2^43 the index wraps and the assert can fail, so success is proved for files
    shorter than 2^43 bytes (`tp.sink.received.length < 2 ^ 43`); nothing else can fail on a perfect
    sink.
  * the reported size equals the number of bytes written only if the footer's handles fit 40 bytes;
    this is implied by the same bound.
  * `WOptsOK.lossless` is required only for inputs shorter than 2^32 bytes (the raw snappy format
    cannot represent longer ones, so the unrestricted hypothesis would be unsatisfiable);
    consequently, when compressing, the uncompressed block sizes must be bounded a priori
    (`sizeBound`), which needs a bound on separator lengths (`WOptsOK.sepLen`, only for compression 1).
  * `WOptsOK.lastSep`: `Cmp.Lawful` does not constrain `sep a (succ a)` when `succ a = a`.
-/
namespace Sst

open BL in
/-- C05, writer side. -/
theorem build_wf (opt : WOpts) (hok : WOptsOK opt) (es : List (Bytes × Bytes))
    (hs : Spec.StrictSorted opt.cmp es) :
    ∃ tp r, TableBuilder.build opt {} es = (tp, r) ∧
      (tp.sink.received.length < 2 ^ 43 →
        ∃ n, r = .ok n ∧ n = tp.sink.received.length ∧ tp.numEntries = es.length
          ∧ (n < 2 ^ 32 → (opt.compression = 1 → sizeBound opt es < 2 ^ 32) →
              ∃ t : TableImg, t.img = tp.sink.received ∧ t.WF opt.cmp ∧ t.entries = es
                ∧ (∃ fh, t.metaix.kvs = [(Table.filterName opt.filter, fh)])
                ∧ (∃ fb, FilterView opt.filter t (some fb) ∧ FilterSound opt.filter t fb)
                -- data blocks lie in file order without overlap
                ∧ (∀ (i : Nat) (di dj : DBlock), t.blocks[i]? = some di → t.blocks[i+1]? = some dj →
                     di.handle.offset + di.handle.size + 5 ≤ dj.handle.offset)
                -- every data block lies before the metaindex block
                ∧ (∀ d ∈ t.blocks, d.handle.offset + d.handle.size + 5 ≤ t.metaHandle.offset)
                -- the first data block (if any) starts at offset 0
                ∧ (∀ d, t.blocks[0]? = some d → d.handle.offset = 0)
                -- for the bridge to the independent decoder: blocks parse under `Spec.Format.parseBlock`,
                -- handles and footer are canonical encodings
                ∧ SpecExtras t)) := by
  obtain ⟨tp, r, hb, hcase⟩ := build_step hok es hs
  refine ⟨tp, r, hb, ?_⟩
  intro hsmall
  rcases hcase with ⟨t1, fl, fb, mb, ib, hr, hinv, hes, hfb, hib, hmbinv, hmbsz, hrecv, hnum⟩ | ⟨_, hbig⟩
  · have hneq := nOf_eq opt fl (fb.finish opt.filter) mb ib (by rw [← hrecv]; omega)
    refine ⟨_, hr, by rw [hrecv]; exact hneq, hnum, ?_⟩
    intro hn hsz
    rw [hneq] at hn
    rw [← hes] at hsz
    obtain ⟨t, h1, h2, h3, h4, h5, h6, h7, h8⟩ := assemble hok hinv hfb hib hmbinv hmbsz hn hsz
    exact ⟨t, by rw [h1, hrecv], h2, by rw [h3, hes], h4, h5, h6, h7, h8⟩
  · unfold Big at hbig; omega

/-- the same, starting from a successful perfect-sink build (sortedness of the input is then a
    consequence, not a hypothesis) -/
theorem build_wf_of_ok (opt : WOpts) (hok : WOptsOK opt) (es : List (Bytes × Bytes))
    (tp : TableBuilder) (n : Nat) (hb : TableBuilder.build opt {} es = (tp, .ok n))
    (hn : n < 2 ^ 32) (hsz : opt.compression = 1 → sizeBound opt es < 2 ^ 32) :
    n = tp.sink.received.length ∧ tp.numEntries = es.length ∧
      ∃ t : TableImg, t.img = tp.sink.received ∧ t.WF opt.cmp ∧ t.entries = es
        ∧ (∃ fh, t.metaix.kvs = [(Table.filterName opt.filter, fh)])
        ∧ (∃ fb, FilterView opt.filter t (some fb) ∧ FilterSound opt.filter t fb)
        ∧ (∀ (i : Nat) (di dj : DBlock), t.blocks[i]? = some di → t.blocks[i+1]? = some dj →
             di.handle.offset + di.handle.size + 5 ≤ dj.handle.offset)
        ∧ (∀ d ∈ t.blocks, d.handle.offset + d.handle.size + 5 ≤ t.metaHandle.offset)
        ∧ (∀ d, t.blocks[0]? = some d → d.handle.offset = 0)
        ∧ SpecExtras t := by
  obtain ⟨t1, hadd, _⟩ := TableBuilder.build_ok_inv hb
  have hs : Spec.StrictSorted opt.cmp es := TableBuilder.addAll_ok_sorted hadd
  obtain ⟨tp', hb', _, hlen, _⟩ := C13_sink_core opt [] es tp n hb
  have hlen' := hlen (by omega)
  obtain ⟨tp2, r, hb2, h⟩ := build_wf opt hok es hs
  rw [hb] at hb2
  injection hb2 with e1 e2
  subst e1 e2
  obtain ⟨n', hr, hn', hnum, hrest⟩ := h (by omega)
  injection hr with hr
  subst hr
  exact ⟨hn', hnum, hrest hn hsz⟩

/-- … and for an arbitrary conforming sink (composition with C13): whenever the build reports success,
    the bytes the sink received are a well-formed table image holding the entries -/
theorem build_any_sink_wf (opt : WOpts) (hok : WOptsOK opt) (sched : List SinkResp)
    (es : List (Bytes × Bytes)) (t0 : TableBuilder) (n : Nat)
    (hb : TableBuilder.build opt { sched := sched } es = (t0, .ok n))
    (hn : n < 2 ^ 32) (hsz : opt.compression = 1 → sizeBound opt es < 2 ^ 32) :
    n = t0.sink.received.length ∧
      ∃ t : TableImg, t.img = t0.sink.received ∧ t.WF opt.cmp ∧ t.entries = es
        ∧ (∃ fh, t.metaix.kvs = [(Table.filterName opt.filter, fh)])
        ∧ (∃ fb, FilterView opt.filter t (some fb) ∧ FilterSound opt.filter t fb)
        ∧ (∀ (i : Nat) (di dj : DBlock), t.blocks[i]? = some di → t.blocks[i+1]? = some dj →
             di.handle.offset + di.handle.size + 5 ≤ dj.handle.offset)
        ∧ (∀ d ∈ t.blocks, d.handle.offset + d.handle.size + 5 ≤ t.metaHandle.offset)
        ∧ (∀ d, t.blocks[0]? = some d → d.handle.offset = 0)
        ∧ SpecExtras t := by
  obtain ⟨tp, hbp, hrecv, hlen, _⟩ := C13_sink_core opt sched es t0 n hb
  obtain ⟨_, _, t, h1, h2⟩ := build_wf_of_ok opt hok es tp n hbp hn hsz
  exact ⟨hlen (by omega), t, by rw [h1, hrecv], h2⟩

/-! ### the additional comparator hypotheses hold for the crate's comparators -/

theorem defaultCmp_lastSep (a : Bytes) :
    defaultCmp.cmp a (defaultCmp.sep a (defaultCmp.succ a)) ≠ .gt :=
  (DefaultCmp.sep_spec a _ (DefaultCmp.succ_spec a)).1

theorem defaultCmp_sepLen (a b : Bytes) : (defaultCmp.sep a b).length ≤ a.length + 1 := by
  show (DefaultCmp.findShortestSep a b).length ≤ a.length + 1
  unfold DefaultCmp.findShortestSep
  split
  · omega
  · simp only []
    split
    · omega
    · split
      · rename_i tail hsc
        have := (DefaultCmp.sepScan_spec hsc).2
        simp only [List.length_append, List.length_take, List.length_drop] at this ⊢
        omega
      · simp

theorem reverseCmp_lastSep (a : Bytes) :
    reverseCmp.cmp a (reverseCmp.sep a (reverseCmp.succ a)) ≠ .gt := by
  show cmpBytes a a ≠ .gt
  rw [cmpBytes_refl]; simp

theorem reverseCmp_sepLen (a b : Bytes) : (reverseCmp.sep a b).length ≤ a.length + 1 := by
  show a.length ≤ a.length + 1
  omega

/-- non-vacuity: the uncompressed configurations of the crate satisfy `WOptsOK` -/
theorem wOptsOK_default (blockSize ri : Nat) (hri : 1 ≤ ri) (filter : FilterPolicy)
    (hf : ∀ ks k, k ∈ ks → (filter.createFilter ks).length < 2 ^ 32 →
      filter.keyMayMatch k (filter.createFilter ks) = true) (compress : Bytes → Bytes) :
    WOptsOK { cmp := defaultCmp, blockSize, restartInterval := ri, compression := 0, filter, compress } where
  lawful := defaultCmp_lawful
  ri := hri
  ctype := .inl rfl
  lossless := fun h => by cases h
  filterSound := hf
  lastSep := defaultCmp_lastSep
  sepLen := fun _ => defaultCmp_sepLen

theorem wOptsOK_reverse (blockSize ri : Nat) (hri : 1 ≤ ri) (filter : FilterPolicy)
    (hf : ∀ ks k, k ∈ ks → (filter.createFilter ks).length < 2 ^ 32 →
      filter.keyMayMatch k (filter.createFilter ks) = true) (compress : Bytes → Bytes) :
    WOptsOK { cmp := reverseCmp, blockSize, restartInterval := ri, compression := 0, filter, compress } where
  lawful := reverseCmp_lawful
  ri := hri
  ctype := .inl rfl
  lossless := fun h => by cases h
  filterSound := hf
  lastSep := reverseCmp_lastSep
  sepLen := fun _ => reverseCmp_sepLen

/-- non-vacuity for the crate's DEFAULT filter policy: bloom (with any `bits_per_key`; the default is
    `Consts.defaultBitsPerKey` = 10) satisfies `WOptsOK` (since fix D19: bit count in 64 bits) -/
theorem wOptsOK_bloom (blockSize ri : Nat) (hri : 1 ≤ ri) (b : Nat) (compress : Bytes → Bytes) :
    WOptsOK { cmp := defaultCmp, blockSize, restartInterval := ri, compression := 0,
              filter := Bloom.policy b, compress } :=
  wOptsOK_default blockSize ri hri (Bloom.policy b) (bloom_policy_sound b) compress

theorem wOptsOK_reverse_bloom (blockSize ri : Nat) (hri : 1 ≤ ri) (b : Nat) (compress : Bytes → Bytes) :
    WOptsOK { cmp := reverseCmp, blockSize, restartInterval := ri, compression := 0,
              filter := Bloom.policy b, compress } :=
  wOptsOK_reverse blockSize ri hri (Bloom.policy b) (bloom_policy_sound b) compress

end Sst

#print axioms Sst.build_wf
#print axioms Sst.build_wf_of_ok
#print axioms Sst.build_any_sink_wf
#print axioms Sst.wOptsOK_default
#print axioms Sst.wOptsOK_bloom
#print axioms Sst.wOptsOK_reverse_bloom
