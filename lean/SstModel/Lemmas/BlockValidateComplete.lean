import SstModel.Lemmas.BlockValidate
import SstModel.Lemmas.BlockPrev
/-
  Completeness of `Block.isWellFormed`: every `BlockWF` block passes the validation.
  (The converse, soundness, is `isWellFormed_sound` in `BlockValidate.lean`.)
-/
namespace Sst
namespace BVC

/-- a varint decodes identically from any truncation that keeps the consumed bytes -/
theorem decodeVarint_take (xs : Bytes) (m v l : Nat) (h : decodeVarint xs = some (v, l))
    (hl : l ≤ m) : decodeVarint (xs.take m) = some (v, l) := by
  have hp := decodeVarint_prefix xs v l h ((xs.take m).drop l)
  have e : xs.take l = (xs.take m).take l := by
    rw [List.take_take, Nat.min_eq_left hl]
  rw [e, List.take_append_drop] at hp
  exact hp

/-- an entry header parses identically from any truncation that keeps the header bytes -/
theorem parseHeader_take (xs : Bytes) (m s ns vs hl : Nat)
    (h : Block.parseHeader xs = some (s, ns, vs, hl)) (hm : hl ≤ m) :
    Block.parseHeader (xs.take m) = some (s, ns, vs, hl) := by
  obtain ⟨l1, l2, l3, h1, h2, h3, rfl⟩ := parseHeader_some h
  have g1 := decodeVarint_take xs m _ _ h1 (by omega)
  have g2 := decodeVarint_take (xs.drop l1) (m - l1) _ _ h2 (by omega)
  have g3 := decodeVarint_take (xs.drop (l1 + l2)) (m - (l1 + l2)) _ _ h3 (by omega)
  rw [← List.drop_take] at g2 g3
  unfold Block.parseHeader
  rw [g1]
  simp only
  rw [g2]
  simp only
  rw [g3]

/-- the walk accepts any chain whose remaining restart points are exactly offsets of remaining
    entries with `shared = 0`; `R` is the restart array as stored in the block -/
theorem wfWalk_complete (b : Bytes) (roff n : Nat) (hroff : roff ≤ b.length) (R : Nat → Nat)
    (hR : ∀ i, i < n → fixed32At b (roff + 4 * i) = some (R i))
    (hinc : ∀ i j, i < j → j < n → R i < R j) :
    ∀ (es : List EInfo) (fuel off keyLen k : Nat) (prev : Bytes),
      Chain b roff prev off es → es.length < fuel → prev.length = keyLen → k ≤ n →
      (∀ i, k ≤ i → i < n → ∃ e ∈ es, e.off = R i ∧ e.shared = 0) →
      Block.wfWalk b roff n fuel off keyLen k = true := by
  intro es
  induction es with
  | nil =>
    intro fuel off keyLen k prev hch hfuel hprev hkn hge
    obtain ⟨f, rfl⟩ : ∃ f, fuel = f + 1 := ⟨fuel - 1, by simp at hfuel; omega⟩
    have hoff : off = roff := hch
    rw [Block.wfWalk, if_neg (by omega)]
    have hkn' : k = n := by
      rcases Nat.lt_or_ge k n with h | h
      · obtain ⟨e, he, _⟩ := hge k (Nat.le_refl _) h
        simp at he
      · omega
    simp [hkn']
  | cons e es ih =>
    intro fuel off keyLen k prev hch hfuel hprev hkn hge
    obtain ⟨f, rfl⟩ : ∃ f, fuel = f + 1 := ⟨fuel - 1, by simp at hfuel; omega⟩
    have hall := Chain.headLen_ge hch
    obtain ⟨heoff, hlt, hp, hsh, hnext, hkey, hrest⟩ := hch
    have hrestall := Chain.headLen_ge hrest
    have hhl := parseHeader_headLen hp
    have hnx : e.next = off + e.headLen + e.nonShared + e.valLen := by
      simp only [EInfo.next, EInfo.valOff]; omega
    have hent : ((b.drop off).take (roff - off)).length = roff - off := by
      rw [List.length_take, List.length_drop]; omega
    have hpt := parseHeader_take (b.drop off) (roff - off) _ _ _ _ hp (by omega)
    -- entries of the tail lie strictly after `off`
    have htail : ∀ e' ∈ es, off < e'.off := by
      intro e' he'
      have := hrestall e' he'
      omega
    rw [Block.wfWalk, if_pos hlt]
    simp only [hpt, hent]
    rw [if_neg (by omega)]
    have hklen : e.key.length = e.shared + e.nonShared := by
      rw [hkey, List.length_append, List.length_take, List.length_take, List.length_drop]
      omega
    by_cases hRk : k < n ∧ fixed32At b (roff + 4 * k) = some off
    · have hRk' : R k = off := by
        have := hR k hRk.1
        rw [hRk.2] at this
        exact (Option.some.inj this).symm
      have hs0 : e.shared = 0 := by
        obtain ⟨e', he', ho, hs⟩ := hge k (Nat.le_refl _) hRk.1
        rcases List.mem_cons.mp he' with rfl | he''
        · exact hs
        · have := htail e' he''
          omega
      rw [if_neg (by intro hh; exact hh.2 hs0), if_pos hRk, ← hnx]
      apply ih f e.next (e.shared + e.nonShared) (k + 1) e.key hrest
        (by simp at hfuel; omega) hklen (by omega)
      intro i hi hin
      obtain ⟨e', he', ho, hs⟩ := hge i (by omega) hin
      rcases List.mem_cons.mp he' with rfl | he''
      · have := hinc k i (by omega) hin
        omega
      · exact ⟨e', he'', ho, hs⟩
    · rw [if_neg (by intro hh; exact hRk hh.1), if_neg hRk, ← hnx]
      apply ih f e.next (e.shared + e.nonShared) k e.key hrest
        (by simp at hfuel; omega) hklen hkn
      intro i hi hin
      obtain ⟨e', he', ho, hs⟩ := hge i hi hin
      rcases List.mem_cons.mp he' with rfl | he''
      · exfalso
        rcases Nat.lt_or_ge k i with hki | hki
        · -- R k < R i = off, but R k is the offset of an entry ≥ off
          have h1 := hinc k i hki hin
          obtain ⟨e'', he'', ho'', _⟩ := hge k (Nat.le_refl _) (by omega)
          have := (hall e'' he'').2.1
          omega
        · have : i = k := by omega
          subst this
          apply hRk
          refine ⟨hin, ?_⟩
          rw [hR i hin, ← ho, heoff]
      · exact ⟨e', he'', ho, hs⟩

end BVC

/-- every well-formed block passes the validation -/
theorem isWellFormed_complete (b : Bytes) (es : List EInfo) (rs : List Nat)
    (wf : BlockWF b es rs) : Block.isWellFormed b = true := by
  have hlen := wf.len
  have hn := wf.nrs
  have hfits := wf.fits
  have h0 : fixed32At b (b.length - 4 - 4 * rs.length) = some 0 := by
    have := wf.restartAt 0 hn
    rw [wf.rs_zero] at this
    simpa using this
  unfold Block.isWellFormed
  simp only [wf.count]
  rw [if_neg (by omega), if_neg (by omega), if_neg (by simp [h0])]
  split
  · rename_i hz
    -- empty block: no entries, so every restart is 0, so there is exactly one
    have hes : es = [] := by
      cases es with
      | nil => rfl
      | cons e es =>
        have := wf.chain.2.1
        omega
    have hall : ∀ r ∈ rs, r = 0 := by
      intro r hr
      rcases wf.isStart r hr with ⟨e, he, _⟩ | ⟨_, h⟩
      · rw [hes] at he; simp at he
      · exact h
    have : rs.length = 1 := by
      rcases Nat.lt_or_ge rs.length 2 with h | h
      · omega
      · exfalso
        have hp := List.pairwise_iff_getElem.mp wf.incr 0 1 (by omega) (by omega) (by omega)
        have a := hall rs[0] (List.getElem_mem _)
        have c := hall rs[1] (List.getElem_mem _)
        omega
    simp [this]
  · rename_i hnz
    apply BVC.wfWalk_complete b _ rs.length (by omega) (fun i => rs.getD i 0) ?_ ?_ es
      _ 0 0 0 [] wf.chain ?_ rfl (by omega) ?_
    · intro i hi
      rw [wf.restartAt i hi]
      simp [List.getD_eq_getElem?_getD, hi]
    · intro i j hij hj
      have := List.pairwise_iff_getElem.mp wf.incr i j (by omega) hj hij
      simpa [List.getD_eq_getElem?_getD, hj, Nat.lt_trans hij hj] using this
    · have := Chain.length_le wf.chain
      omega
    · intro i _ hi
      have hne : es ≠ [] := by
        intro h
        have hc := wf.chain
        rw [h] at hc
        have : 0 = b.length - 4 - 4 * rs.length := hc
        omega
      obtain ⟨j, e, hj, ho, hs⟩ := wf.restart_entry hne i hi
      refine ⟨e, List.mem_of_getElem? hj, ?_, hs⟩
      simp [List.getD_eq_getElem?_getD, hi, ho]

end Sst

#print axioms Sst.isWellFormed_complete
