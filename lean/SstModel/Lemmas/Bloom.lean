import SstModel.Model.Filter
/-
  Bloom filter / filter block: no false negatives.
  PART 1: `bloom_no_false_neg`.  PART 2: `filter_block_no_false_neg`.
-/
namespace Sst
namespace Bloom

theorem land_two_pow_ne_zero (x j : Nat) : (Nat.land x (2 ^ j) ≠ 0) ↔ x.testBit j = true := by
  show (x &&& 2 ^ j ≠ 0) ↔ _
  constructor
  · intro h
    obtain ⟨i, hi⟩ := Nat.exists_testBit_of_ne_zero h
    rw [Nat.testBit_and, Nat.testBit_two_pow] at hi
    simp at hi
    obtain ⟨h1, h2⟩ := hi
    subst h2; exact h1
  · intro h h0
    have : (x &&& 2 ^ j).testBit j = true := by
      rw [Nat.testBit_and, Nat.testBit_two_pow_self, h]; rfl
    rw [h0] at this
    simp at this

theorem testBit_iff (f : Bytes) (pos : Nat) :
    testBit f pos = true ↔ (f.getD (pos / 8) 0).toNat.testBit (pos % 8) = true := by
  unfold testBit
  rw [decide_eq_true_iff]
  exact land_two_pow_ne_zero _ _

theorem setBit_length (f : Bytes) (p : Nat) : (setBit f p).length = f.length := by
  simp [setBit]

theorem toNat_or_two_pow (x : UInt8) (j : Nat) (hj : j < 8) :
    (UInt8.ofNat (Nat.lor x.toNat (2 ^ j))).toNat = x.toNat ||| 2 ^ j := by
  rw [UInt8.toNat_ofNat']
  show (x.toNat ||| 2 ^ j) % 2 ^ 8 = _
  apply Nat.mod_eq_of_lt
  apply Nat.or_lt_two_pow x.toNat_lt
  exact Nat.pow_lt_pow_right (by decide) hj

theorem testBit_setBit_self (f : Bytes) (p : Nat) (h : p / 8 < f.length) :
    testBit (setBit f p) p = true := by
  rw [testBit_iff]
  unfold setBit
  rw [List.getD_eq_getElem?_getD, List.getElem?_set]
  simp only [if_true, h, Option.getD_some]
  rw [toNat_or_two_pow _ _ (Nat.mod_lt _ (by decide)), Nat.testBit_or, Nat.testBit_two_pow_self]
  simp

theorem testBit_setBit_mono (f : Bytes) (p q : Nat) (h : testBit f q = true) :
    testBit (setBit f p) q = true := by
  rw [testBit_iff] at h ⊢
  unfold setBit
  rw [List.getD_eq_getElem?_getD, List.getElem?_set]
  by_cases hpq : p / 8 = q / 8
  · by_cases hl : p / 8 < f.length
    · simp only [hpq, if_true]
      rw [hpq] at hl
      simp only [hl, if_true, Option.getD_some]
      rw [toNat_or_two_pow _ _ (Nat.mod_lt _ (by decide)), Nat.testBit_or, h]
      simp
    · exfalso
      rw [hpq] at hl
      rw [List.getD_eq_getElem?_getD, List.getElem?_eq_none (by omega)] at h
      simp at h
  · simp only [hpq, if_false]
    rw [← List.getD_eq_getElem?_getD]; exact h

theorem addProbes_length (bits d : Nat) : ∀ (k h : Nat) (f : Bytes),
    (addProbes bits d k h f).length = f.length
  | 0, _, _ => rfl
  | k + 1, h, f => by
    show (addProbes bits d k _ (setBit f _)).length = _
    rw [addProbes_length bits d k, setBit_length]

theorem addProbes_mono (bits d : Nat) : ∀ (k h : Nat) (f : Bytes) (q : Nat),
    testBit f q = true → testBit (addProbes bits d k h f) q = true
  | 0, _, _, _, hq => hq
  | k + 1, h, f, q, hq => by
    show testBit (addProbes bits d k _ (setBit f _)) q = true
    exact addProbes_mono bits d k _ _ q (testBit_setBit_mono f _ q hq)

theorem addKey_length (bits k : Nat) (f key : Bytes) : (addKey bits k f key).length = f.length :=
  addProbes_length _ _ _ _ _

theorem addKey_mono (bits k : Nat) (f key : Bytes) (q : Nat) (hq : testBit f q = true) :
    testBit (addKey bits k f key) q = true :=
  addProbes_mono _ _ _ _ _ q hq

theorem foldl_addKey_length (bits k : Nat) : ∀ (keys : List Bytes) (f : Bytes),
    (keys.foldl (addKey bits k) f).length = f.length
  | [], _ => rfl
  | key :: keys, f => by
    rw [List.foldl_cons, foldl_addKey_length bits k keys, addKey_length]

theorem foldl_addKey_mono (bits k : Nat) : ∀ (keys : List Bytes) (f : Bytes) (q : Nat),
    testBit f q = true → testBit (keys.foldl (addKey bits k) f) q = true
  | [], _, _, hq => hq
  | key :: keys, f, q, hq => by
    rw [List.foldl_cons]
    exact foldl_addKey_mono bits k keys _ q (addKey_mono bits k f key q hq)

/-- every probe set by `addProbes` is found by `checkProbes` in any filter that contains the result -/
theorem checkProbes_of_addProbes (bits d : Nat) (hbits : 0 < bits) (g : Bytes) :
    ∀ (k h : Nat) (f : Bytes), bits ≤ 8 * f.length →
      (∀ q, testBit (addProbes bits d k h f) q = true → testBit g q = true) →
      checkProbes bits d g k h = true
  | 0, _, _, _, _ => rfl
  | k + 1, h, f, hlen, hsub => by
    have hlt : h % bits < bits := Nat.mod_lt _ hbits
    have h1 : testBit g (h % bits) = true := by
      apply hsub
      show testBit (addProbes bits d k _ (setBit f _)) _ = true
      apply addProbes_mono
      apply testBit_setBit_self
      omega
    show (if testBit g (h % bits) then checkProbes bits d g k (u32 (h + d)) else false) = true
    rw [if_pos h1]
    exact checkProbes_of_addProbes bits d hbits g k _ (setBit f (h % bits))
      (by rw [setBit_length]; exact hlen) hsub

theorem checkProbes_foldl (bits k : Nat) (hbits : 0 < bits) (key : Bytes) :
    ∀ (keys : List Bytes) (f : Bytes), bits ≤ 8 * f.length → key ∈ keys →
      checkProbes bits (delta (bloomHash key)) (keys.foldl (addKey bits k) f) k (bloomHash key) = true
  | [], _, _, hmem => by cases hmem
  | key' :: keys, f, hlen, hmem => by
    rw [List.foldl_cons]
    rcases List.mem_cons.mp hmem with heq | hin
    · subst heq
      exact checkProbes_of_addProbes bits _ hbits _ k _ f hlen
        (fun q hq => foldl_addKey_mono bits k keys _ q hq)
    · exact checkProbes_foldl bits k hbits key keys _ (by rw [addKey_length]; exact hlen) hin

theorem kOf_le (bitsPerKey : Nat) : kOf bitsPerKey ≤ 30 := by
  unfold kOf
  have e1 : Consts.bloomKMin = 1 := rfl
  have e2 : Consts.bloomKMax = 30 := rfl
  show (if bitsPerKey * Consts.bloomKNum / 100 < Consts.bloomKMin then Consts.bloomKMin
    else if bitsPerKey * Consts.bloomKNum / 100 > Consts.bloomKMax then Consts.bloomKMax
    else bitsPerKey * Consts.bloomKNum / 100) ≤ 30
  generalize bitsPerKey * Consts.bloomKNum / 100 = x
  by_cases h1 : x < Consts.bloomKMin
  · rw [if_pos h1]; omega
  · rw [if_neg h1]
    by_cases h2 : x > Consts.bloomKMax
    · rw [if_pos h2]; omega
    · rw [if_neg h2]; omega

/-- the bit array size fits a u32 (true for every filter below 512 MiB).  Since fix D19 the crate
    computes the bit count in 64 bits, so this is only kept as the stronger, historical proviso:
    `FitsU32 → FitsBits`. -/
def FitsU32 (bitsPerKey : Nat) (keys : List Bytes) : Prop :=
  (if keys.length * bitsPerKey < Consts.bloomMinBits then 8 else (keys.length * bitsPerKey + 7) / 8) * 8 < 4294967296

/-- the bit array size fits the width (`Consts.bloomBitsWidth` = 64 since fix D19) in which the crate
    computes it: true for every filter below 2^61 bytes (2 EiB) -/
def FitsBits (bitsPerKey : Nat) (keys : List Bytes) : Prop :=
  (if keys.length * bitsPerKey < Consts.bloomMinBits then 8 else (keys.length * bitsPerKey + 7) / 8) * 8
    < 2 ^ Consts.bloomBitsWidth

theorem two_pow_bitsWidth : 2 ^ Consts.bloomBitsWidth = 18446744073709551616 := by decide

theorem FitsBits_of_FitsU32 {bitsPerKey : Nat} {keys : List Bytes} (h : FitsU32 bitsPerKey keys) :
    FitsBits bitsPerKey keys := by
  unfold FitsU32 at h
  unfold FitsBits
  rw [two_pow_bitsWidth]
  omega

end Bloom

theorem bloom_no_false_neg (bitsPerKey : Nat) (keys : List Bytes) (key : Bytes)
    (hfit : Bloom.FitsBits bitsPerKey keys) (hmem : key ∈ keys) :
    Bloom.keyMayMatch key (Bloom.createFilter bitsPerKey keys) = true := by
  unfold Bloom.FitsBits at hfit
  unfold Bloom.createFilter
  generalize hnb : (if keys.length * bitsPerKey < Consts.bloomMinBits then 8
    else (keys.length * bitsPerKey + 7) / 8) = nbytes at hfit
  have hnb8 : 8 ≤ nbytes := by
    have e1 : Consts.bloomMinBits = 64 := rfl
    rw [← hnb]
    by_cases h1 : keys.length * bitsPerKey < Consts.bloomMinBits
    · rw [if_pos h1]; omega
    · rw [if_neg h1]; omega
  have hu : (nbytes * 8) % 2 ^ Consts.bloomBitsWidth = nbytes * 8 := Nat.mod_eq_of_lt hfit
  simp only [hnb, hu]
  generalize hf : keys.foldl (Bloom.addKey (nbytes * 8) (Bloom.kOf bitsPerKey)) (List.replicate nbytes 0) = f
  have hflen : f.length = nbytes := by
    rw [← hf, Bloom.foldl_addKey_length, List.length_replicate]
  have hk := Bloom.kOf_le bitsPerKey
  unfold Bloom.keyMayMatch
  have hlen : (f ++ [UInt8.ofNat (Bloom.kOf bitsPerKey)]).length = nbytes + 1 := by simp [hflen]
  simp only [hlen, Nat.add_sub_cancel]
  rw [if_neg (by omega)]
  have hget : ((f ++ [UInt8.ofNat (Bloom.kOf bitsPerKey)]).getD nbytes 0).toNat = Bloom.kOf bitsPerKey := by
    rw [List.getD_eq_getElem?_getD, ← hflen, List.getElem?_concat_length, Option.getD_some,
      UInt8.toNat_ofNat']
    apply Nat.mod_eq_of_lt; omega
  have htake : (f ++ [UInt8.ofNat (Bloom.kOf bitsPerKey)]).take nbytes = f := by
    rw [← hflen]; simp
  simp only [hget, htake, hu]
  rw [if_neg (by omega)]
  rw [← hf]
  apply Bloom.checkProbes_foldl _ _ (by omega) key keys _ _ hmem
  rw [List.length_replicate]; omega

/-- the historical form: under the (stronger) u32 proviso -/
theorem bloom_no_false_neg_u32 (bitsPerKey : Nat) (keys : List Bytes) (key : Bytes)
    (hfit : Bloom.FitsU32 bitsPerKey keys) (hmem : key ∈ keys) :
    Bloom.keyMayMatch key (Bloom.createFilter bitsPerKey keys) = true :=
  bloom_no_false_neg bitsPerKey keys key (Bloom.FitsBits_of_FitsU32 hfit) hmem


/-! # PART 2: filter block -/


/-! ## fixed32 / slicing -/

theorem decode_encodeFixed32 (n : Nat) : decodeFixed32 (encodeFixed32 n) = n % 4294967296 := by
  simp only [encodeFixed32, decodeFixed32, UInt8.toNat_ofNat']
  omega

theorem decode_encodeFixed32_of_lt (n : Nat) (h : n < 4294967296) :
    decodeFixed32 (encodeFixed32 n) = n := by
  rw [decode_encodeFixed32, Nat.mod_eq_of_lt h]

theorem encodeFixed32_length (n : Nat) : (encodeFixed32 n).length = 4 := rfl

theorem drop_take_mid {α} (A M C : List α) (lo len : Nat) (h1 : lo = A.length) (h2 : len = M.length) :
    ((A ++ M ++ C).drop lo).take len = M := by
  subst h1 h2
  simp

theorem slice?_mid (A M C : Bytes) (lo hi : Nat) (h1 : lo = A.length) (h2 : hi = lo + M.length) :
    slice? (A ++ M ++ C) lo hi = some M := by
  unfold slice?
  rw [if_pos (by simp; omega)]
  rw [drop_take_mid A M C lo (hi - lo) h1 (by omega)]

def encs (l : List Nat) : Bytes := (l.map encodeFixed32).flatten

theorem encs_length : ∀ l : List Nat, (encs l).length = 4 * l.length
  | [] => rfl
  | a :: l => by
    show (encodeFixed32 a ++ encs l).length = _
    rw [List.length_append, encs_length l, encodeFixed32_length, List.length_cons]; omega

theorem encs_append (l1 l2 : List Nat) : encs (l1 ++ l2) = encs l1 ++ encs l2 := by
  simp [encs]

theorem encs_split (l : List Nat) (i : Nat) (h : i < l.length) :
    encs l = encs (l.take i) ++ encodeFixed32 l[i] ++ encs (l.drop (i + 1)) := by
  conv => lhs; rw [← List.take_append_drop i l, List.drop_eq_getElem_cons h]
  rw [encs_append]
  show _ ++ (encodeFixed32 l[i] ++ encs (l.drop (i + 1))) = _
  rw [List.append_assoc]

theorem fixed32At_encs (A C : Bytes) (l : List Nat) (i : Nat) (h : i < l.length) :
    fixed32At (A ++ encs l ++ C) (A.length + 4 * i) = some (l[i] % 4294967296) := by
  unfold fixed32At
  rw [encs_split l i h]
  have e : A ++ (encs (l.take i) ++ encodeFixed32 l[i] ++ encs (l.drop (i + 1))) ++ C
      = (A ++ encs (l.take i)) ++ encodeFixed32 l[i] ++ (encs (l.drop (i + 1)) ++ C) := by
    simp only [List.append_assoc]
  rw [e, slice?_mid _ (encodeFixed32 l[i]) _ _ _
    (by rw [List.length_append, encs_length, List.length_take]; omega)
    (by rw [encodeFixed32_length])]
  simp [decode_encodeFixed32]

/-! ## representation of the builder state -/

/-- offsets of the first `n` filters of `fs` -/
def offsOf (fs : List Bytes) (n : Nat) : List Nat :=
  (List.range n).map (fun j => (fs.take j).flatten.length)

theorem offsOf_length (fs : List Bytes) (n : Nat) : (offsOf fs n).length = n := by
  simp [offsOf]

theorem offsOf_getElem (fs : List Bytes) (n i : Nat) (h : i < (offsOf fs n).length) :
    (offsOf fs n)[i] = (fs.take i).flatten.length := by
  simp [offsOf]

theorem offsOf_succ (fs : List Bytes) (n : Nat) :
    offsOf fs (n + 1) = offsOf fs n ++ [(fs.take n).flatten.length] := by
  simp [offsOf, List.range_succ]

theorem offsOf_append (fs : List Bytes) (g : Bytes) (n : Nat) (h : n ≤ fs.length) :
    offsOf (fs ++ [g]) n = offsOf fs n := by
  unfold offsOf
  apply List.map_congr_left
  intro j hj
  rw [List.mem_range] at hj
  rw [List.take_append_of_le_length (by omega)]

/-- `fs` = the list of filters emitted so far (one per entry of `filterOffsets`) -/
structure FbRep (b : FilterBlockBuilder) (fs : List Bytes) : Prop where
  filters : b.filters = fs.flatten
  offsets : b.filterOffsets = offsOf fs fs.length

theorem FbRep.len {b fs} (h : FbRep b fs) : b.filterOffsets.length = fs.length := by
  rw [h.offsets, offsOf_length]

/-- what `generate_filter` appends -/
def genOut (p : FilterPolicy) (keys : List Bytes) : Bytes :=
  if keys.isEmpty then [] else p.createFilter keys

open FilterBlockBuilder in
theorem generateFilter_rep (p : FilterPolicy) {b fs} (h : FbRep b fs) :
    FbRep (generateFilter p b) (fs ++ [genOut p b.keys]) := by
  have hoff : ∀ g, b.filterOffsets ++ [b.filters.length] = offsOf (fs ++ [g]) (fs.length + 1) := by
    intro g
    rw [offsOf_succ, offsOf_append _ _ _ (Nat.le_refl _), ← h.offsets, h.filters,
      List.take_append_of_le_length (Nat.le_refl _), List.take_length]
  unfold generateFilter genOut
  by_cases he : b.keys.isEmpty = true
  · simp only [he, if_true]
    constructor
    · simp [h.filters]
    · simp only [List.length_append, List.length_singleton]; exact hoff _
  · simp only [he, Bool.false_eq_true, if_false]
    constructor
    · simp [h.filters]
    · simp only [List.length_append, List.length_singleton]; exact hoff _

/-- the key `k` is (or will be) covered by filter number `i` -/
def FbTr (p : FilterPolicy) (b : FilterBlockBuilder) (fs : List Bytes) (i : Nat) (k : Bytes) : Prop :=
  (∃ ks, k ∈ ks ∧ fs[i]? = some (p.createFilter ks)) ∨ (i = fs.length ∧ k ∈ b.keys)

def FbInv (p : FilterPolicy) (b : FilterBlockBuilder) (i : Nat) (k : Bytes) : Prop :=
  ∃ fs, FbRep b fs ∧ FbTr p b fs i k

open FilterBlockBuilder in
theorem generateFilter_covered (p : FilterPolicy) {b fs i k} (h : FbTr p b fs i k) :
    ∃ ks, k ∈ ks ∧ (fs ++ [genOut p b.keys])[i]? = some (p.createFilter ks) := by
  rcases h with ⟨ks, hk, hfs⟩ | ⟨hi, hk⟩
  · refine ⟨ks, hk, ?_⟩
    have hlt : i < fs.length := by
      rcases Nat.lt_or_ge i fs.length with h | h
      · exact h
      · rw [List.getElem?_eq_none h] at hfs; cases hfs
    rw [List.getElem?_append_left hlt]; exact hfs
  · refine ⟨b.keys, hk, ?_⟩
    subst hi
    have hne : b.keys.isEmpty = false := by
      cases hb : b.keys with
      | nil => rw [hb] at hk; cases hk
      | cons a l => rfl
    simp [genOut, hne]

open FilterBlockBuilder in
theorem generateFilter_inv (p : FilterPolicy) {b i k} (h : FbInv p b i k) :
    FbInv p (generateFilter p b) i k := by
  obtain ⟨fs, hrep, htr⟩ := h
  exact ⟨_, generateFilter_rep p hrep, Or.inl (generateFilter_covered p htr)⟩

open FilterBlockBuilder in
theorem generateFilter_len (p : FilterPolicy) (b : FilterBlockBuilder) :
    (generateFilter p b).filterOffsets.length = b.filterOffsets.length + 1 := by
  unfold generateFilter
  by_cases he : b.keys.isEmpty = true <;> simp [he]

open FilterBlockBuilder in
theorem generateUntil_inv (p : FilterPolicy) (ix : Nat) {i k} :
    ∀ (fuel : Nat) (b : FilterBlockBuilder), FbInv p b i k → FbInv p (generateUntil p ix fuel b) i k
  | 0, _, h => h
  | fuel + 1, b, h => by
    unfold generateUntil
    split
    · exact generateUntil_inv p ix fuel _ (generateFilter_inv p h)
    · exact h

open FilterBlockBuilder in
theorem generateUntil_len_le (p : FilterPolicy) (ix : Nat) :
    ∀ (fuel : Nat) (b : FilterBlockBuilder),
      b.filterOffsets.length ≤ (generateUntil p ix fuel b).filterOffsets.length
  | 0, _ => Nat.le_refl _
  | fuel + 1, b => by
    unfold generateUntil
    split
    · have := generateUntil_len_le p ix fuel (generateFilter p b)
      rw [generateFilter_len] at this; omega
    · exact Nat.le_refl _

open FilterBlockBuilder in
theorem generateUntil_reach (p : FilterPolicy) (ix : Nat) (hix : ix < 2 ^ 32) :
    ∀ (fuel : Nat) (b : FilterBlockBuilder) (fs : List Bytes), FbRep b fs → fs.length ≤ ix →
      ix < fs.length + fuel → ∃ fs', FbRep (generateUntil p ix fuel b) fs' ∧ fs'.length = ix
  | 0, _, _, _, h1, h2 => by omega
  | fuel + 1, b, fs, hrep, h1, h2 => by
    unfold generateUntil
    rw [hrep.len, Nat.mod_eq_of_lt (by omega : fs.length < 2 ^ 32)]
    split
    · exact generateUntil_reach p ix hix fuel _ _ (generateFilter_rep p hrep)
        (by simp; omega) (by simp; omega)
    · exact ⟨fs, hrep, by omega⟩

/-! ## the event stream of the table builder -/

/-- events in the order the table builder issues them -/
inductive FbEvent
  | key (k : Bytes)
  | start (offset : Nat)

/-- run the builder over events -/
def fbRun (p : FilterPolicy) : FilterBlockBuilder → List FbEvent → Res FilterBlockBuilder
  | b, [] => .ok b
  | b, .key k :: evs => fbRun p (b.addKey k) evs
  | b, .start off :: evs => b.startBlock p off >>= fun b' => fbRun p b' evs

/-- `fbAdded off k cur evs`: in `evs` (run while the current block offset is `cur`) there is a
    `key k` event issued while the current block offset is `off` -/
def fbAdded (off : Nat) (k : Bytes) : Nat → List FbEvent → Prop
  | _, [] => False
  | cur, .key k' :: evs => (cur = off ∧ k' = k) ∨ fbAdded off k cur evs
  | _, .start o :: evs => fbAdded off k o evs

/-- offsets of the `start` events never decrease (starting from `cur`) -/
def fbIncreasing : Nat → List FbEvent → Prop
  | _, [] => True
  | cur, .key _ :: evs => fbIncreasing cur evs
  | cur, .start o :: evs => cur ≤ o ∧ fbIncreasing o evs

open FilterBlockBuilder in
theorem startBlock_ok {p : FilterPolicy} {b b' : FilterBlockBuilder} {off : Nat}
    (h : startBlock p b off = .ok b') :
    b.filterOffsets.length % 2 ^ 32 ≤ filterIndex off Consts.filterBaseLog2 ∧
    b' = generateUntil p (filterIndex off Consts.filterBaseLog2)
            (filterIndex off Consts.filterBaseLog2 + 1) b := by
  unfold startBlock assert at h
  by_cases hc : filterIndex off Consts.filterBaseLog2 ≥ b.filterOffsets.length % 2 ^ 32
  · simp only [hc, decide_true, if_true, Res.bind_ok, Res.pure_eq] at h
    injection h with h
    exact ⟨hc, h.symm⟩
  · simp only [hc, decide_false] at h
    cases h

theorem fbRun_inv (p : FilterPolicy) {i k} :
    ∀ (evs : List FbEvent) (b b' : FilterBlockBuilder), FbInv p b i k → fbRun p b evs = .ok b' →
      FbInv p b' i k
  | [], b, b', hinv, h => by
    simp only [fbRun] at h; injection h with h; subst h; exact hinv
  | .key k' :: evs, b, b', hinv, h => by
    simp only [fbRun] at h
    refine fbRun_inv p evs _ _ ?_ h
    obtain ⟨fs, hrep, htr⟩ := hinv
    refine ⟨fs, ⟨hrep.filters, hrep.offsets⟩, ?_⟩
    rcases htr with h1 | ⟨h1, h2⟩
    · exact Or.inl h1
    · exact Or.inr ⟨h1, by simp [FilterBlockBuilder.addKey, h2]⟩
  | .start o :: evs, b, b', hinv, h => by
    simp only [fbRun] at h
    cases hs : b.startBlock p o with
    | ok b1 =>
      rw [hs] at h
      obtain ⟨_, hb1⟩ := startBlock_ok hs
      refine fbRun_inv p evs b1 _ ?_ h
      rw [hb1]; exact generateUntil_inv p _ _ _ hinv
    | err c => rw [hs] at h; cases h
    | panic s => rw [hs] at h; cases h
    | diverge => rw [hs] at h; cases h

theorem fbRun_len_le (p : FilterPolicy) :
    ∀ (evs : List FbEvent) (b b' : FilterBlockBuilder), fbRun p b evs = .ok b' →
      b.filterOffsets.length ≤ b'.filterOffsets.length
  | [], b, b', h => by
    simp only [fbRun] at h; injection h with h; subst h; exact Nat.le_refl _
  | .key k' :: evs, b, b', h => by
    simp only [fbRun] at h
    exact fbRun_len_le p evs (b.addKey k') _ h
  | .start o :: evs, b, b', h => by
    simp only [fbRun] at h
    cases hs : b.startBlock p o with
    | ok b1 =>
      rw [hs] at h
      obtain ⟨_, hb1⟩ := startBlock_ok hs
      have h1 := fbRun_len_le p evs b1 _ h
      have h2 := generateUntil_len_le p (FilterBlockBuilder.filterIndex o Consts.filterBaseLog2)
        (FilterBlockBuilder.filterIndex o Consts.filterBaseLog2 + 1) b
      rw [← hb1] at h2
      omega
    | err c => rw [hs] at h; cases h
    | panic s => rw [hs] at h; cases h
    | diverge => rw [hs] at h; cases h

theorem filterIndex_lt (off lg : Nat) : FilterBlockBuilder.filterIndex off lg < 2 ^ 32 :=
  Nat.mod_lt _ (by decide)

theorem fbRun_added (p : FilterPolicy) {off k} :
    ∀ (evs : List FbEvent) (b : FilterBlockBuilder) (cur : Nat) (fs : List Bytes) (b' : FilterBlockBuilder),
      FbRep b fs → fs.length = FilterBlockBuilder.filterIndex cur Consts.filterBaseLog2 →
      fbRun p b evs = .ok b' → b'.filterOffsets.length < 2 ^ 32 → fbAdded off k cur evs →
      FbInv p b' (FilterBlockBuilder.filterIndex off Consts.filterBaseLog2) k
  | [], _, _, _, _, _, _, _, _, hadd => by cases hadd
  | .key k' :: evs, b, cur, fs, b', hrep, hlen, h, hsz, hadd => by
    simp only [fbRun] at h
    have hrep' : FbRep (b.addKey k') fs := ⟨hrep.filters, hrep.offsets⟩
    rcases hadd with ⟨h1, h2⟩ | hadd
    · subst h1 h2
      refine fbRun_inv p evs _ _ ⟨fs, hrep', Or.inr ⟨hlen.symm, ?_⟩⟩ h
      simp [FilterBlockBuilder.addKey]
    · exact fbRun_added p evs _ cur fs b' hrep' hlen h hsz hadd
  | .start o :: evs, b, cur, fs, b', hrep, hlen, h, hsz, hadd => by
    simp only [fbRun] at h
    cases hs : b.startBlock p o with
    | ok b1 =>
      rw [hs] at h
      obtain ⟨hge, hb1⟩ := startBlock_ok hs
      have h1 := fbRun_len_le p evs b1 _ h
      have h2 := generateUntil_len_le p (FilterBlockBuilder.filterIndex o Consts.filterBaseLog2)
        (FilterBlockBuilder.filterIndex o Consts.filterBaseLog2 + 1) b
      rw [← hb1] at h2
      have hl := hrep.len
      rw [Nat.mod_eq_of_lt (by omega)] at hge
      obtain ⟨fs1, hrep1, hlen1⟩ := generateUntil_reach p _ (filterIndex_lt o _) _ b fs hrep
        (by omega) (by omega : FilterBlockBuilder.filterIndex o Consts.filterBaseLog2 < fs.length + (FilterBlockBuilder.filterIndex o Consts.filterBaseLog2 + 1))
      rw [← hb1] at hrep1
      exact fbRun_added p evs b1 o fs1 b' hrep1 hlen1 h hsz hadd
    | err c => rw [hs] at h; cases h
    | panic s => rw [hs] at h; cases h
    | diverge => rw [hs] at h; cases h

/-! ## the finished block and the reader -/

/-- the shape of a finished filter block whose filters are `fs` -/
def fbBlock (fs : List Bytes) : Bytes :=
  fs.flatten ++ encs (offsOf fs (fs.length + 1)) ++ [UInt8.ofNat Consts.filterBaseLog2]

theorem encs_singleton (a : Nat) : encs [a] = encodeFixed32 a := by simp [encs]

theorem fbBlock_eq' (fs : List Bytes) :
    fbBlock fs = (fs.flatten ++ encs (offsOf fs fs.length)) ++ encodeFixed32 fs.flatten.length
      ++ [UInt8.ofNat Consts.filterBaseLog2] := by
  unfold fbBlock
  rw [offsOf_succ, encs_append, encs_singleton, List.take_length]
  simp only [List.append_assoc]

theorem block_of_rep {b fs} (h : FbRep b fs) :
    b.filters ++ (b.filterOffsets.map encodeFixed32).flatten ++ encodeFixed32 b.filters.length
      ++ [UInt8.ofNat Consts.filterBaseLog2] = fbBlock fs := by
  rw [fbBlock_eq', h.filters, h.offsets]; rfl

theorem finish_block (p : FilterPolicy) {b i k} (h : FbInv p b i k) :
    ∃ fs ks, b.finish p = fbBlock fs ∧ k ∈ ks ∧ fs[i]? = some (p.createFilter ks) := by
  obtain ⟨fs, hrep, htr⟩ := h
  unfold FilterBlockBuilder.finish
  by_cases he : b.keys.isEmpty = true
  · simp only [he, Bool.not_true, Bool.false_eq_true, if_false]
    rcases htr with ⟨ks, hk, hfs⟩ | ⟨_, hk⟩
    · exact ⟨fs, ks, block_of_rep hrep, hk, hfs⟩
    · rw [List.isEmpty_iff] at he; rw [he] at hk; cases hk
  · simp only [he, Bool.not_false, if_true]
    obtain ⟨ks, hk, hfs⟩ := generateFilter_covered p htr
    exact ⟨_, ks, block_of_rep (generateFilter_rep p hrep), hk, hfs⟩

theorem fbBlock_length (fs : List Bytes) :
    (fbBlock fs).length = fs.flatten.length + 4 * (fs.length + 1) + 1 := by
  unfold fbBlock
  rw [List.length_append, List.length_append, encs_length, offsOf_length]; rfl

theorem take_flatten_length_le (fs : List Bytes) (j : Nat) :
    (fs.take j).flatten.length ≤ fs.flatten.length := by
  conv => rhs; rw [← List.take_append_drop j fs, List.flatten_append, List.length_append]
  omega

theorem new_fbBlock (fs : List Bytes) (hsize : (fbBlock fs).length < 2 ^ 32) :
    FilterBlockReader.new (fbBlock fs) = .ok
      { block := fbBlock fs, offsetsOffset := fs.flatten.length, baseLg2 := Consts.filterBaseLog2 } := by
  have hlen := fbBlock_length fs
  have hlast : ((fbBlock fs).getD ((fbBlock fs).length - 1) 0).toNat = Consts.filterBaseLog2 := by
    have e : (fbBlock fs).length - 1 = (fs.flatten ++ encs (offsOf fs (fs.length + 1))).length := by
      rw [hlen, List.length_append, encs_length, offsOf_length]; omega
    rw [e]; unfold fbBlock
    rw [List.getD_eq_getElem?_getD, List.getElem?_concat_length]; rfl
  have hoo : decodeFixed32 (((fbBlock fs).drop ((fbBlock fs).length - 5)).take 4) = fs.flatten.length := by
    have := drop_take_mid (fs.flatten ++ encs (offsOf fs fs.length)) (encodeFixed32 fs.flatten.length)
      [UInt8.ofNat Consts.filterBaseLog2] (fs.flatten.length + 4 * (fs.length + 1) + 1 - 5) 4
      (by rw [List.length_append, encs_length, offsOf_length]; omega) rfl
    rw [hlen, fbBlock_eq', this]
    apply decode_encodeFixed32_of_lt; omega
  unfold FilterBlockReader.new assert
  rw [if_pos (by rw [decide_eq_true_iff]; omega)]
  simp only [Res.bind_ok, Res.pure_eq, hlast, hoo]

theorem reader_core (p : FilterPolicy) (fs : List Bytes) (off : Nat) (k : Bytes) (ks : List Bytes)
    (hp : p.keyMayMatch k (p.createFilter ks) = true)
    (hsize : (fbBlock fs).length < 2 ^ 32)
    (hfs : fs[FilterBlockBuilder.filterIndex off Consts.filterBaseLog2]? = some (p.createFilter ks))
    (r : FilterBlockReader) (hb : r.block = fbBlock fs) (ho : r.offsetsOffset = fs.flatten.length)
    (hl : r.baseLg2 = Consts.filterBaseLog2) :
    r.keyMayMatch p off k = .ok true := by
  have e11 : Consts.filterBaseLog2 = 11 := rfl
  have hlen := fbBlock_length fs
  unfold FilterBlockReader.keyMayMatch
  rw [hl, if_neg (by omega)]
  generalize FilterBlockBuilder.filterIndex off Consts.filterBaseLog2 = ix at hfs ⊢
  have hixlt : ix < fs.length := by
    rcases Nat.lt_or_ge ix fs.length with h | h
    · exact h
    · rw [List.getElem?_eq_none h] at hfs; cases hfs
  have hfs' : fs[ix] = p.createFilter ks := by
    rw [List.getElem?_eq_getElem hixlt] at hfs; injection hfs
  have hnum : r.num = .ok fs.length := by
    unfold FilterBlockReader.num
    rw [hb, ho, if_neg (by omega)]
    congr 1; rw [hlen]; omega
  have hoffs : ∀ j, j ≤ fs.length → r.offsetOf j = .ok (fs.take j).flatten.length := by
    intro j hj
    unfold FilterBlockReader.offsetOf
    have hj' : j < (offsOf fs (fs.length + 1)).length := by rw [offsOf_length]; omega
    rw [hb, ho]; unfold fbBlock
    rw [fixed32At_encs _ _ _ j hj']
    simp only
    rw [offsOf_getElem, Nat.mod_eq_of_lt]
    have := take_flatten_length_le fs j
    omega
  have htake : (fs.take (ix + 1)).flatten = (fs.take ix).flatten ++ fs[ix] := by
    rw [List.take_succ_eq_append_getElem hixlt, List.flatten_append]; simp
  simp only [hnum, Res.bind_ok, hoffs ix (by omega), hoffs (ix + 1) (by omega)]
  rw [if_neg (by omega)]
  split
  · rfl
  · rename_i hcond
    have hsl : slice? r.block (fs.take ix).flatten.length (fs.take (ix + 1)).flatten.length
        = some fs[ix] := by
      rw [hb]; unfold fbBlock
      have e : fs.flatten = (fs.take ix).flatten ++ fs[ix] ++ (fs.drop (ix + 1)).flatten := by
        conv => lhs; rw [← List.take_append_drop ix fs, List.drop_eq_getElem_cons hixlt]
        rw [List.flatten_append, List.flatten_cons, List.append_assoc]
      rw [e]
      simp only [List.append_assoc]
      rw [← List.append_assoc]
      apply slice?_mid _ _ _ _ _ rfl
      rw [htake, List.length_append]
    rw [hsl]
    simp only [Res.pure_eq, hfs', hp]

theorem length_le_flatten_of_getElem? (fs : List Bytes) (i : Nat) (x : Bytes) (h : fs[i]? = some x) :
    x.length ≤ fs.flatten.length := by
  have hlt : i < fs.length := by
    rcases Nat.lt_or_ge i fs.length with h' | h'
    · exact h'
    · rw [List.getElem?_eq_none h'] at h; cases h
  rw [List.getElem?_eq_getElem hlt] at h; injection h with h
  conv => rhs; rw [← List.take_append_drop i fs, List.drop_eq_getElem_cons hlt]
  rw [List.flatten_append, List.flatten_cons, List.length_append, List.length_append, h]
  omega

/-- PART 2 (general form): a key added while the builder was at block offset `off` is matched by the
    reader of the finished block at `off`.  The policy only has to be free of false negatives for
    filters that fit into the finished block.  (No monotonicity hypothesis on the `start` offsets is
    needed: `fbRun … = .ok b` already says that `start_block`'s assertion held at every `start`.) -/
theorem filter_block_no_false_neg_gen (p : FilterPolicy)
    (evs : List FbEvent) (b : FilterBlockBuilder) (h : fbRun p {} evs = .ok b)
    (hp : ∀ ks k, k ∈ ks → (p.createFilter ks).length ≤ (b.finish p).length →
      p.keyMayMatch k (p.createFilter ks) = true)
    (hsize : (b.finish p).length < 2 ^ 32)
    (off : Nat) (k : Bytes) (hk : fbAdded off k 0 evs) :
    ∃ r, FilterBlockReader.new (b.finish p) = .ok r ∧ r.keyMayMatch p off k = .ok true := by
  have hlenle : 4 * b.filterOffsets.length ≤ (b.finish p).length := by
    unfold FilterBlockBuilder.finish
    by_cases he : b.keys.isEmpty = true
    · simp only [he, Bool.not_true, Bool.false_eq_true, if_false, List.length_append]
      have := encs_length b.filterOffsets
      unfold encs at this; omega
    · simp only [he, Bool.not_false, if_true, List.length_append]
      have := encs_length (FilterBlockBuilder.generateFilter p b).filterOffsets
      rw [generateFilter_len] at this
      unfold encs at this; omega
  have hinv : FbInv p b (FilterBlockBuilder.filterIndex off Consts.filterBaseLog2) k :=
    fbRun_added p evs {} 0 [] b ⟨rfl, rfl⟩ rfl h (by omega) hk
  obtain ⟨fs, ks, hfin, hmem, hfs⟩ := finish_block p hinv
  have hle : (p.createFilter ks).length ≤ (fbBlock fs).length := by
    have h1 := length_le_flatten_of_getElem? fs _ _ hfs
    have h2 := fbBlock_length fs
    omega
  rw [hfin] at hsize hp ⊢
  exact ⟨_, new_fbBlock fs hsize,
    reader_core p fs off k ks (hp ks k hmem hle) hsize hfs _ rfl rfl rfl⟩

/-- PART 2 in the requested shape (policy without false negatives). -/
theorem filter_block_no_false_neg (p : FilterPolicy)
    (hp : ∀ ks k, k ∈ ks → p.keyMayMatch k (p.createFilter ks) = true)
    (evs : List FbEvent) (b : FilterBlockBuilder) (h : fbRun p {} evs = .ok b)
    (hsize : (b.finish p).length < 2 ^ 32)
    (off : Nat) (k : Bytes) (hk : fbAdded off k 0 evs) :
    ∃ r, FilterBlockReader.new (b.finish p) = .ok r ∧ r.keyMayMatch p off k = .ok true :=
  filter_block_no_false_neg_gen p evs b h (fun ks k hm _ => hp ks k hm) hsize off k hk

/-- the same with the (redundant) hypothesis that `start` offsets never decrease -/
theorem filter_block_no_false_neg' (p : FilterPolicy)
    (hp : ∀ ks k, k ∈ ks → p.keyMayMatch k (p.createFilter ks) = true)
    (evs : List FbEvent) (b : FilterBlockBuilder) (h : fbRun p {} evs = .ok b)
    (_hinc : fbIncreasing 0 evs)
    (hsize : (b.finish p).length < 2 ^ 32)
    (off : Nat) (k : Bytes) (hk : fbAdded off k 0 evs) :
    ∃ r, FilterBlockReader.new (b.finish p) = .ok r ∧ r.keyMayMatch p off k = .ok true :=
  filter_block_no_false_neg p hp evs b h hsize off k hk

theorem Bloom.createFilter_length (bitsPerKey : Nat) (keys : List Bytes) :
    (Bloom.createFilter bitsPerKey keys).length =
      (if keys.length * bitsPerKey < Consts.bloomMinBits then 8
        else (keys.length * bitsPerKey + 7) / 8) + 1 := by
  unfold Bloom.createFilter
  simp only [List.length_append, Bloom.foldl_addKey_length, List.length_replicate, List.length_singleton]

/-- a bloom filter shorter than 2^61 bytes has no false negatives (in particular every filter that is
    part of a table file, whose size is below 2^32) -/
theorem bloom_no_false_neg_of_length (bitsPerKey : Nat) (keys : List Bytes) (key : Bytes)
    (hlen : (Bloom.createFilter bitsPerKey keys).length ≤ 2 ^ 61) (hmem : key ∈ keys) :
    Bloom.keyMayMatch key (Bloom.createFilter bitsPerKey keys) = true := by
  apply bloom_no_false_neg bitsPerKey keys key _ hmem
  rw [Bloom.createFilter_length] at hlen
  unfold Bloom.FitsBits
  rw [Bloom.two_pow_bitsWidth]
  omega

/-- the bloom policy satisfies the bounded soundness requirement on filter policies
    (`WOptsOK.filterSound`): no false negatives for filters shorter than 4 GiB -/
theorem bloom_policy_sound (bitsPerKey : Nat) (ks : List Bytes) (k : Bytes) (hm : k ∈ ks)
    (hlen : ((Bloom.policy bitsPerKey).createFilter ks).length < 2 ^ 32) :
    (Bloom.policy bitsPerKey).keyMayMatch k ((Bloom.policy bitsPerKey).createFilter ks) = true := by
  have hlen' : (Bloom.createFilter bitsPerKey ks).length < 2 ^ 32 := hlen
  exact bloom_no_false_neg_of_length bitsPerKey ks k (by omega) hm

/-- PARTS 1+2 combined: with the bloom policy, a filter block shorter than 4 GiB (the format's limit:
    offsets inside a filter block are 32-bit) never rejects a key that was added for the block at
    offset `off`.  (Before fix D19 -- bit count in `u32` -- this needed `< 2^29`.) -/
theorem bloom_filter_block_no_false_neg (bitsPerKey : Nat)
    (evs : List FbEvent) (b : FilterBlockBuilder) (h : fbRun (Bloom.policy bitsPerKey) {} evs = .ok b)
    (hsize : (b.finish (Bloom.policy bitsPerKey)).length < 2 ^ 32)
    (off : Nat) (k : Bytes) (hk : fbAdded off k 0 evs) :
    ∃ r, FilterBlockReader.new (b.finish (Bloom.policy bitsPerKey)) = .ok r ∧
      r.keyMayMatch (Bloom.policy bitsPerKey) off k = .ok true := by
  refine filter_block_no_false_neg_gen _ evs b h ?_ hsize off k hk
  intro ks k hm hle
  have hle' : (Bloom.createFilter bitsPerKey ks).length ≤
      (b.finish (Bloom.policy bitsPerKey)).length := hle
  exact bloom_no_false_neg_of_length bitsPerKey ks k (by omega) hm

/-- the historical form (size below 512 MiB) -/
theorem bloom_filter_block_no_false_neg_2_29 (bitsPerKey : Nat)
    (evs : List FbEvent) (b : FilterBlockBuilder) (h : fbRun (Bloom.policy bitsPerKey) {} evs = .ok b)
    (hsize : (b.finish (Bloom.policy bitsPerKey)).length < 2 ^ 29)
    (off : Nat) (k : Bytes) (hk : fbAdded off k 0 evs) :
    ∃ r, FilterBlockReader.new (b.finish (Bloom.policy bitsPerKey)) = .ok r ∧
      r.keyMayMatch (Bloom.policy bitsPerKey) off k = .ok true :=
  bloom_filter_block_no_false_neg bitsPerKey evs b h (by omega) off k hk

/-- PART 2 for a policy that is sound on filters shorter than 4 GiB (the form `WOptsOK.filterSound`
    has since fix D19) -/
theorem filter_block_no_false_neg_bounded (p : FilterPolicy)
    (hp : ∀ ks k, k ∈ ks → (p.createFilter ks).length < 2 ^ 32 → p.keyMayMatch k (p.createFilter ks) = true)
    (evs : List FbEvent) (b : FilterBlockBuilder) (h : fbRun p {} evs = .ok b)
    (hsize : (b.finish p).length < 2 ^ 32)
    (off : Nat) (k : Bytes) (hk : fbAdded off k 0 evs) :
    ∃ r, FilterBlockReader.new (b.finish p) = .ok r ∧ r.keyMayMatch p off k = .ok true :=
  filter_block_no_false_neg_gen p evs b h (fun ks k hm hle => hp ks k hm (by omega)) hsize off k hk

end Sst

#print axioms Sst.bloom_no_false_neg
#print axioms Sst.filter_block_no_false_neg_gen
#print axioms Sst.filter_block_no_false_neg
#print axioms Sst.filter_block_no_false_neg'
#print axioms Sst.bloom_filter_block_no_false_neg
#print axioms Sst.bloom_no_false_neg_u32
#print axioms Sst.bloom_policy_sound
#print axioms Sst.bloom_filter_block_no_false_neg_2_29
#print axioms Sst.filter_block_no_false_neg_bounded
