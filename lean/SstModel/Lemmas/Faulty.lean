import SstModel.Lemmas.TableTotal
import SstModel.Lemmas.SpecBlockComplete
/-
  C14 on the model: the reader under an ARBITRARY fault schedule of the random-access source (any call
  may return an error or a short read). Block reads through the cache return the true contents or an
  error and never cache anything read during a failure (`readBlock_faulty`); lookups are right or an
  error (`get_faulty`); iterator calls keep the file / cache invariants (`iter_call_faulty`); whole
  sessions (`FT.Ev`, `FT.run`, `FT.run_ok`).
  Second part — C07 at table level: an image with ONE damaged data block (`Damaged`): `FT.open_dmg`,
  `FT.readBlock_dmg_bad`, `FT.readBlock_dmg_other`, `FT.get_dmg`, and the ≤ 4-byte alteration lemmas
  `FT.blockAt_altered`, `FT.blockAt_altered_cksum`, `FT.damaged_of_window`.
-/
namespace Sst

/-- the file holds the image; NOTHING is assumed about the fault schedule -/
def FileOK (w : World) (file : Nat) (img : Bytes) : Prop := w.files.getD file [] = img

/-- a zero-padded short read of a data block never passes verification with other contents (decidable;
    evaluated by the harness on the images it runs; holds unconditionally when the missing tail is ≤ 4
    bytes by the CRC burst theorem, and in general unless a CRC-32C collision is hit) -/
def NoShortCollision (t : TableImg) : Prop :=
  ∀ d ∈ t.blocks, ∀ k c, k ≤ d.handle.size + 5 →
    verifyBlock (((cleanBuf t.img d.handle.offset (d.handle.size + 5)).take k)
        ++ List.replicate (d.handle.size + 5 - k) 0) d.handle.size = .ok c →
    Block.isWellFormed c = true → c = d.blk.contents

namespace FT

/-! ### the primitives under an arbitrary schedule -/

/-- one `read_at` under any schedule: cache and files untouched; an error, or the first `k` bytes the
    source would normally deliver, zero padded -/
theorem readAt_cases (file off len : Nat) (w : World) :
    (readAt file off len w).1.cache = w.cache ∧ (readAt file off len w).1.files = w.files
      ∧ ((∃ c, (readAt file off len w).2 = .err c)
        ∨ ∃ k, k ≤ (if off > (w.files.getD file []).length then 0
                      else min len ((w.files.getD file []).length - off))
            ∧ (readAt file off len w).2
                = .ok (((w.files.getD file []).drop off).take k ++ List.replicate (len - k) 0)) := by
  unfold readAt
  rcases w.sched with _ | ⟨f, rest⟩
  · exact ⟨rfl, rfl, .inr ⟨_, Nat.le_refl _, rfl⟩⟩
  · cases f with
    | none => exact ⟨rfl, rfl, .inr ⟨_, Nat.le_refl _, rfl⟩⟩
    | ioError => exact ⟨rfl, rfl, .inl ⟨_, rfl⟩⟩
    | short n => exact ⟨rfl, rfl, .inr ⟨_, Nat.min_le_right _ _, rfl⟩⟩

theorem readBytes_cases (file : Nat) (loc : BlockHandle) (w : World) :
    (readBytes file loc w).1.cache = w.cache ∧ (readBytes file loc w).1.files = w.files
      ∧ ((∃ c, (readBytes file loc w).2 = .err c)
        ∨ ∃ k, k ≤ (if loc.offset > (w.files.getD file []).length then 0
                      else min loc.size ((w.files.getD file []).length - loc.offset))
            ∧ (readBytes file loc w).2
                = .ok (((w.files.getD file []).drop loc.offset).take k ++ List.replicate (loc.size - k) 0)) :=
  readAt_cases file loc.offset loc.size { w with allocs := loc.size :: w.allocs }

theorem verifyBlock_nocrash (buf : Bytes) (size : Nat) :
    (∃ c, verifyBlock buf size = .ok c) ∨ ∃ e, verifyBlock buf size = .err e := by
  unfold verifyBlock
  simp only []
  split
  · exact .inr ⟨_, rfl⟩
  · split
    · exact .inl ⟨_, rfl⟩
    · split
      · split
        · exact .inl ⟨_, rfl⟩
        · exact .inr ⟨_, rfl⟩
      · exact .inr ⟨_, rfl⟩

/-- `readTableBlock` = `readBlockContents`, then the structure check -/
theorem readTableBlock_eq (file : Nat) (loc : BlockHandle) (w : World) :
    readTableBlock file loc w =
      match readBlockContents file loc w with
      | (w', .ok c) => if Block.isWellFormed c = true then (w', .ok c) else (w', .err .corruption)
      | (w', .err c) => (w', .err c)
      | (w', .panic s) => (w', .panic s)
      | (w', .diverge) => (w', .diverge) := by
  unfold readTableBlock
  show M.bind' (readBlockContents file loc) _ w = _
  unfold M.bind'
  rcases readBlockContents file loc w with ⟨w', r⟩
  cases r with
  | ok c =>
    simp only []
    by_cases hwf : Block.isWellFormed c = true
    · have hlen := isWellFormed_length c hwf
      have hlen' : decide (c.length > 4) = true := by simp; omega
      simp only [hwf, Bool.not_true, Bool.false_eq_true, if_false, if_true, bind, M.bind', M.lift,
        hlen', assert, pure, M.pure']
    · simp only [hwf, Bool.not_false, if_true, M.fail]
      simp at hwf
      simp
  | err c => rfl
  | panic s => rfl
  | diverge => rfl

/-- a block read under any schedule: cache and files untouched; an error, or a structurally valid block
    that passed verification of the first `k` bytes of the clean buffer, zero padded -/
theorem readTableBlock_cases (file : Nat) (loc : BlockHandle) (w : World)
    (hb : InBounds loc (w.files.getD file []).length) :
    (readTableBlock file loc w).1.cache = w.cache ∧ (readTableBlock file loc w).1.files = w.files
      ∧ ((∃ c, (readTableBlock file loc w).2 = .err c)
        ∨ ∃ k c, k ≤ loc.size + 5
            ∧ verifyBlock ((cleanBuf (w.files.getD file []) loc.offset (loc.size + 5)).take k
                ++ List.replicate (loc.size + 5 - k) 0) loc.size = .ok c
            ∧ Block.isWellFormed c = true
            ∧ (readTableBlock file loc w).2 = .ok c) := by
  have h5 : loc.size + Consts.tableBlockCksumLen + Consts.tableBlockCompressLen = loc.size + 5 := rfl
  obtain ⟨hb1, hb2⟩ := hb
  simp only [Consts.tableBlockCksumLen, Consts.tableBlockCompressLen] at hb1 hb2
  rw [readTableBlock_eq, readBlockContents_eq]
  obtain ⟨h1, h2, h3⟩ := readBytes_cases file ⟨loc.offset, loc.size + 5⟩ w
  rw [h5]
  rcases hr : readBytes file ⟨loc.offset, loc.size + 5⟩ w with ⟨w', r⟩
  rw [hr] at h1 h2 h3
  simp only at h1 h2 h3
  rcases h3 with ⟨c, hc⟩ | ⟨k, hk, hbuf⟩
  · subst hc
    exact ⟨h1, h2, .inl ⟨_, rfl⟩⟩
  · subst hbuf
    simp only []
    rw [if_neg (by omega)] at hk
    have hk' : k ≤ loc.size + 5 := Nat.le_trans hk (Nat.min_le_left _ _)
    have hclean : (cleanBuf (w.files.getD file []) loc.offset (loc.size + 5)).take k
        = ((w.files.getD file []).drop loc.offset).take k := by
      unfold cleanBuf
      have : loc.size + 5 - min (loc.size + 5) ((w.files.getD file []).length - loc.offset) = 0 := by omega
      rw [this, List.replicate_zero, List.append_nil, List.take_take, Nat.min_eq_left hk']
    rw [← hclean]
    rcases verifyBlock_nocrash ((cleanBuf (w.files.getD file []) loc.offset (loc.size + 5)).take k
        ++ List.replicate (loc.size + 5 - k) 0) loc.size with ⟨c, hv⟩ | ⟨e, hv⟩
    · rw [hv]
      simp only []
      by_cases hwf : Block.isWellFormed c = true
      · rw [if_pos hwf]
        exact ⟨h1, h2, .inr ⟨k, c, hk', hv, hwf, rfl⟩⟩
      · rw [if_neg hwf]
        exact ⟨h1, h2, .inl ⟨_, rfl⟩⟩
    · rw [hv]
      exact ⟨h1, h2, .inl ⟨_, rfl⟩⟩

end FT

set_option linter.unusedSectionVars false

section
variable (cmp : Cmp) (hc : cmp.Lawful) (p : FilterPolicy) (t : TableImg) (hwf : t.WF cmp)
  (fv : Option Bytes) (tb : Table) (hop : Opened tb t cmp p fv)
include hc hwf hop

/-- reading a data block through the cache under ANY fault schedule: the true contents or an error; the
    cache stays coherent; on an error the cache is exactly what the lookup left (nothing read during the
    failure is cached) -/
theorem readBlock_faulty (hns : NoShortCollision t) (w : World) (hf : FileOK w tb.file t.img)
    (hcoh : Coherent w tb.cacheId t) (d : DBlock) (hd : d ∈ t.blocks) :
    let r := tb.readBlock d.handle w
    FileOK r.1 tb.file t.img ∧ Coherent r.1 tb.cacheId t
      ∧ (r.2 = .ok d.blk.contents ∨ ∃ c, r.2 = .err c)
      ∧ (∀ id' t', id' ≠ tb.cacheId → Coherent w id' t' → Coherent r.1 id' t')
      ∧ ((∃ c, r.2 = .err c) → r.1.cache = (w.cache.get (tb.cacheId, d.handle.offset % 2 ^ 64)).1) := by
  show FileOK (tb.readBlock d.handle w).1 tb.file t.img ∧ Coherent (tb.readBlock d.handle w).1 tb.cacheId t
      ∧ ((tb.readBlock d.handle w).2 = .ok d.blk.contents ∨ ∃ c, (tb.readBlock d.handle w).2 = .err c)
      ∧ (∀ id' t', id' ≠ tb.cacheId → Coherent w id' t' → Coherent (tb.readBlock d.handle w).1 id' t')
      ∧ ((∃ c, (tb.readBlock d.handle w).2 = .err c) →
          (tb.readBlock d.handle w).1.cache = (w.cache.get (tb.cacheId, d.handle.offset % 2 ^ 64)).1)
  have hb : InBounds d.handle tb.fileSize := hop.fileSize ▸ hwf.dataBounds d hd
  have hchk := (checkBlockBounds_iff d.handle tb.fileSize w).1 hb
  have hlt : d.handle.offset < 2 ^ 64 := by
    have := hb.1; omega
  generalize hw1 : ({ w with
      cache := (w.cache.get (tb.cacheId, d.handle.offset % 2 ^ 64)).1,
      events := ⟨tb.cacheId, d.handle.offset,
        (w.cache.get (tb.cacheId, d.handle.offset % 2 ^ 64)).2.isSome⟩ :: w.events } : World) = w1
  have hw1c : w1.cache = (w.cache.get (tb.cacheId, d.handle.offset % 2 ^ 64)).1 := by rw [← hw1]
  have hw1f : w1.files = w.files := by rw [← hw1]
  have hf1 : FileOK w1 tb.file t.img := by unfold FileOK; rw [hw1f]; exact hf
  have hsub1 : ∀ x, x ∈ w1.cache.entries → x ∈ w.cache.entries := by
    intro x hx; rw [hw1c] at hx; exact LruCache.mem_get _ _ _ hx
  have hstep : tb.readBlock d.handle w =
      (match (w.cache.get (tb.cacheId, d.handle.offset % 2 ^ 64)).2 with
       | some b => (w1, .ok b)
       | none =>
         match readTableBlock tb.file d.handle w1 with
         | (w2, .ok b) => ({ w2 with cache := w2.cache.insert (tb.cacheId, d.handle.offset % 2 ^ 64) b }, .ok b)
         | (w2, .err c) => (w2, .err c)
         | (w2, .panic s) => (w2, .panic s)
         | (w2, .diverge) => (w2, .diverge)) := by
    unfold Table.readBlock
    simp only [bind, M.bind', hchk, pure]
    subst hw1
    cases hg : (w.cache.get (tb.cacheId, d.handle.offset % 2 ^ 64)).2 with
    | some b => rfl
    | none =>
      show M.bind' (readTableBlock tb.file d.handle) _ _ = _
      unfold M.bind'
      simp only []
      rcases readTableBlock tb.file d.handle _ with ⟨w2, r⟩
      cases r <;> rfl
  rw [hstep]
  cases hg : (w.cache.get (tb.cacheId, d.handle.offset % 2 ^ 64)).2 with
  | some b =>
    -- hit: the cached block is the true one
    have hmem := LruCache.get_some_mem _ _ _ hg
    obtain ⟨d', hd', ho', hc'⟩ := hcoh _ _ hmem
    have hb' : InBounds d'.handle t.img.length := hwf.dataBounds d' hd'
    have hlt' : d'.handle.offset < 2 ^ 64 := by have := hb'.1; omega
    have hoeq : d'.handle.offset = d.handle.offset := by
      rw [Nat.mod_eq_of_lt hlt, Nat.mod_eq_of_lt hlt'] at ho'; exact ho'
    have hbeq : b = d.blk.contents := by
      rw [← hc', hwf.block_of_offset d' hd' d hd hoeq]
    refine ⟨hf1, ?_, .inl (by simp only [hbeq]), ?_, ?_⟩
    · intro off c hx; exact hcoh off c (hsub1 _ hx)
    · intro id' t' _ hco off c hx; exact hco off c (hsub1 _ hx)
    · intro ⟨c, hc⟩; cases hc
  | none =>
    -- miss: the source is consulted, under whatever the schedule says
    have hbi : InBounds d.handle (w1.files.getD tb.file []).length := by
      rw [hf1]; exact hwf.dataBounds d hd
    obtain ⟨hc2, hf2, hres⟩ := FT.readTableBlock_cases tb.file d.handle w1 hbi
    rcases hrt : readTableBlock tb.file d.handle w1 with ⟨w2, r2⟩
    rw [hrt] at hc2 hf2 hres
    simp only at hc2 hf2 hres
    have hfile2 : FileOK w2 tb.file t.img := by unfold FileOK; rw [hf2]; exact hf1
    rcases hres with ⟨c, hc⟩ | ⟨k, c, hk, hv, hwfc, hc⟩
    · subst hc
      refine ⟨hfile2, ?_, .inr ⟨c, rfl⟩, ?_, ?_⟩
      · intro off c' hx
        rw [hc2] at hx; exact hcoh off c' (hsub1 _ hx)
      · intro id' t' _ hco off c' hx
        rw [hc2] at hx; exact hco off c' (hsub1 _ hx)
      · intro _
        show w2.cache = _
        rw [hc2, hw1c]
    · subst hc
      rw [hf1] at hv
      have hceq : c = d.blk.contents := hns d hd k c hk hv hwfc
      subst hceq
      refine ⟨hfile2, ?_, .inl rfl, ?_, ?_⟩
      · intro off c hx
        rcases LruCache.mem_insert _ _ _ _ hx with he | ⟨ho, _⟩
        · simp only [Prod.mk.injEq] at he
          exact ⟨d, hd, he.1.2.symm, he.2.symm⟩
        · rw [hc2] at ho; exact hcoh off c (hsub1 _ ho)
      · intro id' t' hne hco off c hx
        rcases LruCache.mem_insert _ _ _ _ hx with he | ⟨ho, _⟩
        · simp only [Prod.mk.injEq] at he
          exact absurd he.1.1 hne
        · rw [hc2] at ho; exact hco off c (hsub1 _ ho)
      · intro ⟨c, hc⟩; cases hc

/-- the pure part of stage 3 of `get`: once the block is read, it is searched -/
theorem FT.getTail_of_read (w w' : World) (d : DBlock) (hd : d ∈ t.blocks) (k : Bytes)
    (hrb : tb.readBlock d.handle w = (w', .ok d.blk.contents)) :
    tb.getTail d.handle k w = (w', .ok (Spec.lookup cmp d.blk.kvs k)) := by
  obtain ⟨it, it', hit, hit', hcur⟩ :=
    seek_current cmp hc (hwf.dataWF d hd).1 (hwf.dataWF d hd).2 (hwf.block_sorted d hd) k
  have hs : KeysSorted cmp (d.blk.kvs.map (·.1)) := by
    rw [d.blk.kvs_keys]; exact hwf.block_sorted d hd
  rw [TwoLevel.lookup_via_lowerBound cmp hc d.blk.kvs hs k]
  unfold Table.getTail
  simp only [bind, M.bind', hrb, hop.opt, M.lift, hit, hit', curKV, hcur, PBlock.kvs]
  cases hL : Spec.lowerBound cmp (kvOf d.blk.contents d.blk.es) k with
  | none => rfl
  | some i =>
    simp only [Spec.entryAt]
    cases hE : (kvOf d.blk.contents d.blk.es)[i]? with
    | none => rfl
    | some e =>
      obtain ⟨ek, ev⟩ := e
      simp only []
      by_cases he : cmp.cmp ek k = .eq
      · simp [he]; rfl
      · simp [he]; rfl

/-- stage 3 of `get` under any schedule -/
theorem FT.getTail_faulty (hns : NoShortCollision t) (w : World) (hf : FileOK w tb.file t.img)
    (hcoh : Coherent w tb.cacheId t) (d : DBlock) (hd : d ∈ t.blocks) (k : Bytes) :
    FileOK (tb.getTail d.handle k w).1 tb.file t.img ∧ Coherent (tb.getTail d.handle k w).1 tb.cacheId t
      ∧ ((tb.getTail d.handle k w).2 = .ok (Spec.lookup cmp d.blk.kvs k)
          ∨ ∃ c, (tb.getTail d.handle k w).2 = .err c)
      ∧ (∀ id' t', id' ≠ tb.cacheId → Coherent w id' t' → Coherent (tb.getTail d.handle k w).1 id' t') := by
  obtain ⟨h1, h2, h3, h4, _⟩ := readBlock_faulty cmp hc p t hwf fv tb hop hns w hf hcoh d hd
  rcases h3 with h3 | ⟨c, h3⟩
  · have hrb : tb.readBlock d.handle w = ((tb.readBlock d.handle w).1, .ok d.blk.contents) := by
      rw [← h3]
    rw [FT.getTail_of_read cmp hc p t hwf fv tb hop w _ d hd k hrb]
    exact ⟨h1, h2, .inl rfl, h4⟩
  · have : tb.getTail d.handle k w = ((tb.readBlock d.handle w).1, .err c) := by
      unfold Table.getTail
      exact TT.bind_run_err h3
    rw [this]
    exact ⟨h1, h2, .inr ⟨c, rfl⟩, h4⟩

/-- stages 2b and 3 of `get` under any schedule -/
theorem FT.getFilt_faulty (hsound : ∀ fb, fv = some fb → FilterSound p t fb)
    (hfwf : ∀ fb, fv = some fb → FilterBlockReader.isWellFormed fb = true) (hns : NoShortCollision t)
    (w : World) (hf : FileOK w tb.file t.img)
    (hcoh : Coherent w tb.cacheId t) (d : DBlock) (hd : d ∈ t.blocks) (k : Bytes) :
    FileOK (tb.getFilt d.handle k w).1 tb.file t.img ∧ Coherent (tb.getFilt d.handle k w).1 tb.cacheId t
      ∧ ((tb.getFilt d.handle k w).2 = .ok (Spec.lookup cmp d.blk.kvs k)
          ∨ ∃ c, (tb.getFilt d.handle k w).2 = .err c)
      ∧ (∀ id' t', id' ≠ tb.cacheId → Coherent w id' t' → Coherent (tb.getFilt d.handle k w).1 id' t') := by
  have htail := FT.getTail_faulty cmp hc p t hwf fv tb hop hns w hf hcoh d hd k
  cases hfl : tb.filters with
  | none =>
    have : tb.getFilt d.handle k w = tb.getTail d.handle k w := by
      unfold Table.getFilt; rw [hfl]; rfl
    rw [this]; exact htail
  | some r =>
    obtain ⟨fb, hfv, hn⟩ := hop.filter_some hfl
    obtain ⟨b, hb⟩ := keyMayMatch_total p fb r (hfwf fb hfv) hn d.handle.offset k
    have hb' : r.keyMayMatch tb.opt.filter d.handle.offset k = .ok b := by rw [hop.opt]; exact hb
    cases b with
    | true =>
      have : tb.getFilt d.handle k w = tb.getTail d.handle k w := by
        unfold Table.getFilt; rw [hfl]; simp only [hb']; rfl
      rw [this]; exact htail
    | false =>
      have : tb.getFilt d.handle k w = (w, .ok none) := by
        unfold Table.getFilt; rw [hfl]; simp only [hb']; rfl
      rw [this, lookup_none_of_rejected cmp hc p t fb (hsound fb hfv) r hn d hd k hb]
      exact ⟨hf, hcoh, .inl rfl, fun _ _ _ h => h⟩

/-- C14, lookups: right or error, never a wrong answer, under any schedule -/
theorem get_faulty (hsound : ∀ fb, fv = some fb → FilterSound p t fb)
    (hfwf : ∀ fb, fv = some fb → FilterBlockReader.isWellFormed fb = true) (hns : NoShortCollision t)
    (w : World) (hf : FileOK w tb.file t.img) (hcoh : Coherent w tb.cacheId t) (k : Bytes) :
    let r := tb.get k w
    FileOK r.1 tb.file t.img ∧ Coherent r.1 tb.cacheId t
      ∧ (r.2 = .ok (Spec.lookup cmp t.entries k) ∨ ∃ c, r.2 = .err c) := by
  show FileOK (tb.get k w).1 tb.file t.img ∧ Coherent (tb.get k w).1 tb.cacheId t
      ∧ ((tb.get k w).2 = .ok (Spec.lookup cmp t.entries k) ∨ ∃ c, (tb.get k w).2 = .err c)
  have h2 : Spec.lookup cmp t.entries k = _ := TwoLevel.lookup_two_level cmp hc _ _ hwf.ordered k
  rw [get_reduce cmp hc p t hwf fv tb hop w k, h2]
  cases hS : Spec.lowerBound cmp (t.seps.map (fun s => (s, ([] : Bytes)))) k with
  | none => exact ⟨hf, hcoh, .inl rfl⟩
  | some bi =>
    obtain ⟨hbi, _, _⟩ := TwoLevel.sep_lowerBound_some cmp t.seps k bi hS
    have hbi' : bi < t.blocks.length := by simpa [TableImg.seps] using hbi
    have hd : t.blocks[bi]? = some t.blocks[bi] := List.getElem?_eq_getElem hbi'
    generalize t.blocks[bi] = d at hd
    have hgd : t.kvBlocks.getD bi [] = d.blk.kvs := by
      rw [List.getD_eq_getElem?_getD, t.kvBlocks_getElem?, hd]; rfl
    simp only [hd, hgd]
    obtain ⟨a1, a2, a3, _⟩ :=
      FT.getFilt_faulty cmp hc p t hwf fv tb hop hsound hfwf hns w hf hcoh d (List.mem_of_getElem? hd) k
    exact ⟨a1, a2, a3⟩

end

/-! ### the entry table of a block is unique -/

theorem FT.blockWF_unique {b : Bytes} {es es' : List EInfo} {rs rs' : List Nat}
    (wf : BlockWF b es rs) (wf' : BlockWF b es' rs') : es = es' ∧ rs = rs' := by
  have hl : rs.length = rs'.length := by rw [← wf.count, ← wf'.count]
  have hch := wf'.chain
  rw [← hl] at hch
  refine ⟨SBC.chain_unique wf.chain hch, ?_⟩
  apply List.ext_getElem hl
  intro i h1 h2
  have a := wf.restartAt i h1
  have b' := wf'.restartAt i h2
  rw [← hl, a] at b'
  exact Option.some.inj b'

/-! ### the table iterator under any schedule -/

namespace FT
open TT

/-- the world invariant of C14: the file holds the image, the cache is coherent for this table and every
    cached block passed validation; nothing about the schedule -/
def Inv (tb : Table) (t : TableImg) (w : World) : Prop :=
  FileOK w tb.file t.img ∧ Coherent w tb.cacheId t ∧ CacheValid w

/-- an index value of the table: the encoded handle of one of its data blocks -/
def HVal (t : TableImg) (v : Bytes) : Prop := ∃ d ∈ t.blocks, v = d.hval

/-- iterator invariant: an iterator of this table satisfying the C08 invariant -/
def Good (tb : Table) (it : TableIter) : Prop := IterOK it ∧ it.table = tb

/-- `Good` with the index position explicit -/
structure On (tb : Table) (t : TableImg) (ipos : Spec.Pos) (it : TableIter) : Prop where
  table : it.table = tb
  on : IterOn t.index.contents t.index.es t.index.rs ipos it

section
variable (cmp : Cmp) (hc : cmp.Lawful) (p : FilterPolicy) (t : TableImg) (hwf : t.WF cmp)
  (fv : Option Bytes) (tb : Table) (hop : Opened tb t cmp p fv)
include hc hwf hop

theorem index_val (j : Nat) (k v : Bytes)
    (h : (kvOf t.index.contents t.index.es)[j]? = some (k, v)) : HVal t v := by
  have hk : kvOf t.index.contents t.index.es = t.blocks.map (fun d => (d.sep, d.hval)) := hwf.indexKVs
  rw [hk, List.getElem?_map] at h
  cases hd : t.blocks[j]? with
  | none => rw [hd] at h; cases h
  | some d =>
    rw [hd] at h
    simp only [Option.map_some, Option.some.injEq, Prod.mk.injEq] at h
    exact ⟨d, List.mem_of_getElem? hd, h.2.symm⟩

theorem On.good {ipos it} (h : On tb t ipos it) : Good tb it :=
  ⟨h.on.ok hwf.indexWF.1, h.table⟩

theorem Good.on {it} (h : Good tb it) : ∃ ipos, On tb t ipos it := by
  obtain ⟨es, rs, ipos, wf, hon⟩ := IterOK.on h.1
  have hib : it.table.indexBlock = t.index.contents := by rw [h.2, hop.index]
  rw [hib] at wf hon
  obtain ⟨rfl, rfl⟩ := blockWF_unique wf hwf.indexWF.1
  exact ⟨ipos, h.2, hon⟩

theorem handleOK (hfwf : ∀ fb, fv = some fb → FilterBlockReader.isWellFormed fb = true) : HandleOK tb := by
  refine ⟨?_, ?_⟩
  · rw [hop.index]
    refine ⟨?_, hwf.indexWF.2⟩
    have h := hwf.indexRead
    unfold tableBlockAt at h
    split at h
    · rename_i c hc'
      split at h
      · rename_i hw; cases h; exact hw
      · cases h
    · rename_i r hr
      rw [h] at hr
      exact absurd rfl (hr _)
  · intro r hr
    obtain ⟨fb, hfv, hn⟩ := hop.filter_some hr
    exact ⟨fb, hfwf fb hfv, hn⟩

/-- whatever the index iterator of this table stands on is an index entry of the table -/
theorem sure_curKV_idx {P : World → Prop} {bi : BlockIter} (h : BlkOn t.index.contents bi) :
    Sure P (curKV bi) (fun kv => ∀ k v, kv = some (k, v) → HVal t v) := by
  obtain ⟨es, rs, pos, wf, hs⟩ := h
  obtain ⟨rfl, rfl⟩ := blockWF_unique wf hwf.indexWF.1
  refine sure_lift (simB_current wf hs) ?_
  intro k v hkv
  cases pos with
  | none => cases hkv
  | some j => exact index_val cmp hc p t hwf fv tb hop j k v hkv

variable (hns : NoShortCollision t)
include hns

theorem safe_readBlock' (d : DBlock) (hd : d ∈ t.blocks) :
    Safe (Inv tb t) (tb.readBlock d.handle) GoodBlock := by
  intro w ⟨hf, hcoh, hcv⟩
  obtain ⟨h1, h2, _⟩ := readBlock_faulty cmp hc p t hwf fv tb hop hns w hf hcoh d hd
  obtain ⟨h3, h4⟩ := safe_readBlock tb d.handle w hcv
  exact ⟨⟨h1, h2, h3⟩, h4⟩

theorem safe_loadBlock' (it : TableIter) (htb : it.table = tb) (val : Bytes) (hv : HVal t val) :
    Safe (Inv tb t) (it.loadBlock val)
      (fun it' => it'.table = it.table ∧ it'.indexBlock = it.indexBlock
        ∧ ∃ cb, it'.currentBlock = some cb ∧ BlkOK cb) := by
  obtain ⟨d, hd, rfl⟩ := hv
  obtain ⟨n, hdec⟩ := hwf.hval d hd
  unfold TableIter.loadBlock
  rw [hdec, htb]
  simp only
  refine safe_bind (safe_readBlock' cmp hc p t hwf fv tb hop hns d hd) ?_
  intro b hb
  refine safe_bind (Q := BlkOn b) (sure_lift' ?_).safe ?_
  · exact blk_iter _ hb.1
  intro bi hbi
  exact safe_pure _ ⟨rfl, rfl, bi, rfl, b, hb.2, hbi⟩

theorem sure_skipToNextEntry' {ipos it} (h : On tb t ipos it) :
    Sure (Inv tb t) (it.skipToNextEntry) (fun r =>
      On tb t (Spec.advance (kvOf t.index.contents t.index.es) ipos).1 r.1
        ∧ (r.2 ≠ .ok false → (Spec.advance (kvOf t.index.contents t.index.es) ipos).1 ≠ none)) := by
  have wf := hwf.indexWF.1
  have hsmall := hwf.indexWF.2
  obtain ⟨htb, h⟩ := h
  obtain ⟨ib', hn, hs⟩ := simB_next wf hsmall h.index
  unfold TableIter.skipToNextEntry
  refine sure_bind (sure_lift hn (Q := fun r => r = (ib', Spec.entryAt (kvOf t.index.contents t.index.es)
    (Spec.advance (kvOf t.index.contents t.index.es) ipos).1)) rfl) ?_
  intro r hr
  subst hr
  simp only
  cases hadv : (Spec.advance (kvOf t.index.contents t.index.es) ipos).1 with
  | none =>
    simp only [Spec.entryAt]
    rw [hadv] at hs
    refine sure_pure _ ⟨⟨htb, h.tbl, h.handle, hs, h.cur⟩, ?_⟩
    intro hne; exact absurd rfl hne
  | some j' =>
    rw [hadv] at hs
    obtain ⟨e, he, _⟩ := hs.at_
    have hval : HVal t ((t.index.contents.drop e.valOff).take e.valLen) :=
      index_val cmp hc p t hwf fv tb hop j' e.key _ (by rw [kvOf_getElem?, he]; rfl)
    simp only [Spec.entryAt, kvOf_getElem?, he, Option.map_some]
    refine sure_bind (sure_try (safe_loadBlock' cmp hc p t hwf fv tb hop hns { it with indexBlock := ib' } htb _ hval)) ?_
    intro x hx
    split
    · rename_i it'
      obtain ⟨h1, h2, cb, hcb, hok⟩ := hx it' rfl
      refine sure_pure _ ⟨⟨?_, ?_, ?_, ?_, ?_⟩, by intro _ hh; cases hh⟩
      · show it'.table = tb
        rw [h1]; exact htb
      · show it'.table.indexBlock = _
        rw [h1]; exact h.tbl
      · show HandleOK it'.table
        rw [h1]; exact h.handle
      · show SimB _ _ _ it'.indexBlock (some j')
        rw [h2]; exact hs
      · intro cb' hcb'
        show BlkOK cb'
        rw [hcb] at hcb'; cases hcb'; exact hok
    · refine sure_pure _ ⟨⟨htb, h.tbl, h.handle, hs, h.cur⟩, by intro _ hh; cases hh⟩

theorem sure_advanceLoop' :
    ∀ (fuel : Nat) (it : TableIter) (ipos : Spec.Pos), On tb t ipos it →
      scanLeft t.index.es.length ipos ≤ fuel →
      Sure (Inv tb t) (it.advanceLoop fuel) (fun r => Good tb r.1) := by
  intro fuel
  induction fuel with
  | zero =>
    intro it ipos h hf
    have := scanLeft_pos h.on.index
    omega
  | succ fuel ih =>
    intro it ipos h hf
    unfold TableIter.advanceLoop
    extract_lets jp
    have hjp : ∀ s : TableIter × Bool, On tb t ipos s.1 →
        Sure (Inv tb t) (jp s) (fun r => Good tb r.1) := by
      intro s hs
      obtain ⟨it1, ok⟩ := s
      simp only [jp]
      split
      · exact sure_pure _ (hs.good cmp hc p t hwf fv tb hop)
      · have h2 : On tb t ipos { it1 with currentBlock := none } :=
          ⟨hs.table, hs.on.tbl, hs.on.handle, hs.on.index, by intro cb hcb; cases hcb⟩
        refine sure_bind (sure_skipToNextEntry' cmp hc p t hwf fv tb hop hns h2) ?_
        intro r hr
        obtain ⟨it2, res⟩ := r
        obtain ⟨hon, hres⟩ := hr
        simp only at hon hres ⊢
        have hrec : res ≠ .ok false → Sure (Inv tb t) (it2.advanceLoop fuel) (fun r => Good tb r.1) := by
          intro hne
          have hnn := hres hne
          cases hadv : (Spec.advance (kvOf t.index.contents t.index.es) ipos).1 with
          | none => exact absurd hadv hnn
          | some j' =>
            rw [hadv] at hon
            refine ih it2 (some j') hon ?_
            have := scanLeft_advance hadv (fun j hj => by subst hj; exact simB_pos_lt h.on.index)
            omega
        split
        · exact hrec (by intro hh; cases hh)
        · have hg := hon.good cmp hc p t hwf fv tb hop
          exact sure_pure _ ⟨iterOK_reset hg.1, hg.2⟩
        · exact hrec (by intro hh; cases hh)
    split
    · rename_i cb hcb
      obtain ⟨b, hb, hon⟩ := h.on.cur cb hcb
      obtain ⟨cb', ok, ha, hon'⟩ := blk_advance hb hon
      refine sure_bind (sure_lift ha (Q := fun r => r = (cb', ok)) rfl) ?_
      intro r hr
      subst hr
      simp only
      refine sure_bind (Q := fun (s : TableIter × Bool) => On tb t ipos s.1) (sure_pure _ ?_) hjp
      refine ⟨h.table, h.on.tbl, h.on.handle, h.on.index, ?_⟩
      intro cb2 hcb2
      cases hcb2
      exact ⟨b, hb, hon'⟩
    · exact sure_bind (Q := fun (s : TableIter × Bool) => On tb t ipos s.1) (sure_pure _ h) hjp

theorem sure_advance' {it} (h : Good tb it) : Sure (Inv tb t) it.advance (fun r => Good tb r.1) := by
  obtain ⟨ipos, hon⟩ := Good.on cmp hc p t hwf fv tb hop h
  unfold TableIter.advance
  refine sure_advanceLoop' cmp hc p t hwf fv tb hop hns _ it ipos hon ?_
  have h1 := scanLeft_le hon.on.index
  have h2 := hwf.indexWF.1.length_le
  rw [hon.on.index.block]
  omega

theorem sure_next' {it} (h : Good tb it) : Sure (Inv tb t) it.next (fun r => Good tb r.1) := by
  unfold TableIter.next
  refine sure_bind (sure_advance' cmp hc p t hwf fv tb hop hns h) ?_
  intro r hr
  obtain ⟨it1, ok⟩ := r
  simp only at hr ⊢
  split
  · exact sure_pure _ hr
  · refine sure_bind (sure_current hr.1) ?_
    intro c _
    exact sure_pure _ hr

theorem good_reset {it} (h : Good tb it) : Good tb it.reset := ⟨iterOK_reset h.1, h.2⟩

theorem sure_seekToFirst' {it} (h : Good tb it) : Sure (Inv tb t) it.seekToFirst (Good tb) := by
  unfold TableIter.seekToFirst
  refine sure_bind (sure_advance' cmp hc p t hwf fv tb hop hns (good_reset cmp hc p t hwf fv tb hop hns h)) ?_
  intro r hr
  obtain ⟨it1, ok⟩ := r
  exact sure_pure _ hr

theorem sure_seek' {it} (h : Good tb it) (to : Bytes) : Sure (Inv tb t) (it.seek to) (Good tb) := by
  obtain ⟨h, htb⟩ := h
  have hib : it.table.indexBlock = t.index.contents := by rw [htb, hop.index]
  unfold TableIter.seek
  obtain ⟨ib', hseek, hon'⟩ := blk_seek it.table.opt.cmp h.handle.index.2 h.index to
  refine sure_bind (sure_lift hseek (Q := fun r => r = ib') rfl) ?_
  intro r hr
  subst hr
  simp only
  have h1 : Good tb { it with indexBlock := r } := ⟨⟨h.handle, hon', h.cur⟩, htb⟩
  refine sure_bind (sure_curKV_idx cmp hc p t hwf fv tb hop (hib ▸ hon')) ?_
  intro kv hkv
  split
  · rename_i pastBlock handle
    have hval : HVal t handle := hkv _ _ rfl
    split
    · refine sure_bind (sure_try (safe_loadBlock' cmp hc p t hwf fv tb hop hns { it with indexBlock := r } htb _ hval)) ?_
      intro x hx
      split
      · rename_i it2
        obtain ⟨ht, hi, cb, hcb, hok⟩ := hx it2 rfl
        have ht2 : it2.table = tb := by rw [ht]; exact htb
        have h2 : IterOK it2 := by
          refine ⟨by rw [ht]; exact h.handle, by rw [ht, hi]; exact hon', ?_⟩
          intro cb' hcb'
          rw [hcb] at hcb'; cases hcb'; exact hok
        rw [hcb]
        simp only
        obtain ⟨b, hb, hon⟩ := hok
        obtain ⟨cb2, hs2, hon2⟩ := blk_seek it2.table.opt.cmp hb hon to
        refine sure_bind (sure_lift hs2 (Q := fun r => r = cb2) rfl) ?_
        intro r2 hr2
        subst hr2
        split
        · have h3 : Good tb { it2 with currentBlock := (none : Option BlockIter) } :=
            ⟨⟨h2.handle, h2.index, by intro cb' hcb'; cases hcb'⟩, ht2⟩
          refine sure_bind (sure_advance' cmp hc p t hwf fv tb hop hns h3) ?_
          intro r3 hr3
          obtain ⟨it3, ok⟩ := r3
          exact sure_pure _ hr3
        · refine sure_pure _ ⟨⟨h2.handle, h2.index, ?_⟩, ht2⟩
          intro cb' hcb'
          cases hcb'
          exact ⟨b, hb, hon2⟩
      · exact sure_pure _ (good_reset cmp hc p t hwf fv tb hop hns h1)
    · exact sure_pure _ (good_reset cmp hc p t hwf fv tb hop hns h1)
  · exact sure_pure _ (good_reset cmp hc p t hwf fv tb hop hns h1)

theorem sure_prev' {it} (h : Good tb it) : Sure (Inv tb t) it.prev (fun r => Good tb r.1) := by
  unfold TableIter.prev
  extract_lets jp
  have hjp : ∀ s : TableIter × Bool, Good tb s.1 → Sure (Inv tb t) (jp s) (fun r => Good tb r.1) := by
    intro s hs
    obtain ⟨it1, ok⟩ := s
    simp only [jp]
    simp only at hs
    obtain ⟨hs, htb⟩ := hs
    have hib : it1.table.indexBlock = t.index.contents := by rw [htb, hop.index]
    split
    · exact sure_pure _ ⟨hs, htb⟩
    · obtain ⟨ib', ok', hp, hon'⟩ := blk_prev hs.handle.index.2 hs.index
      refine sure_bind (sure_lift hp (Q := fun r => r = (ib', ok')) rfl) ?_
      intro r hr
      subst hr
      simp only
      have h1 : Good tb { it1 with indexBlock := ib' } := ⟨⟨hs.handle, hon', hs.cur⟩, htb⟩
      split
      · refine sure_bind (sure_curKV_idx cmp hc p t hwf fv tb hop (hib ▸ hon')) ?_
        intro kv hkv
        split
        · rename_i k handle
          have hval : HVal t handle := hkv _ _ rfl
          refine sure_bind (sure_try (safe_loadBlock' cmp hc p t hwf fv tb hop hns { it1 with indexBlock := ib' } htb _ hval)) ?_
          intro x hx
          split
          · rename_i it2
            obtain ⟨ht, hi, cb, hcb, hok⟩ := hx it2 rfl
            have ht2 : it2.table = tb := by rw [ht]; exact htb
            have h2 : IterOK it2 := by
              refine ⟨by rw [ht]; exact hs.handle, by rw [ht, hi]; exact hon', ?_⟩
              intro cb' hcb'
              rw [hcb] at hcb'; cases hcb'; exact hok
            rw [hcb]
            simp only
            obtain ⟨b, hb, hon⟩ := hok
            obtain ⟨cb2, hs2, hon2⟩ := blk_seekToLast hb hon
            refine sure_bind (sure_lift hs2 (Q := fun r => r = cb2) rfl) ?_
            intro r2 hr2
            subst hr2
            refine sure_pure _ ⟨⟨h2.handle, h2.index, ?_⟩, ht2⟩
            intro cb' hcb'
            cases hcb'
            exact ⟨b, hb, hon2⟩
          · exact sure_pure _ (good_reset cmp hc p t hwf fv tb hop hns h1)
        · exact sure_pure _ h1
      · exact sure_pure _ (good_reset cmp hc p t hwf fv tb hop hns h1)
  obtain ⟨h, htb⟩ := h
  split
  · rename_i cb hcb
    obtain ⟨b, hb, hon⟩ := h.cur cb hcb
    obtain ⟨cb', ok, ha, hon'⟩ := blk_prev hb hon
    refine sure_bind (sure_lift ha (Q := fun r => r = (cb', ok)) rfl) ?_
    intro r hr
    subst hr
    simp only
    refine sure_bind (Q := fun (s : TableIter × Bool) => Good tb s.1) (sure_pure _ ?_) hjp
    refine ⟨⟨h.handle, h.index, ?_⟩, htb⟩
    intro cb2 hcb2
    cases hcb2
    exact ⟨b, hb, hon'⟩
  · exact sure_bind (Q := fun (s : TableIter × Bool) => Good tb s.1) (sure_pure _ ⟨h, htb⟩) hjp

theorem sure_call' {it} (h : Good tb it) (op : Spec.IterOp) :
    Sure (Inv tb t) (it.call op) (fun r => Good tb r.1) := by
  cases op with
  | advance =>
    exact sure_bind (sure_advance' cmp hc p t hwf fv tb hop hns h) (fun r hr => sure_pure _ hr)
  | next =>
    exact sure_bind (sure_next' cmp hc p t hwf fv tb hop hns h) (fun r hr => sure_pure _ hr)
  | prev =>
    exact sure_bind (sure_prev' cmp hc p t hwf fv tb hop hns h) (fun r hr => sure_pure _ hr)
  | reset => exact sure_pure _ (good_reset cmp hc p t hwf fv tb hop hns h)
  | seekToFirst =>
    exact sure_bind (sure_seekToFirst' cmp hc p t hwf fv tb hop hns h) (fun r hr => sure_pure _ hr)
  | seek k =>
    exact sure_bind (sure_seek' cmp hc p t hwf fv tb hop hns h k) (fun r hr => sure_pure _ hr)
  | valid => exact sure_pure _ h
  | current =>
    exact sure_bind (sure_current h.1) (fun r _ => sure_pure _ h)
  | currentKey => exact sure_pure _ h

end
end FT

section
variable (cmp : Cmp) (hc : cmp.Lawful) (p : FilterPolicy) (t : TableImg) (hwf : t.WF cmp)
  (fv : Option Bytes) (tb : Table) (hop : Opened tb t cmp p fv)
include hc hwf hop

/-- one iterator call under any schedule, strong form: it succeeds (C08), the iterator invariant, the
    file, the coherence and the validity of the cache are kept -/
theorem iter_call_faulty' (hns : NoShortCollision t) (it : TableIter) (hit : IterOK it) (htab : it.table = tb)
    (op : Spec.IterOp) (w : World) (hf : FileOK w tb.file t.img) (hcoh : Coherent w tb.cacheId t)
    (hcv : CacheValid w) :
    ∃ it' out, (it.call op w).2 = .ok (it', out) ∧ IterOK it' ∧ it'.table = tb
      ∧ FileOK (it.call op w).1 tb.file t.img ∧ Coherent (it.call op w).1 tb.cacheId t
      ∧ CacheValid (it.call op w).1 := by
  obtain ⟨⟨h1, h2, h3⟩, ⟨it', out⟩, ha, hq⟩ :=
    FT.sure_call' cmp hc p t hwf fv tb hop hns ⟨hit, htab⟩ op w ⟨hf, hcoh, hcv⟩
  exact ⟨it', out, ha, hq.1, hq.2, h1, h2, h3⟩

/-- iterator calls under any schedule keep the file and the coherence of the cache (they never fail: C08) -/
theorem iter_call_faulty (hns : NoShortCollision t) (it : TableIter) (hit : IterOK it) (htab : it.table = tb)
    (op : Spec.IterOp) (w : World) (hf : FileOK w tb.file t.img) (hcoh : Coherent w tb.cacheId t)
    (hcv : CacheValid w) :
    FileOK (it.call op w).1 tb.file t.img ∧ Coherent (it.call op w).1 tb.cacheId t := by
  obtain ⟨_, _, _, _, _, h1, h2, _⟩ :=
    iter_call_faulty' cmp hc p t hwf fv tb hop hns it hit htab op w hf hcoh hcv
  exact ⟨h1, h2⟩

/-- a lookup under any schedule keeps the whole world invariant and is right or an error -/
theorem get_faulty_inv (hsound : ∀ fb, fv = some fb → FilterSound p t fb)
    (hfwf : ∀ fb, fv = some fb → FilterBlockReader.isWellFormed fb = true) (hns : NoShortCollision t)
    (w : World) (hi : FT.Inv tb t w) (k : Bytes) :
    FT.Inv tb t (tb.get k w).1
      ∧ ((tb.get k w).2 = .ok (Spec.lookup cmp t.entries k) ∨ ∃ c, (tb.get k w).2 = .err c) := by
  obtain ⟨hf, hcoh, hcv⟩ := hi
  obtain ⟨h1, h2, h3⟩ := get_faulty cmp hc p t hwf fv tb hop hsound hfwf hns w hf hcoh k
  obtain ⟨_, h4⟩ := get_total tb (FT.handleOK cmp hc p t hwf fv tb hop hfwf) k w hcv
  exact ⟨⟨h1, h2, h4⟩, h3⟩

end

/-! ### `NoShortCollision` for short reads that miss at most 4 bytes -/

theorem FT.cleanBuf_length (img : Bytes) (off len : Nat) : (cleanBuf img off len).length = len := by
  unfold cleanBuf
  simp only [List.length_append, List.length_take, List.length_drop, List.length_replicate]
  omega

theorem FT.blockAt_of_tableBlockAt {img : Bytes} {h : BlockHandle} {c : Bytes}
    (hr : tableBlockAt img h = .ok c) : blockAt img h = .ok c ∧ Block.isWellFormed c = true := by
  unfold tableBlockAt at hr
  split at hr
  · rename_i c' hc'
    split at hr
    · rename_i hw; cases hr; exact ⟨hc', hw⟩
    · cases hr
  · rename_i r hne
    rw [hr] at hne
    exact absurd rfl (hne _)

/-- the instance of `NoShortCollision` that needs no assumption: a short read of a data block that misses
    at most its last 4 bytes (they lie in the checksum field) either changes nothing or is rejected as
    `Corruption` (`verifyBlock_detects_cksum`) -/
theorem FT.short_tail_no_collision (cmp : Cmp) (t : TableImg) (hwf : t.WF cmp) (d : DBlock) (hd : d ∈ t.blocks)
    (k : Nat) (c : Bytes) (hk1 : d.handle.size + 1 ≤ k) (hk2 : k ≤ d.handle.size + 5)
    (hv : verifyBlock (((cleanBuf t.img d.handle.offset (d.handle.size + 5)).take k)
        ++ List.replicate (d.handle.size + 5 - k) 0) d.handle.size = .ok c) :
    c = d.blk.contents := by
  have hread : verifyBlock (cleanBuf t.img d.handle.offset (d.handle.size + 5)) d.handle.size
      = .ok d.blk.contents := (FT.blockAt_of_tableBlockAt (hwf.dataRead d hd)).1
  generalize hbuf : cleanBuf t.img d.handle.offset (d.handle.size + 5) = buf at hv hread
  have hlen : buf.length = d.handle.size + 5 := by rw [← hbuf]; exact FT.cleanBuf_length _ _ _
  have hsplit : buf = buf.take (d.handle.size + 1) ++ buf.drop (d.handle.size + 1) :=
    (List.take_append_drop _ _).symm
  generalize hbody : buf.take (d.handle.size + 1) = body at hsplit
  generalize hck : buf.drop (d.handle.size + 1) = ck at hsplit
  have hbl : body.length = d.handle.size + 1 := by rw [← hbody, List.length_take]; omega
  have hckl : ck.length = 4 := by rw [← hck, List.length_drop]; omega
  subst hsplit
  have htk : (body ++ ck).take k = body ++ ck.take (k - (d.handle.size + 1)) := by
    rw [List.take_append, hbl, List.take_of_length_le (by omega)]
  rw [htk, List.append_assoc] at hv
  by_cases hsame : ck = ck.take (k - (d.handle.size + 1)) ++ List.replicate (d.handle.size + 5 - k) 0
  · rw [← hsame, hread] at hv
    exact (Res.ok.inj hv).symm
  · have := verifyBlock_detects_cksum body ck _
      hckl (by simp only [List.length_append, List.length_take, List.length_replicate]; omega) hsame
      d.handle.size hbl.symm _ hread
    rw [this] at hv
    cases hv

/-! ### sessions: arbitrary interleavings of lookups and iterator calls under arbitrary schedules -/

namespace FT

/-- one step of a client session on a table handle (and of its environment) -/
inductive Ev where
  /-- `Table::get` -/
  | get (k : Bytes)
  /-- `Table::iter`: the new iterator joins the family -/
  | newIter
  /-- one call on the `i`-th iterator of the family (ignored if there is none) -/
  | call (i : Nat) (op : Spec.IterOp)
  /-- the environment re-arms the fault schedule of the source -/
  | faults (s : List Fault)

/-- session state: the world, the family of live iterators, the log of lookups (most recent first) and
    the number of iterator calls that did not return `ok` -/
structure Sess where
  w : World
  its : List TableIter
  gets : List (Bytes × Res (Option Bytes)) := []
  failedCalls : Nat := 0

def step (tb : Table) (s : Sess) : Ev → Sess
  | .get k => { s with w := (tb.get k s.w).1, gets := (k, (tb.get k s.w).2) :: s.gets }
  | .newIter =>
    match TableIter.new tb s.w with
    | (w', .ok it) => { s with w := w', its := s.its ++ [it] }
    | (w', _) => { s with w := w' }
  | .call i op =>
    match s.its[i]? with
    | none => s
    | some it =>
      match it.call op s.w with
      | (w', .ok (it', _)) => { s with w := w', its := s.its.set i it' }
      | (w', _) => { s with w := w', failedCalls := s.failedCalls + 1 }
  | .faults sch => { s with w := { s.w with sched := sch } }

def run (tb : Table) (evs : List Ev) (s : Sess) : Sess := evs.foldl (step tb) s

/-- the session invariant -/
structure SessOK (cmp : Cmp) (tb : Table) (t : TableImg) (s : Sess) : Prop where
  inv : Inv tb t s.w
  its : ∀ it ∈ s.its, Good tb it
  gets : ∀ e ∈ s.gets, e.2 = .ok (Spec.lookup cmp t.entries e.1) ∨ ∃ c, e.2 = .err c
  calls : s.failedCalls = 0

section
variable (cmp : Cmp) (hc : cmp.Lawful) (p : FilterPolicy) (t : TableImg) (hwf : t.WF cmp)
  (fv : Option Bytes) (tb : Table) (hop : Opened tb t cmp p fv)
  (hsound : ∀ fb, fv = some fb → FilterSound p t fb)
  (hfwf : ∀ fb, fv = some fb → FilterBlockReader.isWellFormed fb = true) (hns : NoShortCollision t)
include hc hwf hop hsound hfwf hns

theorem step_ok (s : Sess) (hs : SessOK cmp tb t s) (e : Ev) : SessOK cmp tb t (step tb s e) := by
  cases e with
  | get k =>
    obtain ⟨h1, h2⟩ := get_faulty_inv cmp hc p t hwf fv tb hop hsound hfwf hns s.w hs.inv k
    refine ⟨h1, hs.its, ?_, hs.calls⟩
    intro e he
    rcases List.mem_cons.mp he with rfl | he
    · exact h2
    · exact hs.gets e he
  | newIter =>
    obtain ⟨it, hnew, hok⟩ := iter_new_total tb (handleOK cmp hc p t hwf fv tb hop hfwf) s.w
    have htab : it.table = tb := by
      unfold TableIter.new at hnew
      obtain ⟨ib, hi, _⟩ := TT.blk_iter tb.indexBlock (handleOK cmp hc p t hwf fv tb hop hfwf).index.1
      rw [TI.lift_bind hi] at hnew
      cases hnew
      rfl
    unfold step
    simp only [hnew]
    refine ⟨hs.inv, ?_, hs.gets, hs.calls⟩
    intro it' hit'
    rcases List.mem_append.mp hit' with h | h
    · exact hs.its it' h
    · rw [List.mem_singleton.mp h]; exact ⟨hok, htab⟩
  | call i op =>
    unfold step
    simp only
    cases hi : s.its[i]? with
    | none => exact hs
    | some it =>
      simp only []
      have hg := hs.its it (List.mem_of_getElem? hi)
      obtain ⟨hinv, ⟨it', out⟩, ha, hq⟩ := sure_call' cmp hc p t hwf fv tb hop hns hg op s.w hs.inv
      rcases hcall : it.call op s.w with ⟨w', r⟩
      rw [hcall] at ha hinv
      simp only at ha hinv
      subst ha
      refine ⟨hinv, ?_, hs.gets, hs.calls⟩
      intro x hx
      rcases List.mem_or_eq_of_mem_set hx with h | h
      · exact hs.its x h
      · rw [h]; exact hq
  | faults sch => exact ⟨hs.inv, hs.its, hs.gets, hs.calls⟩

theorem run_ok (evs : List Ev) : ∀ (s : Sess), SessOK cmp tb t s → SessOK cmp tb t (run tb evs s) := by
  induction evs with
  | nil => intro s hs; exact hs
  | cons e evs ih =>
    intro s hs
    exact ih _ (step_ok cmp hc p t hwf fv tb hop hsound hfwf hns s hs e)

end
end FT
end Sst

/-! ### C07 at table level: one damaged data block -/

namespace Sst
set_option linter.unusedSectionVars false

/-- `img'` is the image of `t` with the stored bytes of ONE data block `d0` altered: same length, same
    footer, and the buffers a reader obtains for the index block, the metaindex block, the filter block (any
    handle the metaindex records under the policy's name) and every other data block are unchanged; the
    damaged block no longer verifies (`FT.blockAt_altered`, `FT.blockAt_altered_cksum`: true for every
    alteration confined to ≤ 4 consecutive bytes of contents+type, or to the checksum field) -/
structure Damaged (p : FilterPolicy) (t : TableImg) (d0 : DBlock) (img' : Bytes) : Prop where
  mem : d0 ∈ t.blocks
  len : img'.length = t.img.length
  footer : img'.drop (img'.length - 48) = t.img.drop (t.img.length - 48)
  index : cleanBuf img' t.indexHandle.offset (t.indexHandle.size + 5)
            = cleanBuf t.img t.indexHandle.offset (t.indexHandle.size + 5)
  metaix : cleanBuf img' t.metaHandle.offset (t.metaHandle.size + 5)
            = cleanBuf t.img t.metaHandle.offset (t.metaHandle.size + 5)
  filter : ∀ v fh n, (Table.filterName p, v) ∈ t.metaix.kvs → BlockHandle.tryDecode v = some (fh, n) →
            cleanBuf img' fh.offset (fh.size + 5) = cleanBuf t.img fh.offset (fh.size + 5)
  data : ∀ d ∈ t.blocks, d ≠ d0 →
            cleanBuf img' d.handle.offset (d.handle.size + 5) = cleanBuf t.img d.handle.offset (d.handle.size + 5)
  bad : blockAt img' d0.handle = .err .corruption

/-- the cache holds, under this table's id, only true contents of data blocks other than `d0` -/
def CoherentBut (w : World) (cacheId : Nat) (t : TableImg) (d0 : DBlock) : Prop :=
  ∀ off c, ((cacheId, off), c) ∈ w.cache.entries →
    ∃ d ∈ t.blocks, d ≠ d0 ∧ d.handle.offset % 2 ^ 64 = off ∧ d.blk.contents = c

/-- the index routes key `k` to data block `d` -/
def Routed (cmp : Cmp) (t : TableImg) (k : Bytes) (d : DBlock) : Prop :=
  ∃ bi, Spec.lowerBound cmp (t.seps.map (fun s => (s, ([] : Bytes)))) k = some bi ∧ t.blocks[bi]? = some d

namespace FT

theorem blockAt_congr {img img' : Bytes} {h : BlockHandle}
    (he : cleanBuf img' h.offset (h.size + 5) = cleanBuf img h.offset (h.size + 5)) :
    blockAt img' h = blockAt img h := by
  show verifyBlock (cleanBuf img' h.offset (h.size + 5)) h.size
      = verifyBlock (cleanBuf img h.offset (h.size + 5)) h.size
  rw [he]

theorem tableBlockAt_congr {img img' : Bytes} {h : BlockHandle}
    (he : cleanBuf img' h.offset (h.size + 5) = cleanBuf img h.offset (h.size + 5)) :
    tableBlockAt img' h = tableBlockAt img h := by
  unfold tableBlockAt
  rw [blockAt_congr he]

theorem cleanBuf_inbounds (img : Bytes) (off len : Nat) (h : off + len ≤ img.length) :
    cleanBuf img off len = (img.drop off).take len := by
  unfold cleanBuf
  have : len - min len (img.length - off) = 0 := by omega
  rw [this, List.replicate_zero, List.append_nil]

/-- the slice of `pre ++ w ++ post` that covers the window `w` -/
theorem slice_window (pre w post : Bytes) (off n : Nat) (ho : off ≤ pre.length)
    (hn : pre.length - off + w.length ≤ n) :
    ((pre ++ w ++ post).drop off).take n
      = pre.drop off ++ w ++ post.take (n - (pre.length - off) - w.length) := by
  rw [List.append_assoc, List.drop_append_of_le_length ho, List.take_append,
    List.take_of_length_le (by rw [List.length_drop]; omega), List.take_append,
    List.take_of_length_le (by rw [List.length_drop]; omega), List.length_drop, List.append_assoc]

/-- C07: every alteration of a verified physical block confined to ≤ 4 consecutive bytes of its
    contents + type byte makes the block unreadable: `Corruption` -/
theorem blockAt_altered (pre w w' post : Bytes) (h : BlockHandle) (c : Bytes)
    (hlen : w.length = w'.length) (h4 : w.length ≤ 4) (hne : w ≠ w')
    (hlo : h.offset ≤ pre.length) (hhi : pre.length + w.length ≤ h.offset + h.size + 1)
    (hb : h.offset + h.size + 5 ≤ (pre ++ w ++ post).length)
    (hok : blockAt (pre ++ w ++ post) h = .ok c) :
    blockAt (pre ++ w' ++ post) h = .err .corruption := by
  have hb' : h.offset + h.size + 5 ≤ (pre ++ w' ++ post).length := by
    simp only [List.length_append] at hb ⊢; omega
  have e1 : cleanBuf (pre ++ w ++ post) h.offset (h.size + 5)
      = pre.drop h.offset ++ w ++ post.take (h.size + 5 - (pre.length - h.offset) - w.length) := by
    rw [cleanBuf_inbounds _ _ _ (by omega), slice_window _ _ _ _ _ hlo (by omega)]
  have e2 : cleanBuf (pre ++ w' ++ post) h.offset (h.size + 5)
      = pre.drop h.offset ++ w' ++ post.take (h.size + 5 - (pre.length - h.offset) - w.length) := by
    rw [cleanBuf_inbounds _ _ _ (by omega), slice_window _ _ _ _ _ hlo (by omega), hlen]
  have hok' : verifyBlock (cleanBuf (pre ++ w ++ post) h.offset (h.size + 5)) h.size = .ok c := hok
  show verifyBlock (cleanBuf (pre ++ w' ++ post) h.offset (h.size + 5)) h.size = .err .corruption
  rw [e1] at hok'
  rw [e2]
  -- split the tail into the rest of the body and the checksum field
  generalize hm : h.size + 5 - (pre.length - h.offset) - w.length = m at hok' ⊢
  have hsp : post.take m = post.take (m - 4) ++ (post.drop (m - 4)).take 4 := by
    have : m = (m - 4) + 4 := by omega
    conv => lhs; rw [this]
    rw [List.take_add]
  rw [hsp, ← List.append_assoc] at hok' ⊢
  have hpl : m ≤ post.length := by
    simp only [List.length_append] at hb; omega
  refine verifyBlock_detects_burst _ w w' _ _ hlen h4 hne h.size ?_ c hok'
  simp only [List.length_append, List.length_drop, List.length_take]
  omega

/-- C07: … and so does every alteration confined to the 4 checksum bytes -/
theorem blockAt_altered_cksum (pre ck ck' post : Bytes) (h : BlockHandle) (c : Bytes)
    (hck : ck.length = 4) (hck' : ck'.length = 4) (hne : ck ≠ ck')
    (hat : pre.length = h.offset + h.size + 1)
    (hok : blockAt (pre ++ ck ++ post) h = .ok c) :
    blockAt (pre ++ ck' ++ post) h = .err .corruption := by
  have e : ∀ x : Bytes, x.length = 4 → cleanBuf (pre ++ x ++ post) h.offset (h.size + 5)
      = pre.drop h.offset ++ x := by
    intro x hx
    rw [cleanBuf_inbounds _ _ _ (by simp only [List.length_append]; omega),
      slice_window _ _ _ _ _ (by omega) (by omega)]
    have : h.size + 5 - (pre.length - h.offset) - x.length = 0 := by omega
    rw [this, List.take_zero, List.append_nil]
  have hok' : verifyBlock (cleanBuf (pre ++ ck ++ post) h.offset (h.size + 5)) h.size = .ok c := hok
  show verifyBlock (cleanBuf (pre ++ ck' ++ post) h.offset (h.size + 5)) h.size = .err .corruption
  rw [e ck hck] at hok'
  rw [e ck' hck']
  exact verifyBlock_detects_cksum _ ck ck' hck hck' hne h.size
    (by rw [List.length_drop]; omega) c hok'

section
variable (cmp : Cmp) (hc : cmp.Lawful) (p : FilterPolicy) (t : TableImg) (hwf : t.WF cmp)
  (fv : Option Bytes) (d0 : DBlock) (img' : Bytes) (hdm : Damaged p t d0 img')
include hc hwf hdm

/-- `Table::read_filter_block` on the damaged image: as on the intact one -/
theorem readFilterBlock_dmg (hfv : FilterView p t fv) (w : World) (file : Nat)
    (hcw : CleanWorld w file img') :
    ∃ w' r, Table.readFilterBlock t.metaix.contents file img'.length ⟨cmp, p⟩ w = (w', .ok r)
      ∧ FiltersOK fv r
      ∧ CleanWorld w' file img' ∧ w'.cache = w.cache ∧ w'.files = w.files ∧ w'.events = w.events := by
  obtain ⟨it, it', hit, hseek, hcur⟩ :=
    metaix_lookup cmp hc t.metaix hwf.metaWF hwf.metaSorted (Table.filterName p)
  unfold Table.readFilterBlock
  simp only [bind, M.bind', M.lift, curKV, hit, hseek, hcur]
  cases hfv with
  | absent h =>
    have hne := entryAt_lowerBound_of_not_mem cmp t.metaix.kvs (Table.filterName p) h
    cases he : Spec.entryAt t.metaix.kvs (Spec.lowerBound cmp t.metaix.kvs (Table.filterName p)) with
    | none => exact ⟨w, none, rfl, rfl, hcw, rfl, rfl, rfl⟩
    | some e =>
      obtain ⟨k, v⟩ := e
      have hk : k ≠ Table.filterName p := hne _ he
      simp only [hk, ne_eq, not_false_eq_true, if_true]
      exact ⟨w, none, rfl, rfl, hcw, rfl, rfl, rfl⟩
  | empty v fh n h hd hz =>
    have he := entryAt_lowerBound_of_mem cmp hc t.metaix.kvs
      (by rw [PBlock.kvs_keys]; exact hwf.metaSorted) _ _ h
    simp only [he, ne_eq, not_true_eq_false, if_false, hd, hz, Nat.lt_irrefl, gt_iff_lt]
    exact ⟨w, none, rfl, rfl, hcw, rfl, rfl, rfl⟩
  | present v fh n fb h hd hz hb hr hw =>
    have he := entryAt_lowerBound_of_mem cmp hc t.metaix.kvs
      (by rw [PBlock.kvs_keys]; exact hwf.metaSorted) _ _ h
    have hr' : blockAt img' fh = .ok fb := by rw [blockAt_congr (hdm.filter v fh n h hd)]; exact hr
    obtain ⟨w', r, hrd, hnew, hc', h1, h2, h3⟩ := readFilterBlock_clean w file img' fh fb hcw hz hr' hw
    have hchk := (checkBlockBounds_iff fh img'.length w).1 (hdm.len ▸ hb)
    simp only [he, ne_eq, not_true_eq_false, if_false, hd, hz, if_true, M.bind', hchk, hrd]
    exact ⟨w', some r, rfl, ⟨r, hnew, rfl⟩, hc', h1, h2, h3⟩

/-- `Table::new` on the damaged image: succeeds, with the very handle it returns for the intact image -/
theorem open_dmg (hfv : FilterView p t fv) (w : World) (file : Nat) (hcw : CleanWorld w file img') :
    ∃ w' tb, Table.new ⟨cmp, p⟩ file img'.length w = (w', .ok tb)
      ∧ Opened tb t cmp p fv ∧ tb.file = file
      ∧ tb.cacheId = (w.cache.nextId + 1) % 2 ^ 64
      ∧ CleanWorld w' file img' ∧ w'.files = w.files
      ∧ w'.cache.entries = w.cache.entries ∧ w'.cache.cap = w.cache.cap
      ∧ w'.cache.nextId = (w.cache.nextId + 1) % 2 ^ 64
      ∧ w'.events = w.events := by
  have hsz : 48 ≤ img'.length := by rw [hdm.len]; exact hwf.size.1
  have hft' : Footer.tryDecode (img'.drop (img'.length - 48)) = some ⟨t.metaHandle, t.indexHandle⟩ := by
    rw [hdm.footer]; exact hwf.footer
  obtain ⟨w1, hft, hc1, hca1, hf1, he1⟩ := readFooter_clean w file img' _ hcw hsz hft'
  have hchk1 := (checkBlockBounds_iff t.indexHandle img'.length w1).1 (hdm.len ▸ hwf.indexBounds)
  have hchk2 := (checkBlockBounds_iff t.metaHandle img'.length w1).1 (hdm.len ▸ hwf.metaBounds)
  obtain ⟨w2, hix, hc2, hca2, hf2, he2⟩ := readTableBlock_clean w1 file img' t.indexHandle hc1
  rw [tableBlockAt_congr hdm.index, hwf.indexRead] at hix
  obtain ⟨w3, hmx, hc3, hca3, hf3, he3⟩ := readTableBlock_clean w2 file img' t.metaHandle hc2
  rw [tableBlockAt_congr hdm.metaix, hwf.metaRead] at hmx
  obtain ⟨w4, r, hfl, hfok, hc4, hca4, hf4, he4⟩ :=
    readFilterBlock_dmg cmp hc p t hwf fv d0 img' hdm hfv w3 file hc3
  unfold Table.new
  simp only [bind, M.bind', hft, hchk1, hchk2, hix, hmx, hfl, LruCache.newCacheId, pure, M.pure']
  refine ⟨_, _, rfl, ⟨hdm.len, rfl, rfl, rfl, ?_⟩, rfl, ?_, ⟨hc4.file, hc4.sched⟩, ?_, ?_, ?_, ?_, ?_⟩
  · unfold FiltersOK at hfok
    cases fv with
    | none => exact hfok
    | some fb => exact hfok
  · show (w4.cache.nextId + 1) % 2 ^ 64 = _
    rw [hca4, hca3, hca2, hca1]
  · show w4.files = w.files
    rw [hf4, hf3, hf2, hf1]
  · show w4.cache.entries = _
    rw [hca4, hca3, hca2, hca1]
  · show w4.cache.cap = _
    rw [hca4, hca3, hca2, hca1]
  · show (w4.cache.nextId + 1) % 2 ^ 64 = _
    rw [hca4, hca3, hca2, hca1]
  · show w4.events = _
    rw [he4, he3, he2, he1]

end

/-- the world right after the cache lookup of `Table::read_block` -/
def afterLookup (tb : Table) (loc : BlockHandle) (w : World) : World :=
  { w with
    cache := (w.cache.get (tb.cacheId, loc.offset % 2 ^ 64)).1,
    events := ⟨tb.cacheId, loc.offset, (w.cache.get (tb.cacheId, loc.offset % 2 ^ 64)).2.isSome⟩ :: w.events }

/-- `Table::read_block` in two steps: the cache lookup, and on a miss the read + insert -/
theorem readBlock_step (tb : Table) (loc : BlockHandle) (w : World) (hb : InBounds loc tb.fileSize) :
    tb.readBlock loc w =
      (match (w.cache.get (tb.cacheId, loc.offset % 2 ^ 64)).2 with
       | some b => (afterLookup tb loc w, .ok b)
       | none =>
         match readTableBlock tb.file loc (afterLookup tb loc w) with
         | (w2, .ok b) => ({ w2 with cache := w2.cache.insert (tb.cacheId, loc.offset % 2 ^ 64) b }, .ok b)
         | (w2, .err c) => (w2, .err c)
         | (w2, .panic s) => (w2, .panic s)
         | (w2, .diverge) => (w2, .diverge)) := by
  have hchk := (checkBlockBounds_iff loc tb.fileSize w).1 hb
  unfold Table.readBlock afterLookup
  simp only [bind, M.bind', hchk, pure]
  cases hg : (w.cache.get (tb.cacheId, loc.offset % 2 ^ 64)).2 with
  | some b => rfl
  | none =>
    show M.bind' (readTableBlock tb.file loc) _ _ = _
    unfold M.bind'
    simp only []
    rcases readTableBlock tb.file loc _ with ⟨w2, r⟩
    cases r <;> rfl

/-- the filter lets key `k` pass for block `d` (no filter: everything passes) -/
def FilterPasses (tb : Table) (p : FilterPolicy) (d : DBlock) (k : Bytes) : Prop :=
  ∀ r, tb.filters = some r → r.keyMayMatch p d.handle.offset k = .ok true

section
variable (cmp : Cmp) (hc : cmp.Lawful) (p : FilterPolicy) (t : TableImg) (hwf : t.WF cmp)
  (fv : Option Bytes) (d0 : DBlock) (img' : Bytes) (hdm : Damaged p t d0 img')
  (tb : Table) (hop : Opened tb t cmp p fv)
include hc hwf hdm hop

/-- reading (through the cache) a data block other than the damaged one: as on the intact image -/
theorem readBlock_dmg_other (w : World) (hcw : CleanWorld w tb.file img')
    (hcoh : CoherentBut w tb.cacheId t d0) (d : DBlock) (hd : d ∈ t.blocks) (hne : d ≠ d0) :
    ∃ w', tb.readBlock d.handle w = (w', .ok d.blk.contents)
      ∧ CleanWorld w' tb.file img' ∧ CoherentBut w' tb.cacheId t d0 := by
  have hb : InBounds d.handle tb.fileSize := hop.fileSize ▸ hwf.dataBounds d hd
  have hlt : d.handle.offset < 2 ^ 64 := by have := hb.1; omega
  have hw1c : (afterLookup tb d.handle w).cache = (w.cache.get (tb.cacheId, d.handle.offset % 2 ^ 64)).1 := rfl
  have hclean1 : CleanWorld (afterLookup tb d.handle w) tb.file img' := ⟨hcw.file, hcw.sched⟩
  have hsub1 : ∀ x, x ∈ (afterLookup tb d.handle w).cache.entries → x ∈ w.cache.entries := by
    intro x hx; rw [hw1c] at hx; exact LruCache.mem_get _ _ _ hx
  rw [readBlock_step tb d.handle w hb]
  cases hg : (w.cache.get (tb.cacheId, d.handle.offset % 2 ^ 64)).2 with
  | some b =>
    have hmem := LruCache.get_some_mem _ _ _ hg
    obtain ⟨d', hd', _, ho', hc'⟩ := hcoh _ _ hmem
    have hlt' : d'.handle.offset < 2 ^ 64 := by have := (hwf.dataBounds d' hd').1; omega
    have hoeq : d'.handle.offset = d.handle.offset := by
      rw [Nat.mod_eq_of_lt hlt, Nat.mod_eq_of_lt hlt'] at ho'; exact ho'
    have hbeq : b = d.blk.contents := by
      rw [← hc', hwf.block_of_offset d' hd' d hd hoeq]
    refine ⟨_, by simp only [hbeq], hclean1, ?_⟩
    intro off c hx; exact hcoh off c (hsub1 _ hx)
  | none =>
    obtain ⟨w2, hr, hclean2, hc2, _, _⟩ :=
      readTableBlock_clean (afterLookup tb d.handle w) tb.file img' d.handle hclean1
    rw [tableBlockAt_congr (hdm.data d hd hne), hwf.dataRead d hd] at hr
    simp only [hr]
    refine ⟨_, rfl, ⟨hclean2.file, hclean2.sched⟩, ?_⟩
    intro off c hx
    rcases LruCache.mem_insert _ _ _ _ hx with he | ⟨ho, _⟩
    · simp only [Prod.mk.injEq] at he
      exact ⟨d, hd, hne, he.1.2.symm, he.2.symm⟩
    · rw [hc2] at ho; exact hcoh off c (hsub1 _ ho)

/-- reading the damaged block: `Corruption`, and nothing is cached -/
theorem readBlock_dmg_bad (w : World) (hcw : CleanWorld w tb.file img')
    (hcoh : CoherentBut w tb.cacheId t d0) :
    ∃ w', tb.readBlock d0.handle w = (w', .err .corruption)
      ∧ CleanWorld w' tb.file img' ∧ CoherentBut w' tb.cacheId t d0
      ∧ w'.cache = (w.cache.get (tb.cacheId, d0.handle.offset % 2 ^ 64)).1 := by
  have hd0 := hdm.mem
  have hb : InBounds d0.handle tb.fileSize := hop.fileSize ▸ hwf.dataBounds d0 hd0
  have hlt : d0.handle.offset < 2 ^ 64 := by have := hb.1; omega
  have hw1c : (afterLookup tb d0.handle w).cache = (w.cache.get (tb.cacheId, d0.handle.offset % 2 ^ 64)).1 := rfl
  have hclean1 : CleanWorld (afterLookup tb d0.handle w) tb.file img' := ⟨hcw.file, hcw.sched⟩
  have hsub1 : ∀ x, x ∈ (afterLookup tb d0.handle w).cache.entries → x ∈ w.cache.entries := by
    intro x hx; rw [hw1c] at hx; exact LruCache.mem_get _ _ _ hx
  rw [readBlock_step tb d0.handle w hb]
  cases hg : (w.cache.get (tb.cacheId, d0.handle.offset % 2 ^ 64)).2 with
  | some b =>
    -- impossible: nothing is cached under the damaged block's offset
    have hmem := LruCache.get_some_mem _ _ _ hg
    obtain ⟨d', hd', hne', ho', _⟩ := hcoh _ _ hmem
    have hlt' : d'.handle.offset < 2 ^ 64 := by have := (hwf.dataBounds d' hd').1; omega
    have hoeq : d'.handle.offset = d0.handle.offset := by
      rw [Nat.mod_eq_of_lt hlt, Nat.mod_eq_of_lt hlt'] at ho'; exact ho'
    exact absurd (hwf.block_of_offset d' hd' d0 hd0 hoeq) hne'
  | none =>
    obtain ⟨w2, hr, hclean2, hc2, _, _⟩ :=
      readTableBlock_clean (afterLookup tb d0.handle w) tb.file img' d0.handle hclean1
    have hbad : tableBlockAt img' d0.handle = .err .corruption := by
      unfold tableBlockAt; rw [hdm.bad]
    rw [hbad] at hr
    simp only [hr]
    refine ⟨_, rfl, ⟨hclean2.file, hclean2.sched⟩, ?_, hc2.trans hw1c⟩
    intro off c hx
    rw [hc2] at hx; exact hcoh off c (hsub1 _ hx)

/-- `Table::get` on the damaged image: a key the index routes to the damaged block (and the filter lets
    pass) gets `Corruption`; every other key gets the exact answer of the intact table -/
theorem get_dmg (hsound : ∀ fb, fv = some fb → FilterSound p t fb)
    (hfwf : ∀ fb, fv = some fb → FilterBlockReader.isWellFormed fb = true)
    (w : World) (hcw : CleanWorld w tb.file img') (hcoh : CoherentBut w tb.cacheId t d0) (k : Bytes) :
    ∃ w', CleanWorld w' tb.file img' ∧ CoherentBut w' tb.cacheId t d0
      ∧ (Routed cmp t k d0 ∧ FilterPasses tb p d0 k → tb.get k w = (w', .err .corruption))
      ∧ (¬ (Routed cmp t k d0 ∧ FilterPasses tb p d0 k) →
            tb.get k w = (w', .ok (Spec.lookup cmp t.entries k))) := by
  have h2 : Spec.lookup cmp t.entries k = _ := TwoLevel.lookup_two_level cmp hc _ _ hwf.ordered k
  rw [get_reduce cmp hc p t hwf fv tb hop w k, h2]
  cases hS : Spec.lowerBound cmp (t.seps.map (fun s => (s, ([] : Bytes)))) k with
  | none =>
    refine ⟨w, hcw, hcoh, ?_, fun _ => rfl⟩
    intro ⟨⟨bi, hbi, _⟩, _⟩
    rw [hS] at hbi; cases hbi
  | some bi =>
    obtain ⟨hbi, _, _⟩ := TwoLevel.sep_lowerBound_some cmp t.seps k bi hS
    have hbi' : bi < t.blocks.length := by simpa [TableImg.seps] using hbi
    have hd : t.blocks[bi]? = some t.blocks[bi] := List.getElem?_eq_getElem hbi'
    generalize t.blocks[bi] = d at hd
    have hdm' : d ∈ t.blocks := List.mem_of_getElem? hd
    have hgd : t.kvBlocks.getD bi [] = d.blk.kvs := by
      rw [List.getD_eq_getElem?_getD, t.kvBlocks_getElem?, hd]; rfl
    simp only [hd, hgd]
    have hrouted : ∀ d', Routed cmp t k d' → d' = d := by
      intro d' ⟨bi', h1, h2⟩
      rw [hS] at h1; cases h1
      rw [hd] at h2; exact (Option.some.inj h2).symm
    -- what the filter says for block `d`
    have hfilt : (tb.getFilt d.handle k w = tb.getTail d.handle k w ∧ FilterPasses tb p d k)
        ∨ (tb.getFilt d.handle k w = (w, .ok none) ∧ Spec.lookup cmp d.blk.kvs k = none
            ∧ ¬ FilterPasses tb p d k) := by
      cases hfl : tb.filters with
      | none =>
        refine .inl ⟨?_, ?_⟩
        · unfold Table.getFilt; rw [hfl]; rfl
        · intro r hr; rw [hfl] at hr; cases hr
      | some r =>
        obtain ⟨fb, hfv, hn⟩ := hop.filter_some hfl
        obtain ⟨b, hb⟩ := keyMayMatch_total p fb r (hfwf fb hfv) hn d.handle.offset k
        have hb' : r.keyMayMatch tb.opt.filter d.handle.offset k = .ok b := by rw [hop.opt]; exact hb
        cases b with
        | true =>
          refine .inl ⟨?_, ?_⟩
          · unfold Table.getFilt; rw [hfl]; simp only [hb']; rfl
          · intro r' hr'; rw [hfl] at hr'; cases hr'; exact hb
        | false =>
          refine .inr ⟨?_, ?_, ?_⟩
          · unfold Table.getFilt; rw [hfl]; simp only [hb']; rfl
          · exact lookup_none_of_rejected cmp hc p t fb (hsound fb hfv) r hn d hdm' k hb
          · intro hpass
            have := hpass r hfl
            rw [hb] at this; cases this
    by_cases hdd : d = d0
    · subst hdd
      rcases hfilt with ⟨hge, hpass⟩ | ⟨hge, hnone, hnp⟩
      · obtain ⟨w', hrb, hcw', hcoh', _⟩ := readBlock_dmg_bad cmp hc p t hwf fv d img' hdm tb hop w hcw hcoh
        have hgt : tb.getTail d.handle k w = (w', .err .corruption) := by
          have h3 : (tb.readBlock d.handle w).2 = .err .corruption := by rw [hrb]
          have := TT.bind_run_err (f := fun b => (do
            let it ← M.lift (Block.iter b)
            let it ← M.lift (it.seek tb.opt.cmp k)
            match ← curKV it with
            | some (k', v) => if tb.opt.cmp.cmp k' k == .eq then pure (some v) else pure none
            | none => pure none : M (Option Bytes))) h3
          rw [hrb] at this
          exact this
        refine ⟨w', hcw', hcoh', ?_, ?_⟩
        · intro _; rw [hge, hgt]
        · intro hn; exact absurd ⟨⟨bi, hS, hd⟩, hpass⟩ hn
      · refine ⟨w, hcw, hcoh, ?_, ?_⟩
        · intro ⟨_, hpass⟩; exact absurd hpass hnp
        · intro _; rw [hge, hnone]
    · have hnr : ¬ (Routed cmp t k d0 ∧ FilterPasses tb p d0 k) := by
        intro ⟨hr, _⟩; exact hdd (hrouted d0 hr).symm
      rcases hfilt with ⟨hge, _⟩ | ⟨hge, hnone, _⟩
      · obtain ⟨w', hrb, hcw', hcoh'⟩ :=
          readBlock_dmg_other cmp hc p t hwf fv d0 img' hdm tb hop w hcw hcoh d hdm' hdd
        have hgt := getTail_of_read cmp hc p t hwf fv tb hop w w' d hdm' k hrb
        refine ⟨w', hcw', hcoh', ?_, ?_⟩
        · intro h; exact absurd h hnr
        · intro _; rw [hge, hgt]
      · refine ⟨w, hcw, hcoh, ?_, ?_⟩
        · intro h; exact absurd h hnr
        · intro _; rw [hge, hnone]

end

/-! ### a concrete damaged image: a window of bytes replaced -/

theorem drop_past (pre x post : Bytes) (n : Nat) (h : pre.length + x.length ≤ n) :
    (pre ++ x ++ post).drop n = post.drop (n - pre.length - x.length) := by
  rw [List.drop_append, List.drop_of_length_le (by simp only [List.length_append]; omega),
    List.nil_append, List.length_append, Nat.sub_add_eq]

/-- a buffer that does not meet the replaced window is unchanged -/
theorem cleanBuf_outside_window (pre w w' post : Bytes) (hlen : w.length = w'.length) (off len : Nat)
    (hout : off + len ≤ pre.length ∨ pre.length + w.length ≤ off) :
    cleanBuf (pre ++ w' ++ post) off len = cleanBuf (pre ++ w ++ post) off len := by
  unfold cleanBuf
  have hl : (pre ++ w' ++ post).length = (pre ++ w ++ post).length := by
    simp only [List.length_append]; omega
  rw [hl]
  congr 1
  rcases hout with h | h
  · rw [List.append_assoc, List.append_assoc, List.drop_append_of_le_length (by omega),
      List.drop_append_of_le_length (by omega),
      List.take_append_of_le_length (by rw [List.length_drop]; omega),
      List.take_append_of_le_length (by rw [List.length_drop]; omega)]
  · rw [drop_past pre w post off h, drop_past pre w' post off (by omega), hlen]

/-- the footer slice is unchanged when the window lies before it -/
theorem drop_outside_window (pre w w' post : Bytes) (hlen : w.length = w'.length) (n : Nat)
    (h : pre.length + w.length ≤ n) :
    (pre ++ w' ++ post).drop n = (pre ++ w ++ post).drop n := by
  rw [drop_past pre w post n h, drop_past pre w' post n (by omega), hlen]

/-- the physical block at `h` (with its 5-byte trailer) does not meet the byte range `[lo, hi)` -/
def Outside (lo hi : Nat) (h : BlockHandle) : Prop := h.offset + (h.size + 5) ≤ lo ∨ hi ≤ h.offset

/-- replacing ≤ 4 consecutive bytes inside contents + type byte of data block `d0`, every other region
    the reader uses lying outside the window, yields a `Damaged` image -/
theorem damaged_of_window (cmp : Cmp) (p : FilterPolicy) (t : TableImg) (hwf : t.WF cmp) (d0 : DBlock)
    (hd0 : d0 ∈ t.blocks) (pre w w' post : Bytes) (himg : t.img = pre ++ w ++ post)
    (hlen : w.length = w'.length) (h4 : w.length ≤ 4) (hne : w ≠ w')
    (hlo : d0.handle.offset ≤ pre.length)
    (hhi : pre.length + w.length ≤ d0.handle.offset + d0.handle.size + 1)
    (hfoot : pre.length + w.length ≤ t.img.length - 48)
    (hindex : Outside pre.length (pre.length + w.length) t.indexHandle)
    (hmeta : Outside pre.length (pre.length + w.length) t.metaHandle)
    (hfilter : ∀ v fh n, (Table.filterName p, v) ∈ t.metaix.kvs → BlockHandle.tryDecode v = some (fh, n) →
      Outside pre.length (pre.length + w.length) fh)
    (hdata : ∀ d ∈ t.blocks, d ≠ d0 → Outside pre.length (pre.length + w.length) d.handle) :
    Damaged p t d0 (pre ++ w' ++ post) := by
  have hl : (pre ++ w' ++ post).length = t.img.length := by
    rw [himg]; simp only [List.length_append]; omega
  have hcb : ∀ h, Outside pre.length (pre.length + w.length) h → cleanBuf (pre ++ w' ++ post) h.offset (h.size + 5)
      = cleanBuf t.img h.offset (h.size + 5) := by
    intro h ho
    rw [himg]
    exact cleanBuf_outside_window pre w w' post hlen _ _ ho
  refine ⟨hd0, hl, ?_, hcb _ hindex, hcb _ hmeta, ?_, ?_, ?_⟩
  · rw [hl, himg]
    exact drop_outside_window pre w w' post hlen _ (by rw [← himg]; exact hfoot)
  · intro v fh n h1 h2; exact hcb _ (hfilter v fh n h1 h2)
  · intro d hd hne'; exact hcb _ (hdata d hd hne')
  · have hok := (blockAt_of_tableBlockAt (hwf.dataRead d0 hd0)).1
    have hb := (hwf.dataBounds d0 hd0).2
    simp only [Consts.tableBlockCksumLen, Consts.tableBlockCompressLen] at hb
    rw [himg] at hok hb
    exact blockAt_altered pre w w' post d0.handle _ hlen h4 hne hlo hhi (by omega) hok

/-- two handles opened on the same image, file and cache id are the same handle -/
theorem opened_eq {tb1 tb2 : Table} {t : TableImg} {cmp : Cmp} {p : FilterPolicy} {fv : Option Bytes}
    (h1 : Opened tb1 t cmp p fv) (h2 : Opened tb2 t cmp p fv) (hf : tb1.file = tb2.file)
    (hid : tb1.cacheId = tb2.cacheId) : tb1 = tb2 := by
  have hfl : tb1.filters = tb2.filters := by
    have a := h1.filters
    have b := h2.filters
    cases fv with
    | none => simp only at a b; rw [a, b]
    | some fb =>
      simp only at a b
      obtain ⟨r1, hr1, e1⟩ := a
      obtain ⟨r2, hr2, e2⟩ := b
      rw [hr1] at hr2
      rw [e1, e2, Res.ok.inj hr2]
  cases tb1; cases tb2
  simp only at hf hid hfl
  have a1 := h1.fileSize; have a2 := h2.fileSize
  have b1 := h1.opt; have b2 := h2.opt
  have c1 := h1.footer; have c2 := h2.footer
  have d1 := h1.index; have d2 := h2.index
  simp only at a1 a2 b1 b2 c1 c2 d1 d2
  subst hf hid hfl a1 b1 c1 d1
  rw [a2, b2, c2, d2]

/-- the index routes every stored key to the block that stores it -/
theorem routed_of_key (cmp : Cmp) (hc : cmp.Lawful) (t : TableImg) (hwf : t.WF cmp) (d : DBlock)
    (hd : d ∈ t.blocks) (k : Bytes) (hk : k ∈ d.keys) : Routed cmp t k d := by
  obtain ⟨i, hi⟩ := List.mem_iff_getElem?.mp hd
  refine ⟨i, ?_, hi⟩
  rw [TwoLevel.lowerBound_eq_some_iff']
  have hil : i < t.blocks.length := (List.getElem?_eq_some_iff.mp hi).1
  refine ⟨by simpa [TableImg.seps] using hil, ?_, ?_⟩
  · intro j e hj he
    rw [List.getElem?_map, t.seps_getElem?] at he
    cases hdj : t.blocks[j]? with
    | none => rw [hdj] at he; cases he
    | some dj =>
      rw [hdj] at he
      simp only [Option.map_some, Option.some.injEq] at he
      subst he
      exact hwf.sepLt j i dj d hj hdj hi k hk
  · intro e he
    rw [List.getElem?_map, t.seps_getElem?, hi] at he
    simp only [Option.map_some, Option.some.injEq] at he
    subst he
    intro hlt
    exact hwf.sepGe d hd k hk ((hc.gt_iff _ _).mpr hlt)

/-- a sound filter lets every stored key pass -/
theorem passes_of_key {cmp : Cmp} {p : FilterPolicy} {t : TableImg} {fv : Option Bytes} {tb : Table}
    (hop : Opened tb t cmp p fv) (hsound : ∀ fb, fv = some fb → FilterSound p t fb)
    (d : DBlock) (hd : d ∈ t.blocks) (k : Bytes) (hk : k ∈ d.keys) : FilterPasses tb p d k := by
  intro r hr
  obtain ⟨fb, hfv, hn⟩ := hop.filter_some hr
  exact hsound fb hfv d hd k hk r hn

end FT
end Sst

#print axioms Sst.readBlock_faulty
#print axioms Sst.get_faulty
#print axioms Sst.iter_call_faulty'
#print axioms Sst.iter_call_faulty
#print axioms Sst.FT.run_ok
#print axioms Sst.FT.short_tail_no_collision
#print axioms Sst.FT.blockAt_altered
#print axioms Sst.FT.blockAt_altered_cksum
#print axioms Sst.FT.open_dmg
#print axioms Sst.FT.get_dmg
#print axioms Sst.FT.damaged_of_window
#print axioms Sst.FT.opened_eq
#print axioms Sst.FT.routed_of_key
