import SstModel.Lemmas.TableOpsSpec
import SstModel.Lemmas.BlockAdvance
import SstModel.Lemmas.BlockPrev
import SstModel.Lemmas.BlockSeek
/-
  The table iterator (`TableIter` of `SstModel/Model/Table.lean`) refines the Spec cursor over the
  flattened entry list of a well-formed table (C01/C03/C04 on the model).
-/
set_option linter.unusedVariables false

namespace Sst.TI
open Sst Sst.Spec Sst.TwoLevel

/-! ### running the state monad -/

theorem bind_ok {α β} {m : M α} {f : α → M β} {w w' : World} {a : α} (h : m w = (w', .ok a)) :
    (m >>= f) w = f a w' := by
  show M.bind' m f w = _
  unfold M.bind'; rw [h]

theorem lift_bind {α β} {r : Res α} {a : α} (h : r = .ok a) (f : α → M β) (w : World) :
    (M.lift r >>= f) w = f a w := by
  subst h; rfl

theorem pure_run {α} (a : α) (w : World) : (pure a : M α) w = (w, .ok a) := rfl

theorem try_ok {α} {m : M α} {w w' : World} {a : α} (h : m w = (w', .ok a)) :
    M.try' m w = (w', .ok (.ok a)) := by
  unfold M.try'; rw [h]

/-! ### facts about a well-formed table image -/

section
variable {cmp : Cmp} {t : TableImg}

theorem entries_eq (t : TableImg) : t.entries = t.kvBlocks.flatten := rfl

theorem kvBlocks_getElem? (t : TableImg) (bi : Nat) :
    t.kvBlocks[bi]? = t.blocks[bi]?.map (·.blk.kvs) := by
  simp [TableImg.kvBlocks]

theorem kvBlocks_length (t : TableImg) : t.kvBlocks.length = t.blocks.length := by
  simp [TableImg.kvBlocks]

theorem seps_getElem? (t : TableImg) (bi : Nat) : t.seps[bi]? = t.blocks[bi]?.map (·.sep) := by
  simp [TableImg.seps]

theorem kvs_keys (p : PBlock) : p.kvs.map (·.1) = p.es.map (·.key) := by
  simp [PBlock.kvs, kvOf]

theorem kvs_length (p : PBlock) : p.kvs.length = p.es.length := by
  simp [PBlock.kvs, kvOf]

theorem mem_kvs_key {p : PBlock} {e : Spec.Entry} (h : e ∈ p.kvs) : e.1 ∈ p.es.map (·.key) := by
  rw [← kvs_keys]; exact List.mem_map_of_mem h

theorem flatten_keys (t : TableImg) : t.kvBlocks.flatten.map (·.1) = t.allKeys := by
  simp only [TableImg.kvBlocks, TableImg.allKeys, List.map_flatten, List.map_map]
  congr 1
  apply List.map_congr_left
  intro d _
  simp [DBlock.keys, kvs_keys]

theorem ordered (hwf : t.WF cmp) : Ordered cmp t.kvBlocks t.seps where
  len := by simp [TableImg.kvBlocks, TableImg.seps]
  nonempty := by
    intro b hb
    simp only [TableImg.kvBlocks, List.mem_map] at hb
    obtain ⟨d, hd, rfl⟩ := hb
    intro h
    have := hwf.dataNonempty d hd
    have hl := kvs_length d.blk
    rw [h] at hl
    exact this (List.length_eq_zero_iff.mp hl.symm)
  sorted := by rw [flatten_keys]; exact hwf.sorted
  sepGe := by
    intro i b s hb hs e he
    rw [kvBlocks_getElem?] at hb
    rw [seps_getElem?] at hs
    cases hd : t.blocks[i]? with
    | none => rw [hd] at hb; simp at hb
    | some d =>
      rw [hd] at hb hs
      simp only [Option.map_some, Option.some.injEq] at hb hs
      subst hb hs
      exact hwf.sepGe d (List.mem_of_getElem? hd) e.1 (mem_kvs_key he)
  sepLt := by
    intro i j s b hij hs hb e he
    rw [kvBlocks_getElem?] at hb
    rw [seps_getElem?] at hs
    cases hdi : t.blocks[i]? with
    | none => rw [hdi] at hs; simp at hs
    | some di =>
      cases hdj : t.blocks[j]? with
      | none => rw [hdj] at hb; simp at hb
      | some dj =>
        rw [hdi] at hs
        rw [hdj] at hb
        simp only [Option.map_some, Option.some.injEq] at hb hs
        subst hb hs
        exact hwf.sepLt i j di dj hij hdi hdj e.1 (mem_kvs_key he)

/-- same offset ⇒ same block -/
theorem hoff (hwf : t.WF cmp) : ∀ d1 ∈ t.blocks, ∀ d2 ∈ t.blocks, d1.handle.offset = d2.handle.offset →
    d1.blk.contents = d2.blk.contents := by
  intro d1 h1 d2 h2 ho
  obtain ⟨i, hi⟩ := List.getElem?_of_mem h1
  obtain ⟨j, hj⟩ := List.getElem?_of_mem h2
  have := hwf.offsetsDistinct i j d1 d2 hi hj ho
  subst this
  rw [hi] at hj
  cases hj
  rfl

/-- the index block's entry table has one entry per data block -/
theorem index_es_length (hwf : t.WF cmp) : t.index.es.length = t.blocks.length := by
  have := congrArg List.length hwf.indexKVs
  rw [kvs_length] at this
  simpa using this

theorem index_kvs_getElem? (hwf : t.WF cmp) (bi : Nat) :
    (kvOf t.index.contents t.index.es)[bi]? = t.blocks[bi]?.map (fun d => (d.sep, d.hval)) := by
  have : kvOf t.index.contents t.index.es = t.blocks.map (fun d => (d.sep, d.hval)) := hwf.indexKVs
  rw [this]; simp

theorem index_kvs_length (hwf : t.WF cmp) : (kvOf t.index.contents t.index.es).length = t.blocks.length := by
  rw [kvOf_length]; exact index_es_length hwf

theorem index_keys (hwf : t.WF cmp) : t.index.es.map (·.key) = t.seps := by
  rw [← kvs_keys, hwf.indexKVs]
  simp [TableImg.seps]

theorem index_sorted (hc : cmp.Lawful) (hwf : t.WF cmp) : KeysSorted cmp (t.index.es.map (·.key)) := by
  rw [index_keys hwf]; exact (ordered hwf).seps_sorted hc

theorem block_sorted (hwf : t.WF cmp) {bi : Nat} {d : DBlock} (hd : t.blocks[bi]? = some d) :
    KeysSorted cmp (d.blk.es.map (·.key)) := by
  rw [← kvs_keys]
  exact (ordered hwf).block_sorted bi d.blk.kvs (by rw [kvBlocks_getElem?, hd]; rfl)

/-- `lowerBound` only looks at keys -/
theorem lowerBound_keys (cmp : Cmp) (tg : Bytes) :
    ∀ (l1 l2 : List Spec.Entry), l1.map (·.1) = l2.map (·.1) →
      Spec.lowerBound cmp l1 tg = Spec.lowerBound cmp l2 tg := by
  intro l1
  induction l1 with
  | nil =>
    intro l2 h
    cases l2 with
    | nil => rfl
    | cons _ _ => simp at h
  | cons a l1 ih =>
    intro l2 h
    cases l2 with
    | nil => simp at h
    | cons b l2 =>
      simp only [List.map_cons, List.cons.injEq] at h
      rw [lowerBound_cons, lowerBound_cons, h.1, ih l2 h.2]

theorem index_lowerBound (hwf : t.WF cmp) (tg : Bytes) :
    Spec.lowerBound cmp (kvOf t.index.contents t.index.es) tg
      = Spec.lowerBound cmp (t.seps.map (fun s => (s, ([] : Bytes)))) tg := by
  apply lowerBound_keys
  have h1 : (kvOf t.index.contents t.index.es).map (·.1) = t.index.es.map (·.key) := kvs_keys t.index
  rw [h1, index_keys hwf, List.map_map]
  exact (List.map_id' _).symm

end

section
variable {cmp : Cmp} {p : FilterPolicy} {t : TableImg} {fv : Option Bytes} {tb : Table}

theorem loadBlock_ok (hwf : t.WF cmp) (hop : Opened tb t cmp p fv) (w : World) (hw : WorldOK w tb t)
    (it : TableIter) (hit : it.table = tb) (d : DBlock) (hd : d ∈ t.blocks) :
    ∃ w' cb, it.loadBlock d.hval w
        = (w', .ok { it with currentBlock := some cb, currentBlockOff := d.handle.offset })
      ∧ SimB d.blk.contents d.blk.es d.blk.rs cb none ∧ WorldOK w' tb t ∧ Frame w w' tb := by
  obtain ⟨n, hn⟩ := hwf.hval d hd
  obtain ⟨w', hr, hcl, hfiles, hcoh, hoth, hcap, hnid, hbound⟩ :=
    readBlock_ok cmp t hwf tb w hw.clean hop.fileSize hw.coh (hoff hwf) d hd
  obtain ⟨cb, hcb, hsim⟩ := simB_iter (hwf.dataWF d hd).1
  refine ⟨w', cb, ?_, hsim, ⟨hcl, hcoh⟩, ⟨hfiles, ?_, hcap, hnid, hoth, hbound⟩⟩
  · unfold TableIter.loadBlock
    simp only [hn]
    rw [hit, bind_ok hr, lift_bind hcb]
    rfl
  · rw [hcl.sched, hw.clean.sched]

/-- no block loaded; index iterator at `ipos` -/
structure Gap (t : TableImg) (tb : Table) (it : TableIter) (ipos : Spec.Pos) : Prop where
  table : it.table = tb
  cur : it.currentBlock = none
  index : SimB t.index.contents t.index.es t.index.rs it.indexBlock ipos

/-- the part of one `advanceLoop` iteration after the current block is exhausted -/
def tail (it : TableIter) (fuel : Nat) : M (TableIter × Bool) := do
  let (it, r) ← TableIter.skipToNextEntry it
  match r with
  | .ok true => TableIter.advanceLoop it fuel
  | .ok false => pure (it.reset, false)
  | .error _ => TableIter.advanceLoop it fuel

theorem advanceLoop_none (it : TableIter) (h : it.currentBlock = none) (fuel : Nat) (w : World) :
    it.advanceLoop (fuel + 1) w = tail it fuel w := by
  have e : { it with currentBlock := none } = it := by
    cases it; simp_all
  rw [TableIter.advanceLoop]
  simp only [h]
  rw [bind_ok (pure_run _ _)]
  simp only [Bool.false_eq_true, if_false, e]
  rfl

theorem advanceLoop_some_false (it : TableIter) (cb cb' : BlockIter) (h : it.currentBlock = some cb)
    (ha : cb.advance = .ok (cb', false)) (fuel : Nat) (w : World) :
    it.advanceLoop (fuel + 1) w = tail { it with currentBlock := none } fuel w := by
  rw [TableIter.advanceLoop]
  simp only [h]
  rw [lift_bind ha, bind_ok (pure_run _ _)]
  simp only [Bool.false_eq_true, if_false]
  rfl

theorem advanceLoop_some_true (it : TableIter) (cb cb' : BlockIter) (h : it.currentBlock = some cb)
    (ha : cb.advance = .ok (cb', true)) (fuel : Nat) (w : World) :
    it.advanceLoop (fuel + 1) w = (w, .ok ({ it with currentBlock := some cb' }, true)) := by
  rw [TableIter.advanceLoop]
  simp only [h]
  rw [lift_bind ha, bind_ok (pure_run _ _)]
  simp only [if_true]
  rfl

theorem skip_none (it : TableIter) (ib' : BlockIter) (h : it.indexBlock.next = .ok (ib', none))
    (w : World) :
    it.skipToNextEntry w = (w, .ok ({ it with indexBlock := ib' }, .ok false)) := by
  unfold TableIter.skipToNextEntry
  rw [lift_bind h]
  rfl

theorem skip_some (it : TableIter) (ib' : BlockIter) (k v : Bytes) (it2 : TableIter) (w w' : World)
    (h : it.indexBlock.next = .ok (ib', some (k, v)))
    (hl : ({ it with indexBlock := ib' } : TableIter).loadBlock v w = (w', .ok it2)) :
    it.skipToNextEntry w = (w', .ok (it2, .ok true)) := by
  unfold TableIter.skipToNextEntry
  rw [lift_bind h]
  simp only []
  rw [bind_ok (try_ok hl)]
  rfl

theorem advance_cases (kv : List Spec.Entry) (pos : Spec.Pos) :
    Spec.advance kv pos = (none, false) ∨ ∃ i, i < kv.length ∧ Spec.advance kv pos = (some i, true) := by
  cases pos with
  | none =>
    cases kv with
    | nil => left; rfl
    | cons a l => right; exact ⟨0, by simp, rfl⟩
  | some j =>
    simp only [Spec.advance]
    by_cases hj : j + 1 < kv.length
    · right; exact ⟨j + 1, hj, by rw [if_pos hj]⟩
    · left; rw [if_neg hj]

/-- first `advance` in a freshly loaded (non-empty) data block -/
theorem first_entry (hwf : t.WF cmp) (d : DBlock) (hd : d ∈ t.blocks) (cb : BlockIter)
    (h : SimB d.blk.contents d.blk.es d.blk.rs cb none) :
    ∃ cb', cb.advance = .ok (cb', true) ∧ SimB d.blk.contents d.blk.es d.blk.rs cb' (some 0) := by
  obtain ⟨cb', ha, hs⟩ := simB_advance (hwf.dataWF d hd).1 (hwf.dataWF d hd).2 h
  have hne := hwf.dataNonempty d hd
  have : Spec.advance (kvOf d.blk.contents d.blk.es) none = (some 0, true) := by
    cases he : d.blk.es with
    | nil => exact absurd he hne
    | cons a l => rfl
  rw [this] at ha hs
  exact ⟨cb', ha, hs⟩

theorem simT_none_of_gap {it : TableIter} (h : Gap t tb it none) : SimT t tb it none :=
  ⟨h.table, h.cur, h.index⟩

/-- the gap lemma: no block loaded, index iterator at `ipos`: move to the first entry of the next
    block, or become invalid when there is none -/
theorem tail_gap (hwf : t.WF cmp) (hop : Opened tb t cmp p fv) (w : World)
    (hw : WorldOK w tb t) (it : TableIter) (ipos : Spec.Pos) (h : Gap t tb it ipos) (n : Nat) :
    ∃ w' it', tail it (n + 1) w
        = (w', .ok (it', (Spec.advance (kvOf t.index.contents t.index.es) ipos).2))
      ∧ SimT t tb it' ((Spec.advance (kvOf t.index.contents t.index.es) ipos).1.map (fun bi => (bi, 0)))
      ∧ WorldOK w' tb t ∧ Frame w w' tb := by
  obtain ⟨ib', hnext, hsim⟩ := simB_next hwf.indexWF.1 hwf.indexWF.2 h.index
  rcases advance_cases (kvOf t.index.contents t.index.es) ipos with hadv | ⟨i, hi, hadv⟩
  · rw [hadv] at hnext hsim ⊢
    dsimp only at hnext hsim ⊢
    refine ⟨w, ({ it with indexBlock := ib' } : TableIter).reset, ?_, ?_, hw, Frame.refl w tb⟩
    · unfold tail
      rw [bind_ok (skip_none it ib' hnext w)]
      rfl
    · exact ⟨h.table, rfl, simB_reset hwf.indexWF.1 hsim⟩
  · rw [hadv] at hnext hsim ⊢
    dsimp only at hnext hsim ⊢
    rw [index_kvs_length hwf] at hi
    have hd : t.blocks[i]? = some t.blocks[i] := List.getElem?_eq_getElem hi
    have hmem : t.blocks[i] ∈ t.blocks := List.getElem_mem hi
    have hent : Spec.entryAt (kvOf t.index.contents t.index.es) (some i)
        = some (t.blocks[i].sep, t.blocks[i].hval) := by
      simp only [Spec.entryAt, index_kvs_getElem? hwf, hd, Option.map_some]
    simp only [hent] at hnext
    obtain ⟨w', cb, hload, hcb, hw', hfr⟩ :=
      loadBlock_ok hwf hop w hw { it with indexBlock := ib' } h.table _ hmem
    obtain ⟨cb', hadv', hcb'⟩ := first_entry hwf _ hmem cb hcb
    refine ⟨w', ⟨it.table, some cb', t.blocks[i].handle.offset, ib'⟩, ?_, ?_, hw', hfr⟩
    · unfold tail
      rw [bind_ok (skip_some it ib' _ _ _ w w' hnext hload)]
      simp only []
      exact advanceLoop_some_true _ cb cb' rfl hadv' n w'
    · exact ⟨h.table, t.blocks[i], cb', hd, hsim, rfl, hcb', rfl⟩

end

end Sst.TI

namespace Sst.TI
open Sst Sst.Spec Sst.TwoLevel

section
variable {cmp : Cmp} {p : FilterPolicy} {t : TableImg} {fv : Option Bytes} {tb : Table}

theorem simT_index {it : TableIter} {pos : Option (Nat × Nat)} (h : SimT t tb it pos) :
    ∃ ipos, SimB t.index.contents t.index.es t.index.rs it.indexBlock ipos := by
  cases pos with
  | none => exact ⟨none, h.at_.2⟩
  | some q =>
    obtain ⟨bi, li⟩ := q
    obtain ⟨d, cb, _, hi, _⟩ := h.at_
    exact ⟨some bi, hi⟩

/-- unpacking `SimT` at a valid position -/
theorem simT_unpack {it : TableIter} {bi li : Nat} (h : SimT t tb it (some (bi, li))) :
    ∃ d cb, t.blocks[bi]? = some d ∧ d ∈ t.blocks
      ∧ SimB t.index.contents t.index.es t.index.rs it.indexBlock (some bi)
      ∧ it.currentBlock = some cb
      ∧ SimB d.blk.contents d.blk.es d.blk.rs cb (some li)
      ∧ it.currentBlockOff = d.handle.offset ∧ li < d.blk.es.length
      ∧ t.kvBlocks[bi]? = some (kvOf d.blk.contents d.blk.es) := by
  obtain ⟨d, cb, hd, hi, hcb, hs, ho⟩ := h.at_
  obtain ⟨e, he, _⟩ := hs.at_
  refine ⟨d, cb, hd, List.mem_of_getElem? hd, hi, hcb, hs, ho, (List.getElem?_eq_some_iff.mp he).1, ?_⟩
  rw [kvBlocks_getElem?, hd]; rfl

theorem entryAt_flat {bi li : Nat} {d : DBlock} (hd : t.blocks[bi]? = some d)
    (hl : li < d.blk.es.length) :
    Spec.entryAt t.entries (t.flatPos (some (bi, li)))
      = Spec.entryAt (kvOf d.blk.contents d.blk.es) (some li) := by
  show t.kvBlocks.flatten[flatIdx t.kvBlocks bi li]? = (kvOf d.blk.contents d.blk.es)[li]?
  exact flat_getElem _ _ _ _ (by rw [kvBlocks_getElem?, hd]; rfl) (by rw [kvOf_length]; exact hl)

theorem advance_eq (it : TableIter) (w : World) :
    it.advance w = it.advanceLoop ((2 * it.indexBlock.block.length + 3) + 1) w := rfl

/-- the flat cursor, started before the first entry, in terms of the index cursor -/
theorem flat_advance_none (hwf : t.WF cmp) :
    Spec.advance t.entries none
      = (t.flatPos ((Spec.advance (kvOf t.index.contents t.index.es) none).1.map (fun bi => (bi, 0))),
         (Spec.advance (kvOf t.index.contents t.index.es) none).2) := by
  rw [entries_eq, advance_none _ (ordered hwf).nonempty]
  have hl := index_kvs_length hwf
  have hl2 := kvBlocks_length t
  cases hk : kvOf t.index.contents t.index.es with
  | nil =>
    rw [hk] at hl
    have : t.kvBlocks = [] := List.length_eq_zero_iff.mp (by rw [hl2, ← hl]; rfl)
    rw [if_pos this]; rfl
  | cons a l =>
    rw [hk] at hl
    have : t.kvBlocks ≠ [] := by
      intro h; rw [h] at hl2; simp at hl hl2; omega
    rw [if_neg this]; rfl

/-- the flat cursor stepping off the last entry of block `bi` -/
theorem flat_advance_last (hwf : t.WF cmp) {bi li : Nat} {d : DBlock} (hd : t.blocks[bi]? = some d)
    (hl : li + 1 = d.blk.es.length) :
    Spec.advance t.entries (some (flatIdx t.kvBlocks bi li))
      = (t.flatPos ((Spec.advance (kvOf t.index.contents t.index.es) (some bi)).1.map (fun bi => (bi, 0))),
         (Spec.advance (kvOf t.index.contents t.index.es) (some bi)).2) := by
  have hb : t.kvBlocks[bi]? = some (kvOf d.blk.contents d.blk.es) := by
    rw [kvBlocks_getElem?, hd]; rfl
  have hl' : li + 1 = (kvOf d.blk.contents d.blk.es).length := by rw [kvOf_length]; exact hl
  simp only [Spec.advance, index_kvs_length hwf]
  by_cases hn : bi + 1 < t.blocks.length
  · rw [if_pos hn]
    have hnb : t.kvBlocks[bi + 1]? = some (t.kvBlocks[bi + 1]'(by rw [kvBlocks_length]; exact hn)) :=
      List.getElem?_eq_getElem _
    have := advance_cross t.kvBlocks (ordered hwf).nonempty bi li _ _ hb hl' hnb
    simp only [Spec.advance] at this
    rw [entries_eq, this]; rfl
  · rw [if_neg hn]
    have hnb : t.kvBlocks[bi + 1]? = none := by
      apply List.getElem?_eq_none; rw [kvBlocks_length]; omega
    have := advance_last t.kvBlocks bi li _ hb hl' hnb
    simp only [Spec.advance] at this
    rw [entries_eq, this]; rfl

end
end Sst.TI

namespace Sst
open Sst.Spec Sst.TwoLevel Sst.TI

theorem iter_new_ok (cmp : Cmp) (hc : cmp.Lawful) (p : FilterPolicy) (t : TableImg) (hwf : t.WF cmp)
    (fv : Option Bytes) (tb : Table) (hop : Opened tb t cmp p fv) (w : World) :
    ∃ it, TableIter.new tb w = (w, .ok it) ∧ SimT t tb it none := by
  obtain ⟨ib, hib, hs⟩ := simB_iter hwf.indexWF.1
  refine ⟨{ table := tb, indexBlock := ib }, ?_, ⟨rfl, rfl, hs⟩⟩
  unfold TableIter.new
  rw [hop.index, lift_bind hib]
  rfl

theorem simT_valid (cmp : Cmp) (hc : cmp.Lawful) (p : FilterPolicy) (t : TableImg) (hwf : t.WF cmp)
    (fv : Option Bytes) (tb : Table) (hop : Opened tb t cmp p fv)
    (it : TableIter) (pos : Option (Nat × Nat)) (h : SimT t tb it pos) :
    it.valid = (t.flatPos pos).isSome := by
  cases pos with
  | none =>
    unfold TableIter.valid
    rw [h.at_.1]; rfl
  | some q =>
    obtain ⟨bi, li⟩ := q
    obtain ⟨d, cb, hd, hmem, hi, hcb, hs, ho, hl, hkb⟩ := simT_unpack h
    unfold TableIter.valid
    rw [hcb]
    show cb.valid = true
    rw [simB_valid (hwf.dataWF d hmem).1 hs]; rfl

theorem simT_current (cmp : Cmp) (hc : cmp.Lawful) (p : FilterPolicy) (t : TableImg) (hwf : t.WF cmp)
    (fv : Option Bytes) (tb : Table) (hop : Opened tb t cmp p fv)
    (w : World) (it : TableIter) (pos : Option (Nat × Nat)) (h : SimT t tb it pos) :
    it.current w = (w, .ok (Spec.entryAt t.entries (t.flatPos pos))) := by
  cases pos with
  | none =>
    unfold TableIter.current
    rw [h.at_.1]; rfl
  | some q =>
    obtain ⟨bi, li⟩ := q
    obtain ⟨d, cb, hd, hmem, hi, hcb, hs, ho, hl, hkb⟩ := simT_unpack h
    unfold TableIter.current
    rw [hcb, entryAt_flat hd hl]
    show M.lift cb.current w = _
    rw [simB_current (hwf.dataWF d hmem).1 hs]
    rfl

theorem simT_currentKey (cmp : Cmp) (hc : cmp.Lawful) (p : FilterPolicy) (t : TableImg) (hwf : t.WF cmp)
    (fv : Option Bytes) (tb : Table) (hop : Opened tb t cmp p fv)
    (it : TableIter) (pos : Option (Nat × Nat)) (h : SimT t tb it pos) :
    it.currentKey = (Spec.entryAt t.entries (t.flatPos pos)).map (·.1) := by
  cases pos with
  | none =>
    unfold TableIter.currentKey
    rw [h.at_.1]; rfl
  | some q =>
    obtain ⟨bi, li⟩ := q
    obtain ⟨d, cb, hd, hmem, hi, hcb, hs, ho, hl, hkb⟩ := simT_unpack h
    unfold TableIter.currentKey
    rw [hcb, entryAt_flat hd hl]
    exact simB_currentKey (hwf.dataWF d hmem).1 hs

theorem simT_reset (cmp : Cmp) (hc : cmp.Lawful) (p : FilterPolicy) (t : TableImg) (hwf : t.WF cmp)
    (fv : Option Bytes) (tb : Table) (hop : Opened tb t cmp p fv)
    (it : TableIter) (pos : Option (Nat × Nat)) (h : SimT t tb it pos) : SimT t tb it.reset none := by
  obtain ⟨ipos, hi⟩ := simT_index h
  exact ⟨h.table, rfl, simB_reset hwf.indexWF.1 hi⟩

theorem simT_advance (cmp : Cmp) (hc : cmp.Lawful) (p : FilterPolicy) (t : TableImg) (hwf : t.WF cmp)
    (fv : Option Bytes) (tb : Table) (hop : Opened tb t cmp p fv)
    (w : World) (hw : WorldOK w tb t) (it : TableIter) (pos : Option (Nat × Nat))
    (h : SimT t tb it pos) :
    ∃ w' it' pos', it.advance w = (w', .ok (it', (Spec.advance t.entries (t.flatPos pos)).2))
      ∧ SimT t tb it' pos' ∧ t.flatPos pos' = (Spec.advance t.entries (t.flatPos pos)).1
      ∧ WorldOK w' tb t ∧ Frame w w' tb := by
  cases pos with
  | none =>
    have hg : Gap t tb it none := ⟨h.table, h.at_.1, h.at_.2⟩
    obtain ⟨w', it', hrun, hs, hw', hfr⟩ :=
      tail_gap hwf hop w hw it none hg (2 * it.indexBlock.block.length + 2)
    refine ⟨w', it', _, ?_, hs, ?_, hw', hfr⟩
    · rw [advance_eq, advanceLoop_none it h.at_.1, hrun]
      show _ = (w', Res.ok (it', (Spec.advance t.entries none).2))
      rw [flat_advance_none hwf]
    · show _ = (Spec.advance t.entries none).1
      rw [flat_advance_none hwf]
  | some q =>
    obtain ⟨bi, li⟩ := q
    obtain ⟨d, cb, hd, hmem, hi, hcb, hs, ho, hl, hkb⟩ := simT_unpack h
    obtain ⟨cb', hadv, hs'⟩ := simB_advance (hwf.dataWF d hmem).1 (hwf.dataWF d hmem).2 hs
    show ∃ w' it' pos', it.advance w
        = (w', .ok (it', (Spec.advance t.entries (some (flatIdx t.kvBlocks bi li))).2))
      ∧ SimT t tb it' pos' ∧ t.flatPos pos' = (Spec.advance t.entries (some (flatIdx t.kvBlocks bi li))).1
      ∧ WorldOK w' tb t ∧ Frame w w' tb
    by_cases hnext : li + 1 < d.blk.es.length
    · have hA : Spec.advance (kvOf d.blk.contents d.blk.es) (some li) = (some (li + 1), true) := by
        simp only [Spec.advance, kvOf_length, if_pos hnext]
      rw [hA] at hadv hs'
      have hF := advance_inside t.kvBlocks bi li _ hkb (by rw [kvOf_length]; exact hnext)
      rw [entries_eq, hF]
      refine ⟨w, { it with currentBlock := some cb' }, some (bi, li + 1), ?_, ?_, rfl, hw, Frame.refl w tb⟩
      · rw [advance_eq]
        exact advanceLoop_some_true it cb cb' hcb hadv _ w
      · exact ⟨h.table, d, cb', hd, hi, rfl, hs', ho⟩
    · have hA : Spec.advance (kvOf d.blk.contents d.blk.es) (some li) = (none, false) := by
        simp only [Spec.advance, kvOf_length, if_neg hnext]
      rw [hA] at hadv hs'
      have hg : Gap t tb { it with currentBlock := none } (some bi) := ⟨h.table, rfl, hi⟩
      obtain ⟨w', it', hrun, hsT, hw', hfr⟩ :=
        tail_gap hwf hop w hw _ (some bi) hg (2 * it.indexBlock.block.length + 2)
      have hF := flat_advance_last hwf hd (li := li) (by omega)
      refine ⟨w', it', _, ?_, hsT, ?_, hw', hfr⟩
      · rw [advance_eq, advanceLoop_some_false it cb cb' hcb hadv, hrun, hF]
      · rw [hF]

theorem simT_next (cmp : Cmp) (hc : cmp.Lawful) (p : FilterPolicy) (t : TableImg) (hwf : t.WF cmp)
    (fv : Option Bytes) (tb : Table) (hop : Opened tb t cmp p fv)
    (w : World) (hw : WorldOK w tb t) (it : TableIter) (pos : Option (Nat × Nat))
    (h : SimT t tb it pos) :
    ∃ w' it' pos', it.next w
        = (w', .ok (it', Spec.entryAt t.entries (Spec.advance t.entries (t.flatPos pos)).1))
      ∧ SimT t tb it' pos' ∧ t.flatPos pos' = (Spec.advance t.entries (t.flatPos pos)).1
      ∧ WorldOK w' tb t ∧ Frame w w' tb := by
  obtain ⟨w', it', pos', hrun, hs, hflat, hw', hfr⟩ := simT_advance cmp hc p t hwf fv tb hop w hw it pos h
  refine ⟨w', it', pos', ?_, hs, hflat, hw', hfr⟩
  unfold TableIter.next
  rw [bind_ok hrun]
  cases hflag : (Spec.advance t.entries (t.flatPos pos)).2 with
  | false =>
    rw [advance_false_none hflag]
    rfl
  | true =>
    simp only [Bool.not_true, Bool.false_eq_true, if_false]
    rw [bind_ok (simT_current cmp hc p t hwf fv tb hop w' it' pos' hs), hflat]
    rfl

theorem simT_seekToFirst (cmp : Cmp) (hc : cmp.Lawful) (p : FilterPolicy) (t : TableImg) (hwf : t.WF cmp)
    (fv : Option Bytes) (tb : Table) (hop : Opened tb t cmp p fv)
    (w : World) (hw : WorldOK w tb t) (it : TableIter) (pos : Option (Nat × Nat))
    (h : SimT t tb it pos) :
    ∃ w' it' pos', it.seekToFirst w = (w', .ok it') ∧ SimT t tb it' pos'
      ∧ t.flatPos pos' = Spec.seekToFirst t.entries ∧ WorldOK w' tb t ∧ Frame w w' tb := by
  obtain ⟨w', it', pos', hrun, hs, hflat, hw', hfr⟩ :=
    simT_advance cmp hc p t hwf fv tb hop w hw it.reset none (simT_reset cmp hc p t hwf fv tb hop it pos h)
  refine ⟨w', it', pos', ?_, hs, ?_, hw', hfr⟩
  · unfold TableIter.seekToFirst
    rw [bind_ok hrun]
    rfl
  · rw [hflat]
    show (Spec.advance t.entries none).1 = _
    simp only [Spec.advance, Spec.seekToFirst]
    split <;> rfl

theorem TI.curKV_run {ib : BlockIter} {r : Option (Bytes × Bytes)} (h : ib.current = .ok r) (w : World) :
    curKV ib w = (w, .ok r) := by
  unfold curKV; rw [h]; rfl

/-- C03: seek = least entry not below the target, from any state -/
theorem simT_seek (cmp : Cmp) (hc : cmp.Lawful) (p : FilterPolicy) (t : TableImg) (hwf : t.WF cmp)
    (fv : Option Bytes) (tb : Table) (hop : Opened tb t cmp p fv)
    (w : World) (hw : WorldOK w tb t) (it : TableIter) (pos : Option (Nat × Nat))
    (h : SimT t tb it pos) (target : Bytes) :
    ∃ w' it' pos', it.seek target w = (w', .ok it') ∧ SimT t tb it' pos'
      ∧ t.flatPos pos' = Spec.lowerBound cmp t.entries target ∧ WorldOK w' tb t ∧ Frame w w' tb := by
  obtain ⟨ipos, hi⟩ := simT_index h
  obtain ⟨ib', hseek, hsi⟩ :=
    simB_seek cmp hc hwf.indexWF.1 hwf.indexWF.2 (index_sorted hc hwf) hi target
  have hcmp : it.table.opt.cmp = cmp := by rw [h.table, hop.opt]
  have hL := lowerBound_two_level cmp hc t.kvBlocks t.seps (ordered hwf) target
  rw [← index_lowerBound hwf, ← entries_eq] at hL
  have hcur := simB_current hwf.indexWF.1 hsi
  cases hlb : Spec.lowerBound cmp (kvOf t.index.contents t.index.es) target with
  | none =>
    rw [hlb] at hsi hL hcur
    refine ⟨w, ({ it with indexBlock := ib' } : TableIter).reset, none, ?_, ?_, hL.symm, hw,
      Frame.refl w tb⟩
    · unfold TableIter.seek
      rw [hcmp, lift_bind hseek]
      dsimp only
      rw [bind_ok (curKV_run hcur w)]
      rfl
    · exact ⟨h.table, rfl, simB_reset hwf.indexWF.1 hsi⟩
  | some bi =>
    rw [hlb] at hsi hL hcur
    have hbi : bi < t.blocks.length := by
      have := lowerBound_lt_length _ _ _ _ hlb
      rwa [index_kvs_length hwf] at this
    have hd : t.blocks[bi]? = some t.blocks[bi] := List.getElem?_eq_getElem hbi
    have hmem : t.blocks[bi] ∈ t.blocks := List.getElem_mem hbi
    generalize t.blocks[bi] = d at hd hmem
    have hkv : (kvOf t.index.contents t.index.es)[bi]? = some (d.sep, d.hval) := by
      rw [index_kvs_getElem? hwf, hd]; rfl
    have hent : Spec.entryAt (kvOf t.index.contents t.index.es) (some bi) = some (d.sep, d.hval) := hkv
    rw [hent] at hcur
    have htest : (cmp.cmp target d.sep != .gt) = true := by
      have h3 := ((lowerBound_eq_some_iff' _ _ _ _).mp hlb).2.2 _ hkv
      have : cmp.cmp target d.sep ≠ .gt := fun hg => h3 ((hc.gt_iff _ _).mp hg)
      simpa using this
    obtain ⟨w1, cb, hload, hcb, hw1, hfr1⟩ :=
      loadBlock_ok hwf hop w hw { it with indexBlock := ib' } h.table d hmem
    obtain ⟨cb', hbseek, hcb'⟩ := simB_seek cmp hc (hwf.dataWF d hmem).1 (hwf.dataWF d hmem).2
      (block_sorted hwf hd) hcb target
    have hgetD : t.kvBlocks.getD bi [] = kvOf d.blk.contents d.blk.es := by
      rw [List.getD_eq_getElem?_getD, kvBlocks_getElem?, hd]; rfl
    dsimp only at hL
    rw [hgetD] at hL
    have hvalid := simB_valid (hwf.dataWF d hmem).1 hcb'
    have hstep : it.seek target w =
        (if (!cb'.valid) = true then
          (do let (it, _) ← TableIter.advance ⟨it.table, none, d.handle.offset, ib'⟩
              pure it : M TableIter)
         else pure ⟨it.table, some cb', d.handle.offset, ib'⟩) w1 := by
      unfold TableIter.seek
      rw [hcmp, lift_bind hseek]
      dsimp only
      rw [bind_ok (curKV_run hcur w)]
      dsimp only
      rw [hcmp, htest, if_pos rfl, bind_ok (try_ok hload)]
      dsimp only
      rw [hcmp, lift_bind hbseek]
    rw [hstep]
    cases hlb2 : Spec.lowerBound cmp (kvOf d.blk.contents d.blk.es) target with
    | some li =>
      rw [hlb2] at hL hcb' hvalid
      refine ⟨w1, ⟨it.table, some cb', d.handle.offset, ib'⟩, some (bi, li), ?_, ?_, hL.symm, hw1, hfr1⟩
      · rw [hvalid]; rfl
      · exact ⟨h.table, d, cb', hd, hsi, rfl, hcb', rfl⟩
    | none =>
      rw [hlb2] at hL hcb' hvalid
      have hg : Gap t tb ⟨it.table, none, d.handle.offset, ib'⟩ (some bi) := ⟨h.table, rfl, hsi⟩
      obtain ⟨w2, it2, hrun, hsT, hw2, hfr2⟩ :=
        tail_gap hwf hop w1 hw1 _ (some bi) hg (2 * ib'.block.length + 2)
      refine ⟨w2, it2, _, ?_, hsT, ?_, hw2, Frame.trans hfr1 hfr2⟩
      · rw [hvalid]
        show ((TableIter.advance ⟨it.table, none, d.handle.offset, ib'⟩) >>= _) w1 = _
        rw [bind_ok (a := (it2, _)) (by rw [advance_eq, advanceLoop_none _ rfl]; exact hrun)]
        rfl
      · rw [hL]
        simp only [Spec.advance, index_kvs_length hwf, kvBlocks_length]
        split <;> rfl

end Sst

namespace Sst.TI
open Sst Sst.Spec Sst.TwoLevel

section
variable {cmp : Cmp} {p : FilterPolicy} {t : TableImg} {fv : Option Bytes} {tb : Table}

/-- the part of `prev` that loads the block under the index iterator and goes to its last entry -/
def prevLoad (it : TableIter) : M (TableIter × Bool) := do
  match ← curKV it.indexBlock with
  | some (_, handle) =>
    match ← M.try' (TableIter.loadBlock it handle) with
    | .ok it =>
      match it.currentBlock with
      | none => M.lift (.panic "prev: current_block unwrap")
      | some cb =>
        let cb ← M.lift cb.seekToLast
        pure ({ it with currentBlock := some cb }, cb.valid)
    | .error _ => pure (it.reset, false)
  | none => pure (it, false)

/-- the part of `prev` after the current block has no previous entry -/
def prevTail (it : TableIter) : M (TableIter × Bool) := do
  let (ib, ok) ← M.lift it.indexBlock.prev
  let it := { it with indexBlock := ib }
  if ok then prevLoad it else pure (it.reset, false)

theorem prev_some_true (it : TableIter) (cb cb' : BlockIter) (h : it.currentBlock = some cb)
    (hp : cb.prev = .ok (cb', true)) (w : World) :
    it.prev w = (w, .ok ({ it with currentBlock := some cb' }, true)) := by
  unfold TableIter.prev
  simp only [h]
  rw [lift_bind hp, bind_ok (pure_run _ _)]
  simp only [if_true]
  rfl

theorem prev_some_false (it : TableIter) (cb cb' : BlockIter) (h : it.currentBlock = some cb)
    (hp : cb.prev = .ok (cb', false)) (w : World) :
    it.prev w = prevTail { it with currentBlock := some cb' } w := by
  unfold TableIter.prev
  simp only [h]
  rw [lift_bind hp, bind_ok (pure_run _ _)]
  simp only [Bool.false_eq_true, if_false]
  rfl

theorem prev_none (it : TableIter) (h : it.currentBlock = none) (w : World) :
    it.prev w = prevTail it w := by
  unfold TableIter.prev
  simp only [h]
  rw [bind_ok (pure_run _ _)]
  simp only [Bool.false_eq_true, if_false]
  rfl

theorem prevTail_false (it : TableIter) (ib' : BlockIter) (hp : it.indexBlock.prev = .ok (ib', false))
    (w : World) :
    prevTail it w = (w, .ok (({ it with indexBlock := ib' } : TableIter).reset, false)) := by
  unfold prevTail
  rw [lift_bind hp]
  rfl

theorem prevTail_true (it : TableIter) (ib' : BlockIter) (hp : it.indexBlock.prev = .ok (ib', true))
    (w : World) :
    prevTail it w = prevLoad { it with indexBlock := ib' } w := by
  unfold prevTail
  rw [lift_bind hp]
  rfl

theorem prevLoad_ok (hwf : t.WF cmp) (hop : Opened tb t cmp p fv) (w : World) (hw : WorldOK w tb t)
    (it : TableIter) (ht : it.table = tb) (bj : Nat)
    (hs : SimB t.index.contents t.index.es t.index.rs it.indexBlock (some bj)) :
    ∃ w' it' d, t.blocks[bj]? = some d ∧ prevLoad it w = (w', .ok (it', true))
      ∧ SimT t tb it' (some (bj, d.blk.es.length - 1)) ∧ WorldOK w' tb t ∧ Frame w w' tb := by
  obtain ⟨e, he, _⟩ := hs.at_
  have hbj : bj < t.blocks.length := by
    rw [← index_es_length hwf]; exact (List.getElem?_eq_some_iff.mp he).1
  have hd : t.blocks[bj]? = some t.blocks[bj] := List.getElem?_eq_getElem hbj
  have hmem : t.blocks[bj] ∈ t.blocks := List.getElem_mem hbj
  generalize t.blocks[bj] = d at hd hmem
  have hcur := simB_current hwf.indexWF.1 hs
  have hent : Spec.entryAt (kvOf t.index.contents t.index.es) (some bj) = some (d.sep, d.hval) := by
    show (kvOf t.index.contents t.index.es)[bj]? = _
    rw [index_kvs_getElem? hwf, hd]; rfl
  rw [hent] at hcur
  obtain ⟨w', cb, hload, hcb, hw', hfr⟩ := loadBlock_ok hwf hop w hw it ht d hmem
  obtain ⟨cb', hlast, hcb'⟩ := simB_seekToLast (hwf.dataWF d hmem).1 (hwf.dataWF d hmem).2 hcb
  rw [if_neg (hwf.dataNonempty d hmem)] at hcb'
  have hvalid : cb'.valid = true := by rw [simB_valid (hwf.dataWF d hmem).1 hcb']; rfl
  refine ⟨w', ⟨it.table, some cb', d.handle.offset, it.indexBlock⟩, d, hd, ?_, ?_, hw', hfr⟩
  · unfold prevLoad
    rw [bind_ok (curKV_run hcur w)]
    dsimp only
    rw [bind_ok (try_ok hload)]
    dsimp only
    rw [lift_bind hlast, hvalid]
    rfl
  · exact ⟨ht, d, cb', hd, hs, rfl, hcb', rfl⟩

end
end Sst.TI

namespace Sst
open Sst.Spec Sst.TwoLevel Sst.TI

/-- prev from a valid position -/
theorem simT_prev_valid (cmp : Cmp) (hc : cmp.Lawful) (p : FilterPolicy) (t : TableImg) (hwf : t.WF cmp)
    (fv : Option Bytes) (tb : Table) (hop : Opened tb t cmp p fv)
    (w : World) (hw : WorldOK w tb t) (it : TableIter) (bi li : Nat)
    (h : SimT t tb it (some (bi, li))) :
    ∃ w' it' pos', it.prev w = (w', .ok (it', (Spec.prevValid (flatIdx t.kvBlocks bi li)).2))
      ∧ SimT t tb it' pos' ∧ t.flatPos pos' = (Spec.prevValid (flatIdx t.kvBlocks bi li)).1
      ∧ WorldOK w' tb t ∧ Frame w w' tb := by
  obtain ⟨d, cb, hd, hmem, hi, hcb, hs, ho, hl, hkb⟩ := simT_unpack h
  obtain ⟨cb', hprev, hs'⟩ := simB_prev_valid (hwf.dataWF d hmem).1 (hwf.dataWF d hmem).2 hs
  by_cases hli : 0 < li
  · have hP : Spec.prevValid li = (some (li - 1), true) := by
      simp only [Spec.prevValid]; rw [if_neg (by omega)]
    rw [hP] at hprev hs'
    rw [prev_inside t.kvBlocks bi li hli]
    refine ⟨w, { it with currentBlock := some cb' }, some (bi, li - 1), ?_, ?_, rfl, hw, Frame.refl w tb⟩
    · exact prev_some_true it cb cb' hcb hprev w
    · exact ⟨h.table, d, cb', hd, hi, rfl, hs', ho⟩
  · have hli0 : li = 0 := by omega
    subst hli0
    have hP : Spec.prevValid 0 = (none, false) := rfl
    rw [hP] at hprev hs'
    rw [prev_some_false it cb cb' hcb hprev w]
    obtain ⟨ib', hiprev, hsi'⟩ := simB_prev_valid hwf.indexWF.1 hwf.indexWF.2 hi
    cases bi with
    | zero =>
      have hP0 : Spec.prevValid 0 = (none, false) := rfl
      rw [hP0] at hiprev hsi'
      rw [prev_first]
      refine ⟨w, _, none,
        prevTail_false ⟨it.table, some cb', it.currentBlockOff, it.indexBlock⟩ ib' hiprev w, ?_, rfl, hw,
        Frame.refl w tb⟩
      exact ⟨h.table, rfl, simB_reset hwf.indexWF.1 hsi'⟩
    | succ bj =>
      have hPs : Spec.prevValid (bj + 1) = (some bj, true) := by
        simp [Spec.prevValid]
      rw [hPs] at hiprev hsi'
      rw [prevTail_true ⟨it.table, some cb', it.currentBlockOff, it.indexBlock⟩ ib' hiprev w]
      obtain ⟨w', it', d', hd', hrun, hsT, hw', hfr⟩ :=
        prevLoad_ok hwf hop w hw ⟨it.table, some cb', it.currentBlockOff, ib'⟩ h.table bj hsi'
      have hkb' : t.kvBlocks[bj]? = some (kvOf d'.blk.contents d'.blk.es) := by
        rw [kvBlocks_getElem?, hd']; rfl
      rw [prev_cross t.kvBlocks (ordered hwf).nonempty bj _ hkb', kvOf_length]
      exact ⟨w', it', some (bj, d'.blk.es.length - 1), hrun, hsT, rfl, hw', hfr⟩

/-- prev from an invalid position: unspecified but harmless — some position, flag consistent with it -/
theorem simT_prev_invalid (cmp : Cmp) (hc : cmp.Lawful) (p : FilterPolicy) (t : TableImg) (hwf : t.WF cmp)
    (fv : Option Bytes) (tb : Table) (hop : Opened tb t cmp p fv)
    (w : World) (hw : WorldOK w tb t) (it : TableIter) (h : SimT t tb it none) :
    ∃ w' it' pos', it.prev w = (w', .ok (it', (t.flatPos pos').isSome)) ∧ SimT t tb it' pos'
      ∧ WorldOK w' tb t ∧ Frame w w' tb := by
  obtain ⟨ib', ipos', hiprev, hsi'⟩ := simB_prev_invalid hwf.indexWF.1 hwf.indexWF.2 h.at_.2
  rw [prev_none it h.at_.1 w]
  cases ipos' with
  | none =>
    refine ⟨w, _, none, prevTail_false _ ib' hiprev w, ?_, hw, Frame.refl w tb⟩
    exact ⟨h.table, rfl, simB_reset hwf.indexWF.1 hsi'⟩
  | some bj =>
    rw [prevTail_true _ ib' hiprev w]
    obtain ⟨w', it', d', hd', hrun, hsT, hw', hfr⟩ :=
      prevLoad_ok hwf hop w hw ⟨it.table, it.currentBlock, it.currentBlockOff, ib'⟩ h.table bj hsi'
    exact ⟨w', it', some (bj, d'.blk.es.length - 1), hrun, hsT, hw', hfr⟩

end Sst

#print axioms Sst.iter_new_ok
#print axioms Sst.simT_advance
#print axioms Sst.simT_next
#print axioms Sst.simT_reset
#print axioms Sst.simT_seekToFirst
#print axioms Sst.simT_valid
#print axioms Sst.simT_current
#print axioms Sst.simT_currentKey
#print axioms Sst.simT_seek
#print axioms Sst.simT_prev_valid
#print axioms Sst.simT_prev_invalid
