import SstModel.Model.Table
import SstModel.Lemmas.CrcBurst
import SstModel.Lemmas.Codec
import SstModel.Lemmas.SnappyBound
/-
  C07 (block level): `read_block_contents` hands out the contents of a block only if contents + type byte
  verify against the stored (masked) CRC-32C, and every alteration of a physical block confined to at most
  4 consecutive bytes is reported as `Corruption`.
-/
namespace Sst

/-- the pure verification step that follows the read: `buf` is the `size+5`-byte buffer -/
def verifyBlock (buf : Bytes) (size : Nat) : Res Bytes :=
  let data := buf.take size
  let ctype := (buf.getD size 0).toNat
  let cksum := decodeFixed32 ((buf.drop (size + Consts.tableBlockCompressLen)).take 4)
  if crc32c (data ++ [UInt8.ofNat ctype]) ≠ unmaskCrc cksum then .err .corruption
  else if ctype = Consts.compressionNone then .ok data
  else if ctype = Consts.compressionSnappy then
    match Snappy.decode data with
    | some d => .ok d
    | none => .err .compressionError
  else .err .invalidData

/-- what `verifyBlock` does once the checksum matched -/
def decodeByType (data : Bytes) (ty : UInt8) : Res Bytes :=
  if ty.toNat = 0 then .ok data
  else if ty.toNat = 1 then
    (match Snappy.decode data with
     | some d => .ok d
     | none => .err .compressionError)
  else .err .invalidData

/-- the allocations of the verification step, most recent first: only the snappy arm allocates
    (`decompress_vec`'s `vec![0; declared]`), and only when the declared length passes the guard of
    fix D20 -/
def verifyAllocs (buf : Bytes) (size : Nat) : List Nat :=
  let data := buf.take size
  let ctype := (buf.getD size 0).toNat
  let cksum := decodeFixed32 ((buf.drop (size + Consts.tableBlockCompressLen)).take 4)
  if crc32c (data ++ [UInt8.ofNat ctype]) ≠ unmaskCrc cksum then []
  else if ctype = Consts.compressionNone then []
  else if ctype = Consts.compressionSnappy then
    match Snappy.declaredLen data with
    | none => []
    | some n => if n > Consts.snappyMaxExpansion * data.length then [] else [n]
  else []

/-- the guarded decompression returns what the unguarded decoder returns: the guard of fix D20 only
    turns decodes that fail anyway into the same error earlier (and without the allocation) -/
theorem decompressGuarded_result (data : Bytes) (w : World) :
    (decompressGuarded data w).2 =
      (match Snappy.decode data with
       | some d => .ok d
       | none => .err .compressionError) := by
  unfold decompressGuarded
  cases hl : Snappy.declaredLen data with
  | none => rw [Snappy.declaredLen_none_decode hl]; rfl
  | some n =>
    simp only
    split
    · rename_i hgt
      cases hd : Snappy.decode data with
      | none => rfl
      | some d =>
        obtain ⟨n', hn', hle⟩ := Snappy.decode_passes_guard hd
        rw [hl] at hn'; cases hn'
        omega
    · cases hd : Snappy.decode data with
      | none => simp only [bind, M.bind', logAlloc, M.fail]
      | some d => simp only [bind, M.bind', logAlloc, pure, M.pure']

/-- … and the world it leaves: only `allocs` grows, by the declared length when the guard passes -/
theorem decompressGuarded_world (data : Bytes) (w : World) :
    (decompressGuarded data w).1 =
      { w with allocs := (match Snappy.declaredLen data with
                          | none => []
                          | some n => if n > Consts.snappyMaxExpansion * data.length then [] else [n])
                         ++ w.allocs } := by
  unfold decompressGuarded
  cases hl : Snappy.declaredLen data with
  | none => rfl
  | some n =>
    simp only
    split
    · rfl
    · cases hd : Snappy.decode data with
      | none => simp only [bind, M.bind', logAlloc, M.fail]; rfl
      | some d => simp only [bind, M.bind', logAlloc, pure, M.pure']; rfl

/-- `readBlockContents` = read, then `verifyBlock`; the world additionally records the decompression
    allocation (`verifyAllocs`) -/
theorem readBlockContents_eq (file : Nat) (loc : BlockHandle) (w : World) :
    readBlockContents file loc w =
      match readBytes file ⟨loc.offset, loc.size + Consts.tableBlockCksumLen + Consts.tableBlockCompressLen⟩ w with
      | (w', .ok buf) => ({ w' with allocs := verifyAllocs buf loc.size ++ w'.allocs }, verifyBlock buf loc.size)
      | (w', .err c) => (w', .err c)
      | (w', .panic s) => (w', .panic s)
      | (w', .diverge) => (w', .diverge) := by
  unfold readBlockContents
  show M.bind' _ _ w = _
  unfold M.bind'
  rcases readBytes file ⟨loc.offset, loc.size + Consts.tableBlockCksumLen + Consts.tableBlockCompressLen⟩ w
    with ⟨w', r⟩
  cases r with
  | ok buf =>
    show _ = ({ w' with allocs := verifyAllocs buf loc.size ++ w'.allocs }, verifyBlock buf loc.size)
    unfold verifyBlock verifyAllocs
    simp only []
    split
    · rfl
    · split
      · rfl
      · split
        · exact Prod.ext (decompressGuarded_world _ _) (decompressGuarded_result _ _)
        · rfl
  | err c => rfl
  | panic s => rfl
  | diverge => rfl

/-- with a fault-free source the buffer is the file slice, zero padded past the end of file -/
theorem readBytes_clean (file : Nat) (loc : BlockHandle) (w : World) (hs : w.sched = []) :
    ∃ w', readBytes file loc w =
        (w', .ok (((w.files.getD file []).drop loc.offset).take loc.size
            ++ List.replicate (loc.size - min loc.size ((w.files.getD file []).length - loc.offset)) 0))
      ∧ w'.files = w.files ∧ w'.sched = [] ∧ w'.cache = w.cache := by
  have hn : (if loc.offset > (w.files.getD file []).length then 0
              else min loc.size ((w.files.getD file []).length - loc.offset))
            = min loc.size ((w.files.getD file []).length - loc.offset) := by
    split <;> omega
  refine ⟨{ w with sched := [], readLog := (file, loc.offset, loc.size) :: w.readLog,
                   allocs := loc.size :: w.allocs }, ?_, rfl, rfl, rfl⟩
  unfold readBytes readAt
  simp only [hs, hn]
  congr 3
  rw [List.take_eq_take_iff]
  simp only [List.length_drop]
  omega

/-! ### list bookkeeping -/

theorem u8_ofNat_toNat (x : UInt8) : UInt8.ofNat x.toNat = x := by
  simp

/-- the verified part of a buffer `contents ++ [type] ++ trailer` -/
theorem verifyBlock_concat (c : Bytes) (t : UInt8) (ck : Bytes) :
    verifyBlock (c ++ [t] ++ ck) c.length =
      if crc32c (c ++ [t]) ≠ unmaskCrc (decodeFixed32 (ck.take 4)) then .err .corruption
      else decodeByType c t := by
  have h1 : (c ++ [t] ++ ck).take c.length = c := by
    rw [List.append_assoc]; exact List.take_left' rfl
  have h2 : (c ++ [t] ++ ck).getD c.length 0 = t := by
    rw [List.append_assoc, List.getD_eq_getElem?_getD, List.getElem?_append_right (Nat.le_refl _)]
    simp
  have h3 : (c ++ [t] ++ ck).drop (c.length + Consts.tableBlockCompressLen) = ck := by
    exact List.drop_left' (by simp [Consts.tableBlockCompressLen])
  unfold verifyBlock decodeByType
  simp only [h1, h2, h3, u8_ofNat_toNat, Consts.compressionNone, Consts.compressionSnappy]

/-- same, for a body (`contents ++ [type]`) given only by its length -/
theorem verifyBlock_body (body ck : Bytes) (size : Nat) (hsize : size + 1 = body.length) :
    verifyBlock (body ++ ck) size =
      if crc32c body ≠ unmaskCrc (decodeFixed32 (ck.take 4)) then .err .corruption
      else decodeByType (body.take size) (body.getD size 0) := by
  have hne : body ≠ [] := by intro h; simp [h] at hsize
  obtain ⟨c, t, rfl⟩ : ∃ c t, body = c ++ [t] :=
    ⟨body.dropLast, body.getLast hne, (List.dropLast_concat_getLast hne).symm⟩
  have hc : size = c.length := by simpa using hsize
  subst hc
  rw [verifyBlock_concat]
  have h1 : (c ++ [t]).take c.length = c := List.take_left' rfl
  have h2 : (c ++ [t]).getD c.length 0 = t := by
    rw [List.getD_eq_getElem?_getD, List.getElem?_append_right (Nat.le_refl _)]; simp
  rw [h1, h2]

theorem crc32c_lt (d : Bytes) : crc32c d < 2 ^ 32 := by
  unfold crc32c
  exact BitVec.isLt _

theorem maskCrc_lt (c : Nat) : maskCrc c < 2 ^ 32 := by
  unfold maskCrc
  exact Nat.mod_lt _ (by decide)

/-- nothing unverified is handed out -/
theorem verifyBlock_ok (buf : Bytes) (size : Nat) (d : Bytes) (h : verifyBlock buf size = .ok d) :
    crc32c (buf.take size ++ [UInt8.ofNat (buf.getD size 0).toNat])
      = unmaskCrc (decodeFixed32 ((buf.drop (size + 1)).take 4)) := by
  show crc32c (buf.take size ++ [UInt8.ofNat (buf.getD size 0).toNat])
      = unmaskCrc (decodeFixed32 ((buf.drop (size + Consts.tableBlockCompressLen)).take 4))
  unfold verifyBlock at h
  simp only [] at h
  split at h
  · cases h
  · rename_i hc
    exact Classical.not_not.mp hc

/-- a physical block as the writer lays it out -/
def physicalBlock (data : Bytes) (ty : UInt8) : Bytes :=
  data ++ [ty] ++ encodeFixed32 (maskCrc (crc32c (data ++ [ty])))

/-- an intact physical block (whatever follows it in the buffer) passes verification -/
theorem verifyBlock_physical (data : Bytes) (ty : UInt8) (rest : Bytes) :
    verifyBlock (physicalBlock data ty ++ rest) data.length =
      (if ty.toNat = 0 then .ok data
       else if ty.toNat = 1 then
         (match Snappy.decode data with
          | some d => .ok d
          | none => .err .compressionError)
       else .err .invalidData) := by
  unfold physicalBlock
  rw [List.append_assoc (data ++ [ty]), verifyBlock_concat]
  have h4 : (encodeFixed32 (maskCrc (crc32c (data ++ [ty]))) ++ rest).take 4
      = encodeFixed32 (maskCrc (crc32c (data ++ [ty]))) := List.take_left' (encodeFixed32_length _)
  rw [h4, decodeFixed32_encodeFixed32 _ (maskCrc_lt _), unmaskCrc_maskCrc _ (crc32c_lt _)]
  simp only [ne_eq, not_true_eq_false, if_false]
  rfl

/-- C07 (block level): any alteration of contents+type confined to ≤ 4 consecutive bytes,
    trailer checksum untouched, is rejected -/
theorem verifyBlock_detects_burst (p w w' s ck : Bytes) (hlen : w.length = w'.length)
    (h4 : w.length ≤ 4) (hne : w ≠ w')
    (size : Nat) (hsize : size + 1 = (p ++ w ++ s).length)
    (d : Bytes) (hok : verifyBlock (p ++ w ++ s ++ ck) size = .ok d) :
    verifyBlock (p ++ w' ++ s ++ ck) size = .err .corruption := by
  have hsize' : size + 1 = (p ++ w' ++ s).length := by
    simp only [List.length_append] at hsize ⊢; omega
  rw [verifyBlock_body _ _ _ hsize] at hok
  rw [verifyBlock_body _ _ _ hsize']
  split at hok
  · cases hok
  · rename_i hc
    have hc := Classical.not_not.mp hc
    have := crc32c_detects_burst4 p w w' s hlen h4 hne
    rw [if_pos]
    rw [← hc]
    exact fun e => this e.symm

/-! ### the checksum field -/

theorem decodeFixed32_inj4 (a b : Bytes) (ha : a.length = 4) (hb : b.length = 4)
    (h : decodeFixed32 a = decodeFixed32 b) : a = b := by
  match a, ha with
  | [a0, a1, a2, a3], _ =>
    match b, hb with
    | [b0, b1, b2, b3], _ =>
      simp only [decodeFixed32] at h
      have := a0.toNat_lt; have := a1.toNat_lt; have := a2.toNat_lt; have := a3.toNat_lt
      have := b0.toNat_lt; have := b1.toNat_lt; have := b2.toNat_lt; have := b3.toNat_lt
      have e0 : a0 = b0 := UInt8.toNat_inj.mp (by omega)
      have e1 : a1 = b1 := UInt8.toNat_inj.mp (by omega)
      have e2 : a2 = b2 := UInt8.toNat_inj.mp (by omega)
      have e3 : a3 = b3 := UInt8.toNat_inj.mp (by omega)
      rw [e0, e1, e2, e3]

/-- rotate left by 15 then right by 15 (on 32 bits) -/
theorem rotr15_rotl15 (r : Nat) (h : r < 4294967296) :
    (r / 131072 + r * 32768 % 4294967296) / 32768
      + (r / 131072 + r * 32768 % 4294967296) * 131072 % 4294967296 = r := by
  have e1 : r * 32768 % 4294967296 = (r % 131072) * 32768 := by omega
  rw [e1]
  have hc : r = r / 131072 * 131072 + r % 131072 := by omega
  have hlo : r % 131072 < 131072 := by omega
  have hhi : r / 131072 < 32768 := by omega
  generalize r / 131072 = hi at *
  generalize r % 131072 = lo at *
  have e2 : (hi + lo * 32768) / 32768 = lo := by omega
  have e3 : (hi + lo * 32768) * 131072 = lo * 4294967296 + hi * 131072 := by omega
  rw [e2, e3, Nat.mul_add_mod_self_right, Nat.mod_eq_of_lt (by omega)]
  omega

theorem rotl15_lt (r : Nat) (h : r < 4294967296) :
    r / 131072 + r * 32768 % 4294967296 < 4294967296 := by
  omega

theorem maskCrc_unmaskCrc (m : Nat) (h : m < 2 ^ 32) : maskCrc (unmaskCrc m) = m := by
  simp only [unmaskCrc, maskCrc, Consts.maskShr, Consts.maskShl, Consts.unmaskShr,
    Consts.unmaskShl, Consts.maskDelta, Nat.reducePow] at *
  have hr : (m + 4294967296 - 2726488792) % 4294967296 < 4294967296 := Nat.mod_lt _ (by decide)
  generalize hrr : (m + 4294967296 - 2726488792) % 4294967296 = r at *
  have hl := rotl15_lt r hr
  rw [Nat.mod_eq_of_lt hl, rotr15_rotl15 r hr, Nat.mod_eq_of_lt hr]
  omega

theorem unmaskCrc_injective (a b : Nat) (ha : a < 2 ^ 32) (hb : b < 2 ^ 32)
    (h : unmaskCrc a = unmaskCrc b) : a = b := by
  rw [← maskCrc_unmaskCrc a ha, ← maskCrc_unmaskCrc b hb, h]

/-- C07: an alteration confined to the 4 checksum bytes is detected too -/
theorem verifyBlock_detects_cksum (body ck ck' : Bytes) (hck : ck.length = 4) (hck' : ck'.length = 4)
    (hne : ck ≠ ck') (size : Nat) (hsize : size + 1 = body.length)
    (d : Bytes) (hok : verifyBlock (body ++ ck) size = .ok d) :
    verifyBlock (body ++ ck') size = .err .corruption := by
  rw [verifyBlock_body _ _ _ hsize] at hok
  rw [verifyBlock_body _ _ _ hsize]
  rw [List.take_of_length_le (Nat.le_of_eq hck)] at hok
  rw [List.take_of_length_le (Nat.le_of_eq hck')]
  split at hok
  · cases hok
  · rename_i hc
    have hc := Classical.not_not.mp hc
    rw [if_pos]
    rw [hc]
    intro e
    exact hne (decodeFixed32_inj4 _ _ hck hck'
      (unmaskCrc_injective _ _ (decodeFixed32_lt _) (decodeFixed32_lt _) e))

/-- corollary: a single altered byte anywhere in contents or type byte -/
theorem verifyBlock_detects_single_byte (p s ck : Bytes) (b b' : UInt8) (hne : b ≠ b')
    (size : Nat) (hsize : size + 1 = (p ++ [b] ++ s).length)
    (d : Bytes) (hok : verifyBlock (p ++ [b] ++ s ++ ck) size = .ok d) :
    verifyBlock (p ++ [b'] ++ s ++ ck) size = .err .corruption :=
  verifyBlock_detects_burst p [b] [b'] s ck rfl (by simp) (by simpa using hne) size hsize d hok

/-- reader level: whatever `readBlockContents` hands out went through `verifyBlock` on the buffer read,
    hence (with `verifyBlock_ok`) the buffer's contents + type byte match its stored checksum.
    (`w1`: the world after the read; `w'` differs from it only by the logged decompression allocation) -/
theorem readBlockContents_ok (file : Nat) (loc : BlockHandle) (w w' : World) (d : Bytes)
    (h : readBlockContents file loc w = (w', .ok d)) :
    ∃ buf w1, readBytes file ⟨loc.offset, loc.size + Consts.tableBlockCksumLen + Consts.tableBlockCompressLen⟩ w
              = (w1, .ok buf)
      ∧ w' = { w1 with allocs := verifyAllocs buf loc.size ++ w1.allocs }
      ∧ verifyBlock buf loc.size = .ok d
      ∧ crc32c (buf.take loc.size ++ [UInt8.ofNat (buf.getD loc.size 0).toNat])
          = unmaskCrc (decodeFixed32 ((buf.drop (loc.size + 1)).take 4)) := by
  rw [readBlockContents_eq] at h
  rcases hr : readBytes file ⟨loc.offset, loc.size + Consts.tableBlockCksumLen + Consts.tableBlockCompressLen⟩ w
    with ⟨w1, r⟩
  rw [hr] at h
  cases r with
  | ok buf =>
    simp only [Prod.mk.injEq] at h
    obtain ⟨rfl, hv⟩ := h
    exact ⟨buf, w1, rfl, rfl, hv, verifyBlock_ok _ _ _ hv⟩
  | err c => simp at h
  | panic s => simp at h
  | diverge => simp at h

end Sst

#print axioms Sst.readBlockContents_ok
#print axioms Sst.verifyBlock_detects_burst
#print axioms Sst.verifyBlock_detects_cksum
#print axioms Sst.readBlockContents_eq
#print axioms Sst.decompressGuarded_result
#print axioms Sst.decompressGuarded_world
#print axioms Sst.readBytes_clean
#print axioms Sst.verifyBlock_ok
#print axioms Sst.verifyBlock_physical
