import SstModel.Model.Crc
/-
  CRC-32C detects every burst error of at most 32 bits: any change confined to at most 4
  consecutive bytes changes the checksum (`crc32c_detects_burst4`); in particular changing a
  single byte does (`crc32c_detects_single_byte`).

  Route: the register update is GF(2)-linear and invertible; a step result whose top bit is clear
  determines its argument ("unstep"), so feeding k <= 4 bytes into a state and ending in 0 forces the
  state to be the little-endian value of those bytes; for the zero state all bytes must be zero.
-/
namespace Sst

/-! ### the bit step is GF(2)-linear -/

theorem crcBitStep_zero : crcBitStep 0#32 = 0#32 := by
  simp [crcBitStep]

private theorem xor_cancel_mid (a b c : BitVec 32) : a ^^^ c ^^^ (b ^^^ c) = a ^^^ b := by
  ext i; simp; cases c[i] <;> cases b[i] <;> simp

theorem crcBitStep_xor (a b : BitVec 32) :
    crcBitStep (a ^^^ b) = crcBitStep a ^^^ crcBitStep b := by
  unfold crcBitStep
  rw [BitVec.getLsbD_xor]
  cases a.getLsbD 0 <;> cases b.getLsbD 0 <;> simp [BitVec.ushiftRight_xor_distrib]
  · ac_rfl
  · ac_rfl
  · rw [xor_cancel_mid]

/-- "unstep": a step result with the top bit clear determines the argument -/
theorem crcBitStep_unstep (x : BitVec 32) (h : (crcBitStep x).toNat < 2 ^ 31) :
    x.toNat = 2 * (crcBitStep x).toNat := by
  by_cases h0 : x.getLsbD 0 = true
  · exfalso
    simp only [crcBitStep, h0, if_true] at h
    have : (x >>> 1 ^^^ crcPoly).getLsbD 31 = true := by
      simp [crcPoly]
    have := BitVec.toNat_ge_of_msb_true (x := x >>> 1 ^^^ crcPoly)
      (by rw [BitVec.msb_eq_getLsbD_last]; exact this)
    omega
  · simp only [crcBitStep, h0]
    simp [BitVec.getLsbD, Nat.testBit_zero] at h0 ⊢
    simp [Nat.shiftRight_eq_div_pow]
    omega

/-! ### eight bit steps -/

def crcStep8 (x : BitVec 32) : BitVec 32 :=
  crcBitStep (crcBitStep (crcBitStep (crcBitStep (crcBitStep (crcBitStep (crcBitStep (crcBitStep x)))))))

theorem crcByteStep_eq (s : BitVec 32) (b : UInt8) :
    crcByteStep s b = crcStep8 (s ^^^ BitVec.ofNat 32 b.toNat) := rfl

theorem crcStep8_zero : crcStep8 0#32 = 0#32 := by
  simp only [crcStep8, crcBitStep_zero]

theorem crcStep8_xor (a b : BitVec 32) : crcStep8 (a ^^^ b) = crcStep8 a ^^^ crcStep8 b := by
  simp [crcStep8, crcBitStep_xor]

theorem crcStep8_unstep (x : BitVec 32) (h : (crcStep8 x).toNat < 2 ^ 24) :
    x.toNat = 256 * (crcStep8 x).toNat := by
  unfold crcStep8 at h ⊢
  have h7 := crcBitStep_unstep (crcBitStep (crcBitStep (crcBitStep (crcBitStep (crcBitStep (crcBitStep (crcBitStep x))))))) (by omega)
  have h6 := crcBitStep_unstep (crcBitStep (crcBitStep (crcBitStep (crcBitStep (crcBitStep (crcBitStep x)))))) (by omega)
  have h5 := crcBitStep_unstep (crcBitStep (crcBitStep (crcBitStep (crcBitStep (crcBitStep x))))) (by omega)
  have h4 := crcBitStep_unstep (crcBitStep (crcBitStep (crcBitStep (crcBitStep x)))) (by omega)
  have h3 := crcBitStep_unstep (crcBitStep (crcBitStep (crcBitStep x))) (by omega)
  have h2 := crcBitStep_unstep (crcBitStep (crcBitStep x)) (by omega)
  have h1 := crcBitStep_unstep (crcBitStep x) (by omega)
  have h0 := crcBitStep_unstep x (by omega)
  omega

theorem crcStep8_eq_zero (x : BitVec 32) (h : crcStep8 x = 0) : x = 0 := by
  have := crcStep8_unstep x (by rw [h]; decide)
  rw [h] at this
  exact BitVec.eq_of_toNat_eq (by simpa using this)

theorem crcStep8_inj {a b : BitVec 32} (h : crcStep8 a = crcStep8 b) : a = b := by
  have h1 : crcStep8 (a ^^^ b) = 0 := by rw [crcStep8_xor, h, BitVec.xor_self]; rfl
  exact BitVec.xor_eq_zero_iff.mp (crcStep8_eq_zero _ h1)

/-! ### byte step / feed: injective in the state, linear -/

theorem crcByteStep_inj {s s' : BitVec 32} {b : UInt8} (h : crcByteStep s b = crcByteStep s' b) :
    s = s' := by
  rw [crcByteStep_eq, crcByteStep_eq] at h
  have := crcStep8_inj h
  exact (BitVec.xor_left_inj _).mp this

theorem crcFeed_nil (s : BitVec 32) : crcFeed s [] = s := rfl
theorem crcFeed_cons (s : BitVec 32) (b : UInt8) (d : Bytes) :
    crcFeed s (b :: d) = crcFeed (crcByteStep s b) d := rfl
theorem crcFeed_append (s : BitVec 32) (d e : Bytes) :
    crcFeed s (d ++ e) = crcFeed (crcFeed s d) e := by
  simp [crcFeed, List.foldl_append]

theorem crcFeed_inj {d : Bytes} : ∀ {s s' : BitVec 32}, crcFeed s d = crcFeed s' d → s = s' := by
  induction d with
  | nil => intro s s' h; exact h
  | cons b d ih => intro s s' h; exact crcByteStep_inj (ih h)

/-- bytewise xor of two byte strings -/
def xorBytes : Bytes → Bytes → Bytes
  | a :: as, b :: bs => (a ^^^ b) :: xorBytes as bs
  | _, _ => []

theorem xorBytes_length_le : ∀ (d d' : Bytes), (xorBytes d d').length ≤ d.length
  | [], _ => by simp [xorBytes]
  | _ :: _, [] => by simp [xorBytes]
  | _ :: d, _ :: d' => by
    have := xorBytes_length_le d d'
    simp only [xorBytes, List.length_cons]; omega

theorem crcByteStep_xor (s s' : BitVec 32) (b b' : UInt8) :
    crcByteStep s b ^^^ crcByteStep s' b' = crcByteStep (s ^^^ s') (b ^^^ b') := by
  rw [crcByteStep_eq, crcByteStep_eq, crcByteStep_eq, ← crcStep8_xor, UInt8.toNat_xor,
    BitVec.ofNat_xor]
  congr 1
  ac_rfl

theorem crcFeed_xor : ∀ (d d' : Bytes) (s s' : BitVec 32), d.length = d'.length →
    crcFeed s d ^^^ crcFeed s' d' = crcFeed (s ^^^ s') (xorBytes d d')
  | [], [], _, _, _ => rfl
  | [], _ :: _, _, _, h => by simp at h
  | _ :: _, [], _, _, h => by simp at h
  | b :: d, b' :: d', s, s', h => by
    simp only [crcFeed_cons, xorBytes]
    rw [crcFeed_xor d d' _ _ (by simpa using h), crcByteStep_xor]

/-! ### at most 4 bytes fed into a state and ending in 0 determine the state -/

/-- little-endian value of a byte string -/
def valLE : Bytes → Nat
  | [] => 0
  | b :: d => b.toNat + 256 * valLE d

theorem valLE_lt : ∀ d : Bytes, valLE d < 2 ^ (8 * d.length)
  | [] => by simp [valLE]
  | b :: d => by
    have := valLE_lt d
    have hb := b.toNat_lt
    simp only [valLE, List.length_cons, Nat.mul_add, Nat.pow_add]
    omega

private theorem xor_low (x B : BitVec 32) (k : Nat) (hx : x.toNat = 256 * k) (hB : B.toNat < 256) :
    (x ^^^ B).toNat = x.toNat + B.toNat := by
  have hand : x &&& B = 0 := by
    apply BitVec.eq_of_toNat_eq
    apply Nat.eq_of_testBit_eq
    intro i
    rw [BitVec.toNat_and, Nat.testBit_and, hx, show 256 = 2 ^ 8 from rfl, Nat.testBit_two_pow_mul]
    by_cases hi : i ≥ 8
    · have : B.toNat < 2 ^ i :=
        Nat.lt_of_lt_of_le hB (Nat.pow_le_pow_right (show 2 > 0 by decide) hi)
      simp [Nat.testBit_lt_two_pow this]
    · simp [hi]
  have hxor : x ^^^ B = x + B := by
    rw [BitVec.add_eq_or_of_and_eq_zero _ _ hand]
    ext i hi
    have := congrArg (fun v => v[i]) hand
    simp at this ⊢
    cases hx : x[i] <;> cases hb : B[i] <;> simp_all
  rw [hxor, BitVec.toNat_add_of_and_eq_zero hand]

theorem crcFeed_eq_zero_state : ∀ (d : Bytes) (s : BitVec 32), d.length ≤ 4 → crcFeed s d = 0 →
    s.toNat = valLE d
  | [], s, _, h => by simpa [crcFeed_nil, valLE] using congrArg BitVec.toNat h
  | b :: d, s, hl, h => by
    rw [crcFeed_cons] at h
    simp only [List.length_cons] at hl
    have ih := crcFeed_eq_zero_state d _ (by omega) h
    have hlt := valLE_lt d
    have hpow : 2 ^ (8 * d.length) ≤ 2 ^ 24 :=
      Nat.pow_le_pow_right (by decide) (by omega)
    rw [crcByteStep_eq] at ih
    have hun := crcStep8_unstep (s ^^^ BitVec.ofNat 32 b.toNat) (by omega)
    rw [ih] at hun
    have hB : (BitVec.ofNat 32 b.toNat).toNat = b.toNat := by
      have := b.toNat_lt
      simp
    have hb := b.toNat_lt
    have := xor_low _ (BitVec.ofNat 32 b.toNat) _ hun (by omega)
    rw [BitVec.xor_assoc, BitVec.xor_self, BitVec.xor_zero, hun, hB] at this
    simp only [valLE]; omega

theorem xorBytes_valLE_eq_zero : ∀ (d d' : Bytes), d.length = d'.length →
    valLE (xorBytes d d') = 0 → d = d'
  | [], [], _, _ => rfl
  | [], _ :: _, h, _ => by simp at h
  | _ :: _, [], h, _ => by simp at h
  | b :: d, b' :: d', h, hv => by
    simp only [xorBytes, valLE] at hv
    have h1 : (b ^^^ b').toNat = 0 := by omega
    have h2 : valLE (xorBytes d d') = 0 := by omega
    have hb : b = b' := by
      apply UInt8.xor_eq_zero_iff.mp
      exact UInt8.toNat_inj.mp h1
    rw [hb, xorBytes_valLE_eq_zero d d' (by simpa using h) h2]

/-- two different windows of equal length <= 4 drive the same state to different states -/
theorem crcFeed_window_ne (s : BitVec 32) (w w' : Bytes) (hlen : w.length = w'.length)
    (h4 : w.length ≤ 4) (hne : w ≠ w') : crcFeed s w ≠ crcFeed s w' := by
  intro h
  have hx : crcFeed (s ^^^ s) (xorBytes w w') = 0 := by
    rw [← crcFeed_xor w w' s s hlen, h, BitVec.xor_self]; rfl
  rw [BitVec.xor_self] at hx
  have hl : (xorBytes w w').length ≤ 4 := Nat.le_trans (xorBytes_length_le w w') h4
  have := crcFeed_eq_zero_state _ _ hl hx
  exact hne (xorBytes_valLE_eq_zero w w' hlen (by simpa using this.symm))

/-! ### the theorems -/

/-- any change confined to at most 4 consecutive bytes (a burst of <= 32 bits) changes the CRC -/
theorem crc32c_detects_burst4 (p w w' s : Bytes) (hlen : w.length = w'.length) (h4 : w.length ≤ 4)
    (hne : w ≠ w') : crc32c (p ++ w ++ s) ≠ crc32c (p ++ w' ++ s) := by
  intro h
  unfold crc32c at h
  have h1 := BitVec.eq_of_toNat_eq h
  have h2 := (BitVec.xor_left_inj _).mp h1
  rw [crcFeed_append, crcFeed_append, crcFeed_append, crcFeed_append] at h2
  exact crcFeed_window_ne _ w w' hlen h4 hne (crcFeed_inj h2)

/-- corollary: changing exactly one byte changes the CRC -/
theorem crc32c_detects_single_byte (p s : Bytes) (b b' : UInt8) (hne : b ≠ b') :
    crc32c (p ++ [b] ++ s) ≠ crc32c (p ++ [b'] ++ s) :=
  crc32c_detects_burst4 p [b] [b'] s rfl (by simp) (by simpa using hne)

end Sst

#print axioms Sst.crc32c_detects_burst4
#print axioms Sst.crc32c_detects_single_byte
