import SstModel.Lemmas.FaultyScan
/-
  Positional semantics of the table iterator when block reads may fail (C14: any fault schedule; C07: a
  damaged image): what `advance`/`next`, `seek` and `prev` do to the two-level position `SimT`, with the
  list `failed` of the data blocks whose `read_block` failed during the call made explicit.
  Everything is proved for an abstract world invariant `P` under `LoadOK` (a block read returns the true
  contents or an error and keeps `P`), then instantiated with `FT.Inv` (fault-injected source).
-/
namespace Sst
set_option linter.unusedSectionVars false
namespace FT
open TI Spec TwoLevel

/-- a read of a data block of the table keeps the world invariant `P` and returns the true contents or an
    error -/
def LoadOK (t : TableImg) (tb : Table) (P : World → Prop) : Prop :=
  ∀ w, P w → ∀ d ∈ t.blocks, P (tb.readBlock d.handle w).1
    ∧ ((tb.readBlock d.handle w).2 = .ok d.blk.contents ∨ ∃ c, (tb.readBlock d.handle w).2 = .err c)

/-- moving to the next loadable block: the index iterator has consumed `i` entries; the blocks `failed`
    (consecutive, starting at block `i`) were read and failed, then either block `i + failed.length` was
    read successfully and the position is its first entry, or no block is left and the position is
    invalid. `w'` is the world after these reads. -/
def NextFrom (tb : Table) (t : TableImg) (w : World) (i : Nat) (failed : List DBlock) (w' : World)
    (pos' : Option (Nat × Nat)) : Prop :=
  (t.blocks.drop i = failed ∧ ScanFrom tb w failed [] w' ∧ pos' = none)
  ∨ (∃ d ds' w0, t.blocks.drop i = failed ++ d :: ds' ∧ ScanFrom tb w failed [] w0
        ∧ tb.readBlock d.handle w0 = (w', .ok d.blk.contents) ∧ pos' = some (i + failed.length, 0))

section
variable {cmp : Cmp} {p : FilterPolicy} {t : TableImg} {fv : Option Bytes} {tb : Table}

/-- `tail_scan` in terms of `NextFrom` -/
theorem tail_nextFrom (hwf : t.WF cmp) (P : World → Prop) (hload : LoadOK t tb P)
    (i : Nat) (it : TableIter) (w : World) (n : Nat)
    (hg : Gap t tb it (posOf i)) (hp : P w) (hn : (t.blocks.drop i).length ≤ n) :
    ∃ failed w' it' pos', NextFrom tb t w i failed w' pos' ∧ P w'
      ∧ tail it (n + 1) w = (w', .ok (it', pos'.isSome)) ∧ SimT t tb it' pos' := by
  rcases tail_scan hwf P hload _ i it w n rfl hg hp hn with
    ⟨w', it', hscan, hp', htl, hsT⟩ | ⟨sk, d, ds', w0, w1, it', hds, hsk, hrb, hp1, htl, hsT⟩
  · exact ⟨_, w', it', none, .inl ⟨rfl, hscan, rfl⟩, hp', htl, hsT⟩
  · exact ⟨sk, w1, it', _, .inr ⟨d, ds', w0, hds, hsk, hrb, rfl⟩, hp1, htl, hsT⟩

/-- nothing failed: the position is the one the index cursor dictates -/
theorem nextFrom_exact (hwf : t.WF cmp) {w w' : World} {i : Nat} {pos' : Option (Nat × Nat)}
    (h : NextFrom tb t w i [] w' pos') :
    pos' = (Spec.advance (kvOf t.index.contents t.index.es) (posOf i)).1.map (fun bi => (bi, 0)) := by
  rw [advance_posOf, index_kvs_length hwf]
  rcases h with ⟨hd, _, rfl⟩ | ⟨d, ds', w0, hd, _, _, rfl⟩
  · have := List.drop_eq_nil_iff.mp hd
    rw [if_neg (by omega)]
    rfl
  · have hil : i < t.blocks.length := by
      apply Classical.byContradiction
      intro hh
      rw [List.drop_eq_nil_of_le (by omega)] at hd
      cases hd
    rw [if_pos hil]
    rfl

/-- the entry reached is stored in the table, in a block after the failed ones -/
theorem nextFrom_block {w w' : World} {i : Nat} {failed : List DBlock} {bj lj : Nat}
    (h : NextFrom tb t w i failed w' (some (bj, lj))) :
    bj = i + failed.length ∧ lj = 0 ∧ ∃ d, t.blocks[bj]? = some d := by
  rcases h with ⟨_, _, h⟩ | ⟨d, ds', w0, hd, _, _, h⟩
  · cases h
  · cases h
    refine ⟨rfl, rfl, d, ?_⟩
    have := congrArg (fun l => l[failed.length]?) hd
    simp only [List.getElem?_drop] at this
    rw [this, List.getElem?_append_right (Nat.le_refl _)]
    simp

end

/-! ### `advance` / `next` from any position -/

/-- what one `advance` / `next` does to the position. In the middle of a block: the next entry of the
    block, no read. At the end of a block (or from the invalid position): `NextFrom`. -/
def StepOutcome (tb : Table) (t : TableImg) (pos : Option (Nat × Nat)) (w : World) (failed : List DBlock)
    (w' : World) (pos' : Option (Nat × Nat)) : Prop :=
  match pos with
  | none => NextFrom tb t w 0 failed w' pos'
  | some (bi, li) => ∃ d, t.blocks[bi]? = some d ∧
      ((li + 1 < d.blk.es.length ∧ pos' = some (bi, li + 1) ∧ w' = w ∧ failed = [])
        ∨ (li + 1 = d.blk.es.length ∧ NextFrom tb t w (bi + 1) failed w' pos'))

section
variable (cmp : Cmp) (hc : cmp.Lawful) (p : FilterPolicy) (t : TableImg) (hwf : t.WF cmp)
  (fv : Option Bytes) (tb : Table) (hop : Opened tb t cmp p fv)
include hc hwf hop

/-- `advance` at the end of a block / from the invalid position -/
theorem advance_atEnd_gen (P : World → Prop) (hload : LoadOK t tb P) {it : TableIter} {i : Nat}
    (hat : AtEnd t tb it i) (w : World) (hp : P w) :
    ∃ failed w' it' pos', NextFrom tb t w i failed w' pos' ∧ P w'
      ∧ it.advance w = (w', .ok (it', pos'.isSome)) ∧ SimT t tb it' pos' := by
  obtain ⟨it0, hg, hadv⟩ := advance_atEnd hwf hat
  have hfuel : (t.blocks.drop i).length ≤ 2 * t.index.contents.length + 2 := by
    have h1 : (t.blocks.drop i).length ≤ t.blocks.length := by rw [List.length_drop]; omega
    have h2 := index_es_length hwf
    have h3 := hwf.indexWF.1.length_le
    omega
  obtain ⟨failed, w', it', pos', hnf, hp', htl, hsT⟩ := tail_nextFrom hwf P hload i it0 w _ hg hp hfuel
  exact ⟨failed, w', it', pos', hnf, hp', (hadv w).trans htl, hsT⟩

/-- G2: one `advance` from ANY position when block reads may fail -/
theorem advance_gen (P : World → Prop) (hload : LoadOK t tb P) (it : TableIter)
    (pos : Option (Nat × Nat)) (hs : SimT t tb it pos) (w : World) (hp : P w) :
    ∃ failed w' it' pos', it.advance w = (w', .ok (it', pos'.isSome)) ∧ SimT t tb it' pos' ∧ P w'
      ∧ StepOutcome tb t pos w failed w' pos' := by
  cases pos with
  | none =>
    obtain ⟨failed, w', it', pos', hnf, hp', hadv, hsT⟩ :=
      advance_atEnd_gen cmp hc p t hwf fv tb hop P hload (.inl ⟨rfl, hs.table, hs.at_.1, hs.at_.2⟩) w hp
    exact ⟨failed, w', it', pos', hadv, hsT, hp', hnf⟩
  | some q =>
    obtain ⟨bi, li⟩ := q
    obtain ⟨d, cb, hd, hmem, hi, hcb, hsb, ho, hl, _⟩ := simT_unpack hs
    by_cases hnext : li + 1 < d.blk.es.length
    · obtain ⟨cb', hadv, hs'⟩ := simB_advance (hwf.dataWF d hmem).1 (hwf.dataWF d hmem).2 hsb
      have hA : Spec.advance (kvOf d.blk.contents d.blk.es) (some li) = (some (li + 1), true) := by
        simp only [Spec.advance, kvOf_length, if_pos hnext]
      rw [hA] at hadv hs'
      refine ⟨[], w, { it with currentBlock := some cb' }, some (bi, li + 1), ?_,
        ⟨hs.table, d, cb', hd, hi, rfl, hs', ho⟩, hp, d, hd, .inl ⟨hnext, rfl, rfl, rfl⟩⟩
      rw [advance_eq]
      exact advanceLoop_some_true it cb cb' hcb hadv _ w
    · have hle : li + 1 = d.blk.es.length := by omega
      obtain ⟨failed, w', it', pos', hnf, hp', hadv, hsT⟩ :=
        advance_atEnd_gen cmp hc p t hwf fv tb hop P hload (.inr ⟨bi, li, d, rfl, hs, hd, hle⟩) w hp
      exact ⟨failed, w', it', pos', hadv, hsT, hp', d, hd, .inr ⟨hle, hnf⟩⟩

/-- `next` = `advance`, then the current entry -/
theorem next_of_advance {it it' : TableIter} {w w' : World} {pos' : Option (Nat × Nat)}
    (hadv : it.advance w = (w', .ok (it', pos'.isSome))) (hs : SimT t tb it' pos') :
    it.next w = (w', .ok (it', Spec.entryAt t.entries (t.flatPos pos'))) := by
  unfold TableIter.next
  rw [TI.bind_ok hadv]
  cases pos' with
  | none => rfl
  | some q =>
    simp only [Option.isSome_some, Bool.not_true, Bool.false_eq_true, if_false]
    rw [TI.bind_ok (simT_current cmp hc p t hwf fv tb hop w' it' _ hs)]
    rfl

/-- nothing failed: the step is the step of the flat cursor over `t.entries` -/
theorem stepOutcome_exact {pos pos' : Option (Nat × Nat)} {w w' : World} {it : TableIter}
    (hs : SimT t tb it pos) (h : StepOutcome tb t pos w [] w' pos') :
    t.flatPos pos' = (Spec.advance t.entries (t.flatPos pos)).1 := by
  cases pos with
  | none =>
    have := nextFrom_exact hwf h
    rw [this]
    show _ = (Spec.advance t.entries none).1
    rw [flat_advance_none hwf]
    rfl
  | some q =>
    obtain ⟨bi, li⟩ := q
    obtain ⟨d, hd, hcase⟩ := h
    have hkb : t.kvBlocks[bi]? = some (kvOf d.blk.contents d.blk.es) := by
      rw [kvBlocks_getElem?, hd]; rfl
    show _ = (Spec.advance t.entries (some (flatIdx t.kvBlocks bi li))).1
    rcases hcase with ⟨hlt, rfl, _, _⟩ | ⟨hle, hnf⟩
    · rw [entries_eq, advance_inside t.kvBlocks bi li _ hkb (by rw [kvOf_length]; exact hlt)]
      rfl
    · have := nextFrom_exact hwf hnf
      rw [this, flat_advance_last hwf hd hle]
      rfl

end

/-! ### `seek` -/

/-- what `seek k` does when block reads may fail; `failed` = the blocks whose read failed during the call.
    * `k` above every index key: invalid (exact).
    * otherwise the block `d` the index routes `k` to is read: if that read fails the iterator is reset
      (invalid); if it succeeds and the block holds an entry not below `k`, that entry (exact); if it
      succeeds and `k` lies beyond its last key, the scan moves on as `next` does (`NextFrom`). -/
def SeekOutcome (cmp : Cmp) (tb : Table) (t : TableImg) (k : Bytes) (w : World) (failed : List DBlock)
    (w' : World) (pos' : Option (Nat × Nat)) : Prop :=
  match Spec.lowerBound cmp (t.seps.map (fun s => (s, ([] : Bytes)))) k with
  | none => failed = [] ∧ w' = w ∧ pos' = none
  | some bi => ∃ d, t.blocks[bi]? = some d ∧
      ((∃ c, tb.readBlock d.handle w = (w', .err c) ∧ failed = [d] ∧ pos' = none)
        ∨ (∃ w1, tb.readBlock d.handle w = (w1, .ok d.blk.contents) ∧
            match Spec.lowerBound cmp d.blk.kvs k with
            | some li => failed = [] ∧ w' = w1 ∧ pos' = some (bi, li)
            | none => NextFrom tb t w1 (bi + 1) failed w' pos'))

section
variable (cmp : Cmp) (hc : cmp.Lawful) (p : FilterPolicy) (t : TableImg) (hwf : t.WF cmp)
  (fv : Option Bytes) (tb : Table) (hop : Opened tb t cmp p fv)
include hc hwf hop

/-- G1: `seek` from any iterator of the table (only its index iterator matters) when block reads may fail -/
theorem seek_gen (P : World → Prop) (hload : LoadOK t tb P) (it : TableIter) (htab : it.table = tb)
    (ipos : Spec.Pos) (hi : SimB t.index.contents t.index.es t.index.rs it.indexBlock ipos)
    (w : World) (hp : P w) (target : Bytes) :
    ∃ failed w' it' pos', it.seek target w = (w', .ok it') ∧ SimT t tb it' pos' ∧ P w'
      ∧ SeekOutcome cmp tb t target w failed w' pos' := by
  obtain ⟨ib', hseek, hsi⟩ :=
    simB_seek cmp hc hwf.indexWF.1 hwf.indexWF.2 (index_sorted hc hwf) hi target
  have hcmp : it.table.opt.cmp = cmp := by rw [htab, hop.opt]
  have hcur := simB_current hwf.indexWF.1 hsi
  unfold SeekOutcome
  rw [← index_lowerBound hwf]
  cases hlb : Spec.lowerBound cmp (kvOf t.index.contents t.index.es) target with
  | none =>
    rw [hlb] at hsi hcur
    refine ⟨[], w, ({ it with indexBlock := ib' } : TableIter).reset, none, ?_, ?_, hp, rfl, rfl, rfl⟩
    · unfold TableIter.seek
      rw [hcmp, lift_bind hseek]
      dsimp only
      rw [bind_ok (curKV_run hcur w)]
      rfl
    · exact ⟨htab, rfl, simB_reset hwf.indexWF.1 hsi⟩
  | some bi =>
    rw [hlb] at hsi hcur
    have hbi : bi < t.blocks.length := by
      have := lowerBound_lt_length _ _ _ _ hlb
      rwa [index_kvs_length hwf] at this
    have hd : t.blocks[bi]? = some t.blocks[bi] := List.getElem?_eq_getElem hbi
    have hmem : t.blocks[bi] ∈ t.blocks := List.getElem_mem hbi
    generalize t.blocks[bi] = d at hd hmem
    have hkv : (kvOf t.index.contents t.index.es)[bi]? = some (d.sep, d.hval) := by
      rw [index_kvs_getElem? hwf, hd]; rfl
    have hent : Spec.entryAt (kvOf t.index.contents t.index.es) (some bi) = some (d.sep, d.hval) := hkv
    rw [hent] at hcur
    have htest : (cmp.cmp target d.sep != .gt) = true := by
      have h3 := ((lowerBound_eq_some_iff' _ _ _ _).mp hlb).2.2 _ hkv
      have : cmp.cmp target d.sep ≠ .gt := fun hg => h3 ((hc.gt_iff _ _).mp hg)
      simpa using this
    obtain ⟨hp1, hres⟩ := hload w hp d hmem
    rcases hrb : tb.readBlock d.handle w with ⟨w1, r⟩
    rw [hrb] at hp1 hres
    simp only at hp1 hres
    rcases hres with hres | ⟨c, hres⟩
    · -- the target block loads
      subst hres
      obtain ⟨cb, hload', hcb⟩ :=
        loadBlock_of_read_ok hwf { it with indexBlock := ib' } htab d hmem w w1 hrb
      obtain ⟨cb', hbseek, hcb'⟩ := simB_seek cmp hc (hwf.dataWF d hmem).1 (hwf.dataWF d hmem).2
        (block_sorted hwf hd) hcb target
      have hvalid := simB_valid (hwf.dataWF d hmem).1 hcb'
      have hstep : it.seek target w =
          (if (!cb'.valid) = true then
            (do let (it, _) ← TableIter.advance ⟨it.table, none, d.handle.offset, ib'⟩
                pure it : M TableIter)
           else pure ⟨it.table, some cb', d.handle.offset, ib'⟩) w1 := by
        unfold TableIter.seek
        rw [hcmp, lift_bind hseek]
        dsimp only
        rw [bind_ok (curKV_run hcur w)]
        dsimp only
        rw [hcmp, htest, if_pos rfl, bind_ok (try_ok hload')]
        dsimp only
        rw [hcmp, lift_bind hbseek]
      rw [hstep]
      cases hlb2 : Spec.lowerBound cmp (kvOf d.blk.contents d.blk.es) target with
      | some li =>
        rw [hlb2] at hcb' hvalid
        refine ⟨[], w1, ⟨it.table, some cb', d.handle.offset, ib'⟩, some (bi, li), ?_, ?_, hp1, d, hd,
          .inr ⟨w1, hrb, ?_⟩⟩
        · rw [hvalid]; rfl
        · exact ⟨htab, d, cb', hd, hsi, rfl, hcb', rfl⟩
        · show (match Spec.lowerBound cmp (kvOf d.blk.contents d.blk.es) target with
            | some li => _ | none => _)
          rw [hlb2]
          exact ⟨rfl, rfl, rfl⟩
      | none =>
        rw [hlb2] at hcb' hvalid
        have hg : Gap t tb ⟨it.table, none, d.handle.offset, ib'⟩ (posOf (bi + 1)) := ⟨htab, rfl, hsi⟩
        have hfuel : (t.blocks.drop (bi + 1)).length ≤ 2 * ib'.block.length + 2 := by
          have h1 : (t.blocks.drop (bi + 1)).length ≤ t.blocks.length := by rw [List.length_drop]; omega
          have h2 := index_es_length hwf
          have h3 := hwf.indexWF.1.length_le
          rw [hsi.block]
          omega
        obtain ⟨failed, w2, it2, pos2, hnf, hp2, htl, hsT⟩ :=
          tail_nextFrom hwf P hload (bi + 1) _ w1 _ hg hp1 hfuel
        refine ⟨failed, w2, it2, pos2, ?_, hsT, hp2, d, hd, .inr ⟨w1, hrb, ?_⟩⟩
        · rw [hvalid]
          show ((TableIter.advance ⟨it.table, none, d.handle.offset, ib'⟩) >>= _) w1 = _
          rw [bind_ok (a := (it2, _)) (by rw [advance_eq, advanceLoop_none _ rfl]; exact htl)]
          rfl
        · show (match Spec.lowerBound cmp (kvOf d.blk.contents d.blk.es) target with
            | some li => _ | none => _)
          rw [hlb2]
          exact hnf
    · -- the target block fails to load: the iterator is reset
      subst hres
      have hload' := loadBlock_of_read_err hwf { it with indexBlock := ib' } htab d hmem w w1 c hrb
      refine ⟨[d], w1, ({ it with indexBlock := ib' } : TableIter).reset, none, ?_, ?_, hp1, d, hd,
        .inl ⟨c, hrb, rfl, rfl⟩⟩
      · unfold TableIter.seek
        rw [hcmp, lift_bind hseek]
        dsimp only
        rw [bind_ok (curKV_run hcur w)]
        dsimp only
        rw [hcmp, htest, if_pos rfl, bind_ok (try_err hload')]
        rfl
      · exact ⟨htab, rfl, simB_reset hwf.indexWF.1 hsi⟩

end

section
variable (cmp : Cmp) (hc : cmp.Lawful) (p : FilterPolicy) (t : TableImg) (hwf : t.WF cmp)
  (fv : Option Bytes) (tb : Table) (hop : Opened tb t cmp p fv)
include hc hwf hop

/-- no read failed during the `seek`: the position is exactly the lower bound of the target in the table -/
theorem seekOutcome_exact {k : Bytes} {w w' : World} {pos' : Option (Nat × Nat)}
    (h : SeekOutcome cmp tb t k w [] w' pos') :
    t.flatPos pos' = Spec.lowerBound cmp t.entries k := by
  have hL := lowerBound_two_level cmp hc t.kvBlocks t.seps (ordered hwf) k
  rw [← entries_eq] at hL
  unfold SeekOutcome at h
  cases hS : Spec.lowerBound cmp (t.seps.map (fun s => (s, ([] : Bytes)))) k with
  | none =>
    rw [hS] at h hL
    obtain ⟨_, _, rfl⟩ := h
    exact hL.symm
  | some bi =>
    rw [hS] at h hL
    obtain ⟨d, hd, hcase⟩ := h
    have hgetD : t.kvBlocks.getD bi [] = d.blk.kvs := by
      rw [List.getD_eq_getElem?_getD, kvBlocks_getElem?, hd]; rfl
    dsimp only at hL
    rw [hgetD] at hL
    rcases hcase with ⟨c, _, hf, _⟩ | ⟨w1, _, hm⟩
    · cases hf
    · cases hlb2 : Spec.lowerBound cmp d.blk.kvs k with
      | some li =>
        rw [hlb2] at hm hL
        obtain ⟨_, _, rfl⟩ := hm
        exact hL.symm
      | none =>
        rw [hlb2] at hm hL
        have := nextFrom_exact hwf hm
        rw [this, advance_posOf, index_kvs_length hwf, hL, kvBlocks_length]
        split <;> rfl

/-- whatever failed: `seek k` never lands on an entry below `k` -/
theorem seekOutcome_not_below {k : Bytes} {w w' : World} {failed : List DBlock}
    {pos' : Option (Nat × Nat)} (h : SeekOutcome cmp tb t k w failed w' pos')
    (e : Spec.Entry) (he : Spec.entryAt t.entries (t.flatPos pos') = some e) :
    cmp.cmp e.1 k ≠ .lt := by
  unfold SeekOutcome at h
  cases hS : Spec.lowerBound cmp (t.seps.map (fun s => (s, ([] : Bytes)))) k with
  | none =>
    rw [hS] at h
    obtain ⟨_, _, rfl⟩ := h
    cases he
  | some bi =>
    rw [hS] at h
    obtain ⟨d, hd, hcase⟩ := h
    have hmem : d ∈ t.blocks := List.mem_of_getElem? hd
    rcases hcase with ⟨c, _, _, rfl⟩ | ⟨w1, _, hm⟩
    · cases he
    · cases hlb2 : Spec.lowerBound cmp d.blk.kvs k with
      | some li =>
        rw [hlb2] at hm
        obtain ⟨_, _, rfl⟩ := hm
        obtain ⟨hli, _, h3⟩ := (lowerBound_eq_some_iff' _ _ _ _).mp hlb2
        have hl : li < d.blk.es.length := by rw [← kvs_length]; exact hli
        rw [entryAt_flat hd hl] at he
        exact h3 e he
      | none =>
        rw [hlb2] at hm
        cases pos' with
        | none => cases he
        | some q =>
          obtain ⟨bj, lj⟩ := q
          obtain ⟨hbj, rfl, dj, hdj⟩ := nextFrom_block hm
          have hmemj : dj ∈ t.blocks := List.mem_of_getElem? hdj
          have hl : 0 < dj.blk.es.length :=
            List.length_pos_iff.mpr (hwf.dataNonempty dj hmemj)
          rw [entryAt_flat hdj hl] at he
          have hek : e.1 ∈ dj.keys := mem_kvs_key (List.mem_of_getElem? he)
          have hlt := hwf.sepLt bi bj d dj (by omega) hd hdj e.1 hek
          obtain ⟨_, _, hge⟩ := sep_lowerBound_some cmp t.seps k bi hS
          have hsep : t.seps[bi]? = some d.sep := by rw [seps_getElem?, hd]; rfl
          intro hcontra
          exact hge _ hsep (hc.trans _ _ _ hlt hcontra)

/-- G4: for a STORED key the `seek` is invalid (its block failed to load) or stands exactly on its entry -/
theorem seekOutcome_stored {k : Bytes} {w w' : World} {failed : List DBlock}
    {pos' : Option (Nat × Nat)} (h : SeekOutcome cmp tb t k w failed w' pos')
    (d : DBlock) (hd : d ∈ t.blocks) (hk : k ∈ d.keys) :
    (pos' = none ∧ failed = [d])
      ∨ (failed = [] ∧ ∃ v, (k, v) ∈ d.blk.kvs ∧ Spec.entryAt t.entries (t.flatPos pos') = some (k, v)) := by
  obtain ⟨bi, hS, hbd⟩ := routed_of_key cmp hc t hwf d hd k hk
  unfold SeekOutcome at h
  rw [hS] at h
  obtain ⟨d', hd', hcase⟩ := h
  rw [hbd] at hd'
  cases hd'
  rcases hcase with ⟨c, _, hf, hp⟩ | ⟨w1, _, hm⟩
  · exact .inl ⟨hp, hf⟩
  · right
    obtain ⟨e, hem, hek⟩ : ∃ e ∈ d.blk.kvs, e.1 = k := by
      have : k ∈ d.blk.kvs.map (·.1) := by rw [kvs_keys]; exact hk
      obtain ⟨e, he, hek⟩ := List.mem_map.mp this
      exact ⟨e, he, hek⟩
    obtain ⟨ek, v⟩ := e
    simp only at hek
    subst hek
    have hsorted : KeysSorted cmp (d.blk.kvs.map (·.1)) := by
      rw [kvs_keys]; exact block_sorted hwf hbd
    have hent := entryAt_lowerBound_of_mem cmp hc d.blk.kvs hsorted ek v hem
    cases hlb2 : Spec.lowerBound cmp d.blk.kvs ek with
    | none => rw [hlb2] at hent; cases hent
    | some li =>
      rw [hlb2] at hm hent
      obtain ⟨hf, _, rfl⟩ := hm
      have hl : li < d.blk.es.length := by
        rw [← kvs_length]; exact (List.getElem?_eq_some_iff.mp hent).1
      exact ⟨hf, v, hem, by rw [entryAt_flat hbd hl]; exact hent⟩

end

/-! ### `prev` -/

/-- what `prev` does from the valid position `(bi, li)` when block reads may fail: inside the block the
    previous entry (no read); from the first entry of the first block: invalid; from the first entry of
    block `bj + 1`: block `bj` is read — its last entry, or, if the read fails, the iterator is reset
    (invalid) -/
def PrevOutcome (tb : Table) (t : TableImg) (bi li : Nat) (w : World) (failed : List DBlock) (w' : World)
    (pos' : Option (Nat × Nat)) : Prop :=
  (0 < li ∧ pos' = some (bi, li - 1) ∧ w' = w ∧ failed = [])
  ∨ (li = 0 ∧ bi = 0 ∧ pos' = none ∧ w' = w ∧ failed = [])
  ∨ (li = 0 ∧ ∃ bj d', bi = bj + 1 ∧ t.blocks[bj]? = some d' ∧
      ((tb.readBlock d'.handle w = (w', .ok d'.blk.contents)
          ∧ pos' = some (bj, d'.blk.es.length - 1) ∧ failed = [])
        ∨ (∃ c, tb.readBlock d'.handle w = (w', .err c) ∧ pos' = none ∧ failed = [d'])))

section
variable (cmp : Cmp) (hc : cmp.Lawful) (p : FilterPolicy) (t : TableImg) (hwf : t.WF cmp)
  (fv : Option Bytes) (tb : Table) (hop : Opened tb t cmp p fv)
include hc hwf hop

/-- the block under the index iterator is loaded and entered at its last entry, or the load fails and the
    iterator is reset -/
theorem prevLoad_gen (P : World → Prop) (hload : LoadOK t tb P) (w : World) (hp : P w)
    (it : TableIter) (ht : it.table = tb) (bj : Nat)
    (hs : SimB t.index.contents t.index.es t.index.rs it.indexBlock (some bj)) :
    ∃ d w' it' pos', t.blocks[bj]? = some d ∧ prevLoad it w = (w', .ok (it', pos'.isSome))
      ∧ SimT t tb it' pos' ∧ P w'
      ∧ ((tb.readBlock d.handle w = (w', .ok d.blk.contents) ∧ pos' = some (bj, d.blk.es.length - 1))
        ∨ (∃ c, tb.readBlock d.handle w = (w', .err c) ∧ pos' = none)) := by
  obtain ⟨e, he, _⟩ := hs.at_
  have hbj : bj < t.blocks.length := by
    rw [← index_es_length hwf]; exact (List.getElem?_eq_some_iff.mp he).1
  have hd : t.blocks[bj]? = some t.blocks[bj] := List.getElem?_eq_getElem hbj
  have hmem : t.blocks[bj] ∈ t.blocks := List.getElem_mem hbj
  generalize t.blocks[bj] = d at hd hmem
  have hcur := simB_current hwf.indexWF.1 hs
  have hent : Spec.entryAt (kvOf t.index.contents t.index.es) (some bj) = some (d.sep, d.hval) := by
    show (kvOf t.index.contents t.index.es)[bj]? = _
    rw [index_kvs_getElem? hwf, hd]; rfl
  rw [hent] at hcur
  obtain ⟨hp1, hres⟩ := hload w hp d hmem
  rcases hrb : tb.readBlock d.handle w with ⟨w1, r⟩
  rw [hrb] at hp1 hres
  simp only at hp1 hres
  rcases hres with hres | ⟨c, hres⟩
  · subst hres
    obtain ⟨cb, hload', hcb⟩ := loadBlock_of_read_ok hwf it ht d hmem w w1 hrb
    obtain ⟨cb', hlast, hcb'⟩ := simB_seekToLast (hwf.dataWF d hmem).1 (hwf.dataWF d hmem).2 hcb
    rw [if_neg (hwf.dataNonempty d hmem)] at hcb'
    have hvalid : cb'.valid = true := by rw [simB_valid (hwf.dataWF d hmem).1 hcb']; rfl
    refine ⟨d, w1, ⟨it.table, some cb', d.handle.offset, it.indexBlock⟩, some (bj, d.blk.es.length - 1),
      hd, ?_, ⟨ht, d, cb', hd, hs, rfl, hcb', rfl⟩, hp1, .inl ⟨hrb, rfl⟩⟩
    unfold prevLoad
    rw [bind_ok (curKV_run hcur w)]
    dsimp only
    rw [bind_ok (try_ok hload')]
    dsimp only
    rw [lift_bind hlast, hvalid]
    rfl
  · subst hres
    have hload' := loadBlock_of_read_err hwf it ht d hmem w w1 c hrb
    refine ⟨d, w1, it.reset, none, hd, ?_, ⟨ht, rfl, simB_reset hwf.indexWF.1 hs⟩, hp1, .inr ⟨c, hrb, rfl⟩⟩
    unfold prevLoad
    rw [bind_ok (curKV_run hcur w)]
    dsimp only
    rw [bind_ok (try_err hload')]
    rfl

/-- G3: `prev` from a valid position when block reads may fail -/
theorem prev_gen (P : World → Prop) (hload : LoadOK t tb P) (it : TableIter) (bi li : Nat)
    (h : SimT t tb it (some (bi, li))) (w : World) (hp : P w) :
    ∃ failed w' it' pos', it.prev w = (w', .ok (it', pos'.isSome)) ∧ SimT t tb it' pos' ∧ P w'
      ∧ PrevOutcome tb t bi li w failed w' pos' := by
  obtain ⟨d, cb, hd, hmem, hi, hcb, hs, ho, hl, hkb⟩ := simT_unpack h
  obtain ⟨cb', hprev, hs'⟩ := simB_prev_valid (hwf.dataWF d hmem).1 (hwf.dataWF d hmem).2 hs
  by_cases hli : 0 < li
  · have hP : Spec.prevValid li = (some (li - 1), true) := by
      simp only [Spec.prevValid]; rw [if_neg (by omega)]
    rw [hP] at hprev hs'
    exact ⟨[], w, { it with currentBlock := some cb' }, some (bi, li - 1),
      prev_some_true it cb cb' hcb hprev w, ⟨h.table, d, cb', hd, hi, rfl, hs', ho⟩, hp,
      .inl ⟨hli, rfl, rfl, rfl⟩⟩
  · have hli0 : li = 0 := by omega
    subst hli0
    have hP : Spec.prevValid 0 = (none, false) := rfl
    rw [hP] at hprev hs'
    rw [prev_some_false it cb cb' hcb hprev w]
    obtain ⟨ib', hiprev, hsi'⟩ := simB_prev_valid hwf.indexWF.1 hwf.indexWF.2 hi
    cases bi with
    | zero =>
      have hP0 : Spec.prevValid 0 = (none, false) := rfl
      rw [hP0] at hiprev hsi'
      exact ⟨[], w, _, none,
        prevTail_false ⟨it.table, some cb', it.currentBlockOff, it.indexBlock⟩ ib' hiprev w,
        ⟨h.table, rfl, simB_reset hwf.indexWF.1 hsi'⟩, hp, .inr (.inl ⟨rfl, rfl, rfl, rfl, rfl⟩)⟩
    | succ bj =>
      have hPs : Spec.prevValid (bj + 1) = (some bj, true) := by
        simp [Spec.prevValid]
      rw [hPs] at hiprev hsi'
      rw [prevTail_true ⟨it.table, some cb', it.currentBlockOff, it.indexBlock⟩ ib' hiprev w]
      obtain ⟨d', w', it', pos', hd', hrun, hsT, hp', hcase⟩ :=
        prevLoad_gen cmp hc p t hwf fv tb hop P hload w hp
          ⟨it.table, some cb', it.currentBlockOff, ib'⟩ h.table bj hsi'
      rcases hcase with ⟨hrb, rfl⟩ | ⟨c, hrb, rfl⟩
      · exact ⟨[], w', it', _, hrun, hsT, hp',
          .inr (.inr ⟨rfl, bj, d', rfl, hd', .inl ⟨hrb, rfl, rfl⟩⟩)⟩
      · exact ⟨[d'], w', it', _, hrun, hsT, hp',
          .inr (.inr ⟨rfl, bj, d', rfl, hd', .inr ⟨c, hrb, rfl, rfl⟩⟩)⟩

/-- `prev` from the invalid position when block reads may fail: some stored position, or invalid
    (unspecified but harmless, as without faults) -/
theorem prev_invalid_gen (P : World → Prop) (hload : LoadOK t tb P) (it : TableIter)
    (h : SimT t tb it none) (w : World) (hp : P w) :
    ∃ w' it' pos', it.prev w = (w', .ok (it', pos'.isSome)) ∧ SimT t tb it' pos' ∧ P w' := by
  obtain ⟨ib', ipos', hiprev, hsi'⟩ := simB_prev_invalid hwf.indexWF.1 hwf.indexWF.2 h.at_.2
  rw [prev_none it h.at_.1 w]
  cases ipos' with
  | none =>
    exact ⟨w, _, none, prevTail_false _ ib' hiprev w, ⟨h.table, rfl, simB_reset hwf.indexWF.1 hsi'⟩, hp⟩
  | some bj =>
    rw [prevTail_true _ ib' hiprev w]
    obtain ⟨d', w', it', pos', _, hrun, hsT, hp', _⟩ :=
      prevLoad_gen cmp hc p t hwf fv tb hop P hload w hp
        ⟨it.table, it.currentBlock, it.currentBlockOff, ib'⟩ h.table bj hsi'
    exact ⟨w', it', pos', hrun, hsT, hp'⟩

/-- `prev` never lands on a wrong entry: the predecessor in `t.entries`, or invalid -/
theorem prevOutcome_pred_or_invalid {bi li : Nat} {w w' : World} {failed : List DBlock}
    {pos' : Option (Nat × Nat)} (h : PrevOutcome tb t bi li w failed w' pos') :
    (failed = [] ∧ t.flatPos pos' = (Spec.prevValid (flatIdx t.kvBlocks bi li)).1)
      ∨ (pos' = none ∧ ∃ d', failed = [d']) := by
  rcases h with ⟨hli, rfl, _, hf⟩ | ⟨rfl, rfl, rfl, _, hf⟩ | ⟨rfl, bj, d', rfl, hd', hcase⟩
  · left
    rw [prev_inside t.kvBlocks bi li hli]
    exact ⟨hf, rfl⟩
  · left
    rw [prev_first]
    exact ⟨hf, rfl⟩
  · rcases hcase with ⟨_, rfl, hf⟩ | ⟨c, _, rfl, hf⟩
    · left
      have hkb' : t.kvBlocks[bj]? = some (kvOf d'.blk.contents d'.blk.es) := by
        rw [kvBlocks_getElem?, hd']; rfl
      rw [prev_cross t.kvBlocks (ordered hwf).nonempty bj _ hkb', kvOf_length]
      exact ⟨hf, rfl⟩
    · exact .inr ⟨rfl, d', hf⟩

end

/-- the world invariant is kept along a sequence of block reads -/
theorem scanFrom_inv {tb : Table} (P : World → Prop) (S : List DBlock)
    (hstep : ∀ w, P w → ∀ d ∈ S, P (tb.readBlock d.handle w).1)
    {w w' : World} {ds bs : List DBlock} (h : ScanFrom tb w ds bs w') (hS : ∀ d ∈ ds, d ∈ S) (hp : P w) :
    P w' := by
  induction h with
  | nil => exact hp
  | @keep w w1 w' d ds bs hr hs ih =>
    have := hstep w hp d (hS d List.mem_cons_self)
    rw [hr] at this
    exact ih (fun x hx => hS x (List.mem_cons_of_mem _ hx)) this
  | @skip w w1 w' d ds bs c hr hs ih =>
    have := hstep w hp d (hS d List.mem_cons_self)
    rw [hr] at this
    exact ih (fun x hx => hS x (List.mem_cons_of_mem _ hx)) this

/-! ### the entries passed over are those of the failed blocks -/

/-- when `NextFrom` lands on block `bj`, the entries of the table between flat position `(i, 0)` and the
    landing position are exactly the entries of the failed blocks -/
theorem nextFrom_skipped {tb : Table} {t : TableImg} {w w' : World} {i : Nat} {failed : List DBlock}
    {bj lj : Nat} (h : NextFrom tb t w i failed w' (some (bj, lj))) :
    flatIdx t.kvBlocks bj lj = flatIdx t.kvBlocks i 0 + (failed.flatMap (·.blk.kvs)).length
      ∧ (t.entries.drop (flatIdx t.kvBlocks i 0)).take ((failed.flatMap (·.blk.kvs)).length)
          = failed.flatMap (·.blk.kvs) := by
  rcases h with ⟨_, _, h⟩ | ⟨d, ds', w0, hd, _, _, h⟩
  · cases h
  · cases h
    have e2 : t.kvBlocks.drop i = failed.map (·.blk.kvs) ++ (d.blk.kvs :: ds'.map (·.blk.kvs)) := by
      unfold TableImg.kvBlocks
      rw [← List.map_drop, hd, List.map_append, List.map_cons]
    have e3 : t.kvBlocks.take (i + failed.length) = t.kvBlocks.take i ++ failed.map (·.blk.kvs) := by
      rw [List.take_add, e2]
      congr 1
      exact List.take_left' (by simp)
    have e1 : t.entries = (t.kvBlocks.take i).flatten ++ (t.kvBlocks.drop i).flatten := by
      rw [entries_eq, ← List.flatten_append, List.take_append_drop]
    have hfl : (failed.map (·.blk.kvs)).flatten = failed.flatMap (·.blk.kvs) := by
      rw [List.flatMap_def]
    constructor
    · rw [flatIdx_eq_length_take, flatIdx_eq_length_take, e3, List.flatten_append, List.length_append, hfl]
      omega
    · rw [flatIdx_eq_length_take, Nat.add_zero, e1, List.drop_left, e2, List.flatten_append, hfl]
      exact List.take_left' rfl

section
variable (cmp : Cmp) (hc : cmp.Lawful) (p : FilterPolicy) (t : TableImg) (hwf : t.WF cmp)
  (fv : Option Bytes) (tb : Table) (hop : Opened tb t cmp p fv)
include hc hwf hop

/-- `seek k` landed on flat position `j`: the lower bound `j0` of `k` exists, and the entries from `j0` up to
    (excluding) `j` are exactly the entries of the blocks whose read failed during the call -/
theorem seekOutcome_skipped {k : Bytes} {w w' : World} {failed : List DBlock}
    {pos' : Option (Nat × Nat)} (h : SeekOutcome cmp tb t k w failed w' pos')
    (j : Nat) (hj : t.flatPos pos' = some j) :
    ∃ j0, Spec.lowerBound cmp t.entries k = some j0 ∧ j = j0 + (failed.flatMap (·.blk.kvs)).length
      ∧ (t.entries.drop j0).take ((failed.flatMap (·.blk.kvs)).length) = failed.flatMap (·.blk.kvs) := by
  have hL := lowerBound_two_level cmp hc t.kvBlocks t.seps (ordered hwf) k
  rw [← entries_eq] at hL
  unfold SeekOutcome at h
  cases hS : Spec.lowerBound cmp (t.seps.map (fun s => (s, ([] : Bytes)))) k with
  | none =>
    rw [hS] at h
    obtain ⟨_, _, rfl⟩ := h
    cases hj
  | some bi =>
    rw [hS] at h hL
    obtain ⟨d, hd, hcase⟩ := h
    have hgetD : t.kvBlocks.getD bi [] = d.blk.kvs := by
      rw [List.getD_eq_getElem?_getD, kvBlocks_getElem?, hd]; rfl
    dsimp only at hL
    rw [hgetD] at hL
    rcases hcase with ⟨c, _, _, rfl⟩ | ⟨w1, _, hm⟩
    · cases hj
    · cases hlb2 : Spec.lowerBound cmp d.blk.kvs k with
      | some li =>
        rw [hlb2] at hm hL
        obtain ⟨rfl, _, rfl⟩ := hm
        refine ⟨j, hL.trans hj, by simp, by simp⟩
      | none =>
        rw [hlb2] at hm hL
        cases pos' with
        | none => cases hj
        | some q =>
          obtain ⟨bj, lj⟩ := q
          obtain ⟨hbj, _, dj, hdj⟩ := nextFrom_block hm
          have hlt : bi + 1 < t.kvBlocks.length := by
            rw [kvBlocks_length]
            have := (List.getElem?_eq_some_iff.mp hdj).1
            omega
          rw [if_pos hlt] at hL
          obtain ⟨e1, e2⟩ := nextFrom_skipped hm
          have hj' : flatIdx t.kvBlocks bj lj = j := Option.some.inj hj
          exact ⟨_, hL, by rw [← hj', e1], e2⟩

/-- `advance` / `next` landed on flat position `j`: the successor `j0` of the old position exists, and the
    entries from `j0` up to (excluding) `j` are exactly the entries of the blocks whose read failed -/
theorem stepOutcome_skipped {pos pos' : Option (Nat × Nat)} {w w' : World} {failed : List DBlock}
    {it : TableIter} (hs : SimT t tb it pos) (h : StepOutcome tb t pos w failed w' pos')
    (j : Nat) (hj : t.flatPos pos' = some j) :
    ∃ j0, (Spec.advance t.entries (t.flatPos pos)).1 = some j0
      ∧ j = j0 + (failed.flatMap (·.blk.kvs)).length
      ∧ (t.entries.drop j0).take ((failed.flatMap (·.blk.kvs)).length) = failed.flatMap (·.blk.kvs) := by
  have key : ∀ i, NextFrom tb t w i failed w' pos' →
      ∃ j0, t.flatPos ((Spec.advance (kvOf t.index.contents t.index.es) (posOf i)).1.map (fun bi => (bi, 0)))
          = some j0
        ∧ j = j0 + (failed.flatMap (·.blk.kvs)).length
        ∧ (t.entries.drop j0).take ((failed.flatMap (·.blk.kvs)).length) = failed.flatMap (·.blk.kvs) := by
    intro i hnf
    cases pos' with
    | none => cases hj
    | some q =>
      obtain ⟨bj, lj⟩ := q
      obtain ⟨hbj, _, dj, hdj⟩ := nextFrom_block hnf
      have hlt : i < t.blocks.length := by
        have := (List.getElem?_eq_some_iff.mp hdj).1
        omega
      obtain ⟨e1, e2⟩ := nextFrom_skipped hnf
      have hj' : flatIdx t.kvBlocks bj lj = j := Option.some.inj hj
      rw [advance_posOf, index_kvs_length hwf, if_pos hlt]
      exact ⟨_, rfl, by rw [← hj', e1], e2⟩
  cases pos with
  | none =>
    obtain ⟨j0, a, b, c⟩ := key 0 h
    refine ⟨j0, ?_, b, c⟩
    show (Spec.advance t.entries none).1 = _
    rw [flat_advance_none hwf]
    exact a
  | some q =>
    obtain ⟨bi, li⟩ := q
    obtain ⟨d, hd, hcase⟩ := h
    have hkb : t.kvBlocks[bi]? = some (kvOf d.blk.contents d.blk.es) := by
      rw [kvBlocks_getElem?, hd]; rfl
    show ∃ j0, (Spec.advance t.entries (some (flatIdx t.kvBlocks bi li))).1 = some j0 ∧ _
    rcases hcase with ⟨hlt, rfl, _, rfl⟩ | ⟨hle, hnf⟩
    · rw [entries_eq, advance_inside t.kvBlocks bi li _ hkb (by rw [kvOf_length]; exact hlt)]
      exact ⟨j, hj, by simp, by simp⟩
    · obtain ⟨j0, a, b, c⟩ := key (bi + 1) hnf
      refine ⟨j0, ?_, b, c⟩
      rw [flat_advance_last hwf hd hle]
      exact a

end

section
variable (cmp : Cmp) (hc : cmp.Lawful) (p : FilterPolicy) (t : TableImg) (hwf : t.WF cmp)
  (fv : Option Bytes) (tb : Table) (hop : Opened tb t cmp p fv)
include hc hwf hop

/-! ### every call keeps the simulation -/

/-- when block reads may fail (but return the true contents or an error), EVERY iterator call on an
    iterator that simulates a position succeeds and leaves an iterator that simulates a position: the
    iterator never shows anything but stored entries -/
theorem call_gen (P : World → Prop) (hload : LoadOK t tb P) (it : TableIter) (pos : Option (Nat × Nat))
    (hs : SimT t tb it pos) (op : Spec.IterOp) (w : World) (hp : P w) :
    ∃ w' it' out pos', it.call op w = (w', .ok (it', out)) ∧ SimT t tb it' pos' ∧ P w' := by
  cases op with
  | advance =>
    obtain ⟨_, w', it', pos', hadv, hsT, hp', _⟩ := advance_gen cmp hc p t hwf fv tb hop P hload it pos hs w hp
    refine ⟨w', it', .flag pos'.isSome, pos', ?_, hsT, hp'⟩
    show (it.advance >>= fun r => pure (r.1, Spec.IterOut.flag r.2)) w = _
    rw [bind_ok hadv]; rfl
  | next =>
    obtain ⟨_, w', it', pos', hadv, hsT, hp', _⟩ := advance_gen cmp hc p t hwf fv tb hop P hload it pos hs w hp
    exact ⟨w', it', _, pos', call_next (next_of_advance cmp hc p t hwf fv tb hop hadv hsT), hsT, hp'⟩
  | prev =>
    cases pos with
    | none =>
      obtain ⟨w', it', pos', hrun, hsT, hp'⟩ := prev_invalid_gen cmp hc p t hwf fv tb hop P hload it hs w hp
      refine ⟨w', it', .flag pos'.isSome, pos', ?_, hsT, hp'⟩
      show (it.prev >>= fun r => pure (r.1, Spec.IterOut.flag r.2)) w = _
      rw [bind_ok hrun]; rfl
    | some q =>
      obtain ⟨bi, li⟩ := q
      obtain ⟨_, w', it', pos', hrun, hsT, hp', _⟩ := prev_gen cmp hc p t hwf fv tb hop P hload it bi li hs w hp
      refine ⟨w', it', .flag pos'.isSome, pos', ?_, hsT, hp'⟩
      show (it.prev >>= fun r => pure (r.1, Spec.IterOut.flag r.2)) w = _
      rw [bind_ok hrun]; rfl
  | reset =>
    exact ⟨w, it.reset, .unit, none, rfl, simT_reset cmp hc p t hwf fv tb hop it pos hs, hp⟩
  | seekToFirst =>
    obtain ⟨_, w', it', pos', hadv, hsT, hp', _⟩ := advance_gen cmp hc p t hwf fv tb hop P hload it.reset none
      (simT_reset cmp hc p t hwf fv tb hop it pos hs) w hp
    refine ⟨w', it', .unit, pos', ?_, hsT, hp'⟩
    show (it.seekToFirst >>= fun it' => pure (it', Spec.IterOut.unit)) w = _
    have : it.seekToFirst w = (w', .ok it') := by
      unfold TableIter.seekToFirst
      rw [bind_ok hadv]; rfl
    rw [bind_ok this]; rfl
  | seek k =>
    obtain ⟨ipos, hi⟩ := simT_index hs
    obtain ⟨_, w', it', pos', hrun, hsT, hp', _⟩ :=
      seek_gen cmp hc p t hwf fv tb hop P hload it hs.table ipos hi w hp k
    refine ⟨w', it', .unit, pos', ?_, hsT, hp'⟩
    show (it.seek k >>= fun it' => pure (it', Spec.IterOut.unit)) w = _
    rw [bind_ok hrun]; rfl
  | valid => exact ⟨w, it, _, pos, rfl, hs, hp⟩
  | current =>
    refine ⟨w, it, .entry (Spec.entryAt t.entries (t.flatPos pos)), pos, ?_, hs, hp⟩
    show (it.current >>= fun e => pure (it, Spec.IterOut.entry e)) w = _
    rw [bind_ok (simT_current cmp hc p t hwf fv tb hop w it pos hs)]; rfl
  | currentKey => exact ⟨w, it, _, pos, rfl, hs, hp⟩

/-! ### the fault-injected source -/

theorem loadOK_inv (hns : NoShortCollision t) : LoadOK t tb (Inv tb t) := by
  intro w hi d hd
  obtain ⟨a, b, _⟩ := readBlock_faulty_step cmp hc p t hwf fv tb hop hns w hi d hd
  exact ⟨a, b⟩

theorem count_step (hns : NoShortCollision t) :
    ∀ w, Inv tb t w → ∀ d ∈ t.blocks, Inv tb t (tb.readBlock d.handle w).1
      ∧ faultCount (tb.readBlock d.handle w).1 ≤ faultCount w
      ∧ (∀ c, (tb.readBlock d.handle w).2 = .err c → faultCount (tb.readBlock d.handle w).1 + 1 ≤ faultCount w) := by
  intro w hi d hd
  obtain ⟨a, _, c, e⟩ := readBlock_faulty_step cmp hc p t hwf fv tb hop hns w hi d hd
  exact ⟨a, c, e⟩

/-- every block `NextFrom` passes over consumed a fault of the schedule -/
theorem nextFrom_count (hns : NoShortCollision t) {w w' : World} {i : Nat} {failed : List DBlock}
    {pos' : Option (Nat × Nat)} (h : NextFrom tb t w i failed w' pos') (hi : Inv tb t w) :
    failed.length + faultCount w' ≤ faultCount w := by
  have hstep := count_step cmp hc p t hwf fv tb hop hns
  rcases h with ⟨hd, hscan, _⟩ | ⟨d, ds', w0, hd, hscan, hrb, _⟩
  · have := ScanFrom.count (Inv tb t) faultCount t.blocks hstep hscan
      (fun x hx => List.mem_of_mem_drop (hd ▸ hx)) hi
    simpa using this
  · have hS : ∀ x ∈ failed, x ∈ t.blocks := fun x hx =>
      List.mem_of_mem_drop (hd ▸ List.mem_append_left _ hx)
    have h1 := ScanFrom.count (Inv tb t) faultCount t.blocks hstep hscan hS hi
    have hinv0 : Inv tb t w0 :=
      scanFrom_inv (Inv tb t) t.blocks (fun w hw d hd => (hstep w hw d hd).1) hscan hS hi
    have hdm : d ∈ t.blocks := List.mem_of_mem_drop (hd ▸ List.mem_append_right _ List.mem_cons_self)
    have h2 := (hstep w0 hinv0 d hdm).2.1
    rw [hrb] at h2
    simp only [List.length_nil, Nat.sub_zero] at h1
    simp only at h2
    omega

theorem stepOutcome_count (hns : NoShortCollision t) {pos pos' : Option (Nat × Nat)} {w w' : World}
    {failed : List DBlock} (h : StepOutcome tb t pos w failed w' pos') (hi : Inv tb t w) :
    failed.length + faultCount w' ≤ faultCount w := by
  cases pos with
  | none => exact nextFrom_count cmp hc p t hwf fv tb hop hns h hi
  | some q =>
    obtain ⟨bi, li⟩ := q
    obtain ⟨d, _, hcase⟩ := h
    rcases hcase with ⟨_, _, rfl, rfl⟩ | ⟨_, hnf⟩
    · simp
    · exact nextFrom_count cmp hc p t hwf fv tb hop hns hnf hi

theorem seekOutcome_count (hns : NoShortCollision t) {k : Bytes} {w w' : World} {failed : List DBlock}
    {pos' : Option (Nat × Nat)} (h : SeekOutcome cmp tb t k w failed w' pos') (hi : Inv tb t w) :
    failed.length + faultCount w' ≤ faultCount w := by
  have hstep := count_step cmp hc p t hwf fv tb hop hns
  unfold SeekOutcome at h
  cases hS : Spec.lowerBound cmp (t.seps.map (fun s => (s, ([] : Bytes)))) k with
  | none =>
    rw [hS] at h
    obtain ⟨rfl, rfl, _⟩ := h
    simp
  | some bi =>
    rw [hS] at h
    obtain ⟨d, hd, hcase⟩ := h
    have hmem : d ∈ t.blocks := List.mem_of_getElem? hd
    obtain ⟨a1, a2, a3⟩ := hstep w hi d hmem
    rcases hcase with ⟨c, hrb, rfl, _⟩ | ⟨w1, hrb, hm⟩
    · have := a3 c (by rw [hrb])
      rw [hrb] at this
      simp only [List.length_singleton] at this ⊢
      omega
    · rw [hrb] at a1 a2
      simp only at a1 a2
      cases hlb2 : Spec.lowerBound cmp d.blk.kvs k with
      | some li =>
        rw [hlb2] at hm
        obtain ⟨rfl, rfl, _⟩ := hm
        simpa using a2
      | none =>
        rw [hlb2] at hm
        have := nextFrom_count cmp hc p t hwf fv tb hop hns hm a1
        omega

theorem prevOutcome_count (hns : NoShortCollision t) {bi li : Nat} {w w' : World} {failed : List DBlock}
    {pos' : Option (Nat × Nat)} (h : PrevOutcome tb t bi li w failed w' pos') (hi : Inv tb t w) :
    failed.length + faultCount w' ≤ faultCount w := by
  have hstep := count_step cmp hc p t hwf fv tb hop hns
  rcases h with ⟨_, _, rfl, rfl⟩ | ⟨_, _, _, rfl, rfl⟩ | ⟨_, bj, d', _, hd', hcase⟩
  · simp
  · simp
  · have hmem : d' ∈ t.blocks := List.mem_of_getElem? hd'
    obtain ⟨_, a2, a3⟩ := hstep w hi d' hmem
    rcases hcase with ⟨hrb, _, rfl⟩ | ⟨c, hrb, _, rfl⟩
    · rw [hrb] at a2
      simpa using a2
    · have := a3 c (by rw [hrb])
      rw [hrb] at this
      simp only [List.length_singleton] at this ⊢
      omega

end

end FT
end Sst

#print axioms Sst.FT.advance_gen
#print axioms Sst.FT.seek_gen
#print axioms Sst.FT.prev_gen
#print axioms Sst.FT.call_gen
#print axioms Sst.FT.seekOutcome_exact
#print axioms Sst.FT.seekOutcome_not_below
#print axioms Sst.FT.seekOutcome_stored
#print axioms Sst.FT.nextFrom_skipped
#print axioms Sst.FT.seekOutcome_count
#print axioms Sst.FT.seekOutcome_skipped
#print axioms Sst.FT.stepOutcome_skipped
