import SstModel.Lemmas.BuildLayout
import SstModel.Props.ReaderWF
/-
  Writer ∘ reader: the image a successful build leaves in the sink (ANY sink schedule) is opened and
  read back by the reader exactly as the Spec map / cursor over the input entries prescribes.

  Composition of `build_any_sink_wf` (writer side, BuildLayout.lean) with the reader theorems on
  well-formed images (`open_ok`, `reader_history`, `get_ok`, `approx_ok`, …).  Used by the property
  files C01–C04 and C19.
-/
namespace Sst
open Spec

/-- a reader policy is compatible with the writer's if it has another on-disk name (then the filter
    block is ignored) or the same name and the same may-match function (e.g. bloom with any other
    bits_per_key) -/
def ReaderPolicyOK (wp rp : FilterPolicy) : Prop :=
  Table.filterName rp ≠ Table.filterName wp
    ∨ (Table.filterName rp = Table.filterName wp ∧ rp.keyMayMatch = wp.keyMayMatch)

/-- the writer's own policy is compatible -/
theorem readerPolicyOK_refl (p : FilterPolicy) : ReaderPolicyOK p p := .inr ⟨rfl, rfl⟩

/-- bloom filters written with one `bits_per_key` are readable with any other -/
theorem bloom_readerPolicyOK (b b' : Nat) : ReaderPolicyOK (Bloom.policy b) (Bloom.policy b') :=
  .inr ⟨rfl, rfl⟩

namespace BR

/-- the filter-block reader uses the policy only through `keyMayMatch` -/
theorem keyMayMatch_congr (wp rp : FilterPolicy) (h : rp.keyMayMatch = wp.keyMayMatch)
    (r : FilterBlockReader) (off : Nat) (k : Bytes) :
    r.keyMayMatch rp off k = r.keyMayMatch wp off k := by
  unfold FilterBlockReader.keyMayMatch
  rw [h]

theorem filterSound_congr (wp rp : FilterPolicy) (h : rp.keyMayMatch = wp.keyMayMatch)
    (t : TableImg) (fb : Bytes) (hs : FilterSound wp t fb) : FilterSound rp t fb := by
  intro d hd k hk r hr
  rw [keyMayMatch_congr wp rp h]
  exact hs d hd k hk r hr

/-- what a compatible reader policy sees in a table written with policy `wp`: nothing (foreign name)
    or the writer's sound filter block -/
theorem filter_for_reader (wp rp : FilterPolicy) (t : TableImg) (fh fb : Bytes)
    (hm : t.metaix.kvs = [(Table.filterName wp, fh)])
    (hv : FilterView wp t (some fb)) (hs : FilterSound wp t fb) (hrp : ReaderPolicyOK wp rp) :
    ∃ fv, FilterView rp t fv ∧ (∀ fb', fv = some fb' → FilterSound rp t fb')
      ∧ (Table.filterName rp ≠ Table.filterName wp → fv = none) := by
  rcases hrp with hne | ⟨heq, hkm⟩
  · refine ⟨none, .absent ?_, (fun _ h => by cases h), (fun _ => rfl)⟩
    intro e he
    rw [hm] at he
    simp only [List.mem_singleton] at he
    subst he
    exact fun h => hne h.symm
  · refine ⟨some fb, ?_, ?_, fun h => absurd heq h⟩
    · cases hv with
      | present v fh' n fb' h hd hz hb hr hw =>
        exact .present v fh' n fb (by rw [heq]; exact h) hd hz hb hr hw
    · intro fb' hfb'
      cases hfb'
      exact filterSound_congr wp rp hkm t fb hs

/-! ### the successful run on any sink has the same non-sink fields as the perfect-sink run -/

/-- C13 with the simulation exposed: the perfect-sink run succeeds with the same size and ends in the
    same builder state up to the sink -/
theorem build_sim (opt : WOpts) (sched : List SinkResp) (es : List (Bytes × Bytes)) (t : TableBuilder)
    (n : Nat) (h : TableBuilder.build opt { sched := sched } es = (t, .ok n)) :
    ∃ tp, TableBuilder.build opt {} es = (tp, .ok n) ∧ TableBuilder.SimB t tp := by
  unfold TableBuilder.build at h ⊢
  have hs0 : TableBuilder.SimB (TableBuilder.new opt { sched := sched }) (TableBuilder.new opt {}) :=
    ⟨{}, rfl, rfl, rfl⟩
  split at h
  · rename_i a1 haa
    obtain ⟨b1, hb1, hsim1, _⟩ := TableBuilder.addAll_sim es _ _ _ hs0 haa
    rw [hb1]
    simp only []
    obtain ⟨b2, hb2, hsim2, _⟩ := TableBuilder.finish_sim a1 b1 _ _ hsim1 h
    exact ⟨b2, hb2, hsim2⟩
  all_goals simp at h

theorem simB_numEntries {a b : TableBuilder} (h : TableBuilder.SimB a b) : b.numEntries = a.numEntries := by
  obtain ⟨sb, rfl, _, _⟩ := h
  rfl

/-- the builder that finished successfully on ANY sink has counted every entry -/
theorem build_numEntries (opt : WOpts) (hok : WOptsOK opt) (sched : List SinkResp)
    (es : List (Bytes × Bytes)) (t0 : TableBuilder) (n : Nat)
    (hb : TableBuilder.build opt { sched := sched } es = (t0, .ok n))
    (hn : n < 2 ^ 32) (hsz : opt.compression = 1 → sizeBound opt es < 2 ^ 32) :
    t0.numEntries = es.length := by
  obtain ⟨tp, hbp, hsim⟩ := build_sim opt sched es t0 n hb
  obtain ⟨_, hnum, _⟩ := build_wf_of_ok opt hok es tp n hbp hn hsz
  rw [← simB_numEntries hsim]; exact hnum

/-! ### data blocks in file order -/

/-- consecutive blocks ordered ⇒ offsets monotone in the block index -/
theorem offsets_mono (t : TableImg)
    (hord : ∀ (i : Nat) (di dj : DBlock), t.blocks[i]? = some di → t.blocks[i+1]? = some dj →
       di.handle.offset + di.handle.size + 5 ≤ dj.handle.offset)
    (i j : Nat) (hij : i ≤ j) (di dj : DBlock) (hi : t.blocks[i]? = some di) (hj : t.blocks[j]? = some dj) :
    di.handle.offset ≤ dj.handle.offset := by
  induction hij generalizing dj with
  | refl => rw [hi] at hj; cases hj; exact Nat.le_refl _
  | @step m _ ih =>
    have hm : m < t.blocks.length := by
      have := (List.getElem?_eq_some_iff.mp hj).1
      omega
    have h1 := ih t.blocks[m] (List.getElem?_eq_getElem hm)
    have h2 := hord m t.blocks[m] dj (List.getElem?_eq_getElem hm) hj
    omega

/-! ### the value `approx_offset_of` returns -/

/-- the value `Table::approx_offset_of` returns on image `t` (see `approx_ok`) -/
def approxOf (cmp : Cmp) (t : TableImg) (k : Bytes) : Nat :=
  match Spec.lowerBound cmp (t.seps.map (fun s => (s, ([] : Bytes)))) k with
  | some bi => ((t.blocks[bi]?).map (·.handle.offset)).getD 0
  | none => t.metaHandle.offset

theorem approxOf_some {cmp : Cmp} {t : TableImg} {k : Bytes} {bi : Nat}
    (h : Spec.lowerBound cmp (t.seps.map (fun s => (s, ([] : Bytes)))) k = some bi) :
    ∃ d, t.blocks[bi]? = some d ∧ approxOf cmp t k = d.handle.offset := by
  obtain ⟨hbi, _, _⟩ := TwoLevel.sep_lowerBound_some cmp t.seps k bi h
  have hbi' : bi < t.blocks.length := by simpa [TableImg.seps] using hbi
  refine ⟨t.blocks[bi], List.getElem?_eq_getElem hbi', ?_⟩
  unfold approxOf
  rw [h]
  simp only [List.getElem?_eq_getElem hbi', Option.map_some, Option.getD_some]

theorem approxOf_none {cmp : Cmp} {t : TableImg} {k : Bytes}
    (h : Spec.lowerBound cmp (t.seps.map (fun s => (s, ([] : Bytes)))) k = none) :
    approxOf cmp t k = t.metaHandle.offset := by
  unfold approxOf; rw [h]

/-- (a) a stored key's approximate offset is the start of its block -/
theorem approxOf_stored (cmp : Cmp) (hc : cmp.Lawful) (t : TableImg) (hwf : t.WF cmp)
    (d : DBlock) (hd : d ∈ t.blocks) (k : Bytes) (hk : k ∈ d.keys) :
    approxOf cmp t k = d.handle.offset := by
  obtain ⟨i, hi⟩ := List.mem_iff_getElem?.mp hd
  have hilt : i < t.blocks.length := (List.getElem?_eq_some_iff.mp hi).1
  have hlb : Spec.lowerBound cmp (t.seps.map (fun s => (s, ([] : Bytes)))) k = some i := by
    rw [TwoLevel.lowerBound_eq_some_iff']
    refine ⟨by simpa [TableImg.seps] using hilt, ?_, ?_⟩
    · intro j e hj he
      rw [List.getElem?_map, t.seps_getElem?] at he
      cases hdj : t.blocks[j]? with
      | none => rw [hdj] at he; cases he
      | some dj =>
        rw [hdj] at he
        simp only [Option.map_some, Option.some.injEq] at he
        subst he
        exact hwf.sepLt j i dj d hj hdj hi k hk
    · intro e he
      rw [List.getElem?_map, t.seps_getElem?, hi] at he
      simp only [Option.map_some, Option.some.injEq] at he
      subst he
      intro hlt
      exact hwf.sepGe d hd k hk ((hc.gt_iff _ _).mpr hlt)
  obtain ⟨d', hd', ha⟩ := approxOf_some hlb
  rw [hi] at hd'
  cases hd'
  exact ha

/-- (a'), the mechanism behind finding F4: EVERY key between some key of block `d` and `d`'s index key
    (inclusive) is mapped to the start of `d` — also when it is above all keys of `d` -/
theorem approxOf_in_block (cmp : Cmp) (hc : cmp.Lawful) (t : TableImg) (hwf : t.WF cmp)
    (d : DBlock) (hd : d ∈ t.blocks) (k k0 : Bytes) (hk0 : k0 ∈ d.keys) (hge : cmp.cmp k0 k ≠ .gt)
    (hle : cmp.cmp k d.sep ≠ .gt) : approxOf cmp t k = d.handle.offset := by
  obtain ⟨i, hi⟩ := List.mem_iff_getElem?.mp hd
  have hilt : i < t.blocks.length := (List.getElem?_eq_some_iff.mp hi).1
  have hlb : Spec.lowerBound cmp (t.seps.map (fun s => (s, ([] : Bytes)))) k = some i := by
    rw [TwoLevel.lowerBound_eq_some_iff']
    refine ⟨by simpa [TableImg.seps] using hilt, ?_, ?_⟩
    · intro j e hj he
      rw [List.getElem?_map, t.seps_getElem?] at he
      cases hdj : t.blocks[j]? with
      | none => rw [hdj] at he; cases he
      | some dj =>
        rw [hdj] at he
        simp only [Option.map_some, Option.some.injEq] at he
        subst he
        exact hc.lt_of_lt_of_le (hwf.sepLt j i dj d hj hdj hi k0 hk0) hge
    · intro e he
      rw [List.getElem?_map, t.seps_getElem?, hi] at he
      simp only [Option.map_some, Option.some.injEq] at he
      subst he
      intro hlt
      exact hle ((hc.gt_iff _ _).mpr hlt)
  obtain ⟨d', hd', ha⟩ := approxOf_some hlb
  rw [hi] at hd'
  cases hd'
  exact ha

/-- (b) the approximate offset is never beyond the metaindex block, hence inside the file -/
theorem approxOf_le_meta (cmp : Cmp) (t : TableImg)
    (hbefore : ∀ d ∈ t.blocks, d.handle.offset + d.handle.size + 5 ≤ t.metaHandle.offset) (k : Bytes) :
    approxOf cmp t k ≤ t.metaHandle.offset := by
  cases h : Spec.lowerBound cmp (t.seps.map (fun s => (s, ([] : Bytes)))) k with
  | none => rw [approxOf_none h]; exact Nat.le_refl _
  | some bi =>
    obtain ⟨d, hd, ha⟩ := approxOf_some h
    have := hbefore d (List.mem_of_getElem? hd)
    omega

theorem approxOf_le_size (cmp : Cmp) (t : TableImg) (hwf : t.WF cmp)
    (hbefore : ∀ d ∈ t.blocks, d.handle.offset + d.handle.size + 5 ≤ t.metaHandle.offset) (k : Bytes) :
    approxOf cmp t k ≤ t.img.length := by
  have h1 := approxOf_le_meta cmp t hbefore k
  have h2 := hwf.metaBounds.2
  omega

/-- (c) the approximate offset is monotone in the key -/
theorem approxOf_mono (cmp : Cmp) (hc : cmp.Lawful) (t : TableImg)
    (hord : ∀ (i : Nat) (di dj : DBlock), t.blocks[i]? = some di → t.blocks[i+1]? = some dj →
       di.handle.offset + di.handle.size + 5 ≤ dj.handle.offset)
    (hbefore : ∀ d ∈ t.blocks, d.handle.offset + d.handle.size + 5 ≤ t.metaHandle.offset)
    (k1 k2 : Bytes) (hle : cmp.cmp k1 k2 ≠ .gt) : approxOf cmp t k1 ≤ approxOf cmp t k2 := by
  cases h2 : Spec.lowerBound cmp (t.seps.map (fun s => (s, ([] : Bytes)))) k2 with
  | none => rw [approxOf_none h2]; exact approxOf_le_meta cmp t hbefore k1
  | some j =>
    obtain ⟨hj, _, hge2⟩ := TwoLevel.sep_lowerBound_some cmp t.seps k2 j h2
    obtain ⟨dj, hdj, ha2⟩ := approxOf_some h2
    have hsj : t.seps[j]? = some t.seps[j] := List.getElem?_eq_getElem hj
    -- the j-th index key is not below k1 either
    have hnlt : cmp.cmp t.seps[j] k1 ≠ .lt := by
      intro hlt
      exact hge2 _ hsj (hc.lt_of_lt_of_le hlt hle)
    cases h1 : Spec.lowerBound cmp (t.seps.map (fun s => (s, ([] : Bytes)))) k1 with
    | none =>
      exact absurd (TwoLevel.sep_lowerBound_none cmp t.seps k1 h1 _ (List.getElem_mem hj)) hnlt
    | some i =>
      obtain ⟨_, hlt1, _⟩ := TwoLevel.sep_lowerBound_some cmp t.seps k1 i h1
      obtain ⟨di, hdi, ha1⟩ := approxOf_some h1
      have hij : i ≤ j := by
        rcases Nat.lt_or_ge j i with hji | hij
        · exact absurd (hlt1 j _ hji hsj) hnlt
        · exact hij
      rw [ha1, ha2]
      exact offsets_mono t hord i j hij di dj hdi hdj

/-- (d) above the last index key the approximate offset is the metaindex offset -/
theorem approxOf_past_last (cmp : Cmp) (t : TableImg) (k : Bytes)
    (hk : ∀ s ∈ t.seps, cmp.cmp s k = .lt) : approxOf cmp t k = t.metaHandle.offset := by
  apply approxOf_none
  rw [TwoLevel.lowerBound_eq_none_iff]
  intro e he
  obtain ⟨s, hs, rfl⟩ := List.mem_map.mp he
  exact hk s hs

/-! ### the iterator driven by a call history: concatenation -/

theorem run_cons_inv {it it2 : TableIter} {op : IterOp} {ops : List IterOp} {w w2 : World}
    {outs : List IterOut} (h : it.run (op :: ops) w = (w2, .ok (it2, outs))) :
    ∃ w1 it1 out outs', it.call op w = (w1, .ok (it1, out)) ∧ it1.run ops w1 = (w2, .ok (it2, outs'))
      ∧ outs = out :: outs' := by
  have h' : M.bind' (it.call op)
      (fun r => M.bind' (TableIter.run r.1 ops) (fun s => M.pure' (s.1, r.2 :: s.2))) w
        = (w2, .ok (it2, outs)) := h
  unfold M.bind' at h'
  split at h'
  · rename_i w1 a hcall
    obtain ⟨it1, out⟩ := a
    simp only [] at h'
    split at h'
    · rename_i w3 s hrun
      obtain ⟨it3, outs'⟩ := s
      simp only [M.pure', Prod.mk.injEq, Res.ok.injEq] at h'
      obtain ⟨rfl, rfl, rfl⟩ := h'
      exact ⟨w1, it1, out, outs', hcall, hrun, rfl⟩
    all_goals simp at h'
  all_goals simp at h'

/-- two successful runs compose -/
theorem run_append {ops1 ops2 : List IterOp} :
    ∀ {it it1 it2 : TableIter} {w w1 w2 : World} {o1 o2 : List IterOut},
      it.run ops1 w = (w1, .ok (it1, o1)) → it1.run ops2 w1 = (w2, .ok (it2, o2)) →
      it.run (ops1 ++ ops2) w = (w2, .ok (it2, o1 ++ o2)) := by
  induction ops1 with
  | nil =>
    intro it it1 it2 w w1 w2 o1 o2 h1 h2
    rw [TableIter.run_nil] at h1
    simp only [Prod.mk.injEq, Res.ok.injEq] at h1
    obtain ⟨rfl, rfl, rfl⟩ := h1
    exact h2
  | cons op ops ih =>
    intro it it1 it2 w w1 w2 o1 o2 h1 h2
    obtain ⟨wa, ita, out, outs', hcall, hrun, rfl⟩ := run_cons_inv h1
    exact TableIter.run_cons hcall (ih hrun h2)

/-! ### the reader on a well-formed image, packaged -/

/-- everything the property files need about reading a well-formed image `t` (opened in a clean world
    with an empty cache), with the internal witnesses (`Opened`, `WorldOK`, `SimT`) exposed -/
theorem open_core (cmp : Cmp) (hc : cmp.Lawful) (p : FilterPolicy) (t : TableImg) (hwf : t.WF cmp)
    (fv : Option Bytes) (hfv : FilterView p t fv)
    (w : World) (file : Nat) (hcw : CleanWorld w file t.img) (hempty : w.cache.entries = []) :
    ∃ w1 tb it, Table.new ⟨cmp, p⟩ file t.img.length w = (w1, .ok tb)
      ∧ Opened tb t cmp p fv ∧ WorldOK w1 tb t
      ∧ TableIter.new tb w1 = (w1, .ok it) ∧ SimT t tb it none
      ∧ w1.cache.cap = w.cache.cap := by
  obtain ⟨w1, tb, hnew, hop, hfile, _, hcw1, _, hentries, hcap, _, _⟩ :=
    open_ok cmp hc p t hwf fv hfv w file hcw
  have hw1 : WorldOK w1 tb t := by
    refine ⟨by rw [hfile]; exact hcw1, ?_⟩
    intro off c hmem
    rw [hentries, hempty] at hmem
    cases hmem
  obtain ⟨it, hit, hsim, _⟩ := reader_iter_new cmp hc p t hwf fv tb hop w1
  exact ⟨w1, tb, it, hnew, hop, hw1, hit, hsim, hcap⟩

theorem filterView_wf {p : FilterPolicy} {t : TableImg} {fv : Option Bytes} (hfv : FilterView p t fv) :
    ∀ fb, fv = some fb → FilterBlockReader.isWellFormed fb = true := by
  intro fb hfb
  cases hfv with
  | absent _ => cases hfb
  | empty _ _ _ _ _ _ => cases hfb
  | present v fh n fb' _ _ _ _ _ hw => cases hfb; exact hw

/-- seek / current / valid after an ARBITRARY prior history -/
theorem seek_after_history (cmp : Cmp) (hc : cmp.Lawful) (p : FilterPolicy) (t : TableImg)
    (hwf : t.WF cmp) (fv : Option Bytes) (tb : Table) (hop : Opened tb t cmp p fv)
    (w : World) (hw : WorldOK w tb t) (it : TableIter) (pos : Option (Nat × Nat))
    (hsim : SimT t tb it pos) (ops : List IterOp) (target : Bytes) :
    ∃ wa ita outs w2 it2, it.run ops w = (wa, .ok (ita, outs))
      ∧ it.run (ops ++ [.seek target, .current, .valid]) w
          = (w2, .ok (it2, outs ++ [.unit, .entry (entryAt t.entries (lowerBound cmp t.entries target)),
                                     .flag (lowerBound cmp t.entries target).isSome])) := by
  obtain ⟨wa, ita, posa, outs, hrun, _, hsa, hwa, _⟩ :=
    reader_history cmp hc p t hwf fv tb hop ops w hw it pos hsim
  obtain ⟨w2, it2, hrun2⟩ := reader_seek_current cmp hc p t hwf fv tb hop wa hwa ita posa hsa target
  exact ⟨wa, ita, outs, w2, it2, hrun, run_append hrun hrun2⟩

end BR

/-! ### the writer's image with everything known about it -/

/-- the image a successful build (ANY sink schedule) leaves in the sink, as a compatible reader policy
    `rp` sees it -/
theorem built_image (opt : WOpts) (hok : WOptsOK opt) (rp : FilterPolicy)
    (hrp : ReaderPolicyOK opt.filter rp)
    (sched : List SinkResp) (es : List (Bytes × Bytes)) (t0 : TableBuilder) (n : Nat)
    (hb : TableBuilder.build opt { sched := sched } es = (t0, .ok n)) (hn : n < 2 ^ 32)
    (hsz : opt.compression = 1 → sizeBound opt es < 2 ^ 32) :
    n = t0.sink.received.length ∧ t0.numEntries = es.length ∧
      ∃ t : TableImg, t.img = t0.sink.received ∧ t.img.length = n ∧ t.WF opt.cmp ∧ t.entries = es
        ∧ (∃ fv, FilterView rp t fv ∧ (∀ fb, fv = some fb → FilterSound rp t fb)
            ∧ (Table.filterName rp ≠ Table.filterName opt.filter → fv = none))
        ∧ (∀ (i : Nat) (di dj : DBlock), t.blocks[i]? = some di → t.blocks[i+1]? = some dj →
             di.handle.offset + di.handle.size + 5 ≤ dj.handle.offset)
        ∧ (∀ d ∈ t.blocks, d.handle.offset + d.handle.size + 5 ≤ t.metaHandle.offset)
        ∧ (∀ d, t.blocks[0]? = some d → d.handle.offset = 0) := by
  obtain ⟨hlen, t, himg, twf, hent, ⟨fh, hmeta⟩, ⟨fb, hfv, hsound⟩, hord, hbefore, hfirst, _⟩ :=
    build_any_sink_wf opt hok sched es t0 n hb hn hsz
  have hnum := BR.build_numEntries opt hok sched es t0 n hb hn hsz
  exact ⟨hlen, hnum, t, himg, by rw [himg, hlen], twf, hent,
    BR.filter_for_reader opt.filter rp t fh fb hmeta hfv hsound hrp, hord, hbefore, hfirst⟩

/-- the built image opened: the image `t`, the filter view `fv` of the reader policy, the handle `tb`,
    a new iterator `it`, with the reader invariants (`Opened`, `WorldOK`, `SimT`) that the reader
    theorems of `ReaderWF`/`TableGet` take as hypotheses -/
theorem built_open_core (opt : WOpts) (hok : WOptsOK opt) (rp : FilterPolicy)
    (hrp : ReaderPolicyOK opt.filter rp)
    (sched : List SinkResp) (es : List (Bytes × Bytes)) (t0 : TableBuilder) (n : Nat)
    (hb : TableBuilder.build opt { sched := sched } es = (t0, .ok n)) (hn : n < 2 ^ 32)
    (hsz : opt.compression = 1 → sizeBound opt es < 2 ^ 32)
    (w : World) (file : Nat) (hcw : CleanWorld w file t0.sink.received) (hempty : w.cache.entries = []) :
    ∃ (t : TableImg) (fv : Option Bytes) (w1 : World) (tb : Table) (it : TableIter),
      t.img = t0.sink.received ∧ t.img.length = n ∧ t.WF opt.cmp ∧ t.entries = es
        ∧ FilterView rp t fv ∧ (∀ fb, fv = some fb → FilterSound rp t fb)
        ∧ (Table.filterName rp ≠ Table.filterName opt.filter → fv = none)
        ∧ (∀ (i : Nat) (di dj : DBlock), t.blocks[i]? = some di → t.blocks[i+1]? = some dj →
             di.handle.offset + di.handle.size + 5 ≤ dj.handle.offset)
        ∧ (∀ d ∈ t.blocks, d.handle.offset + d.handle.size + 5 ≤ t.metaHandle.offset)
        ∧ (∀ d, t.blocks[0]? = some d → d.handle.offset = 0)
        ∧ Table.new ⟨opt.cmp, rp⟩ file n w = (w1, .ok tb)
        ∧ Opened tb t opt.cmp rp fv ∧ WorldOK w1 tb t
        ∧ TableIter.new tb w1 = (w1, .ok it) ∧ SimT t tb it none := by
  obtain ⟨_, _, t, himg, himglen, twf, hent, ⟨fv, hfv, hsound, hforeign⟩, hord, hbefore, hfirst⟩ :=
    built_image opt hok rp hrp sched es t0 n hb hn hsz
  rw [← himg] at hcw
  obtain ⟨w1, tb, it, hnew, hop, hw1, hit, hsim, _⟩ :=
    BR.open_core opt.cmp hok.lawful rp t twf fv hfv w file hcw hempty
  rw [himglen] at hnew
  exact ⟨t, fv, w1, tb, it, himg, himglen, twf, hent, hfv, hsound, hforeign, hord, hbefore, hfirst,
    hnew, hop, hw1, hit, hsim⟩

/-- MASTER THEOREM (C01–C04): for every lawful writer configuration, every compatible reader policy,
    every sink schedule and every world with the file clean and the cache empty (any capacity): if the
    build reports success with size `n`, then `n` is the number of bytes the sink received, the
    builder counted every entry, opening the received bytes succeeds, and on the handle
    * a forward scan returns exactly the input entries, then `none`;
    * a point lookup of ANY key returns what the input list stores under it;
    * a seek to ANY target lands on the least entry not below it;
    * EVERY finite history of iterator calls refines the Spec cursor over the input list. -/
theorem built_table_reads_back (opt : WOpts) (hok : WOptsOK opt) (rp : FilterPolicy)
    (hrp : ReaderPolicyOK opt.filter rp)
    (sched : List SinkResp) (es : List (Bytes × Bytes)) (t0 : TableBuilder) (n : Nat)
    (hb : TableBuilder.build opt { sched := sched } es = (t0, .ok n)) (hn : n < 2 ^ 32)
    (hsz : opt.compression = 1 → sizeBound opt es < 2 ^ 32)
    (w : World) (file : Nat) (hcw : CleanWorld w file t0.sink.received) (hempty : w.cache.entries = []) :
    n = t0.sink.received.length ∧ t0.numEntries = es.length ∧
    ∃ w1 tb it, Table.new ⟨opt.cmp, rp⟩ file n w = (w1, .ok tb) ∧ TableIter.new tb w1 = (w1, .ok it)
      ∧ (∃ w2 it2, it.run (List.replicate (es.length + 1) Spec.IterOp.next) w1
            = (w2, .ok (it2, es.map (fun e => Spec.IterOut.entry (some e)) ++ [Spec.IterOut.entry none])))
      ∧ (∀ k, ∃ w2, tb.get k w1 = (w2, .ok (Spec.lookup opt.cmp es k)))
      ∧ (∀ target, ∃ w2 it2, it.run [.seek target, .current, .valid] w1
            = (w2, .ok (it2, [.unit, .entry (Spec.entryAt es (Spec.lowerBound opt.cmp es target)),
                              .flag (Spec.lowerBound opt.cmp es target).isSome])))
      ∧ (∀ ops, ∃ w2 it2 p2 outs, it.run ops w1 = (w2, .ok (it2, outs))
            ∧ Spec.CursorRun opt.cmp es none ops p2 outs) := by
  obtain ⟨hlen, hnum, _⟩ := built_image opt hok rp hrp sched es t0 n hb hn hsz
  obtain ⟨t, fv, w1, tb, it, _, _, twf, hent, hfv, hsound, _, _, _, _, hnew, hop, hw1, hit, hsim⟩ :=
    built_open_core opt hok rp hrp sched es t0 n hb hn hsz w file hcw hempty
  have hc := hok.lawful
  subst hent
  refine ⟨hlen, hnum, w1, tb, it, hnew, hit, ?_, ?_, ?_, ?_⟩
  · obtain ⟨w2, it2, hrun, _⟩ := reader_scan opt.cmp hc rp t twf fv tb hop w1 hw1 it hsim
    exact ⟨w2, it2, hrun⟩
  · intro k
    obtain ⟨w2, hget, _, _⟩ :=
      get_ok opt.cmp hc rp t twf fv tb hop hsound (BR.filterView_wf hfv) w1 hw1 k
    exact ⟨w2, hget⟩
  · intro target
    exact reader_seek_current opt.cmp hc rp t twf fv tb hop w1 hw1 it none hsim target
  · intro ops
    obtain ⟨w2, it2, pos2, outs, hrun, hcr, _, _, _⟩ :=
      reader_history opt.cmp hc rp t twf fv tb hop ops w1 hw1 it none hsim
    exact ⟨w2, it2, t.flatPos pos2, outs, hrun, hcr⟩

/-- C02 addendum: a reader policy with a foreign on-disk name gets a handle without filter (the
    writer's filter block is ignored, not consulted) -/
theorem built_foreign_filter (opt : WOpts) (hok : WOptsOK opt) (rp : FilterPolicy)
    (hne : Table.filterName rp ≠ Table.filterName opt.filter)
    (sched : List SinkResp) (es : List (Bytes × Bytes)) (t0 : TableBuilder) (n : Nat)
    (hb : TableBuilder.build opt { sched := sched } es = (t0, .ok n)) (hn : n < 2 ^ 32)
    (hsz : opt.compression = 1 → sizeBound opt es < 2 ^ 32)
    (w : World) (file : Nat) (hcw : CleanWorld w file t0.sink.received) (hempty : w.cache.entries = []) :
    ∃ w1 tb, Table.new ⟨opt.cmp, rp⟩ file n w = (w1, .ok tb) ∧ tb.filters = none := by
  obtain ⟨t, fv, w1, tb, it, _, _, _, _, _, _, hforeign, _, _, _, hnew, hop, _⟩ :=
    built_open_core opt hok rp (.inl hne) sched es t0 n hb hn hsz w file hcw hempty
  have hfv := hforeign hne
  subst hfv
  exact ⟨w1, tb, hnew, hop.filters⟩

/-- C03 from any prior history: after ANY call history `ops` on a new iterator (which succeeds with
    some outputs `outs`), `seek target; current; valid` returns the least entry not below `target` -/
theorem built_seek_any_history (opt : WOpts) (hok : WOptsOK opt) (rp : FilterPolicy)
    (hrp : ReaderPolicyOK opt.filter rp)
    (sched : List SinkResp) (es : List (Bytes × Bytes)) (t0 : TableBuilder) (n : Nat)
    (hb : TableBuilder.build opt { sched := sched } es = (t0, .ok n)) (hn : n < 2 ^ 32)
    (hsz : opt.compression = 1 → sizeBound opt es < 2 ^ 32)
    (w : World) (file : Nat) (hcw : CleanWorld w file t0.sink.received) (hempty : w.cache.entries = []) :
    ∃ w1 tb it, Table.new ⟨opt.cmp, rp⟩ file n w = (w1, .ok tb) ∧ TableIter.new tb w1 = (w1, .ok it)
      ∧ ∀ ops target, ∃ wa ita outs w2 it2, it.run ops w1 = (wa, .ok (ita, outs))
          ∧ it.run (ops ++ [.seek target, .current, .valid]) w1
              = (w2, .ok (it2, outs ++ [.unit, .entry (Spec.entryAt es (Spec.lowerBound opt.cmp es target)),
                                         .flag (Spec.lowerBound opt.cmp es target).isSome])) := by
  obtain ⟨t, fv, w1, tb, it, _, _, twf, hent, _, _, _, _, _, _, hnew, hop, hw1, hit, hsim⟩ :=
    built_open_core opt hok rp hrp sched es t0 n hb hn hsz w file hcw hempty
  subst hent
  refine ⟨w1, tb, it, hnew, hit, ?_⟩
  intro ops target
  exact BR.seek_after_history opt.cmp hok.lawful rp t twf fv tb hop w1 hw1 it none hsim ops target

/-- C04 init on the Spec cursor: at the before-first position nothing is current -/
theorem cursorRun_init (cmp : Cmp) (es : List Entry) (q : Pos) (outs : List IterOut)
    (h : CursorRun cmp es none [.valid, .current, .currentKey] q outs) :
    outs = [.flag false, .entry none, .key none] ∧ q = none := by
  cases h with
  | cons h1 hr =>
    cases h1
    cases hr with
    | cons h2 hr =>
      cases h2
      cases hr with
      | cons h3 hr =>
        cases h3
        cases hr
        exact ⟨rfl, rfl⟩

/-- every stored entry lies in a data block of the image -/
theorem TableImg.mem_entries {t : TableImg} {e : Spec.Entry} (h : e ∈ t.entries) :
    ∃ d ∈ t.blocks, e.1 ∈ d.keys := by
  unfold TableImg.entries at h
  obtain ⟨l, hl, hel⟩ := List.mem_flatten.mp h
  obtain ⟨d, hd, rfl⟩ := List.mem_map.mp hl
  exact ⟨d, hd, mem_kvs_key hel⟩

/-- C19 core: `approx_offset_of` on the built table returns `BR.approxOf` of the image, leaves the world
    untouched, and the image has the layout facts the clauses of C19 need -/
theorem built_approx (opt : WOpts) (hok : WOptsOK opt) (rp : FilterPolicy)
    (hrp : ReaderPolicyOK opt.filter rp)
    (sched : List SinkResp) (es : List (Bytes × Bytes)) (t0 : TableBuilder) (n : Nat)
    (hb : TableBuilder.build opt { sched := sched } es = (t0, .ok n)) (hn : n < 2 ^ 32)
    (hsz : opt.compression = 1 → sizeBound opt es < 2 ^ 32)
    (w : World) (file : Nat) (hcw : CleanWorld w file t0.sink.received) (hempty : w.cache.entries = []) :
    ∃ (t : TableImg) (w1 : World) (tb : Table),
      t.img = t0.sink.received ∧ t.img.length = n ∧ t.WF opt.cmp ∧ t.entries = es
        ∧ (∀ (i : Nat) (di dj : DBlock), t.blocks[i]? = some di → t.blocks[i+1]? = some dj →
             di.handle.offset + di.handle.size + 5 ≤ dj.handle.offset)
        ∧ (∀ d ∈ t.blocks, d.handle.offset + d.handle.size + 5 ≤ t.metaHandle.offset)
        ∧ Table.new ⟨opt.cmp, rp⟩ file n w = (w1, .ok tb)
        ∧ ∀ k, tb.approxOffsetOf k w1 = (w1, .ok (BR.approxOf opt.cmp t k)) := by
  obtain ⟨t, fv, w1, tb, it, himg, hlen, twf, hent, _, _, _, hord, hbefore, _, hnew, hop, _⟩ :=
    built_open_core opt hok rp hrp sched es t0 n hb hn hsz w file hcw hempty
  exact ⟨t, w1, tb, himg, hlen, twf, hent, hord, hbefore, hnew,
    fun k => approx_ok opt.cmp hok.lawful rp t twf fv tb hop w1 k⟩

/-- on a strictly sorted input the perfect-sink build succeeds as long as fewer than 2^43 bytes are
    produced (re-export of `build_wf`) -/
theorem build_succeeds (opt : WOpts) (hok : WOptsOK opt) (es : List (Bytes × Bytes))
    (hs : Spec.StrictSorted opt.cmp es) :
    ∃ tp r, TableBuilder.build opt {} es = (tp, r) ∧ (tp.sink.received.length < 2 ^ 43 → ∃ n, r = .ok n) := by
  obtain ⟨tp, r, hb, h⟩ := build_wf opt hok es hs
  refine ⟨tp, r, hb, fun hsmall => ?_⟩
  obtain ⟨n, hr, _⟩ := h hsmall
  exact ⟨n, hr⟩

end Sst

#print axioms Sst.BR.filter_for_reader
#print axioms Sst.bloom_readerPolicyOK
#print axioms Sst.BR.build_numEntries
#print axioms Sst.BR.approxOf_mono
#print axioms Sst.BR.run_append
#print axioms Sst.built_image
#print axioms Sst.built_table_reads_back
#print axioms Sst.built_foreign_filter
#print axioms Sst.built_seek_any_history
#print axioms Sst.built_approx
#print axioms Sst.build_succeeds
