import SstModel.Model.Table
import SstModel.Lemmas.Codec
/-
  Helper lemmas for C15: `Table::read_footer` (hence `Table::new`) rejects, with an error, every file
  whose last 8 bytes are not the magic number, whatever the read-fault schedule.
-/
namespace Sst

/-- the 48-byte buffer `read_at` hands back for the footer read (a possibly short read of `n ≤ 48` bytes,
    zero padded) does not end with the magic number unless the file does -/
theorem footerBuf_bad_magic (content : Bytes) (n : Nat) (h48 : 48 ≤ content.length) (hn : n ≤ 48)
    (hbad : content.drop (content.length - 8) ≠ Consts.magicFooterEncoded) :
    ((((content.drop (content.length - 48)).take n) ++ List.replicate (48 - n) (0 : UInt8)).drop 40).take 8
      ≠ Consts.magicFooterEncoded := by
  have hlen : (((content.drop (content.length - 48)).take n) ++ List.replicate (48 - n) (0 : UInt8)).length
      = 48 := by
    simp only [List.length_append, List.length_take, List.length_drop, List.length_replicate]
    omega
  by_cases hfull : n = 48
  · subst hfull
    have h1 : (content.drop (content.length - 48)).take 48 = content.drop (content.length - 48) := by
      apply List.take_of_length_le
      simp only [List.length_drop]; omega
    have h2 : (content.drop (content.length - 8)).take 8 = content.drop (content.length - 8) := by
      apply List.take_of_length_le
      simp only [List.length_drop]; omega
    have h3 : content.length - 48 + 40 = content.length - 8 := by omega
    simp only [Nat.sub_self, List.replicate_zero, List.append_nil, h1, List.drop_drop]
    rw [Nat.add_comm] at h3
    first
      | (rw [h3, h2]; exact hbad)
      | (rw [Nat.add_comm] at h3; rw [h3, h2]; exact hbad)
  · have hlt : n < 48 := by omega
    intro heq
    have h7 := congrArg (fun l => l[7]?) heq
    simp only [List.getElem?_take, List.getElem?_drop] at h7
    have hidx : (((content.drop (content.length - 48)).take n) ++ List.replicate (48 - n) (0 : UInt8))[40 + 7]?
        = some 0 := by
      rw [List.getElem?_append_right (by simp only [List.length_take, List.length_drop]; omega)]
      rw [List.getElem?_replicate]
      simp only [List.length_take, List.length_drop]
      rw [if_pos (by omega)]
    simp only [hidx] at h7
    revert h7
    simp [Consts.magicFooterEncoded]

/-- `read_footer` on a file without trailing magic: an error, `Corruption` when the source does not fail -/
theorem Table.readFooter_rejects (file size : Nat) (w : World) (content : Bytes)
    (hf : w.files.getD file [] = content) (hsz : size = content.length)
    (hbad : size < 48 ∨ content.drop (size - 8) ≠ Consts.magicFooterEncoded) :
    ∃ w' c, Table.readFooter file size w = (w', .err c) ∧ (w.sched = [] → c = .corruption) := by
  unfold Table.readFooter
  by_cases hs : size < Consts.fullFooterLength
  · rw [if_pos hs]
    exact ⟨w, .corruption, rfl, fun _ => rfl⟩
  · rw [if_neg hs]
    have hs48 : 48 ≤ size := by
      have : Consts.fullFooterLength = 48 := rfl
      omega
    have hbad' : content.drop (content.length - 8) ≠ Consts.magicFooterEncoded := by
      cases hbad with
      | inl h => omega
      | inr h => rw [← hsz]; exact h
    have hoff : Consts.fullFooterLength = 48 := rfl
    rw [hoff]
    -- the buffer returned by a non-failing read is rejected by the decoder
    have hdec : ∀ n, n ≤ 48 →
        Footer.tryDecode (((content.drop (content.length - 48)).take n) ++ List.replicate (48 - n) (0 : UInt8))
          = none := fun n hn =>
      Footer.tryDecode_bad_magic _ (Or.inr (footerBuf_bad_magic content n (hsz ▸ hs48) hn hbad'))
    have hnormal : (if size - 48 > content.length then 0 else min 48 (content.length - (size - 48))) = 48 := by
      rw [if_neg (by omega)]; omega
    show ∃ w' c, M.bind' (readBytes file ⟨size - 48, 48⟩) _ w = (w', .err c) ∧ _
    unfold M.bind' readBytes readAt
    dsimp only
    cases hsch : w.sched with
    | nil =>
      simp only [hf, hnormal]
      rw [hsz, hdec 48 (Nat.le_refl _)]
      exact ⟨_, .corruption, rfl, fun _ => rfl⟩
    | cons f rest =>
      cases f with
      | ioError =>
        exact ⟨_, .ioError, rfl, fun h => by cases h⟩
      | none =>
        simp only [hf, hnormal]
        rw [hsz, hdec 48 (Nat.le_refl _)]
        exact ⟨_, .corruption, rfl, fun h => by cases h⟩
      | short k =>
        simp only [hf, hnormal]
        rw [hsz, hdec (min k 48) (Nat.min_le_right _ _)]
        exact ⟨_, .corruption, rfl, fun h => by cases h⟩

/-- `Table::new` propagates the footer error -/
theorem Table.new_rejects (opt : ROpts) (file size : Nat) (w : World) (content : Bytes)
    (hf : w.files.getD file [] = content) (hsz : size = content.length)
    (hbad : size < 48 ∨ content.drop (size - 8) ≠ Consts.magicFooterEncoded) :
    ∃ c, (Table.new opt file size w).2 = .err c ∧ (w.sched = [] → c = .corruption) := by
  obtain ⟨w', c, hrf, hc⟩ := Table.readFooter_rejects file size w content hf hsz hbad
  refine ⟨c, ?_, hc⟩
  unfold Table.new
  show (M.bind' (Table.readFooter file size) _ w).2 = _
  unfold M.bind'
  simp only [hrf]

end Sst
