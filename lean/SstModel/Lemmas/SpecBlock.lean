import SstModel.Lemmas.BlockSpec
import SstModel.Lemmas.Codec
import SstModel.Spec.Format
/-
  The independent decoder of the format (`Spec.Format`) and the abstraction the reader proofs use
  (`BlockWF`) agree: every block `Spec.Format.parseBlock` accepts is well formed in the reader's
  sense, with the same entries and restart array.
-/
namespace Sst
open Spec.Format

/-! ### bit operations on bytes -/

set_option maxRecDepth 4000 in
theorem nat_and80 : ∀ n < 256, (n &&& 0x80 = 0) ↔ n < 128 := by decide

theorem nat_and7f (n : Nat) : n &&& 0x7f = n % 128 := Nat.and_two_pow_sub_one_eq_mod n 7

/-- `x ||| y = x + y` when `x` is below `2^s` and `y` a multiple of `2^s` -/
theorem or_mul_two_pow (x w s : Nat) (hx : x < 2 ^ s) : x ||| w * 2 ^ s = x + w * 2 ^ s := by
  rw [← Nat.shiftLeft_eq, Nat.or_comm, ← Nat.shiftLeft_add_eq_or_of_lt hx, Nat.add_comm]

/-! ### varint -/

theorem varint_cons (b : UInt8) (rest : Bytes) (shift n : Nat) :
    varint (b :: rest) shift n =
      if n ≥ 10 then none
      else if b.toNat &&& 0x80 = 0 then some (b.toNat <<< shift, rest)
      else (varint rest (shift + 7) (n + 1)).map
        fun (v, r) => ((b.toNat &&& 0x7f) <<< shift ||| v, r) := by
  rw [varint]

/-- the Spec decoder (recursive, bit operations, no truncation) against the model's loop -/
theorem specVarint_loop (bs : Bytes) :
    ∀ (shift n v : Nat) (rest : Bytes), varint bs shift n = some (v, rest) → shift = 7 * n →
      (∃ w, v = w * 2 ^ shift) ∧
      ∀ acc, acc + v < 2 ^ 64 → ∃ l, decodeVarintLoop bs acc shift = some (acc + v, l)
        ∧ n < l ∧ l - n ≤ bs.length ∧ rest = bs.drop (l - n) := by
  induction bs with
  | nil => intro shift n v rest h; simp [varint] at h
  | cons b bs ih =>
    intro shift n v rest h hs
    rw [varint_cons] at h
    have hb := b.toNat_lt
    have hb' : b.toNat < 256 := by simpa using hb
    by_cases hn : n ≥ 10
    · rw [if_pos hn] at h; simp at h
    rw [if_neg hn] at h
    by_cases hbit : b.toNat &&& 0x80 = 0
    · rw [if_pos hbit] at h
      have hlt : b.toNat < 128 := (nat_and80 _ hb').1 hbit
      simp only [Option.some.injEq, Prod.mk.injEq] at h
      obtain ⟨hv, hr⟩ := h
      subst hv; subst hr
      rw [Nat.shiftLeft_eq]
      refine ⟨⟨_, rfl⟩, ?_⟩
      intro acc hacc
      rw [decodeVarintLoop_cons, if_pos hlt, Nat.mod_eq_of_lt hlt, Nat.mod_eq_of_lt hacc]
      refine ⟨(shift + 7) / 7, rfl, by omega, ?_, ?_⟩
      · simp only [List.length_cons]; omega
      · have : (shift + 7) / 7 - n = 1 := by omega
        rw [this]; rfl
    · rw [if_neg hbit] at h
      have hge : ¬ b.toNat < 128 := fun hh => hbit ((nat_and80 _ hb').2 hh)
      cases hrec : varint bs (shift + 7) (n + 1) with
      | none => rw [hrec] at h; simp at h
      | some p =>
        obtain ⟨v', r'⟩ := p
        rw [hrec] at h
        simp only [Option.map_some, Option.some.injEq, Prod.mk.injEq] at h
        obtain ⟨hv, hr⟩ := h
        subst hr
        obtain ⟨⟨w, hw⟩, ihl⟩ := ih _ _ _ _ hrec (by omega)
        have hx : (b.toNat % 128) * 2 ^ shift < 2 ^ (shift + 7) := by
          rw [Nat.pow_add, Nat.mul_comm (2 ^ shift)]
          exact Nat.mul_lt_mul_of_pos_right (Nat.mod_lt _ (by decide)) (Nat.pow_pos (by decide))
        have hv' : v = (b.toNat % 128) * 2 ^ shift + v' := by
          rw [← hv, nat_and7f, Nat.shiftLeft_eq, hw, or_mul_two_pow _ _ _ hx]
        refine ⟨⟨b.toNat % 128 + w * 128, ?_⟩, ?_⟩
        · rw [hv', hw, Nat.add_mul, Nat.pow_add, Nat.mul_assoc, Nat.mul_comm 128]
        · intro acc hacc
          have hn9 : n + 1 < 10 := by
            -- otherwise the Spec decoder rejects the next byte
            cases bs with
            | nil => simp [varint] at hrec
            | cons c cs =>
              rw [varint_cons] at hrec
              by_cases h10 : n + 1 ≥ 10
              · rw [if_pos h10] at hrec; simp at hrec
              · omega
          rw [decodeVarintLoop_cons, if_neg hge, if_neg (by omega),
            Nat.mod_eq_of_lt (by omega)]
          obtain ⟨l, hl, hnl, hlen, hrest⟩ := ihl (acc + b.toNat % 128 * 2 ^ shift) (by omega)
          refine ⟨l, ?_, by omega, ?_, ?_⟩
          · rw [hl, hv', Nat.add_assoc]
          · simp only [List.length_cons]; omega
          · have : l - n = (l - (n + 1)) + 1 := by omega
            rw [this, List.drop_succ_cons]; exact hrest

/-- the two varint decoders agree whenever the Spec one yields a value below 2^64 -/
theorem specVarint_eq (bs : Bytes) (v : Nat) (rest : Bytes)
    (h : Spec.Format.varint bs 0 0 = some (v, rest)) (hv : v < 2^64) :
    ∃ l, decodeVarint bs = some (v, l) ∧ rest = bs.drop l ∧ l ≤ bs.length := by
  obtain ⟨_, hl⟩ := specVarint_loop bs 0 0 v rest h rfl
  obtain ⟨l, h1, _, h3, h4⟩ := hl 0 (by simpa using hv)
  refine ⟨l, ?_, by simpa using h4, by simpa using h3⟩
  simpa [decodeVarint] using h1

/-! ### fixed32 -/

theorem specU32le_eq (b : Bytes) (v : Nat) (h : Spec.Format.u32le b = some v) :
    b.length = 4 ∧ decodeFixed32 b = v := by
  match b, h with
  | [a, b, c, d], h =>
    simp only [u32le, Option.some.injEq] at h
    refine ⟨rfl, ?_⟩
    have ha : a.toNat < 2 ^ 8 := a.toNat_lt
    have hb : b.toNat < 2 ^ 8 := b.toNat_lt
    have hc : c.toNat < 2 ^ 8 := c.toNat_lt
    have hd : d.toNat < 2 ^ 8 := d.toNat_lt
    have e1 : a.toNat ||| b.toNat <<< 8 = a.toNat + b.toNat * 2 ^ 8 := by
      rw [Nat.shiftLeft_eq, or_mul_two_pow _ _ _ ha]
    have e2 : a.toNat + b.toNat * 2 ^ 8 ||| c.toNat <<< 16
        = a.toNat + b.toNat * 2 ^ 8 + c.toNat * 2 ^ 16 := by
      rw [Nat.shiftLeft_eq, or_mul_two_pow _ _ _ (by omega)]
    have e3 : a.toNat + b.toNat * 2 ^ 8 + c.toNat * 2 ^ 16 ||| d.toNat <<< 24
        = a.toNat + b.toNat * 2 ^ 8 + c.toNat * 2 ^ 16 + d.toNat * 2 ^ 24 := by
      rw [Nat.shiftLeft_eq, or_mul_two_pow _ _ _ (by omega)]
    rw [e1, e2, e3] at h
    simp only [decodeFixed32]
    omega

/-! ### list helpers -/

theorem take_drop_take (b : Bytes) (roff p k : Nat) (h : p + k ≤ roff) :
    ((b.take roff).drop p).take k = (b.drop p).take k := by
  rw [List.drop_take, List.take_take, Nat.min_eq_left (by omega)]

theorem pairwise_of_adjacent (xs : List Nat)
    (h : ∀ p ∈ xs.zip xs.tail, p.1 < p.2) : xs.Pairwise (· < ·) := by
  induction xs with
  | nil => exact List.Pairwise.nil
  | cons a xs ih =>
    cases xs with
    | nil => simp
    | cons c cs =>
      have hc : (c :: cs).Pairwise (· < ·) := by
        apply ih
        intro p hp
        apply h
        simp only [List.tail_cons, List.zip_cons_cons, List.mem_cons]
        exact Or.inr hp
      have hac : a < c := h (a, c) (by simp)
      rw [List.pairwise_cons]
      refine ⟨?_, hc⟩
      intro y hy
      rcases List.mem_cons.1 hy with rfl | hy
      · exact hac
      · exact Nat.lt_trans hac ((List.pairwise_cons.1 hc).1 y hy)

/-! ### the restart array -/

theorem specU32list (bs : Bytes) : ∀ xs, u32list bs = some xs →
    bs.length = 4 * xs.length ∧
      ∀ i, (h : i < xs.length) → decodeFixed32 ((bs.drop (4 * i)).take 4) = xs[i] := by
  fun_induction u32list bs with
  | case1 => intro xs h; simp at h; subst h; simp
  | case2 a b c d rest ih =>
    intro xs h
    cases hx : u32le [a, b, c, d] with
    | none => simp [hx] at h
    | some x =>
      cases hr : u32list rest with
      | none => simp [hx, hr] at h
      | some ys =>
        simp [hx, hr] at h
        subst h
        obtain ⟨hl, hi⟩ := ih ys hr
        refine ⟨by simp only [List.length_cons]; omega, ?_⟩
        intro i h
        cases i with
        | zero => exact (specU32le_eq _ _ hx).2
        | succ i =>
          have : 4 * (i + 1) = (4 * i) + 4 := by omega
          rw [this]
          simp only [List.drop_succ_cons, List.getElem_cons_succ]
          exact hi i (by simpa using h)
  | case3 bs h1 h2 => intro xs h; simp at h

/-! ### entry headers -/

/-- decoding from a truncated input decodes the same from the whole input -/
theorem decodeVarint_of_take_spec (bs : Bytes) (k v l : Nat)
    (h : decodeVarint (bs.take k) = some (v, l)) : decodeVarint bs = some (v, l) := by
  have hl := (decodeVarint_some_len _ _ _ h).2.2.1
  have hk : l ≤ k := by rw [List.length_take] at hl; omega
  have := decodeVarint_prefix _ _ _ h (bs.drop l)
  rwa [List.take_take, Nat.min_eq_left hk, List.take_append_drop] at this

/-- a Spec varint read from a truncated input, as the model's read from the whole input -/
theorem specVarint_take (bs : Bytes) (m v : Nat) (rest : Bytes)
    (h : varint (bs.take m) 0 0 = some (v, rest)) (hv : v < 2 ^ 64) :
    ∃ l, decodeVarint bs = some (v, l) ∧ rest = (bs.drop l).take (m - l) ∧ l ≤ m ∧ l ≤ bs.length := by
  obtain ⟨l, hd, hr, hl⟩ := specVarint_eq _ _ _ h hv
  rw [List.length_take] at hl
  refine ⟨l, decodeVarint_of_take_spec _ _ _ _ hd, ?_, by omega, by omega⟩
  rw [hr, List.drop_take]

theorem specHeader (bs : Bytes) (m s ns vl : Nat) (r1 r2 r3 : Bytes)
    (h1 : varint (bs.take m) 0 0 = some (s, r1)) (h2 : varint r1 0 0 = some (ns, r2))
    (h3 : varint r2 0 0 = some (vl, r3)) (hs : s < 2 ^ 64) (hns : ns < 2 ^ 64) (hvl : vl < 2 ^ 64) :
    ∃ hl, Block.parseHeader bs = some (s, ns, vl, hl) ∧ r3 = (bs.drop hl).take (m - hl)
      ∧ hl ≤ m ∧ hl ≤ bs.length := by
  obtain ⟨l1, d1, e1, b1, c1⟩ := specVarint_take _ _ _ _ h1 hs
  subst e1
  obtain ⟨l2, d2, e2, b2, c2⟩ := specVarint_take _ _ _ _ h2 hns
  subst e2
  obtain ⟨l3, d3, e3, b3, c3⟩ := specVarint_take _ _ _ _ h3 hvl
  subst e3
  rw [List.drop_drop] at d3
  simp only [List.length_drop] at c2 c3
  refine ⟨l1 + l2 + l3, ?_, ?_, by omega, by omega⟩
  · simp [Block.parseHeader, d1, d2, d3]
  · have e : l1 + (l2 + l3) = l1 + l2 + l3 := by omega
    have e2 : m - l1 - l2 - l3 = m - (l1 + l2 + l3) := by omega
    rw [List.drop_drop, List.drop_drop, e, e2]

theorem entries_succ_some (body : Bytes) (pos : Nat) (prev : Bytes) (fuel : Nat)
    (out : List (Spec.Entry × Nat × Nat)) (h : entries body pos prev (fuel + 1) = some out)
    (hne : body ≠ []) :
    ∃ s r1 ns r2 vl r3 tail, varint body 0 0 = some (s, r1) ∧ varint r1 0 0 = some (ns, r2)
      ∧ varint r2 0 0 = some (vl, r3) ∧ s ≤ prev.length ∧ ns + vl ≤ r3.length
      ∧ entries (r3.drop (ns + vl)) (pos + (body.length - (r3.drop (ns + vl)).length))
          (prev.take s ++ r3.take ns) fuel = some tail
      ∧ out = ((prev.take s ++ r3.take ns, (r3.drop ns).take vl), pos, s) :: tail := by
  rw [entries] at h
  have hemp : body.isEmpty = false := by cases body <;> simp_all
  rw [hemp] at h
  simp only [Bool.false_eq_true, if_false] at h
  cases h1 : varint body 0 0 with
  | none => simp [h1] at h
  | some p1 =>
    obtain ⟨s, r1⟩ := p1
    cases h2 : varint r1 0 0 with
    | none => simp [h1, h2] at h
    | some p2 =>
      obtain ⟨ns, r2⟩ := p2
      cases h3 : varint r2 0 0 with
      | none => simp [h1, h2, h3] at h
      | some p3 =>
        obtain ⟨vl, r3⟩ := p3
        simp only [h1, h2, h3, Option.bind_eq_bind, Option.bind_some] at h
        by_cases hc : s > prev.length ∨ ns + vl > r3.length
        · rw [if_pos hc] at h; simp at h
        · rw [if_neg hc] at h
          cases ht : entries (r3.drop (ns + vl)) (pos + (body.length - (r3.drop (ns + vl)).length))
              (prev.take s ++ r3.take ns) fuel with
          | none => rw [ht] at h; simp at h
          | some tail =>
            rw [ht] at h
            simp only [Option.bind_some, Option.pure_def, Option.some.injEq] at h
            exact ⟨s, r1, ns, r2, vl, r3, tail, rfl, h2, h3, by omega, by omega, ht, h.symm⟩

/-! ### the entry chain -/

theorem varint_rest_length (bs : Bytes) : ∀ (shift n v : Nat) (rest : Bytes),
    varint bs shift n = some (v, rest) → rest.length < bs.length := by
  induction bs with
  | nil => intro shift n v rest h; simp [varint] at h
  | cons b bs ih =>
    intro shift n v rest h
    rw [varint_cons] at h
    split at h
    · simp at h
    · split at h
      · simp only [Option.some.injEq, Prod.mk.injEq] at h
        rw [← h.2]; simp
      · cases hrec : varint bs (shift + 7) (n + 1) with
        | none => rw [hrec] at h; simp at h
        | some p =>
          obtain ⟨v', r'⟩ := p
          rw [hrec] at h
          simp only [Option.map_some, Option.some.injEq, Prod.mk.injEq] at h
          have := ih _ _ _ _ hrec
          rw [← h.2]
          simp only [List.length_cons]; omega

/-- what the Spec entry parser reports for a parsed entry -/
def specOut (b : Bytes) (e : EInfo) : Spec.Entry × Nat × Nat :=
  ((e.key, (b.drop e.valOff).take e.valLen), e.off, e.shared)

theorem entries_chain (b : Bytes) (roff : Nat) (hr : roff ≤ b.length) (hlen : b.length < 2 ^ 64) :
    ∀ (fuel pos : Nat) (prev : Bytes) (out : List (Spec.Entry × Nat × Nat)),
      pos ≤ roff → prev.length ≤ pos →
      entries ((b.take roff).drop pos) pos prev fuel = some out →
      ∃ es, Chain b roff prev pos es ∧ out = es.map (specOut b) := by
  intro fuel
  induction fuel with
  | zero => intro pos prev out _ _ h; simp [entries] at h
  | succ fuel ih =>
    intro pos prev out hpos hprev h
    have hbl : ((b.take roff).drop pos).length = roff - pos := by
      rw [List.length_drop, List.length_take, Nat.min_eq_left hr]
    by_cases hp : pos = roff
    · have hnil : (b.take roff).drop pos = [] := List.eq_nil_of_length_eq_zero (by omega)
      rw [hnil, entries] at h
      simp at h
      exact ⟨[], hp, by simp [h]⟩
    · have hne : (b.take roff).drop pos ≠ [] := by
        intro hh; rw [hh] at hbl; simp at hbl; omega
      obtain ⟨s, r1, ns, r2, vl, r3, tail, h1, h2, h3, hs, hnv, ht, hout⟩ :=
        entries_succ_some _ _ _ _ _ h hne
      have l1 := varint_rest_length _ _ _ _ _ h1
      have l2 := varint_rest_length _ _ _ _ _ h2
      have l3 := varint_rest_length _ _ _ _ _ h3
      rw [List.drop_take] at h1
      obtain ⟨hl, hph, hr3, hlm, _⟩ := specHeader (b.drop pos) (roff - pos) s ns vl r1 r2 r3 h1 h2 h3
        (by omega) (by omega) (by omega)
      -- the remaining input after the header, as a slice of the body
      have hr3' : r3 = (b.take roff).drop (pos + hl) := by
        rw [hr3, List.drop_drop, List.drop_take]
        congr 1; omega
      have hr3len : r3.length = roff - (pos + hl) := by
        rw [hr3', List.length_drop, List.length_take, Nat.min_eq_left hr]
      have hkey : r3.take ns = (b.drop (pos + hl)).take ns := by
        rw [hr3', take_drop_take _ _ _ _ (by omega)]
      have hval : (r3.drop ns).take vl = (b.drop (pos + hl + ns)).take vl := by
        rw [hr3', List.drop_drop, take_drop_take _ _ _ _ (by omega)]
      have hrest : r3.drop (ns + vl) = (b.take roff).drop (pos + hl + ns + vl) := by
        rw [hr3', List.drop_drop]; congr 1; omega
      have hused : pos + (((b.take roff).drop pos).length - (r3.drop (ns + vl)).length)
          = pos + hl + ns + vl := by
        rw [hbl, List.length_drop, hr3len]; omega
      rw [hused, hrest, hkey] at ht
      let e : EInfo := { off := pos, shared := s, nonShared := ns, valLen := vl, headLen := hl,
                         key := prev.take s ++ (b.drop (pos + hl)).take ns }
      have hklen : e.key.length ≤ pos + hl + ns + vl := by
        show (prev.take s ++ (b.drop (pos + hl)).take ns).length ≤ _
        rw [List.length_append, List.length_take, List.length_take]
        omega
      obtain ⟨es, hch, htail⟩ := ih (pos + hl + ns + vl) e.key tail (by omega) hklen ht
      refine ⟨e :: es, ⟨rfl, by omega, hph, hs, ?_, rfl, hch⟩, ?_⟩
      · show pos + hl + ns + vl ≤ roff
        omega
      · rw [hout, htail, List.map_cons, hkey, hval]
        rfl

/-! ### blocks -/

theorem parseBlock_some (b : Bytes) (info : BlockInfo) (h : parseBlock b = some info) :
    ∃ n rs out, 4 ≤ b.length ∧ u32le (b.drop (b.length - 4)) = some n ∧ n ≠ 0 ∧ 4 * n + 4 ≤ b.length
      ∧ u32list ((b.drop (b.length - 4 - 4 * n)).take (4 * n)) = some rs
      ∧ entries (b.take (b.length - 4 - 4 * n)) 0 [] (b.length - 4 - 4 * n + 1) = some out
      ∧ rs.head? = some 0
      ∧ (∀ r ∈ rs, (∃ o ∈ out, o.2.1 = r ∧ o.2.2 = 0) ∨ (out = [] ∧ r = 0))
      ∧ (∀ p ∈ rs.zip rs.tail, p.1 < p.2)
      ∧ info = { entries := out.map (·.1), restarts := rs } := by
  unfold parseBlock at h
  by_cases h4 : b.length < 4
  · simp [h4] at h
  cases hn : u32le (b.drop (b.length - 4)) with
  | none => simp [h4, hn] at h
  | some n =>
    by_cases hc : n = 0 ∨ 4 * n + 4 > b.length
    · simp [h4, hn, hc] at h
    cases hrs : u32list ((b.drop (b.length - 4 - 4 * n)).take (4 * n)) with
    | none => simp [h4, hn, hc, hrs] at h
    | some rs =>
      cases hes : entries (b.take (b.length - 4 - 4 * n)) 0 [] (b.length - 4 - 4 * n + 1) with
      | none => simp [h4, hn, hc, hrs, hes] at h
      | some out =>
        simp [h4, hn, hc, hrs, hes] at h
        obtain ⟨hh, hok, hz, hinfo⟩ := h
        refine ⟨n, rs, out, by omega, rfl, by omega, by omega, hrs, hes, hh, ?_, ?_, hinfo.symm⟩
        · intro r hr
          by_cases hex : ∃ o ∈ out, o.2.1 = r ∧ o.2.2 = 0
          · exact Or.inl hex
          · refine Or.inr (hok r hr ?_)
            intro k v hm
            exact hex ⟨_, hm, rfl, rfl⟩
        · intro p hp
          exact hz p.1 p.2 hp

theorem parseBlock_wf (b : Bytes) (info : Spec.Format.BlockInfo) (hlen : b.length < 2^64)
    (h : Spec.Format.parseBlock b = some info) :
    ∃ es, BlockWF b es info.restarts ∧ kvOf b es = info.entries := by
  obtain ⟨n, rs, out, h4, hn, hn0, hfit, hrs, hes, hhead, hok, hz, hinfo⟩ := parseBlock_some b info h
  subst hinfo
  show ∃ es, BlockWF b es rs ∧ kvOf b es = out.map (·.1)
  obtain ⟨_, hcount⟩ := specU32le_eq _ _ hn
  obtain ⟨hrl, hri⟩ := specU32list _ _ hrs
  have hnl : rs.length = n := by
    rw [List.length_take, List.length_drop] at hrl
    omega
  subst hnl
  have hroff : b.length - 4 - 4 * rs.length ≤ b.length := by omega
  obtain ⟨es, hch, hout⟩ := entries_chain b _ hroff hlen _ 0 [] out (Nat.zero_le _) (Nat.le_refl _)
    (by rw [List.drop_zero]; exact hes)
  refine ⟨es, ⟨by omega, by omega, hfit, hcount, ?_, hch, ?_, pairwise_of_adjacent _ hz, ?_⟩, ?_⟩
  · intro i hi
    have := hri i hi
    rw [take_drop_take _ _ _ _ (by omega), List.drop_drop] at this
    unfold fixed32At slice?
    rw [if_pos ⟨by omega, by omega⟩]
    have e : b.length - 4 - 4 * rs.length + 4 * i + 4 - (b.length - 4 - 4 * rs.length + 4 * i) = 4 := by
      omega
    rw [e, Option.map_some, this]
  · rw [← hhead, List.head?_eq_getElem?]
  · intro r hr
    rcases hok r hr with ⟨o, ho, h1, h2⟩ | ⟨hnil, h0⟩
    · rw [hout, List.mem_map] at ho
      obtain ⟨e, he, rfl⟩ := ho
      exact Or.inl ⟨e, he, h1, h2⟩
    · refine Or.inr ⟨?_, h0⟩
      rw [hout] at hnil
      exact List.map_eq_nil_iff.1 hnil
  · rw [hout, List.map_map]
    rfl
end Sst

#print axioms Sst.specVarint_eq
#print axioms Sst.specU32le_eq
#print axioms Sst.parseBlock_wf
