import SstModel.Lemmas.FaultySeek
/-
  C07 at table level with SEVERAL damaged data blocks: `DamagedSet p t ds img'` generalises `Damaged` from
  one block `d0` to a list `ds` of data blocks. Open is unaffected, lookups routed to a damaged block get
  `Corruption` and all others are exact, scans return exactly the entries of the blocks outside `ds`, every
  iterator call keeps simulating a stored position. `damagedSet_add_window` builds `DamagedSet` one altered
  ≤ 4-byte window at a time.
-/
namespace Sst
set_option linter.unusedSectionVars false

/-- the regions `Table::new` reads are unchanged in `img'`: same length, same footer slice, same buffers
    for the index block, the metaindex block and the filter block recorded under the policy's name -/
structure MetaIntact (p : FilterPolicy) (t : TableImg) (img' : Bytes) : Prop where
  len : img'.length = t.img.length
  footer : img'.drop (img'.length - 48) = t.img.drop (t.img.length - 48)
  index : cleanBuf img' t.indexHandle.offset (t.indexHandle.size + 5)
            = cleanBuf t.img t.indexHandle.offset (t.indexHandle.size + 5)
  metaix : cleanBuf img' t.metaHandle.offset (t.metaHandle.size + 5)
            = cleanBuf t.img t.metaHandle.offset (t.metaHandle.size + 5)
  filter : ∀ v fh n, (Table.filterName p, v) ∈ t.metaix.kvs → BlockHandle.tryDecode v = some (fh, n) →
            cleanBuf img' fh.offset (fh.size + 5) = cleanBuf t.img fh.offset (fh.size + 5)

/-- `img'` is the image of `t` with the stored bytes of the data blocks `ds` altered: metadata regions
    intact, every data block outside `ds` unchanged, every block of `ds` no longer verifies -/
structure DamagedSet (p : FilterPolicy) (t : TableImg) (ds : List DBlock) (img' : Bytes) : Prop
    extends MetaIntact p t img' where
  sub : ∀ d ∈ ds, d ∈ t.blocks
  data : ∀ d ∈ t.blocks, d ∉ ds →
            cleanBuf img' d.handle.offset (d.handle.size + 5) = cleanBuf t.img d.handle.offset (d.handle.size + 5)
  bad : ∀ d ∈ ds, blockAt img' d.handle = .err .corruption

/-- the cache holds, under this table's id, only true contents of data blocks outside `ds` -/
def CoherentButSet (w : World) (cacheId : Nat) (t : TableImg) (ds : List DBlock) : Prop :=
  ∀ off c, ((cacheId, off), c) ∈ w.cache.entries →
    ∃ d ∈ t.blocks, d ∉ ds ∧ d.handle.offset % 2 ^ 64 = off ∧ d.blk.contents = c

namespace FT
open TI Spec TwoLevel

open Classical in
/-- the data blocks outside `ds`, in table order -/
noncomputable def intactBlocks (t : TableImg) (ds : List DBlock) : List DBlock :=
  t.blocks.filter (fun d => decide (d ∉ ds))

theorem mem_intactBlocks {t : TableImg} {ds : List DBlock} {d : DBlock} :
    d ∈ intactBlocks t ds ↔ d ∈ t.blocks ∧ d ∉ ds := by
  unfold intactBlocks
  simp

theorem intactBlocks_sublist (t : TableImg) (ds : List DBlock) : (intactBlocks t ds).Sublist t.blocks :=
  List.filter_sublist

/-- one damaged block: a `Damaged` image is a `DamagedSet` image -/
theorem damagedSet_of_damaged {p : FilterPolicy} {t : TableImg} {d0 : DBlock} {img' : Bytes}
    (h : Damaged p t d0 img') : DamagedSet p t [d0] img' where
  len := h.len
  footer := h.footer
  index := h.index
  metaix := h.metaix
  filter := h.filter
  sub := by intro d hd; rw [List.mem_singleton.mp hd]; exact h.mem
  data := by intro d hd hn; exact h.data d hd (fun e => hn (by rw [e]; exact List.mem_singleton.mpr rfl))
  bad := by intro d hd; rw [List.mem_singleton.mp hd]; exact h.bad

/-- … and conversely -/
theorem damaged_of_damagedSet {p : FilterPolicy} {t : TableImg} {d0 : DBlock} {img' : Bytes}
    (h : DamagedSet p t [d0] img') : Damaged p t d0 img' where
  mem := h.sub d0 (List.mem_singleton.mpr rfl)
  len := h.len
  footer := h.footer
  index := h.index
  metaix := h.metaix
  filter := h.filter
  data := by intro d hd hn; exact h.data d hd (fun e => hn (List.mem_singleton.mp e))
  bad := h.bad d0 (List.mem_singleton.mpr rfl)

/-- nothing damaged: the image itself -/
theorem damagedSet_nil (p : FilterPolicy) (t : TableImg) : DamagedSet p t [] t.img where
  len := rfl
  footer := rfl
  index := rfl
  metaix := rfl
  filter := fun _ _ _ _ _ => rfl
  sub := by intro d hd; cases hd
  data := fun _ _ _ => rfl
  bad := by intro d hd; cases hd

section
variable (cmp : Cmp) (hc : cmp.Lawful) (p : FilterPolicy) (t : TableImg) (hwf : t.WF cmp)
  (fv : Option Bytes) (img' : Bytes) (hmi : MetaIntact p t img')
include hc hwf hmi

/-- `Table::read_filter_block` on an image whose metadata regions are intact: as on the intact one -/
theorem readFilterBlock_intact (hfv : FilterView p t fv) (w : World) (file : Nat)
    (hcw : CleanWorld w file img') :
    ∃ w' r, Table.readFilterBlock t.metaix.contents file img'.length ⟨cmp, p⟩ w = (w', .ok r)
      ∧ FiltersOK fv r
      ∧ CleanWorld w' file img' ∧ w'.cache = w.cache ∧ w'.files = w.files ∧ w'.events = w.events := by
  obtain ⟨it, it', hit, hseek, hcur⟩ :=
    metaix_lookup cmp hc t.metaix hwf.metaWF hwf.metaSorted (Table.filterName p)
  unfold Table.readFilterBlock
  simp only [bind, M.bind', M.lift, curKV, hit, hseek, hcur]
  cases hfv with
  | absent h =>
    have hne := entryAt_lowerBound_of_not_mem cmp t.metaix.kvs (Table.filterName p) h
    cases he : Spec.entryAt t.metaix.kvs (Spec.lowerBound cmp t.metaix.kvs (Table.filterName p)) with
    | none => exact ⟨w, none, rfl, rfl, hcw, rfl, rfl, rfl⟩
    | some e =>
      obtain ⟨k, v⟩ := e
      have hk : k ≠ Table.filterName p := hne _ he
      simp only [hk, ne_eq, not_false_eq_true, if_true]
      exact ⟨w, none, rfl, rfl, hcw, rfl, rfl, rfl⟩
  | empty v fh n h hd hz =>
    have he := entryAt_lowerBound_of_mem cmp hc t.metaix.kvs
      (by rw [PBlock.kvs_keys]; exact hwf.metaSorted) _ _ h
    simp only [he, ne_eq, not_true_eq_false, if_false, hd, hz, Nat.lt_irrefl, gt_iff_lt]
    exact ⟨w, none, rfl, rfl, hcw, rfl, rfl, rfl⟩
  | present v fh n fb h hd hz hb hr hw =>
    have he := entryAt_lowerBound_of_mem cmp hc t.metaix.kvs
      (by rw [PBlock.kvs_keys]; exact hwf.metaSorted) _ _ h
    have hr' : blockAt img' fh = .ok fb := by rw [blockAt_congr (hmi.filter v fh n h hd)]; exact hr
    obtain ⟨w', r, hrd, hnew, hc', h1, h2, h3⟩ := readFilterBlock_clean w file img' fh fb hcw hz hr' hw
    have hchk := (checkBlockBounds_iff fh img'.length w).1 (hmi.len ▸ hb)
    simp only [he, ne_eq, not_true_eq_false, if_false, hd, hz, if_true, M.bind', hchk, hrd]
    exact ⟨w', some r, rfl, ⟨r, hnew, rfl⟩, hc', h1, h2, h3⟩

/-- `Table::new` on an image whose metadata regions are intact: succeeds, with the very handle it returns for the intact image -/
theorem open_intact (hfv : FilterView p t fv) (w : World) (file : Nat) (hcw : CleanWorld w file img') :
    ∃ w' tb, Table.new ⟨cmp, p⟩ file img'.length w = (w', .ok tb)
      ∧ Opened tb t cmp p fv ∧ tb.file = file
      ∧ tb.cacheId = (w.cache.nextId + 1) % 2 ^ 64
      ∧ CleanWorld w' file img' ∧ w'.files = w.files
      ∧ w'.cache.entries = w.cache.entries ∧ w'.cache.cap = w.cache.cap
      ∧ w'.cache.nextId = (w.cache.nextId + 1) % 2 ^ 64
      ∧ w'.events = w.events := by
  have hsz : 48 ≤ img'.length := by rw [hmi.len]; exact hwf.size.1
  have hft' : Footer.tryDecode (img'.drop (img'.length - 48)) = some ⟨t.metaHandle, t.indexHandle⟩ := by
    rw [hmi.footer]; exact hwf.footer
  obtain ⟨w1, hft, hc1, hca1, hf1, he1⟩ := readFooter_clean w file img' _ hcw hsz hft'
  have hchk1 := (checkBlockBounds_iff t.indexHandle img'.length w1).1 (hmi.len ▸ hwf.indexBounds)
  have hchk2 := (checkBlockBounds_iff t.metaHandle img'.length w1).1 (hmi.len ▸ hwf.metaBounds)
  obtain ⟨w2, hix, hc2, hca2, hf2, he2⟩ := readTableBlock_clean w1 file img' t.indexHandle hc1
  rw [tableBlockAt_congr hmi.index, hwf.indexRead] at hix
  obtain ⟨w3, hmx, hc3, hca3, hf3, he3⟩ := readTableBlock_clean w2 file img' t.metaHandle hc2
  rw [tableBlockAt_congr hmi.metaix, hwf.metaRead] at hmx
  obtain ⟨w4, r, hfl, hfok, hc4, hca4, hf4, he4⟩ :=
    readFilterBlock_intact cmp hc p t hwf fv img' hmi hfv w3 file hc3
  unfold Table.new
  simp only [bind, M.bind', hft, hchk1, hchk2, hix, hmx, hfl, LruCache.newCacheId, pure, M.pure']
  refine ⟨_, _, rfl, ⟨hmi.len, rfl, rfl, rfl, ?_⟩, rfl, ?_, ⟨hc4.file, hc4.sched⟩, ?_, ?_, ?_, ?_, ?_⟩
  · unfold FiltersOK at hfok
    cases fv with
    | none => exact hfok
    | some fb => exact hfok
  · show (w4.cache.nextId + 1) % 2 ^ 64 = _
    rw [hca4, hca3, hca2, hca1]
  · show w4.files = w.files
    rw [hf4, hf3, hf2, hf1]
  · show w4.cache.entries = _
    rw [hca4, hca3, hca2, hca1]
  · show w4.cache.cap = _
    rw [hca4, hca3, hca2, hca1]
  · show (w4.cache.nextId + 1) % 2 ^ 64 = _
    rw [hca4, hca3, hca2, hca1]
  · show w4.events = _
    rw [he4, he3, he2, he1]

end

/-- the world invariant on an image with the blocks `ds` damaged -/
def MDmgInv (t : TableImg) (ds : List DBlock) (img' : Bytes) (tb : Table) (w : World) : Prop :=
  CleanWorld w tb.file img' ∧ CoherentButSet w tb.cacheId t ds

section
variable (cmp : Cmp) (hc : cmp.Lawful) (p : FilterPolicy) (t : TableImg) (hwf : t.WF cmp)
  (fv : Option Bytes) (ds : List DBlock) (img' : Bytes) (hdm : DamagedSet p t ds img')
  (tb : Table) (hop : Opened tb t cmp p fv)
include hc hwf hdm hop

/-- reading (through the cache) a data block outside `ds`: as on the intact image -/
theorem readBlock_mdmg_other (w : World) (hcw : CleanWorld w tb.file img')
    (hcoh : CoherentButSet w tb.cacheId t ds) (d : DBlock) (hd : d ∈ t.blocks) (hne : d ∉ ds) :
    ∃ w', tb.readBlock d.handle w = (w', .ok d.blk.contents)
      ∧ CleanWorld w' tb.file img' ∧ CoherentButSet w' tb.cacheId t ds := by
  have hb : InBounds d.handle tb.fileSize := hop.fileSize ▸ hwf.dataBounds d hd
  have hlt : d.handle.offset < 2 ^ 64 := by have := hb.1; omega
  have hw1c : (afterLookup tb d.handle w).cache = (w.cache.get (tb.cacheId, d.handle.offset % 2 ^ 64)).1 := rfl
  have hclean1 : CleanWorld (afterLookup tb d.handle w) tb.file img' := ⟨hcw.file, hcw.sched⟩
  have hsub1 : ∀ x, x ∈ (afterLookup tb d.handle w).cache.entries → x ∈ w.cache.entries := by
    intro x hx; rw [hw1c] at hx; exact LruCache.mem_get _ _ _ hx
  rw [readBlock_step tb d.handle w hb]
  cases hg : (w.cache.get (tb.cacheId, d.handle.offset % 2 ^ 64)).2 with
  | some b =>
    have hmem := LruCache.get_some_mem _ _ _ hg
    obtain ⟨d', hd', _, ho', hc'⟩ := hcoh _ _ hmem
    have hlt' : d'.handle.offset < 2 ^ 64 := by have := (hwf.dataBounds d' hd').1; omega
    have hoeq : d'.handle.offset = d.handle.offset := by
      rw [Nat.mod_eq_of_lt hlt, Nat.mod_eq_of_lt hlt'] at ho'; exact ho'
    have hbeq : b = d.blk.contents := by
      rw [← hc', hwf.block_of_offset d' hd' d hd hoeq]
    refine ⟨_, by simp only [hbeq], hclean1, ?_⟩
    intro off c hx; exact hcoh off c (hsub1 _ hx)
  | none =>
    obtain ⟨w2, hr, hclean2, hc2, _, _⟩ :=
      readTableBlock_clean (afterLookup tb d.handle w) tb.file img' d.handle hclean1
    rw [tableBlockAt_congr (hdm.data d hd hne), hwf.dataRead d hd] at hr
    simp only [hr]
    refine ⟨_, rfl, ⟨hclean2.file, hclean2.sched⟩, ?_⟩
    intro off c hx
    rcases LruCache.mem_insert _ _ _ _ hx with he | ⟨ho, _⟩
    · simp only [Prod.mk.injEq] at he
      exact ⟨d, hd, hne, he.1.2.symm, he.2.symm⟩
    · rw [hc2] at ho; exact hcoh off c (hsub1 _ ho)

/-- reading a damaged block: `Corruption`, and nothing is cached -/
theorem readBlock_mdmg_bad (w : World) (hcw : CleanWorld w tb.file img')
    (hcoh : CoherentButSet w tb.cacheId t ds) (d0 : DBlock) (hin : d0 ∈ ds) :
    ∃ w', tb.readBlock d0.handle w = (w', .err .corruption)
      ∧ CleanWorld w' tb.file img' ∧ CoherentButSet w' tb.cacheId t ds
      ∧ w'.cache = (w.cache.get (tb.cacheId, d0.handle.offset % 2 ^ 64)).1 := by
  have hd0 := hdm.sub d0 hin
  have hb : InBounds d0.handle tb.fileSize := hop.fileSize ▸ hwf.dataBounds d0 hd0
  have hlt : d0.handle.offset < 2 ^ 64 := by have := hb.1; omega
  have hw1c : (afterLookup tb d0.handle w).cache = (w.cache.get (tb.cacheId, d0.handle.offset % 2 ^ 64)).1 := rfl
  have hclean1 : CleanWorld (afterLookup tb d0.handle w) tb.file img' := ⟨hcw.file, hcw.sched⟩
  have hsub1 : ∀ x, x ∈ (afterLookup tb d0.handle w).cache.entries → x ∈ w.cache.entries := by
    intro x hx; rw [hw1c] at hx; exact LruCache.mem_get _ _ _ hx
  rw [readBlock_step tb d0.handle w hb]
  cases hg : (w.cache.get (tb.cacheId, d0.handle.offset % 2 ^ 64)).2 with
  | some b =>
    have hmem := LruCache.get_some_mem _ _ _ hg
    obtain ⟨d', hd', hne', ho', _⟩ := hcoh _ _ hmem
    have hlt' : d'.handle.offset < 2 ^ 64 := by have := (hwf.dataBounds d' hd').1; omega
    have hoeq : d'.handle.offset = d0.handle.offset := by
      rw [Nat.mod_eq_of_lt hlt, Nat.mod_eq_of_lt hlt'] at ho'; exact ho'
    rw [hwf.block_of_offset d' hd' d0 hd0 hoeq] at hne'
    exact absurd hin hne'
  | none =>
    obtain ⟨w2, hr, hclean2, hc2, _, _⟩ :=
      readTableBlock_clean (afterLookup tb d0.handle w) tb.file img' d0.handle hclean1
    have hbad : tableBlockAt img' d0.handle = .err .corruption := by
      unfold tableBlockAt; rw [hdm.bad d0 hin]
    rw [hbad] at hr
    simp only [hr]
    refine ⟨_, rfl, ⟨hclean2.file, hclean2.sched⟩, ?_, hc2.trans hw1c⟩
    intro off c hx
    rw [hc2] at hx; exact hcoh off c (hsub1 _ hx)

/-- block reads on the multi-damaged image: the true contents or an error, the invariant is kept -/
theorem loadOK_mdmg : LoadOK t tb (MDmgInv t ds img' tb) := by
  intro w hp d hd
  by_cases hin : d ∈ ds
  · obtain ⟨w', hb, h1, h2, _⟩ := readBlock_mdmg_bad cmp hc p t hwf fv ds img' hdm tb hop w hp.1 hp.2 d hin
    rw [hb]
    exact ⟨⟨h1, h2⟩, .inr ⟨_, rfl⟩⟩
  · obtain ⟨w', hb, h1, h2⟩ := readBlock_mdmg_other cmp hc p t hwf fv ds img' hdm tb hop w hp.1 hp.2 d hd hin
    rw [hb]
    exact ⟨⟨h1, h2⟩, .inl rfl⟩

/-- `Table::get` on the multi-damaged image: a key the index routes to a damaged block (and the filter lets
    pass) gets `Corruption`; every other key gets the exact answer of the intact table -/
theorem get_mdmg (hsound : ∀ fb, fv = some fb → FilterSound p t fb)
    (hfwf : ∀ fb, fv = some fb → FilterBlockReader.isWellFormed fb = true)
    (w : World) (hcw : CleanWorld w tb.file img') (hcoh : CoherentButSet w tb.cacheId t ds) (k : Bytes) :
    ∃ w', CleanWorld w' tb.file img' ∧ CoherentButSet w' tb.cacheId t ds
      ∧ ((∃ d ∈ ds, Routed cmp t k d ∧ FilterPasses tb p d k) → tb.get k w = (w', .err .corruption))
      ∧ (¬ (∃ d ∈ ds, Routed cmp t k d ∧ FilterPasses tb p d k) →
            tb.get k w = (w', .ok (Spec.lookup cmp t.entries k))) := by
  have h2 : Spec.lookup cmp t.entries k = _ := TwoLevel.lookup_two_level cmp hc _ _ hwf.ordered k
  rw [get_reduce cmp hc p t hwf fv tb hop w k, h2]
  cases hS : Spec.lowerBound cmp (t.seps.map (fun s => (s, ([] : Bytes)))) k with
  | none =>
    refine ⟨w, hcw, hcoh, ?_, fun _ => rfl⟩
    intro ⟨d, _, ⟨bi, hbi, _⟩, _⟩
    rw [hS] at hbi; cases hbi
  | some bi =>
    obtain ⟨hbi, _, _⟩ := TwoLevel.sep_lowerBound_some cmp t.seps k bi hS
    have hbi' : bi < t.blocks.length := by simpa [TableImg.seps] using hbi
    have hd : t.blocks[bi]? = some t.blocks[bi] := List.getElem?_eq_getElem hbi'
    generalize t.blocks[bi] = d at hd
    have hdm' : d ∈ t.blocks := List.mem_of_getElem? hd
    have hgd : t.kvBlocks.getD bi [] = d.blk.kvs := by
      rw [List.getD_eq_getElem?_getD, t.kvBlocks_getElem?, hd]; rfl
    simp only [hd, hgd]
    have hrouted : ∀ d', Routed cmp t k d' → d' = d := by
      intro d' ⟨bi', h1, h2⟩
      rw [hS] at h1; cases h1
      rw [hd] at h2; exact (Option.some.inj h2).symm
    have hfilt : (tb.getFilt d.handle k w = tb.getTail d.handle k w ∧ FilterPasses tb p d k)
        ∨ (tb.getFilt d.handle k w = (w, .ok none) ∧ Spec.lookup cmp d.blk.kvs k = none
            ∧ ¬ FilterPasses tb p d k) := by
      cases hfl : tb.filters with
      | none =>
        refine .inl ⟨?_, ?_⟩
        · unfold Table.getFilt; rw [hfl]; rfl
        · intro r hr; rw [hfl] at hr; cases hr
      | some r =>
        obtain ⟨fb, hfv, hn⟩ := hop.filter_some hfl
        obtain ⟨b, hb⟩ := keyMayMatch_total p fb r (hfwf fb hfv) hn d.handle.offset k
        have hb' : r.keyMayMatch tb.opt.filter d.handle.offset k = .ok b := by rw [hop.opt]; exact hb
        cases b with
        | true =>
          refine .inl ⟨?_, ?_⟩
          · unfold Table.getFilt; rw [hfl]; simp only [hb']; rfl
          · intro r' hr'; rw [hfl] at hr'; cases hr'; exact hb
        | false =>
          refine .inr ⟨?_, ?_, ?_⟩
          · unfold Table.getFilt; rw [hfl]; simp only [hb']; rfl
          · exact lookup_none_of_rejected cmp hc p t fb (hsound fb hfv) r hn d hdm' k hb
          · intro hpass
            have := hpass r hfl
            rw [hb] at this; cases this
    by_cases hdd : d ∈ ds
    · rcases hfilt with ⟨hge, hpass⟩ | ⟨hge, hnone, hnp⟩
      · obtain ⟨w', hrb, hcw', hcoh', _⟩ :=
          readBlock_mdmg_bad cmp hc p t hwf fv ds img' hdm tb hop w hcw hcoh d hdd
        have hgt : tb.getTail d.handle k w = (w', .err .corruption) := by
          unfold Table.getTail
          exact bind_err hrb
        refine ⟨w', hcw', hcoh', ?_, ?_⟩
        · intro _; rw [hge, hgt]
        · intro hn; exact absurd ⟨d, hdd, ⟨bi, hS, hd⟩, hpass⟩ hn
      · refine ⟨w, hcw, hcoh, ?_, ?_⟩
        · intro ⟨d', _, hr', hpass⟩
          rw [hrouted d' hr'] at hpass
          exact absurd hpass hnp
        · intro _; rw [hge, hnone]
    · have hnr : ¬ (∃ d' ∈ ds, Routed cmp t k d' ∧ FilterPasses tb p d' k) := by
        intro ⟨d', hin, hr, _⟩
        rw [hrouted d' hr] at hin
        exact hdd hin
      rcases hfilt with ⟨hge, _⟩ | ⟨hge, hnone, _⟩
      · obtain ⟨w', hrb, hcw', hcoh'⟩ :=
          readBlock_mdmg_other cmp hc p t hwf fv ds img' hdm tb hop w hcw hcoh d hdm' hdd
        have hgt := getTail_of_read cmp hc p t hwf fv tb hop w w' d hdm' k hrb
        refine ⟨w', hcw', hcoh', ?_, ?_⟩
        · intro h; exact absurd h hnr
        · intro _; rw [hge, hgt]
      · refine ⟨w, hcw, hcoh, ?_, ?_⟩
        · intro h; exact absurd h hnr
        · intro _; rw [hge, hnone]

open Classical in
/-- on the multi-damaged image the reads of a scan fail exactly on the blocks of `ds` -/
theorem scanFrom_mdmg {w w' : World} {bl bs : List DBlock} (h : ScanFrom tb w bl bs w')
    (hbl : ∀ d ∈ bl, d ∈ t.blocks) (hp : MDmgInv t ds img' tb w) :
    MDmgInv t ds img' tb w' ∧ bs = bl.filter (fun d => decide (d ∉ ds)) := by
  induction h with
  | nil w => exact ⟨hp, rfl⟩
  | @keep w w1 w' d bl bs hr hs ih =>
    have hd : d ∈ t.blocks := hbl d List.mem_cons_self
    have hne : d ∉ ds := by
      intro hin
      obtain ⟨w'', hb, _⟩ := readBlock_mdmg_bad cmp hc p t hwf fv ds img' hdm tb hop w hp.1 hp.2 d hin
      rw [hr] at hb
      cases hb
    obtain ⟨w'', hb, hc1, hc2⟩ :=
      readBlock_mdmg_other cmp hc p t hwf fv ds img' hdm tb hop w hp.1 hp.2 d hd hne
    rw [hr] at hb
    cases hb
    obtain ⟨i1, i2⟩ := ih (fun x hx => hbl x (List.mem_cons_of_mem _ hx)) ⟨hc1, hc2⟩
    refine ⟨i1, ?_⟩
    rw [List.filter_cons_of_pos (by simpa using hne), i2]
  | @skip w w1 w' d bl bs c hr hs ih =>
    have hd : d ∈ t.blocks := hbl d List.mem_cons_self
    have hin : d ∈ ds := by
      apply Classical.byContradiction
      intro hne
      obtain ⟨w'', hb, _⟩ :=
        readBlock_mdmg_other cmp hc p t hwf fv ds img' hdm tb hop w hp.1 hp.2 d hd hne
      rw [hr] at hb
      cases hb
    obtain ⟨w'', hb, hc1, hc2, _⟩ := readBlock_mdmg_bad cmp hc p t hwf fv ds img' hdm tb hop w hp.1 hp.2 d hin
    rw [hr] at hb
    cases hb
    obtain ⟨i1, i2⟩ := ih (fun x hx => hbl x (List.mem_cons_of_mem _ hx)) ⟨hc1, hc2⟩
    refine ⟨i1, ?_⟩
    rw [List.filter_cons_of_neg (by simpa using hin), i2]

/-- C07, scans with several damaged blocks: the forward scan of a fresh / reset iterator yields exactly the
    entries of the blocks outside `ds`, in table order, then `none` -/
theorem scan_mdmg (w : World) (hcw : CleanWorld w tb.file img') (hcoh : CoherentButSet w tb.cacheId t ds)
    (it : TableIter) (hs : SimT t tb it none) :
    ∃ w' it', it.run (List.replicate (((intactBlocks t ds).flatMap (·.blk.kvs)).length + 1) .next) w
          = (w', .ok (it', scanOuts (intactBlocks t ds)))
      ∧ CleanWorld w' tb.file img' ∧ CoherentButSet w' tb.cacheId t ds ∧ SimT t tb it' none := by
  obtain ⟨bs, w', it', hscan, _, hsT, hrun⟩ :=
    scan_gen cmp hc p t hwf fv tb hop (MDmgInv t ds img' tb)
      (loadOK_mdmg cmp hc p t hwf fv ds img' hdm tb hop) t.blocks.length t.blocks 0 it w
      (Nat.le_refl _) rfl (.inl ⟨rfl, hs.table, hs.at_.1, hs.at_.2⟩) ⟨hcw, hcoh⟩
  obtain ⟨hp', hbs⟩ :=
    scanFrom_mdmg cmp hc p t hwf fv ds img' hdm tb hop hscan (fun _ h => h) ⟨hcw, hcoh⟩
  have : bs = intactBlocks t ds := hbs
  subst this
  exact ⟨w', it', hrun, hp'.1, hp'.2, hsT⟩

end

/-! ### building a multi-damaged image one window at a time -/

/-- one more damaged block: replacing ≤ 4 consecutive bytes inside the physical block (contents + type
    byte, or checksum field) of a data block `d ∉ ds` of an image in which the blocks `ds` are already
    damaged, every other region the reader uses lying outside the window -/
theorem damagedSet_add_window (cmp : Cmp) (p : FilterPolicy) (t : TableImg) (hwf : t.WF cmp)
    (ds : List DBlock) (pre w w' post : Bytes) (hdm : DamagedSet p t ds (pre ++ w ++ post))
    (d : DBlock) (hd : d ∈ t.blocks) (hnew : d ∉ ds)
    (hlen : w.length = w'.length) (h4 : w.length ≤ 4) (hne : w ≠ w')
    (hin : WindowIn d.handle pre.length w.length)
    (hfoot : pre.length + w.length ≤ t.img.length - 48)
    (hindex : Outside pre.length (pre.length + w.length) t.indexHandle)
    (hmeta : Outside pre.length (pre.length + w.length) t.metaHandle)
    (hfilter : ∀ v fh n, (Table.filterName p, v) ∈ t.metaix.kvs → BlockHandle.tryDecode v = some (fh, n) →
      Outside pre.length (pre.length + w.length) fh)
    (hdata : ∀ d' ∈ t.blocks, d' ≠ d → Outside pre.length (pre.length + w.length) d'.handle) :
    DamagedSet p t (d :: ds) (pre ++ w' ++ post) := by
  have hl : (pre ++ w' ++ post).length = (pre ++ w ++ post).length := by
    simp only [List.length_append]; omega
  have hcb : ∀ h, Outside pre.length (pre.length + w.length) h →
      cleanBuf (pre ++ w' ++ post) h.offset (h.size + 5) = cleanBuf (pre ++ w ++ post) h.offset (h.size + 5) :=
    fun h ho => cleanBuf_outside_window pre w w' post hlen _ _ ho
  refine
    { len := hl.trans hdm.len
      footer := ?_
      index := (hcb _ hindex).trans hdm.index
      metaix := (hcb _ hmeta).trans hdm.metaix
      filter := fun v fh n h1 h2 => (hcb _ (hfilter v fh n h1 h2)).trans (hdm.filter v fh n h1 h2)
      sub := ?_
      data := ?_
      bad := ?_ }
  · rw [hl, ← hdm.footer, hdm.len]
    exact drop_outside_window pre w w' post hlen _ hfoot
  · intro x hx
    rcases List.mem_cons.mp hx with rfl | hx
    · exact hd
    · exact hdm.sub x hx
  · intro x hx hn
    have hxd : x ≠ d := fun e => hn (by rw [e]; exact List.mem_cons_self)
    have hxs : x ∉ ds := fun e => hn (List.mem_cons_of_mem _ e)
    exact (hcb _ (hdata x hx hxd)).trans (hdm.data x hx hxs)
  · intro x hx
    rcases List.mem_cons.mp hx with rfl | hx
    · -- the newly damaged block: it still verified before this window was altered
      have hok : blockAt (pre ++ w ++ post) x.handle = .ok x.blk.contents := by
        rw [blockAt_congr (hdm.data x hd hnew)]
        exact (blockAt_of_tableBlockAt (hwf.dataRead x hd)).1
      have hb := (hwf.dataBounds x hd).2
      simp only [Consts.tableBlockCksumLen, Consts.tableBlockCompressLen] at hb
      rw [← hdm.len] at hb
      exact blockAt_altered_any pre w w' post _ _ hlen h4 hne hin (by omega) hok
    · -- an already damaged block stays damaged: its bytes are outside the window
      have hxd : x ≠ d := fun e => hnew (e ▸ hx)
      rw [blockAt_congr (hcb _ (hdata x (hdm.sub x hx) hxd))]
      exact hdm.bad x hx

end FT
end Sst

#print axioms Sst.FT.open_intact
#print axioms Sst.FT.get_mdmg
#print axioms Sst.FT.scan_mdmg
#print axioms Sst.FT.damagedSet_add_window
