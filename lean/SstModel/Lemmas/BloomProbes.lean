import SstModel.Lemmas.Bloom
/-
  The probes of the bloom filter: `create_filter` sets, for each key, exactly the bit positions that
  `key_may_match` tests for that key (the double-hashing sequence of `bloom_hash`), and nothing else.
  Consequently a created filter passes a key iff every probe position of the key is a probe position of
  some member key. (How often that happens for a non-member is a property of the hash, measured by the
  harness.)
-/
namespace Sst.Bloom

/-- the bit positions probed in a `bits`-bit array from hash `h` with increment `d`, `k` probes: the
    loop variable runs `h, h+d, h+2d, …` in `u32` arithmetic, the position is the variable `% bits` -/
def probePositions (bits d : Nat) : Nat → Nat → List Nat
  | 0, _ => []
  | k + 1, h => h % bits :: probePositions bits d k (u32 (h + d))

/-- the probe positions of a key: start `bloom_hash(key)`, increment `delta = rotate_right(h, 17)` -/
def keyProbes (bits k : Nat) (key : Bytes) : List Nat :=
  probePositions bits (delta (bloomHash key)) k (bloomHash key)

/-- the number of bytes of the bit array `create_filter` allocates -/
def nbytesOf (bitsPerKey : Nat) (keys : List Bytes) : Nat :=
  if keys.length * bitsPerKey < Consts.bloomMinBits then 8 else (keys.length * bitsPerKey + 7) / 8

theorem probePositions_length (bits d : Nat) : ∀ (k h : Nat), (probePositions bits d k h).length = k
  | 0, _ => rfl
  | k + 1, h => by
    show (probePositions bits d k _).length + 1 = k + 1
    rw [probePositions_length bits d k]

theorem probePositions_lt (bits d : Nat) (hbits : 0 < bits) :
    ∀ (k h q : Nat), q ∈ probePositions bits d k h → q < bits
  | 0, _, _, hq => by cases hq
  | k + 1, h, q, hq => by
    rcases List.mem_cons.mp hq with rfl | hq
    · exact Nat.mod_lt _ hbits
    · exact probePositions_lt bits d hbits k _ q hq

/-- closed form: the `i`-th probe is at `(h + i·d) mod 2^32 mod bits` -/
theorem probePositions_closed (bits d : Nat) : ∀ (k h : Nat), h < 4294967296 →
    probePositions bits d k h = (List.range k).map (fun i => u32 (h + i * d) % bits)
  | 0, _, _ => rfl
  | k + 1, h, hh => by
    have ih := probePositions_closed bits d k (u32 (h + d)) (Nat.mod_lt _ (by decide))
    show h % bits :: probePositions bits d k (u32 (h + d)) = _
    rw [ih, List.range_succ_eq_map, List.map_cons, List.map_map]
    congr 1
    · show h % bits = u32 (h + 0 * d) % bits
      unfold u32; rw [Nat.zero_mul, Nat.add_zero, Nat.mod_eq_of_lt hh]
    · apply List.map_congr_left
      intro i _
      show u32 (u32 (h + d) + i * d) % bits = u32 (h + (i + 1) * d) % bits
      congr 1
      unfold u32
      rw [Nat.succ_mul]
      generalize i * d = x
      omega

/-- `key_may_match`'s loop tests exactly the probe positions -/
theorem checkProbes_eq_all (bits d : Nat) (f : Bytes) : ∀ (k h : Nat),
    checkProbes bits d f k h = (probePositions bits d k h).all (testBit f)
  | 0, _ => rfl
  | k + 1, h => by
    show (if testBit f (h % bits) then checkProbes bits d f k (u32 (h + d)) else false) = _
    rw [checkProbes_eq_all bits d f k]
    show _ = (testBit f (h % bits) && (probePositions bits d k (u32 (h + d))).all (testBit f))
    cases testBit f (h % bits) <;> rfl

/-- `set_bit` sets bit `p` and no other -/
theorem testBit_setBit_iff (f : Bytes) (p q : Nat) (h : p / 8 < f.length) :
    testBit (setBit f p) q = true ↔ (testBit f q = true ∨ q = p) := by
  constructor
  · intro hq
    rw [testBit_iff] at hq
    rw [testBit_iff]
    unfold setBit at hq
    rw [List.getD_eq_getElem?_getD, List.getElem?_set] at hq
    by_cases hpq : p / 8 = q / 8
    · simp only [hpq, if_true] at hq
      rw [hpq] at h
      simp only [h, if_true, Option.getD_some] at hq
      rw [toNat_or_two_pow _ _ (Nat.mod_lt _ (by decide)), Nat.testBit_or, Nat.testBit_two_pow,
        Bool.or_eq_true, decide_eq_true_iff] at hq
      rcases hq with hq | hq
      · exact .inl hq
      · right; omega
    · simp only [hpq, if_false] at hq
      rw [← List.getD_eq_getElem?_getD] at hq
      exact .inl hq
  · rintro (hq | rfl)
    · exact testBit_setBit_mono f p q hq
    · exact testBit_setBit_self f q h

/-- the probe loop of `create_filter` sets exactly the probe positions -/
theorem testBit_addProbes_iff (bits d : Nat) (hbits : 0 < bits) : ∀ (k h : Nat) (f : Bytes),
    bits ≤ 8 * f.length → ∀ q,
      (testBit (addProbes bits d k h f) q = true ↔ (testBit f q = true ∨ q ∈ probePositions bits d k h))
  | 0, _, _, _, q => by simp [addProbes, probePositions]
  | k + 1, h, f, hlen, q => by
    have hlt : h % bits < bits := Nat.mod_lt _ hbits
    show testBit (addProbes bits d k _ (setBit f _)) q = true ↔
      (testBit f q = true ∨ q ∈ h % bits :: probePositions bits d k (u32 (h + d)))
    rw [testBit_addProbes_iff bits d hbits k _ (setBit f (h % bits)) (by rw [setBit_length]; exact hlen) q,
      testBit_setBit_iff f _ q (by omega), List.mem_cons, or_assoc]

theorem testBit_foldl_addKey_iff (bits k : Nat) (hbits : 0 < bits) : ∀ (keys : List Bytes) (f : Bytes),
    bits ≤ 8 * f.length → ∀ q,
      (testBit (keys.foldl (addKey bits k) f) q = true ↔
        (testBit f q = true ∨ ∃ key ∈ keys, q ∈ keyProbes bits k key))
  | [], _, _, q => by simp
  | key :: keys, f, hlen, q => by
    rw [List.foldl_cons,
      testBit_foldl_addKey_iff bits k hbits keys _ (by rw [addKey_length]; exact hlen) q]
    show (testBit (addProbes bits (delta (bloomHash key)) k (bloomHash key) f) q = true ∨ _) ↔ _
    rw [testBit_addProbes_iff bits _ hbits k _ f hlen q]
    simp only [List.mem_cons, exists_eq_or_imp, or_assoc]
    rfl

theorem testBit_replicate_zero (n q : Nat) : testBit (List.replicate n 0) q = false := by
  cases h : testBit (List.replicate n 0) q with
  | false => rfl
  | true =>
    rw [testBit_iff, List.getD_eq_getElem?_getD, List.getElem?_replicate] at h
    split at h <;> simp at h

theorem nbytesOf_ge (bitsPerKey : Nat) (keys : List Bytes) : 8 ≤ nbytesOf bitsPerKey keys := by
  unfold nbytesOf
  have e1 : Consts.bloomMinBits = 64 := rfl
  split <;> omega

/-- the shape of a created filter: a bit array of `nbytesOf` bytes, then the byte `k` -/
theorem createFilter_eq (bitsPerKey : Nat) (keys : List Bytes) (hfit : FitsBits bitsPerKey keys) :
    createFilter bitsPerKey keys =
      keys.foldl (addKey (nbytesOf bitsPerKey keys * 8) (kOf bitsPerKey))
        (List.replicate (nbytesOf bitsPerKey keys) 0) ++ [UInt8.ofNat (kOf bitsPerKey)] := by
  have hu : (nbytesOf bitsPerKey keys * 8) % 2 ^ Consts.bloomBitsWidth = nbytesOf bitsPerKey keys * 8 :=
    Nat.mod_eq_of_lt hfit
  unfold createFilter
  show keys.foldl (addKey ((nbytesOf bitsPerKey keys * 8) % 2 ^ Consts.bloomBitsWidth) (kOf bitsPerKey))
    (List.replicate (nbytesOf bitsPerKey keys) 0) ++ _ = _
  rw [hu]

/-- the set bits of a created filter are exactly the probe positions of its keys -/
theorem createFilter_bits (bitsPerKey : Nat) (keys : List Bytes) (q : Nat) :
    testBit (keys.foldl (addKey (nbytesOf bitsPerKey keys * 8) (kOf bitsPerKey))
        (List.replicate (nbytesOf bitsPerKey keys) 0)) q = true ↔
      ∃ key ∈ keys, q ∈ keyProbes (nbytesOf bitsPerKey keys * 8) (kOf bitsPerKey) key := by
  have h8 := nbytesOf_ge bitsPerKey keys
  rw [testBit_foldl_addKey_iff _ _ (by omega) keys _ (by rw [List.length_replicate]; omega) q,
    testBit_replicate_zero]
  simp

/-- `key_may_match` on any filter of at least 2 bytes whose last byte is a legal probe count: the
    conjunction of the bits at the key's probe positions in the bit array (all bytes but the last) -/
theorem keyMayMatch_eq_all (key filter : Bytes) (hlen : 2 ≤ filter.length)
    (hk : (filter.getD (filter.length - 1) 0).toNat ≤ 30) :
    keyMayMatch key filter =
      (keyProbes (((filter.length - 1) * 8) % 2 ^ Consts.bloomBitsWidth)
          (filter.getD (filter.length - 1) 0).toNat key).all
        (testBit (filter.take (filter.length - 1))) := by
  unfold keyMayMatch keyProbes
  rw [if_neg (by omega)]
  simp only
  rw [if_neg (by omega), checkProbes_eq_all]

/-- the same for filters of at most 2^61 bytes: the bit count `8·(len−1)` is not reduced -/
theorem keyMayMatch_eq_all_small (key filter : Bytes) (hlen : 2 ≤ filter.length)
    (hsmall : filter.length ≤ 2 ^ 61)
    (hk : (filter.getD (filter.length - 1) 0).toNat ≤ 30) :
    keyMayMatch key filter =
      (keyProbes ((filter.length - 1) * 8) (filter.getD (filter.length - 1) 0).toNat key).all
        (testBit (filter.take (filter.length - 1))) := by
  rw [keyMayMatch_eq_all key filter hlen hk, Nat.mod_eq_of_lt]
  rw [two_pow_bitsWidth]
  omega

/-- a created filter passes a key iff every probe position of the key is a probe position of a member -/
theorem keyMayMatch_createFilter_iff (bitsPerKey : Nat) (keys : List Bytes) (key : Bytes)
    (hfit : FitsBits bitsPerKey keys) :
    keyMayMatch key (createFilter bitsPerKey keys) = true ↔
      ∀ q ∈ keyProbes (nbytesOf bitsPerKey keys * 8) (kOf bitsPerKey) key,
        ∃ key' ∈ keys, q ∈ keyProbes (nbytesOf bitsPerKey keys * 8) (kOf bitsPerKey) key' := by
  have hu : (nbytesOf bitsPerKey keys * 8) % 2 ^ Consts.bloomBitsWidth = nbytesOf bitsPerKey keys * 8 :=
    Nat.mod_eq_of_lt hfit
  have h8 := nbytesOf_ge bitsPerKey keys
  have hk := kOf_le bitsPerKey
  rw [createFilter_eq bitsPerKey keys hfit]
  generalize hf : keys.foldl (addKey (nbytesOf bitsPerKey keys * 8) (kOf bitsPerKey))
    (List.replicate (nbytesOf bitsPerKey keys) 0) = f
  have hflen : f.length = nbytesOf bitsPerKey keys := by
    rw [← hf, foldl_addKey_length, List.length_replicate]
  have hlen : (f ++ [UInt8.ofNat (kOf bitsPerKey)]).length = nbytesOf bitsPerKey keys + 1 := by
    simp [hflen]
  have hget : ((f ++ [UInt8.ofNat (kOf bitsPerKey)]).getD (nbytesOf bitsPerKey keys) 0).toNat
      = kOf bitsPerKey := by
    rw [List.getD_eq_getElem?_getD, ← hflen, List.getElem?_concat_length, Option.getD_some,
      UInt8.toNat_ofNat']
    apply Nat.mod_eq_of_lt; omega
  have htake : (f ++ [UInt8.ofNat (kOf bitsPerKey)]).take (nbytesOf bitsPerKey keys) = f := by
    rw [← hflen]; simp
  rw [keyMayMatch_eq_all _ _ (by rw [hlen]; omega) (by rw [hlen, Nat.add_sub_cancel, hget]; exact hk)]
  simp only [hlen, Nat.add_sub_cancel, hget, htake, hu, List.all_eq_true]
  rw [← hf]
  constructor
  · intro h q hq; exact (createFilter_bits bitsPerKey keys q).mp (h q hq)
  · intro h q hq; exact (createFilter_bits bitsPerKey keys q).mpr (h q hq)

/-! ### `k` and `bloom_hash` -/

theorem kOf_ge (bitsPerKey : Nat) : 1 ≤ kOf bitsPerKey := by
  unfold kOf
  have e1 : Consts.bloomKMin = 1 := rfl
  have e2 : Consts.bloomKMax = 30 := rfl
  show 1 ≤ (if bitsPerKey * Consts.bloomKNum / 100 < Consts.bloomKMin then Consts.bloomKMin
    else if bitsPerKey * Consts.bloomKNum / 100 > Consts.bloomKMax then Consts.bloomKMax
    else bitsPerKey * Consts.bloomKNum / 100)
  generalize bitsPerKey * Consts.bloomKNum / 100 = x
  split
  · omega
  · split <;> omega

/-- `k = clamp(⌊69·b/100⌋, 1, 30)` -/
theorem kOf_eq (bitsPerKey : Nat) : kOf bitsPerKey = max 1 (min 30 (bitsPerKey * 69 / 100)) := by
  unfold kOf
  have e1 : Consts.bloomKMin = 1 := rfl
  have e2 : Consts.bloomKMax = 30 := rfl
  have e3 : Consts.bloomKNum = 69 := rfl
  show (if bitsPerKey * Consts.bloomKNum / 100 < Consts.bloomKMin then Consts.bloomKMin
    else if bitsPerKey * Consts.bloomKNum / 100 > Consts.bloomKMax then Consts.bloomKMax
    else bitsPerKey * Consts.bloomKNum / 100) = _
  rw [e1, e2, e3]
  generalize bitsPerKey * 69 / 100 = x
  split
  · omega
  · split <;> omega

theorem createFilter_getLast (bitsPerKey : Nat) (keys : List Bytes) :
    (createFilter bitsPerKey keys).getLast? = some (UInt8.ofNat (kOf bitsPerKey)) := by
  unfold createFilter
  simp

theorem hashWords_lt : ∀ (data : Bytes) (h : Nat), h < 4294967296 → hashWords data h < 4294967296
  | [], _, hh => by unfold hashWords; exact hh
  | [_], _, hh => by unfold hashWords; exact hh
  | [_, _], _, hh => by unfold hashWords; exact hh
  | [_, _, _], _, hh => by unfold hashWords; exact hh
  | a :: b :: c :: d :: rest, h, _ => by
    unfold hashWords
    apply hashWords_lt rest
    have h1 : u32 (u32 (h + decodeFixed32 [a, b, c, d]) * Consts.bloomM) < 2 ^ 32 :=
      Nat.mod_lt _ (by decide)
    exact Nat.xor_lt_two_pow h1 (Nat.lt_of_le_of_lt (Nat.div_le_self _ _) h1)

/-- `bloom_hash` is a `u32` -/
theorem bloomHash_lt (data : Bytes) : bloomHash data < 4294967296 := by
  unfold bloomHash
  have h0 : Nat.xor Consts.bloomSeed (u32 (data.length * Consts.bloomM)) < 2 ^ 32 :=
    Nat.xor_lt_two_pow (by decide) (Nat.mod_lt _ (by decide))
  have h1 := hashWords_lt data _ h0
  simp only
  split
  · have h2 : u32 (addTail (hashTail data) 0
        (hashWords data (Nat.xor Consts.bloomSeed (u32 (data.length * Consts.bloomM)))) * Consts.bloomM)
        < 2 ^ 32 := Nat.mod_lt _ (by decide)
    exact Nat.xor_lt_two_pow h2 (Nat.lt_of_le_of_lt (Nat.div_le_self _ _) h2)
  · exact h1

end Sst.Bloom
