import SstModel.Lemmas.BlockSpec
import SstModel.Lemmas.Codec
/-
  The forward half of the block-iterator refinement: `advance`, `current`, `valid`, `next`,
  `seek_to_first` of the model (`SstModel/Model/Block.lean`) simulate the `Spec` cursor over the
  entry table of a well-formed block (`BlockWF`, `SimB` of `BlockSpec.lean`).

  Every theorem that runs `parse_entry_and_advance` carries `hsmall : b.length < 2 ^ 64`: the Rust
  computes offsets in `usize`; the model panics on overflow, and `BlockWF` alone does not bound the
  block length.
-/
namespace Sst
open Spec

/-! ### header parsing -/

theorem parseHeader_some {bs : Bytes} {s n v h : Nat}
    (hp : Block.parseHeader bs = some (s, n, v, h)) :
    ∃ l1 l2 l3, decodeVarint bs = some (s, l1) ∧ decodeVarint (bs.drop l1) = some (n, l2)
      ∧ decodeVarint (bs.drop (l1 + l2)) = some (v, l3) ∧ h = l1 + l2 + l3 := by
  unfold Block.parseHeader at hp
  split at hp
  · simp at hp
  · rename_i s' l1 h1
    split at hp
    · simp at hp
    · rename_i n' l2 h2
      split at hp
      · simp at hp
      · rename_i v' l3 h3
        simp only [Option.some.injEq, Prod.mk.injEq] at hp
        obtain ⟨rfl, rfl, rfl, rfl⟩ := hp
        exact ⟨l1, l2, l3, h1, h2, h3, rfl⟩

theorem parseHeader_headLen {bs : Bytes} {s n v h : Nat}
    (hp : Block.parseHeader bs = some (s, n, v, h)) : 3 ≤ h ∧ h ≤ 30 := by
  obtain ⟨l1, l2, l3, h1, h2, h3, rfl⟩ := parseHeader_some hp
  have := decodeVarint_some_len _ _ _ h1
  have := decodeVarint_some_len _ _ _ h2
  have := decodeVarint_some_len _ _ _ h3
  omega

/-! ### facts about chains -/

/-- every entry of a chain has `headLen ≥ 3`, lies at or after the chain start, and
    `off < next ≤ roff` (so offsets strictly increase) -/
theorem Chain.headLen_ge {b : Bytes} {roff : Nat} :
    ∀ {es : List EInfo} {prev : Bytes} {off : Nat}, Chain b roff prev off es →
      ∀ e ∈ es, 3 ≤ e.headLen ∧ off ≤ e.off ∧ e.off < e.next ∧ e.next ≤ roff := by
  intro es
  induction es with
  | nil => intro _ _ _ e he; simp at he
  | cons a es ih =>
    intro prev off h e he
    obtain ⟨hoff, hlt, hp, hsh, hnext, hkey, hrest⟩ := h
    have hhl := parseHeader_headLen hp
    have hnx : a.off < a.next := by simp only [EInfo.next, EInfo.valOff]; omega
    rcases List.mem_cons.mp he with rfl | he'
    · exact ⟨hhl.1, by omega, hnx, hnext⟩
    · have := ih hrest e he'
      omega

/-- the end of a chain is not before its start -/
theorem Chain.off_le_roff {b : Bytes} {roff : Nat} :
    ∀ {es : List EInfo} {prev : Bytes} {off : Nat}, Chain b roff prev off es → off ≤ roff := by
  intro es prev off h
  cases es with
  | nil => exact Nat.le_of_eq h
  | cons a es => exact Nat.le_of_lt h.2.1

/-- for `i < j`: entry `i` ends at or before the start of entry `j` -/
theorem Chain.off_lt_of_lt {b : Bytes} {roff : Nat} :
    ∀ {es : List EInfo} {prev : Bytes} {off : Nat}, Chain b roff prev off es →
      ∀ {i j : Nat} {a c : EInfo}, i < j → es[i]? = some a → es[j]? = some c →
        a.next ≤ c.off ∧ a.off < c.off := by
  intro es
  induction es with
  | nil => intro _ _ _ i j a c _ ha; simp at ha
  | cons x es ih =>
    intro prev off h i j a c hij ha hc
    obtain ⟨hoff, hlt, hp, hsh, hnext, hkey, hrest⟩ := h
    cases j with
    | zero => omega
    | succ j =>
      simp only [List.getElem?_cons_succ] at hc
      cases i with
      | zero =>
        simp only [List.getElem?_cons_zero, Option.some.injEq] at ha
        subst ha
        have hc' := Chain.headLen_ge hrest c (List.mem_of_getElem? hc)
        have hhl := parseHeader_headLen hp
        have : x.off < x.next := by simp only [EInfo.next, EInfo.valOff]; omega
        omega
      | succ i =>
        simp only [List.getElem?_cons_succ] at ha
        exact ih hrest (by omega) ha hc

/-- the key in the key register just before the entry that follows `l1` -/
def prevKey (prev : Bytes) (l1 : List EInfo) : Bytes := (l1.getLast?.map (·.key)).getD prev

theorem prevKey_nil (prev : Bytes) : prevKey prev [] = prev := rfl

theorem prevKey_cons (prev : Bytes) (a : EInfo) (l : List EInfo) :
    prevKey prev (a :: l) = prevKey a.key l := by
  cases l with
  | nil => rfl
  | cons c l =>
    simp only [prevKey, List.getLast?_cons_cons]
    rw [List.getLast?_cons (a := c)]
    rfl

/-- a chain splits at any entry: the suffix is a chain from that entry's offset, with the last key
    of the prefix (or `prev`) as previous key -/
theorem Chain.suffix {b : Bytes} {roff : Nat} :
    ∀ {l1 : List EInfo} {prev : Bytes} {off : Nat} {e : EInfo} {l2 : List EInfo},
      Chain b roff prev off (l1 ++ e :: l2) → Chain b roff (prevKey prev l1) e.off (e :: l2) := by
  intro l1
  induction l1 with
  | nil =>
    intro prev off e l2 h
    rw [prevKey_nil]
    have h' : Chain b roff prev off (e :: l2) := h
    have hoff : e.off = off := h'.1
    rw [hoff]; exact h'
  | cons a l1 ih =>
    intro prev off e l2 h
    have h' : Chain b roff prev off (a :: (l1 ++ e :: l2)) := h
    rw [prevKey_cons]
    exact ih h'.2.2.2.2.2.2

/-- indexed form of `Chain.suffix`: the chain restarted at entry `i`, with the link to entry `i-1` -/
theorem Chain.at_index {b : Bytes} {roff : Nat} :
    ∀ {es : List EInfo} {prev : Bytes} {off : Nat}, Chain b roff prev off es →
      ∀ (i : Nat) (e : EInfo), es[i]? = some e →
        ∃ prev', Chain b roff prev' e.off (e :: es.drop (i + 1)) ∧
          (match i with
           | 0 => prev' = prev ∧ e.off = off
           | j + 1 => ∃ p, es[j]? = some p ∧ prev' = p.key ∧ e.off = p.next) := by
  intro es
  induction es with
  | nil => intro _ _ _ i e he; simp at he
  | cons x es ih =>
    intro prev off h i e he
    cases i with
    | zero =>
      simp only [List.getElem?_cons_zero, Option.some.injEq] at he
      subst he
      have hoff : x.off = off := h.1
      refine ⟨prev, ?_, rfl, hoff⟩
      rw [hoff]; simpa using h
    | succ i =>
      simp only [List.getElem?_cons_succ] at he
      obtain ⟨prev', hc, hm⟩ := ih h.2.2.2.2.2.2 i e he
      refine ⟨prev', by simpa using hc, ?_⟩
      cases i with
      | zero => exact ⟨x, by simp, hm.1, hm.2⟩
      | succ k =>
        obtain ⟨p, hp, h1, h2⟩ := hm
        exact ⟨p, by simpa using hp, h1, h2⟩

/-! ### the entry table of a well-formed block -/

/-- the chain restarted at entry `i` -/
theorem BlockWF.entry {b es rs} (wf : BlockWF b es rs) {i : Nat} {e : EInfo}
    (he : es[i]? = some e) :
    3 ≤ e.headLen ∧ e.off < e.next ∧ e.next ≤ b.length - 4 - 4 * rs.length
      ∧ Block.parseHeader (b.drop e.off) = some (e.shared, e.nonShared, e.valLen, e.headLen) := by
  have hm := Chain.headLen_ge wf.chain e (List.mem_of_getElem? he)
  obtain ⟨prev', hc, _⟩ := Chain.at_index wf.chain i e he
  exact ⟨hm.1, hm.2.2.1, hm.2.2.2, hc.2.2.1⟩

/-! ### `parse_entry_and_advance` -/

/-- parsing at an entry start yields exactly that entry's fields -/
theorem parse_at {b es rs} (wf : BlockWF b es rs) (hsmall : b.length < 2 ^ 64)
    (it : BlockIter) (i : Nat) (e : EInfo)
    (hb : it.block = b) (he : es[i]? = some e) (ho : it.offset = e.off) :
    it.parseEntryAndAdvance
      = .ok ({ it with valOffset := e.valOff, offset := e.next }, e.shared, e.nonShared, e.headLen) := by
  obtain ⟨hhl, hlt, hnext, hp⟩ := wf.entry he
  obtain ⟨l1, l2, l3, h1, h2, h3, hh⟩ := parseHeader_some hp
  rw [List.drop_drop] at h2 h3
  have hnx : e.next = e.off + (l1 + l2 + l3) + e.nonShared + e.valLen := by
    simp only [EInfo.next, EInfo.valOff, hh]
  have hvo : e.valOff = e.off + (l1 + l2 + l3) + e.nonShared := by
    simp only [EInfo.valOff, hh]
  have h3' : decodeVarint (b.drop (e.off + l1 + l2)) = some (e.valLen, l3) := by
    rw [Nat.add_assoc]; exact h3
  unfold BlockIter.parseEntryAndAdvance
  rw [hb, ho, if_neg (by omega)]
  simp only [h1]
  rw [if_neg (by omega)]
  simp only [h2]
  rw [if_neg (by omega)]
  simp only [h3']
  rw [if_neg (by omega)]
  rw [hnx, hvo, hh]

/-! ### restart array, `adjustRestartIx`, `assembleKey` -/

theorem numberRestarts_eq {b es rs} (wf : BlockWF b es rs) (it : BlockIter) (hb : it.block = b) :
    it.numberRestarts = rs.length := by
  unfold BlockIter.numberRestarts; rw [hb]; exact wf.count

theorem getRestartPoint_eq {b es rs} (wf : BlockWF b es rs) (it : BlockIter) (hb : it.block = b)
    (hr : it.restartsOff = b.length - 4 - 4 * rs.length) (ix : Nat) (h : ix < rs.length) :
    it.getRestartPoint ix = .ok rs[ix] := by
  unfold BlockIter.getRestartPoint; rw [hb, hr, wf.restartAt ix h]

/-- the restart-index loop never panics, changes only `curRestartIx`, and only upwards within range -/
theorem adjustRestartIx_ok {b es rs} (wf : BlockWF b es rs) :
    ∀ (fuel : Nat) (it : BlockIter), it.block = b →
      it.restartsOff = b.length - 4 - 4 * rs.length → it.curRestartIx < rs.length →
      ∃ k, it.adjustRestartIx fuel = .ok { it with curRestartIx := k }
        ∧ it.curRestartIx ≤ k ∧ k < rs.length := by
  intro fuel
  induction fuel with
  | zero => intro it _ _ hrix; exact ⟨it.curRestartIx, rfl, Nat.le_refl _, hrix⟩
  | succ fuel ih =>
    intro it hb hr hrix
    unfold BlockIter.adjustRestartIx
    rw [numberRestarts_eq wf it hb]
    by_cases h1 : it.curRestartIx + 1 < rs.length
    · rw [if_pos h1, getRestartPoint_eq wf it hb hr _ h1]
      simp only
      by_cases h2 : rs[it.curRestartIx + 1] < it.curEntryOff
      · rw [if_pos h2]
        obtain ⟨k, hk, hle, hlt⟩ := ih { it with curRestartIx := it.curRestartIx + 1 } hb hr h1
        exact ⟨k, hk, by simp only at hle; omega, hlt⟩
      · rw [if_neg h2]; exact ⟨it.curRestartIx, rfl, Nat.le_refl _, hrix⟩
    · rw [if_neg h1]; exact ⟨it.curRestartIx, rfl, Nat.le_refl _, hrix⟩

theorem slice?_add {b : Bytes} {lo n : Nat} (h : lo + n ≤ b.length) :
    slice? b lo (lo + n) = some ((b.drop lo).take n) := by
  unfold slice?
  rw [if_pos ⟨by omega, h⟩, Nat.add_sub_cancel_left]

/-! ### `advance` -/

/-- `advance` at the end resets -/
theorem advance_end (it : BlockIter) (hr : it.restartsOff ≤ it.offset) :
    it.advance = .ok (it.reset, false) := by
  unfold BlockIter.advance
  rw [if_pos hr]

/-- one `advance` from the state "just before entry i" lands exactly on entry `i` -/
theorem advance_at {b es rs} (wf : BlockWF b es rs) (hsmall : b.length < 2 ^ 64)
    (it : BlockIter) (i : Nat) (e : EInfo)
    (hb : it.block = b) (hr : it.restartsOff = b.length - 4 - 4 * rs.length)
    (hrix : it.curRestartIx < rs.length)
    (he : es[i]? = some e) (ho : it.offset = e.off)
    (hk : e.shared = 0 ∨ (∃ p, i > 0 ∧ es[i-1]? = some p ∧ it.key = p.key)) :
    ∃ it', it.advance = .ok (it', true) ∧ SimB b es rs it' (some i)
      ∧ it'.curRestartIx ≥ it.curRestartIx := by
  obtain ⟨hhl, hlt, hnext, hp⟩ := wf.entry he
  have hpa := parse_at wf hsmall { it with curEntryOff := it.offset } i e hb he ho
  unfold BlockIter.advance
  rw [if_neg (by omega)]
  simp only [hpa, Res.bind_ok]
  have hvn : e.off + e.headLen + e.nonShared ≤ e.next := by
    simp only [EInfo.next, EInfo.valOff]; omega
  have hsl : slice? b (it.offset + e.headLen) (it.offset + e.headLen + e.nonShared)
      = some ((b.drop (e.off + e.headLen)).take e.nonShared) := by
    rw [ho]; exact slice?_add (by omega)
  simp only [BlockIter.assembleKey, hb, hsl, Res.bind_ok]
  obtain ⟨k, hadj, hle, hlt'⟩ := adjustRestartIx_ok wf
    ({ block := b, restartsOff := it.restartsOff, offset := e.next, curEntryOff := it.offset,
       curRestartIx := it.curRestartIx,
       key := it.key.take e.shared ++ (b.drop (e.off + e.headLen)).take e.nonShared,
       valOffset := e.valOff } : BlockIter).numberRestarts.succ
    { block := b, restartsOff := it.restartsOff, offset := e.next, curEntryOff := it.offset,
       curRestartIx := it.curRestartIx,
       key := it.key.take e.shared ++ (b.drop (e.off + e.headLen)).take e.nonShared,
       valOffset := e.valOff } rfl hr hrix
  simp only [Nat.succ_eq_add_one] at hadj
  simp only [hadj, Res.bind_ok, Res.pure_eq]
  refine ⟨_, rfl, ?_, hle⟩
  -- the key equation of the chain at entry `i`
  obtain ⟨prev', hc, hm⟩ := Chain.at_index wf.chain i e he
  have hkey : e.key = prev'.take e.shared ++ (b.drop (e.off + e.headLen)).take e.nonShared :=
    hc.2.2.2.2.2.1
  have hsh : e.shared ≤ prev'.length := hc.2.2.2.1
  have hkeq : it.key.take e.shared = prev'.take e.shared := by
    rcases hk with h0 | ⟨p, hi, hp', hkp⟩
    · rw [h0]; simp
    · cases i with
      | zero => omega
      | succ j =>
        obtain ⟨p2, hp2, hpk, _⟩ := hm
        simp only [Nat.add_sub_cancel] at hp'
        rw [hp2] at hp'
        cases hp'
        rw [hkp, hpk]
  exact {
    block := rfl
    roff := hr
    rix := hlt'
    at_ := ⟨e, he, ho, rfl, rfl, by rw [hkey, ← hkeq]⟩ }

/-! ### the simulation -/

theorem kvOf_getElem? (b : Bytes) (es : List EInfo) (i : Nat) :
    (kvOf b es)[i]? = es[i]?.map fun e => (e.key, (b.drop e.valOff).take e.valLen) := by
  unfold kvOf; rw [List.getElem?_map]

theorem kvOf_length (b : Bytes) (es : List EInfo) : (kvOf b es).length = es.length := by
  unfold kvOf; rw [List.length_map]

theorem kvOf_isEmpty (b : Bytes) (es : List EInfo) : (kvOf b es).isEmpty = es.isEmpty := by
  unfold kvOf; rw [List.isEmpty_map]

/-- T1: a fresh iterator simulates the before-first position -/
theorem simB_iter {b es rs} (wf : BlockWF b es rs) :
    ∃ it, Block.iter b = .ok it ∧ SimB b es rs it none := by
  have hlen := wf.len
  have hfits := wf.fits
  refine ⟨{ block := b, restartsOff := b.length - 4 - 4 * rs.length }, ?_, ?_⟩
  · unfold Block.iter
    have ha : assert (decide (b.length > 4)) "Block::new: contents.len() > 4" = .ok () := by
      unfold assert; rw [if_pos (by simp; omega)]
    simp only [ha, Res.bind_ok, wf.count]
    rw [if_neg (by omega)]
    rfl
  · exact {
      block := rfl
      roff := rfl
      rix := wf.nrs
      at_ := ⟨rfl, rfl, rfl, rfl, Or.inl rfl⟩ }

/-- reset -/
theorem simB_reset {b es rs it pos} (wf : BlockWF b es rs) (h : SimB b es rs it pos) :
    SimB b es rs it.reset none := by
  refine { block := h.block, roff := h.roff, rix := wf.nrs, at_ := ⟨rfl, rfl, rfl, rfl, ?_⟩ }
  show it.curEntryOff = 0 ∨ ∃ e ∈ es, it.curEntryOff = e.off
  cases pos with
  | none => exact h.at_.2.2.2.2
  | some i =>
    obtain ⟨e, he, hce, _⟩ := h.at_
    exact Or.inr ⟨e, List.mem_of_getElem? he, hce⟩

/-- T2: advance refines the Spec cursor -/
theorem simB_advance {b es rs it pos} (wf : BlockWF b es rs) (hsmall : b.length < 2 ^ 64)
    (h : SimB b es rs it pos) :
    ∃ it', it.advance = .ok (it', (Spec.advance (kvOf b es) pos).2)
      ∧ SimB b es rs it' (Spec.advance (kvOf b es) pos).1 := by
  cases pos with
  | none =>
    obtain ⟨ho, _, hkey, _, _⟩ := h.at_
    cases es with
    | nil =>
      have hroff : 0 = b.length - 4 - 4 * rs.length := wf.chain
      refine ⟨it.reset, ?_, simB_reset wf h⟩
      exact advance_end it (by rw [h.roff, ho, ← hroff]; exact Nat.le_refl _)
    | cons e es =>
      have hc : Chain b (b.length - 4 - 4 * rs.length) [] 0 (e :: es) := wf.chain
      have hsh : e.shared = 0 := by have := hc.2.2.2.1; simpa using this
      obtain ⟨it', ha, hs, _⟩ := advance_at wf hsmall it 0 e h.block h.roff h.rix rfl
        (by rw [ho]; exact hc.1.symm) (Or.inl hsh)
      exact ⟨it', ha, hs⟩
  | some i =>
    obtain ⟨e, he, hce, ho, hvo, hkey⟩ := h.at_
    have hil : i < es.length := (List.getElem?_eq_some_iff.mp he).1
    by_cases hnext : i + 1 < es.length
    · have hadv : Spec.advance (kvOf b es) (some i) = (some (i + 1), true) := by
        simp only [Spec.advance, kvOf_length, if_pos hnext]
      rw [hadv]
      have he' : es[i + 1]? = some es[i + 1] := List.getElem?_eq_getElem hnext
      obtain ⟨prev', _, p, hp, _, hoff⟩ := Chain.at_index wf.chain (i + 1) es[i + 1] he'
      rw [he] at hp
      cases hp
      obtain ⟨it', ha, hs, _⟩ := advance_at wf hsmall it (i + 1) es[i + 1] h.block h.roff h.rix he'
        (by rw [ho, hoff]) (Or.inr ⟨e, by omega, by simpa using he, hkey⟩)
      exact ⟨it', ha, hs⟩
    · have hadv : Spec.advance (kvOf b es) (some i) = (none, false) := by
        simp only [Spec.advance, kvOf_length, if_neg hnext]
      rw [hadv]
      -- entry `i` is the last one, so it ends exactly at the restart array
      obtain ⟨prev', hc, _⟩ := Chain.at_index wf.chain i e he
      have hdrop : es.drop (i + 1) = [] := List.drop_eq_nil_of_le (by omega)
      rw [hdrop] at hc
      have hend : e.next = b.length - 4 - 4 * rs.length := hc.2.2.2.2.2.2
      refine ⟨it.reset, ?_, simB_reset wf h⟩
      exact advance_end it (by rw [h.roff, ho, hend]; exact Nat.le_refl _)

/-- T6: the read-only queries -/
theorem simB_valid {b es rs it pos} (wf : BlockWF b es rs) (h : SimB b es rs it pos) :
    it.valid = pos.isSome := by
  cases pos with
  | none =>
    obtain ⟨_, hvo, _⟩ := h.at_
    simp [BlockIter.valid, hvo]
  | some i =>
    obtain ⟨e, he, _, _, hvo, _⟩ := h.at_
    obtain ⟨hhl, _, hnext, _⟩ := wf.entry he
    have h1 : e.valOff > 0 := by simp only [EInfo.valOff]; omega
    have h2 : e.valOff ≤ b.length - 4 - 4 * rs.length := by
      simp only [EInfo.next] at hnext; omega
    simp [BlockIter.valid, hvo, h.roff, h1, h2]

theorem simB_current {b es rs it pos} (wf : BlockWF b es rs) (h : SimB b es rs it pos) :
    it.current = .ok (Spec.entryAt (kvOf b es) pos) := by
  unfold BlockIter.current
  rw [simB_valid wf h]
  cases pos with
  | none => rfl
  | some i =>
    obtain ⟨e, he, _, ho, hvo, hkey⟩ := h.at_
    obtain ⟨_, _, hnext, _⟩ := wf.entry he
    have hsl : slice? b e.valOff e.next = some ((b.drop e.valOff).take e.valLen) :=
      slice?_add (lo := e.valOff) (n := e.valLen) (by simp only [EInfo.next] at hnext; omega)
    simp only [Option.isSome_some, if_true, h.block, hvo, ho, hsl, hkey, Spec.entryAt,
      kvOf_getElem?, he, Option.map_some]

theorem simB_currentKey {b es rs it pos} (wf : BlockWF b es rs) (h : SimB b es rs it pos) :
    it.currentKey = (Spec.entryAt (kvOf b es) pos).map (·.1) := by
  unfold BlockIter.currentKey
  rw [simB_valid wf h]
  cases pos with
  | none => rfl
  | some i =>
    obtain ⟨e, he, _, _, _, hkey⟩ := h.at_
    simp only [Option.isSome_some, if_true, hkey, Spec.entryAt, kvOf_getElem?, he, Option.map_some]

/-- the Spec cursor reports `false` only when it becomes invalid -/
theorem advance_false_none {kv : List Spec.Entry} {pos : Spec.Pos}
    (h : (Spec.advance kv pos).2 = false) : (Spec.advance kv pos).1 = none := by
  cases pos with
  | none =>
    simp only [Spec.advance] at h ⊢
    split
    · rfl
    · rename_i hne; rw [if_neg hne] at h; cases h
  | some i =>
    simp only [Spec.advance] at h ⊢
    split
    · rename_i hlt; rw [if_pos hlt] at h; cases h
    · rfl

/-- next = advance + current -/
theorem simB_next {b es rs it pos} (wf : BlockWF b es rs) (hsmall : b.length < 2 ^ 64)
    (h : SimB b es rs it pos) :
    ∃ it', it.next = .ok (it', Spec.entryAt (kvOf b es) (Spec.advance (kvOf b es) pos).1)
      ∧ SimB b es rs it' (Spec.advance (kvOf b es) pos).1 := by
  obtain ⟨it', ha, hs⟩ := simB_advance wf hsmall h
  refine ⟨it', ?_, hs⟩
  unfold BlockIter.next
  simp only [ha, Res.bind_ok]
  cases hflag : (Spec.advance (kvOf b es) pos).2 with
  | false =>
    have hnone : (Spec.advance (kvOf b es) pos).1 = none := advance_false_none hflag
    rw [hnone]
    rfl
  | true =>
    simp only [Bool.not_true, Bool.false_eq_true, if_false, simB_current wf hs, Res.bind_ok,
      Res.pure_eq]

theorem simB_seekToFirst {b es rs it pos} (wf : BlockWF b es rs) (hsmall : b.length < 2 ^ 64)
    (h : SimB b es rs it pos) :
    ∃ it', it.seekToFirst = .ok it' ∧ SimB b es rs it' (Spec.seekToFirst (kvOf b es)) := by
  obtain ⟨it', ha, hs⟩ := simB_advance wf hsmall (simB_reset wf h)
  refine ⟨it', ?_, ?_⟩
  · unfold BlockIter.seekToFirst
    simp only [ha, Res.bind_ok, Res.pure_eq]
  · have : Spec.seekToFirst (kvOf b es) = (Spec.advance (kvOf b es) none).1 := by
      simp only [Spec.seekToFirst, Spec.advance]
      split <;> rfl
    rw [this]; exact hs

end Sst

#print axioms Sst.simB_advance
#print axioms Sst.simB_current
#print axioms Sst.simB_next
#print axioms Sst.simB_seekToFirst
#print axioms Sst.simB_iter
#print axioms Sst.simB_currentKey
