import SstModel.Lemmas.SpecBlock
import SstModel.Lemmas.TableSpec
import SstModel.Lemmas.BlockValidateComplete
import SstModel.Props.ConstsTie
import SstModel.Spec.WFTable
/-
  C06 bridge: every table image that is well formed according to the independent decoder of the format
  (`Spec.Format.WFTable`, i.e. `Spec.Format.decodeTable` succeeds and the ordering conditions hold) is
  well formed in the reader's sense (`TableImg.WF`), with the same entries. Hence the reader theorems,
  which are stated over `TableImg.WF`, apply to the files of EVERY producer of the format.
-/
namespace Sst

theorem Spec.mask_eq (c : Nat) (h : c < 2^32) : Spec.Format.mask c = maskCrc c := by
  unfold Spec.Format.mask maskCrc
  simp only [Spec.Format.maskDelta, Consts.maskShr, Consts.maskShl, Consts.maskDelta]
  have e1 : (c <<< 17) % 2 ^ 32 = (c % 2 ^ 15) * 2 ^ 17 := by
    rw [Nat.shiftLeft_eq]; omega
  have e2 : c >>> 15 = c / 2 ^ 15 := Nat.shiftRight_eq_div_pow c 15
  have e3 : c * 2 ^ 17 % 2 ^ 32 = (c % 2 ^ 15) * 2 ^ 17 := by omega
  have hlt : c / 2 ^ 15 < 2 ^ 17 := by omega
  rw [e1, e2, e3, or_mul_two_pow _ _ _ hlt]
  omega

namespace ST
open Snappy

theorem header_le (bs : Bytes) : ∀ (acc shift i v n : Nat),
    header bs acc shift i = some (v, n) → v ≤ 4294967295 := by
  induction bs with
  | nil => intro acc shift i v n h; simp [header] at h
  | cons b rest ih =>
    intro acc shift i v n h
    rw [header] at h
    split at h
    · simp at h
    · split at h
      · simp only [] at h
        split at h
        · simp at h
        · simp only [Option.some.injEq, Prod.mk.injEq] at h
          omega
      · exact ih _ _ _ _ _ h

theorem copyBack_length (offset : Nat) : ∀ (len : Nat) (outRev : Bytes),
    (copyBack outRev offset len).length ≤ outRev.length + len := by
  intro len
  induction len with
  | zero => intro outRev; simp [copyBack]
  | succ len ih =>
    intro outRev
    rw [copyBack]
    split
    · have := ih (‹UInt8› :: outRev)
      simp only [List.length_cons] at this
      omega
    · omega

theorem elements_length : ∀ (fuel : Nat) (src outRev : Bytes) (produced total : Nat) (d : Bytes),
    elements fuel src outRev produced total = some d → outRev.length ≤ produced → d.length ≤ total := by
  intro fuel
  induction fuel with
  | zero => intro src outRev produced total d h; unfold elements at h; simp at h
  | succ fuel ih =>
    intro src outRev produced total d h hle
    unfold elements at h
    simp only [] at h
    split at h
    · split at h
      · simp only [Option.some.injEq] at h
        subst h
        simp only [List.length_reverse]
        omega
      · simp at h
    · split at h
      · split at h
        · simp at h
        · split at h
          · simp at h
          · refine ih _ _ _ _ _ h ?_
            simp only [List.length_append, List.length_reverse, List.length_take]
            omega
      · split at h
        · simp at h
        · split at h
          · simp at h
          · refine ih _ _ _ _ _ h (Nat.le_trans (copyBack_length _ _ _) ?_)
            omega

theorem snappy_decode_length (data d : Bytes) (h : Snappy.decode data = some d) :
    d.length < 2 ^ 64 := by
  unfold Snappy.decode at h
  split at h
  · simp at h
  · split at h
    · simp at h
    · rename_i total hlen hh
      have := header_le _ _ _ _ _ _ hh
      have := elements_length _ _ _ _ _ _ h (by simp)
      omega


/-! ### physical blocks -/

/-- inversion of `Spec.Format.block` -/
theorem block_some (img : Bytes) (h : Spec.Format.Handle) (c : Bytes)
    (hs : Spec.Format.block img h = some c) :
    h.offset + h.size + 5 ≤ img.length ∧
    ∃ t : UInt8, (img.drop (h.offset + h.size)).take 1 = [t]
      ∧ Spec.Format.u32le ((img.drop (h.offset + h.size + 1)).take 4)
          = some (Spec.Format.mask (crc32c ((img.drop h.offset).take h.size ++ [t])))
      ∧ ((t = 0 ∧ c = (img.drop h.offset).take h.size)
          ∨ (t = 1 ∧ Snappy.decode ((img.drop h.offset).take h.size) = some c)) := by
  unfold Spec.Format.block at hs
  have ht5 : Spec.Format.trailerLen = 5 := rfl
  by_cases hb : h.offset + h.size + Spec.Format.trailerLen > img.length
  · rw [if_pos hb] at hs; simp at hs
  rw [if_neg hb] at hs
  refine ⟨by omega, ?_⟩
  have hl : ((img.drop (h.offset + h.size)).take 1).length = 1 := by
    rw [List.length_take, List.length_drop]; omega
  obtain ⟨t, ht⟩ : ∃ t, (img.drop (h.offset + h.size)).take 1 = [t] := by
    match (img.drop (h.offset + h.size)).take 1, hl with
    | [t], _ => exact ⟨t, rfl⟩
  refine ⟨t, ht, ?_⟩
  rw [ht] at hs
  by_cases hck : Spec.Format.u32le ((img.drop (h.offset + h.size + 1)).take 4)
      ≠ some (Spec.Format.mask (crc32c ((img.drop h.offset).take h.size ++ [t])))
  · rw [if_pos hck] at hs; simp at hs
  rw [if_neg hck] at hs
  refine ⟨Classical.not_not.mp hck, ?_⟩
  by_cases h0 : t = 0
  · subst h0
    exact Or.inl ⟨rfl, (Option.some.inj hs).symm⟩
  by_cases h1 : t = 1
  · subst h1
    exact Or.inr ⟨rfl, hs⟩
  exfalso
  split at hs
  · rename_i heq
    simp only [List.cons.injEq, and_true] at heq
    exact h0 heq
  · rename_i heq
    simp only [List.cons.injEq, and_true] at heq
    exact h1 heq
  · simp at hs

theorem block_contents_small (img : Bytes) (h : Spec.Format.Handle) (c : Bytes)
    (hsmall : img.length < 2 ^ 64) (hs : Spec.Format.block img h = some c) : c.length < 2 ^ 64 := by
  obtain ⟨_, t, _, _, h0 | h1⟩ := block_some img h c hs
  · rw [h0.2, List.length_take, List.length_drop]; omega
  · exact snappy_decode_length _ _ h1.2

end ST

/-- the Spec's block read and the reader's agree -/
theorem specBlock_blockAt (img : Bytes) (h : Spec.Format.Handle) (c : Bytes)
    (hsmall : img.length < 2 ^ 64) (hs : Spec.Format.block img h = some c) :
    blockAt img ⟨h.offset, h.size⟩ = .ok c ∧ InBounds ⟨h.offset, h.size⟩ img.length := by
  obtain ⟨hb, t, ht, hck, hty⟩ := ST.block_some img h c hs
  refine ⟨?_, ?_⟩
  · unfold blockAt cleanBuf
    simp only [Consts.tableBlockCksumLen, Consts.tableBlockCompressLen]
    have hrep : h.size + 4 + 1 - min (h.size + 4 + 1) (img.length - h.offset) = 0 := by omega
    have hraw : ((img.drop h.offset).take h.size).length = h.size := by
      rw [List.length_take, List.length_drop]; omega
    have hsplit : (img.drop h.offset).take (h.size + 4 + 1)
        = (img.drop h.offset).take h.size ++ [t] ++ (img.drop (h.offset + h.size + 1)).take 4 := by
      have e : h.size + 4 + 1 = h.size + (1 + 4) := by omega
      rw [e, List.take_add, List.take_add, List.drop_drop, List.drop_drop, ht, List.append_assoc,
        Nat.add_assoc]
    rw [hrep, List.replicate_zero, List.append_nil, hsplit]
    have := verifyBlock_concat ((img.drop h.offset).take h.size) t
      ((img.drop (h.offset + h.size + 1)).take 4)
    rw [hraw] at this
    rw [this]
    obtain ⟨hl4, hdec⟩ := specU32le_eq _ _ hck
    rw [List.take_of_length_le (Nat.le_of_eq hl4), hdec, Spec.mask_eq _ (crc32c_lt _),
      unmaskCrc_maskCrc _ (crc32c_lt _)]
    simp only [ne_eq, not_true_eq_false, if_false]
    rcases hty with ⟨h0, hc⟩ | ⟨h1, hc⟩
    · subst h0; subst hc; rfl
    · subst h1
      unfold decodeByType
      rw [hc]; rfl
  · unfold InBounds
    simp only [Consts.tableBlockCksumLen, Consts.tableBlockCompressLen]
    omega

namespace ST

/-! ### handles -/

theorem handle_some (v : Bytes) (h : Spec.Format.Handle) (rest : Bytes)
    (hs : Spec.Format.handle v = some (h, rest)) :
    ∃ r, Spec.Format.varint v 0 0 = some (h.offset, r) ∧ Spec.Format.varint r 0 0 = some (h.size, rest) := by
  unfold Spec.Format.handle at hs
  cases h1 : Spec.Format.varint v 0 0 with
  | none => simp [h1] at hs
  | some p1 =>
    obtain ⟨o, r⟩ := p1
    cases h2 : Spec.Format.varint r 0 0 with
    | none => simp [h1, h2] at hs
    | some p2 =>
      obtain ⟨s, r2⟩ := p2
      simp [h1, h2] at hs
      obtain ⟨hh, hr⟩ := hs
      subst hh; subst hr
      exact ⟨r, rfl, h2⟩

/-- the Spec's handle decoder against `BlockHandle::try_decode`, with the bytes consumed -/
theorem specHandle_tryDecode' (v : Bytes) (h : Spec.Format.Handle) (rest : Bytes)
    (hs : Spec.Format.handle v = some (h, rest)) (ho : h.offset < 2^64) (hz : h.size < 2^64) :
    ∃ n, BlockHandle.tryDecode v = some (⟨h.offset, h.size⟩, n) ∧ rest = v.drop n ∧ n ≤ v.length := by
  obtain ⟨r, h1, h2⟩ := handle_some v h rest hs
  obtain ⟨l1, d1, e1, b1⟩ := specVarint_eq _ _ _ h1 ho
  subst e1
  obtain ⟨l2, d2, e2, b2⟩ := specVarint_eq _ _ _ h2 hz
  rw [List.length_drop] at b2
  refine ⟨l1 + l2, ?_, ?_, by omega⟩
  · unfold BlockHandle.tryDecode
    simp only [d1, d2]
  · rw [e2, List.drop_drop]

theorem tryDecode_of_take (bs : Bytes) (k : Nat) (h : BlockHandle) (n : Nat)
    (hd : BlockHandle.tryDecode (bs.take k) = some (h, n)) : BlockHandle.tryDecode bs = some (h, n) := by
  unfold BlockHandle.tryDecode at hd ⊢
  cases d1 : decodeVarint (bs.take k) with
  | none => simp [d1] at hd
  | some p1 =>
    obtain ⟨o, n1⟩ := p1
    rw [d1] at hd
    simp only [] at hd
    rw [List.drop_take] at hd
    cases d2 : decodeVarint ((bs.drop n1).take (k - n1)) with
    | none => simp [d2] at hd
    | some p2 =>
      obtain ⟨sz, n2⟩ := p2
      rw [d2] at hd
      rw [decodeVarint_of_take_spec _ _ _ _ d1]
      simp only []
      rw [decodeVarint_of_take_spec _ _ _ _ d2]
      exact hd

/-! ### the footer -/

theorem footer_tryDecode (foot : Bytes) (mh ih : Spec.Format.Handle) (r r' : Bytes)
    (hlen : foot.length = 48) (hmagic : foot.drop 40 = Spec.Format.magic)
    (h1 : Spec.Format.handle (foot.take 40) = some (mh, r)) (h2 : Spec.Format.handle r = some (ih, r'))
    (hmo : mh.offset < 2^64) (hms : mh.size < 2^64) (hio : ih.offset < 2^64) (his : ih.size < 2^64) :
    Footer.tryDecode foot = some ⟨⟨mh.offset, mh.size⟩, ⟨ih.offset, ih.size⟩⟩ := by
  obtain ⟨n1, d1, e1, b1⟩ := specHandle_tryDecode' _ _ _ h1 hmo hms
  subst e1
  obtain ⟨n2, d2, e2, b2⟩ := specHandle_tryDecode' _ _ _ h2 hio his
  rw [List.drop_take] at d2
  have d1' := tryDecode_of_take _ _ _ _ d1
  have d2' := tryDecode_of_take _ _ _ _ d2
  unfold Footer.tryDecode
  have hm : (foot.drop Consts.footerLength).take (Consts.fullFooterLength - Consts.footerLength)
      = Consts.magicFooterEncoded := by
    show (foot.drop 40).take 8 = _
    rw [hmagic, ConstsTie.magic_eq]; rfl
  rw [if_neg (show ¬ foot.length < Consts.fullFooterLength by rw [hlen]; decide),
    if_neg (by rw [hm]; simp)]
  simp only [d1', d2']


/-! ### inversion of the table decoder -/

/-- the per-index-entry step of `decodeTable` -/
def dataStep (img : Bytes) : Bytes × Bytes → Option Spec.Format.DataBlock :=
  fun (k, v) => do
    let (h, _) ← Spec.Format.handle v
    let b ← Spec.Format.parseBlock (← Spec.Format.block img h)
    pure { handle := h, indexKey := k, entries := b.entries, restarts := b.restarts }

open Spec.Format in
/-- `decodeTable` with the `do` block spelled out -/
theorem decodeTable_eq (img : Bytes) : decodeTable img =
    if img.length < footerLen then none else
    if (img.drop (img.length - footerLen)).drop 40 ≠ magic then none else
    (handle ((img.drop (img.length - footerLen)).take 40)).bind fun p1 =>
    (handle p1.2).bind fun p2 =>
    (block img p2.1).bind fun ic =>
    (parseBlock ic).bind fun ib =>
    (block img p1.1).bind fun mc =>
    (parseBlock mc).bind fun mb =>
    (ib.entries.mapM (dataStep img)).bind fun blocks =>
    some { metaIndex := p1.1, index := p2.1, blocks := blocks, metaEntries := mb.entries } := rfl

theorem dataStep_eq (img : Bytes) (k v : Bytes) : dataStep img (k, v) =
    (Spec.Format.handle v).bind fun p =>
    (Spec.Format.block img p.1).bind fun c =>
    (Spec.Format.parseBlock c).bind fun b =>
    some { handle := p.1, indexKey := k, entries := b.entries, restarts := b.restarts } := rfl

theorem decodeTable_some (img : Bytes) (d : Spec.Format.Decoded) (h : Spec.Format.decodeTable img = some d) :
    ∃ mh r ih r' ic ib mc mb blocks,
      48 ≤ img.length ∧ (img.drop (img.length - 48)).drop 40 = Spec.Format.magic
      ∧ Spec.Format.handle ((img.drop (img.length - 48)).take 40) = some (mh, r)
      ∧ Spec.Format.handle r = some (ih, r')
      ∧ Spec.Format.block img ih = some ic ∧ Spec.Format.parseBlock ic = some ib
      ∧ Spec.Format.block img mh = some mc ∧ Spec.Format.parseBlock mc = some mb
      ∧ ib.entries.mapM (dataStep img) = some blocks
      ∧ d = { metaIndex := mh, index := ih, blocks := blocks, metaEntries := mb.entries } := by
  rw [decodeTable_eq] at h
  have hf : Spec.Format.footerLen = 48 := rfl
  by_cases h48 : img.length < Spec.Format.footerLen
  · rw [if_pos h48] at h; cases h
  rw [if_neg h48] at h
  by_cases hmg : (img.drop (img.length - Spec.Format.footerLen)).drop 40 ≠ Spec.Format.magic
  · rw [if_pos hmg] at h; cases h
  rw [if_neg hmg] at h
  obtain ⟨⟨mh, r⟩, h1, h⟩ := Option.bind_eq_some_iff.1 h
  obtain ⟨⟨ih, r'⟩, h2, h⟩ := Option.bind_eq_some_iff.1 h
  obtain ⟨ic, h3, h⟩ := Option.bind_eq_some_iff.1 h
  obtain ⟨ib, h4, h⟩ := Option.bind_eq_some_iff.1 h
  obtain ⟨mc, h5, h⟩ := Option.bind_eq_some_iff.1 h
  obtain ⟨mb, h6, h⟩ := Option.bind_eq_some_iff.1 h
  obtain ⟨blocks, h7, h⟩ := Option.bind_eq_some_iff.1 h
  exact ⟨mh, r, ih, r', ic, ib, mc, mb, blocks, by omega, Classical.not_not.mp hmg, h1, h2, h3, h4, h5, h6,
    h7, (Option.some.inj h).symm⟩

theorem dataStep_some (img : Bytes) (k v : Bytes) (b : Spec.Format.DataBlock)
    (h : dataStep img (k, v) = some b) :
    ∃ rest c info, Spec.Format.handle v = some (b.handle, rest) ∧ Spec.Format.block img b.handle = some c
      ∧ Spec.Format.parseBlock c = some info ∧ b.indexKey = k ∧ b.entries = info.entries
      ∧ b.restarts = info.restarts := by
  rw [dataStep_eq] at h
  obtain ⟨⟨hd, rest⟩, h1, h⟩ := Option.bind_eq_some_iff.1 h
  obtain ⟨c, h2, h⟩ := Option.bind_eq_some_iff.1 h
  obtain ⟨info, h3, h⟩ := Option.bind_eq_some_iff.1 h
  have := Option.some.inj h
  subst this
  exact ⟨rest, c, info, h1, h2, h3, rfl, rfl, rfl⟩

/-- `mapM` in `Option`: a successful run pairs every input with its output; with witnesses -/
theorem mapM_some_witness {α β γ : Type} (f : α → Option β) (R : α → β → γ → Prop)
    (hR : ∀ a b, f a = some b → ∃ c, R a b c) :
    ∀ (l : List α) (r : List β), l.mapM f = some r →
      ∃ zs : List (α × β × γ), zs.map (·.1) = l ∧ zs.map (·.2.1) = r ∧ ∀ z ∈ zs, R z.1 z.2.1 z.2.2 := by
  intro l
  induction l with
  | nil =>
    intro r h
    simp at h
    exact ⟨[], rfl, by simp [h], by simp⟩
  | cons a l ih =>
    intro r h
    rw [List.mapM_cons] at h
    cases h1 : f a with
    | none => simp [h1] at h
    | some b =>
      cases h2 : l.mapM f with
      | none => simp [h1, h2] at h
      | some bs =>
        simp [h1, h2] at h
        obtain ⟨zs, e1, e2, hz⟩ := ih bs h2
        obtain ⟨c, hc⟩ := hR a b h1
        refine ⟨(a, b, c) :: zs, by simp [e1], by simp [e2, h], ?_⟩
        intro z hzm
        rcases List.mem_cons.1 hzm with rfl | hzm
        · exact hc
        · exact hz z hzm


/-! ### one table block -/

/-- a block the Spec reads and parses at `h` is a table block for the reader, with a parse witness -/
theorem specTableBlock (img : Bytes) (hsmall : img.length < 2 ^ 64) (h : Spec.Format.Handle) (c : Bytes)
    (info : Spec.Format.BlockInfo) (hb : Spec.Format.block img h = some c)
    (hp : Spec.Format.parseBlock c = some info) :
    ∃ p : PBlock, p.contents = c ∧ p.rs = info.restarts ∧ p.WF ∧ p.kvs = info.entries
      ∧ tableBlockAt img ⟨h.offset, h.size⟩ = .ok c ∧ InBounds ⟨h.offset, h.size⟩ img.length
      ∧ h.offset < 2 ^ 64 ∧ h.size < 2 ^ 64 := by
  have hc := block_contents_small img h c hsmall hb
  obtain ⟨es, hwf, hkv⟩ := parseBlock_wf c info hc hp
  obtain ⟨hread, hbounds⟩ := specBlock_blockAt img h c hsmall hb
  have hin := (block_some img h c hb).1
  refine ⟨⟨c, es, info.restarts⟩, rfl, rfl, ⟨hwf, hc⟩, hkv, ?_, hbounds, by omega, by omega⟩
  unfold tableBlockAt
  rw [hread]
  simp only [isWellFormed_complete c es info.restarts hwf, if_true]

theorem kvs_keys (p : PBlock) : p.kvs.map (·.1) = p.es.map (·.key) := by
  unfold PBlock.kvs kvOf
  rw [List.map_map]
  rfl

/-- what ties an index entry, the Spec's data block and the reader-side witness together -/
structure DataRel (img : Bytes) (a : Bytes × Bytes) (b : Spec.Format.DataBlock) (c : DBlock) : Prop where
  sep : c.sep = a.1
  hval : c.hval = a.2
  ikey : b.indexKey = a.1
  handle : c.handle = ⟨b.handle.offset, b.handle.size⟩
  dec : ∃ n, BlockHandle.tryDecode c.hval = some (c.handle, n)
  bounds : InBounds c.handle img.length
  read : tableBlockAt img c.handle = .ok c.blk.contents
  wf : c.blk.WF
  kvs : c.blk.kvs = b.entries

theorem dataStep_rel (img : Bytes) (hsmall : img.length < 2 ^ 64) (a : Bytes × Bytes)
    (b : Spec.Format.DataBlock) (h : dataStep img a = some b) : ∃ c : DBlock, DataRel img a b c := by
  obtain ⟨k, v⟩ := a
  obtain ⟨rest, c, info, h1, h2, h3, hk, he, _⟩ := dataStep_some img k v b h
  obtain ⟨p, hpc, _, hpwf, hpkv, hread, hbounds, ho, hz⟩ := specTableBlock img hsmall b.handle c info h2 h3
  obtain ⟨n, hn, _, _⟩ := specHandle_tryDecode' v b.handle rest h1 ho hz
  refine ⟨⟨k, v, ⟨b.handle.offset, b.handle.size⟩, p⟩, rfl, rfl, hk, rfl, ⟨n, hn⟩, hbounds, ?_, hpwf, ?_⟩
  · rw [hpc]; exact hread
  · rw [hpkv, he]

end ST

theorem specHandle_tryDecode (v : Bytes) (h : Spec.Format.Handle) (rest : Bytes)
    (hs : Spec.Format.handle v = some (h, rest)) (ho : h.offset < 2^64) (hz : h.size < 2^64) :
    ∃ n, BlockHandle.tryDecode v = some (⟨h.offset, h.size⟩, n) := by
  obtain ⟨n, hn, _⟩ := ST.specHandle_tryDecode' v h rest hs ho hz
  exact ⟨n, hn⟩

/-- every table image that is well formed according to the independent Spec decoder is well formed in the
    reader's sense, with the same entries, metaindex entries, block handles and index keys -/
theorem specTable_wf (cmp : Cmp) (img : Bytes) (d : Spec.Format.Decoded) (h : Spec.Format.WFTable cmp img d) :
    ∃ t : TableImg, t.img = img ∧ t.WF cmp ∧ t.entries = d.entries ∧ t.metaix.kvs = d.metaEntries
      ∧ t.blocks.map (fun b => (b.handle.offset, b.handle.size, b.sep))
          = d.blocks.map (fun b => (b.handle.offset, b.handle.size, b.indexKey)) := by
  have hsmall := h.small
  obtain ⟨mh, r, ih, r', ic, ib, mc, mb, blocks, h48, hmagic, hh1, hh2, hib, hip, hmb, hmp, hmap, hd⟩ :=
    ST.decodeTable_some img d h.decodes
  obtain ⟨pi, hpic, _, hpiwf, hpikv, hiread, hibounds, hio, his⟩ :=
    ST.specTableBlock img hsmall ih ic ib hib hip
  obtain ⟨pm, hpmc, _, hpmwf, hpmkv, hmread, hmbounds, hmo, hms⟩ :=
    ST.specTableBlock img hsmall mh mc mb hmb hmp
  obtain ⟨zs, hz1, hz2, hzR⟩ := ST.mapM_some_witness (ST.dataStep img) (ST.DataRel img)
    (ST.dataStep_rel img hsmall) ib.entries blocks hmap
  have hdb : d.blocks = zs.map (·.2.1) := by rw [hd]; exact hz2.symm
  have hdm : d.metaEntries = mb.entries := by rw [hd]
  -- index correspondence between the two block lists
  have hidx : ∀ (i : Nat) (di : DBlock), (zs.map (·.2.2))[i]? = some di →
      ∃ z, zs[i]? = some z ∧ z ∈ zs ∧ z.2.2 = di ∧ d.blocks[i]? = some z.2.1 := by
    intro i di hi
    rw [List.getElem?_map] at hi
    cases hz : zs[i]? with
    | none => rw [hz] at hi; cases hi
    | some z =>
      rw [hz] at hi
      refine ⟨z, rfl, List.mem_of_getElem? hz, Option.some.inj hi, ?_⟩
      rw [hdb, List.getElem?_map, hz]; rfl
  have hmem : ∀ di ∈ zs.map (·.2.2), ∃ z ∈ zs, z.2.2 = di := fun di hdi => List.mem_map.1 hdi
  have hkeys : ∀ z ∈ zs, z.2.2.keys = z.2.1.entries.map (·.1) := by
    intro z hz
    rw [← (hzR z hz).kvs]
    exact (ST.kvs_keys _).symm
  refine ⟨⟨img, ⟨mh.offset, mh.size⟩, ⟨ih.offset, ih.size⟩, pi, pm, zs.map (·.2.2)⟩, rfl, ?_, ?_, ?_, ?_⟩
  · refine
      { size := ⟨h48, hsmall⟩
        footer := ?_
        metaBounds := hmbounds
        indexBounds := hibounds
        indexRead := by rw [hpic]; exact hiread
        indexWF := hpiwf
        indexKVs := ?_
        metaRead := by rw [hpmc]; exact hmread
        metaWF := hpmwf
        metaSorted := ?_
        hval := ?_
        dataBounds := ?_
        dataRead := ?_
        dataWF := ?_
        dataNonempty := ?_
        offsetsDistinct := ?_
        sorted := ?_
        sepGe := ?_
        sepLt := ?_ }
    · -- footer
      apply ST.footer_tryDecode _ mh ih r r' _ hmagic hh1 hh2 hmo hms hio his
      rw [List.length_drop]; omega
    · -- index entries
      show pi.kvs = (zs.map (·.2.2)).map (fun d => (d.sep, d.hval))
      rw [hpikv, ← hz1, List.map_map]
      apply List.map_congr_left
      intro z hz
      have hr := hzR z hz
      show z.1 = (z.2.2.sep, z.2.2.hval)
      rw [hr.sep, hr.hval]
    · -- metaindex keys
      show KeysSorted cmp (pm.es.map (·.key))
      rw [← ST.kvs_keys, hpmkv, ← hdm]
      exact h.metaSorted
    · intro di hdi
      obtain ⟨z, hz, rfl⟩ := hmem di hdi
      exact (hzR z hz).dec
    · intro di hdi
      obtain ⟨z, hz, rfl⟩ := hmem di hdi
      exact (hzR z hz).bounds
    · intro di hdi
      obtain ⟨z, hz, rfl⟩ := hmem di hdi
      exact (hzR z hz).read
    · intro di hdi
      obtain ⟨z, hz, rfl⟩ := hmem di hdi
      exact (hzR z hz).wf
    · intro di hdi
      obtain ⟨z, hz, rfl⟩ := hmem di hdi
      intro hnil
      have hb : z.2.1 ∈ d.blocks := by rw [hdb]; exact List.mem_map.2 ⟨z, hz, rfl⟩
      apply h.nonempty _ hb
      have := (hzR z hz).kvs
      rw [← this]
      unfold PBlock.kvs kvOf
      rw [hnil]; rfl
    · intro i j di dj hi hj hoff
      obtain ⟨zi, _, hzi, rfl, hbi⟩ := hidx i di hi
      obtain ⟨zj, _, hzj, rfl, hbj⟩ := hidx j dj hj
      apply h.distinct i j _ _ hbi hbj
      rw [(hzR zi hzi).handle, (hzR zj hzj).handle] at hoff
      exact hoff
    · -- sortedness of all keys
      show KeysSorted cmp ((List.map (·.keys) (zs.map (·.2.2))).flatten)
      have hs := h.sorted
      unfold Spec.Format.Decoded.entries at hs
      rw [hdb, List.map_flatten, List.map_map, List.map_map] at hs
      rw [List.map_map]
      have : List.map ((·.keys) ∘ (·.2.2)) zs
          = List.map (List.map (·.1) ∘ (·.entries) ∘ (·.2.1)) zs := by
        apply List.map_congr_left
        intro z hz
        exact hkeys z hz
      rw [this]
      exact hs
    · intro di hdi k hk
      obtain ⟨z, hz, rfl⟩ := hmem di hdi
      rw [hkeys z hz] at hk
      obtain ⟨e, he, rfl⟩ := List.mem_map.1 hk
      have hb : z.2.1 ∈ d.blocks := by rw [hdb]; exact List.mem_map.2 ⟨z, hz, rfl⟩
      have hr := hzR z hz
      rw [hr.sep, ← hr.ikey]
      exact h.sepGe _ hb e he
    · intro i j di dj hij hi hj k hk
      obtain ⟨zi, _, hzi, rfl, hbi⟩ := hidx i di hi
      obtain ⟨zj, _, hzj, rfl, hbj⟩ := hidx j dj hj
      rw [hkeys zj hzj] at hk
      obtain ⟨e, he, rfl⟩ := List.mem_map.1 hk
      have hr := hzR zi hzi
      rw [hr.sep, ← hr.ikey]
      exact h.sepLt i j _ _ hij hbi hbj e he
  · -- entries
    show (List.map (·.blk.kvs) (zs.map (·.2.2))).flatten = d.entries
    unfold Spec.Format.Decoded.entries
    rw [hdb, List.map_map, List.map_map]
    congr 1
    apply List.map_congr_left
    intro z hz
    exact (hzR z hz).kvs
  · show pm.kvs = d.metaEntries
    rw [hpmkv, hdm]
  · show (zs.map (·.2.2)).map (fun b => (b.handle.offset, b.handle.size, b.sep)) = _
    rw [hdb, List.map_map, List.map_map]
    apply List.map_congr_left
    intro z hz
    have hr := hzR z hz
    show (z.2.2.handle.offset, z.2.2.handle.size, z.2.2.sep) = (z.2.1.handle.offset, z.2.1.handle.size, z.2.1.indexKey)
    rw [hr.handle, hr.sep, hr.ikey]

end Sst

#print axioms Sst.Spec.mask_eq
#print axioms Sst.specBlock_blockAt
#print axioms Sst.specHandle_tryDecode
#print axioms Sst.specTable_wf
