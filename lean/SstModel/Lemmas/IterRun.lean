import SstModel.Spec.Cursor
import SstModel.Lemmas.TableIter
/-
  The table iterator driven by a call history: `TableIter.call` dispatches one `Spec.IterOp` to the
  model operation, `TableIter.run` performs a list of calls in sequence. `call_ok` is the one-step
  refinement of `Spec.CursorStep` (assembled from the `simT_*` lemmas); the remaining lemmas are facts
  about `Spec.CursorRun` on particular histories.
-/
namespace Sst
open Spec TwoLevel TI

/-- one client call on the iterator, with its result packed as an `IterOut` -/
def TableIter.call (it : TableIter) : IterOp → M (TableIter × IterOut)
  | .advance => it.advance >>= fun r => pure (r.1, .flag r.2)
  | .next => it.next >>= fun r => pure (r.1, .entry r.2)
  | .prev => it.prev >>= fun r => pure (r.1, .flag r.2)
  | .reset => pure (it.reset, .unit)
  | .seekToFirst => it.seekToFirst >>= fun it' => pure (it', .unit)
  | .seek t => it.seek t >>= fun it' => pure (it', .unit)
  | .valid => pure (it, .flag it.valid)
  | .current => it.current >>= fun e => pure (it, .entry e)
  | .currentKey => pure (it, .key it.currentKey)

/-- a call history, performed in order; stops at the first call that does not return `ok` -/
def TableIter.run : TableIter → List IterOp → M (TableIter × List IterOut)
  | it, [] => pure (it, [])
  | it, op :: ops =>
    it.call op >>= fun r => TableIter.run r.1 ops >>= fun s => pure (s.1, r.2 :: s.2)

theorem TableIter.run_nil (it : TableIter) (w : World) : it.run [] w = (w, .ok (it, [])) := rfl

theorem TableIter.run_cons {it it1 it2 : TableIter} {op : IterOp} {ops : List IterOp} {w w1 w2 : World}
    {out : IterOut} {outs : List IterOut} (h1 : it.call op w = (w1, .ok (it1, out)))
    (h2 : it1.run ops w1 = (w2, .ok (it2, outs))) :
    it.run (op :: ops) w = (w2, .ok (it2, out :: outs)) := by
  show (it.call op >>= fun r => TableIter.run r.1 ops >>= fun s => pure (s.1, r.2 :: s.2)) w = _
  rw [bind_ok h1]
  show (it1.run ops >>= fun s => pure (s.1, out :: s.2)) w1 = _
  rw [bind_ok h2]
  rfl

/-- a valid two-level position is the index of a stored entry -/
theorem flatPos_lt (t : TableImg) (tb : Table) (it : TableIter) (pos : Option (Nat × Nat)) (h : SimT t tb it pos) :
    ∀ i, t.flatPos pos = some i → i < t.entries.length := by
  intro i hi
  cases pos with
  | none => cases hi
  | some q =>
    obtain ⟨bi, li⟩ := q
    obtain ⟨d, cb, hd, hmem, hib, hcb, hs, ho, hl, hkb⟩ := simT_unpack h
    have hi' : flatIdx t.kvBlocks bi li = i := Option.some.inj hi
    rw [← hi', entries_eq]
    exact flatIdx_lt t.kvBlocks bi li _ hkb (by rw [kvOf_length]; exact hl)

section
variable (cmp : Cmp) (hc : cmp.Lawful) (p : FilterPolicy) (t : TableImg) (hwf : t.WF cmp)
  (fv : Option Bytes)
include hc hwf

/-- every single call refines one step of the Spec cursor -/
theorem call_ok (tb : Table) (hop : Opened tb t cmp p fv) (op : IterOp)
    (w : World) (hw : WorldOK w tb t) (it : TableIter) (pos : Option (Nat × Nat))
    (h : SimT t tb it pos) :
    ∃ w' it' pos' out, it.call op w = (w', .ok (it', out))
      ∧ CursorStep cmp t.entries (t.flatPos pos) op (t.flatPos pos') out
      ∧ SimT t tb it' pos' ∧ WorldOK w' tb t ∧ Frame w w' tb := by
  cases op with
  | advance =>
    obtain ⟨w', it', pos', hrun, hs, hflat, hw', hfr⟩ :=
      simT_advance cmp hc p t hwf fv tb hop w hw it pos h
    refine ⟨w', it', pos', .flag (Spec.advance t.entries (t.flatPos pos)).2, ?_, ?_, hs, hw', hfr⟩
    · show (it.advance >>= fun r => pure (r.1, IterOut.flag r.2)) w = _
      rw [bind_ok hrun]; rfl
    · rw [hflat]; exact CursorStep.advance _
  | next =>
    obtain ⟨w', it', pos', hrun, hs, hflat, hw', hfr⟩ :=
      simT_next cmp hc p t hwf fv tb hop w hw it pos h
    refine ⟨w', it', pos', .entry (entryAt t.entries (Spec.advance t.entries (t.flatPos pos)).1),
        ?_, ?_, hs, hw', hfr⟩
    · show (it.next >>= fun r => pure (r.1, IterOut.entry r.2)) w = _
      rw [bind_ok hrun]; rfl
    · rw [hflat]; exact CursorStep.next _
  | prev =>
    cases pos with
    | none =>
      obtain ⟨w', it', pos', hrun, hs, hw', hfr⟩ :=
        simT_prev_invalid cmp hc p t hwf fv tb hop w hw it h
      refine ⟨w', it', pos', .flag (t.flatPos pos').isSome, ?_, ?_, hs, hw', hfr⟩
      · show (it.prev >>= fun r => pure (r.1, IterOut.flag r.2)) w = _
        rw [bind_ok hrun]; rfl
      · exact CursorStep.prevInvalid _ (flatPos_lt t tb it' pos' hs)
    | some q =>
      obtain ⟨bi, li⟩ := q
      obtain ⟨w', it', pos', hrun, hs, hflat, hw', hfr⟩ :=
        simT_prev_valid cmp hc p t hwf fv tb hop w hw it bi li h
      refine ⟨w', it', pos', .flag (Spec.prevValid (flatIdx t.kvBlocks bi li)).2, ?_, ?_, hs, hw', hfr⟩
      · show (it.prev >>= fun r => pure (r.1, IterOut.flag r.2)) w = _
        rw [bind_ok hrun]; rfl
      · rw [hflat]; exact CursorStep.prevValid _
  | reset =>
    exact ⟨w, it.reset, none, .unit, rfl, CursorStep.reset _,
      simT_reset cmp hc p t hwf fv tb hop it pos h, hw, Frame.refl w tb⟩
  | seekToFirst =>
    obtain ⟨w', it', pos', hrun, hs, hflat, hw', hfr⟩ :=
      simT_seekToFirst cmp hc p t hwf fv tb hop w hw it pos h
    refine ⟨w', it', pos', .unit, ?_, ?_, hs, hw', hfr⟩
    · show (it.seekToFirst >>= fun it' => pure (it', IterOut.unit)) w = _
      rw [bind_ok hrun]; rfl
    · rw [hflat]; exact CursorStep.seekToFirst _
  | seek target =>
    obtain ⟨w', it', pos', hrun, hs, hflat, hw', hfr⟩ :=
      simT_seek cmp hc p t hwf fv tb hop w hw it pos h target
    refine ⟨w', it', pos', .unit, ?_, ?_, hs, hw', hfr⟩
    · show (it.seek target >>= fun it' => pure (it', IterOut.unit)) w = _
      rw [bind_ok hrun]; rfl
    · rw [hflat]; exact CursorStep.seek _ _
  | valid =>
    refine ⟨w, it, pos, .flag it.valid, rfl, ?_, h, hw, Frame.refl w tb⟩
    rw [simT_valid cmp hc p t hwf fv tb hop it pos h]
    exact CursorStep.valid _
  | current =>
    refine ⟨w, it, pos, .entry (entryAt t.entries (t.flatPos pos)), ?_, CursorStep.current _, h, hw,
      Frame.refl w tb⟩
    show (it.current >>= fun e => pure (it, IterOut.entry e)) w = _
    rw [bind_ok (simT_current cmp hc p t hwf fv tb hop w it pos h)]; rfl
  | currentKey =>
    refine ⟨w, it, pos, .key it.currentKey, rfl, ?_, h, hw, Frame.refl w tb⟩
    rw [simT_currentKey cmp hc p t hwf fv tb hop it pos h]
    exact CursorStep.currentKey _

end

/-! ### the Spec cursor on particular histories -/

/-- scanning forward from a valid position: the remaining entries, then `none` -/
theorem cursorRun_next_some (cmp : Cmp) (es : List Entry) :
    ∀ (n i : Nat) (q : Pos) (outs : List IterOut), i + n + 1 = es.length →
      CursorRun cmp es (some i) (List.replicate (n + 1) IterOp.next) q outs →
      outs = (es.drop (i + 1)).map (fun e => IterOut.entry (some e)) ++ [IterOut.entry none] := by
  intro n
  induction n with
  | zero =>
    intro i q outs hlen hrun
    rw [List.replicate_succ] at hrun
    cases hrun with
    | cons hstep hrest =>
      cases hrest
      cases hstep
      have hA : Spec.advance es (some i) = (none, false) := by
        simp only [Spec.advance]; rw [if_neg (by omega)]
      rw [hA, List.drop_eq_nil_of_le (by omega)]
      rfl
  | succ n ih =>
    intro i q outs hlen hrun
    rw [List.replicate_succ] at hrun
    cases hrun with
    | cons hstep hrest =>
      cases hstep
      have hlt : i + 1 < es.length := by omega
      have hA : Spec.advance es (some i) = (some (i + 1), true) := by
        simp only [Spec.advance]; rw [if_pos hlt]
      rw [hA] at hrest
      rw [hA, ih (i + 1) q _ (by omega) hrest, List.drop_eq_getElem_cons hlt]
      show IterOut.entry es[i + 1]? :: _ = _
      rw [List.getElem?_eq_getElem hlt]
      rfl

/-- C01 on the Spec cursor: from before-first, `length + 1` calls of `next` return the entries in
    order and then `none` -/
theorem cursorRun_scan (cmp : Cmp) (es : List Entry) (q : Pos) (outs : List IterOut)
    (hrun : CursorRun cmp es none (List.replicate (es.length + 1) IterOp.next) q outs) :
    outs = es.map (fun e => IterOut.entry (some e)) ++ [IterOut.entry none] := by
  cases es with
  | nil =>
    cases hrun with
    | cons hstep hrest =>
      cases hrest
      cases hstep
      rfl
  | cons e rest =>
    rw [List.replicate_succ] at hrun
    cases hrun with
    | cons hstep hrest =>
      cases hstep
      have hA : Spec.advance (e :: rest) none = (some 0, true) := rfl
      rw [hA] at hrest
      rw [hA, cursorRun_next_some cmp (e :: rest) rest.length 0 q _ (by simp) hrest]
      rfl

/-- C03 on the Spec cursor: `seek`, `current`, `valid` from any position -/
theorem cursorRun_seek_current (cmp : Cmp) (es : List Entry) (p q : Pos) (target : Bytes)
    (outs : List IterOut)
    (hrun : CursorRun cmp es p [.seek target, .current, .valid] q outs) :
    outs = [.unit, .entry (entryAt es (lowerBound cmp es target)),
            .flag (lowerBound cmp es target).isSome] := by
  cases hrun with
  | cons h1 hrest =>
    cases h1
    generalize lowerBound cmp es target = l at hrest ⊢
    cases hrest with
    | cons h2 hrest =>
      cases h2
      cases hrest with
      | cons h3 hrest =>
        cases h3
        cases hrest
        rfl

end Sst

#print axioms Sst.call_ok
#print axioms Sst.cursorRun_scan
#print axioms Sst.cursorRun_seek_current
