import SstModel.Lemmas.BuildLayout3
/-
  C05 (writer side), part 4: auxiliary facts for reading the finished file back — positions of the
  blocks, size bounds, parsed blocks, filter events.
-/
namespace Sst

/-- an explicit bound on the uncompressed sizes (every block's contents are shorter than this) -/
def sizeBound (opt : WOpts) (es : List (Bytes × Bytes)) : Nat :=
  (es.map (fun e => 2 * e.1.length + e.2.length + 64)).sum + (TableBuilder.filterKey opt.filter).length + 1024

/-- what the bridge to the independent decoder (`Spec.Format`, C05) needs and `TableImg.WF` does not
    give: every table block is accepted by the independent block parser (with the reader's entries
    and restart array), and handles / footer are the canonical encodings -/
structure SpecExtras (t : TableImg) : Prop where
  dataParse : ∀ d ∈ t.blocks,
    Spec.Format.parseBlock d.blk.contents = some { entries := d.blk.kvs, restarts := d.blk.rs }
  indexParse : Spec.Format.parseBlock t.index.contents = some { entries := t.index.kvs, restarts := t.index.rs }
  metaParse : Spec.Format.parseBlock t.metaix.contents = some { entries := t.metaix.kvs, restarts := t.metaix.rs }
  hvalEnc : ∀ d ∈ t.blocks, d.hval = d.handle.encode
  footerEnc : t.img.drop (t.img.length - 48) = (Footer.mk t.metaHandle t.indexHandle).encode
  /-- metaindex values are canonical handles of blocks stored uncompressed -/
  metaValEnc : ∀ e ∈ t.metaix.kvs, ∃ h : BlockHandle, e.2 = h.encode ∧ h.offset + h.size ≤ t.img.length
    ∧ ∀ c, blockAt t.img h = .ok c → c.length = h.size

namespace BL

/-! ### generic list facts -/

theorem exists_pairs {α β : Type} (R : α → β → Prop) : ∀ l : List α, (∀ a ∈ l, ∃ b, R a b) →
    ∃ ps : List (α × β), ps.map Prod.fst = l ∧ ∀ p ∈ ps, R p.1 p.2
  | [], _ => ⟨[], rfl, fun p hp => by cases hp⟩
  | a :: l, h => by
    obtain ⟨b, hb⟩ := h a (by simp)
    obtain ⟨ps, hps, hR⟩ := exists_pairs R l (fun a' ha' => h a' (by simp [ha']))
    refine ⟨(a, b) :: ps, by simp [hps], ?_⟩
    intro p hp
    rcases List.mem_cons.1 hp with rfl | hp
    · exact hb
    · exact hR p hp

theorem pairwise_getElem? {α : Type} {R : α → α → Prop} {l : List α} (h : l.Pairwise R) {i j : Nat} {a b : α}
    (hi : l[i]? = some a) (hj : l[j]? = some b) (hij : i < j) : R a b := by
  obtain ⟨hi1, hi2⟩ := List.getElem?_eq_some_iff.1 hi
  obtain ⟨hj1, hj2⟩ := List.getElem?_eq_some_iff.1 hj
  rw [← hi2, ← hj2]
  exact List.pairwise_iff_getElem.1 h i j hi1 hj1 hij

theorem le_sum_of_mem {α : Type} (g : α → Nat) : ∀ (l : List α) (a : α), a ∈ l → g a ≤ (l.map g).sum
  | [], _, h => by cases h
  | b :: l, a, h => by
    rcases List.mem_cons.1 h with rfl | h
    · simp
    · have := le_sum_of_mem g l a h
      simp only [List.map_cons, List.sum_cons]; omega

/-! ### positions -/

theorem offs_pos (opt : WOpts) : ∀ (fl : List Fl) (o : Nat), Offs opt o fl → ∀ f ∈ fl,
    ∃ pre post, image opt fl = pre ++ f.phys opt ++ post ∧ f.off = o + pre.length
  | [], _, _, f, hf => by cases hf
  | g :: r, o, h, f, hf => by
    simp only [Offs] at h
    rcases List.mem_cons.1 hf with rfl | hf
    · exact ⟨[], image opt r, by simp [image_cons], by simp [h.1]⟩
    · obtain ⟨pre, post, h1, h2⟩ := offs_pos opt r _ h.2 f hf
      refine ⟨g.phys opt ++ pre, post, by rw [image_cons, h1]; simp, ?_⟩
      rw [h2, List.length_append, phys_length]; omega

theorem offs_ge (opt : WOpts) : ∀ (fl : List Fl) (o : Nat), Offs opt o fl → ∀ f ∈ fl, o ≤ f.off
  | [], _, _, f, hf => by cases hf
  | g :: r, o, h, f, hf => by
    simp only [Offs] at h
    rcases List.mem_cons.1 hf with rfl | hf
    · omega
    · have := offs_ge opt r _ h.2 f hf; omega

theorem offs_pairwise (opt : WOpts) : ∀ (fl : List Fl) (o : Nat), Offs opt o fl →
    fl.Pairwise (fun f g => f.off + (f.data opt).length + 5 ≤ g.off)
  | [], _, _ => List.Pairwise.nil
  | g :: r, o, h => by
    simp only [Offs] at h
    refine List.pairwise_cons.2 ⟨?_, offs_pairwise opt r _ h.2⟩
    intro f hf
    have := offs_ge opt r _ h.2 f hf
    omega

/-! ### sizes -/

/-- the weight of an entry in `sizeBound` -/
def wt (e : Bytes × Bytes) : Nat := 2 * e.1.length + e.2.length + 64
def wts (es : List (Bytes × Bytes)) : Nat := (es.map wt).sum

theorem sizeBound_eq (opt : WOpts) (es : List (Bytes × Bytes)) :
    sizeBound opt es = wts es + (TableBuilder.filterKey opt.filter).length + 1024 := rfl

theorem wts_append (a b : List (Bytes × Bytes)) : wts (a ++ b) = wts a + wts b := by simp [wts]

theorem wts_allKvs : ∀ fl : List Fl, wts (allKvs fl) = (fl.map (fun f => wts f.kvs)).sum
  | [] => rfl
  | f :: r => by
    have : allKvs (f :: r) = f.kvs ++ allKvs r := by simp [allKvs]
    rw [this, wts_append, wts_allKvs r]; simp

theorem cost_le_wt (e : Bytes × Bytes) (h : wt e < 2 ^ 32) : cost e ≤ wt e := by
  unfold wt at h
  have h1 := vlen_le5 e.1.length (by omega)
  have h2 := vlen_le5 e.2.length (by omega)
  unfold cost wt; omega

theorem costs_le_wts : ∀ es : List (Bytes × Bytes), wts es < 2 ^ 32 → costs es ≤ wts es
  | [], _ => by simp [costs, wts]
  | e :: r, h => by
    have hw : wts (e :: r) = wt e + wts r := by simp [wts]
    have hc : costs (e :: r) = cost e + costs r := by simp [costs]
    rw [hw] at h
    have := cost_le_wt e (by omega)
    have := costs_le_wts r (by omega)
    omega

theorem encode_len_le10 (h : BlockHandle) (ho : h.offset < 2 ^ 32) (hs : h.size < 2 ^ 32) :
    h.encode.length ≤ 10 := by
  have := vlen_le5 _ ho
  have := vlen_le5 _ hs
  unfold vlen at *
  simp only [BlockHandle.encode, List.length_append]; omega

/-- cost of an index / metaindex entry with a short value -/
theorem cost_ix (k v : Bytes) (hk : k.length < 2 ^ 32) (hv : v.length ≤ 10) : cost (k, v) ≤ k.length + 25 := by
  have h1 := vlen_le5 k.length hk
  have h2 := vlen_le1 v.length (by omega)
  unfold cost
  simp only
  omega

/-! ### reading a stored block back -/

theorem ty_toNat {opt : WOpts} (hok : WOptsOK opt) : (ty opt).toNat = opt.compression := by
  unfold ty
  rcases hok.ctype with h | h <;> rw [h] <;> rfl

theorem stored_none {opt : WOpts} (h : opt.compression = 0) (c : Bytes) : stored opt c = c := by
  unfold stored sdata
  rw [h]; simp [Consts.compressionSnappy]

theorem stored_snappy {opt : WOpts} (h : opt.compression = 1) (c : Bytes) : stored opt c = opt.compress c := by
  unfold stored sdata
  rw [h]; simp [Consts.compressionSnappy]

theorem blockAt_stored {opt : WOpts} (hok : WOptsOK opt) (c : Bytes) (hc : c.length < 2 ^ 32)
    (pre post : Bytes) :
    blockAt (pre ++ physicalBlock (stored opt c) (ty opt) ++ post) ⟨pre.length, (stored opt c).length⟩
      = .ok c := by
  rw [blockAt_phys, ty_toNat hok]
  rcases hok.ctype with h | h
  · rw [if_pos h, stored_none h]
  · rw [if_neg (by omega), if_pos h, stored_snappy h, hok.lossless h c hc]

/-- a block builder's output, stored in an image, as the reader parses it -/
theorem parse_block {opt : WOpts} (hok : WOptsOK opt) {bb : BlockBuilder} {kvs : List (Bytes × Bytes)}
    (hinv : BlockBuild.Inv opt.restartInterval bb kvs) (hlen : bb.finish.length < 2 ^ 32)
    (pre post : Bytes)
    (hsz : (pre ++ physicalBlock (stored opt bb.finish) (ty opt) ++ post).length < 2 ^ 64) :
    ∃ p : PBlock, p.contents = bb.finish ∧ p.WF ∧ p.kvs = kvs ∧
      tableBlockAt (pre ++ physicalBlock (stored opt bb.finish) (ty opt) ++ post)
        ⟨pre.length, (stored opt bb.finish).length⟩ = .ok bb.finish ∧
      InBounds ⟨pre.length, (stored opt bb.finish).length⟩
        (pre ++ physicalBlock (stored opt bb.finish) (ty opt) ++ post).length := by
  obtain ⟨es, rs, hwf, hkv⟩ := BlockBuild.finish_wf _ bb kvs hinv hlen
  refine ⟨⟨bb.finish, es, rs⟩, rfl, ⟨hwf, by show bb.finish.length < 2 ^ 64; omega⟩, hkv, ?_,
    inBounds_phys _ _ _ _ hsz⟩
  unfold tableBlockAt
  rw [blockAt_stored hok _ hlen]
  simp only [isWellFormed_complete _ _ _ hwf, if_true]

/-- a block builder's output is accepted by the independent decoder, which reads what the reader's
    parse witness says -/
theorem parse_block_spec {ri : Nat} {bb : BlockBuilder} {kvs : List (Bytes × Bytes)}
    (hinv : BlockBuild.Inv ri bb kvs) (hsz : SzB bb kvs) (hlen : bb.finish.length < 2 ^ 32)
    (p : PBlock) (hc : p.contents = bb.finish) (hwf : p.WF) :
    Spec.Format.parseBlock p.contents = some { entries := p.kvs, restarts := p.rs } := by
  have h := SBC.finish_parse ri bb kvs hinv hsz.2 hlen
  rw [← hc] at h
  have := parseBlock_eq_of_wf p.contents p.es p.rs hwf.1 hwf.2 _ h
  rw [h, this]
  rfl

/-! ### filter events -/

theorem fbAdded_keys (off : Nat) (k : Bytes) (cur : Nat) (rest : List FbEvent) :
    ∀ kvs : List (Bytes × Bytes), (cur = off ∧ k ∈ kvs.map Prod.fst) ∨ fbAdded off k cur rest →
      fbAdded off k cur (evKeys kvs ++ rest)
  | [], h => by
    rcases h with ⟨_, h⟩ | h
    · cases h
    · exact h
  | e :: kvs, h => by
    show (cur = off ∧ e.1 = k) ∨ fbAdded off k cur (evKeys kvs ++ rest)
    rcases h with ⟨h1, h2⟩ | h
    · rcases List.mem_cons.1 h2 with h3 | h3
      · exact .inl ⟨h1, h3.symm⟩
      · exact .inr (fbAdded_keys off k cur rest kvs (.inl ⟨h1, h3⟩))
    · exact .inr (fbAdded_keys off k cur rest kvs (.inr h))

theorem events_cons (opt : WOpts) (f : Fl) (r : List Fl) :
    events opt (f :: r) = evKeys f.kvs ++ (FbEvent.start (f.off + (f.data opt).length + 5) :: events opt r) := by
  simp [events, Fl.events]

theorem fbAdded_events (opt : WOpts) : ∀ (fl : List Fl) (o : Nat), Offs opt o fl → ∀ f ∈ fl,
    ∀ k ∈ f.kvs.map Prod.fst, fbAdded f.off k o (events opt fl)
  | [], _, _, f, hf, _, _ => by cases hf
  | g :: r, o, h, f, hf, k, hk => by
    simp only [Offs] at h
    rw [events_cons]
    apply fbAdded_keys
    rcases List.mem_cons.1 hf with rfl | hf
    · exact .inl ⟨h.1.symm, hk⟩
    · right
      show fbAdded f.off k (g.off + (g.data opt).length + 5) (events opt r)
      rw [h.1]
      exact fbAdded_events opt r _ h.2 f hf k hk

end BL
end Sst
