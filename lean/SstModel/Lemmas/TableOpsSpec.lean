import SstModel.Lemmas.TableSpec
import SstModel.Lemmas.TableRead
import SstModel.Lemmas.TwoLevel
/-
  Definitions shared by the reader-operation proofs: what an opened table handle is (`Opened`), the
  world invariant (`WorldOK`), what an operation may change in the world (`Frame`), and the
  simulation between the two-level table iterator and a two-level cursor position (`SimT`).
-/
namespace Sst

/-- `tb` is the handle `Table::new` returns for image `t` read with comparator `cmp` and filter
    policy `p`; `fv` is the filter block this policy sees in the image (`FilterView`) -/
structure Opened (tb : Table) (t : TableImg) (cmp : Cmp) (p : FilterPolicy) (fv : Option Bytes) : Prop where
  fileSize : tb.fileSize = t.img.length
  opt : tb.opt = ⟨cmp, p⟩
  footer : tb.footer = ⟨t.metaHandle, t.indexHandle⟩
  index : tb.indexBlock = t.index.contents
  filters : match fv with
    | none => tb.filters = none
    | some fb => ∃ r, FilterBlockReader.new fb = .ok r ∧ tb.filters = some r

/-- the world as far as table handle `tb` is concerned: its file holds the image, reads do not fail,
    and the shared cache is coherent for this table's id -/
structure WorldOK (w : World) (tb : Table) (t : TableImg) : Prop where
  clean : CleanWorld w tb.file t.img
  coh : Coherent w tb.cacheId t

/-- what a reader operation on `tb` may change: logs and the cache contents (coherently); files, the
    (empty) fault schedule, capacity and id counter stay; other tables' coherence and the capacity
    bound are preserved -/
structure Frame (w w' : World) (tb : Table) : Prop where
  files : w'.files = w.files
  sched : w'.sched = w.sched
  cap : w'.cache.cap = w.cache.cap
  nextId : w'.cache.nextId = w.cache.nextId
  others : ∀ id' t', id' ≠ tb.cacheId → Coherent w id' t' → Coherent w' id' t'
  bound : 1 ≤ w.cache.cap → w.cache.count ≤ w.cache.cap → w'.cache.count ≤ w'.cache.cap

theorem Frame.refl (w : World) (tb : Table) : Frame w w tb :=
  ⟨rfl, rfl, rfl, rfl, fun _ _ _ h => h, fun _ h => h⟩

theorem Frame.trans {w1 w2 w3 : World} {tb : Table} (a : Frame w1 w2 tb) (b : Frame w2 w3 tb) : Frame w1 w3 tb :=
  ⟨b.files.trans a.files, b.sched.trans a.sched, b.cap.trans a.cap, b.nextId.trans a.nextId,
   fun id t h c => b.others id t h (a.others id t h c),
   fun h1 h2 => b.bound (a.cap ▸ h1) (a.bound h1 h2)⟩

/-- the per-block entry lists of a table image -/
def TableImg.kvBlocks (t : TableImg) : List (List Spec.Entry) := t.blocks.map (·.blk.kvs)
def TableImg.seps (t : TableImg) : List Bytes := t.blocks.map (·.sep)

/-- flat cursor position of a two-level position -/
def TableImg.flatPos (t : TableImg) : Option (Nat × Nat) → Spec.Pos
  | none => none
  | some (bi, li) => some (TwoLevel.flatIdx t.kvBlocks bi li)

/-- simulation between the table iterator and a two-level position: `none` = invalid (no block
    loaded, index iterator before-first); `some (bi, li)` = on entry `li` of data block `bi` -/
structure SimT (t : TableImg) (tb : Table) (it : TableIter) (pos : Option (Nat × Nat)) : Prop where
  table : it.table = tb
  at_ : match pos with
    | none => it.currentBlock = none
              ∧ SimB t.index.contents t.index.es t.index.rs it.indexBlock none
    | some (bi, li) => ∃ d cb, t.blocks[bi]? = some d
              ∧ SimB t.index.contents t.index.es t.index.rs it.indexBlock (some bi)
              ∧ it.currentBlock = some cb
              ∧ SimB d.blk.contents d.blk.es d.blk.rs cb (some li)
              ∧ it.currentBlockOff = d.handle.offset

end Sst
