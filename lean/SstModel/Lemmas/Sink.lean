import SstModel.Model.TableBuilder
/-
  C13: the table writer delivers the complete file image to ANY conforming `std::io::Write` sink.
-/
namespace Sst

/-- `s'` is reached from `s` by consuming a schedule prefix that contains no hard error -/
def Cons (s s' : Sink) : Prop := ∃ c, s.sched = c ++ s'.sched ∧ SinkResp.error ∉ c

theorem Cons.refl (s : Sink) : Cons s s := ⟨[], rfl, by simp⟩

theorem Cons.trans {a b c : Sink} (h1 : Cons a b) (h2 : Cons b c) : Cons a c := by
  obtain ⟨c1, e1, n1⟩ := h1
  obtain ⟨c2, e2, n2⟩ := h2
  refine ⟨c1 ++ c2, by rw [e1, e2, List.append_assoc], ?_⟩
  simp [n1, n2]

namespace Sink

theorem writeAll_succ (s : Sink) (buf : Bytes) (fuel : Nat) :
    s.writeAll buf (fuel + 1) =
      if buf.isEmpty then (s, .ok ())
      else
        match s.write buf with
        | (s, .accept 0) => (s, .err .ioError)
        | (s, .accept n) => writeAll s (buf.drop n) fuel
        | (s, .interrupted) => writeAll s buf fuel
        | (s, .error) => (s, .err .ioError) := rfl

/-- all the ways a single `write` can go -/
theorem write_cases (s : Sink) (buf : Bytes) :
    (∃ n, n ≤ buf.length ∧ (s.sched = [] → n = buf.length) ∧
        s.write buf = ({ sched := s.sched.tail, received := s.received ++ buf.take n,
                         log := some buf :: s.log }, .accept n) ∧
        ∀ r rest, s.sched = r :: rest → r ≠ .error)
    ∨ (s.sched = .interrupted :: s.sched.tail ∧
        s.write buf = ({ s with sched := s.sched.tail, log := some buf :: s.log }, .interrupted))
    ∨ (s.sched = .error :: s.sched.tail ∧
        s.write buf = ({ s with sched := s.sched.tail, log := some buf :: s.log }, .error)) := by
  rcases hs : s.sched with _ | ⟨r, rest⟩
  · left
    refine ⟨buf.length, Nat.le_refl _, fun _ => rfl, ?_, by simp⟩
    simp [Sink.write, hs]
  · cases r with
    | accept n =>
      left
      refine ⟨min n buf.length, Nat.min_le_right _ _, by simp, ?_, by simp⟩
      simp [Sink.write, hs]
    | interrupted => right; left; simp [Sink.write, hs]
    | error => right; right; simp [Sink.write, hs]

end Sink

/-- combined statement about `write_all`: prefix growth, schedule consumption, and on success
    complete delivery with no hard error consumed -/
theorem writeAll_spec (s : Sink) (buf : Bytes) (fuel : Nat) :
    ∃ n ≤ buf.length, ∃ c, s.sched = c ++ (s.writeAll buf fuel).1.sched ∧
      (s.writeAll buf fuel).1.received = s.received ++ buf.take n ∧
      ((s.writeAll buf fuel).2 = .ok () → n = buf.length ∧ SinkResp.error ∉ c) := by
  induction fuel generalizing s buf with
  | zero => exact ⟨0, Nat.zero_le _, [], by simp [Sink.writeAll], by simp [Sink.writeAll],
      by simp [Sink.writeAll]⟩
  | succ fuel ih =>
    rw [Sink.writeAll_succ]
    by_cases hb : buf.isEmpty
    · simp only [hb, if_true]
      have : buf = [] := by simpa using hb
      subst this
      exact ⟨0, Nat.le_refl _, [], by simp, by simp, by simp⟩
    · simp only [hb]
      have hne : buf ≠ [] := by simpa using hb
      rcases Sink.write_cases s buf with ⟨n, hn, hn0, hw, hne'⟩ | ⟨hs, hw⟩ | ⟨hs, hw⟩
      · rw [hw]
        cases n with
        | zero =>
          refine ⟨0, Nat.zero_le _, s.sched.take 1, ?_, by simp, by simp⟩
          show s.sched = List.take 1 s.sched ++ s.sched.tail
          cases s.sched <;> simp
        | succ n =>
          show ∃ m ≤ buf.length, ∃ c, s.sched = c ++ (Sink.writeAll _ (buf.drop (n + 1)) fuel).1.sched ∧
            (Sink.writeAll _ (buf.drop (n + 1)) fuel).1.received = s.received ++ buf.take m ∧
            ((Sink.writeAll _ (buf.drop (n + 1)) fuel).2 = .ok () → m = buf.length ∧ SinkResp.error ∉ c)
          obtain ⟨m, hm, c, hc, hr, hok⟩ := ih
            { sched := s.sched.tail, received := s.received ++ buf.take (n + 1), log := some buf :: s.log }
            (buf.drop (n + 1))
          rw [List.length_drop] at hm
          refine ⟨n + 1 + m, by omega, s.sched.take 1 ++ c, ?_, ?_, ?_⟩
          · rw [List.append_assoc, ← hc]
            show s.sched = List.take 1 s.sched ++ s.sched.tail
            cases s.sched <;> simp
          · rw [hr]
            show s.received ++ buf.take (n + 1) ++ (buf.drop (n + 1)).take m = _
            rw [List.append_assoc, ← List.take_add]
          · intro h
            obtain ⟨h1, h2⟩ := hok h
            rw [List.length_drop] at h1
            refine ⟨by omega, ?_⟩
            rcases hsched : s.sched with _ | ⟨r, rest⟩
            · simpa using h2
            · have := hne' r rest hsched
              simp only [List.take_succ_cons, List.take_zero, List.cons_append, List.nil_append,
                List.mem_cons, not_or]
              exact ⟨fun e => this e.symm, h2⟩
      · rw [hw]
        show ∃ m ≤ buf.length, ∃ c, s.sched = c ++ (Sink.writeAll _ buf fuel).1.sched ∧
            (Sink.writeAll _ buf fuel).1.received = s.received ++ buf.take m ∧
            ((Sink.writeAll _ buf fuel).2 = .ok () → m = buf.length ∧ SinkResp.error ∉ c)
        obtain ⟨m, hm, c, hc, hr, hok⟩ := ih
            { s with sched := s.sched.tail, log := some buf :: s.log } buf
        refine ⟨m, hm, .interrupted :: c, ?_, hr, ?_⟩
        · rw [List.cons_append, ← hc]; exact hs
        · intro h
          obtain ⟨h1, h2⟩ := hok h
          exact ⟨h1, by simp [h2]⟩
      · rw [hw]
        exact ⟨0, Nat.zero_le _, [.error], by simpa using hs, by simp, by simp⟩

/-- (1) write_all either delivers the whole buffer, in order, exactly once, or reports an error -/
theorem writeAll_ok (s : Sink) (buf : Bytes) (fuel : Nat) (s' : Sink)
    (h : s.writeAll buf fuel = (s', .ok ())) : s'.received = s.received ++ buf := by
  obtain ⟨n, _, c, _, hr, hok⟩ := writeAll_spec s buf fuel
  rw [h] at hr hok
  obtain ⟨h1, _⟩ := hok rfl
  rw [hr, h1, List.take_length]

/-- whatever happens, what the sink holds only grows by a prefix of the buffer -/
theorem writeAll_prefix (s : Sink) (buf : Bytes) (fuel : Nat) :
    ∃ n ≤ buf.length, (s.writeAll buf fuel).1.received = s.received ++ buf.take n := by
  obtain ⟨n, hn, c, _, hr, _⟩ := writeAll_spec s buf fuel
  exact ⟨n, hn, hr⟩

/-- a hard error response that is consumed makes write_all fail -/
theorem writeAll_ok_consumed (s : Sink) (buf : Bytes) (fuel : Nat) (s' : Sink)
    (h : s.writeAll buf fuel = (s', .ok ())) :
    ∃ consumed, s.sched = consumed ++ s'.sched ∧ SinkResp.error ∉ consumed := by
  obtain ⟨n, _, c, hc, hr, hok⟩ := writeAll_spec s buf fuel
  rw [h] at hc hok
  exact ⟨c, hc, (hok rfl).2⟩

/-- with the fuel the builder passes, write_all never runs out of fuel -/
theorem writeAll_no_diverge (s : Sink) (buf : Bytes) (fuel : Nat)
    (hf : s.sched.length + buf.length + 2 ≤ fuel) :
    (s.writeAll buf fuel).2 ≠ .diverge := by
  induction fuel generalizing s buf with
  | zero => omega
  | succ fuel ih =>
    rw [Sink.writeAll_succ]
    by_cases hb : buf.isEmpty
    · simp [hb]
    · simp only [hb]
      have hne : buf ≠ [] := by simpa using hb
      have hlen : 0 < buf.length := List.length_pos_iff.mpr hne
      rcases Sink.write_cases s buf with ⟨n, hn, hn0, hw, _⟩ | ⟨hs, hw⟩ | ⟨hs, hw⟩
      · rw [hw]
        cases n with
        | zero => simp
        | succ n =>
          show (Sink.writeAll _ (buf.drop (n + 1)) fuel).2 ≠ .diverge
          apply ih
          show s.sched.tail.length + (buf.drop (n + 1)).length + 2 ≤ fuel
          rw [List.length_drop, List.length_tail]
          rcases hsched : s.sched with _ | ⟨r, rest⟩
          · have := hn0 hsched
            simp [hsched] at hf ⊢
            omega
          · simp [hsched] at hf ⊢
            omega
      · rw [hw]
        show (Sink.writeAll _ buf fuel).2 ≠ .diverge
        apply ih
        show s.sched.tail.length + buf.length + 2 ≤ fuel
        rw [hs] at hf
        simp at hf
        rw [List.length_tail]
        rw [hs]
        simp
        omega
      · rw [hw]; simp


/-- a perfect sink (empty schedule) accepts everything -/
theorem writeAll_perfect (s : Sink) (buf : Bytes) (fuel : Nat) (hs : s.sched = []) (hf : 2 ≤ fuel) :
    ∃ s', s.writeAll buf fuel = (s', .ok ()) ∧ s'.sched = [] ∧ s'.received = s.received ++ buf := by
  obtain ⟨f, rfl⟩ : ∃ f, fuel = f + 1 + 1 := ⟨fuel - 2, by omega⟩
  rw [Sink.writeAll_succ]
  by_cases hb : buf.isEmpty
  · have : buf = [] := by simpa using hb
    subst this
    exact ⟨s, by simp, hs, by simp⟩
  · simp only [hb]
    have hne : buf ≠ [] := by simpa using hb
    have hlen : 0 < buf.length := List.length_pos_iff.mpr hne
    rcases Sink.write_cases s buf with ⟨n, hn, hn0, hw, _⟩ | ⟨hs', hw⟩ | ⟨hs', hw⟩
    · have hn' := hn0 hs
      subst hn'
      rw [hw]
      obtain ⟨k, hk⟩ : ∃ k, buf.length = k + 1 := ⟨buf.length - 1, by omega⟩
      rw [hk]
      show ∃ s', Sink.writeAll _ (buf.drop (k + 1)) (f + 1) = (s', .ok ()) ∧ _
      rw [← hk, List.drop_length, Sink.writeAll_succ]
      refine ⟨_, by simp; rfl, by simp [hs], by simp⟩
    · rw [hs] at hs'; cases hs'
    · rw [hs] at hs'; cases hs'

theorem flush_ok (s s' : Sink) (h : s.flush = (s', .ok ())) : Cons s s' ∧ s'.received = s.received := by
  unfold Sink.flush at h
  split at h
  all_goals simp only [Prod.mk.injEq, reduceCtorEq, and_false] at h
  · obtain ⟨rfl, _⟩ := h
    exact ⟨Cons.refl _, rfl⟩
  · rename_i n rest hs
    obtain ⟨rfl, _⟩ := h
    exact ⟨⟨[.accept n], by simpa using hs, by simp⟩, rfl⟩

theorem flush_perfect (s : Sink) (hs : s.sched = []) :
    ∃ s', s.flush = (s', .ok ()) ∧ s'.sched = [] ∧ s'.received = s.received := by
  unfold Sink.flush
  rw [hs]
  exact ⟨_, rfl, rfl, rfl⟩


namespace TableBuilder

/-- the bytes `write_block` emits -/
def blockImage (opt : WOpts) (block : Bytes) (ctype : Nat) : Bytes :=
  let data := if ctype = Consts.compressionSnappy then opt.compress block else block
  data ++ [UInt8.ofNat ctype] ++ encodeFixed32 (maskCrc (crc32c (data ++ [UInt8.ofNat ctype])))

def blockDataLen (opt : WOpts) (block : Bytes) (ctype : Nat) : Nat :=
  (if ctype = Consts.compressionSnappy then opt.compress block else block).length

theorem blockImage_length (opt : WOpts) (block : Bytes) (ctype : Nat) :
    (blockImage opt block ctype).length = blockDataLen opt block ctype + 5 := by
  simp [blockImage, blockDataLen, encodeFixed32]

theorem writeBlock_ok (a a' : TableBuilder) (blk : Bytes) (ct : Nat) (h : BlockHandle)
    (hw : a.writeBlock blk ct = (a', .ok h)) :
    ∃ s', a' = { a with sink := s', offset := a.offset + blockDataLen a.opt blk ct + 5 } ∧
      h = ⟨a.offset, blockDataLen a.opt blk ct⟩ ∧ Cons a.sink s' ∧
      s'.received = a.sink.received ++ blockImage a.opt blk ct := by
  unfold writeBlock at hw
  simp only [] at hw
  split at hw
  · rename_i s1 h1
    split at hw
    · rename_i s2 h2
      split at hw
      · rename_i s3 h3
        simp only [Prod.mk.injEq, Res.ok.injEq] at hw
        obtain ⟨rfl, rfl⟩ := hw
        refine ⟨s3, rfl, rfl, ?_, ?_⟩
        · exact Cons.trans (writeAll_ok_consumed _ _ _ _ h1)
            (Cons.trans (writeAll_ok_consumed _ _ _ _ h2) (writeAll_ok_consumed _ _ _ _ h3))
        · have e1 := writeAll_ok _ _ _ _ h1
          have e2 := writeAll_ok _ _ _ _ h2
          have e3 := writeAll_ok _ _ _ _ h3
          simp only [withSink] at e2 e3
          rw [e3, e2, e1]
          simp [blockImage]
      all_goals simp at hw
    all_goals simp at hw
  all_goals simp at hw


theorem writeBlock_perfect (b : TableBuilder) (blk : Bytes) (ct : Nat) (hs : b.sink.sched = []) :
    ∃ s', b.writeBlock blk ct =
        ({ b with sink := s', offset := b.offset + blockDataLen b.opt blk ct + 5 },
          .ok ⟨b.offset, blockDataLen b.opt blk ct⟩) ∧
      s'.sched = [] ∧ s'.received = b.sink.received ++ blockImage b.opt blk ct := by
  unfold writeBlock
  simp only []
  obtain ⟨s1, e1, hs1, r1⟩ := writeAll_perfect b.sink
    (if ct = Consts.compressionSnappy then b.opt.compress blk else blk)
    (b.waFuel (if ct = Consts.compressionSnappy then b.opt.compress blk else blk).length) hs
    (by unfold waFuel; omega)
  rw [e1]
  simp only []
  obtain ⟨s2, e2, hs2, r2⟩ := writeAll_perfect (b.withSink s1).sink [UInt8.ofNat ct]
    ((b.withSink s1).waFuel 1) hs1 (by unfold waFuel; omega)
  rw [e2]
  simp only []
  obtain ⟨s3, e3, hs3, r3⟩ := writeAll_perfect ((b.withSink s1).withSink s2).sink
    (encodeFixed32 (maskCrc (crc32c ((if ct = Consts.compressionSnappy then b.opt.compress blk else blk)
      ++ [UInt8.ofNat ct]))))
    (((b.withSink s1).withSink s2).waFuel 4) hs2 (by unfold waFuel; omega)
  rw [e3]
  refine ⟨s3, rfl, hs3, ?_⟩
  simp only [withSink] at r2 r3
  rw [r3, r2, r1]
  simp [blockImage]


/-- `b` is `a` running on a perfect sink that holds the same bytes -/
def SimB (a b : TableBuilder) : Prop :=
  ∃ sb, b = { a with sink := sb } ∧ sb.sched = [] ∧ sb.received = a.sink.received

/-- progress from `a` to `a'`: a schedule prefix without hard error was consumed, and `offset`
    advanced by exactly the number of bytes delivered -/
def Good (a a' : TableBuilder) : Prop :=
  Cons a.sink a'.sink ∧ a'.offset + a.sink.received.length = a.offset + a'.sink.received.length

theorem Good.refl (a : TableBuilder) : Good a a := ⟨Cons.refl _, rfl⟩

theorem Good.trans {a b c : TableBuilder} (h1 : Good a b) (h2 : Good b c) : Good a c :=
  ⟨Cons.trans h1.1 h2.1, by have := h1.2; have := h2.2; omega⟩

theorem writeBlock_sim (a b a' : TableBuilder) (blk : Bytes) (ct : Nat) (h : BlockHandle)
    (hs : SimB a b) (hw : a.writeBlock blk ct = (a', .ok h)) :
    ∃ b', b.writeBlock blk ct = (b', .ok h) ∧ SimB a' b' ∧ Good a a' ∧
      h.offset = a.offset ∧ a'.offset = a.offset + h.size + 5 := by
  obtain ⟨sb, rfl, hsb, hrb⟩ := hs
  obtain ⟨s', rfl, rfl, hc, hr⟩ := writeBlock_ok _ _ _ _ _ hw
  obtain ⟨sb', e, hsb', hrb'⟩ := writeBlock_perfect { a with sink := sb } blk ct hsb
  refine ⟨_, e, ⟨sb', rfl, hsb', ?_⟩, ⟨hc, ?_⟩, rfl, rfl⟩
  · rw [hrb', hr]; exact congrArg (· ++ _) hrb
  · show a.offset + blockDataLen a.opt blk ct + 5 + a.sink.received.length = a.offset + s'.received.length
    rw [hr, List.length_append, blockImage_length]; omega

theorem writeDataBlock_sim (a b a' : TableBuilder) (k : Bytes)
    (hs : SimB a b) (hw : a.writeDataBlock k = (a', .ok ())) :
    ∃ b', b.writeDataBlock k = (b', .ok ()) ∧ SimB a' b' ∧ Good a a' := by
  obtain ⟨sb, rfl, hsb, hrb⟩ := hs
  unfold writeDataBlock at hw ⊢
  simp only [] at hw ⊢
  split at hw
  · simp at hw
  · rename_i block hblock
    split at hw
    · rename_i a1 handle hwb
      obtain ⟨b1, hb1, ⟨sb1, rfl, hsb1, hrb1⟩, hgood1, -, -⟩ :=
        writeBlock_sim { a with prevBlockLastKey := block.lastKey, dataBlock := none }
          { a with sink := sb, prevBlockLastKey := block.lastKey, dataBlock := none } _ _ _ _
          ⟨sb, rfl, hsb, hrb⟩ hwb
      rw [hb1]
      simp only []
      split at hw
      · simp at hw
      · split at hw
        · split at hw
          · simp only [Prod.mk.injEq, and_true] at hw
            subst hw
            exact ⟨_, rfl, ⟨sb1, rfl, hsb1, hrb1⟩, hgood1⟩
          · split at hw
            · simp only [Prod.mk.injEq, and_true] at hw
              subst hw
              exact ⟨_, rfl, ⟨sb1, rfl, hsb1, hrb1⟩, hgood1⟩
            all_goals simp at hw
        all_goals simp at hw
    all_goals simp at hw


theorem add_sim (a b a' : TableBuilder) (k v : Bytes)
    (hs : SimB a b) (hw : a.add k v = (a', .ok ())) :
    ∃ b', b.add k v = (b', .ok ()) ∧ SimB a' b' ∧ Good a a' := by
  obtain ⟨sb, rfl, hsb, hrb⟩ := hs
  unfold add at hw ⊢
  simp only [] at hw ⊢
  split at hw
  · simp at hw
  · rename_i db hdb
    generalize (!if a.numEntries > 0 then
        a.opt.cmp.cmp (if db.entries > 0 then db.lastKey else a.prevBlockLastKey) k == Ordering.lt
        else true) = c1 at hw ⊢
    cases c1
    · simp only [Bool.false_eq_true, if_false] at hw ⊢
      generalize hfa : (if db.entries > 0 ∧ db.sizeEstimate > a.opt.blockSize then a.writeDataBlock k
        else (a, Res.ok ())) = fa at hw
      obtain ⟨a1, r⟩ := fa
      cases r with
      | ok u =>
        cases u
        have hfb : ∃ sb1, (if db.entries > 0 ∧ db.sizeEstimate > a.opt.blockSize then
              TableBuilder.writeDataBlock { a with sink := sb } k
            else (({ a with sink := sb } : TableBuilder), Res.ok ())) = ({ a1 with sink := sb1 }, Res.ok ()) ∧
            sb1.sched = [] ∧ sb1.received = a1.sink.received ∧ Good a a1 := by
          by_cases hc : db.entries > 0 ∧ db.sizeEstimate > a.opt.blockSize
          · simp only [hc, and_self, if_true] at hfa ⊢
            obtain ⟨b1, hb1, ⟨sb1, rfl, hsb1, hrb1⟩, hgood1⟩ :=
              writeDataBlock_sim a { a with sink := sb } _ _ ⟨sb, rfl, hsb, hrb⟩ hfa
            exact ⟨sb1, hb1, hsb1, hrb1, hgood1⟩
          · simp only [hc, if_false, Prod.mk.injEq, and_true] at hfa ⊢
            subst hfa
            exact ⟨sb, rfl, hsb, hrb, Good.refl _⟩
        obtain ⟨sb1, hfb, hsb1, hrb1, hgood1⟩ := hfb
        rw [hfb]
        simp only [] at hw ⊢
        split at hw
        · simp at hw
        · split at hw
          · simp only [Prod.mk.injEq, and_true] at hw
            subst hw
            exact ⟨_, rfl, ⟨sb1, rfl, hsb1, hrb1⟩, hgood1⟩
          all_goals simp at hw
      | err c => simp at hw
      | panic m => simp at hw
      | diverge => simp at hw
    · simp at hw


theorem addAll_sim (es : List (Bytes × Bytes)) (a b a' : TableBuilder)
    (hs : SimB a b) (hw : a.addAll es = (a', .ok ())) :
    ∃ b', b.addAll es = (b', .ok ()) ∧ SimB a' b' ∧ Good a a' := by
  induction es generalizing a b with
  | nil =>
    simp only [addAll, Prod.mk.injEq, and_true] at hw
    subst hw
    exact ⟨b, rfl, hs, Good.refl _⟩
  | cons e rest ih =>
    obtain ⟨k, v⟩ := e
    unfold addAll at hw ⊢
    generalize hfa : a.add k v = fa at hw
    obtain ⟨a1, r⟩ := fa
    cases r with
    | ok u =>
      cases u
      obtain ⟨b1, hb1, hsim1, hgood1⟩ := add_sim _ _ _ _ _ hs hfa
      rw [hb1]
      simp only [] at hw ⊢
      obtain ⟨b', hb', hsim', hgood'⟩ := ih a1 b1 hsim1 hw
      exact ⟨b', hb', hsim', hgood1.trans hgood'⟩
    | err c => simp at hw
    | panic m => simp at hw
    | diverge => simp at hw

theorem encodeVarint_length_le (k : Nat) : ∀ n, n < 128 ^ (k + 1) → (encodeVarint n).length ≤ k + 1 := by
  induction k with
  | zero =>
    intro n hn
    unfold encodeVarint
    simp at hn
    simp [hn]
  | succ k ih =>
    intro n hn
    unfold encodeVarint
    split
    · simp
    · have : n / 128 < 128 ^ (k + 1) := by
        apply Nat.div_lt_of_lt_mul
        rw [Nat.pow_succ, Nat.mul_comm] at hn
        exact hn
      have := ih _ this
      simp only [List.length_cons]
      omega

theorem encodeVarint_length_u64 (n : Nat) (hn : n < 2 ^ 64) : (encodeVarint n).length ≤ 10 :=
  encodeVarint_length_le 9 n (by omega)

theorem footer_encode_length (f : Footer) (h1 : f.metaIndex.offset < 2 ^ 64) (h2 : f.metaIndex.size < 2 ^ 64)
    (h3 : f.index.offset < 2 ^ 64) (h4 : f.index.size < 2 ^ 64) : f.encode.length = 48 := by
  have := encodeVarint_length_u64 _ h1
  have := encodeVarint_length_u64 _ h2
  have := encodeVarint_length_u64 _ h3
  have := encodeVarint_length_u64 _ h4
  simp only [Footer.encode, BlockHandle.encode, List.length_append, List.length_replicate,
    Consts.footerLength, Consts.magicFooterEncoded, List.length_cons, List.length_nil]
  omega


/-- second phase of `finish`: the filter block and the metaindex contents (copied from `finish`) -/
def finishMeta (t : TableBuilder) : TableBuilder × Res BlockBuilder :=
  let metaB := BlockBuilder.new t.opt.restartInterval
  match t.filterBlock with
  | none => (t, .ok metaB)
  | some fb =>
    let t := { t with filterBlock := none }
    match t.writeBlock (fb.finish t.opt.filter) Consts.compressionNone with
    | (t, .ok h) => (t, metaB.add t.opt.cmp (filterKey t.opt.filter) h.encode)
    | (t, .err c) => (t, .err c)
    | (t, .panic m) => (t, .panic m)
    | (t, .diverge) => (t, .diverge)

/-- last phase of `finish`: metaindex block, index block, footer, flush (copied from `finish`) -/
def finishTail (t : TableBuilder) (metaB : BlockBuilder) : TableBuilder × Res Nat :=
  match t.writeBlock metaB.finish t.opt.compression with
  | (t, .ok metaHandle) =>
    match t.indexBlock with
    | none => (t, .panic "finish: index_block unwrap")
    | some ib =>
      let t := { t with indexBlock := none }
      match t.writeBlock ib.finish t.opt.compression with
      | (t, .ok ixHandle) =>
        let footer : Footer := ⟨metaHandle, ixHandle⟩
        match t.sink.writeAll footer.encode (t.waFuel Consts.fullFooterLength) with
        | (s, .ok ()) =>
          let t := { t.withSink s with offset := t.offset + Consts.fullFooterLength }
          match t.sink.flush with
          | (s, .ok ()) => (t.withSink s, .ok t.offset)
          | (s, .err c) => (t.withSink s, .err c)
          | (s, .panic m) => (t.withSink s, .panic m)
          | (s, .diverge) => (t.withSink s, .diverge)
        | (s, .err c) => (t.withSink s, .err c)
        | (s, .panic m) => (t.withSink s, .panic m)
        | (s, .diverge) => (t.withSink s, .diverge)
      | (t, .err c) => (t, .err c)
      | (t, .panic m) => (t, .panic m)
      | (t, .diverge) => (t, .diverge)
  | (t, .err c) => (t, .err c)
  | (t, .panic m) => (t, .panic m)
  | (t, .diverge) => (t, .diverge)

/-- `finish` is exactly the composition of its three phases -/
theorem finish_eq (t : TableBuilder) : t.finish =
    match t.dataBlock with
    | none => (t, .panic "finish: data_block.is_some()")
    | some db =>
      match (if db.entries > 0 then t.writeDataBlock (t.opt.cmp.succ db.lastKey) else (t, .ok ())) with
      | (t, .ok ()) =>
        match t.finishMeta with
        | (t, .ok metaB) => t.finishTail metaB
        | (t, .err c) => (t, .err c)
        | (t, .panic m) => (t, .panic m)
        | (t, .diverge) => (t, .diverge)
      | (t, .err c) => (t, .err c)
      | (t, .panic m) => (t, .panic m)
      | (t, .diverge) => (t, .diverge) := by
  unfold finish
  cases t.dataBlock with
  | none => rfl
  | some db =>
    simp only []
    generalize (if db.entries > 0 then t.writeDataBlock (t.opt.cmp.succ db.lastKey) else (t, Res.ok ())) = r1
    obtain ⟨t1, r⟩ := r1
    cases r with
    | ok u =>
      cases u
      simp only []
      unfold finishMeta
      cases t1.filterBlock with
      | none => rfl
      | some fb =>
        simp only []
        generalize (writeBlock _ _ _) = r2
        obtain ⟨t2, r⟩ := r2
        cases r with
        | ok h =>
          simp only []
          generalize (BlockBuilder.add _ _ _ _) = r3
          cases r3 <;> rfl
        | _ => rfl
    | _ => rfl


theorem finishMeta_sim (a b a' : TableBuilder) (mb : BlockBuilder)
    (hs : SimB a b) (hw : a.finishMeta = (a', .ok mb)) :
    ∃ b', b.finishMeta = (b', .ok mb) ∧ SimB a' b' ∧ Good a a' := by
  obtain ⟨sb, rfl, hsb, hrb⟩ := hs
  unfold finishMeta at hw ⊢
  simp only [] at hw ⊢
  split at hw
  · simp only [Prod.mk.injEq, Res.ok.injEq] at hw
    obtain ⟨rfl, rfl⟩ := hw
    exact ⟨_, rfl, ⟨sb, rfl, hsb, hrb⟩, Good.refl _⟩
  · rename_i fb hfb
    split at hw
    · rename_i a1 handle hwb
      obtain ⟨b1, hb1, ⟨sb1, rfl, hsb1, hrb1⟩, hgood1, -, -⟩ :=
        writeBlock_sim { a with filterBlock := none } { a with sink := sb, filterBlock := none } _ _ _ _
          ⟨sb, rfl, hsb, hrb⟩ hwb
      rw [hb1]
      simp only [Prod.mk.injEq] at hw ⊢
      obtain ⟨rfl, hw⟩ := hw
      exact ⟨_, ⟨rfl, hw⟩, ⟨sb1, rfl, hsb1, hrb1⟩, hgood1⟩
    all_goals simp at hw

theorem finishTail_sim (a b a' : TableBuilder) (mb : BlockBuilder) (n : Nat)
    (hs : SimB a b) (hw : a.finishTail mb = (a', .ok n)) :
    ∃ b', b.finishTail mb = (b', .ok n) ∧ SimB a' b' ∧ Cons a.sink a'.sink ∧ n = a'.offset ∧
      a.offset ≤ n ∧
      (n < 2 ^ 64 → a'.offset + a.sink.received.length = a.offset + a'.sink.received.length) := by
  obtain ⟨sb, rfl, hsb, hrb⟩ := hs
  unfold finishTail at hw ⊢
  simp only [] at hw ⊢
  split at hw
  · rename_i a1 mh hwb1
    obtain ⟨b1, hb1, ⟨sb1, rfl, hsb1, hrb1⟩, hgood1, hoff1, hsz1⟩ :=
      writeBlock_sim a { a with sink := sb } _ _ _ _ ⟨sb, rfl, hsb, hrb⟩ hwb1
    rw [hb1]
    simp only [] at hw ⊢
    split at hw
    · simp at hw
    · rename_i ib hib
      split at hw
      · rename_i a2 ih hwb2
        obtain ⟨b2, hb2, ⟨sb2, rfl, hsb2, hrb2⟩, hgood2, hoff2, hsz2⟩ :=
          writeBlock_sim { a1 with indexBlock := none } { a1 with sink := sb1, indexBlock := none } _ _ _ _
            ⟨sb1, rfl, hsb1, hrb1⟩ hwb2
        rw [hb2]
        simp only [] at hw ⊢
        have hoff2' : ih.offset = a1.offset := hoff2
        have hsz2' : a2.offset = a1.offset + ih.size + 5 := hsz2
        have hlen1 : a1.offset + a.sink.received.length = a.offset + a1.sink.received.length := hgood1.2
        have hlen2 : a2.offset + a1.sink.received.length = a1.offset + a2.sink.received.length := hgood2.2
        have hcons2 : Cons a1.sink a2.sink := hgood2.1
        simp only [withSink, Consts.fullFooterLength] at hw ⊢
        split at hw
        · rename_i s5 hwa
          obtain ⟨s5', e5, hs5', hr5'⟩ := writeAll_perfect sb2 (Footer.encode ⟨mh, ih⟩)
            (waFuel { a2 with sink := sb2 } 48) hsb2 (by unfold waFuel; omega)
          rw [e5]
          simp only [] at hw ⊢
          split at hw
          · rename_i s6 hfl
            obtain ⟨s6', e6, hs6', hr6'⟩ := flush_perfect s5' hs5'
            rw [e6]
            simp only [Prod.mk.injEq, Res.ok.injEq] at hw ⊢
            obtain ⟨rfl, rfl⟩ := hw
            have hr5 := writeAll_ok _ _ _ _ hwa
            have hc5 := writeAll_ok_consumed _ _ _ _ hwa
            obtain ⟨hc6, hr6⟩ := flush_ok _ _ hfl
            refine ⟨_, ⟨rfl, rfl⟩, ⟨s6', rfl, hs6', ?_⟩, ?_, rfl, ?_, ?_⟩
            · show s6'.received = s6.received
              rw [hr6', hr5', hr6, hr5, hrb2]
            · exact Cons.trans hgood1.1 (Cons.trans hcons2 (Cons.trans hc5 hc6))
            · omega
            · intro hn
              show a2.offset + 48 + a.sink.received.length = a.offset + s6.received.length
              have hfl := footer_encode_length ⟨mh, ih⟩ (by show mh.offset < _; omega)
                (by show mh.size < _; omega) (by show ih.offset < _; omega) (by show ih.size < _; omega)
              rw [hr6, hr5, List.length_append, hfl]
              omega
          all_goals simp at hw
        all_goals simp at hw
      all_goals simp at hw
  all_goals simp at hw


theorem finish_sim (a b a' : TableBuilder) (n : Nat)
    (hs : SimB a b) (hw : a.finish = (a', .ok n)) :
    ∃ b', b.finish = (b', .ok n) ∧ SimB a' b' ∧ Cons a.sink a'.sink ∧ n = a'.offset ∧
      (n < 2 ^ 64 → a'.offset + a.sink.received.length = a.offset + a'.sink.received.length) := by
  obtain ⟨sb, rfl, hsb, hrb⟩ := hs
  rw [finish_eq] at hw ⊢
  simp only [] at hw ⊢
  split at hw
  · simp at hw
  · rename_i db hdb
    generalize hfa : (if db.entries > 0 then a.writeDataBlock (a.opt.cmp.succ db.lastKey)
        else (a, Res.ok ())) = fa at hw
    obtain ⟨a1, r⟩ := fa
    cases r with
    | ok u =>
      cases u
      have hfb : ∃ sb1, (if db.entries > 0 then
            TableBuilder.writeDataBlock { a with sink := sb } (a.opt.cmp.succ db.lastKey)
          else (({ a with sink := sb } : TableBuilder), Res.ok ())) = ({ a1 with sink := sb1 }, Res.ok ()) ∧
          sb1.sched = [] ∧ sb1.received = a1.sink.received ∧ Good a a1 := by
        by_cases hc : db.entries > 0
        · simp only [hc, if_true] at hfa ⊢
          obtain ⟨b1, hb1, ⟨sb1, rfl, hsb1, hrb1⟩, hgood1⟩ :=
            writeDataBlock_sim a { a with sink := sb } _ _ ⟨sb, rfl, hsb, hrb⟩ hfa
          exact ⟨sb1, hb1, hsb1, hrb1, hgood1⟩
        · simp only [hc, if_false, Prod.mk.injEq, and_true] at hfa ⊢
          subst hfa
          exact ⟨sb, rfl, hsb, hrb, Good.refl _⟩
      obtain ⟨sb1, hfb, hsb1, hrb1, hgood1⟩ := hfb
      rw [hfb]
      simp only [] at hw ⊢
      split at hw
      · rename_i a2 mb hfm
        obtain ⟨b2, hb2, hsim2, hgood2⟩ := finishMeta_sim a1 { a1 with sink := sb1 } _ _
          ⟨sb1, rfl, hsb1, hrb1⟩ hfm
        rw [hb2]
        simp only []
        obtain ⟨b3, hb3, hsim3, hcons3, hn3, hle3, hlen3⟩ := finishTail_sim a2 b2 _ _ _ hsim2 hw
        refine ⟨b3, hb3, hsim3, Cons.trans hgood1.1 (Cons.trans hgood2.1 hcons3), hn3, ?_⟩
        intro hn
        have := hlen3 hn
        have := hgood1.2
        have := hgood2.2
        omega
      all_goals simp at hw
    | err c => simp at hw
    | panic m => simp at hw
    | diverge => simp at hw

end TableBuilder

/-- (2) THE PROPERTY (C13), part without any side condition. For every sink schedule: if building
    reports success with size n, then the perfect-sink build succeeds with the same n, the sink has
    received exactly the bytes the perfect sink receives, and no hard error was consumed. -/
theorem C13_sink_core (opt : WOpts) (sched : List SinkResp) (es : List (Bytes × Bytes)) (t : TableBuilder)
    (n : Nat) (h : TableBuilder.build opt { sched := sched } es = (t, .ok n)) :
    ∃ tp, TableBuilder.build opt {} es = (tp, .ok n)
      ∧ t.sink.received = tp.sink.received
      ∧ (n < 2 ^ 64 → n = t.sink.received.length)
      ∧ (∃ consumed, sched = consumed ++ t.sink.sched ∧ SinkResp.error ∉ consumed) := by
  unfold TableBuilder.build at h ⊢
  have hs0 : TableBuilder.SimB (TableBuilder.new opt { sched := sched }) (TableBuilder.new opt {}) :=
    ⟨{}, rfl, rfl, rfl⟩
  split at h
  · rename_i a1 haa
    obtain ⟨b1, hb1, hsim1, hgood1⟩ := TableBuilder.addAll_sim es _ _ _ hs0 haa
    rw [hb1]
    simp only []
    obtain ⟨b2, hb2, ⟨sb2, rfl, hsb2, hrb2⟩, hcons2, hn2, hlen2⟩ := TableBuilder.finish_sim a1 b1 _ _ hsim1 h
    refine ⟨_, hb2, hrb2.symm, ?_, Cons.trans hgood1.1 hcons2⟩
    intro hn
    have h1 := hlen2 hn
    have h2 : a1.offset + 0 = 0 + a1.sink.received.length := hgood1.2
    omega
  all_goals simp at h

/-- (2) THE PROPERTY (C13) as stated, under the side condition that the reported file size fits a
    `u64` (`hn`).  The side condition is needed only for `n = t.sink.received.length`: in the model
    `offset` is an unbounded `Nat` while the footer reserves 40 bytes for the two handles, which is
    enough exactly when the varint-encoded offsets/sizes are `u64` values. -/
theorem C13_sink (opt : WOpts) (sched : List SinkResp) (es : List (Bytes × Bytes)) (t : TableBuilder)
    (n : Nat) (hn : n < 2 ^ 64)
    (h : TableBuilder.build opt { sched := sched } es = (t, .ok n)) :
    ∃ tp, TableBuilder.build opt {} es = (tp, .ok n)
      ∧ t.sink.received = tp.sink.received ∧ n = t.sink.received.length
      ∧ (∃ consumed, sched = consumed ++ t.sink.sched ∧ SinkResp.error ∉ consumed) := by
  obtain ⟨tp, h1, h2, h3, h4⟩ := C13_sink_core opt sched es t n h
  exact ⟨tp, h1, h2, h3 hn, h4⟩

end Sst

#print axioms Sst.writeAll_ok
#print axioms Sst.writeAll_prefix
#print axioms Sst.writeAll_no_diverge
#print axioms Sst.writeAll_ok_consumed
#print axioms Sst.C13_sink_core
#print axioms Sst.C13_sink
