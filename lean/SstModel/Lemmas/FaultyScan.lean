import SstModel.Lemmas.Faulty
/-
  Second batch for C14 / C07 (table level):
  * `Table::new` under an arbitrary fault schedule: the right handle or an error (`FT.open_faulty`);
  * damage to checksummed metadata (index, metaindex, filter block) makes `Table::new` fail with
    `Corruption` (`FT.open_index_dmg`, `FT.open_meta_dmg`, `FT.open_filter_dmg`);
  * forward scans when block reads may fail (`FT.ScanFrom`, `FT.scan_gen`): the scan yields, in order,
    exactly the entries of the blocks whose read succeeded, whole blocks, and ends.
-/
namespace Sst
set_option linter.unusedSectionVars false

/-- a zero-padded short read of the physical block at `h` never passes verification + the validation
    `good` with contents other than `contents` -/
def NoShortCollisionAt (img : Bytes) (h : BlockHandle) (good : Bytes → Bool) (contents : Bytes) : Prop :=
  ∀ k c, k ≤ h.size + 5 →
    verifyBlock (((cleanBuf img h.offset (h.size + 5)).take k) ++ List.replicate (h.size + 5 - k) 0) h.size = .ok c →
    good c = true → c = contents

/-- `NoShortCollision` for the blocks `Table::new` reads: index block, metaindex block and the filter block
    recorded under the policy's name (decidable on a given image, like `NoShortCollision`; holds without
    assumption for short reads that miss at most the last 4 bytes: `FT.short_tail_at`) -/
structure NoShortCollisionMeta (p : FilterPolicy) (t : TableImg) : Prop where
  index : NoShortCollisionAt t.img t.indexHandle Block.isWellFormed t.index.contents
  metaix : NoShortCollisionAt t.img t.metaHandle Block.isWellFormed t.metaix.contents
  filter : ∀ v fh n fb, (Table.filterName p, v) ∈ t.metaix.kvs → BlockHandle.tryDecode v = some (fh, n) →
    blockAt t.img fh = .ok fb → NoShortCollisionAt t.img fh FilterBlockReader.isWellFormed fb

namespace FT

/-! ### running `M` -/

theorem bind_err {α β} {m : M α} {f : α → M β} {w w' : World} {c : Code} (h : m w = (w', .err c)) :
    (m >>= f) w = (w', .err c) := by
  show M.bind' m f w = _
  unfold M.bind'; rw [h]

/-! ### short reads that miss at most 4 bytes, any block -/

/-- a short read of a verified physical block that misses at most its last 4 bytes either changes
    nothing or is rejected -/
theorem short_tail_at (img : Bytes) (h : BlockHandle) (c0 : Bytes) (hread : blockAt img h = .ok c0)
    (k : Nat) (c : Bytes) (hk1 : h.size + 1 ≤ k) (hk2 : k ≤ h.size + 5)
    (hv : verifyBlock (((cleanBuf img h.offset (h.size + 5)).take k)
        ++ List.replicate (h.size + 5 - k) 0) h.size = .ok c) :
    c = c0 := by
  have hread : verifyBlock (cleanBuf img h.offset (h.size + 5)) h.size = .ok c0 := hread
  generalize hbuf : cleanBuf img h.offset (h.size + 5) = buf at hv hread
  have hlen : buf.length = h.size + 5 := by rw [← hbuf]; exact cleanBuf_length _ _ _
  have hsplit : buf = buf.take (h.size + 1) ++ buf.drop (h.size + 1) :=
    (List.take_append_drop _ _).symm
  generalize hbody : buf.take (h.size + 1) = body at hsplit
  generalize hck : buf.drop (h.size + 1) = ck at hsplit
  have hbl : body.length = h.size + 1 := by rw [← hbody, List.length_take]; omega
  have hckl : ck.length = 4 := by rw [← hck, List.length_drop]; omega
  subst hsplit
  have htk : (body ++ ck).take k = body ++ ck.take (k - (h.size + 1)) := by
    rw [List.take_append, hbl, List.take_of_length_le (by omega)]
  rw [htk, List.append_assoc] at hv
  by_cases hsame : ck = ck.take (k - (h.size + 1)) ++ List.replicate (h.size + 5 - k) 0
  · rw [← hsame, hread] at hv
    exact (Res.ok.inj hv).symm
  · have := verifyBlock_detects_cksum body ck _
      hckl (by simp only [List.length_append, List.length_take, List.length_replicate]; omega) hsame
      h.size hbl.symm _ hread
    rw [this] at hv
    cases hv

/-! ### the primitives of `Table::new` under an arbitrary schedule -/

/-- `read_block_contents` under any schedule: cache and files untouched; an error, or contents that passed
    verification of the first `k` bytes of the clean buffer, zero padded -/
theorem readBlockContents_cases (file : Nat) (loc : BlockHandle) (w : World)
    (hb : InBounds loc (w.files.getD file []).length) :
    (readBlockContents file loc w).1.cache = w.cache ∧ (readBlockContents file loc w).1.files = w.files
      ∧ ((∃ c, (readBlockContents file loc w).2 = .err c)
        ∨ ∃ k c, k ≤ loc.size + 5
            ∧ verifyBlock ((cleanBuf (w.files.getD file []) loc.offset (loc.size + 5)).take k
                ++ List.replicate (loc.size + 5 - k) 0) loc.size = .ok c
            ∧ (readBlockContents file loc w).2 = .ok c) := by
  have h5 : loc.size + Consts.tableBlockCksumLen + Consts.tableBlockCompressLen = loc.size + 5 := rfl
  obtain ⟨hb1, hb2⟩ := hb
  simp only [Consts.tableBlockCksumLen, Consts.tableBlockCompressLen] at hb1 hb2
  rw [readBlockContents_eq]
  obtain ⟨h1, h2, h3⟩ := readBytes_cases file ⟨loc.offset, loc.size + 5⟩ w
  rw [h5]
  rcases hr : readBytes file ⟨loc.offset, loc.size + 5⟩ w with ⟨w', r⟩
  rw [hr] at h1 h2 h3
  simp only at h1 h2 h3
  rcases h3 with ⟨c, hc⟩ | ⟨k, hk, hbuf⟩
  · subst hc
    exact ⟨h1, h2, .inl ⟨_, rfl⟩⟩
  · subst hbuf
    simp only []
    rw [if_neg (by omega)] at hk
    have hk' : k ≤ loc.size + 5 := Nat.le_trans hk (Nat.min_le_left _ _)
    have hclean : (cleanBuf (w.files.getD file []) loc.offset (loc.size + 5)).take k
        = ((w.files.getD file []).drop loc.offset).take k := by
      unfold cleanBuf
      have : loc.size + 5 - min (loc.size + 5) ((w.files.getD file []).length - loc.offset) = 0 := by omega
      rw [this, List.replicate_zero, List.append_nil, List.take_take, Nat.min_eq_left hk']
    rw [← hclean]
    rcases verifyBlock_nocrash ((cleanBuf (w.files.getD file []) loc.offset (loc.size + 5)).take k
        ++ List.replicate (loc.size + 5 - k) 0) loc.size with ⟨c, hv⟩ | ⟨e, hv⟩
    · exact ⟨h1, h2, .inr ⟨k, c, hk', hv, hv⟩⟩
    · exact ⟨h1, h2, .inl ⟨e, hv⟩⟩

/-- `read_table_block` of a block whose true contents are `c0`, under any schedule: `c0` or an error -/
theorem readTableBlock_faultyAt (file : Nat) (img : Bytes) (loc : BlockHandle) (c0 : Bytes) (w : World)
    (hf : FileOK w file img) (hb : InBounds loc img.length)
    (hns : NoShortCollisionAt img loc Block.isWellFormed c0) :
    (readTableBlock file loc w).1.cache = w.cache ∧ (readTableBlock file loc w).1.files = w.files
      ∧ ((readTableBlock file loc w).2 = .ok c0 ∨ ∃ c, (readTableBlock file loc w).2 = .err c) := by
  obtain ⟨h1, h2, h3⟩ := readTableBlock_cases file loc w (by rw [hf]; exact hb)
  refine ⟨h1, h2, ?_⟩
  rcases h3 with h3 | ⟨k, c, hk, hv, hwfc, hr⟩
  · exact .inr h3
  · rw [hf] at hv
    rw [hr, hns k c hk hv hwfc]
    exact .inl rfl

/-- `read_footer` under any schedule: the footer or an error (a short read loses the magic number) -/
theorem readFooter_faulty (file : Nat) (img : Bytes) (f : Footer) (w : World)
    (hf : FileOK w file img) (h48 : 48 ≤ img.length)
    (hdec : Footer.tryDecode (img.drop (img.length - 48)) = some f) :
    (Table.readFooter file img.length w).1.cache = w.cache
      ∧ (Table.readFooter file img.length w).1.files = w.files
      ∧ ((Table.readFooter file img.length w).2 = .ok f
          ∨ ∃ c, (Table.readFooter file img.length w).2 = .err c) := by
  have hoff : Consts.fullFooterLength = 48 := rfl
  obtain ⟨h1, h2, h3⟩ := readBytes_cases file ⟨img.length - 48, 48⟩ w
  unfold Table.readFooter
  rw [if_neg (by rw [hoff]; omega), hoff]
  rcases hr : readBytes file ⟨img.length - 48, 48⟩ w with ⟨w', r⟩
  rw [hr] at h1 h2 h3
  simp only at h1 h2 h3
  rcases h3 with ⟨c, hc⟩ | ⟨k, hk, hbuf⟩
  · subst hc
    rw [bind_err hr]
    exact ⟨h1, h2, .inr ⟨c, rfl⟩⟩
  · subst hbuf
    rw [TI.bind_ok hr]
    rw [hf, if_neg (by omega)] at hk
    have hk48 : k ≤ 48 := Nat.le_trans hk (Nat.min_le_left _ _)
    rw [hf]
    by_cases hfull : k = 48
    · subst hfull
      have htake : (img.drop (img.length - 48)).take 48 = img.drop (img.length - 48) := by
        apply List.take_of_length_le
        simp only [List.length_drop]; omega
      simp only [htake, Nat.sub_self, List.replicate_zero, List.append_nil, hdec]
      exact ⟨h1, h2, .inl rfl⟩
    · have hbad : Footer.tryDecode (((img.drop (img.length - 48)).take k) ++ List.replicate (48 - k) (0 : UInt8))
          = none := by
        apply Footer.tryDecode_bad_magic
        right
        intro heq
        have h7 := congrArg (fun l => l[7]?) heq
        simp only [List.getElem?_take, List.getElem?_drop] at h7
        have hidx : (((img.drop (img.length - 48)).take k) ++ List.replicate (48 - k) (0 : UInt8))[40 + 7]?
            = some 0 := by
          rw [List.getElem?_append_right (by simp only [List.length_take, List.length_drop]; omega)]
          rw [List.getElem?_replicate]
          simp only [List.length_take, List.length_drop]
          rw [if_pos (by omega)]
        simp only [hidx] at h7
        revert h7
        simp [Consts.magicFooterEncoded]
      simp only [hbad]
      exact ⟨h1, h2, .inr ⟨_, rfl⟩⟩

/-- `table_block::read_filter_block` of a filter block whose true contents are `fb`, under any schedule -/
theorem readFilterBlock_faultyAt (file : Nat) (img : Bytes) (loc : BlockHandle) (fb : Bytes) (w : World)
    (hf : FileOK w file img) (hb : InBounds loc img.length) (hz : loc.size > 0)
    (hw : FilterBlockReader.isWellFormed fb = true)
    (hns : NoShortCollisionAt img loc FilterBlockReader.isWellFormed fb) :
    (Sst.readFilterBlock file loc w).1.cache = w.cache ∧ (Sst.readFilterBlock file loc w).1.files = w.files
      ∧ ((∃ r, FilterBlockReader.new fb = .ok r ∧ (Sst.readFilterBlock file loc w).2 = .ok r)
          ∨ ∃ c, (Sst.readFilterBlock file loc w).2 = .err c) := by
  obtain ⟨h1, h2, h3⟩ := readBlockContents_cases file loc w (by rw [hf]; exact hb)
  unfold Sst.readFilterBlock
  rw [if_neg (by omega)]
  rcases hr : readBlockContents file loc w with ⟨w', r⟩
  rw [hr] at h1 h2 h3
  simp only at h1 h2 h3
  rcases h3 with ⟨c, hc⟩ | ⟨k, c, hk, hv, hc⟩
  · subst hc
    rw [bind_err hr]
    exact ⟨h1, h2, .inr ⟨c, rfl⟩⟩
  · subst hc
    rw [TI.bind_ok hr]
    by_cases hwc : FilterBlockReader.isWellFormed c = true
    · rw [hf] at hv
      have := hns k c hk hv hwc
      subst this
      obtain ⟨rr, hnew⟩ := FilterBlockReader.new_of_isWellFormed c hwc
      simp only [hwc, Bool.not_true, Bool.false_eq_true, if_false, M.lift, hnew]
      exact ⟨h1, h2, .inl ⟨rr, rfl, rfl⟩⟩
    · simp only [Bool.not_eq_true] at hwc
      simp only [hwc, Bool.not_false, if_true, M.fail]
      exact ⟨h1, h2, .inr ⟨_, rfl⟩⟩

section
variable (cmp : Cmp) (hc : cmp.Lawful) (p : FilterPolicy) (t : TableImg) (hwf : t.WF cmp)
  (fv : Option Bytes)
include hc hwf

/-- `Table::read_filter_block` under any schedule: the filter reader the policy sees, or an error -/
theorem tableReadFilterBlock_faulty (hfv : FilterView p t fv) (hnsm : NoShortCollisionMeta p t)
    (w : World) (file : Nat) (hf : FileOK w file t.img) :
    (Table.readFilterBlock t.metaix.contents file t.img.length ⟨cmp, p⟩ w).1.cache = w.cache
      ∧ (Table.readFilterBlock t.metaix.contents file t.img.length ⟨cmp, p⟩ w).1.files = w.files
      ∧ ((∃ r, FiltersOK fv r
            ∧ (Table.readFilterBlock t.metaix.contents file t.img.length ⟨cmp, p⟩ w).2 = .ok r)
          ∨ ∃ c, (Table.readFilterBlock t.metaix.contents file t.img.length ⟨cmp, p⟩ w).2 = .err c) := by
  obtain ⟨it, it', hit, hseek, hcur⟩ :=
    metaix_lookup cmp hc t.metaix hwf.metaWF hwf.metaSorted (Table.filterName p)
  unfold Table.readFilterBlock
  simp only [bind, M.bind', M.lift, curKV, hit, hseek, hcur]
  cases hfv with
  | absent h =>
    have hne := entryAt_lowerBound_of_not_mem cmp t.metaix.kvs (Table.filterName p) h
    cases he : Spec.entryAt t.metaix.kvs (Spec.lowerBound cmp t.metaix.kvs (Table.filterName p)) with
    | none => exact ⟨rfl, rfl, .inl ⟨none, rfl, rfl⟩⟩
    | some e =>
      obtain ⟨k, v⟩ := e
      have hk : k ≠ Table.filterName p := hne _ he
      simp only [hk, ne_eq, not_false_eq_true, if_true]
      exact ⟨rfl, rfl, .inl ⟨none, rfl, rfl⟩⟩
  | empty v fh n h hd hz =>
    have he := entryAt_lowerBound_of_mem cmp hc t.metaix.kvs
      (by rw [PBlock.kvs_keys]; exact hwf.metaSorted) _ _ h
    simp only [he, ne_eq, not_true_eq_false, if_false, hd, hz, Nat.lt_irrefl, gt_iff_lt]
    exact ⟨rfl, rfl, .inl ⟨none, rfl, rfl⟩⟩
  | present v fh n fb h hd hz hb hr hw =>
    have he := entryAt_lowerBound_of_mem cmp hc t.metaix.kvs
      (by rw [PBlock.kvs_keys]; exact hwf.metaSorted) _ _ h
    obtain ⟨h1, h2, h3⟩ := readFilterBlock_faultyAt file t.img fh fb w hf hb hz hw
      (hnsm.filter v fh n fb h hd hr)
    have hchk := (checkBlockBounds_iff fh t.img.length w).1 hb
    simp only [he, ne_eq, not_true_eq_false, if_false, hd, hz, if_true, M.bind', hchk]
    rcases hrd : Sst.readFilterBlock file fh w with ⟨w', r⟩
    rw [hrd] at h1 h2 h3
    simp only at h1 h2 h3
    rcases h3 with ⟨rr, hnew, hok⟩ | ⟨c, hcc⟩
    · subst hok
      exact ⟨h1, h2, .inl ⟨some rr, ⟨rr, hnew, rfl⟩, rfl⟩⟩
    · subst hcc
      exact ⟨h1, h2, .inr ⟨c, rfl⟩⟩

/-- `Table::new` under ANY fault schedule: an error (the cache is untouched), or the handle of the image -/
theorem open_faulty (hfv : FilterView p t fv) (hnsm : NoShortCollisionMeta p t)
    (w : World) (file : Nat) (hf : FileOK w file t.img) :
    FileOK (Table.new ⟨cmp, p⟩ file t.img.length w).1 file t.img
      ∧ (Table.new ⟨cmp, p⟩ file t.img.length w).1.cache.entries = w.cache.entries
      ∧ (Table.new ⟨cmp, p⟩ file t.img.length w).1.cache.cap = w.cache.cap
      ∧ ((∃ c, (Table.new ⟨cmp, p⟩ file t.img.length w).2 = .err c
            ∧ (Table.new ⟨cmp, p⟩ file t.img.length w).1.cache = w.cache)
        ∨ (∃ tb, (Table.new ⟨cmp, p⟩ file t.img.length w).2 = .ok tb
            ∧ Opened tb t cmp p fv ∧ tb.file = file
            ∧ tb.cacheId = (w.cache.nextId + 1) % 2 ^ 64
            ∧ (Table.new ⟨cmp, p⟩ file t.img.length w).1.cache.nextId = (w.cache.nextId + 1) % 2 ^ 64)) := by
  have fileOK_of : ∀ w' : World, w'.files = w.files → FileOK w' file t.img := by
    intro w' h; unfold FileOK; rw [h]; exact hf
  unfold Table.new
  -- the footer
  obtain ⟨a1, a2, a3⟩ := readFooter_faulty file t.img _ w hf hwf.size.1 hwf.footer
  rcases hr1 : Table.readFooter file t.img.length w with ⟨w1, r1⟩
  rw [hr1] at a1 a2 a3
  simp only at a1 a2 a3
  rcases a3 with a3 | ⟨c, a3⟩
  rotate_left
  · subst a3
    rw [bind_err hr1]
    exact ⟨fileOK_of _ a2, by rw [a1], by rw [a1], .inl ⟨c, rfl, a1⟩⟩
  subst a3
  rw [TI.bind_ok hr1]
  simp only
  rw [TI.bind_ok ((checkBlockBounds_iff t.indexHandle t.img.length w1).1 hwf.indexBounds),
    TI.bind_ok ((checkBlockBounds_iff t.metaHandle t.img.length w1).1 hwf.metaBounds)]
  -- the index block
  obtain ⟨b1, b2, b3⟩ := readTableBlock_faultyAt file t.img t.indexHandle t.index.contents w1
    (fileOK_of _ a2) hwf.indexBounds hnsm.index
  rcases hr2 : readTableBlock file t.indexHandle w1 with ⟨w2, r2⟩
  rw [hr2] at b1 b2 b3
  simp only at b1 b2 b3
  rcases b3 with b3 | ⟨c, b3⟩
  rotate_left
  · subst b3
    rw [bind_err hr2]
    exact ⟨fileOK_of _ (b2.trans a2), by rw [b1, a1], by rw [b1, a1], .inl ⟨c, rfl, b1.trans a1⟩⟩
  subst b3
  rw [TI.bind_ok hr2]
  -- the metaindex block
  obtain ⟨c1, c2, c3⟩ := readTableBlock_faultyAt file t.img t.metaHandle t.metaix.contents w2
    (fileOK_of _ (b2.trans a2)) hwf.metaBounds hnsm.metaix
  rcases hr3 : readTableBlock file t.metaHandle w2 with ⟨w3, r3⟩
  rw [hr3] at c1 c2 c3
  simp only at c1 c2 c3
  rcases c3 with c3 | ⟨c, c3⟩
  rotate_left
  · subst c3
    rw [bind_err hr3]
    exact ⟨fileOK_of _ (c2.trans (b2.trans a2)), by rw [c1, b1, a1], by rw [c1, b1, a1],
      .inl ⟨c, rfl, c1.trans (b1.trans a1)⟩⟩
  subst c3
  rw [TI.bind_ok hr3]
  -- the filter block
  obtain ⟨d1, d2, d3⟩ := tableReadFilterBlock_faulty cmp hc p t hwf fv hfv hnsm w3 file
    (fileOK_of _ (c2.trans (b2.trans a2)))
  rcases hr4 : Table.readFilterBlock t.metaix.contents file t.img.length ⟨cmp, p⟩ w3 with ⟨w4, r4⟩
  rw [hr4] at d1 d2 d3
  simp only at d1 d2 d3
  rcases d3 with ⟨r, hfok, d3⟩ | ⟨c, d3⟩
  rotate_left
  · subst d3
    rw [bind_err hr4]
    exact ⟨fileOK_of _ (d2.trans (c2.trans (b2.trans a2))), by rw [d1, c1, b1, a1], by rw [d1, c1, b1, a1],
      .inl ⟨c, rfl, d1.trans (c1.trans (b1.trans a1))⟩⟩
  subst d3
  rw [TI.bind_ok hr4]
  have hcache : w4.cache = w.cache := d1.trans (c1.trans (b1.trans a1))
  simp only [bind, M.bind', LruCache.newCacheId, pure, M.pure']
  refine ⟨fileOK_of _ (d2.trans (c2.trans (b2.trans a2))), ?_, ?_, .inr ⟨_, rfl, ⟨rfl, rfl, rfl, rfl, ?_⟩, rfl, ?_, ?_⟩⟩
  · show w4.cache.entries = _
    rw [hcache]
  · show w4.cache.cap = _
    rw [hcache]
  · unfold FiltersOK at hfok
    cases fv with
    | none => exact hfok
    | some fb => exact hfok
  · show (w4.cache.nextId + 1) % 2 ^ 64 = _
    rw [hcache]
  · show (w4.cache.nextId + 1) % 2 ^ 64 = _
    rw [hcache]

end

/-! ### damaged metadata is detected by `Table::new` -/

/-- the byte range `[lo, lo + len)` lies inside the physical block at `h`: inside contents + type byte, or
    inside the 4 checksum bytes -/
def WindowIn (h : BlockHandle) (lo len : Nat) : Prop :=
  h.offset ≤ lo ∧ (lo + len ≤ h.offset + h.size + 1
    ∨ (h.offset + h.size + 1 ≤ lo ∧ lo + len ≤ h.offset + h.size + 5))

/-- C07 (block level, both cases): every alteration of a verified physical block confined to ≤ 4
    consecutive bytes inside contents + type byte, or inside the checksum field, makes it `Corruption` -/
theorem blockAt_altered_any (pre w w' post : Bytes) (h : BlockHandle) (c : Bytes)
    (hlen : w.length = w'.length) (h4 : w.length ≤ 4) (hne : w ≠ w')
    (hin : WindowIn h pre.length w.length)
    (hb : h.offset + h.size + 5 ≤ (pre ++ w ++ post).length)
    (hok : blockAt (pre ++ w ++ post) h = .ok c) :
    blockAt (pre ++ w' ++ post) h = .err .corruption := by
  obtain ⟨hlo, hcase | ⟨h1, h2⟩⟩ := hin
  · exact blockAt_altered pre w w' post h c hlen h4 hne hlo hcase hb hok
  · -- inside the checksum field: regroup the image around the 4 checksum bytes
    have hbl : h.offset + h.size + 5 ≤ pre.length + w.length + post.length := by
      simp only [List.length_append] at hb; omega
    have e : ∀ x : Bytes, pre ++ x ++ post
        = pre.take (h.offset + h.size + 1)
          ++ (pre.drop (h.offset + h.size + 1) ++ x
                ++ post.take (h.offset + h.size + 5 - pre.length - w.length))
          ++ post.drop (h.offset + h.size + 5 - pre.length - w.length) := by
      intro x
      conv => lhs; rw [← List.take_append_drop (h.offset + h.size + 1) pre,
        ← List.take_append_drop (h.offset + h.size + 5 - pre.length - w.length) post]
      simp only [List.append_assoc]
    rw [e w] at hok
    rw [e w']
    refine blockAt_altered_cksum _ _ _ _ h c ?_ ?_ ?_ ?_ hok
    · simp only [List.length_append, List.length_drop, List.length_take]; omega
    · simp only [List.length_append, List.length_drop, List.length_take]; omega
    · intro heq
      exact hne (List.append_cancel_left (List.append_cancel_right heq))
    · rw [List.length_take]; omega

section
variable (cmp : Cmp) (hc : cmp.Lawful) (p : FilterPolicy) (t : TableImg) (hwf : t.WF cmp)
  (img' : Bytes) (hlen : img'.length = t.img.length)
  (hfoot : img'.drop (img'.length - 48) = t.img.drop (t.img.length - 48))
include hwf hlen hfoot

/-- an unreadable index block makes `Table::new` fail with `Corruption` (whatever the reader options) -/
theorem open_index_dmg (hbad : blockAt img' t.indexHandle = .err .corruption)
    (opt : ROpts) (w : World) (file : Nat) (hcw : CleanWorld w file img') :
    ∃ w', Table.new opt file img'.length w = (w', .err .corruption) ∧ w'.cache = w.cache := by
  have hsz : 48 ≤ img'.length := by rw [hlen]; exact hwf.size.1
  have hft' : Footer.tryDecode (img'.drop (img'.length - 48)) = some ⟨t.metaHandle, t.indexHandle⟩ := by
    rw [hfoot]; exact hwf.footer
  obtain ⟨w1, hft, hc1, hca1, _, _⟩ := readFooter_clean w file img' _ hcw hsz hft'
  have hchk1 := (checkBlockBounds_iff t.indexHandle img'.length w1).1 (hlen ▸ hwf.indexBounds)
  have hchk2 := (checkBlockBounds_iff t.metaHandle img'.length w1).1 (hlen ▸ hwf.metaBounds)
  obtain ⟨w2, hix, _, hca2, _, _⟩ := readTableBlock_clean w1 file img' t.indexHandle hc1
  have hbad' : tableBlockAt img' t.indexHandle = .err .corruption := by
    unfold tableBlockAt; rw [hbad]
  rw [hbad'] at hix
  refine ⟨w2, ?_, hca2.trans hca1⟩
  unfold Table.new
  rw [TI.bind_ok hft]
  simp only
  rw [TI.bind_ok hchk1, TI.bind_ok hchk2, bind_err hix]

/-- an unreadable metaindex block (index block intact) makes `Table::new` fail with `Corruption` -/
theorem open_meta_dmg
    (hindex : cleanBuf img' t.indexHandle.offset (t.indexHandle.size + 5)
      = cleanBuf t.img t.indexHandle.offset (t.indexHandle.size + 5))
    (hbad : blockAt img' t.metaHandle = .err .corruption)
    (opt : ROpts) (w : World) (file : Nat) (hcw : CleanWorld w file img') :
    ∃ w', Table.new opt file img'.length w = (w', .err .corruption) ∧ w'.cache = w.cache := by
  have hsz : 48 ≤ img'.length := by rw [hlen]; exact hwf.size.1
  have hft' : Footer.tryDecode (img'.drop (img'.length - 48)) = some ⟨t.metaHandle, t.indexHandle⟩ := by
    rw [hfoot]; exact hwf.footer
  obtain ⟨w1, hft, hc1, hca1, _, _⟩ := readFooter_clean w file img' _ hcw hsz hft'
  have hchk1 := (checkBlockBounds_iff t.indexHandle img'.length w1).1 (hlen ▸ hwf.indexBounds)
  have hchk2 := (checkBlockBounds_iff t.metaHandle img'.length w1).1 (hlen ▸ hwf.metaBounds)
  obtain ⟨w2, hix, hc2, hca2, _, _⟩ := readTableBlock_clean w1 file img' t.indexHandle hc1
  rw [tableBlockAt_congr hindex, hwf.indexRead] at hix
  obtain ⟨w3, hmx, _, hca3, _, _⟩ := readTableBlock_clean w2 file img' t.metaHandle hc2
  have hbad' : tableBlockAt img' t.metaHandle = .err .corruption := by
    unfold tableBlockAt; rw [hbad]
  rw [hbad'] at hmx
  refine ⟨w3, ?_, hca3.trans (hca2.trans hca1)⟩
  unfold Table.new
  rw [TI.bind_ok hft]
  simp only
  rw [TI.bind_ok hchk1, TI.bind_ok hchk2, TI.bind_ok hix, bind_err hmx]

include hc in
/-- an unreadable filter block — the one the metaindex records under the reader policy's name — (index and
    metaindex blocks intact) makes `Table::new` fail with `Corruption`: the filter is never silently used
    nor silently dropped -/
theorem open_filter_dmg
    (hindex : cleanBuf img' t.indexHandle.offset (t.indexHandle.size + 5)
      = cleanBuf t.img t.indexHandle.offset (t.indexHandle.size + 5))
    (hmeta : cleanBuf img' t.metaHandle.offset (t.metaHandle.size + 5)
      = cleanBuf t.img t.metaHandle.offset (t.metaHandle.size + 5))
    (v : Bytes) (fh : BlockHandle) (n : Nat) (hmem : (Table.filterName p, v) ∈ t.metaix.kvs)
    (hd : BlockHandle.tryDecode v = some (fh, n)) (hz : fh.size > 0) (hb : InBounds fh t.img.length)
    (hbad : blockAt img' fh = .err .corruption)
    (w : World) (file : Nat) (hcw : CleanWorld w file img') :
    ∃ w', Table.new ⟨cmp, p⟩ file img'.length w = (w', .err .corruption) ∧ w'.cache = w.cache := by
  have hsz : 48 ≤ img'.length := by rw [hlen]; exact hwf.size.1
  have hft' : Footer.tryDecode (img'.drop (img'.length - 48)) = some ⟨t.metaHandle, t.indexHandle⟩ := by
    rw [hfoot]; exact hwf.footer
  obtain ⟨w1, hft, hc1, hca1, _, _⟩ := readFooter_clean w file img' _ hcw hsz hft'
  have hchk1 := (checkBlockBounds_iff t.indexHandle img'.length w1).1 (hlen ▸ hwf.indexBounds)
  have hchk2 := (checkBlockBounds_iff t.metaHandle img'.length w1).1 (hlen ▸ hwf.metaBounds)
  obtain ⟨w2, hix, hc2, hca2, _, _⟩ := readTableBlock_clean w1 file img' t.indexHandle hc1
  rw [tableBlockAt_congr hindex, hwf.indexRead] at hix
  obtain ⟨w3, hmx, hc3, hca3, _, _⟩ := readTableBlock_clean w2 file img' t.metaHandle hc2
  rw [tableBlockAt_congr hmeta, hwf.metaRead] at hmx
  -- the filter lookup in the (intact) metaindex, then the failing read
  obtain ⟨it, it', hit, hseek, hcur⟩ :=
    metaix_lookup cmp hc t.metaix hwf.metaWF hwf.metaSorted (Table.filterName p)
  have he := entryAt_lowerBound_of_mem cmp hc t.metaix.kvs
    (by rw [PBlock.kvs_keys]; exact hwf.metaSorted) _ _ hmem
  obtain ⟨w4, hrd, _, hca4, _, _⟩ := readBlockContents_clean w3 file img' fh hc3
  rw [hbad] at hrd
  have hchk3 := (checkBlockBounds_iff fh img'.length w3).1 (hlen ▸ hb)
  have hrf : Sst.readFilterBlock file fh w3 = (w4, .err .corruption) := by
    unfold Sst.readFilterBlock
    rw [if_neg (by omega)]
    exact bind_err hrd
  have hfilt : Table.readFilterBlock t.metaix.contents file img'.length ⟨cmp, p⟩ w3
      = (w4, .err .corruption) := by
    unfold Table.readFilterBlock
    simp only [bind, M.bind', M.lift, curKV, hit, hseek, hcur, he, ne_eq, not_true_eq_false, if_false,
      hd, hz, if_true, hchk3, hrf]
  refine ⟨w4, ?_, hca4.trans (hca3.trans (hca2.trans hca1))⟩
  unfold Table.new
  rw [TI.bind_ok hft]
  simp only
  rw [TI.bind_ok hchk1, TI.bind_ok hchk2, TI.bind_ok hix, TI.bind_ok hmx, bind_err hfilt]

end

/-! ### forward scans when block reads may fail -/

/-- reading the data blocks `ds` in order (through the cache) starting in world `w`: `bs` are the blocks
    whose read succeeded (with the true contents), the others failed with an error; `w'` is the world at
    the end. Within a block the scan does not touch the world, so this is exactly the sequence of
    `Table::read_block` calls a forward scan makes. -/
inductive ScanFrom (tb : Table) : World → List DBlock → List DBlock → World → Prop where
  | nil (w : World) : ScanFrom tb w [] [] w
  | keep {w w1 w' : World} {d : DBlock} {ds bs : List DBlock} :
      tb.readBlock d.handle w = (w1, .ok d.blk.contents) → ScanFrom tb w1 ds bs w' →
      ScanFrom tb w (d :: ds) (d :: bs) w'
  | skip {w w1 w' : World} {d : DBlock} {ds bs : List DBlock} {c : Code} :
      tb.readBlock d.handle w = (w1, .err c) → ScanFrom tb w1 ds bs w' →
      ScanFrom tb w (d :: ds) bs w'

/-- what a forward scan that keeps exactly the blocks `bs` returns: their entries in order, then `none` -/
def scanOuts (bs : List DBlock) : List Spec.IterOut :=
  (bs.flatMap (·.blk.kvs)).map (fun e => Spec.IterOut.entry (some e)) ++ [Spec.IterOut.entry none]

theorem ScanFrom.sublist {tb : Table} {w w' : World} {ds bs : List DBlock} (h : ScanFrom tb w ds bs w') :
    bs.Sublist ds := by
  induction h with
  | nil => exact List.Sublist.refl _
  | keep _ _ ih => exact ih.cons_cons _
  | skip _ _ ih => exact ih.cons _

/-- all of `sk` failed, then `d` was read, then the rest -/
theorem ScanFrom.prepend {tb : Table} {w w0 w1 w' : World} {sk ds bs : List DBlock} {d : DBlock}
    (h1 : ScanFrom tb w sk [] w0) (h2 : tb.readBlock d.handle w0 = (w1, .ok d.blk.contents))
    (h3 : ScanFrom tb w1 ds bs w') : ScanFrom tb w (sk ++ d :: ds) (d :: bs) w' := by
  generalize hnil : ([] : List DBlock) = e at h1
  induction h1 with
  | nil => exact .keep h2 h3
  | keep _ _ _ => cases hnil
  | skip hr _ ih => exact .skip hr (ih h2 hnil)

/-- every omitted block costs: if each failed read decreases the measure `μ` by at least one and no read
    increases it, the number of omitted blocks is at most the decrease of `μ` -/
theorem ScanFrom.count {tb : Table} (P : World → Prop) (μ : World → Nat) (S : List DBlock)
    (hstep : ∀ w, P w → ∀ d ∈ S, P (tb.readBlock d.handle w).1
      ∧ μ (tb.readBlock d.handle w).1 ≤ μ w
      ∧ (∀ c, (tb.readBlock d.handle w).2 = .err c → μ (tb.readBlock d.handle w).1 + 1 ≤ μ w))
    {w w' : World} {ds bs : List DBlock} (h : ScanFrom tb w ds bs w') (hS : ∀ d ∈ ds, d ∈ S) (hp : P w) :
    (ds.length - bs.length) + μ w' ≤ μ w := by
  induction h with
  | nil => simp
  | @keep w w1 w' d ds bs hr hs ih =>
    have ih := ih (fun x hx => hS x (List.mem_cons_of_mem _ hx))
    obtain ⟨a1, a2, _⟩ := hstep w hp d (hS d List.mem_cons_self)
    rw [hr] at a1 a2
    simp only at a1 a2
    have := ih a1
    have hsub := hs.sublist.length_le
    simp only [List.length_cons] at this ⊢
    omega
  | @skip w w1 w' d ds bs c hr hs ih =>
    have ih := ih (fun x hx => hS x (List.mem_cons_of_mem _ hx))
    obtain ⟨a1, _, a3⟩ := hstep w hp d (hS d List.mem_cons_self)
    have a3 := a3 c (by rw [hr])
    rw [hr] at a1 a3
    simp only at a1 a3
    have := ih a1
    have hsub := hs.sublist.length_le
    simp only [List.length_cons] at this ⊢
    omega

open TI Spec in
/-- index position after `i` index entries were consumed -/
def posOf : Nat → Spec.Pos
  | 0 => none
  | i + 1 => some i

theorem advance_posOf (kv : List Spec.Entry) (i : Nat) :
    Spec.advance kv (posOf i) = if i < kv.length then (some i, true) else (none, false) := by
  cases i with
  | zero =>
    cases kv with
    | nil => rfl
    | cons a l => simp [posOf, Spec.advance]
  | succ j => rfl

theorem try_err {α} {m : M α} {w w' : World} {c : Code} (h : m w = (w', .err c)) :
    M.try' m w = (w', .ok (.error c)) := by
  unfold M.try'; rw [h]

theorem skip_err (it : TableIter) (ib' : BlockIter) (k v : Bytes) (c : Code) (w w' : World)
    (h : it.indexBlock.next = .ok (ib', some (k, v)))
    (hl : ({ it with indexBlock := ib' } : TableIter).loadBlock v w = (w', .err c)) :
    it.skipToNextEntry w = (w', .ok ({ it with indexBlock := ib' }, .error c)) := by
  unfold TableIter.skipToNextEntry
  rw [TI.lift_bind h]
  simp only []
  rw [TI.bind_ok (try_err hl)]
  rfl

theorem bind_ok_inv {α β} {m : M α} {f : α → M β} {w w' : World} {b : β}
    (h : (m >>= f) w = (w', .ok b)) : ∃ w1 a, m w = (w1, .ok a) ∧ f a w1 = (w', .ok b) := by
  have h' : M.bind' m f w = (w', .ok b) := h
  unfold M.bind' at h'
  rcases hm : m w with ⟨w1, r⟩
  rw [hm] at h'
  cases r with
  | ok a => exact ⟨w1, a, rfl, h'⟩
  | err c => simp at h'
  | panic s => simp at h'
  | diverge => simp at h'

/-- call histories compose -/
theorem run_append : ∀ (ops1 : List Spec.IterOp) (it : TableIter) (w w1 : World) (it1 : TableIter)
    (o1 : List Spec.IterOut), it.run ops1 w = (w1, .ok (it1, o1)) →
    ∀ (ops2 : List Spec.IterOp) (w2 : World) (it2 : TableIter) (o2 : List Spec.IterOut),
      it1.run ops2 w1 = (w2, .ok (it2, o2)) →
      it.run (ops1 ++ ops2) w = (w2, .ok (it2, o1 ++ o2)) := by
  intro ops1
  induction ops1 with
  | nil =>
    intro it w w1 it1 o1 h ops2 w2 it2 o2 h2
    rw [TableIter.run_nil] at h
    cases h
    exact h2
  | cons op ops ih =>
    intro it w w1 it1 o1 h ops2 w2 it2 o2 h2
    have h' : (it.call op >>= fun r => TableIter.run r.1 ops >>= fun s => pure (s.1, r.2 :: s.2)) w
        = (w1, .ok (it1, o1)) := h
    obtain ⟨wa, ⟨ita, outa⟩, hcall, hrest⟩ := bind_ok_inv h'
    obtain ⟨wb, ⟨itb, outsb⟩, hrun, hpure⟩ := bind_ok_inv hrest
    have hp : (wb, Res.ok (itb, outa :: outsb)) = (w1, Res.ok (it1, o1)) := hpure
    cases hp
    exact TableIter.run_cons hcall (ih ita wa _ _ _ hrun ops2 w2 it2 o2 h2)

/-- a prefix of a successful call history is a successful call history, with the prefix of the outputs -/
theorem run_prefix : ∀ (ops1 ops2 : List Spec.IterOp) (it : TableIter) (w w' : World) (it' : TableIter)
    (outs : List Spec.IterOut), it.run (ops1 ++ ops2) w = (w', .ok (it', outs)) →
    ∃ w1 it1, it.run ops1 w = (w1, .ok (it1, outs.take ops1.length)) := by
  intro ops1
  induction ops1 with
  | nil =>
    intro ops2 it w w' it' outs _
    exact ⟨w, it, rfl⟩
  | cons op ops ih =>
    intro ops2 it w w' it' outs h
    have h' : (it.call op >>= fun r => TableIter.run r.1 (ops ++ ops2) >>= fun s => pure (s.1, r.2 :: s.2)) w
        = (w', .ok (it', outs)) := h
    obtain ⟨wa, ⟨ita, outa⟩, hcall, hrest⟩ := bind_ok_inv h'
    obtain ⟨wb, ⟨itb, outsb⟩, hrun, hpure⟩ := bind_ok_inv hrest
    have hp : (wb, Res.ok (itb, outa :: outsb)) = (w', Res.ok (it', outs)) := hpure
    cases hp
    obtain ⟨w1, it1, h1⟩ := ih ops2 ita wa _ _ _ hrun
    exact ⟨w1, it1, TableIter.run_cons hcall h1⟩

theorem call_next {it it1 : TableIter} {w w1 : World} {e : Option Spec.Entry}
    (h : it.next w = (w1, .ok (it1, e))) : it.call .next w = (w1, .ok (it1, .entry e)) := by
  show (it.next >>= fun r => pure (r.1, Spec.IterOut.entry r.2)) w = _
  rw [TI.bind_ok h]; rfl

section
open TI Spec TwoLevel
variable {cmp : Cmp} {p : FilterPolicy} {t : TableImg} {fv : Option Bytes} {tb : Table}

theorem loadBlock_of_read_ok (hwf : t.WF cmp) (it : TableIter) (hit : it.table = tb) (d : DBlock)
    (hd : d ∈ t.blocks) (w w1 : World) (hr : tb.readBlock d.handle w = (w1, .ok d.blk.contents)) :
    ∃ cb, it.loadBlock d.hval w
        = (w1, .ok { it with currentBlock := some cb, currentBlockOff := d.handle.offset })
      ∧ SimB d.blk.contents d.blk.es d.blk.rs cb none := by
  obtain ⟨n, hn⟩ := hwf.hval d hd
  obtain ⟨cb, hcb, hsim⟩ := simB_iter (hwf.dataWF d hd).1
  refine ⟨cb, ?_, hsim⟩
  unfold TableIter.loadBlock
  simp only [hn]
  rw [hit, TI.bind_ok hr, TI.lift_bind hcb]
  rfl

theorem loadBlock_of_read_err (hwf : t.WF cmp) (it : TableIter) (hit : it.table = tb) (d : DBlock)
    (hd : d ∈ t.blocks) (w w1 : World) (c : Code) (hr : tb.readBlock d.handle w = (w1, .err c)) :
    it.loadBlock d.hval w = (w1, .err c) := by
  obtain ⟨n, hn⟩ := hwf.hval d hd
  unfold TableIter.loadBlock
  simp only [hn]
  rw [hit, bind_err hr]

/-- the gap lemma when block reads may fail: no block loaded, index iterator after `i` entries: either
    every remaining block fails and the iterator becomes invalid, or the blocks `sk` fail and the scan
    stands on the first entry of the first block `d` that loads -/
theorem tail_scan (hwf : t.WF cmp) (P : World → Prop)
    (hload : ∀ w, P w → ∀ d ∈ t.blocks, P (tb.readBlock d.handle w).1
      ∧ ((tb.readBlock d.handle w).2 = .ok d.blk.contents ∨ ∃ c, (tb.readBlock d.handle w).2 = .err c)) :
    ∀ (ds : List DBlock) (i : Nat) (it : TableIter) (w : World) (n : Nat),
      t.blocks.drop i = ds → Gap t tb it (posOf i) → P w → ds.length ≤ n →
      (∃ w' it', ScanFrom tb w ds [] w' ∧ P w' ∧ tail it (n + 1) w = (w', .ok (it', false))
          ∧ SimT t tb it' none)
      ∨ (∃ sk d ds' w0 w1 it', ds = sk ++ d :: ds' ∧ ScanFrom tb w sk [] w0
          ∧ tb.readBlock d.handle w0 = (w1, .ok d.blk.contents) ∧ P w1
          ∧ tail it (n + 1) w = (w1, .ok (it', true)) ∧ SimT t tb it' (some (i + sk.length, 0))) := by
  intro ds
  induction ds with
  | nil =>
    intro i it w n hdrop hg hp _
    obtain ⟨ib', hnext, hsim⟩ := simB_next hwf.indexWF.1 hwf.indexWF.2 hg.index
    have hi : ¬ i < (kvOf t.index.contents t.index.es).length := by
      rw [index_kvs_length hwf]
      have := List.drop_eq_nil_iff.mp hdrop
      omega
    rw [advance_posOf, if_neg hi] at hnext hsim
    dsimp only [Spec.entryAt] at hnext hsim
    left
    refine ⟨w, ({ it with indexBlock := ib' } : TableIter).reset, .nil w, hp, ?_,
      ⟨hg.table, rfl, simB_reset hwf.indexWF.1 hsim⟩⟩
    unfold tail
    rw [TI.bind_ok (skip_none it ib' hnext w)]
    rfl
  | cons d ds' ih =>
    intro i it w n hdrop hg hp hn
    have hil : i < t.blocks.length := by
      apply Classical.byContradiction
      intro h
      rw [List.drop_eq_nil_of_le (by omega)] at hdrop; cases hdrop
    rw [List.drop_eq_getElem_cons hil] at hdrop
    obtain ⟨hdi, hrest⟩ := List.cons.inj hdrop
    have hd : t.blocks[i]? = some d := by rw [List.getElem?_eq_getElem hil, hdi]
    have hmem : d ∈ t.blocks := List.mem_of_getElem? hd
    obtain ⟨ib', hnext, hsim⟩ := simB_next hwf.indexWF.1 hwf.indexWF.2 hg.index
    have hi : i < (kvOf t.index.contents t.index.es).length := by
      rw [index_kvs_length hwf]; exact hil
    rw [advance_posOf, if_pos hi] at hnext hsim
    dsimp only at hnext hsim
    have hent : Spec.entryAt (kvOf t.index.contents t.index.es) (some i) = some (d.sep, d.hval) := by
      simp only [Spec.entryAt, index_kvs_getElem? hwf, hd, Option.map_some]
    rw [hent] at hnext
    obtain ⟨hp1, hres⟩ := hload w hp d hmem
    rcases hrb : tb.readBlock d.handle w with ⟨w1, r⟩
    rw [hrb] at hp1 hres
    simp only at hp1 hres
    rcases hres with hres | ⟨c, hres⟩
    · subst hres
      obtain ⟨cb, hload', hcb⟩ :=
        loadBlock_of_read_ok hwf { it with indexBlock := ib' } hg.table d hmem w w1 hrb
      obtain ⟨cb', hadv', hcb'⟩ := first_entry hwf d hmem cb hcb
      right
      refine ⟨[], d, ds', w, w1, ⟨it.table, some cb', d.handle.offset, ib'⟩, rfl, .nil w, hrb, hp1, ?_, ?_⟩
      · unfold tail
        rw [TI.bind_ok (skip_some it ib' _ _ _ w w1 hnext hload')]
        simp only []
        exact advanceLoop_some_true _ cb cb' rfl hadv' n w1
      · exact ⟨hg.table, d, cb', hd, hsim, rfl, hcb', rfl⟩
    · subst hres
      have hload' := loadBlock_of_read_err hwf { it with indexBlock := ib' } hg.table d hmem w w1 c hrb
      have hg' : Gap t tb { it with indexBlock := ib' } (posOf (i + 1)) := ⟨hg.table, hg.cur, hsim⟩
      simp only [List.length_cons] at hn
      obtain ⟨n', rfl⟩ : ∃ n', n = n' + 1 := ⟨n - 1, by omega⟩
      have h0 : tail it (n' + 1 + 1) w
          = ({ it with indexBlock := ib' } : TableIter).advanceLoop (n' + 1 + 1) w1 := by
        unfold tail
        rw [TI.bind_ok (skip_err it ib' _ _ c w w1 hnext hload')]
      have h1 : tail it (n' + 1 + 1) w
          = tail ({ it with indexBlock := ib' } : TableIter) (n' + 1) w1 := by
        rw [h0]
        exact advanceLoop_none ({ it with indexBlock := ib' } : TableIter) hg.cur (n' + 1) w1
      rcases ih (i + 1) { it with indexBlock := ib' } w1 n' hrest hg' hp1 (by omega) with
        ⟨w', it', hscan, hp', htl, hsT⟩ | ⟨sk, d2, ds2, w0, w2, it', hds, hsk, hrb2, hp2, htl, hsT⟩
      · left
        exact ⟨w', it', .skip hrb hscan, hp', h1.trans htl, hsT⟩
      · right
        refine ⟨d :: sk, d2, ds2, w0, w2, it', by rw [hds]; rfl, .skip hrb hsk, hrb2, hp2, h1.trans htl, ?_⟩
        have : i + (d :: sk).length = i + 1 + sk.length := by simp only [List.length_cons]; omega
        rw [this]; exact hsT

/-- the scan is about to leave block `i - 1` (or has not started, `i = 0`): a fresh / reset iterator, or an
    iterator on the last entry of block `i - 1` -/
def AtEnd (t : TableImg) (tb : Table) (it : TableIter) (i : Nat) : Prop :=
  (i = 0 ∧ Gap t tb it none)
  ∨ (∃ bi li d, i = bi + 1 ∧ SimT t tb it (some (bi, li)) ∧ t.blocks[bi]? = some d
        ∧ li + 1 = d.blk.es.length)

theorem advance_atEnd (hwf : t.WF cmp) {it : TableIter} {i : Nat} (h : AtEnd t tb it i) :
    ∃ it0, Gap t tb it0 (posOf i)
      ∧ ∀ w, it.advance w = tail it0 (2 * t.index.contents.length + 2 + 1) w := by
  rcases h with ⟨rfl, hg⟩ | ⟨bi, li, d, rfl, hs, hd, hl⟩
  · refine ⟨it, hg, ?_⟩
    intro w
    rw [advance_eq, advanceLoop_none it hg.cur, hg.index.block]
  · obtain ⟨d', cb, hd', hmem, hi, hcb, hsb, ho, _, _⟩ := simT_unpack hs
    rw [hd] at hd'
    cases hd'
    obtain ⟨cb', hadv, _⟩ := simB_advance (hwf.dataWF d hmem).1 (hwf.dataWF d hmem).2 hsb
    have hA : Spec.advance (kvOf d.blk.contents d.blk.es) (some li) = (none, false) := by
      simp only [Spec.advance, kvOf_length, if_neg (show ¬ li + 1 < d.blk.es.length by omega)]
    rw [hA] at hadv
    refine ⟨{ it with currentBlock := none }, ⟨hs.table, rfl, hi⟩, ?_⟩
    intro w
    rw [advance_eq, advanceLoop_some_false it cb cb' hcb hadv, hi.block]

end

section
open TI Spec TwoLevel
variable (cmp : Cmp) (hc : cmp.Lawful) (p : FilterPolicy) (t : TableImg) (hwf : t.WF cmp)
  (fv : Option Bytes) (tb : Table) (hop : Opened tb t cmp p fv)
include hc hwf hop

/-- `next` when `advance` found an entry -/
theorem next_of_advance_true {it it1 : TableIter} {w w1 : World} {bi li : Nat} {d : DBlock}
    (hadv : it.advance w = (w1, .ok (it1, true))) (hs : SimT t tb it1 (some (bi, li)))
    (hd : t.blocks[bi]? = some d) :
    it.next w = (w1, .ok (it1, d.blk.kvs[li]?)) := by
  obtain ⟨d', cb, hd', hmem, hi, hcb, hsb, ho, hl, _⟩ := simT_unpack hs
  rw [hd] at hd'
  cases hd'
  unfold TableIter.next
  rw [TI.bind_ok hadv]
  simp only [Bool.not_true, Bool.false_eq_true, if_false]
  rw [TI.bind_ok (simT_current cmp hc p t hwf fv tb hop w1 it1 _ hs), entryAt_flat hd hl]
  rfl

theorem next_of_advance_false {it it1 : TableIter} {w w1 : World}
    (hadv : it.advance w = (w1, .ok (it1, false))) :
    it.next w = (w1, .ok (it1, none)) := by
  unfold TableIter.next
  rw [TI.bind_ok hadv]
  rfl

/-- `next` inside a block: the next entry of the block; the world is not touched -/
theorem next_inside {it : TableIter} {bi li : Nat} {d : DBlock} (hs : SimT t tb it (some (bi, li)))
    (hd : t.blocks[bi]? = some d) (hl : li + 1 < d.blk.es.length) (w : World) :
    ∃ it', it.next w = (w, .ok (it', d.blk.kvs[li + 1]?)) ∧ SimT t tb it' (some (bi, li + 1)) := by
  obtain ⟨d', cb, hd', hmem, hi, hcb, hsb, ho, _, _⟩ := simT_unpack hs
  rw [hd] at hd'
  cases hd'
  obtain ⟨cb', hadv, hs'⟩ := simB_advance (hwf.dataWF d hmem).1 (hwf.dataWF d hmem).2 hsb
  have hA : Spec.advance (kvOf d.blk.contents d.blk.es) (some li) = (some (li + 1), true) := by
    simp only [Spec.advance, kvOf_length, if_pos hl]
  rw [hA] at hadv hs'
  have hs1 : SimT t tb { it with currentBlock := some cb' } (some (bi, li + 1)) :=
    ⟨hs.table, d, cb', hd, hi, rfl, hs', ho⟩
  refine ⟨_, ?_, hs1⟩
  refine next_of_advance_true cmp hc p t hwf fv tb hop ?_ hs1 hd
  rw [advance_eq]
  exact advanceLoop_some_true it cb cb' hcb hadv _ w

/-- walking to the end of the current block -/
theorem block_walk {bi : Nat} {d : DBlock} (hd : t.blocks[bi]? = some d) (w : World) :
    ∀ (rest : List Spec.Entry) (li : Nat) (it : TableIter), d.blk.kvs.drop (li + 1) = rest →
      SimT t tb it (some (bi, li)) →
      ∃ it', it.run (List.replicate rest.length .next) w
          = (w, .ok (it', rest.map (fun e => Spec.IterOut.entry (some e))))
        ∧ SimT t tb it' (some (bi, li + rest.length)) := by
  intro rest
  induction rest with
  | nil =>
    intro li it _ hs
    exact ⟨it, rfl, hs⟩
  | cons e rest ih =>
    intro li it hdrop hs
    have hlt : li + 1 < d.blk.kvs.length := by
      apply Classical.byContradiction
      intro h
      rw [List.drop_eq_nil_of_le (by omega)] at hdrop; cases hdrop
    rw [List.drop_eq_getElem_cons hlt] at hdrop
    obtain ⟨he, hrest⟩ := List.cons.inj hdrop
    have hl : li + 1 < d.blk.es.length := by rw [← kvs_length]; exact hlt
    obtain ⟨it1, hnext, hs1⟩ := next_inside cmp hc p t hwf fv tb hop hs hd hl w
    rw [List.getElem?_eq_getElem hlt, he] at hnext
    obtain ⟨it2, hrun, hs2⟩ := ih (li + 1) it1 hrest hs1
    refine ⟨it2, ?_, ?_⟩
    · exact TableIter.run_cons (call_next hnext) hrun
    · have : li + (e :: rest).length = li + 1 + rest.length := by simp only [List.length_cons]; omega
      rw [this]; exact hs2

/-- the forward scan when block reads may fail (generic in the world invariant `P`): from a fresh / reset
    iterator, or from the last entry of a block, calling `next` until it first returns `none` yields
    exactly the entries of the blocks whose read succeeded (`ScanFrom`), whole blocks, in order, and leaves
    the iterator reset -/
theorem scan_gen (P : World → Prop)
    (hload : ∀ w, P w → ∀ d ∈ t.blocks, P (tb.readBlock d.handle w).1
      ∧ ((tb.readBlock d.handle w).2 = .ok d.blk.contents ∨ ∃ c, (tb.readBlock d.handle w).2 = .err c)) :
    ∀ (n : Nat) (ds : List DBlock) (i : Nat) (it : TableIter) (w : World), ds.length ≤ n →
      t.blocks.drop i = ds → AtEnd t tb it i → P w →
      ∃ bs w' it', ScanFrom tb w ds bs w' ∧ P w' ∧ SimT t tb it' none
        ∧ it.run (List.replicate ((bs.flatMap (·.blk.kvs)).length + 1) .next) w
            = (w', .ok (it', scanOuts bs)) := by
  intro n
  induction n with
  | zero =>
    intro ds i it w hn hdrop hat hp
    have hds : ds = [] := List.length_eq_zero_iff.mp (by omega)
    subst hds
    obtain ⟨it0, hg, hadv⟩ := advance_atEnd hwf hat
    rcases tail_scan hwf P hload [] i it0 w _ hdrop hg hp (by simp) with
      ⟨w', it', hscan, hp', htl, hsT⟩ | ⟨sk, d, ds', _, _, _, hds, _⟩
    · refine ⟨[], w', it', hscan, hp', hsT, ?_⟩
      have hnx := next_of_advance_false cmp hc p t hwf fv tb hop ((hadv w).trans htl)
      exact TableIter.run_cons (call_next hnx) (TableIter.run_nil _ _)
    · cases sk <;> cases hds
  | succ n ih =>
    intro ds i it w hn hdrop hat hp
    obtain ⟨it0, hg, hadv⟩ := advance_atEnd hwf hat
    have hfuel : ds.length ≤ 2 * t.index.contents.length + 2 := by
      have h1 : ds.length ≤ t.blocks.length := by rw [← hdrop, List.length_drop]; omega
      have h2 := index_es_length hwf
      have h3 := hwf.indexWF.1.length_le
      omega
    rcases tail_scan hwf P hload ds i it0 w _ hdrop hg hp hfuel with
      ⟨w', it', hscan, hp', htl, hsT⟩ | ⟨sk, d, ds', w0, w1, it1, hds, hsk, hrb, hp1, htl, hsT⟩
    · refine ⟨[], w', it', hscan, hp', hsT, ?_⟩
      have hnx := next_of_advance_false cmp hc p t hwf fv tb hop ((hadv w).trans htl)
      exact TableIter.run_cons (call_next hnx) (TableIter.run_nil _ _)
    · -- the scan enters block `d` = block number `i + sk.length`
      have hbj : t.blocks[i + sk.length]? = some d := by
        have := congrArg (fun l => l[sk.length]?) hdrop
        simp only [List.getElem?_drop, hds] at this
        rw [this, List.getElem?_append_right (Nat.le_refl _)]
        simp
      have hmem : d ∈ t.blocks := List.mem_of_getElem? hbj
      have hdrop' : t.blocks.drop (i + sk.length + 1) = ds' := by
        have h1 : t.blocks.drop (i + sk.length + 1) = (t.blocks.drop i).drop (sk.length + 1) := by
          rw [List.drop_drop, Nat.add_assoc]
        rw [h1, hdrop, hds, List.append_cons]
        exact List.drop_left' (by simp)
      have hne := hwf.dataNonempty d hmem
      -- first entry
      have hnx := next_of_advance_true cmp hc p t hwf fv tb hop ((hadv w).trans htl) hsT hbj
      obtain ⟨e0, rest0, hkv⟩ : ∃ e0 rest0, d.blk.kvs = e0 :: rest0 := by
        cases hk : d.blk.kvs with
        | nil =>
          have := kvs_length d.blk
          rw [hk] at this
          exact absurd (List.length_eq_zero_iff.mp this.symm) hne
        | cons a l => exact ⟨a, l, rfl⟩
      rw [hkv] at hnx
      simp only [List.getElem?_cons_zero] at hnx
      -- the rest of the block
      obtain ⟨it2, hwalk, hs2⟩ := block_walk cmp hc p t hwf fv tb hop hbj w1 rest0 0 it1
        (by rw [hkv]; rfl) hsT
      have hat2 : AtEnd t tb it2 (i + sk.length + 1) := by
        right
        refine ⟨i + sk.length, 0 + rest0.length, d, rfl, hs2, hbj, ?_⟩
        have := kvs_length d.blk
        rw [hkv] at this
        simp only [List.length_cons] at this
        omega
      -- the remaining blocks
      have hlen : ds'.length ≤ n := by
        rw [hds] at hn
        simp only [List.length_append, List.length_cons] at hn
        omega
      obtain ⟨bs', w', it', hscan', hp', hsT', hrun'⟩ := ih ds' _ it2 w1 hlen hdrop' hat2 hp1
      refine ⟨d :: bs', w', it', ?_, hp', hsT', ?_⟩
      · rw [hds]; exact hsk.prepend hrb hscan'
      · have hcount : ((d :: bs').flatMap (·.blk.kvs)).length + 1
            = 1 + (rest0.length + ((bs'.flatMap (·.blk.kvs)).length + 1)) := by
          simp only [List.flatMap_cons, List.length_append, hkv, List.length_cons]; omega
        have houts : scanOuts (d :: bs')
            = [Spec.IterOut.entry (some e0)]
              ++ (rest0.map (fun e => Spec.IterOut.entry (some e)) ++ scanOuts bs') := by
          simp only [scanOuts, List.flatMap_cons, hkv, List.map_append, List.map_cons,
            List.cons_append, List.append_assoc, List.nil_append]
        rw [hcount, houts, ← List.replicate_append_replicate, ← List.replicate_append_replicate]
        refine run_append _ it w w1 it1 _ ?_ _ w' it' _ (run_append _ it1 w1 w1 it2 _ hwalk _ w' it' _ hrun')
        exact TableIter.run_cons (call_next hnx) (TableIter.run_nil _ _)

end

/-! ### instances: the fault-injected source (C14) and the damaged image (C07) -/

theorem sublist_flatMap {α β} (f : α → List β) {l1 l2 : List α} (h : l1.Sublist l2) :
    (l1.flatMap f).Sublist (l2.flatMap f) := by
  induction h with
  | slnil => exact List.Sublist.refl _
  | cons a _ ih =>
    rw [List.flatMap_cons]
    exact ih.trans (List.sublist_append_right _ _)
  | cons_cons a _ ih =>
    rw [List.flatMap_cons, List.flatMap_cons]
    exact (List.Sublist.refl _).append ih

theorem entries_flatMap (t : TableImg) : t.entries = t.blocks.flatMap (·.blk.kvs) := by
  unfold TableImg.entries
  rw [List.flatMap_def]

/-- a scan that keeps a sublist of the blocks returns at most all entries -/
theorem scan_length_le (t : TableImg) {bs : List DBlock} (h : bs.Sublist t.blocks) :
    (bs.flatMap (·.blk.kvs)).length ≤ t.entries.length := by
  rw [entries_flatMap]
  exact (sublist_flatMap _ h).length_le

/-- number of entries of the fault schedule that are not `Fault.none` -/
def faultCount (w : World) : Nat := (w.sched.filter (fun f => decide (f ≠ Fault.none))).length

theorem faultCount_tail (s : List Fault) :
    (s.tail.filter (fun f => decide (f ≠ Fault.none))).length
      ≤ (s.filter (fun f => decide (f ≠ Fault.none))).length := by
  cases s with
  | nil => exact Nat.le_refl _
  | cons f rest =>
    simp only [List.tail_cons]
    by_cases h : f = Fault.none
    · simp [h]
    · simp [h]

/-- the schedule entry the next `read_at` consumes is not a fault -/
def HeadNormal (s : List Fault) : Prop := s = [] ∨ ∃ rest, s = Fault.none :: rest

theorem faultCount_tail_lt (s : List Fault) (h : ¬ HeadNormal s) :
    (s.tail.filter (fun f => decide (f ≠ Fault.none))).length + 1
      = (s.filter (fun f => decide (f ≠ Fault.none))).length := by
  cases s with
  | nil => exact absurd (.inl rfl) h
  | cons f rest =>
    have hf : f ≠ Fault.none := by
      intro e; exact h (.inr ⟨rest, by rw [e]⟩)
    simp [hf]

theorem readAt_sched (file off len : Nat) (w : World) :
    (readAt file off len w).1.sched = w.sched.tail
      ∧ (HeadNormal w.sched → (readAt file off len w).2 = .ok (cleanBuf (w.files.getD file []) off len)) := by
  have hn : (if off > (w.files.getD file []).length then 0
              else min len ((w.files.getD file []).length - off))
            = min len ((w.files.getD file []).length - off) := by
    split <;> omega
  have hclean : ((w.files.getD file []).drop off).take (min len ((w.files.getD file []).length - off))
        ++ List.replicate (len - min len ((w.files.getD file []).length - off)) 0
      = cleanBuf (w.files.getD file []) off len := by
    unfold cleanBuf
    congr 1
    rw [List.take_eq_take_iff]
    simp only [List.length_drop]
    omega
  unfold readAt
  rcases hs : w.sched with _ | ⟨f, rest⟩
  · refine ⟨rfl, fun _ => ?_⟩
    simp only [hn, hclean]
  · cases f with
    | none =>
      refine ⟨rfl, fun _ => ?_⟩
      simp only [hn, hclean]
    | ioError =>
      refine ⟨rfl, ?_⟩
      rintro (h | ⟨r, h⟩) <;> cases h
    | short k =>
      refine ⟨rfl, ?_⟩
      rintro (h | ⟨r, h⟩) <;> cases h

theorem readTableBlock_sched (file : Nat) (loc : BlockHandle) (w : World) :
    (readTableBlock file loc w).1.sched = w.sched.tail
      ∧ (HeadNormal w.sched → (readTableBlock file loc w).2 = tableBlockAt (w.files.getD file []) loc) := by
  obtain ⟨h1, h2⟩ := readAt_sched file loc.offset (loc.size + 5)
    { w with allocs := (loc.size + 5) :: w.allocs }
  have hrb : readBytes file ⟨loc.offset, loc.size + 5⟩ w
      = readAt file loc.offset (loc.size + 5) { w with allocs := (loc.size + 5) :: w.allocs } := rfl
  have h5 : loc.size + Consts.tableBlockCksumLen + Consts.tableBlockCompressLen = loc.size + 5 := rfl
  rw [readTableBlock_eq, readBlockContents_eq, h5, hrb]
  rcases hr : readAt file loc.offset (loc.size + 5) { w with allocs := (loc.size + 5) :: w.allocs }
    with ⟨w', r⟩
  rw [hr] at h1 h2
  simp only at h1 h2
  constructor
  · cases r with
    | ok buf =>
      simp only []
      rcases verifyBlock buf loc.size with c | c | c | _
      · simp only []
        split <;> exact h1
      · exact h1
      · exact h1
      · exact h1
    | err c => exact h1
    | panic s => exact h1
    | diverge => exact h1
  · intro hh
    rw [h2 hh]
    simp only []
    unfold tableBlockAt blockAt
    rw [h5]
    rcases verifyBlock (cleanBuf (w.files.getD file []) loc.offset (loc.size + 5)) loc.size with c | c | c | _
    · simp only []
      split <;> rfl
    · rfl
    · rfl
    · rfl

section
open TI Spec TwoLevel
variable (cmp : Cmp) (hc : cmp.Lawful) (p : FilterPolicy) (t : TableImg) (hwf : t.WF cmp)
  (fv : Option Bytes) (tb : Table) (hop : Opened tb t cmp p fv)
include hc hwf hop

/-- a block read under any schedule: the invariant is kept, the result is right or an error, no read
    adds faults to the schedule, and a failed read consumed a fault -/
theorem readBlock_faulty_step (hns : NoShortCollision t) (w : World) (hi : Inv tb t w)
    (d : DBlock) (hd : d ∈ t.blocks) :
    Inv tb t (tb.readBlock d.handle w).1
      ∧ ((tb.readBlock d.handle w).2 = .ok d.blk.contents ∨ ∃ c, (tb.readBlock d.handle w).2 = .err c)
      ∧ faultCount (tb.readBlock d.handle w).1 ≤ faultCount w
      ∧ (∀ c, (tb.readBlock d.handle w).2 = .err c → faultCount (tb.readBlock d.handle w).1 + 1 ≤ faultCount w) := by
  obtain ⟨hf, hcoh, hcv⟩ := hi
  obtain ⟨h1, h2, h3, _, _⟩ := readBlock_faulty cmp hc p t hwf fv tb hop hns w hf hcoh d hd
  obtain ⟨h4, _⟩ := TT.safe_readBlock tb d.handle w hcv
  refine ⟨⟨h1, h2, h4⟩, h3, ?_⟩
  have hb : InBounds d.handle tb.fileSize := hop.fileSize ▸ hwf.dataBounds d hd
  rw [readBlock_step tb d.handle w hb]
  cases hg : (w.cache.get (tb.cacheId, d.handle.offset % 2 ^ 64)).2 with
  | some b =>
    refine ⟨Nat.le_refl _, ?_⟩
    intro c hc'; cases hc'
  | none =>
    obtain ⟨s1, s2⟩ := readTableBlock_sched tb.file d.handle (afterLookup tb d.handle w)
    have hsched : (afterLookup tb d.handle w).sched = w.sched := rfl
    have hfile : (afterLookup tb d.handle w).files.getD tb.file [] = t.img := hf
    rw [hsched] at s1 s2
    rw [hfile, hwf.dataRead d hd] at s2
    rcases hr : readTableBlock tb.file d.handle (afterLookup tb d.handle w) with ⟨w2, r⟩
    rw [hr] at s1 s2
    simp only at s1 s2
    have hle : faultCount w2 ≤ faultCount w := by
      unfold faultCount; rw [s1]; exact faultCount_tail _
    cases r with
    | ok b =>
      refine ⟨hle, ?_⟩
      intro c hc'; cases hc'
    | err c =>
      refine ⟨hle, ?_⟩
      intro _ _
      have hnh : ¬ HeadNormal w.sched := by
        intro hh
        have := s2 hh
        cases this
      show faultCount w2 + 1 ≤ faultCount w
      unfold faultCount
      rw [s1, faultCount_tail_lt _ hnh]
      exact Nat.le_refl _
    | panic s => exact ⟨hle, by intro c hc'; cases hc'⟩
    | diverge => exact ⟨hle, by intro c hc'; cases hc'⟩

/-- a reset iterator of the table is the before-first cursor -/
theorem simT_reset_of_good {it : TableIter} (h : Good tb it) : SimT t tb it.reset none := by
  obtain ⟨ipos, hon⟩ := Good.on cmp hc p t hwf fv tb hop h
  exact ⟨hon.table, rfl, simB_reset hwf.indexWF.1 hon.on.index⟩

/-- C14, scans: under ANY fault schedule, from a fresh / reset iterator, calling `next` until it first
    returns `none` takes `n + 1 ≤ t.entries.length + 1` calls and yields exactly the entries of the data
    blocks whose read succeeded in this run (`ScanFrom`: whole blocks, in table order), then `none`;
    every omitted block consumed at least one fault of the schedule -/
theorem scan_faulty (hns : NoShortCollision t) (w : World) (hi : Inv tb t w)
    (it : TableIter) (hs : SimT t tb it none) :
    ∃ bs w' it', ScanFrom tb w t.blocks bs w'
      ∧ it.run (List.replicate ((bs.flatMap (·.blk.kvs)).length + 1) .next) w = (w', .ok (it', scanOuts bs))
      ∧ Inv tb t w' ∧ SimT t tb it' none
      ∧ (t.blocks.length - bs.length) + faultCount w' ≤ faultCount w := by
  have hload : ∀ w, Inv tb t w → ∀ d ∈ t.blocks, Inv tb t (tb.readBlock d.handle w).1
      ∧ ((tb.readBlock d.handle w).2 = .ok d.blk.contents ∨ ∃ c, (tb.readBlock d.handle w).2 = .err c) := by
    intro w hi d hd
    obtain ⟨a, b, _⟩ := readBlock_faulty_step cmp hc p t hwf fv tb hop hns w hi d hd
    exact ⟨a, b⟩
  obtain ⟨bs, w', it', hscan, hp', hsT, hrun⟩ :=
    scan_gen cmp hc p t hwf fv tb hop (Inv tb t) hload t.blocks.length t.blocks 0 it w (Nat.le_refl _)
      rfl (.inl ⟨rfl, hs.table, hs.at_.1, hs.at_.2⟩) hi
  refine ⟨bs, w', it', hscan, hrun, hp', hsT, ?_⟩
  refine ScanFrom.count (Inv tb t) faultCount t.blocks ?_ hscan (fun _ h => h) hi
  intro w hi d hd
  obtain ⟨a, _, c, e⟩ := readBlock_faulty_step cmp hc p t hwf fv tb hop hns w hi d hd
  exact ⟨a, c, e⟩

end

section
open TI Spec TwoLevel
variable (cmp : Cmp) (hc : cmp.Lawful) (p : FilterPolicy) (t : TableImg) (hwf : t.WF cmp)
  (fv : Option Bytes) (d0 : DBlock) (img' : Bytes) (hdm : Damaged p t d0 img')
  (tb : Table) (hop : Opened tb t cmp p fv)
include hc hwf hdm hop

/-- the world invariant on the damaged image -/
def DmgInv (t : TableImg) (d0 : DBlock) (img' : Bytes) (tb : Table) (w : World) : Prop :=
  CleanWorld w tb.file img' ∧ CoherentBut w tb.cacheId t d0

/-- on the damaged image the reads of a scan fail exactly on `d0` -/
theorem scanFrom_dmg {w w' : World} {ds bs : List DBlock} (h : ScanFrom tb w ds bs w')
    (hds : ∀ d ∈ ds, d ∈ t.blocks) (hp : DmgInv t d0 img' tb w) :
    DmgInv t d0 img' tb w'
      ∧ (∀ pre post, ds = pre ++ d0 :: post → d0 ∉ pre → d0 ∉ post → bs = pre ++ post)
      ∧ (d0 ∉ ds → bs = ds) := by
  induction h with
  | nil w =>
    refine ⟨hp, ?_, fun _ => rfl⟩
    intro pre post h; cases pre <;> cases h
  | @keep w w1 w' d ds bs hr hs ih =>
    have hd : d ∈ t.blocks := hds d List.mem_cons_self
    have hne : d ≠ d0 := by
      intro e
      subst e
      obtain ⟨w'', hb, _⟩ := readBlock_dmg_bad cmp hc p t hwf fv d img' hdm tb hop w hp.1 hp.2
      rw [hr] at hb
      cases hb
    obtain ⟨w'', hb, hc1, hc2⟩ := readBlock_dmg_other cmp hc p t hwf fv d0 img' hdm tb hop w hp.1 hp.2 d hd hne
    rw [hr] at hb
    cases hb
    obtain ⟨i1, i2, i3⟩ := ih (fun x hx => hds x (List.mem_cons_of_mem _ hx)) ⟨hc1, hc2⟩
    refine ⟨i1, ?_, ?_⟩
    · intro pre post hsplit hpre hpost
      cases pre with
      | nil =>
        simp only [List.nil_append, List.cons.injEq] at hsplit
        exact absurd hsplit.1 hne
      | cons x pre' =>
        simp only [List.cons_append, List.cons.injEq] at hsplit
        obtain ⟨rfl, hsplit⟩ := hsplit
        rw [i2 pre' post hsplit (fun h => hpre (List.mem_cons_of_mem _ h)) hpost]
        rfl
    · intro hnot
      rw [i3 (fun h => hnot (List.mem_cons_of_mem _ h))]
  | @skip w w1 w' d ds bs c hr hs ih =>
    have hd : d ∈ t.blocks := hds d List.mem_cons_self
    have he : d = d0 := by
      apply Classical.byContradiction
      intro hne
      obtain ⟨w'', hb, _⟩ := readBlock_dmg_other cmp hc p t hwf fv d0 img' hdm tb hop w hp.1 hp.2 d hd hne
      rw [hr] at hb
      cases hb
    subst he
    obtain ⟨w'', hb, hc1, hc2, _⟩ := readBlock_dmg_bad cmp hc p t hwf fv d img' hdm tb hop w hp.1 hp.2
    rw [hr] at hb
    cases hb
    obtain ⟨i1, i2, i3⟩ := ih (fun x hx => hds x (List.mem_cons_of_mem _ hx)) ⟨hc1, hc2⟩
    refine ⟨i1, ?_, ?_⟩
    · intro pre post hsplit hpre hpost
      cases pre with
      | nil =>
        simp only [List.nil_append, List.cons.injEq] at hsplit
        rw [← hsplit.2] at hpost
        rw [i3 hpost, hsplit.2]
        rfl
      | cons x pre' =>
        simp only [List.cons_append, List.cons.injEq] at hsplit
        exact absurd (hsplit.1 ▸ List.mem_cons_self) hpre
    · intro hnot
      exact absurd List.mem_cons_self hnot

/-- the blocks of a well-formed table are pairwise different: a block occurs once -/
theorem block_once {pre post : List DBlock} (hsplit : t.blocks = pre ++ d0 :: post) :
    d0 ∉ pre ∧ d0 ∉ post := by
  have h0 : t.blocks[pre.length]? = some d0 := by
    rw [hsplit, List.getElem?_append_right (Nat.le_refl _)]; simp
  constructor
  · intro hm
    obtain ⟨j, hj, hjd⟩ := List.mem_iff_getElem.mp hm
    have hj' : t.blocks[j]? = some d0 := by
      rw [hsplit, List.getElem?_append_left hj, List.getElem?_eq_getElem hj, hjd]
    have := hwf.offsetsDistinct j pre.length d0 d0 hj' h0 rfl
    omega
  · intro hm
    obtain ⟨j, hj, hjd⟩ := List.mem_iff_getElem.mp hm
    have hj' : t.blocks[pre.length + 1 + j]? = some d0 := by
      rw [hsplit, List.getElem?_append_right (by omega)]
      have : pre.length + 1 + j - pre.length = j + 1 := by omega
      rw [this, List.getElem?_cons_succ, List.getElem?_eq_getElem hj, hjd]
    have := hwf.offsetsDistinct _ pre.length d0 d0 hj' h0 rfl
    omega

/-- C07, scans: on the damaged image (fault-free source) the forward scan of a fresh / reset iterator
    yields exactly the entries of all blocks but the damaged one, in order, then `none` -/
theorem scan_dmg (pre post : List DBlock) (hsplit : t.blocks = pre ++ d0 :: post)
    (w : World) (hcw : CleanWorld w tb.file img') (hcoh : CoherentBut w tb.cacheId t d0)
    (it : TableIter) (hs : SimT t tb it none) :
    ∃ w' it', it.run (List.replicate (((pre ++ post).flatMap (·.blk.kvs)).length + 1) .next) w
          = (w', .ok (it', scanOuts (pre ++ post)))
      ∧ CleanWorld w' tb.file img' ∧ CoherentBut w' tb.cacheId t d0 ∧ SimT t tb it' none := by
  have hload : ∀ w, DmgInv t d0 img' tb w → ∀ d ∈ t.blocks, DmgInv t d0 img' tb (tb.readBlock d.handle w).1
      ∧ ((tb.readBlock d.handle w).2 = .ok d.blk.contents ∨ ∃ c, (tb.readBlock d.handle w).2 = .err c) := by
    intro w hp d hd
    by_cases he : d = d0
    · subst he
      obtain ⟨w'', hb, hc1, hc2, _⟩ := readBlock_dmg_bad cmp hc p t hwf fv d img' hdm tb hop w hp.1 hp.2
      rw [hb]
      exact ⟨⟨hc1, hc2⟩, .inr ⟨_, rfl⟩⟩
    · obtain ⟨w'', hb, hc1, hc2⟩ :=
        readBlock_dmg_other cmp hc p t hwf fv d0 img' hdm tb hop w hp.1 hp.2 d hd he
      rw [hb]
      exact ⟨⟨hc1, hc2⟩, .inl rfl⟩
  obtain ⟨bs, w', it', hscan, _, hsT, hrun⟩ :=
    scan_gen cmp hc p t hwf fv tb hop (DmgInv t d0 img' tb) hload t.blocks.length t.blocks 0 it w
      (Nat.le_refl _) rfl (.inl ⟨rfl, hs.table, hs.at_.1, hs.at_.2⟩) ⟨hcw, hcoh⟩
  obtain ⟨hp', hshape, _⟩ :=
    scanFrom_dmg cmp hc p t hwf fv d0 img' hdm tb hop hscan (fun _ h => h) ⟨hcw, hcoh⟩
  obtain ⟨n1, n2⟩ := block_once cmp hc p t hwf fv d0 img' hdm tb hop hsplit
  have hbs := hshape pre post hsplit n1 n2
  subst hbs
  exact ⟨w', it', hrun, hp'.1, hp'.2, hsT⟩

/-- the number of entries outside the damaged block -/
theorem entries_split (pre post : List DBlock) (hsplit : t.blocks = pre ++ d0 :: post) :
    ((pre ++ post).flatMap (·.blk.kvs)).length + d0.blk.kvs.length = t.entries.length := by
  rw [entries_flatMap, hsplit]
  simp only [List.flatMap_append, List.flatMap_cons, List.length_append]
  omega

end

end FT
end Sst

#print axioms Sst.FT.open_faulty
#print axioms Sst.FT.short_tail_at
#print axioms Sst.FT.blockAt_altered_any
#print axioms Sst.FT.open_index_dmg
#print axioms Sst.FT.open_meta_dmg
#print axioms Sst.FT.open_filter_dmg
#print axioms Sst.FT.scan_gen
#print axioms Sst.FT.scan_faulty
#print axioms Sst.FT.scan_dmg
