import SstModel.Lemmas.FaultyWitness
import SstModel.Lemmas.CacheShare
import SstModel.Lemmas.SpecTable
import SstModel.Spec.WFTable
/-
  Helpers for Props/NonVacuity.lean: concrete data on which the hypotheses of the headline theorems hold,
  and Bool-valued evaluators (with soundness lemmas) that let the kernel (`decide +kernel`) compute what
  the model does on that data.

  * `NV`: a table built by the model writer in the crate's DEFAULT style — bytewise comparator, bloom
    filter with 10 bits per key, restart interval 2, block size 16 — from six entries (the empty key, an
    empty value, keys containing 0xff): 232 bytes, three data blocks.
  * `Hand`: a table image that the crate's writer can NOT emit, assembled byte by byte; a Bool checker
    `Spec.Format.wfTableB` for `Spec.Format.WFTable` with its soundness proof.
-/
namespace Sst
set_option linter.unusedSectionVars false

/-! ### generic evaluators -/

namespace NV

/-- open file 0 of `w0` (declared size `size`) with reader policy `p`, create an iterator, evaluate `f` -/
def withOpened (p : FilterPolicy) (w0 : World) (size : Nat) (f : Table → TableIter → World → Bool) : Bool :=
  match Table.new ⟨defaultCmp, p⟩ 0 size w0 with
  | (w1, .ok tb) =>
    match TableIter.new tb w1 with
    | (w2, .ok it) => f tb it w2
    | _ => false
  | _ => false

theorem withOpened_of {p : FilterPolicy} {w0 : World} {size : Nat} {f : Table → TableIter → World → Bool}
    {w1 : World} {tb : Table} {it : TableIter}
    (hnew : Table.new ⟨defaultCmp, p⟩ 0 size w0 = (w1, .ok tb))
    (hit : TableIter.new tb w1 = (w1, .ok it)) (h : withOpened p w0 size f = true) : f tb it w1 = true := by
  unfold withOpened at h
  rw [hnew] at h
  simp only at h
  rw [hit] at h
  exact h

/-- `tb.approxOffsetOf k w` returned `ok n` -/
def approxB (tb : Table) (k : Bytes) (w : World) (n : Nat) : Bool :=
  match (tb.approxOffsetOf k w).2 with
  | .ok m => m == n
  | _ => false

theorem approxB_sound {tb : Table} {k : Bytes} {w : World} {n : Nat} (h : approxB tb k w n = true) :
    (tb.approxOffsetOf k w).2 = .ok n := by
  unfold approxB at h
  cases hr : (tb.approxOffsetOf k w).2 <;> rw [hr] at h <;> simp_all

/-- the number of `read_at` calls `tb.get k w` made -/
def getReads (tb : Table) (k : Bytes) (w : World) : Nat :=
  (tb.get k w).1.readLog.length - w.readLog.length

/-- the result of a build is `ok n` -/
def okSizeB (r : TableBuilder × Res Nat) (n : Nat) : Bool :=
  match r.2 with
  | .ok m => m == n
  | _ => false

theorem okSizeB_sound {r : TableBuilder × Res Nat} {n : Nat} (h : okSizeB r n = true) : r = (r.1, .ok n) := by
  obtain ⟨t, x⟩ := r
  unfold okSizeB at h
  cases x <;> simp_all

/-- the result of a build is `err c` -/
def errB (r : TableBuilder × Res Nat) (c : Code) : Bool :=
  match r.2 with
  | .err c' => c' == c
  | _ => false

theorem errB_sound {r : TableBuilder × Res Nat} {c : Code} (h : errB r c = true) : r.2 = .err c := by
  obtain ⟨t, x⟩ := r
  unfold errB at h
  cases x <;> simp_all

/-- a result is a panic at site `s` -/
def panicB {α : Type} (r : Res α) (s : String) : Bool :=
  match r with
  | .panic s' => s' == s
  | _ => false

theorem panicB_sound {α : Type} {r : Res α} {s : String} (h : panicB r s = true) : r = .panic s := by
  unfold panicB at h
  cases r <;> simp_all

/-! ### the table in the default style -/

/-- bytewise comparator, block size 16, restart interval 2, no compression, bloom filter with 10 bits per
    key (the crate's default policy) -/
def opts : WOpts :=
  { cmp := defaultCmp, blockSize := 16, restartInterval := 2, compression := 0,
    filter := Bloom.policy 10, compress := id }

/-- six entries: the empty key, an empty value, a key that is a proper prefix of the next, keys ending in 0xff -/
def entries : List (Bytes × Bytes) :=
  [([], [7]), ([1], []), ([1, 2], [12]), ([3], [30, 31]), ([3, 0xff], [9]), ([5], [50])]

/-- what the perfect sink received: 232 bytes. Data blocks at 0 (entries 0-2, index key `[2]`), 31
    (entries 3-4, index key `[4]`), 55 (entry 5, index key `[5, 0]`); filter block at 73, metaindex at 96,
    index at 148, footer at 184 -/
def img : Bytes := (TableBuilder.build opts {} entries).1.sink.received

/-- file 0 holds the image; an empty cache of capacity 4; no read faults -/
def world : World := { files := [img], cache := { cap := 4 } }

theorem opts_ok : WOptsOK opts := wOptsOK_bloom 16 2 (by decide) 10 id

theorem build_eval : okSizeB (TableBuilder.build opts {} entries) 232 = true := by decide +kernel

theorem built : ∃ t0, TableBuilder.build opts {} entries = (t0, .ok 232) ∧ t0.sink.received = img :=
  ⟨_, okSizeB_sound build_eval, rfl⟩

theorem img_length : img.length = 232 := by decide +kernel

theorem world_clean : CleanWorld world 0 img := ⟨rfl, rfl⟩

theorem img_handles : dataHandlesOf img = some [⟨0, 26⟩, ⟨31, 19⟩, ⟨55, 13⟩] := by decide +kernel

theorem img_footer : Footer.tryDecode (img.drop (img.length - 48)) = some ⟨⟨96, 47⟩, ⟨148, 31⟩⟩ := by
  decide +kernel

theorem img_blockKVs :
    blockKVsAt img ⟨0, 26⟩ = some [([], [7]), ([1], []), ([1, 2], [12])]
      ∧ blockKVsAt img ⟨31, 19⟩ = some [([3], [30, 31]), ([3, 0xff], [9])]
      ∧ blockKVsAt img ⟨55, 13⟩ = some [([5], [50])] := by decide +kernel

theorem img_indexKVs :
    blockKVsAt img ⟨148, 31⟩ = some [([2], [0, 26]), ([4], [31, 19]), ([5, 0], [55, 13])] := by
  decide +kernel

/-- the three data blocks of ANY well-formed `TableImg` with the bytes `img` -/
theorem img_blocks {cmp : Cmp} {t : TableImg} (hwf : t.WF cmp) (himg : t.img = img) :
    ∃ d0 d1 d2, t.blocks = [d0, d1, d2]
      ∧ d0.handle = ⟨0, 26⟩ ∧ d1.handle = ⟨31, 19⟩ ∧ d2.handle = ⟨55, 13⟩
      ∧ d0.keys = [[], [1], [1, 2]] ∧ d1.keys = [[3], [3, 0xff]] ∧ d2.keys = [[5]]
      ∧ d0.sep = [2] ∧ d1.sep = [4] ∧ d2.sep = [5, 0]
      ∧ t.metaHandle = ⟨96, 47⟩ ∧ t.indexHandle = ⟨148, 31⟩ := by
  have hmap := FT.dataHandles_sound hwf _ (himg ▸ img_handles)
  have hblocks : ∃ d0 d1 d2, t.blocks = [d0, d1, d2]
      ∧ d0.handle = ⟨0, 26⟩ ∧ d1.handle = ⟨31, 19⟩ ∧ d2.handle = ⟨55, 13⟩ := by
    match hbl : t.blocks, hmap with
    | [d0, d1, d2], hm =>
      simp only [List.map_cons, List.map_nil, List.cons.injEq, and_true] at hm
      exact ⟨d0, d1, d2, rfl, hm.1, hm.2.1, hm.2.2⟩
    | [], hm => simp at hm
    | [_], hm => simp at hm
    | [_, _], hm => simp at hm
    | _ :: _ :: _ :: _ :: _, hm => simp at hm
  obtain ⟨d0, d1, d2, hbl, h0, h1, h2⟩ := hblocks
  obtain ⟨k0, k1, k2⟩ := img_blockKVs
  have hm0 : d0 ∈ t.blocks := by rw [hbl]; simp
  have hm1 : d1 ∈ t.blocks := by rw [hbl]; simp
  have hm2 : d2 ∈ t.blocks := by rw [hbl]; simp
  have e0 := FT.data_kvs_of_eval hwf d0 hm0 _ (by rw [himg, h0]; exact k0)
  have e1 := FT.data_kvs_of_eval hwf d1 hm1 _ (by rw [himg, h1]; exact k1)
  have e2 := FT.data_kvs_of_eval hwf d2 hm2 _ (by rw [himg, h2]; exact k2)
  have hfoot := hwf.footer
  rw [himg, img_footer] at hfoot
  simp only [Option.some.injEq, Footer.mk.injEq] at hfoot
  obtain ⟨hmh, hih⟩ := hfoot
  have hix := FT.index_kvs_of_eval hwf _ (by rw [himg, ← hih]; exact img_indexKVs)
  rw [hwf.indexKVs, hbl] at hix
  simp only [List.map_cons, List.map_nil, List.cons.injEq, Prod.mk.injEq, and_true] at hix
  refine ⟨d0, d1, d2, hbl, h0, h1, h2, ?_, ?_, ?_, hix.1.1, hix.2.1.1, hix.2.2.1, hmh.symm, hih.symm⟩
  · show d0.blk.es.map (·.key) = _
    rw [← PBlock.kvs_keys, e0]; rfl
  · show d1.blk.es.map (·.key) = _
    rw [← PBlock.kvs_keys, e1]; rfl
  · show d2.blk.es.map (·.key) = _
    rw [← PBlock.kvs_keys, e2]; rfl

/-! ### direct evaluation of the reader on the 232 bytes (cross-checks; nothing of the proofs is used) -/

/-- the model reader RUN by the kernel on `world`: full scan; the 6-call history of `C04_instance`; the
    seek after a 5-call history of `C03_instance`; lookups of stored and absent keys; approximate offsets
    (`[5, 0]` is above every stored key but equals the last index key: the START of the last block, finding
    F4); and the number of `read_at` calls of a lookup: 1 for a stored key, 0 for the absent keys, which the
    bloom filter rejects before any block is fetched -/
theorem reader_eval :
    withOpened (Bloom.policy 10) world 232 (fun tb it w =>
      FT.runB it (List.replicate 7 .next) w
        [.entry (some ([], [7])), .entry (some ([1], [])), .entry (some ([1, 2], [12])),
         .entry (some ([3], [30, 31])), .entry (some ([3, 0xff], [9])), .entry (some ([5], [50])), .entry none]
      && FT.runB it [.next, .next, .seek [2, 5], .prev, .currentKey, .advance] w
        [.entry (some ([], [7])), .entry (some ([1], [])), .unit, .flag true, .key (some [1, 2]), .flag true]
      && FT.runB it (List.replicate 5 .next ++ [.seek [1, 3], .current, .valid]) w
        [.entry (some ([], [7])), .entry (some ([1], [])), .entry (some ([1, 2], [12])),
         .entry (some ([3], [30, 31])), .entry (some ([3, 0xff], [9])),
         .unit, .entry (some ([3], [30, 31])), .flag true]
      && FT.runB it [.seek [5, 1], .current, .valid] w [.unit, .entry none, .flag false]
      && FT.getB tb [] w (.ok (some [7])) && FT.getB tb [1] w (.ok (some []))
      && FT.getB tb [3, 0xff] w (.ok (some [9])) && FT.getB tb [5] w (.ok (some [50]))
      && FT.getB tb [2] w (.ok none) && FT.getB tb [3, 7] w (.ok none)
      && FT.getB tb [0] w (.ok none) && FT.getB tb [9] w (.ok none)
      && approxB tb [] w 0 && approxB tb [1] w 0 && approxB tb [1, 2] w 0 && approxB tb [3] w 31
      && approxB tb [3, 0xff] w 31 && approxB tb [5] w 55 && approxB tb [9] w 96 && approxB tb [5, 0] w 55
      && getReads tb [3] w == 1 && getReads tb [2] w == 0 && getReads tb [3, 7] w == 0
      && getReads tb [0] w == 0 && getReads tb [9] w == 0) = true := by
  decide +kernel

/-- no strict prefix of `img` of length ≥ 48 ends with the magic number, checked -/
def noInnerMagicB (img : Bytes) : Bool :=
  (List.range img.length).all fun n => decide (n < 48) || (img.take n).drop (n - 8) != Consts.magicFooterEncoded

theorem noInnerMagicB_sound {img : Bytes} (h : noInnerMagicB img = true) :
    ∀ n, 48 ≤ n → n < img.length → (img.take n).drop (n - 8) ≠ Consts.magicFooterEncoded := by
  intro n h1 h2
  unfold noInnerMagicB at h
  rw [List.all_eq_true] at h
  have := h n (List.mem_range.mpr h2)
  simp only [Bool.or_eq_true, decide_eq_true_eq, bne_iff_ne] at this
  rcases this with h | h
  · omega
  · exact h

theorem img_noInnerMagic : noInnerMagicB img = true := by decide +kernel

theorem witnessImg_noInnerMagic : noInnerMagicB FT.witnessImg = true := by decide +kernel

end NV

/-! ### a Bool checker for `Spec.Format.WFTable` -/

namespace Spec.Format

def pairwiseB {α : Type} (r : α → α → Bool) : List α → Bool
  | [] => true
  | a :: l => l.all (r a) && pairwiseB r l

theorem pairwiseB_sound {α : Type} {r : α → α → Bool} :
    ∀ {l : List α}, pairwiseB r l = true → l.Pairwise (fun a b => r a b = true)
  | [], _ => .nil
  | a :: l, h => by
    simp only [pairwiseB, Bool.and_eq_true, List.all_eq_true] at h
    exact .cons h.1 (pairwiseB_sound h.2)

/-- the clauses of `WFTable cmp img d` other than `decodes`, checked -/
def wfDecodedB (cmp : Cmp) (img : Bytes) (d : Decoded) : Bool :=
  decide (img.length < 2 ^ 64)
  && d.blocks.all (fun b => !b.entries.isEmpty)
  && pairwiseB (fun a b => cmp.cmp a b == .lt) (d.entries.map (·.1))
  && d.blocks.all (fun b => b.entries.all (fun e => cmp.cmp e.1 b.indexKey != .gt))
  && pairwiseB (fun bi bj => bj.entries.all (fun e => cmp.cmp bi.indexKey e.1 == .lt)) d.blocks
  && pairwiseB (fun bi bj => bi.handle.offset != bj.handle.offset) d.blocks
  && pairwiseB (fun a b => cmp.cmp a b == .lt) (d.metaEntries.map (·.1))

/-- what the independent decoder yields (an empty table if it rejects) -/
def decoded (img : Bytes) : Decoded := (decodeTable img).getD ⟨⟨0, 0⟩, ⟨0, 0⟩, [], []⟩

/-- `WFTable cmp img (decoded img)`, checked: decode, then check the order / bracketing clauses -/
def wfTableB (cmp : Cmp) (img : Bytes) : Bool :=
  (decodeTable img).isSome && wfDecodedB cmp img (decoded img)

theorem wfTableB_sound {cmp : Cmp} {img : Bytes} (h : wfTableB cmp img = true) :
    WFTable cmp img (decoded img) := by
  unfold wfTableB at h
  rw [Bool.and_eq_true] at h
  obtain ⟨hs, hd⟩ := h
  have hdec : decodeTable img = some (decoded img) := by
    unfold decoded
    cases hx : decodeTable img with
    | none => rw [hx] at hs; cases hs
    | some d => rfl
  generalize decoded img = d at hd hdec
  unfold wfDecodedB at hd
  simp only [Bool.and_eq_true, decide_eq_true_eq] at hd
  obtain ⟨⟨⟨⟨⟨⟨h1, h2⟩, h3⟩, h4⟩, h5⟩, h6⟩, h7⟩ := hd
  have p5 := pairwiseB_sound h5
  have p6 := pairwiseB_sound h6
  rw [List.pairwise_iff_getElem] at p5 p6
  refine ⟨hdec, h1, ?_, ?_, ?_, ?_, ?_, ?_⟩
  · intro b hb he
    rw [List.all_eq_true] at h2
    have := h2 b hb
    rw [he] at this
    simp at this
  · exact (pairwiseB_sound h3).imp (fun h => by simpa using h)
  · intro b hb e he
    rw [List.all_eq_true] at h4
    have := h4 b hb
    rw [List.all_eq_true] at this
    simpa using this e he
  · intro i j bi bj hij hi hj e he
    obtain ⟨hi', rfl⟩ := List.getElem?_eq_some_iff.mp hi
    obtain ⟨hj', rfl⟩ := List.getElem?_eq_some_iff.mp hj
    have := p5 i j hi' hj' hij
    rw [List.all_eq_true] at this
    simpa using this e he
  · intro i j bi bj hi hj heq
    obtain ⟨hi', rfl⟩ := List.getElem?_eq_some_iff.mp hi
    obtain ⟨hj', rfl⟩ := List.getElem?_eq_some_iff.mp hj
    rcases Nat.lt_trichotomy i j with hlt | heq' | hgt
    · have := p6 i j hi' hj' hlt
      simp only [bne_iff_ne, ne_eq] at this
      exact absurd heq this
    · exact heq'
    · have := p6 j i hj' hi' hgt
      simp only [bne_iff_ne, ne_eq] at this
      exact absurd heq.symm this
  · exact (pairwiseB_sound h7).imp (fun h => by simpa using h)

end Spec.Format

/-! ### a table the crate's writer cannot emit, assembled by hand -/

namespace Hand

/-- one block entry WITHOUT prefix sharing: shared = 0, the whole key, the value -/
def rawEntry (k v : Bytes) : Bytes :=
  [0] ++ encodeVarint k.length ++ encodeVarint v.length ++ k ++ v

def restartOffsets : List Bytes → Nat → List Nat
  | [], _ => []
  | e :: es, off => off :: restartOffsets es (off + e.length)

/-- block contents with restart interval 1 (a restart point at EVERY entry) and no prefix sharing -/
def rawBlock (kvs : List (Bytes × Bytes)) : Bytes :=
  let ents := kvs.map (fun e => rawEntry e.1 e.2)
  ents.flatten ++ ((restartOffsets ents 0).map encodeFixed32).flatten ++ encodeFixed32 kvs.length

/-- physical block: contents, type byte 0 (uncompressed), masked CRC-32C of both -/
def phys (c : Bytes) : Bytes := c ++ [0] ++ encodeFixed32 (maskCrc (crc32c (c ++ [0])))

def kvsA : List (Bytes × Bytes) := [([0x61], [1]), ([0x61, 0x62], [2])]
def kvsB : List (Bytes × Bytes) := [([0x62], []), ([0x63, 0xff], [3, 4])]
def cA : Bytes := rawBlock kvsA
def cB : Bytes := rawBlock kvsB
/-- 120 bytes that belong to no block, between the two data blocks -/
def pad : Bytes := List.replicate 120 0xaa
/-- the metaindex: two keys no reader knows, no filter entry -/
def metaKVs : List (Bytes × Bytes) := [("aux.unknown".toUTF8.toList, [1, 2, 3]), ("zz.other".toUTF8.toList, [])]
def cM : Bytes := rawBlock metaKVs
/-- the block holding the GREATER keys comes first in the file -/
def hB : BlockHandle := ⟨0, cB.length⟩
def hA : BlockHandle := ⟨cB.length + 5 + 120, cA.length⟩
def hM : BlockHandle := ⟨hA.offset + hA.size + 5, cM.length⟩
/-- index keys EQUAL to the last key of their block (the crate's writer always emits a key strictly
    between the blocks, or a successor of the last key) -/
def cI : Bytes := rawBlock [([0x61, 0x62], hA.encode), ([0x63, 0xff], hB.encode)]
def hI : BlockHandle := ⟨hM.offset + hM.size + 5, cI.length⟩

/-- 301 bytes: block B | padding | block A | metaindex | index | footer -/
def img : Bytes := phys cB ++ pad ++ phys cA ++ phys cM ++ phys cI ++ Footer.encode ⟨hM, hI⟩

def world : World := { files := [img], cache := { cap := 1 } }

theorem img_wf_eval : Spec.Format.wfTableB defaultCmp img = true := by decide +kernel

theorem img_wf : Spec.Format.WFTable defaultCmp img (Spec.Format.decoded img) :=
  Spec.Format.wfTableB_sound img_wf_eval

theorem world_clean : CleanWorld world 0 img := ⟨rfl, rfl⟩

theorem img_length : img.length = 301 := by decide +kernel

/-- what the independent decoder sees: the four entries; per data block its handle, index key (= the LAST
    key of the block) and restart array (one restart per entry); the block with the smaller keys lies
    BEHIND the other one in the file (offset 148 vs 0); two unknown metaindex entries -/
theorem img_decoded_eval :
    (Spec.Format.decoded img).entries = [([0x61], [1]), ([0x61, 0x62], [2]), ([0x62], []), ([0x63, 0xff], [3, 4])]
      ∧ (Spec.Format.decoded img).blocks.map (fun b => (b.handle, b.indexKey, b.restarts))
          = [(⟨148, 23⟩, [0x61, 0x62], [0, 5]), (⟨0, 23⟩, [0x63, 0xff], [0, 4])]
      ∧ (Spec.Format.decoded img).blocks.map (fun b => b.entries.getLast?.map (·.1))
          = [some [0x61, 0x62], some [0x63, 0xff]]
      ∧ (Spec.Format.decoded img).metaEntries = metaKVs := by decide +kernel

/-- neither the bloom policy's nor the "no filter" policy's name occurs in the metaindex -/
theorem img_meta_foreign :
    (Spec.Format.decoded img).metaEntries.all (fun e =>
      e.1 != Table.filterName (Bloom.policy 10) && e.1 != Table.filterName noFilterPolicy) = true := by
  decide +kernel

/-- the model reader (bloom policy: the crate's default) RUN by the kernel on the 301 bytes -/
theorem reader_eval :
    NV.withOpened (Bloom.policy 10) world 301 (fun tb it w =>
      FT.runB it (List.replicate 5 .next) w
        [.entry (some ([0x61], [1])), .entry (some ([0x61, 0x62], [2])), .entry (some ([0x62], [])),
         .entry (some ([0x63, 0xff], [3, 4])), .entry none]
      && FT.getB tb [0x61, 0x62] w (.ok (some [2])) && FT.getB tb [0x62] w (.ok (some []))
      && FT.getB tb [0x61, 0x63] w (.ok none) && FT.getB tb [0x64] w (.ok none)
      && FT.runB it [.seek [0x61, 0x62], .current, .valid] w
        [.unit, .entry (some ([0x61, 0x62], [2])), .flag true]
      && FT.runB it [.seek [0x61, 0x62, 0], .current, .valid] w
        [.unit, .entry (some ([0x62], [])), .flag true]
      && FT.runB it [.seek [0x63, 0xff], .prev, .prev, .current] w
        [.unit, .flag true, .flag true, .entry (some ([0x61, 0x62], [2]))]) = true := by
  decide +kernel

end Hand

/-! ### two handles on one cache of capacity 1 (the table in the default style) -/

namespace NV

/-- file 0 holds `img`; an empty cache of capacity ONE -/
def world1 : World := { files := [img], cache := { cap := 1 } }

/-- the table `img` opened twice on `world1` (handles `tb1`, `tb2`; `w1` after the first open, `w0` after
    the second), a new iterator on each, with everything the C10 theorems assume -/
structure SharedOK (t : TableImg) (fv : Option Bytes) (tb1 tb2 : Table) (it1 it2 : TableIter)
    (w1 w0 : World) : Prop where
  img : t.img = NV.img
  entries : t.entries = NV.entries
  ok1 : (CS.Client.mk defaultCmp (Bloom.policy 10) t fv tb1).OK
  ok2 : (CS.Client.mk defaultCmp (Bloom.policy 10) t fv tb2).OK
  getOK : (CS.Client.mk defaultCmp (Bloom.policy 10) t fv tb2).GetOK
  ids : tb1.cacheId ≠ tb2.cacheId
  wok1 : WorldOK w0 tb1 t
  wok2 : WorldOK w0 tb2 t
  sim1 : SimT t tb1 it1 none
  sim2 : SimT t tb2 it2 none
  open1 : Table.new ⟨defaultCmp, Bloom.policy 10⟩ 0 232 world1 = (w1, .ok tb1)
  open2 : Table.new ⟨defaultCmp, Bloom.policy 10⟩ 0 232 w1 = (w0, .ok tb2)
  iter1 : TableIter.new tb1 w0 = (w0, .ok it1)
  iter2 : TableIter.new tb2 w0 = (w0, .ok it2)
  cap : w0.cache.cap = 1
  empty : w0.cache.entries = []

theorem shared_witness : ∃ t fv tb1 tb2 it1 it2 w1 w0, SharedOK t fv tb1 tb2 it1 it2 w1 w0 := by
  obtain ⟨t0, hb, hrec⟩ := built
  obtain ⟨_, _, t, himg, himglen, twf, hent, ⟨fv, hfv, hsound, _⟩, _⟩ :=
    built_image opts opts_ok (Bloom.policy 10) (readerPolicyOK_refl _) [] entries t0 232 hb (by decide)
      (fun h => absurd h (by decide))
  have hc : defaultCmp.Lawful := opts_ok.lawful
  have twf' : t.WF defaultCmp := twf
  have himg' : t.img = img := himg.trans hrec
  have hcw : CleanWorld world1 0 t.img := ⟨by rw [himg']; rfl, rfl⟩
  obtain ⟨w1, tb1, hnew1, hop1, hfile1, hid1, hcw1, hf1, hent1, hcap1, hnid1, _⟩ :=
    open_ok defaultCmp hc (Bloom.policy 10) t twf' fv hfv world1 0 hcw
  obtain ⟨w2, tb2, hnew2, hop2, hfile2, hid2, hcw2, hf2, hent2, hcap2, hnid2, _⟩ :=
    open_ok defaultCmp hc (Bloom.policy 10) t twf' fv hfv w1 0 hcw1
  have hempty2 : w2.cache.entries = [] := by rw [hent2, hent1]; rfl
  have hw2a : WorldOK w2 tb1 t :=
    ⟨by rw [hfile1]; exact hcw2, fun off c hm => by rw [hempty2] at hm; cases hm⟩
  have hw2b : WorldOK w2 tb2 t :=
    ⟨by rw [hfile2]; exact hcw2, fun off c hm => by rw [hempty2] at hm; cases hm⟩
  have hne : tb1.cacheId ≠ tb2.cacheId := by
    rw [hid1, hid2, hnid1]; omega
  obtain ⟨it1, hit1, hs1⟩ := iter_new_ok defaultCmp hc (Bloom.policy 10) t twf' fv tb1 hop1 w2
  obtain ⟨it2, hit2, hs2⟩ := iter_new_ok defaultCmp hc (Bloom.policy 10) t twf' fv tb2 hop2 w2
  rw [himglen] at hnew1 hnew2
  exact ⟨t, fv, tb1, tb2, it1, it2, w1, w2,
    { img := himg', entries := hent, ok1 := ⟨hc, twf', hop1⟩, ok2 := ⟨hc, twf', hop2⟩,
      getOK := ⟨hsound, BR.filterView_wf hfv⟩, ids := hne, wok1 := hw2a, wok2 := hw2b, sim1 := hs1, sim2 := hs2,
      open1 := hnew1, open2 := hnew2, iter1 := hit1, iter2 := hit2,
      cap := by rw [hcap2, hcap1]; rfl, empty := hempty2 }⟩

/-! ### interleavings of two handles, written without the clients' proof-level fields -/

/-- an event of an interleaving on two table handles: a call on iterator handle `i`, or a lookup through
    the first (`false`) or the second (`true`) table handle -/
inductive SEv where
  | call (i : Nat) (op : Spec.IterOp)
  | get (second : Bool) (k : Bytes)

def evOf (c1 c2 : CS.Client) : SEv → CS.Ev
  | .call i op => .call i op
  | .get false k => .get c1 k
  | .get true k => .get c2 k

/-- what the lookups of the interleaving must return when both handles read a table holding `es` -/
def getsSpec (es : List Spec.Entry) : List SEv → List (Option Bytes)
  | [] => []
  | .call _ _ :: evs => getsSpec es evs
  | .get _ k :: evs => Spec.lookup defaultCmp es k :: getsSpec es evs

theorem specGets_evOf (c1 c2 : CS.Client) (es : List Spec.Entry) (h1 : c1.cmp = defaultCmp)
    (h2 : c2.cmp = defaultCmp) (e1 : c1.t.entries = es) (e2 : c2.t.entries = es) (evs : List SEv) :
    CS.specGets (evs.map (evOf c1 c2)) = getsSpec es evs := by
  induction evs with
  | nil => rfl
  | cons ev evs ih =>
    cases ev with
    | call i op => exact ih
    | get b k =>
      cases b
      · show Spec.lookup c1.cmp c1.t.entries k :: _ = _
        rw [h1, e1, ih]; rfl
      · show Spec.lookup c2.cmp c2.t.entries k :: _ = _
        rw [h2, e2, ih]; rfl

theorem callsOf_evOf (c1 c2 d1 d2 : CS.Client) (i : Nat) (evs : List SEv) :
    CS.callsOf i (evs.map (evOf c1 c2)) = CS.callsOf i (evs.map (evOf d1 d2)) := by
  induction evs with
  | nil => rfl
  | cons ev evs ih =>
    cases ev with
    | call j op =>
      show (if j = i then op :: CS.callsOf i _ else CS.callsOf i _) = (if j = i then op :: CS.callsOf i _ else CS.callsOf i _)
      rw [ih]
    | get b k => cases b <;> exact ih

/-- the system run uses of a client only its table handle -/
theorem sysRun_evOf (c1 c2 d1 d2 : CS.Client) (h1 : c1.tb = d1.tb) (h2 : c2.tb = d2.tb)
    (evs : List SEv) : ∀ (its : Nat → TableIter) (w : World),
    CS.sysRun its (evs.map (evOf c1 c2)) w = CS.sysRun its (evs.map (evOf d1 d2)) w := by
  induction evs with
  | nil => intro its w; rfl
  | cons ev evs ih =>
    intro its w
    have hstep : CS.sysStep its (evOf c1 c2 ev) = CS.sysStep its (evOf d1 d2 ev) := by
      cases ev with
      | call i op => rfl
      | get b k =>
        cases b
        · show (c1.tb.get k >>= _) = (d1.tb.get k >>= _)
          rw [h1]
        · show (c2.tb.get k >>= _) = (d2.tb.get k >>= _)
          rw [h2]
    show (CS.sysStep its (evOf c1 c2 ev) >>= fun r => CS.sysRun r.1 (evs.map (evOf c1 c2)) >>= _) w
       = (CS.sysStep its (evOf d1 d2 ev) >>= fun r => CS.sysRun r.1 (evs.map (evOf d1 d2)) >>= _) w
    rw [hstep]
    have : (fun r : (Nat → TableIter) × CS.EvOut =>
              CS.sysRun r.1 (evs.map (evOf c1 c2)) >>= fun s => (pure (s.1, r.2 :: s.2) : M _))
         = (fun r => CS.sysRun r.1 (evs.map (evOf d1 d2)) >>= fun s => (pure (s.1, r.2 :: s.2) : M _)) := by
      funext r
      have : CS.sysRun r.1 (evs.map (evOf c1 c2)) = CS.sysRun r.1 (evs.map (evOf d1 d2)) := by
        funext w'; exact ih r.1 w'
      rw [this]
    rw [this]

/-- a client that carries a handle and nothing else (for evaluation: `sysRun` reads only the handle) -/
def bareClient (tb : Table) : CS.Client :=
  ⟨defaultCmp, noFilterPolicy, ⟨[], ⟨0, 0⟩, ⟨0, 0⟩, ⟨[], [], []⟩, ⟨[], [], []⟩, []⟩, none, tb⟩

/-- open the table twice on `w`, make an iterator on each handle (handle 0 reads through the first table
    handle, every other one through the second), run the interleaving; `f` judges the world before the run,
    the world after it and the outputs -/
def withShared (p : FilterPolicy) (w : World) (size : Nat) (evs : List SEv)
    (f : World → World → List CS.EvOut → Bool) : Bool :=
  match Table.new ⟨defaultCmp, p⟩ 0 size w with
  | (w1, .ok tb1) =>
    match Table.new ⟨defaultCmp, p⟩ 0 size w1 with
    | (w0, .ok tb2) =>
      match TableIter.new tb1 w0, TableIter.new tb2 w0 with
      | (_, .ok it1), (_, .ok it2) =>
        match CS.sysRun (fun i => if i = 0 then it1 else it2)
                (evs.map (evOf (bareClient tb1) (bareClient tb2))) w0 with
        | (w', .ok (_, outs)) => f w0 w' outs
        | _ => false
      | _, _ => false
    | _ => false
  | _ => false

theorem withShared_of {p : FilterPolicy} {w : World} {size : Nat} {evs : List SEv}
    {f : World → World → List CS.EvOut → Bool} {w1 w0 : World} {tb1 tb2 : Table} {it1 it2 : TableIter}
    (c1 c2 : CS.Client) (h1 : c1.tb = tb1) (h2 : c2.tb = tb2)
    (o1 : Table.new ⟨defaultCmp, p⟩ 0 size w = (w1, .ok tb1))
    (o2 : Table.new ⟨defaultCmp, p⟩ 0 size w1 = (w0, .ok tb2))
    (i1 : TableIter.new tb1 w0 = (w0, .ok it1)) (i2 : TableIter.new tb2 w0 = (w0, .ok it2))
    (h : withShared p w size evs f = true) :
    ∃ w' its' outs, CS.sysRun (fun i => if i = 0 then it1 else it2) (evs.map (evOf c1 c2)) w0
        = (w', .ok (its', outs)) ∧ f w0 w' outs = true := by
  unfold withShared at h
  rw [o1] at h
  simp only at h
  rw [o2] at h
  simp only at h
  rw [i1, i2] at h
  simp only at h
  rw [sysRun_evOf c1 c2 (bareClient tb1) (bareClient tb2) h1 h2]
  rcases hr : CS.sysRun (fun i => if i = 0 then it1 else it2)
      (evs.map (evOf (bareClient tb1) (bareClient tb2))) w0 with ⟨w', r⟩
  rw [hr] at h
  cases r with
  | ok a => exact ⟨w', a.1, a.2, rfl, h⟩
  | err c => simp at h
  | panic s => simp at h
  | diverge => simp at h

/-- the interleaving used in `C10_instance`: handle 0 scans (through table handle 1) while handle 1 seeks,
    reads and steps back (through table handle 2), with lookups through both table handles in between -/
def interleaving : List SEv :=
  [.call 0 .next, .call 1 (.seek [2]), .get false [3, 0xff], .call 0 .next, .call 1 .current,
   .get true [9], .call 0 .next, .call 0 .next, .call 1 .prev, .call 1 .currentKey, .get true [1]]

/-- the interleaving RUN by the kernel on the cache of capacity 1: outputs per handle and of the lookups;
    afterwards the cache holds exactly one block (the last one fetched: block 0 under the second handle's
    id 2); the file was read 5 times for 7 block accesses: the two handles evict each other's blocks, the
    4th `next` of handle 0 finds block 1 cached by the lookup through the same table handle, the last lookup
    finds block 0 cached by the `prev` of handle 1 (same table handle), and the lookup of the absent key
    `[9]` reads nothing -/
theorem interleaving_eval :
    withShared (Bloom.policy 10) world1 232 interleaving (fun w0 w' outs =>
      FT.outsB (CS.outsOf 0 outs)
        [.entry (some ([], [7])), .entry (some ([1], [])), .entry (some ([1, 2], [12])),
         .entry (some ([3], [30, 31]))]
      && FT.outsB (CS.outsOf 1 outs)
        [.unit, .entry (some ([3], [30, 31])), .flag true, .key (some [1, 2])]
      && CS.getsOf outs == [some [9], none, some []]
      && w'.cache.count == 1 && w'.cache.entries.map (·.1) == [(2, 0)]
      && w'.readLog.length - w0.readLog.length == 5
      && (w'.events.take (w'.events.length - w0.events.length)).reverse ==
          [⟨1, 0, false⟩, ⟨2, 0, false⟩, ⟨2, 31, false⟩, ⟨1, 31, false⟩, ⟨1, 31, true⟩, ⟨2, 0, false⟩,
           ⟨2, 0, true⟩]) = true := by
  decide +kernel

end NV

/-! ### evaluated runs of the writer on imperfect sinks (the C14 / C07 witness configuration) -/

namespace NV

/-- partial acceptance, interruptions, over-long acceptance; after the schedule everything is accepted -/
def schedOK : List SinkResp :=
  [.accept 5, .interrupted, .accept 1, .interrupted, .interrupted, .accept 100, .accept 2, .accept 1,
   .interrupted, .accept 3]

/-- a hard error at the third call -/
def schedHard : List SinkResp := [.accept 5, .interrupted, .error, .accept 7]

/-- a zero-length acceptance at the second call: `write_all` reports `WriteZero` -/
def schedZero : List SinkResp := [.accept 5, .accept 0, .accept 7]

theorem sink_eval :
    okSizeB (TableBuilder.build (TableBuilder.exampleOpts 0 noFilterPolicy) { sched := schedOK }
        TableBuilder.exampleEntries) 182 = true
      ∧ (TableBuilder.build (TableBuilder.exampleOpts 0 noFilterPolicy) { sched := schedOK }
          TableBuilder.exampleEntries).1.sink.sched = []
      ∧ okSizeB (TableBuilder.build (TableBuilder.exampleOpts 0 noFilterPolicy) {}
          TableBuilder.exampleEntries) 182 = true
      ∧ errB (TableBuilder.build (TableBuilder.exampleOpts 0 noFilterPolicy) { sched := schedHard }
          TableBuilder.exampleEntries) .ioError = true
      ∧ (TableBuilder.build (TableBuilder.exampleOpts 0 noFilterPolicy) { sched := schedHard }
          TableBuilder.exampleEntries).1.sink.sched = [.accept 7]
      ∧ (TableBuilder.build (TableBuilder.exampleOpts 0 noFilterPolicy) { sched := schedHard }
          TableBuilder.exampleEntries).1.sink.received = FT.witnessImg.take 5
      ∧ errB (TableBuilder.build (TableBuilder.exampleOpts 0 noFilterPolicy) { sched := schedZero }
          TableBuilder.exampleEntries) .ioError = true := by
  decide +kernel

/-- independent cross-check: the sink fed with `schedOK` holds byte for byte what the perfect sink holds -/
theorem sink_received_eval :
    (TableBuilder.build (TableBuilder.exampleOpts 0 noFilterPolicy) { sched := schedOK }
        TableBuilder.exampleEntries).1.sink.received = FT.witnessImg := by decide +kernel

/-! ### evaluated out-of-order additions -/

theorem order_eval :
    ((TableBuilder.new opts {}).addAll ([] ++ [([2], [20])])).2.isOk = true
      ∧ panicB (((TableBuilder.new opts {}).addAll ([] ++ [([2], [20])])).1.add [1] [10]).2
          "add: keys must be added in increasing order" = true
      ∧ panicB (((TableBuilder.new opts {}).addAll ([] ++ [([2], [20])])).1.add [2] []).2
          "add: keys must be added in increasing order" = true
      ∧ (((TableBuilder.new opts {}).addAll ([] ++ [([2], [20])])).1.add [2, 0] []).2.isOk = true
      ∧ panicB (TableBuilder.build opts {} [([2], [20]), ([1], [10])]).2
          "add: keys must be added in increasing order" = true := by
  decide +kernel

/-! ### an evaluated bloom filter -/

def bloomKeys : List Bytes := [[1], [2, 3], [0xff, 0, 7, 9, 9]]

/-- 3 keys at 10 bits per key: 30 < 64 bits, so the 64-bit floor applies: 8 bytes + the probe count 6 -/
theorem bloom_eval :
    Bloom.createFilter 10 bloomKeys = [33, 70, 148, 35, 128, 82, 64, 8, 6]
      ∧ bloomKeys.all (fun k => Bloom.keyMayMatch k (Bloom.createFilter 10 bloomKeys)) = true
      ∧ [[2], [3], [4], [5], [6], [7]].all (fun k => !Bloom.keyMayMatch k (Bloom.createFilter 10 bloomKeys)) = true
      ∧ Bloom.bloomHash [1] < 4294967296 := by
  decide +kernel

end NV
end Sst

#print axioms Sst.NV.built
#print axioms Sst.NV.img_blocks
#print axioms Sst.NV.reader_eval
#print axioms Sst.NV.shared_witness
#print axioms Sst.NV.sysRun_evOf
#print axioms Sst.NV.interleaving_eval
#print axioms Sst.NV.sink_eval
#print axioms Sst.Spec.Format.wfTableB_sound
#print axioms Sst.Hand.img_wf
#print axioms Sst.Hand.reader_eval
