import SstModel.Model.Codec
/-
  Runtime vocabulary of the FUNCTION-LEVEL TRANSLATOR (tools/gen_funcs.py).

  `Generated/Funcs.lean` is regenerated from /repo/src on every run: each whitelisted Rust function is
  parsed and emitted as a Lean definition over the operations below, statement by statement.  This file
  is hand-written and fixes what each Rust operation means:

  * integers of every width are `Nat`; `u8`/`u32`/`u64` additions and multiplications panic on overflow
    (the crate is checked in the dev profile: overflow checks on), subtraction panics on underflow for
    every type, `/` and `%` panic on a zero divisor, shifts panic on a shift amount ≥ the width and
    truncate the bits shifted out, `wrapping_*` / `overflowing_*().0` reduce modulo the width, `as`
    truncates when narrowing;
  * `usize` additions and multiplications are unbounded (a `usize` overflow needs an object of 2^64
    bytes; stated in the trusted base);
  * slices and `Vec<u8>` are `Bytes`; indexing and slicing panic out of range;
  * a loop is `loopFuel` over the tuple of variables it assigns; `diverge` on fuel exhaustion (the tie
    theorems say which fuel suffices).
-/
namespace Sst.Rt

/-- what one iteration of a loop body decides -/
inductive LStep (σ ρ : Type) where
  | cont (s : σ)      -- next iteration (end of body, `continue`)
  | brk (s : σ)       -- leave the loop (condition false, `break`)
  | ret (r : ρ)       -- `return r` from the enclosing function

/-- what a loop hands to the code behind it -/
inductive Flow (σ ρ : Type) where
  | done (s : σ)
  | ret (r : ρ)

/-- `loop { body }` with fuel -/
def loopFuel {σ ρ : Type} (body : σ → Res (LStep σ ρ)) : Nat → σ → Res (Flow σ ρ)
  | 0, _ => .diverge
  | n + 1, s =>
    match body s with
    | .ok (.cont s') => loopFuel body n s'
    | .ok (.brk s') => .ok (.done s')
    | .ok (.ret r) => .ok (.ret r)
    | .err c => .err c
    | .panic m => .panic m
    | .diverge => .diverge

@[inline] def addW (w a b : Nat) (site : String) : Res Nat :=
  if a + b < w then .ok (a + b) else .panic site
@[inline] def mulW (w a b : Nat) (site : String) : Res Nat :=
  if a * b < w then .ok (a * b) else .panic site
@[inline] def subChk (a b : Nat) (site : String) : Res Nat :=
  if b ≤ a then .ok (a - b) else .panic site
@[inline] def divChk (a b : Nat) (site : String) : Res Nat :=
  if b = 0 then .panic site else .ok (a / b)
@[inline] def modChk (a b : Nat) (site : String) : Res Nat :=
  if b = 0 then .panic site else .ok (a % b)
/-- `a >> n` on a type of `bits` bits -/
@[inline] def shrChk (bits a n : Nat) (site : String) : Res Nat :=
  if n < bits then .ok (a / 2 ^ n) else .panic site
/-- `a << n` on a type of `bits` bits: bits shifted out are lost, an amount ≥ the width panics -/
@[inline] def shlChk (bits a n : Nat) (site : String) : Res Nat :=
  if n < bits then .ok (a * 2 ^ n % 2 ^ bits) else .panic site
@[inline] def wrappingShr (bits a n : Nat) : Nat := a / 2 ^ (n % bits)
@[inline] def wrappingShl (bits a n : Nat) : Nat := a * 2 ^ (n % bits) % 2 ^ bits
@[inline] def wrappingAdd (w a b : Nat) : Nat := (a + b) % w
@[inline] def wrappingSub (w a b : Nat) : Nat := (a + w - b % w) % w
@[inline] def wrappingMul (w a b : Nat) : Nat := (a * b) % w

/-- `x[i]` as an rvalue (`u8` widened to `Nat`) -/
@[inline] def idx (x : Bytes) (i : Nat) (site : String) : Res Nat :=
  match x[i]? with
  | some v => .ok v.toNat
  | none => .panic site
/-- `v[i]` on a `Vec<u32>` -/
@[inline] def idxN (x : List Nat) (i : Nat) (site : String) : Res Nat :=
  match x[i]? with
  | some v => .ok v
  | none => .panic site
/-- `x[i] = v` -/
@[inline] def setIdx (x : Bytes) (i v : Nat) (site : String) : Res Bytes :=
  if i < x.length then .ok (x.set i (UInt8.ofNat v)) else .panic site
/-- `&x[lo..hi]` -/
@[inline] def sliceChk (x : Bytes) (lo hi : Nat) (site : String) : Res Bytes :=
  match slice? x lo hi with
  | some s => .ok s
  | none => .panic site
/-- `(&mut x[lo..hi]).write_all(bytes)`: the slice bounds panic out of range; bytes that do not fit make
    `write_all` fail, which the `.expect(..)` / `.unwrap()` behind it turns into a panic -/
@[inline] def writeAt (x : Bytes) (lo hi : Nat) (bytes : Bytes) (site : String) : Res Bytes :=
  if lo ≤ hi ∧ hi ≤ x.length ∧ bytes.length ≤ hi - lo then
    .ok (x.take lo ++ bytes ++ x.drop (lo + bytes.length))
  else .panic site
/-- `v.resize(n, fill)` -/
@[inline] def resizeB (x : Bytes) (n fill : Nat) : Bytes :=
  if n ≤ x.length then x.take n else x ++ List.replicate (n - x.length) (UInt8.ofNat fill)
/-- `u32::decode_fixed(s)` of integer-encoding 3.0.4 (asserts the length) -/
@[inline] def decodeFixed32Chk (s : Bytes) (site : String) : Res Nat :=
  if s.length = 4 then .ok (decodeFixed32 s) else .panic site
/-- `Ordering as i8 + 1`: the order of `Less < Equal < Greater` -/
@[inline] def ordNat : Ordering → Nat
  | .lt => 0
  | .eq => 1
  | .gt => 2
/-- `opt.unwrap()` -/
@[inline] def unwrapO {α : Type} (o : Option α) (site : String) : Res α :=
  match o with
  | some a => .ok a
  | none => .panic site
@[inline] def assertR (c : Bool) (site : String) : Res Unit :=
  if c then .ok () else .panic site
@[inline] def byteLit (n : Nat) : UInt8 := UInt8.ofNat n

end Sst.Rt
