import SstModel.Model.Basic
/-
  cmp.rs: `DefaultCmp::{cmp, find_shortest_sep, find_short_succ}` and the `Cmp` trait as a structure.
-/
namespace Sst

/-- The `Cmp` trait: a user-supplied comparator. -/
structure Cmp where
  cmp  : Bytes → Bytes → Ordering
  sep  : Bytes → Bytes → Bytes
  succ : Bytes → Bytes

namespace DefaultCmp

/-- first loop of find_shortest_sep: length of the common prefix (bounded by both lengths) -/
def commonPrefixLen : Bytes → Bytes → Nat
  | a :: as, b :: bs => if a = b then commonPrefixLen as bs + 1 else 0
  | _, _ => 0

/-- second loop of find_shortest_sep, on the suffixes from `diff_at` on; returns the bytes of the
    separator from `diff_at` on, or `none` for the backup case.
    `while diff_at < min { if a[d] < 0xff && a[d]+1 < b[d] { return a[..d] ++ [a[d]+1] }; d += 1 }` -/
def sepScan : Bytes → Bytes → Option Bytes
  | a :: as, b :: bs =>
    if a < 0xff ∧ a + 1 < b then some [a + 1]
    else (sepScan as bs).map (a :: ·)
  | _, _ => none

def findShortestSep (a b : Bytes) : Bytes :=
  if a = b then a
  else
    let d := commonPrefixLen a b
    let mn := min a.length b.length
    if d = mn then a                -- one is a prefix of the other (fix D3)
    else
      match sepScan (a.drop d) (b.drop d) with
      | some tail => a.take d ++ tail
      | none => a ++ [0]

def findShortSucc : Bytes → Bytes
  | [] => [0xff]
  | a :: as => if a ≠ 0xff then [a + 1] else a :: findShortSucc as

end DefaultCmp

def defaultCmp : Cmp where
  cmp := cmpBytes
  sep := DefaultCmp.findShortestSep
  succ := DefaultCmp.findShortSucc

end Sst
