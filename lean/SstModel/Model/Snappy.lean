import SstModel.Model.Basic
/-
  Raw snappy *decoder*, written from the format description (format_description.txt of the snappy
  project); stands for `snap::raw::Decoder::decompress_vec`. The compressor is not modelled: it is a
  parameter of the writer model with the hypothesis that the decoder inverts it.
-/
namespace Sst.Snappy
open Sst

/-- little-endian number made of the first `n` bytes -/
def leNat : Bytes → Nat → Option Nat
  | _, 0 => some 0
  | [], _ + 1 => none
  | b :: rest, n + 1 => (leNat rest n).map (fun v => b.toNat + 256 * v)

/-- preamble: uncompressed length as a varint of at most 5 bytes, value ≤ 2^32-1.
    returns (length, header bytes) -/
def header : Bytes → Nat → Nat → Nat → Option (Nat × Nat)
  | [], _, _, _ => none
  | b :: rest, acc, shift, i =>
    if i ≥ 5 then none
    else if b.toNat < 128 then
      let v := acc + b.toNat * 2 ^ shift
      if v > 4294967295 then none else some (v, i + 1)
    else header rest (acc + (b.toNat % 128) * 2 ^ shift) (shift + 7) (i + 1)

/-- copy `len` bytes from `offset` back, byte by byte (overlap allowed); output kept reversed -/
def copyBack (outRev : Bytes) (offset : Nat) : Nat → Bytes
  | 0 => outRev
  | len + 1 =>
    match outRev[offset - 1]? with
    | some b => copyBack (b :: outRev) offset len
    | none => outRev  -- unreachable when offset ≤ produced (checked by the caller)

/-- element loop; `outRev` is the output so far, reversed; `produced` its length -/
def elements (fuel : Nat) (src : Bytes) (outRev : Bytes) (produced total : Nat) : Option Bytes :=
  match fuel with
  | 0 => none
  | fuel + 1 =>
    match src with
    | [] => if produced = total then some outRev.reverse else none
    | tag :: rest =>
      let t := tag.toNat
      if t % 4 = 0 then
        -- literal
        let l0 := t / 4 + 1
        let lenAndRest : Option (Nat × Bytes) :=
          if l0 < 61 then some (l0, rest)
          else
            let n := l0 - 60
            match leNat rest n with
            | none => none
            | some v => some (v + 1, rest.drop n)
        match lenAndRest with
        | none => none
        | some (len, rest) =>
          if rest.length < len ∨ total - produced < len then none
          else elements fuel (rest.drop len) ((rest.take len).reverse ++ outRev) (produced + len) total
      else
        let copy : Option (Nat × Nat × Bytes) :=   -- (len, offset, rest)
          if t % 4 = 1 then
            match rest with
            | b :: rest => some (4 + (t / 4) % 8, (t / 32) * 256 + b.toNat, rest)
            | [] => none
          else if t % 4 = 2 then
            match leNat rest 2 with
            | some v => some (t / 4 + 1, v, rest.drop 2)
            | none => none
          else
            match leNat rest 4 with
            | some v => some (t / 4 + 1, v, rest.drop 4)
            | none => none
        match copy with
        | none => none
        | some (len, offset, rest) =>
          if offset = 0 ∨ produced < offset ∨ total - produced < len then none
          else elements fuel rest (copyBack outRev offset len) (produced + len) total

/-- `Decoder::new().decompress_vec(input)`; `none` = any `snap::Error`.
    An empty input decompresses to the empty vector (`decompress_len` special case …) — no:
    `decompress_len` gives 0 for empty input but `decompress` then fails with `Error::Empty`. -/
def decode (input : Bytes) : Option Bytes :=
  match input with
  | [] => none
  | _ =>
    match header input 0 0 0 with
    | none => none
    | some (total, hlen) => elements (input.length + 1) (input.drop hlen) [] 0 total

/-- `snap::raw::decompress_len(input)`: the uncompressed length declared by the preamble
    (`Ok(0)` for an empty input, otherwise `Header::read(input)?.decompress_len`); `none` = `Err`
    (`Error::Header`, `Error::TooBig`). It is what `decompress_vec` allocates up front. -/
def declaredLen (input : Bytes) : Option Nat :=
  match input with
  | [] => some 0
  | _ => (header input 0 0 0).map (·.1)

end Sst.Snappy
