import SstModel.Model.Codec
/-
  filter.rs (`BloomPolicy`, `NoFilterPolicy`, the `FilterPolicy` trait as a structure) and
  filter_block.rs (`FilterBlockBuilder`, `FilterBlockReader`).
-/
namespace Sst

/-- the `FilterPolicy` trait. `createFilter` receives the keys already split (the Rust passes the
    concatenation plus offsets; `offset_data_iterate` recovers exactly this list). -/
structure FilterPolicy where
  name : String
  createFilter : List Bytes → Bytes
  keyMayMatch : Bytes → Bytes → Bool

namespace Bloom

def u32 (n : Nat) : Nat := n % 4294967296

/-- the 4-bytes-at-a-time loop of `bloom_hash` -/
def hashWords : Bytes → Nat → Nat
  | a :: b :: c :: d :: rest, h =>
    let w := decodeFixed32 [a, b, c, d]
    let h := u32 (h + w)
    let h := u32 (h * Consts.bloomM)
    let h := Nat.xor h (h / 2 ^ Consts.bloomMidShift)
    hashWords rest h
  | _, h => h

/-- the bytes left over after the word loop -/
def hashTail : Bytes → Bytes
  | _ :: _ :: _ :: _ :: rest => hashTail rest
  | t => t

/-- `for b in data[ix..] { h = h.overflowing_add((b as u32) << (8*i)); i += 1 }` -/
def addTail : Bytes → Nat → Nat → Nat
  | [], _, h => h
  | b :: rest, i, h => addTail rest (i + 1) (u32 (h + u32 (b.toNat * 2 ^ (8 * i))))

/-- `BloomPolicy::bloom_hash` -/
def bloomHash (data : Bytes) : Nat :=
  let h := Nat.xor Consts.bloomSeed (u32 (data.length * Consts.bloomM))
  let h := hashWords data h
  let tail := hashTail data
  if tail.length > 0 then
    let h := addTail tail 0 h
    let h := u32 (h * Consts.bloomM)
    Nat.xor h (h / 2 ^ Consts.bloomR)
  else h

/-- `k = (bits_per_key as f32 * 0.69) as u32`, clamped to [1, 30].
    The float product is modelled as the exact rational ⌊bits·69/100⌋; the correspondence stream S5
    compares `k` for every bits_per_key the harness uses (0..=64 exhaustively and samples beyond). -/
def kOf (bitsPerKey : Nat) : Nat :=
  let k := bitsPerKey * Consts.bloomKNum / 100
  if k < Consts.bloomKMin then Consts.bloomKMin else if k > Consts.bloomKMax then Consts.bloomKMax else k

def setBit (f : Bytes) (pos : Nat) : Bytes :=
  f.set (pos / 8) (UInt8.ofNat (Nat.lor (f.getD (pos / 8) 0).toNat (2 ^ (pos % 8))))

def testBit (f : Bytes) (pos : Nat) : Bool :=
  Nat.land (f.getD (pos / 8) 0).toNat (2 ^ (pos % 8)) ≠ 0

def delta (h : Nat) : Nat := Nat.lor (h / 2 ^ Consts.bloomDeltaShr) (u32 (h * 2 ^ Consts.bloomDeltaShl))

/-- the probe loop of `create_filter` for one key -/
def addProbes (bits : Nat) (d : Nat) : Nat → Nat → Bytes → Bytes
  | 0, _, f => f
  | k + 1, h, f => addProbes bits d k (u32 (h + d)) (setBit f (h % bits))

def addKey (bits k : Nat) (f : Bytes) (key : Bytes) : Bytes :=
  let h := bloomHash key
  addProbes bits (delta h) k h f

/-- `BloomPolicy::create_filter` -/
def createFilter (bitsPerKey : Nat) (keys : List Bytes) : Bytes :=
  let filterBits := keys.length * bitsPerKey
  let nbytes := if filterBits < Consts.bloomMinBits then 8 else (filterBits + 7) / 8
  let adj := (nbytes * 8) % 2 ^ Consts.bloomBitsWidth
  let f := keys.foldl (addKey adj (kOf bitsPerKey)) (List.replicate nbytes 0)
  f ++ [UInt8.ofNat (kOf bitsPerKey)]

/-- the probe loop of `key_may_match` -/
def checkProbes (bits d : Nat) (f : Bytes) : Nat → Nat → Bool
  | 0, _ => true
  | k + 1, h => if testBit f (h % bits) then checkProbes bits d f k (u32 (h + d)) else false

/-- `BloomPolicy::key_may_match` (after fix D18d: filters shorter than 2 bytes match) -/
def keyMayMatch (key filter : Bytes) : Bool :=
  if filter.length < 2 then true
  else
    let bits := ((filter.length - 1) * 8) % 2 ^ Consts.bloomBitsWidth
    let k := (filter.getD (filter.length - 1) 0).toNat
    let adj := filter.take (filter.length - 1)
    if k > 30 then true
    else
      let h := bloomHash key
      checkProbes bits (delta h) adj k h

def policy (bitsPerKey : Nat) : FilterPolicy where
  name := Consts.bloomName
  createFilter := createFilter bitsPerKey
  keyMayMatch := keyMayMatch

end Bloom

def noFilterPolicy : FilterPolicy where
  name := Consts.noFilterName
  createFilter := fun _ => []
  keyMayMatch := fun _ _ => true

/-- `FilterBlockBuilder` -/
structure FilterBlockBuilder where
  filters : Bytes := []
  filterOffsets : List Nat := []
  keys : List Bytes := []      -- `keys` + `key_offsets`: the keys added since the last filter
  deriving Repr

namespace FilterBlockBuilder

def filterIndex (offset baseLg2 : Nat) : Nat := (offset / 2 ^ baseLg2) % 2 ^ 32

def addKey (b : FilterBlockBuilder) (key : Bytes) : FilterBlockBuilder :=
  { b with keys := b.keys ++ [key] }

/-- `generate_filter` (after fix D8: emptiness of `key_offsets`) -/
def generateFilter (p : FilterPolicy) (b : FilterBlockBuilder) : FilterBlockBuilder :=
  let b := { b with filterOffsets := b.filterOffsets ++ [b.filters.length] }
  if b.keys.isEmpty then b
  else { b with filters := b.filters ++ p.createFilter b.keys, keys := [] }

def generateUntil (p : FilterPolicy) (ix : Nat) : Nat → FilterBlockBuilder → FilterBlockBuilder
  | 0, b => b
  | fuel + 1, b =>
    if ix > b.filterOffsets.length % 2 ^ 32 then generateUntil p ix fuel (generateFilter p b) else b

/-- `start_block` -/
def startBlock (p : FilterPolicy) (b : FilterBlockBuilder) (offset : Nat) : Res FilterBlockBuilder := do
  let ix := filterIndex offset Consts.filterBaseLog2
  assert (decide (ix ≥ b.filterOffsets.length % 2 ^ 32)) "start_block: filter index must not decrease"
  pure (generateUntil p ix (ix + 1) b)

/-- `finish` -/
def finish (p : FilterPolicy) (b : FilterBlockBuilder) : Bytes :=
  let b := if !b.keys.isEmpty then generateFilter p b else b
  b.filters ++ (b.filterOffsets.map encodeFixed32).flatten ++ encodeFixed32 b.filters.length
    ++ [UInt8.ofNat Consts.filterBaseLog2]

end FilterBlockBuilder

/-- `FilterBlockReader` -/
structure FilterBlockReader where
  block : Bytes
  offsetsOffset : Nat
  baseLg2 : Nat
  deriving Repr

namespace FilterBlockReader

/-- `FilterBlockReader::is_well_formed` -/
def isWellFormed (data : Bytes) : Bool :=
  if data.length < 5 then false
  else
    let fbase := (data.getD (data.length - 1) 0).toNat
    let offset := decodeFixed32 ((data.drop (data.length - 5)).take 4)
    decide (fbase < 64) && decide (offset ≤ data.length - 5)

/-- `FilterBlockReader::new` -/
def new (data : Bytes) : Res FilterBlockReader := do
  assert (decide (data.length ≥ 5)) "FilterBlockReader::new: len >= 5"
  pure { block := data, baseLg2 := (data.getD (data.length - 1) 0).toNat,
         offsetsOffset := decodeFixed32 ((data.drop (data.length - 5)).take 4) }

/-- `num` -/
def num (r : FilterBlockReader) : Res Nat :=
  if r.block.length < r.offsetsOffset + 5 then .panic "FilterBlockReader::num: underflow"
  else .ok (((r.block.length - r.offsetsOffset - 5) / 4) % 2 ^ 32)

def offsetOf (r : FilterBlockReader) (i : Nat) : Res Nat :=
  match fixed32At r.block (r.offsetsOffset + 4 * i) with
  | some v => .ok v
  | none => .panic "FilterBlockReader::offset_of: slice"

/-- `key_may_match` (after fix D8) -/
def keyMayMatch (p : FilterPolicy) (r : FilterBlockReader) (blkOffset : Nat) (key : Bytes) : Res Bool := do
  if r.baseLg2 ≥ 64 then .panic "get_filter_index: shift overflow" else
  let ix := FilterBlockBuilder.filterIndex blkOffset r.baseLg2
  let n ← r.num
  if ix ≥ n then pure true
  else
    let b ← r.offsetOf ix
    let e ← r.offsetOf (ix + 1)
    if b ≥ e ∨ e > r.offsetsOffset then pure true
    else
      match slice? r.block b e with
      | some f => pure (p.keyMayMatch key f)
      | none => .panic "key_may_match: filter slice"

end FilterBlockReader
end Sst
