import SstModel.Model.Basic
/-
  cache.rs: `LRUList` as a heap of nodes (owning `next`, raw `prev`) and `Cache` on top of it.
  Node 0 is the list head embedded in `LRUList`. Every pointer dereference checks that the node is
  live; a dangling access is the outcome `panic "use-after-free"` (in Rust: undefined behaviour).
  The four list functions are transliterated statement by statement, `swap`/`replace` included.
-/
namespace Sst.HCache

abbrev Key := Nat

structure Node where
  next : Option Nat := none     -- Option<Box<LRUNode>>: owning
  prev : Option Nat := none     -- Option<*mut LRUNode>: raw
  data : Option Key := none
  deriving Repr, DecidableEq

structure LruList where
  heap : Nat → Option Node
  fresh : Nat
  count : Nat

namespace LruList

def new : LruList := { heap := fun i => if i = 0 then some {} else none, fresh := 1, count := 0 }

def deref (l : LruList) (p : Nat) : Res Node :=
  match l.heap p with
  | some n => .ok n
  | none => .panic "use-after-free"

def store (l : LruList) (p : Nat) (n : Node) : LruList :=
  { l with heap := fun i => if i = p then some n else l.heap i }

def free (l : LruList) (p : Nat) : LruList :=
  { l with heap := fun i => if i = p then none else l.heap i }

def unwrap {α} (o : Option α) (site : String) : Res α :=
  match o with
  | some a => .ok a
  | none => .panic site

/-- `insert(elem)`: returns the handle (pointer) of the new node -/
def insert (l : LruList) (elem : Key) : Res (LruList × Nat) := do
  let l := { l with count := l.count + 1 }
  let head ← l.deref 0
  let newp := l.fresh
  let l := { l with fresh := l.fresh + 1 }
  match head.next with
  | some first =>
    -- new = Box{data, next: None, prev: Some(&head)}
    let l := l.store newp { data := some elem, next := none, prev := some 0 }
    -- self.head.next.as_mut().unwrap().prev = Some(newp)
    let f ← l.deref first
    let l := l.store first { f with prev := some newp }
    -- new.next = replace(&mut self.head.next, None); self.head.next = Some(new)
    let nw ← l.deref newp
    let l := l.store newp { nw with next := some first }
    let head ← l.deref 0
    let l := l.store 0 { head with next := some newp }
    pure (l, newp)
  | none =>
    let l := l.store newp { data := some elem, next := none, prev := some 0 }
    let head ← l.deref 0
    let l := l.store 0 { head with prev := some newp, next := some newp }
    pure (l, newp)

/-- `remove_last` -/
def removeLast (l : LruList) : Res (LruList × Option Key) := do
  let head ← l.deref 0
  match head.prev with
  | none => pure (l, none)
  | some lastp =>
    let last ← l.deref lastp
    let q ← unwrap last.prev "remove_last: prev.unwrap()"
    let qn ← l.deref q
    -- lasto = replace(&mut (*q).next, None)
    let lasto := qn.next
    let l := l.store q { qn with next := none }
    match lasto with
    | some lb =>
      let lastn ← l.deref lb
      let head ← l.deref 0
      let l := l.store 0 { head with prev := lastn.prev }
      if l.count = 0 then .panic "remove_last: count underflow" else
      let l := { l with count := l.count - 1 }
      -- the Box `lasto` is dropped on return: the node (and whatever it still owns) is freed
      let l := l.free lb
      pure (l, lastn.data)
    | none => pure (l, none)

/-- `remove(node_handle)` (after fix D16) -/
def remove (l : LruList) (h : Nat) : Res (LruList × Key) := do
  let n ← l.deref h
  let prevp ← unwrap n.prev "remove: prev.unwrap()"
  let p ← l.deref prevp
  -- let mut node = replace(&mut (*prevp).next, None).unwrap();
  let nodeId ← unwrap p.next "remove: predecessor has no next"
  let l := l.store prevp { p with next := none }
  let node ← l.deref nodeId
  -- replace(&mut node.next, None)
  let l := l.store nodeId { node with next := none }
  let l ← match node.next with
    | some nx => do
      let nxn ← l.deref nx
      let l := l.store nx { nxn with prev := some prevp }
      let p ← l.deref prevp
      pure (l.store prevp { p with next := some nx })
    | none => do
      let head ← l.deref 0
      pure (l.store 0 { head with prev := some prevp })
  if l.count = 0 then .panic "remove: count underflow" else
  let l := { l with count := l.count - 1 }
  let node ← l.deref nodeId
  let d ← unwrap node.data "remove: data.unwrap()"
  pure (l.free nodeId, d)

/-- `swap(&mut (*a).next, &mut (*b).next)` -/
def swapNext (l : LruList) (a b : Nat) : Res LruList := do
  let na ← l.deref a
  let nb ← l.deref b
  if a = b then pure l
  else pure ((l.store a { na with next := nb.next }).store b { nb with next := na.next })

/-- `reinsert_front(node_handle)` -/
def reinsertFront (l : LruList) (h : Nat) : Res LruList := do
  let n ← l.deref h
  let prevp ← unwrap n.prev "reinsert_front: prev.unwrap()"
  let l ← match n.next with
    | some nx => do
      let nxn ← l.deref nx
      pure (l.store nx { nxn with prev := some prevp })
    | none => do
      let head ← l.deref 0
      pure (l.store 0 { head with prev := some prevp })
  let l ← l.swapNext prevp h
  let l ← l.swapNext h 0
  let n ← l.deref h
  let l ← match n.next with
    | some nn => do
      let nnn ← l.deref nn
      let l := l.store h { n with prev := nnn.prev }
      let nnn ← l.deref nn
      pure (l.store nn { nnn with prev := some h })
    | none => do
      let head ← l.deref 0
      pure (l.store 0 { head with prev := some h })
  let head ← l.deref 0
  assert head.next.isSome "reinsert_front: head.next.is_some()"
  assert head.prev.isSome "reinsert_front: head.prev.is_some()"
  pure l

end LruList

/-- `Cache<T>` with values of type `Nat`; the `HashMap` is an association list with unique keys -/
structure Cache where
  list : LruList
  map : List (Key × (Nat × Nat))     -- key ↦ (value, list handle)
  cap : Nat
  id : Nat := 0

namespace Cache

def new (cap : Nat) : Res Cache := do
  assert (decide (cap > 0)) "Cache::new: capacity > 0"
  pure { list := LruList.new, map := [], cap }

def count (c : Cache) : Nat := c.list.count

def mapRemove (m : List (Key × (Nat × Nat))) (k : Key) : List (Key × (Nat × Nat)) × Option (Nat × Nat) :=
  (m.filter (·.1 ≠ k), (m.find? (·.1 = k)).map (·.2))

/-- `insert` (after fix D16) -/
def insert (c : Cache) (key : Key) (elem : Nat) : Res Cache := do
  let (m, old) := mapRemove c.map key
  let c := { c with map := m }
  let c ← match old with
    | some (_, h) => do
      let (l, _) ← c.list.remove h
      pure { c with list := l }
    | none => pure c
  let c ← if c.list.count ≥ c.cap then do
      let (l, r) ← c.list.removeLast
      match r with
      | some rk =>
        let (m, o) := mapRemove c.map rk
        assert o.isSome "insert: evicted key must be in the map"
        pure { c with list := l, map := m }
      | none => .panic "could not remove_last(); bug!"
    else pure c
  let (l, h) ← c.list.insert key
  let (m, _) := mapRemove c.map key
  pure { c with list := l, map := (key, (elem, h)) :: m }

/-- `get` -/
def get (c : Cache) (key : Key) : Res (Cache × Option Nat) :=
  match c.map.find? (·.1 = key) with
  | none => .ok (c, none)
  | some (_, (elem, h)) => do
    let l ← c.list.reinsertFront h
    pure ({ c with list := l }, some elem)

/-- `remove` -/
def remove (c : Cache) (key : Key) : Res (Cache × Option Nat) :=
  let (m, old) := mapRemove c.map key
  match old with
  | none => .ok ({ c with map := m }, none)
  | some (elem, h) => do
    let (l, _) ← c.list.remove h
    pure ({ c with list := l, map := m }, some elem)

/-- forward chain of data from the head (bounded) — what the `verif_dump` hook reports -/
def forward (c : Cache) : Nat → Option Nat → List (Option Key)
  | 0, _ => []
  | _, none => []
  | fuel + 1, some p =>
    match c.list.heap p with
    | some n => n.data :: forward c fuel n.next
    | none => [none]

def backward (c : Cache) : Nat → Option Nat → List (Option Key)
  | 0, _ => []
  | _, none => []
  | fuel + 1, some p =>
    if p = 0 then [] else
    match c.list.heap p with
    | some n => n.data :: backward c fuel n.prev
    | none => [none]

def dumpForward (c : Cache) : List (Option Key) :=
  match c.list.heap 0 with
  | some h => forward c (c.map.length + c.list.count + 3) h.next
  | none => []

def dumpBackward (c : Cache) : List (Option Key) :=
  match c.list.heap 0 with
  | some h => backward c (c.map.length + c.list.count + 3) h.prev
  | none => []

end Cache
end Sst.HCache
