import SstModel.Model.Basic
import SstModel.Generated.Consts
/- error.rs: `Status::new`, `Display`, the `From` conversions. Strings are `String`. -/
namespace Sst

/-- `format!("{:?}", code)` -/
def Code.name : Code → String
  | .ok => "OK" | .alreadyExists => "AlreadyExists" | .corruption => "Corruption"
  | .compressionError => "CompressionError" | .ioError => "IOError"
  | .invalidArgument => "InvalidArgument" | .invalidData => "InvalidData"
  | .lockError => "LockError" | .notFound => "NotFound" | .notSupported => "NotSupported"
  | .permissionDenied => "PermissionDenied" | .unknown => "Unknown"

def Code.all : List Code :=
  [.ok, .alreadyExists, .corruption, .compressionError, .ioError, .invalidArgument, .invalidData,
   .lockError, .notFound, .notSupported, .permissionDenied, .unknown]

def Code.ofName (s : String) : Option Code := Code.all.find? (·.name = s)

structure Status where
  code : Code
  err : String

/-- `Status::new` -/
def Status.new (code : Code) (msg : String) : Status :=
  { code, err := if msg.isEmpty then code.name else code.name ++ ": " ++ msg }

/-- `Display::fmt` (after fix D1): writes `self.err`; guarded by the regenerated constant that
    records that the source still does so -/
def Status.display (s : Status) : Option String :=
  if Consts.displayWritesErr then some s.err else none

/-- `From<io::Error>`: kind name ↦ code, by the regenerated table -/
def ioKindCode (kind : String) : Option Code :=
  match Consts.ioErrorTable.find? (·.1 = kind) with
  | some (_, c) => Code.ofName c
  | none => Code.ofName Consts.ioErrorDefault

def Status.ofIo (kind msg : String) : Option Status := (ioKindCode kind).map (Status.new · msg)

/-- `From<snap::Error>` (after fix D2) -/
def Status.ofSnap (msg : String) : Status := Status.new .compressionError msg

/-- `From<PoisonError>` -/
def Status.ofPoison : Status := Status.new .lockError "lock poisoned"

end Sst
