import SstModel.Model.Table
import SstModel.Spec.Cursor
/-
  The reader operations of `Model/Table.lean` with their CRITICAL SECTIONS made explicit.

  In the crate the block cache sits behind one lock which is taken only inside `Table::read_block`
  (cache lookup; on a miss the file read and verification; cache insert — all under the lock). An
  operation (`Table::get`, one call on a `TableIterator`) consists of thread-local computation and zero
  or more calls of `read_block`. `Prog α` is the interaction tree of such an operation:

    * `ret r`      — the operation is finished with result `r`;
    * `rb t h k`   — the operation asks for the critical section `t.read_block(h)`; when that has been
                     executed with result `r`, it goes on as `k r`.

  `Prog.run` executes a program alone on a `World` (every critical section immediately, one after the
  other) — `Lemmas/ProgEquiv.lean` shows that `run` of the programs below IS the monadic model of
  `Model/Table.lean`. `Lemmas/FineGrained.lean` interleaves the critical sections of several programs.

  The programs are the definitions of `Model/Table.lean`, line by line, with `M.lift ↦ Prog.lift`,
  `M.fail ↦ Prog.fail`, `M.try' ↦ Prog.try'` and `Table.readBlock ↦ Prog.readBlock`.
-/
namespace Sst

inductive Prog (α : Type) where
  | ret (r : Res α) : Prog α
  | rb (t : Table) (h : BlockHandle) (k : Res Bytes → Prog α) : Prog α

namespace Prog

def bind' {α β} : Prog α → (α → Prog β) → Prog β
  | .ret (.ok a), f => f a
  | .ret (.err c), _ => .ret (.err c)
  | .ret (.panic s), _ => .ret (.panic s)
  | .ret .diverge, _ => .ret .diverge
  | .rb t h k, f => .rb t h (fun r => bind' (k r) f)

instance : Monad Prog where
  pure a := .ret (.ok a)
  bind := bind'

/-- thread-local computation -/
def lift {α} (r : Res α) : Prog α := .ret r
def fail {α} (c : Code) : Prog α := .ret (.err c)

/-- run `p`, turning an `err` into a value (as `M.try'`) -/
def try' {α} : Prog α → Prog (Except Code α)
  | .ret (.ok a) => .ret (.ok (.ok a))
  | .ret (.err c) => .ret (.ok (.error c))
  | .ret (.panic s) => .ret (.panic s)
  | .ret .diverge => .ret .diverge
  | .rb t h k => .rb t h (fun r => try' (k r))

/-- one critical section: `Table::read_block`; its result (value or error) is the result -/
def readBlock (t : Table) (h : BlockHandle) : Prog Bytes := .rb t h .ret

/-- the program executed alone: every critical section at once -/
def run {α} : Prog α → M α
  | .ret r => M.lift r
  | .rb t h k => fun w => run (k (t.readBlock h w).2) (t.readBlock h w).1

/-- number of critical sections the program executes when run alone from `w` -/
def steps {α} : Prog α → World → Nat
  | .ret _, _ => 0
  | .rb t h k, w => steps (k (t.readBlock h w).2) (t.readBlock h w).1 + 1

def isDone {α} : Prog α → Bool
  | .ret _ => true
  | .rb _ _ _ => false

end Prog

/-- `current_key_val(&iter)` -/
def curKVP (it : BlockIter) : Prog (Option (Bytes × Bytes)) := Prog.lift it.current

namespace Table

/-- `Table::get` -/
def getP (t : Table) (key : Bytes) : Prog (Option Bytes) := do
  let it ← Prog.lift (Block.iter t.indexBlock)
  let it ← Prog.lift (it.seek t.opt.cmp key)
  match ← curKVP it with
  | none => pure none
  | some (lastInBlock, h) =>
    if t.opt.cmp.cmp key lastInBlock == .gt then pure none
    else
      match BlockHandle.tryDecode h with
      | none => Prog.fail .corruption
      | some (handle, _) =>
        let pass ← match t.filters with
          | some f => Prog.lift (f.keyMayMatch t.opt.filter handle.offset key)
          | none => pure true
        if !pass then pure none
        else
          let tb ← Prog.readBlock t handle
          let it ← Prog.lift (Block.iter tb)
          let it ← Prog.lift (it.seek t.opt.cmp key)
          match ← curKVP it with
          | some (k, v) => if t.opt.cmp.cmp k key == .eq then pure (some v) else pure none
          | none => pure none

end Table

namespace TableIter

/-- `load_block` -/
def loadBlockP (it : TableIter) (handle : Bytes) : Prog TableIter := do
  match BlockHandle.tryDecode handle with
  | none => Prog.fail .corruption
  | some (h, _) =>
    let b ← Prog.readBlock it.table h
    let bi ← Prog.lift (Block.iter b)
    pure { it with currentBlock := some bi, currentBlockOff := h.offset }

/-- `skip_to_next_entry` -/
def skipToNextEntryP (it : TableIter) : Prog (TableIter × Except Code Bool) := do
  let (ib, e) ← Prog.lift it.indexBlock.next
  let it := { it with indexBlock := ib }
  match e with
  | some (_, val) =>
    match ← Prog.try' (loadBlockP it val) with
    | .ok it => pure (it, .ok true)
    | .error c => pure (it, .error c)
  | none => pure (it, .ok false)

/-- `advance` -/
def advanceLoopP (it : TableIter) : Nat → Prog (TableIter × Bool)
  | 0 => .ret .diverge
  | fuel + 1 => do
    let stepped ← match it.currentBlock with
      | some cb => do
        let (cb, ok) ← Prog.lift cb.advance
        pure ({ it with currentBlock := some cb }, ok)
      | none => pure (it, false)
    let (it, ok) := stepped
    if ok then pure (it, true)
    else
      let it := { it with currentBlock := none }
      let (it, r) ← skipToNextEntryP it
      match r with
      | .ok true => advanceLoopP it fuel
      | .ok false => pure (it.reset, false)
      | .error _ => advanceLoopP it fuel

def advanceP (it : TableIter) : Prog (TableIter × Bool) :=
  advanceLoopP it (2 * it.indexBlock.block.length + 4)

/-- `current` -/
def currentP (it : TableIter) : Prog (Option (Bytes × Bytes)) :=
  match it.currentBlock with
  | some cb => Prog.lift cb.current
  | none => pure none

/-- `SSIterator::next` -/
def nextP (it : TableIter) : Prog (TableIter × Option (Bytes × Bytes)) := do
  let (it, ok) ← it.advanceP
  if !ok then pure (it, none)
  else
    let c ← it.currentP
    pure (it, c)

/-- `seek` -/
def seekP (it : TableIter) (to : Bytes) : Prog TableIter := do
  let ib ← Prog.lift (it.indexBlock.seek it.table.opt.cmp to)
  let it := { it with indexBlock := ib }
  match ← curKVP it.indexBlock with
  | some (pastBlock, handle) =>
    if it.table.opt.cmp.cmp to pastBlock != .gt then
      match ← Prog.try' (loadBlockP it handle) with
      | .ok it =>
        match it.currentBlock with
        | none => Prog.lift (.panic "seek: current_block unwrap")
        | some cb =>
          let cb ← Prog.lift (cb.seek it.table.opt.cmp to)
          let it := { it with currentBlock := some cb }
          if !cb.valid then
            let it := { it with currentBlock := none }
            let (it, _) ← it.advanceP
            pure it
          else pure it
      | .error _ => pure it.reset
    else pure it.reset
  | none => pure it.reset

/-- `prev` -/
def prevP (it : TableIter) : Prog (TableIter × Bool) := do
  let stepped ← match it.currentBlock with
    | some cb => do
      let (cb, ok) ← Prog.lift cb.prev
      pure ({ it with currentBlock := some cb }, ok)
    | none => pure (it, false)
  let (it, ok) := stepped
  if ok then pure (it, true)
  else
    let (ib, ok) ← Prog.lift it.indexBlock.prev
    let it := { it with indexBlock := ib }
    if ok then
      match ← curKVP it.indexBlock with
      | some (_, handle) =>
        match ← Prog.try' (loadBlockP it handle) with
        | .ok it =>
          match it.currentBlock with
          | none => Prog.lift (.panic "prev: current_block unwrap")
          | some cb =>
            let cb ← Prog.lift cb.seekToLast
            pure ({ it with currentBlock := some cb }, cb.valid)
        | .error _ => pure (it.reset, false)
      | none => pure (it, false)
    else pure (it.reset, false)

/-- `seek_to_first` -/
def seekToFirstP (it : TableIter) : Prog TableIter := do
  let (it, _) ← it.reset.advanceP
  pure it

open Spec in
/-- one client call on the iterator (`TableIter.call` of `Lemmas/IterRun.lean`) -/
def callP (it : TableIter) : IterOp → Prog (TableIter × IterOut)
  | .advance => it.advanceP >>= fun r => pure (r.1, .flag r.2)
  | .next => it.nextP >>= fun r => pure (r.1, .entry r.2)
  | .prev => it.prevP >>= fun r => pure (r.1, .flag r.2)
  | .reset => pure (it.reset, .unit)
  | .seekToFirst => it.seekToFirstP >>= fun it' => pure (it', .unit)
  | .seek t => it.seekP t >>= fun it' => pure (it', .unit)
  | .valid => pure (it, .flag it.valid)
  | .current => it.currentP >>= fun e => pure (it, .entry e)
  | .currentKey => pure (it, .key it.currentKey)

open Spec in
/-- a call history: the next call's program starts when the previous call has returned
    (`TableIter.run`) -/
def runP : TableIter → List IterOp → Prog (TableIter × List IterOut)
  | it, [] => pure (it, [])
  | it, op :: ops =>
    it.callP op >>= fun r => runP r.1 ops >>= fun s => pure (s.1, r.2 :: s.2)

end TableIter
end Sst
