import SstModel.Model.Basic
/-
  CRC-32C (Castagnoli, reflected, init/xorout 0xffffffff) — stands for
  `crc::Crc::<u32>::new(&CRC_32_ISCSI)`; bitwise definition from the parameters of the catalogue entry.
-/
namespace Sst

def crcPoly : BitVec 32 := 0x82F63B78#32

/-- one shift of the reflected register -/
def crcBitStep (s : BitVec 32) : BitVec 32 :=
  if s.getLsbD 0 then (s >>> 1) ^^^ crcPoly else s >>> 1

def crcByteStep (s : BitVec 32) (b : UInt8) : BitVec 32 :=
  let s := s ^^^ (BitVec.ofNat 32 b.toNat)
  crcBitStep (crcBitStep (crcBitStep (crcBitStep (crcBitStep (crcBitStep (crcBitStep (crcBitStep s)))))))

/-- the raw register after feeding `d` into state `s` -/
def crcFeed (s : BitVec 32) (d : Bytes) : BitVec 32 := d.foldl crcByteStep s

/-- `digest.update(d); digest.finalize()` -/
def crc32c (d : Bytes) : Nat := (crcFeed 0xFFFFFFFF#32 d ^^^ 0xFFFFFFFF#32).toNat

end Sst
