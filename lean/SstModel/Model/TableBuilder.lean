import SstModel.Model.BlockBuilder
import SstModel.Model.Filter
import SstModel.Model.Crc
/-
  table_builder.rs: `TableBuilder::{new, add, write_data_block, write_block, finish}` writing to a
  `std::io::Write` sink whose behaviour is an arbitrary finite response schedule.
-/
namespace Sst

/-- what one `write` / `flush` call of the sink answers -/
inductive SinkResp where
  | accept (n : Nat)     -- `Ok(min n buf.len())`
  | interrupted          -- `Err(ErrorKind::Interrupted)`
  | error                -- any other `Err`
  deriving Repr, DecidableEq

/-- the sink: upcoming responses (when exhausted: accepts everything), bytes received, call log -/
structure Sink where
  sched : List SinkResp := []
  received : Bytes := []
  /-- buffers offered to `write`, most recent first; `none` marks a `flush` call -/
  log : List (Option Bytes) := []
  deriving Repr

namespace Sink

/-- one `write(buf)` call: (sink, Ok n | Interrupted | Error) -/
def write (s : Sink) (buf : Bytes) : Sink × SinkResp :=
  let (r, rest) := match s.sched with
    | [] => (SinkResp.accept buf.length, [])
    | r :: rest => (r, rest)
  match r with
  | .accept n =>
    let n := min n buf.length
    ({ sched := rest, received := s.received ++ buf.take n, log := some buf :: s.log }, .accept n)
  | r => ({ s with sched := rest, log := some buf :: s.log }, r)

/-- `Write::write_all` as documented by std: retry on Interrupted, `WriteZero` error on `Ok(0)` -/
def writeAll (s : Sink) (buf : Bytes) : Nat → Sink × Res Unit
  | 0 => (s, .diverge)
  | fuel + 1 =>
    if buf.isEmpty then (s, .ok ())
    else
      match s.write buf with
      | (s, .accept 0) => (s, .err .ioError)
      | (s, .accept n) => writeAll s (buf.drop n) fuel
      | (s, .interrupted) => writeAll s buf fuel
      | (s, .error) => (s, .err .ioError)

def flush (s : Sink) : Sink × Res Unit :=
  match s.sched with
  | [] => ({ s with log := none :: s.log }, .ok ())
  | .error :: rest => ({ s with sched := rest, log := none :: s.log }, .err .ioError)
  | .interrupted :: rest => ({ s with sched := rest, log := none :: s.log }, .err .ioError)
  | .accept _ :: rest => ({ s with sched := rest, log := none :: s.log }, .ok ())

end Sink

/-- writer options (`Options` fields the builder reads) -/
structure WOpts where
  cmp : Cmp
  blockSize : Nat
  restartInterval : Nat
  /-- `CompressionType as u8` -/
  compression : Nat
  filter : FilterPolicy
  /-- `snap::raw::Encoder::compress_vec` — a parameter (not modelled) -/
  compress : Bytes → Bytes

structure TableBuilder where
  opt : WOpts
  sink : Sink
  offset : Nat := 0
  numEntries : Nat := 0
  prevBlockLastKey : Bytes := []
  dataBlock : Option BlockBuilder
  indexBlock : Option BlockBuilder
  filterBlock : Option FilterBlockBuilder

namespace TableBuilder

def new (opt : WOpts) (sink : Sink) : TableBuilder :=
  { opt, sink, dataBlock := some (BlockBuilder.new opt.restartInterval),
    indexBlock := some (BlockBuilder.new opt.restartInterval), filterBlock := some {} }

def withSink (t : TableBuilder) (s : Sink) : TableBuilder := { t with sink := s }

/-- the number of `write` calls a `write_all` of `n` bytes can make is bounded by the schedule
    length plus `n` (every scheduled response is consumed; afterwards everything is accepted) -/
def waFuel (t : TableBuilder) (n : Nat) : Nat := t.sink.sched.length + n + 2

/-- `write_block`: (builder, handle) -/
def writeBlock (t : TableBuilder) (block : Bytes) (ctype : Nat) : TableBuilder × Res BlockHandle :=
  let data := if ctype = Consts.compressionSnappy then t.opt.compress block else block
  let crc := crc32c (data ++ [UInt8.ofNat ctype])
  match t.sink.writeAll data (t.waFuel data.length) with
  | (s, .ok ()) =>
    let t := t.withSink s
    match t.sink.writeAll [UInt8.ofNat ctype] (t.waFuel 1) with
    | (s, .ok ()) =>
      let t := t.withSink s
      match t.sink.writeAll (encodeFixed32 (maskCrc crc)) (t.waFuel 4) with
      | (s, .ok ()) =>
        let t := t.withSink s
        ({ t with offset := t.offset + data.length + Consts.tableBlockCompressLen + Consts.tableBlockCksumLen },
          .ok ⟨t.offset, data.length⟩)
      | (s, .err c) => (t.withSink s, .err c)
      | (s, .panic m) => (t.withSink s, .panic m)
      | (s, .diverge) => (t.withSink s, .diverge)
    | (s, .err c) => (t.withSink s, .err c)
    | (s, .panic m) => (t.withSink s, .panic m)
    | (s, .diverge) => (t.withSink s, .diverge)
  | (s, .err c) => (t.withSink s, .err c)
  | (s, .panic m) => (t.withSink s, .panic m)
  | (s, .diverge) => (t.withSink s, .diverge)

/-- `write_data_block(next_key)` -/
def writeDataBlock (t : TableBuilder) (nextKey : Bytes) : TableBuilder × Res Unit :=
  match t.dataBlock with
  | none => (t, .panic "write_data_block: data_block.is_some()")
  | some block =>
    let t := { t with dataBlock := none }
    let sep := t.opt.cmp.sep block.lastKey nextKey
    let t := { t with prevBlockLastKey := block.lastKey }
    let contents := block.finish
    match t.writeBlock contents t.opt.compression with
    | (t, .ok handle) =>
      match t.indexBlock with
      | none => (t, .panic "write_data_block: index_block unwrap")
      | some ib =>
        match ib.add t.opt.cmp sep handle.encode with
        | .ok ib =>
          let t := { t with indexBlock := some ib, dataBlock := some (BlockBuilder.new t.opt.restartInterval) }
          match t.filterBlock with
          | none => (t, .ok ())
          | some fb =>
            match fb.startBlock t.opt.filter t.offset with
            | .ok fb => ({ t with filterBlock := some fb }, .ok ())
            | .panic m => (t, .panic m)
            | .err c => (t, .err c)
            | .diverge => (t, .diverge)
        | .panic m => (t, .panic m)
        | .err c => (t, .err c)
        | .diverge => (t, .diverge)
    | (t, .err c) => (t, .err c)
    | (t, .panic m) => (t, .panic m)
    | (t, .diverge) => (t, .diverge)

/-- `add` (after fixes D9, D10) -/
def add (t : TableBuilder) (key val : Bytes) : TableBuilder × Res Unit :=
  match t.dataBlock with
  | none => (t, .panic "add: data_block.is_some()")
  | some db =>
    let orderOk :=
      if t.numEntries > 0 then
        let last := if db.entries > 0 then db.lastKey else t.prevBlockLastKey
        t.opt.cmp.cmp last key == .lt
      else true
    if !orderOk then (t, .panic "add: keys must be added in increasing order")
    else
      let flush : TableBuilder × Res Unit :=
        if db.entries > 0 ∧ db.sizeEstimate > t.opt.blockSize then t.writeDataBlock key else (t, .ok ())
      match flush with
      | (t, .ok ()) =>
        match t.dataBlock with
        | none => (t, .panic "add: data_block unwrap")
        | some db =>
          let t := { t with filterBlock := t.filterBlock.map (·.addKey key), numEntries := t.numEntries + 1 }
          match db.add t.opt.cmp key val with
          | .ok db => ({ t with dataBlock := some db }, .ok ())
          | .panic m => (t, .panic m)
          | .err c => (t, .err c)
          | .diverge => (t, .diverge)
      | r => r

def filterKey (p : FilterPolicy) : Bytes := ("filter." ++ p.name).toUTF8.toList

/-- `finish`: (builder, Ok(size)) -/
def finish (t : TableBuilder) : TableBuilder × Res Nat :=
  match t.dataBlock with
  | none => (t, .panic "finish: data_block.is_some()")
  | some db =>
    let r1 : TableBuilder × Res Unit :=
      if db.entries > 0 then t.writeDataBlock (t.opt.cmp.succ db.lastKey) else (t, .ok ())
    match r1 with
    | (t, .ok ()) =>
      let metaB := BlockBuilder.new t.opt.restartInterval
      let r2 : TableBuilder × Res BlockBuilder :=
        match t.filterBlock with
        | none => (t, .ok metaB)
        | some fb =>
          let t := { t with filterBlock := none }
          match t.writeBlock (fb.finish t.opt.filter) Consts.compressionNone with
          | (t, .ok h) => (t, metaB.add t.opt.cmp (filterKey t.opt.filter) h.encode)
          | (t, .err c) => (t, .err c)
          | (t, .panic m) => (t, .panic m)
          | (t, .diverge) => (t, .diverge)
      match r2 with
      | (t, .ok metaB) =>
        match t.writeBlock metaB.finish t.opt.compression with
        | (t, .ok metaHandle) =>
          match t.indexBlock with
          | none => (t, .panic "finish: index_block unwrap")
          | some ib =>
            let t := { t with indexBlock := none }
            match t.writeBlock ib.finish t.opt.compression with
            | (t, .ok ixHandle) =>
              let footer : Footer := ⟨metaHandle, ixHandle⟩
              match t.sink.writeAll footer.encode (t.waFuel Consts.fullFooterLength) with
              | (s, .ok ()) =>
                let t := { t.withSink s with offset := t.offset + Consts.fullFooterLength }
                match t.sink.flush with
                | (s, .ok ()) => (t.withSink s, .ok t.offset)
                | (s, .err c) => (t.withSink s, .err c)
                | (s, .panic m) => (t.withSink s, .panic m)
                | (s, .diverge) => (t.withSink s, .diverge)
              | (s, .err c) => (t.withSink s, .err c)
              | (s, .panic m) => (t.withSink s, .panic m)
              | (s, .diverge) => (t.withSink s, .diverge)
            | (t, .err c) => (t, .err c)
            | (t, .panic m) => (t, .panic m)
            | (t, .diverge) => (t, .diverge)
        | (t, .err c) => (t, .err c)
        | (t, .panic m) => (t, .panic m)
        | (t, .diverge) => (t, .diverge)
      | (t, .err c) => (t, .err c)
      | (t, .panic m) => (t, .panic m)
      | (t, .diverge) => (t, .diverge)
    | (t, .err c) => (t, .err c)
    | (t, .panic m) => (t, .panic m)
    | (t, .diverge) => (t, .diverge)

/-- add all entries, stopping at the first non-ok result -/
def addAll (t : TableBuilder) : List (Bytes × Bytes) → TableBuilder × Res Unit
  | [] => (t, .ok ())
  | (k, v) :: rest =>
    match t.add k v with
    | (t, .ok ()) => addAll t rest
    | r => r

/-- build a whole table: add everything, then finish -/
def build (opt : WOpts) (sink : Sink) (es : List (Bytes × Bytes)) : TableBuilder × Res Nat :=
  match (new opt sink).addAll es with
  | (t, .ok ()) => t.finish
  | (t, .err c) => (t, .err c)
  | (t, .panic m) => (t, .panic m)
  | (t, .diverge) => (t, .diverge)

end TableBuilder
end Sst
