import SstModel.Model.Basic
/-
  A generic model of N threads over ONE non-reentrant lock (the `RwLock` around the block cache, always
  taken for writing: `Table::read_block`, the id allocation of `Table::new`).

  A thread is the list of instructions it still has to execute. `acquire` blocks while the lock is
  held (by anyone, including the thread itself: the lock is not re-entrant), `release` is executed by
  the holder, `step` is one atomic instruction inside or outside a critical section. Programs are
  finite lists: a critical section that terminates is a finite run of `step`s between `acquire` and
  `release`.
-/
namespace Sst.Sched

/-- what a thread does next -/
inductive Instr where
  | acquire | release | step
  deriving DecidableEq, Repr

structure Thread where
  /-- remaining program -/
  prog : List Instr
  deriving DecidableEq, Repr

structure State where
  threads : List Thread
  /-- index of the thread holding the lock -/
  holder : Option Nat
  deriving DecidableEq, Repr

/-- thread `i` can take a step: `acquire` only if the lock is free; `release` only by the holder;
    `step` always; a finished (or non-existent) thread never -/
def enabled (s : State) (i : Nat) : Bool :=
  match s.threads[i]? with
  | none => false
  | some t =>
    match t.prog with
    | [] => false
    | .acquire :: _ => decide (s.holder = none)
    | .release :: _ => decide (s.holder = some i)
    | .step :: _ => true

/-- executes thread `i`'s next instruction (precondition: `enabled s i`; otherwise nothing happens
    for a finished / non-existent thread) -/
def stepThread (s : State) (i : Nat) : State :=
  match s.threads[i]? with
  | none => s
  | some t =>
    match t.prog with
    | [] => s
    | .acquire :: p => { threads := s.threads.set i ⟨p⟩, holder := some i }
    | .release :: p => { threads := s.threads.set i ⟨p⟩, holder := none }
    | .step :: p => { threads := s.threads.set i ⟨p⟩, holder := s.holder }

/-- lock discipline of a (remaining) program, given whether its thread holds the lock now: no
    `acquire` while holding (non-reentrant), no `release` without holding, and the program ends not
    holding the lock -/
def disc : Bool → List Instr → Bool
  | h, [] => !h
  | h, .acquire :: p => !h && disc true p
  | h, .release :: p => h && disc false p
  | h, .step :: p => disc h p

/-- a program respects the lock discipline: acquire/release strictly alternate starting with
    `acquire`, and the program ends not holding the lock -/
def Disciplined (p : List Instr) : Bool := disc false p

/-- the invariant: the holder (if any) is a thread; the holder's remaining program — and only its —
    starts inside a critical section, and every remaining program follows the discipline from there -/
structure Inv (s : State) : Prop where
  holderValid : ∀ h, s.holder = some h → h < s.threads.length
  disc : ∀ i t, s.threads[i]? = some t → disc (decide (s.holder = some i)) t.prog = true

/-- total number of instructions left -/
def total : List Thread → Nat
  | [] => 0
  | t :: ts => t.prog.length + total ts

def measure (s : State) : Nat := total s.threads

/-- all programs are finished -/
def finished (s : State) : Bool := s.threads.all (fun t => t.prog.isEmpty)

/-- run a schedule: the list of thread indices picked, in order -/
def run : State → List Nat → State
  | s, [] => s
  | s, i :: is => run (stepThread s i) is

/-- the schedule only ever picks a thread that can move -/
def ValidSched : State → List Nat → Prop
  | _, [] => True
  | s, i :: is => enabled s i = true ∧ ValidSched (stepThread s i) is

/-- no thread can move although some thread is not finished -/
def deadlocked (s : State) : Bool :=
  (List.range s.threads.length).all (fun i => !enabled s i) && !finished s

/-- a state the discipline excludes: thread 0 made a re-entrant call — it has taken the lock and its
    next instruction asks for it again; thread 1 waits for the lock -/
def deadlockWitness : State :=
  { threads := [⟨[.acquire, .release, .release]⟩, ⟨[.acquire, .step, .release]⟩], holder := some 0 }

end Sst.Sched

/-
  The same threads with a shared counter: the cache id allocation of `Table::new`
  (`let mut c = opt.block_cache.write()?; c.new_cache_id()`, where `new_cache_id` is
  `self.id += 1; self.id`) is a read-modify-write of a shared counter. `load` copies the counter into
  the thread's register, `store` writes `register + 1` back and returns it as the new id (recorded in
  a ghost log). Whether the pair is atomic depends on the lock — which is what the model decides.
  (The counter is an unbounded `Nat` here; the `u64` wrap-around of the crate is not modelled.)
-/
namespace Sst.SchedS

inductive Instr where
  | acquire | release | step
  /-- thread-local register := shared counter -/
  | load
  /-- shared counter := register + 1; the id `register + 1` is handed out -/
  | store
  deriving DecidableEq, Repr

structure Thread where
  /-- remaining program -/
  prog : List Instr
  /-- the thread-local register -/
  reg : Nat := 0
  deriving DecidableEq, Repr

structure State where
  threads : List Thread
  /-- index of the thread holding the lock -/
  holder : Option Nat
  /-- the shared counter (`Cache::id`) -/
  counter : Nat
  /-- ghost: the ids handed out so far, oldest first, as (thread, id) -/
  log : List (Nat × Nat)
  deriving DecidableEq, Repr

/-- as in `Sched.enabled`; `load` and `store` are ordinary instructions: always enabled -/
def enabled (s : State) (i : Nat) : Bool :=
  match s.threads[i]? with
  | none => false
  | some t =>
    match t.prog with
    | [] => false
    | .acquire :: _ => decide (s.holder = none)
    | .release :: _ => decide (s.holder = some i)
    | .step :: _ => true
    | .load :: _ => true
    | .store :: _ => true

def stepThread (s : State) (i : Nat) : State :=
  match s.threads[i]? with
  | none => s
  | some t =>
    match t.prog with
    | [] => s
    | .acquire :: p => { s with threads := s.threads.set i ⟨p, t.reg⟩, holder := some i }
    | .release :: p => { s with threads := s.threads.set i ⟨p, t.reg⟩, holder := none }
    | .step :: p => { s with threads := s.threads.set i ⟨p, t.reg⟩ }
    | .load :: p => { s with threads := s.threads.set i ⟨p, s.counter⟩ }
    | .store :: p =>
      { s with threads := s.threads.set i ⟨p, t.reg⟩, counter := t.reg + 1,
               log := s.log ++ [(i, t.reg + 1)] }

/-- forgetting the counter: `load` and `store` are plain steps of the lock model -/
def eraseInstr : Instr → Sched.Instr
  | .acquire => .acquire
  | .release => .release
  | .step => .step
  | .load => .step
  | .store => .step

def eraseThread (t : Thread) : Sched.Thread := ⟨t.prog.map eraseInstr⟩

def erase (s : State) : Sched.State := { threads := s.threads.map eraseThread, holder := s.holder }

/-- the lock discipline of `Sched.Disciplined`, on the erased program -/
def Disciplined (p : List Instr) : Bool := Sched.Disciplined (p.map eraseInstr)

/-- `ainside holding loaded p`: in `p` every `load` is immediately followed by `store`, every `store`
    immediately preceded by `load`, and both occur while the thread holds the lock -/
def ainside : Bool → Bool → List Instr → Bool
  | _, l, [] => !l
  | _, l, .acquire :: p => !l && ainside true false p
  | _, l, .release :: p => !l && ainside false false p
  | h, l, .step :: p => !l && ainside h false p
  | h, l, .load :: p => h && !l && ainside h true p
  | h, l, .store :: p => h && l && ainside h false p

/-- every allocation (`load; store`) is one uninterrupted pair inside an acquire…release section -/
def AllocInside (p : List Instr) : Bool := ainside false false p

/-- the threads before they start: lock free, counter `c0`, nothing handed out -/
def init (c0 : Nat) (progs : List (List Instr)) : State :=
  { threads := progs.map (fun p => ⟨p, 0⟩), holder := none, counter := c0, log := [] }

def run : State → List Nat → State
  | s, [] => s
  | s, i :: is => run (stepThread s i) is

def ValidSched : State → List Nat → Prop
  | _, [] => True
  | s, i :: is => enabled s i = true ∧ ValidSched (stepThread s i) is

def measure (s : State) : Nat := Sched.measure (erase s)

def finished (s : State) : Bool := Sched.finished (erase s)

/-- number of `store`s still to be executed -/
def storesLeft : List Thread → Nat
  | [] => 0
  | t :: ts => t.prog.count .store + storesLeft ts

/-- the invariant of the allocator: the lock invariant; the counter has advanced by one per id handed
    out; the ids handed out are `c0+1, c0+2, …` in this order; a thread between its `load` and its
    `store` (`l = true`) holds the lock and its register equals the counter -/
structure AInv (c0 : Nat) (s : State) : Prop where
  lock : Sched.Inv (erase s)
  counter : s.counter = c0 + s.log.length
  ids : s.log.map Prod.snd = (List.range s.log.length).map (fun n => c0 + 1 + n)
  alloc : ∀ i t, s.threads[i]? = some t →
    ∃ l, ainside (decide (s.holder = some i)) l t.prog = true ∧ (l = true → t.reg = s.counter)

end Sst.SchedS
