import SstModel.Model.Basic
/-
  A generic model of N threads over ONE non-reentrant lock (the `RwLock` around the block cache, always
  taken for writing: `Table::read_block`, the id allocation of `Table::new`).

  A thread is the list of instructions it still has to execute. `acquire` blocks while the lock is
  held (by anyone, including the thread itself: the lock is not re-entrant), `release` is executed by
  the holder, `step` is one atomic instruction inside or outside a critical section. Programs are
  finite lists: a critical section that terminates is a finite run of `step`s between `acquire` and
  `release`.
-/
namespace Sst.Sched

/-- what a thread does next -/
inductive Instr where
  | acquire | release | step
  deriving DecidableEq, Repr

structure Thread where
  /-- remaining program -/
  prog : List Instr
  deriving DecidableEq, Repr

structure State where
  threads : List Thread
  /-- index of the thread holding the lock -/
  holder : Option Nat
  deriving DecidableEq, Repr

/-- thread `i` can take a step: `acquire` only if the lock is free; `release` only by the holder;
    `step` always; a finished (or non-existent) thread never -/
def enabled (s : State) (i : Nat) : Bool :=
  match s.threads[i]? with
  | none => false
  | some t =>
    match t.prog with
    | [] => false
    | .acquire :: _ => decide (s.holder = none)
    | .release :: _ => decide (s.holder = some i)
    | .step :: _ => true

/-- executes thread `i`'s next instruction (precondition: `enabled s i`; otherwise nothing happens
    for a finished / non-existent thread) -/
def stepThread (s : State) (i : Nat) : State :=
  match s.threads[i]? with
  | none => s
  | some t =>
    match t.prog with
    | [] => s
    | .acquire :: p => { threads := s.threads.set i ⟨p⟩, holder := some i }
    | .release :: p => { threads := s.threads.set i ⟨p⟩, holder := none }
    | .step :: p => { threads := s.threads.set i ⟨p⟩, holder := s.holder }

/-- lock discipline of a (remaining) program, given whether its thread holds the lock now: no
    `acquire` while holding (non-reentrant), no `release` without holding, and the program ends not
    holding the lock -/
def disc : Bool → List Instr → Bool
  | h, [] => !h
  | h, .acquire :: p => !h && disc true p
  | h, .release :: p => h && disc false p
  | h, .step :: p => disc h p

/-- a program respects the lock discipline: acquire/release strictly alternate starting with
    `acquire`, and the program ends not holding the lock -/
def Disciplined (p : List Instr) : Bool := disc false p

/-- the invariant: the holder (if any) is a thread; the holder's remaining program — and only its —
    starts inside a critical section, and every remaining program follows the discipline from there -/
structure Inv (s : State) : Prop where
  holderValid : ∀ h, s.holder = some h → h < s.threads.length
  disc : ∀ i t, s.threads[i]? = some t → disc (decide (s.holder = some i)) t.prog = true

/-- total number of instructions left -/
def total : List Thread → Nat
  | [] => 0
  | t :: ts => t.prog.length + total ts

def measure (s : State) : Nat := total s.threads

/-- all programs are finished -/
def finished (s : State) : Bool := s.threads.all (fun t => t.prog.isEmpty)

/-- run a schedule: the list of thread indices picked, in order -/
def run : State → List Nat → State
  | s, [] => s
  | s, i :: is => run (stepThread s i) is

/-- the schedule only ever picks a thread that can move -/
def ValidSched : State → List Nat → Prop
  | _, [] => True
  | s, i :: is => enabled s i = true ∧ ValidSched (stepThread s i) is

/-- no thread can move although some thread is not finished -/
def deadlocked (s : State) : Bool :=
  (List.range s.threads.length).all (fun i => !enabled s i) && !finished s

/-- a state the discipline excludes: thread 0 made a re-entrant call — it has taken the lock and its
    next instruction asks for it again; thread 1 waits for the lock -/
def deadlockWitness : State :=
  { threads := [⟨[.acquire, .release, .release]⟩, ⟨[.acquire, .step, .release]⟩], holder := some 0 }

end Sst.Sched
