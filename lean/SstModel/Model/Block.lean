import SstModel.Model.Codec
import SstModel.Model.Cmp
/-
  block.rs: `Block::{is_well_formed, new, iter}` and `BlockIter`.
  Every slice index, unwrap and assert of the Rust is an explicit `panic` here.
-/
namespace Sst

structure BlockIter where
  block : Bytes
  restartsOff : Nat
  offset : Nat := 0
  curEntryOff : Nat := 0
  curRestartIx : Nat := 0
  key : Bytes := []
  valOffset : Nat := 0
  deriving Repr

namespace Block

/-- three varints of an entry header starting at the head of `bs`; (shared, non_shared, valsize, head_len) -/
def parseHeader (bs : Bytes) : Option (Nat × Nat × Nat × Nat) :=
  match decodeVarint bs with
  | none => none
  | some (shared, l1) =>
    match decodeVarint (bs.drop l1) with
    | none => none
    | some (nonShared, l2) =>
      match decodeVarint (bs.drop (l1 + l2)) with
      | none => none
      | some (valsize, l3) => some (shared, nonShared, valsize, l1 + l2 + l3)

/-- the entry walk of `Block::is_well_formed`; `fuel` bounds the number of entries (each consumes
    at least 3 bytes, so `restartsOff` steps always suffice) -/
def wfWalk (contents : Bytes) (restartsOff nRestarts : Nat) :
    (fuel offset keyLen nextRestart : Nat) → Bool
  | 0, _, _, _ => false
  | fuel + 1, offset, keyLen, nextRestart =>
    if offset < restartsOff then
      let entry := (contents.drop offset).take (restartsOff - offset)
      match parseHeader entry with
      | none => false
      | some (shared, nonShared, valsize, headLen) =>
        if shared > keyLen ∨ nonShared > entry.length - headLen
            ∨ valsize > entry.length - headLen - nonShared then false
        else
          let isRestart := nextRestart < nRestarts ∧
            fixed32At contents (restartsOff + 4 * nextRestart) = some offset
          if isRestart ∧ shared ≠ 0 then false
          else
            wfWalk contents restartsOff nRestarts fuel (offset + headLen + nonShared + valsize)
              (shared + nonShared) (if isRestart then nextRestart + 1 else nextRestart)
    else nextRestart = nRestarts

/-- `Block::is_well_formed` -/
def isWellFormed (contents : Bytes) : Bool :=
  let len := contents.length
  if len < 8 then false
  else
    let nRestarts := decodeFixed32 (contents.drop (len - 4))
    if nRestarts = 0 ∨ nRestarts > (len - 4) / 4 then false
    else
      let restartsOff := len - 4 - 4 * nRestarts
      if fixed32At contents restartsOff ≠ some 0 then false
      else if restartsOff = 0 then nRestarts = 1
      else wfWalk contents restartsOff nRestarts (restartsOff + 1) 0 0 0

/-- `Block::new` + `Block::iter` -/
def iter (contents : Bytes) : Res BlockIter := do
  assert (decide (contents.length > 4)) "Block::new: contents.len() > 4"
  let restarts := decodeFixed32 (contents.drop (contents.length - 4))
  if contents.length - 4 < 4 * restarts then .panic "Block::iter: restart offset underflow"
  else pure { block := contents, restartsOff := contents.length - 4 - 4 * restarts }

end Block

namespace BlockIter

def numberRestarts (it : BlockIter) : Nat := decodeFixed32 (it.block.drop (it.block.length - 4))

def getRestartPoint (it : BlockIter) (ix : Nat) : Res Nat :=
  match fixed32At it.block (it.restartsOff + 4 * ix) with
  | some v => .ok v
  | none => .panic "get_restart_point: slice"

/-- `reset` -/
def reset (it : BlockIter) : BlockIter :=
  { it with offset := 0, valOffset := 0, curRestartIx := 0, key := [] }

/-- `valid` (after fix D7) -/
def valid (it : BlockIter) : Bool := decide (it.valOffset > 0) && decide (it.valOffset ≤ it.restartsOff)

/-- `parse_entry_and_advance`: (iterator, shared, non_shared, head_len) -/
def parseEntryAndAdvance (it : BlockIter) : Res (BlockIter × Nat × Nat × Nat) :=
  if it.offset > it.block.length then .panic "parse_entry: slice start" else
  match decodeVarint (it.block.drop it.offset) with
  | none => .panic "parse_entry: varint shared"
  | some (shared, l1) =>
    if it.offset + l1 > it.block.length then .panic "parse_entry: slice" else
    match decodeVarint (it.block.drop (it.offset + l1)) with
    | none => .panic "parse_entry: varint non_shared"
    | some (nonShared, l2) =>
      if it.offset + l1 + l2 > it.block.length then .panic "parse_entry: slice" else
      match decodeVarint (it.block.drop (it.offset + l1 + l2)) with
      | none => .panic "parse_entry: varint valsize"
      | some (valsize, l3) =>
        let i := l1 + l2 + l3
        if it.offset + i + nonShared ≥ 2 ^ 64 ∨ it.offset + i + nonShared + valsize ≥ 2 ^ 64 then
          .panic "parse_entry: usize overflow"
        else
          let valOffset := it.offset + i + nonShared
          .ok ({ it with valOffset, offset := valOffset + valsize }, shared, nonShared, i)

/-- `assemble_key` -/
def assembleKey (it : BlockIter) (off shared nonShared : Nat) : Res BlockIter :=
  match slice? it.block off (off + nonShared) with
  | some s => .ok { it with key := it.key.take shared ++ s }
  | none => .panic "assemble_key: slice"

/-- `seek_to_restart_point` -/
def seekToRestartPoint (it : BlockIter) (ix : Nat) : Res BlockIter := do
  let off ← getRestartPoint it ix
  let it := { it with offset := off, curEntryOff := off, curRestartIx := ix }
  let (it, shared, nonShared, headLen) ← parseEntryAndAdvance it
  assert (shared == 0) "seek_to_restart_point: shared == 0"
  let it ← assembleKey it (off + headLen) shared nonShared
  assert it.valid "seek_to_restart_point: valid"
  pure it

/-- the `while current_restart_ix + 1 < num_restarts && restart[ix+1] < current_entry_offset` loop -/
def adjustRestartIx (it : BlockIter) : Nat → Res BlockIter
  | 0 => .ok it
  | fuel + 1 =>
    if it.curRestartIx + 1 < it.numberRestarts then
      match getRestartPoint it (it.curRestartIx + 1) with
      | .ok rp =>
        if rp < it.curEntryOff then adjustRestartIx { it with curRestartIx := it.curRestartIx + 1 } fuel
        else .ok it
      | .panic s => .panic s
      | .err c => .err c
      | .diverge => .diverge
    else .ok it

/-- `advance` -/
def advance (it : BlockIter) : Res (BlockIter × Bool) :=
  if it.offset ≥ it.restartsOff then .ok (it.reset, false)
  else do
    let it := { it with curEntryOff := it.offset }
    let currentOff := it.curEntryOff
    let (it, shared, nonShared, headLen) ← parseEntryAndAdvance it
    let it ← assembleKey it (currentOff + headLen) shared nonShared
    let it ← adjustRestartIx it (it.numberRestarts + 1)
    pure (it, true)

/-- `current` : (key, value) -/
def current (it : BlockIter) : Res (Option (Bytes × Bytes)) :=
  if it.valid then
    match slice? it.block it.valOffset it.offset with
    | some v => .ok (some (it.key, v))
    | none => .panic "current: value slice"
  else .ok none

def currentKey (it : BlockIter) : Option Bytes := if it.valid then some it.key else none

/-- `SSIterator::next` default method -/
def next (it : BlockIter) : Res (BlockIter × Option (Bytes × Bytes)) := do
  let (it, ok) ← advance it
  if !ok then pure (it, none)
  else
    let c ← current it
    pure (it, c)

/-- the advance loop of `seek_to_last`: `while self.offset < self.restarts_off { self.advance() }` -/
def advanceToEnd (it : BlockIter) : Nat → Res BlockIter
  | 0 => .diverge
  | fuel + 1 =>
    if it.offset < it.restartsOff then
      match advance it with
      | .ok (it, _) => advanceToEnd it fuel
      | .panic s => .panic s
      | .err c => .err c
      | .diverge => .diverge
    else .ok it

/-- `seek_to_last` -/
def seekToLast (it : BlockIter) : Res BlockIter :=
  if it.restartsOff = 0 then .ok it.reset
  else do
    let it ←
      if it.numberRestarts > 0 then seekToRestartPoint it (it.numberRestarts - 1)
      else pure it.reset
    let it ← advanceToEnd it (it.block.length + 1)
    assert it.valid "seek_to_last: valid"
    pure it

/-- first loop of `prev`: walk restart points back until one lies before `orig` -/
def prevFindRestart (it : BlockIter) (orig : Nat) : Nat → Res BlockIter
  | 0 => .diverge
  | fuel + 1 =>
    match getRestartPoint it it.curRestartIx with
    | .ok rp =>
      if rp ≥ orig then
        if it.curRestartIx = 0 then
          .ok { it with offset := it.restartsOff, curRestartIx := it.numberRestarts }
        else prevFindRestart { it with curRestartIx := it.curRestartIx - 1 } orig fuel
      else .ok it
    | .panic s => .panic s
    | .err c => .err c
    | .diverge => .diverge

/-- second loop of `prev`: `loop { result = self.advance(); if self.offset >= orig_offset { break } }` -/
def prevScan (it : BlockIter) (orig : Nat) : Nat → Res (BlockIter × Bool)
  | 0 => .diverge
  | fuel + 1 =>
    match advance it with
    | .ok (it, r) => if it.offset ≥ orig then .ok (it, r) else prevScan it orig fuel
    | .panic s => .panic s
    | .err c => .err c
    | .diverge => .diverge

/-- `prev` -/
def prev (it : BlockIter) : Res (BlockIter × Bool) :=
  let orig := it.curEntryOff
  if orig = 0 then .ok (it.reset, false)
  else do
    let it ← prevFindRestart it orig (it.curRestartIx + 2)
    let off ← getRestartPoint it it.curRestartIx
    let it := { it with offset := off }
    assert (decide (it.offset < orig)) "prev: offset < orig_offset"
    prevScan it orig (it.block.length + 2)

/-- binary search of `seek` over the restart points -/
def seekBinSearch (cmp : Cmp) (it : BlockIter) (to : Bytes) : (fuel left right : Nat) → Res (BlockIter × Nat)
  | 0, _, _ => .diverge
  | fuel + 1, left, right =>
    if left < right then
      let middle := (left + right + 1) / 2
      match seekToRestartPoint it middle with
      | .ok it =>
        if cmp.cmp it.key to == .lt then seekBinSearch cmp it to fuel middle right
        else seekBinSearch cmp it to fuel left (middle - 1)
      | .panic s => .panic s
      | .err c => .err c
      | .diverge => .diverge
    else
      if left = right then .ok (it, left) else .panic "seek: left == right"

/-- linear part of `seek`: `while let Some((k, _)) = self.next() { if cmp(k, to) >= Equal { return } }` -/
def seekLinear (cmp : Cmp) (it : BlockIter) (to : Bytes) : Nat → Res BlockIter
  | 0 => .diverge
  | fuel + 1 =>
    match next it with
    | .ok (it, some (k, _)) => if cmp.cmp k to != .lt then .ok it else seekLinear cmp it to fuel
    | .ok (it, none) => .ok it
    | .panic s => .panic s
    | .err c => .err c
    | .diverge => .diverge

/-- `seek` -/
def seek (cmp : Cmp) (it : BlockIter) (to : Bytes) : Res BlockIter := do
  let it := it.reset
  let n := it.numberRestarts
  let right := if n = 0 then 0 else n - 1
  let (it, left) ← seekBinSearch cmp it to (n + 2) 0 right
  let off ← getRestartPoint it left
  let it := { it with curRestartIx := left, offset := off }
  seekLinear cmp it to (it.block.length + 2)

/-- `seek_to_first` default method: reset, advance -/
def seekToFirst (it : BlockIter) : Res BlockIter := do
  let (it, _) ← advance it.reset
  pure it

end BlockIter
end Sst
