import SstModel.Model.Codec
import SstModel.Model.Cmp
/- block_builder.rs -/
namespace Sst

structure BlockBuilder where
  restartInterval : Nat
  buffer : Bytes := []
  restarts : List Nat := [0]
  lastKey : Bytes := []
  restartCounter : Nat := 0
  counter : Nat := 0
  deriving Repr

namespace BlockBuilder

def new (restartInterval : Nat) : BlockBuilder := { restartInterval }

def entries (b : BlockBuilder) : Nat := b.counter

def sizeEstimate (b : BlockBuilder) : Nat := b.buffer.length + 4 * b.restarts.length + 4

/-- length of the common prefix (`while shared < smallest && last_key[shared] == key[shared]`) -/
def sharedLen : Bytes → Bytes → Nat
  | a :: as, b :: bs => if a = b then sharedLen as bs + 1 else 0
  | _, _ => 0

/-- `BlockBuilder::add`, both asserts included -/
def add (cmp : Cmp) (b : BlockBuilder) (key val : Bytes) : Res BlockBuilder := do
  assert (decide (b.restartCounter ≤ b.restartInterval)) "block_builder: restart_counter <= interval"
  assert (b.buffer.isEmpty || cmp.cmp b.lastKey key == .lt) "block_builder: keys must increase"
  let (shared, restarts, restartCounter) :=
    if b.restartCounter < b.restartInterval then
      (sharedLen b.lastKey key, b.restarts, b.restartCounter)
    else
      (0, b.restarts ++ [b.buffer.length % 2 ^ 32], 0)
  let nonShared := key.length - shared
  let buffer := b.buffer ++ encodeVarint shared ++ encodeVarint nonShared ++ encodeVarint val.length
                  ++ key.drop shared ++ val
  pure { b with buffer, restarts, lastKey := key.take shared ++ key.drop shared,
                restartCounter := restartCounter + 1, counter := b.counter + 1 }

/-- `BlockBuilder::finish` -/
def finish (b : BlockBuilder) : Bytes :=
  b.buffer ++ (b.restarts.map encodeFixed32).flatten ++ encodeFixed32 b.restarts.length

end BlockBuilder
end Sst
