/-
  Basic vocabulary of the model: byte strings, the result type that makes Rust's
  panics / errors explicit, lexicographic comparison.
  No imports: everything the driver links must stay free of Mathlib.
-/
namespace Sst

abbrev Bytes := List UInt8

/-- Status codes of `sstable::StatusCode` (error.rs). -/
inductive Code where
  | ok | alreadyExists | corruption | compressionError | ioError | invalidArgument
  | invalidData | lockError | notFound | notSupported | permissionDenied | unknown
  deriving DecidableEq, Repr, Inhabited

/-- Outcome of a modelled Rust call.
    `panic` is any unwinding (assert!, unwrap on None, slice index out of range, arithmetic overflow in a
    debug build); `diverge` is fuel exhaustion of a modelled loop (never reachable for the fuels the
    model passes; theorems say so). -/
inductive Res (α : Type) where
  | ok (a : α)
  | err (c : Code)
  | panic (site : String)
  | diverge
  deriving Repr

namespace Res
@[inline] def bind {α β} (r : Res α) (f : α → Res β) : Res β :=
  match r with
  | ok a => f a
  | err c => err c
  | panic s => panic s
  | diverge => diverge
instance : Monad Res where
  pure := ok
  bind := bind
def isOk {α} : Res α → Bool | ok _ => true | _ => false
def isPanic {α} : Res α → Bool | panic _ => true | _ => false
def toOption {α} : Res α → Option α | ok a => some a | _ => none
@[simp] theorem bind_ok {α β} (a : α) (f : α → Res β) : (ok a >>= f) = f a := rfl
@[simp] theorem bind_err {α β} (c : Code) (f : α → Res β) : ((err c : Res α) >>= f) = err c := rfl
@[simp] theorem bind_panic {α β} (s : String) (f : α → Res β) : ((panic s : Res α) >>= f) = panic s := rfl
@[simp] theorem bind_diverge {α β} (f : α → Res β) : ((diverge : Res α) >>= f) = diverge := rfl
@[simp] theorem pure_eq {α} (a : α) : (pure a : Res α) = ok a := rfl
end Res

/-- `assert!(c)` -/
@[inline] def assert (c : Bool) (site : String) : Res Unit :=
  if c then .ok () else .panic site

/-- Lexicographic comparison of byte strings: `<[u8] as Ord>::cmp`. -/
def cmpBytes : Bytes → Bytes → Ordering
  | [], [] => .eq
  | [], _ :: _ => .lt
  | _ :: _, [] => .gt
  | a :: as, b :: bs =>
    if a < b then .lt else if b < a then .gt else cmpBytes as bs

/-- `&block[from..to]`: `none` is the slice-index panic. -/
def slice? (b : Bytes) (lo hi : Nat) : Option Bytes :=
  if lo ≤ hi ∧ hi ≤ b.length then some ((b.drop lo).take (hi - lo)) else none

end Sst
