import SstModel.Model.Cmp
import SstModel.Model.Filter
/-
  User-supplied trait objects used by the correspondence streams (the same definitions exist in the
  Rust harness): a non-bytewise total order and a non-bloom filter policy.
-/
namespace Sst

/-- reverse bytewise order; separator and successor are the identity on the first argument
    (lawful: a ≤ a < b and a ≤ a) -/
def reverseCmp : Cmp where
  cmp := fun a b => cmpBytes b a
  sep := fun a _ => a
  succ := fun a => a

/-- shorter keys first, keys of equal length bytewise (neither the bytewise order nor its reverse); separator and
    successor are the identity on the first argument -/
def lenFirstCmp : Cmp where
  cmp := fun a b => if a.length < b.length then .lt else if b.length < a.length then .gt else cmpBytes a b
  sep := fun a _ => a
  succ := fun a => a

/-- filter = list of (first byte + 1), 0 for the empty key; may-match = membership -/
def firstBytePolicy : FilterPolicy where
  name := "verif.FirstByte"
  createFilter := fun keys => keys.map (fun k => match k with | [] => 0 | b :: _ => b + 1)
  keyMayMatch := fun key f => f.contains (match key with | [] => 0 | b :: _ => b + 1)

/-- same name as bloom would be wrong; a policy that *lies* (rejects everything) under a foreign name:
    a reader with another policy must never consult its filters -/
def rejectAllPolicy : FilterPolicy where
  name := "verif.RejectAll"
  createFilter := fun keys => List.replicate (keys.length + 8) 0 ++ [1]
  keyMayMatch := fun _ _ => false

/-- a lying policy whose on-disk name is a PROPER PREFIX of the bloom policy's name (LevelDB's original
    "leveldb.BuiltinBloomFilter"): the metaindex lookup must compare names for equality, not by prefix -/
def rejectAllPrefixPolicy : FilterPolicy where
  name := "leveldb.BuiltinBloomFilter"
  createFilter := fun keys => List.replicate (keys.length + 8) 0 ++ [1]
  keyMayMatch := fun _ _ => false

/-- … and one whose name EXTENDS the bloom policy's name -/
def rejectAllExtPolicy : FilterPolicy where
  name := "leveldb.BuiltinBloomFilter2x"
  createFilter := fun keys => List.replicate (keys.length + 8) 0 ++ [1]
  keyMayMatch := fun _ _ => false

end Sst
