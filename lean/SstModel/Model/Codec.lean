import SstModel.Model.Basic
import SstModel.Generated.Consts
/-
  integer-encoding 3.0.4 (varint.rs, fixed.rs) as used by the crate, blockhandle.rs,
  Footer (table_builder.rs), mask_crc/unmask_crc (types.rs).
-/
namespace Sst

/-- `u64::encode_var`: `while n >= 0x80 { dst[i] = MSB | (n as u8); n >>= 7 }; dst[i] = n as u8` -/
def encodeVarint (n : Nat) : Bytes :=
  if n < 128 then [UInt8.ofNat n]
  else UInt8.ofNat (n % 128 + 128) :: encodeVarint (n / 128)
termination_by n
decreasing_by omega

/-- loop of `u64::decode_var`; `result` is a u64 (truncated), gives (value, bytes read).
    `None` when the input ends or 10 bytes all carry the continuation bit. -/
def decodeVarintLoop : Bytes → Nat → Nat → Option (Nat × Nat)
  | [], _, _ => none
  | b :: rest, result, shift =>
    let result := (result + (b.toNat % 128) * 2 ^ shift) % 2 ^ 64
    let shift := shift + 7
    if b.toNat < 128 then some (result, shift / 7)
    else if shift > 63 then none
    else decodeVarintLoop rest result shift

def decodeVarint (bs : Bytes) : Option (Nat × Nat) := decodeVarintLoop bs 0 0

/-- `u32::encode_fixed` (little endian); the value is truncated like `as u32` -/
def encodeFixed32 (n : Nat) : Bytes :=
  [UInt8.ofNat (n % 256), UInt8.ofNat (n / 256 % 256), UInt8.ofNat (n / 65536 % 256),
   UInt8.ofNat (n / 16777216 % 256)]

/-- `u32::decode_fixed` of a 4 byte slice -/
def decodeFixed32 : Bytes → Nat
  | [a, b, c, d] => a.toNat + 256 * b.toNat + 65536 * c.toNat + 16777216 * d.toNat
  | _ => 0

/-- `u32::decode_fixed(&block[at..at+4])`; `none` = slice panic -/
def fixed32At (b : Bytes) (at_ : Nat) : Option Nat :=
  (slice? b at_ (at_ + 4)).map decodeFixed32

def encodeFixed64 (n : Nat) : Bytes :=
  encodeFixed32 (n % 4294967296) ++ encodeFixed32 (n / 4294967296)

structure BlockHandle where
  offset : Nat
  size : Nat
  deriving Repr, DecidableEq, Inhabited

/-- `BlockHandle::encode_to` (bytes written) -/
def BlockHandle.encode (h : BlockHandle) : Bytes := encodeVarint h.offset ++ encodeVarint h.size

/-- `BlockHandle::try_decode` -/
def BlockHandle.tryDecode (from_ : Bytes) : Option (BlockHandle × Nat) :=
  match decodeVarint from_ with
  | none => none
  | some (off, n1) =>
    match decodeVarint (from_.drop n1) with
    | none => none
    | some (sz, n2) => some (⟨off, sz⟩, n1 + n2)

structure Footer where
  metaIndex : BlockHandle
  index : BlockHandle
  deriving Repr, DecidableEq, Inhabited

/-- `Footer::encode` into a 48 byte buffer (handles are at most 4*10 = 40 bytes) -/
def Footer.encode (f : Footer) : Bytes :=
  let hs := f.metaIndex.encode ++ f.index.encode
  hs ++ List.replicate (Consts.footerLength - hs.length) 0 ++ Consts.magicFooterEncoded

/-- `Footer::try_decode` -/
def Footer.tryDecode (from_ : Bytes) : Option Footer :=
  if from_.length < Consts.fullFooterLength then none
  else if (from_.drop Consts.footerLength).take (Consts.fullFooterLength - Consts.footerLength)
            ≠ Consts.magicFooterEncoded then none
  else
    match BlockHandle.tryDecode from_ with
    | none => none
    | some (m, n) =>
      match BlockHandle.tryDecode (from_.drop n) with
      | none => none
      | some (ix, _) => some ⟨m, ix⟩

/-- `mask_crc`: rotate right by 15 and add the mask delta (wrapping) -/
def maskCrc (c : Nat) : Nat :=
  ((c / 2 ^ Consts.maskShr + c * 2 ^ Consts.maskShl % 2 ^ 32) % 2 ^ 32 + Consts.maskDelta) % 2 ^ 32

/-- `unmask_crc` -/
def unmaskCrc (mc : Nat) : Nat :=
  let rot := (mc + 2 ^ 32 - Consts.maskDelta) % 2 ^ 32
  (rot / 2 ^ Consts.unmaskShr + rot * 2 ^ Consts.unmaskShl % 2 ^ 32) % 2 ^ 32

end Sst
