import SstModel.Model.Block
import SstModel.Model.Filter
import SstModel.Model.Crc
import SstModel.Model.Snappy
/-
  types.rs (`RandomAccess for Vec<u8>` plus a fault schedule), table_block.rs, table_reader.rs
  (`Table`, `TableIterator`), and the block cache seen as the LRU map that C11 proves `cache.rs` to be.
-/
namespace Sst

/-- what one `read_at` call of the random-access source does -/
inductive Fault where
  | none                 -- behaves normally
  | ioError              -- returns `Err`
  | short (n : Nat)      -- fills only the first `n` bytes it would normally fill
  deriving Repr, DecidableEq

/-- block cache as an LRU list, most recently used first; keys are (cache id, block offset) -/
structure LruCache (α : Type) where
  cap : Nat
  entries : List ((Nat × Nat) × α) := []
  nextId : Nat := 0

namespace LruCache
def newCacheId {α} (c : LruCache α) : LruCache α × Nat :=
  ({ c with nextId := (c.nextId + 1) % 2 ^ 64 }, (c.nextId + 1) % 2 ^ 64)
def get {α} (c : LruCache α) (k : Nat × Nat) : LruCache α × Option α :=
  match c.entries.find? (·.1 = k) with
  | some e => ({ c with entries := e :: c.entries.filter (·.1 ≠ k) }, some e.2)
  | none => (c, none)
def insert {α} (c : LruCache α) (k : Nat × Nat) (v : α) : LruCache α :=
  let es := c.entries.filter (·.1 ≠ k)
  let es := if es.length ≥ c.cap then es.dropLast else es
  { c with entries := (k, v) :: es }
def count {α} (c : LruCache α) : Nat := c.entries.length
end LruCache

/-- a block access observed by `Table::read_block` (the hook's `BlockEvent`) -/
structure BlockEvent where
  cacheId : Nat
  offset : Nat
  hit : Bool
  deriving Repr, DecidableEq

/-- everything outside the table handle: the files, the fault schedule, the shared cache, logs -/
structure World where
  files : List Bytes
  sched : List Fault := []
  /-- (file id, offset, length) of every `read_at`, most recent first -/
  readLog : List (Nat × Nat × Nat) := []
  cache : LruCache Bytes
  events : List BlockEvent := []
  /-- sizes of the buffers allocated for reads (`read_bytes`, the footer buffer) and for
      decompression (`decompress_vec`), most recent first -/
  allocs : List Nat := []

/-- reader options -/
structure ROpts where
  cmp : Cmp
  filter : FilterPolicy

abbrev M (α : Type) := World → World × Res α

namespace M
@[inline] def pure' {α} (a : α) : M α := fun w => (w, .ok a)
@[inline] def bind' {α β} (m : M α) (f : α → M β) : M β := fun w =>
  match m w with
  | (w, .ok a) => f a w
  | (w, .err c) => (w, .err c)
  | (w, .panic s) => (w, .panic s)
  | (w, .diverge) => (w, .diverge)
instance : Monad M where
  pure := pure'
  bind := bind'
def lift {α} (r : Res α) : M α := fun w => (w, r)
def fail {α} (c : Code) : M α := fun w => (w, .err c)
/-- run `m`, turning an `err` into a value (`Result` inspected by the caller) -/
def try' {α} (m : M α) : M (Except Code α) := fun w =>
  match m w with
  | (w, .ok a) => (w, .ok (.ok a))
  | (w, .err c) => (w, .ok (.error c))
  | (w, .panic s) => (w, .panic s)
  | (w, .diverge) => (w, .diverge)
end M

/-- `RandomAccess::read_at` for a `Vec<u8>` behind a fault-injecting wrapper; returns the buffer
    (`len` bytes, zero-initialised by the caller as `read_bytes` does) after the call -/
def readAt (file off len : Nat) : M Bytes := fun w =>
  let (f, rest) := match w.sched with
    | [] => (Fault.none, [])
    | f :: rest => (f, rest)
  let w := { w with sched := rest, readLog := (file, off, len) :: w.readLog }
  match f with
  | .ioError => (w, .err .ioError)
  | f =>
    let img := w.files.getD file []
    let normal := if off > img.length then 0 else min len (img.length - off)
    let n := match f with
      | .short k => min k normal
      | _ => normal
    let got := (img.drop off).take n
    (w, .ok (got ++ List.replicate (len - n) 0))

/-- `read_bytes` -/
def readBytes (file : Nat) (loc : BlockHandle) : M Bytes := fun w =>
  readAt file loc.offset loc.size { w with allocs := loc.size :: w.allocs }

/-- an allocation of `n` bytes that is not a `read_bytes` buffer (logged like those) -/
def logAlloc (n : Nat) : M Unit := fun w => ({ w with allocs := n :: w.allocs }, .ok ())

/-- the snappy arm of `read_block_contents` (after fix D20): `snap::raw::decompress_len`, the
    plausibility guard `declared > buf.len().saturating_mul(SNAPPY_MAX_EXPANSION)`, then
    `Decoder::new().decompress_vec(&buf)`, which allocates `vec![0; declared]` up front — hence the
    allocation is logged before the elements are decoded, also when decoding then fails.
    (`saturating_mul`: the declared length is at most 2^32-1 ≤ usize::MAX, so comparing with the
    saturated product and with the exact product give the same answer.) -/
def decompressGuarded (data : Bytes) : M Bytes :=
  match Snappy.declaredLen data with
  | none => M.fail .compressionError
  | some n =>
    if n > Consts.snappyMaxExpansion * data.length then M.fail .compressionError
    else do
      logAlloc n
      match Snappy.decode data with
      | some d => pure d
      | none => M.fail .compressionError

/-- `read_block_contents`: read, verify the checksum, decompress -/
def readBlockContents (file : Nat) (loc : BlockHandle) : M Bytes := do
  let buf ← readBytes file ⟨loc.offset, loc.size + Consts.tableBlockCksumLen + Consts.tableBlockCompressLen⟩
  let data := buf.take loc.size
  let ctype := (buf.getD loc.size 0).toNat
  let cksum := decodeFixed32 ((buf.drop (loc.size + Consts.tableBlockCompressLen)).take 4)
  if crc32c (data ++ [UInt8.ofNat ctype]) ≠ unmaskCrc cksum then M.fail .corruption
  else if ctype = Consts.compressionNone then pure data
  else if ctype = Consts.compressionSnappy then decompressGuarded data
  else M.fail .invalidData

/-- `read_table_block` (after fix D18a: structure validated); returns the block contents -/
def readTableBlock (file : Nat) (loc : BlockHandle) : M Bytes := do
  let contents ← readBlockContents file loc
  if !Block.isWellFormed contents then M.fail .corruption
  else
    -- Block::new asserts len > 4: implied by well-formedness, kept for fidelity
    M.lift (assert (decide (contents.length > 4)) "Block::new: contents.len() > 4")
    pure contents

/-- `table_block::read_filter_block` -/
def readFilterBlock (file : Nat) (loc : BlockHandle) : M FilterBlockReader := do
  if loc.size = 0 then M.fail .invalidArgument
  else
    let buf ← readBlockContents file loc
    if !FilterBlockReader.isWellFormed buf then M.fail .corruption
    else M.lift (FilterBlockReader.new buf)

/-- `check_block_bounds` -/
def checkBlockBounds (loc : BlockHandle) (fileSize : Nat) : M Unit :=
  let e := loc.offset + loc.size + Consts.tableBlockCompressLen + Consts.tableBlockCksumLen
  if e < 2 ^ 64 ∧ e ≤ fileSize then pure () else M.fail .corruption

structure Table where
  file : Nat
  fileSize : Nat
  cacheId : Nat
  opt : ROpts
  footer : Footer
  indexBlock : Bytes
  filters : Option FilterBlockReader

/-- `current_key_val(&iter)` -/
def curKV (it : BlockIter) : M (Option (Bytes × Bytes)) := M.lift it.current

namespace Table

/-- `read_footer` -/
def readFooter (file size : Nat) : M Footer := do
  if size < Consts.fullFooterLength then M.fail .corruption
  else
    -- `let mut buf = vec![0; FULL_FOOTER_LENGTH]; f.read_at(size - FULL_FOOTER_LENGTH, &mut buf)?`
    let buf ← readBytes file ⟨size - Consts.fullFooterLength, Consts.fullFooterLength⟩
    match Footer.tryDecode buf with
    | some f => pure f
    | none => M.fail .corruption

def filterName (p : FilterPolicy) : Bytes := ("filter." ++ p.name).toUTF8.toList

/-- `Table::read_filter_block` -/
def readFilterBlock (metaix : Bytes) (file fileSize : Nat) (opt : ROpts) : M (Option FilterBlockReader) := do
  let name := filterName opt.filter
  let it ← M.lift (Block.iter metaix)
  let it ← M.lift (it.seek opt.cmp name)
  match ← curKV it with
  | some (key, val) =>
    if key ≠ name then pure none
    else
      match BlockHandle.tryDecode val with
      | none => M.fail .corruption
      | some (loc, _) =>
        if loc.size > 0 then
          checkBlockBounds loc fileSize
          let r ← Sst.readFilterBlock file loc
          pure (some r)
        else pure none
  | none => pure none

/-- `Table::new` -/
def new (opt : ROpts) (file size : Nat) : M Table := do
  let footer ← readFooter file size
  checkBlockBounds footer.index size
  checkBlockBounds footer.metaIndex size
  let indexBlock ← readTableBlock file footer.index
  let metaindexBlock ← readTableBlock file footer.metaIndex
  let filters ← readFilterBlock metaindexBlock file size opt
  let id ← (fun w => let (c, id) := w.cache.newCacheId; ({ w with cache := c }, .ok id) : M Nat)
  pure { file, fileSize := size, cacheId := id, opt, footer, indexBlock, filters }

/-- `Table::read_block`: through the cache -/
def readBlock (t : Table) (loc : BlockHandle) : M Bytes := do
  checkBlockBounds loc t.fileSize
  let key := (t.cacheId, loc.offset % 2 ^ 64)
  let hit ← (fun w =>
    let (c, r) := w.cache.get key
    ({ w with cache := c, events := ⟨t.cacheId, loc.offset, r.isSome⟩ :: w.events }, .ok r) : M (Option Bytes))
  match hit with
  | some b => pure b
  | none =>
    let b ← readTableBlock t.file loc
    (fun w => ({ w with cache := w.cache.insert key b }, .ok ()) : M Unit)
    pure b

/-- `Table::approx_offset_of` -/
def approxOffsetOf (t : Table) (key : Bytes) : M Nat := do
  let it ← M.lift (Block.iter t.indexBlock)
  let it ← M.lift (it.seek t.opt.cmp key)
  match ← curKV it with
  | some (_, val) =>
    match BlockHandle.tryDecode val with
    | some (loc, _) => pure loc.offset
    | none => pure t.footer.metaIndex.offset
  | none => pure t.footer.metaIndex.offset

/-- `Table::get` -/
def get (t : Table) (key : Bytes) : M (Option Bytes) := do
  let it ← M.lift (Block.iter t.indexBlock)
  let it ← M.lift (it.seek t.opt.cmp key)
  match ← curKV it with
  | none => pure none
  | some (lastInBlock, h) =>
    if t.opt.cmp.cmp key lastInBlock == .gt then pure none
    else
      match BlockHandle.tryDecode h with
      | none => M.fail .corruption
      | some (handle, _) =>
        let pass ← match t.filters with
          | some f => M.lift (f.keyMayMatch t.opt.filter handle.offset key)
          | none => pure true
        if !pass then pure none
        else
          let tb ← t.readBlock handle
          let it ← M.lift (Block.iter tb)
          let it ← M.lift (it.seek t.opt.cmp key)
          match ← curKV it with
          | some (k, v) => if t.opt.cmp.cmp k key == .eq then pure (some v) else pure none
          | none => pure none

end Table

structure TableIter where
  table : Table
  currentBlock : Option BlockIter := none
  currentBlockOff : Nat := 0
  indexBlock : BlockIter

namespace TableIter

/-- `Table::iter` -/
def new (t : Table) : M TableIter := do
  let ib ← M.lift (Block.iter t.indexBlock)
  pure { table := t, indexBlock := ib }

/-- `load_block` -/
def loadBlock (it : TableIter) (handle : Bytes) : M TableIter := do
  match BlockHandle.tryDecode handle with
  | none => M.fail .corruption
  | some (h, _) =>
    let b ← it.table.readBlock h
    let bi ← M.lift (Block.iter b)
    pure { it with currentBlock := some bi, currentBlockOff := h.offset }

/-- `skip_to_next_entry`: the index iterator moves even when loading fails, so the iterator state is
    returned next to the `Result` -/
def skipToNextEntry (it : TableIter) : M (TableIter × Except Code Bool) := do
  let (ib, e) ← M.lift it.indexBlock.next
  let it := { it with indexBlock := ib }
  match e with
  | some (_, val) =>
    match ← M.try' (loadBlock it val) with
    | .ok it => pure (it, .ok true)
    | .error c => pure (it, .error c)
  | none => pure (it, .ok false)

/-- `reset` -/
def reset (it : TableIter) : TableIter :=
  { it with indexBlock := it.indexBlock.reset, currentBlock := none }

/-- `advance` (after fix D15: a loop). The fuel bounds the number of blocks visited: every
    iteration either returns or moves the index iterator forward. -/
def advanceLoop (it : TableIter) : Nat → M (TableIter × Bool)
  | 0 => fun w => (w, .diverge)
  | fuel + 1 => do
    let stepped ← match it.currentBlock with
      | some cb => do
        let (cb, ok) ← M.lift cb.advance
        pure ({ it with currentBlock := some cb }, ok)
      | none => pure (it, false)
    let (it, ok) := stepped
    if ok then pure (it, true)
    else
      let it := { it with currentBlock := none }
      let (it, r) ← skipToNextEntry it
      match r with
      | .ok true => advanceLoop it fuel
      | .ok false => pure (it.reset, false)
      | .error _ => advanceLoop it fuel

def advance (it : TableIter) : M (TableIter × Bool) :=
  advanceLoop it (2 * it.indexBlock.block.length + 4)

/-- `valid` -/
def valid (it : TableIter) : Bool :=
  match it.currentBlock with
  | some cb => cb.valid
  | none => false

/-- `current` -/
def current (it : TableIter) : M (Option (Bytes × Bytes)) :=
  match it.currentBlock with
  | some cb => M.lift cb.current
  | none => pure none

def currentKey (it : TableIter) : Option Bytes :=
  match it.currentBlock with
  | some cb => cb.currentKey
  | none => none

/-- `SSIterator::next` default method -/
def next (it : TableIter) : M (TableIter × Option (Bytes × Bytes)) := do
  let (it, ok) ← it.advance
  if !ok then pure (it, none)
  else
    let c ← it.current
    pure (it, c)

/-- `seek` (after fix D5) -/
def seek (it : TableIter) (to : Bytes) : M TableIter := do
  let ib ← M.lift (it.indexBlock.seek it.table.opt.cmp to)
  let it := { it with indexBlock := ib }
  match ← curKV it.indexBlock with
  | some (pastBlock, handle) =>
    if it.table.opt.cmp.cmp to pastBlock != .gt then
      match ← M.try' (loadBlock it handle) with
      | .ok it =>
        match it.currentBlock with
        | none => M.lift (.panic "seek: current_block unwrap")
        | some cb =>
          let cb ← M.lift (cb.seek it.table.opt.cmp to)
          let it := { it with currentBlock := some cb }
          if !cb.valid then
            let it := { it with currentBlock := none }
            let (it, _) ← it.advance
            pure it
          else pure it
      | .error _ => pure it.reset
    else pure it.reset
  | none => pure it.reset

/-- `prev` (after fix D6) -/
def prev (it : TableIter) : M (TableIter × Bool) := do
  let stepped ← match it.currentBlock with
    | some cb => do
      let (cb, ok) ← M.lift cb.prev
      pure ({ it with currentBlock := some cb }, ok)
    | none => pure (it, false)
  let (it, ok) := stepped
  if ok then pure (it, true)
  else
    let (ib, ok) ← M.lift it.indexBlock.prev
    let it := { it with indexBlock := ib }
    if ok then
      match ← curKV it.indexBlock with
      | some (_, handle) =>
        match ← M.try' (loadBlock it handle) with
        | .ok it =>
          match it.currentBlock with
          | none => M.lift (.panic "prev: current_block unwrap")
          | some cb =>
            let cb ← M.lift cb.seekToLast
            pure ({ it with currentBlock := some cb }, cb.valid)
        | .error _ => pure (it.reset, false)
      | none => pure (it, false)
    else pure (it.reset, false)

/-- `seek_to_first` default method -/
def seekToFirst (it : TableIter) : M TableIter := do
  let (it, _) ← it.reset.advance
  pure it

end TableIter
end Sst
