import SstModel.Lemmas.Bloom
import SstModel.Model.Custom
/-
  C09 — Bloom filters never reject a key that was added.

  For every set of keys, every bits-per-key setting, and every way the keys are spread over data blocks
  at arbitrary increasing file offsets, the filter consulted for a block's offset reports may-match for
  every key added to that block; also when the reading policy was created with a different
  bits-per-key than the writing one.
-/
namespace Sst

/-- C09, filter level: writer with `bw` bits per key, reader with `br` (the reader takes the number
    of probes from the filter's last byte, so its own setting is irrelevant). `FitsBits` = the bit
    count fits the 64 bits in which the crate computes it since fix D19 (array shorter than 2 EiB; it
    was `FitsU32`, 512 MiB, before). -/
theorem C09_bloom (bw br : Nat) (keys : List Bytes) (key : Bytes)
    (hfit : Bloom.FitsBits bw keys) (hmem : key ∈ keys) :
    (Bloom.policy br).keyMayMatch key ((Bloom.policy bw).createFilter keys) = true :=
  bloom_no_false_neg bw keys key hfit hmem

/-- C09, filter-block level, any policy without false negatives: whatever sequence of
    `add_key` / `start_block(offset)` calls the builder accepted (`fbRun … = ok`: in particular the
    offsets it was given were acceptable — several blocks per 2 KiB range, skipped ranges, exact
    multiples of 2048 are all allowed), a key added while the current block offset was `off` is
    reported as may-match by the reader at `off`. -/
theorem C09_filter_block (p : FilterPolicy)
    (hp : ∀ ks k, k ∈ ks → p.keyMayMatch k (p.createFilter ks) = true)
    (evs : List FbEvent) (b : FilterBlockBuilder) (h : fbRun p {} evs = .ok b)
    (hsize : (b.finish p).length < 2 ^ 32)
    (off : Nat) (k : Bytes) (hk : fbAdded off k 0 evs) :
    ∃ r, FilterBlockReader.new (b.finish p) = .ok r ∧ r.keyMayMatch p off k = .ok true :=
  filter_block_no_false_neg p hp evs b h hsize off k hk

/-- the same for a policy without false negatives on filters shorter than 4 GiB (all that can occur in
    a filter block of that size) -/
theorem C09_filter_block_bounded (p : FilterPolicy)
    (hp : ∀ ks k, k ∈ ks → (p.createFilter ks).length < 2 ^ 32 → p.keyMayMatch k (p.createFilter ks) = true)
    (evs : List FbEvent) (b : FilterBlockBuilder) (h : fbRun p {} evs = .ok b)
    (hsize : (b.finish p).length < 2 ^ 32)
    (off : Nat) (k : Bytes) (hk : fbAdded off k 0 evs) :
    ∃ r, FilterBlockReader.new (b.finish p) = .ok r ∧ r.keyMayMatch p off k = .ok true :=
  filter_block_no_false_neg_bounded p hp evs b h hsize off k hk

/-- C09 for the crate's bloom policy, writer `bw` / reader `br` bits per key: every filter block
    shorter than 4 GiB (the limit of the format's 32-bit offsets; it was 512 MiB before fix D19) -/
theorem C09_bloom_filter_block (bw br : Nat)
    (evs : List FbEvent) (b : FilterBlockBuilder) (h : fbRun (Bloom.policy bw) {} evs = .ok b)
    (hsize : (b.finish (Bloom.policy bw)).length < 2 ^ 32)
    (off : Nat) (k : Bytes) (hk : fbAdded off k 0 evs) :
    ∃ r, FilterBlockReader.new (b.finish (Bloom.policy bw)) = .ok r ∧
      r.keyMayMatch (Bloom.policy br) off k = .ok true :=
  bloom_filter_block_no_false_neg bw evs b h hsize off k hk

/-- the other policies the crate / the harness use have no false negatives either -/
theorem C09_nofilter (ks : List Bytes) (k : Bytes) :
    noFilterPolicy.keyMayMatch k (noFilterPolicy.createFilter ks) = true := rfl

theorem C09_firstbyte (ks : List Bytes) (k : Bytes) (h : k ∈ ks) :
    firstBytePolicy.keyMayMatch k (firstBytePolicy.createFilter ks) = true := by
  simp only [firstBytePolicy, List.contains_eq_mem, List.mem_map, decide_eq_true_eq]
  exact ⟨k, h, rfl⟩

/-- the builder accepts every non-decreasing offset sequence as long as the number of filters stays
    below 2^32 — so the hypothesis `fbRun … = ok` of the theorems above is satisfiable for all of them;
    concrete non-vacuity: a run with two blocks in one range, a skipped range and an exact multiple -/
example : ∃ b, fbRun noFilterPolicy {} [.key [1], .start 100, .key [2], .start 2048, .key [], .start 9000] = .ok b := by
  exact ⟨_, rfl⟩

end Sst
