import SstModel.Lemmas.TableTotal
/-
  C08 — the reader is total on arbitrary input.

  For EVERY byte string presented as a table (truncated, extended, with altered footer, handles,
  trailers or contents, shorter than a footer, not a table at all), every declared size, every
  reader option (ANY comparator: no order laws are assumed, ANY filter policy) and every behaviour
  of the underlying source (any fault schedule), opening, scanning, seeking and lookups terminate
  without panicking: in the model no operation returns `Res.panic` (a Rust panic) or `Res.diverge`
  (a loop running out of fuel). Unusable input is reported through an `err` result (`open`, `get`) or
  an invalid iterator (iterator calls never even return `err`).

  The only assumption on the world is `CacheValid`: every block in the shared block cache passed
  `Block::is_well_formed` when it was inserted (and is shorter than 2^64 bytes). It holds for the empty
  cache (`cacheValid_empty`) and every reader operation preserves it (second conjuncts below), so it
  holds in every world reachable from a fresh cache by reader operations on any tables whatsoever.
-/
namespace Sst

/-- the empty cache is valid -/
theorem cacheValid_empty (w : World) (h : w.cache.entries = []) : CacheValid w := by
  intro k c hm
  rw [h] at hm
  cases hm

/-- C08, open: for every file content (`w.files`), declared size, options and fault schedule
    (`w.sched`), `Table::new` returns a handle or an error; a returned handle satisfies `HandleOK`
    (validated index block, validated filter block if any) -/
theorem C08_open_total (opt : ROpts) (file size : Nat) (w : World) (hc : CacheValid w) :
    NoCrash (Table.new opt file size w).2 ∧ CacheValid (Table.new opt file size w).1
      ∧ (∀ tb, (Table.new opt file size w).2 = .ok tb → HandleOK tb) :=
  open_total opt file size w hc

/-- C08, point lookup on any opened table, in any later world (the file may have changed, any fault
    schedule): a value, `None`, or an error -/
theorem C08_get_total (opt : ROpts) (file size : Nat) (w : World) (hc : CacheValid w) (tb : Table)
    (hopen : (Table.new opt file size w).2 = .ok tb) (k : Bytes) (w1 : World) (hc1 : CacheValid w1) :
    NoCrash (tb.get k w1).2 ∧ CacheValid (tb.get k w1).1 :=
  get_total tb ((open_total opt file size w hc).2.2 tb hopen) k w1 hc1

/-- C08, approximate offset on any opened table, in any world whatsoever -/
theorem C08_approx_total (opt : ROpts) (file size : Nat) (w : World) (hc : CacheValid w) (tb : Table)
    (hopen : (Table.new opt file size w).2 = .ok tb) (k : Bytes) (w1 : World) :
    NoCrash (tb.approxOffsetOf k w1).2 :=
  approx_total tb ((open_total opt file size w hc).2.2 tb hopen) k w1

/-- C08, iterator: for every byte string, declared size, reader options, fault schedule and call
    history: if open succeeds, creating an iterator succeeds and every history of iterator calls
    (advance, next, prev, reset, seek_to_first, seek, valid, current, current_key) on it succeeds —
    no call crashes, hangs or even returns an error -/
theorem C08_session_total (opt : ROpts) (file size : Nat) (w : World) (hc : CacheValid w) (tb : Table)
    (hopen : (Table.new opt file size w).2 = .ok tb)
    (ops : List Spec.IterOp) (w1 : World) (hc1 : CacheValid w1) :
    ∃ it, TableIter.new tb w1 = (w1, .ok it) ∧ ∃ r, (it.run ops w1).2 = .ok r := by
  obtain ⟨it, hnew, hok⟩ := iter_new_total tb ((open_total opt file size w hc).2.2 tb hopen) w1
  obtain ⟨it', outs, hrun, _, _⟩ := iter_run_total it hok ops w1 hc1
  exact ⟨it, hnew, (it', outs), hrun⟩

/-- C08, one iterator call in the middle of any session: from any iterator state satisfying the
    invariant `IterOK` (which `Table::iter` establishes and every call preserves) and any world with
    a valid cache, the call returns `ok`, the invariant and the cache validity are kept -/
theorem C08_call_total (it : TableIter) (h : IterOK it) (op : Spec.IterOp) (w : World)
    (hc : CacheValid w) :
    ∃ it' out, (it.call op w).2 = .ok (it', out) ∧ IterOK it' ∧ CacheValid (it.call op w).1 :=
  iter_call_total it h op w hc

/-- the world after a whole call history still has a valid cache (so further tables / iterators sharing
    the cache stay covered) -/
theorem C08_session_cache (it : TableIter) (h : IterOK it) (ops : List Spec.IterOp) (w : World)
    (hc : CacheValid w) : CacheValid (it.run ops w).1 := by
  obtain ⟨_, _, _, _, h1⟩ := iter_run_total it h ops w hc
  exact h1

end Sst

#print axioms Sst.cacheValid_empty
#print axioms Sst.C08_open_total
#print axioms Sst.C08_get_total
#print axioms Sst.C08_approx_total
#print axioms Sst.C08_session_total
#print axioms Sst.C08_call_total
#print axioms Sst.C08_session_cache
