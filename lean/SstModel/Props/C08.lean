import SstModel.Lemmas.TableTotal
import SstModel.Lemmas.AllocBound
/-
  C08 — the reader is total on arbitrary input.

  For EVERY byte string presented as a table (truncated, extended, with altered footer, handles,
  trailers or contents, shorter than a footer, not a table at all), every declared size, every
  reader option (ANY comparator: no order laws are assumed, ANY filter policy) and every behaviour
  of the underlying source (any fault schedule), opening, scanning, seeking and lookups terminate
  without panicking: in the model no operation returns `Res.panic` (a Rust panic) or `Res.diverge`
  (a loop running out of fuel). Unusable input is reported through an `err` result (`open`, `get`) or
  an invalid iterator (iterator calls never even return `err`).

  The only assumption on the world is `CacheValid`: every block in the shared block cache passed
  `Block::is_well_formed` when it was inserted (and is shorter than 2^64 bytes). It holds for the empty
  cache (`cacheValid_empty`) and every reader operation preserves it (second conjuncts below), so it
  holds in every world reachable from a fresh cache by reader operations on any tables whatsoever.
-/
namespace Sst

/-- the empty cache is valid -/
theorem cacheValid_empty (w : World) (h : w.cache.entries = []) : CacheValid w := by
  intro k c hm
  rw [h] at hm
  cases hm

/-- C08, open: for every file content (`w.files`), declared size, options and fault schedule
    (`w.sched`), `Table::new` returns a handle or an error; a returned handle satisfies `HandleOK`
    (validated index block, validated filter block if any) -/
theorem C08_open_total (opt : ROpts) (file size : Nat) (w : World) (hc : CacheValid w) :
    NoCrash (Table.new opt file size w).2 ∧ CacheValid (Table.new opt file size w).1
      ∧ (∀ tb, (Table.new opt file size w).2 = .ok tb → HandleOK tb) :=
  open_total opt file size w hc

/-- C08, point lookup on any opened table, in any later world (the file may have changed, any fault
    schedule): a value, `None`, or an error -/
theorem C08_get_total (opt : ROpts) (file size : Nat) (w : World) (hc : CacheValid w) (tb : Table)
    (hopen : (Table.new opt file size w).2 = .ok tb) (k : Bytes) (w1 : World) (hc1 : CacheValid w1) :
    NoCrash (tb.get k w1).2 ∧ CacheValid (tb.get k w1).1 :=
  get_total tb ((open_total opt file size w hc).2.2 tb hopen) k w1 hc1

/-- C08, approximate offset on any opened table, in any world whatsoever -/
theorem C08_approx_total (opt : ROpts) (file size : Nat) (w : World) (hc : CacheValid w) (tb : Table)
    (hopen : (Table.new opt file size w).2 = .ok tb) (k : Bytes) (w1 : World) :
    NoCrash (tb.approxOffsetOf k w1).2 :=
  approx_total tb ((open_total opt file size w hc).2.2 tb hopen) k w1

/-- C08, iterator: for every byte string, declared size, reader options, fault schedule and call
    history: if open succeeds, creating an iterator succeeds and every history of iterator calls
    (advance, next, prev, reset, seek_to_first, seek, valid, current, current_key) on it succeeds —
    no call crashes, hangs or even returns an error -/
theorem C08_session_total (opt : ROpts) (file size : Nat) (w : World) (hc : CacheValid w) (tb : Table)
    (hopen : (Table.new opt file size w).2 = .ok tb)
    (ops : List Spec.IterOp) (w1 : World) (hc1 : CacheValid w1) :
    ∃ it, TableIter.new tb w1 = (w1, .ok it) ∧ ∃ r, (it.run ops w1).2 = .ok r := by
  obtain ⟨it, hnew, hok⟩ := iter_new_total tb ((open_total opt file size w hc).2.2 tb hopen) w1
  obtain ⟨it', outs, hrun, _, _⟩ := iter_run_total it hok ops w1 hc1
  exact ⟨it, hnew, (it', outs), hrun⟩

/-- C08, one iterator call in the middle of any session: from any iterator state satisfying the
    invariant `IterOK` (which `Table::iter` establishes and every call preserves) and any world with
    a valid cache, the call returns `ok`, the invariant and the cache validity are kept -/
theorem C08_call_total (it : TableIter) (h : IterOK it) (op : Spec.IterOp) (w : World)
    (hc : CacheValid w) :
    ∃ it' out, (it.call op w).2 = .ok (it', out) ∧ IterOK it' ∧ CacheValid (it.call op w).1 :=
  iter_call_total it h op w hc

/-- the world after a whole call history still has a valid cache (so further tables / iterators sharing
    the cache stay covered) -/
theorem C08_session_cache (it : TableIter) (h : IterOK it) (ops : List Spec.IterOp) (w : World)
    (hc : CacheValid w) : CacheValid (it.run ops w).1 := by
  obtain ⟨_, _, _, _, h1⟩ := iter_run_total it h ops w hc
  exact h1

/-! ### "… or allocating without bound" (after fix D20)

  `World.allocs` logs the size of every buffer the reader allocates: the `read_bytes` buffers, the footer
  buffer, and the buffer `Decoder::decompress_vec` allocates up front for the length DECLARED by a
  snappy block. The theorems below bound every logged size by a multiple of the declared file size, for
  ANY file bytes, fault schedule, cache contents and outcome (`ok`, `err`, anything). -/

/-- the guard of fix D20 is invisible in results: the guarded decompression returns `ok d` exactly when
    the unguarded decoder (`decompress_vec`) returns `d`, and `CompressionError` otherwise — the guard only
    turns decodes that fail anyway into the same error earlier, before the allocation -/
theorem C08_decompress_guard_invisible (data : Bytes) (w : World) :
    (∀ d, (decompressGuarded data w).2 = .ok d ↔ Snappy.decode data = some d)
      ∧ (Snappy.decode data = none ↔ (decompressGuarded data w).2 = .err .compressionError)
      ∧ (decompressGuarded data w).2 =
          (match Snappy.decode data with
           | some d => .ok d
           | none => .err .compressionError) := by
  have h := decompressGuarded_result data w
  refine ⟨?_, ?_, h⟩
  · intro d
    rw [h]
    cases hd : Snappy.decode data with
    | some d' => simp
    | none => simp
  · rw [h]
    cases hd : Snappy.decode data with
    | some d' => simp
    | none => simp

/-- … hence `read_block_contents` returns what it returned before the fix (`verifyBlock` uses the
    unguarded decoder), under any schedule -/
theorem C08_guard_invisible_read (file : Nat) (loc : BlockHandle) (w : World) :
    (readBlockContents file loc w).2 =
      (match (readBytes file ⟨loc.offset, loc.size + Consts.tableBlockCksumLen + Consts.tableBlockCompressLen⟩ w).2 with
       | .ok buf => verifyBlock buf loc.size
       | .err c => .err c
       | .panic s => .panic s
       | .diverge => .diverge) := by
  rw [readBlockContents_eq]
  rcases readBytes file ⟨loc.offset, loc.size + Consts.tableBlockCksumLen + Consts.tableBlockCompressLen⟩ w
    with ⟨w', r⟩
  cases r <;> rfl

/-- streams the decoder accepts declare at most 32 × their own length (in fact 22 ×), so the guard
    never fires on them -/
theorem C08_valid_streams_pass_guard (data d : Bytes) (h : Snappy.decode data = some d) :
    Snappy.declaredLen data = some d.length ∧ d.length ≤ 22 * data.length
      ∧ d.length ≤ Consts.snappyMaxExpansion * data.length := by
  refine ⟨Snappy.decode_declared h, Snappy.decode_length_le h, ?_⟩
  obtain ⟨n, hn, hle⟩ := Snappy.decode_passes_guard h
  rw [Snappy.decode_declared h] at hn
  cases hn
  exact hle

/-- the witness of D20: five bytes declaring 2^32-1 bytes. Before the fix `decompress_vec` allocated
    4 GiB for them and then failed; now they are rejected with the same error and NO allocation (the
    world is unchanged) -/
theorem C08_length_bomb_rejected (w : World) :
    Snappy.declaredLen [0xff, 0xff, 0xff, 0xff, 0x0f] = some 4294967295
      ∧ Snappy.decode [0xff, 0xff, 0xff, 0xff, 0x0f] = none
      ∧ decompressGuarded [0xff, 0xff, 0xff, 0xff, 0x0f] w = (w, .err .compressionError) := by
  have h1 : Snappy.declaredLen [0xff, 0xff, 0xff, 0xff, 0x0f] = some 4294967295 := by decide
  refine ⟨h1, by decide, ?_⟩
  unfold decompressGuarded
  rw [h1]
  rfl

/-- `Table::read_block` (any handle, any world, any table handle): every allocation it adds is at most
    33 × the declared file size — the read buffer is within the file (`check_block_bounds`), the
    decompression buffer at most `SNAPPY_MAX_EXPANSION` × the block's stored size -/
theorem C08_allocs_bounded_read_block (tb : Table) (loc : BlockHandle) (w : World) :
    ∀ a ∈ (tb.readBlock loc w).1.allocs, a ∈ w.allocs ∨ a ≤ 33 * tb.fileSize :=
  (AB.alloc_readBlock (B := 33 * tb.fileSize) tb loc (Nat.le_refl _) w).1

/-- `read_table_block` / `table_block::read_filter_block` on a handle that passed `check_block_bounds` -/
theorem C08_allocs_bounded_read_table_block (file : Nat) (loc : BlockHandle) (fileSize : Nat) (w : World)
    (hb : loc.size + Consts.tableBlockCompressLen + Consts.tableBlockCksumLen ≤ fileSize) :
    (∀ a ∈ (readTableBlock file loc w).1.allocs, a ∈ w.allocs ∨ a ≤ 33 * fileSize)
      ∧ (∀ a ∈ (Sst.readFilterBlock file loc w).1.allocs, a ∈ w.allocs ∨ a ≤ 33 * fileSize) :=
  ⟨(AB.alloc_readTableBlock (B := 33 * fileSize) file loc hb (Nat.le_refl _) w).1,
   (AB.alloc_readFilterBlock (B := 33 * fileSize) file loc hb (Nat.le_refl _) w).1⟩

/-- `Table::read_filter_block` (metaindex lookup, bounds check, filter block read) -/
theorem C08_allocs_bounded_read_filter_block (metaix : Bytes) (file fileSize : Nat) (opt : ROpts)
    (w : World) :
    ∀ a ∈ (Table.readFilterBlock metaix file fileSize opt w).1.allocs,
      a ∈ w.allocs ∨ a ≤ 33 * fileSize :=
  (AB.alloc_tableReadFilterBlock (B := 33 * fileSize) metaix file fileSize opt (Nat.le_refl _) w).1

/-- `Table::new` for ANY file bytes, declared size, options and fault schedule, whatever the outcome:
    every allocation is at most 33 × the declared size + the 48-byte footer buffer -/
theorem C08_allocs_bounded_open (opt : ROpts) (file size : Nat) (w : World) :
    ∀ a ∈ (Table.new opt file size w).1.allocs, a ∈ w.allocs ∨ a ≤ 33 * size + 48 :=
  (AB.alloc_new (B := 33 * size + 48) opt file size (Nat.le_add_left _ _) (Nat.le_add_right _ _) w).1

/-- the handle `Table::new` returns records the declared size -/
theorem C08_open_fileSize (opt : ROpts) (file size : Nat) (w : World) (tb : Table)
    (hopen : (Table.new opt file size w).2 = .ok tb) : tb.fileSize = size :=
  (AB.alloc_new (B := 33 * size + 48) opt file size (Nat.le_add_left _ _) (Nat.le_add_right _ _) w).2 tb hopen

/-- lookups on any table handle in any world -/
theorem C08_allocs_bounded_get (tb : Table) (k : Bytes) (w : World) :
    (∀ a ∈ (tb.get k w).1.allocs, a ∈ w.allocs ∨ a ≤ 33 * tb.fileSize)
      ∧ (∀ a ∈ (tb.approxOffsetOf k w).1.allocs, a ∈ w.allocs ∨ a ≤ 33 * tb.fileSize) :=
  ⟨(AB.alloc_get (B := 33 * tb.fileSize) tb k (Nat.le_refl _) w).1,
   (AB.alloc_approx (B := 33 * tb.fileSize) tb k w).1⟩

/-- one iterator call from ANY iterator state in any world: bounded allocations, and the iterator stays
    on its table (so the bound carries over to the next call) -/
theorem C08_allocs_bounded_call (it : TableIter) (op : Spec.IterOp) (w : World) :
    (∀ a ∈ (it.call op w).1.allocs, a ∈ w.allocs ∨ a ≤ 33 * it.table.fileSize)
      ∧ (∀ r, (it.call op w).2 = .ok r → r.1.table = it.table) :=
  AB.alloc_call (B := 33 * it.table.fileSize) it op (Nat.le_refl _) w

/-- every finite history of iterator calls from ANY iterator state -/
theorem C08_allocs_bounded_run (it : TableIter) (ops : List Spec.IterOp) (w : World) :
    (∀ a ∈ (it.run ops w).1.allocs, a ∈ w.allocs ∨ a ≤ 33 * it.table.fileSize)
      ∧ (∀ r, (it.run ops w).2 = .ok r → r.1.table = it.table) :=
  AB.alloc_run (B := 33 * it.table.fileSize) ops it (Nat.le_refl _) w

/-- C08, allocations of a whole session: for every byte string, declared size, options and fault
    schedule, on any handle `Table::new` returned, in ANY later worlds (`w1`, `w2`, `w3`, `w4`: the file
    may have changed, any fault schedule, any cache): lookups, creating an iterator and every finite
    history of iterator calls allocate at most 33 × the declared size per buffer -/
theorem C08_allocs_bounded_session (opt : ROpts) (file size : Nat) (w : World) (tb : Table)
    (hopen : (Table.new opt file size w).2 = .ok tb) (k : Bytes) (ops : List Spec.IterOp)
    (w1 w2 w3 w4 : World) :
    (∀ a ∈ (tb.get k w1).1.allocs, a ∈ w1.allocs ∨ a ≤ 33 * size)
      ∧ (∀ a ∈ (tb.approxOffsetOf k w2).1.allocs, a ∈ w2.allocs ∨ a ≤ 33 * size)
      ∧ (∀ a ∈ (TableIter.new tb w3).1.allocs, a ∈ w3.allocs ∨ a ≤ 33 * size)
      ∧ (∀ it, (TableIter.new tb w3).2 = .ok it →
          ∀ a ∈ (it.run ops w4).1.allocs, a ∈ w4.allocs ∨ a ≤ 33 * size) := by
  have hsz := C08_open_fileSize opt file size w tb hopen
  have hg := C08_allocs_bounded_get tb k
  rw [hsz] at hg
  refine ⟨(hg w1).1, (hg w2).2, ?_, ?_⟩
  · exact (AB.alloc_iterNew (B := 33 * size) tb w3).1
  · intro it hit
    have ht : it.table = tb := (AB.alloc_iterNew (B := 33 * size) tb w3).2 it hit
    have := (C08_allocs_bounded_run it ops w4).1
    rw [ht, hsz] at this
    exact this

/-- the same as an invariant: if every buffer logged so far is within `33 * size + 48`, it stays so
    through open, lookups and iterator histories -/
theorem C08_allocs_invariant (opt : ROpts) (file size : Nat) (w : World)
    (hw : ∀ a ∈ w.allocs, a ≤ 33 * size + 48) :
    (∀ a ∈ (Table.new opt file size w).1.allocs, a ≤ 33 * size + 48)
      ∧ ∀ tb, (Table.new opt file size w).2 = .ok tb → ∀ (w1 : World),
          (∀ a ∈ w1.allocs, a ≤ 33 * size + 48) →
          (∀ k, ∀ a ∈ (tb.get k w1).1.allocs, a ≤ 33 * size + 48)
            ∧ (∀ (it : TableIter), it.table = tb → ∀ (ops : List Spec.IterOp),
                ∀ a ∈ (it.run ops w1).1.allocs, a ≤ 33 * size + 48) := by
  refine ⟨?_, ?_⟩
  · intro a ha
    rcases C08_allocs_bounded_open opt file size w a ha with h | h
    · exact hw a h
    · exact h
  · intro tb hopen w1 hw1
    have hsz := C08_open_fileSize opt file size w tb hopen
    refine ⟨?_, ?_⟩
    · intro k a ha
      rcases (C08_allocs_bounded_get tb k w1).1 a ha with h | h
      · exact hw1 a h
      · rw [hsz] at h; omega
    · intro it ht ops a ha
      rcases (C08_allocs_bounded_run it ops w1).1 a ha with h | h
      · exact hw1 a h
      · rw [ht, hsz] at h; omega

end Sst

#print axioms Sst.cacheValid_empty
#print axioms Sst.C08_open_total
#print axioms Sst.C08_get_total
#print axioms Sst.C08_approx_total
#print axioms Sst.C08_session_total
#print axioms Sst.C08_call_total
#print axioms Sst.C08_session_cache
#print axioms Sst.C08_decompress_guard_invisible
#print axioms Sst.C08_guard_invisible_read
#print axioms Sst.C08_valid_streams_pass_guard
#print axioms Sst.C08_length_bomb_rejected
#print axioms Sst.C08_allocs_bounded_read_block
#print axioms Sst.C08_allocs_bounded_read_table_block
#print axioms Sst.C08_allocs_bounded_read_filter_block
#print axioms Sst.C08_allocs_bounded_open
#print axioms Sst.C08_open_fileSize
#print axioms Sst.C08_allocs_bounded_get
#print axioms Sst.C08_allocs_bounded_call
#print axioms Sst.C08_allocs_bounded_run
#print axioms Sst.C08_allocs_bounded_session
#print axioms Sst.C08_allocs_invariant
