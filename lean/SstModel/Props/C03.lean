import SstModel.Lemmas.BuiltRead
/-
  C03 — Seek positions the iterator at the least entry not below the target.

  "For every table and every target byte string t, after seeking to t the iterator is valid exactly
  when the table has an entry whose key is not smaller than t, and then its current entry is the
  smallest such entry, including when that entry is the first one of a later block. Targets below the
  first key land on the first entry; targets above the last key leave the iterator invalid."
  Quantifier: "… x any prior iterator state".

  `Spec.lowerBound cmp es t` is the index of the first entry of `es` whose key is not below `t`
  (`none` if all keys are below), `Spec.entryAt` the entry at a position.  The theorem is about the
  table built from `es` (quantification and side conditions as in C01.lean) and an iterator in the
  state reached by an ARBITRARY prior call history `ops` from a new iterator: `seek t` returns, then
  `current` returns the entry at `lowerBound es t` and `valid` whether there is one.
-/
namespace Sst
open Spec

/-- C03: seek from any prior iterator state (the state after any call history `ops`) -/
theorem C03_seek (opt : WOpts) (hok : WOptsOK opt) (rp : FilterPolicy)
    (hrp : ReaderPolicyOK opt.filter rp)
    (sched : List SinkResp) (es : List (Bytes × Bytes)) (t0 : TableBuilder) (n : Nat)
    (hb : TableBuilder.build opt { sched := sched } es = (t0, .ok n)) (hn : n < 2 ^ 32)
    (hsz : opt.compression = 1 → sizeBound opt es < 2 ^ 32)
    (w : World) (file : Nat) (hcw : CleanWorld w file t0.sink.received) (hempty : w.cache.entries = []) :
    ∃ w1 tb it, Table.new ⟨opt.cmp, rp⟩ file n w = (w1, .ok tb) ∧ TableIter.new tb w1 = (w1, .ok it)
      ∧ ∀ (ops : List IterOp) (target : Bytes), ∃ wa ita outs w2 it2,
          -- the prior history succeeds with some outputs …
          it.run ops w1 = (wa, .ok (ita, outs))
          -- … and continuing with seek / current / valid yields the lower bound of the target
          ∧ it.run (ops ++ [.seek target, .current, .valid]) w1
              = (w2, .ok (it2, outs ++ [.unit, .entry (entryAt es (lowerBound opt.cmp es target)),
                                         .flag (lowerBound opt.cmp es target).isSome])) :=
  built_seek_any_history opt hok rp hrp sched es t0 n hb hn hsz w file hcw hempty

/-- C03 on a new iterator (the special case `ops = []`) -/
theorem C03_seek_new (opt : WOpts) (hok : WOptsOK opt) (rp : FilterPolicy)
    (hrp : ReaderPolicyOK opt.filter rp)
    (sched : List SinkResp) (es : List (Bytes × Bytes)) (t0 : TableBuilder) (n : Nat)
    (hb : TableBuilder.build opt { sched := sched } es = (t0, .ok n)) (hn : n < 2 ^ 32)
    (hsz : opt.compression = 1 → sizeBound opt es < 2 ^ 32)
    (w : World) (file : Nat) (hcw : CleanWorld w file t0.sink.received) (hempty : w.cache.entries = []) :
    ∃ w1 tb it, Table.new ⟨opt.cmp, rp⟩ file n w = (w1, .ok tb) ∧ TableIter.new tb w1 = (w1, .ok it)
      ∧ ∀ target, ∃ w2 it2, it.run [.seek target, .current, .valid] w1
            = (w2, .ok (it2, [.unit, .entry (entryAt es (lowerBound opt.cmp es target)),
                              .flag (lowerBound opt.cmp es target).isSome])) := by
  obtain ⟨_, _, w1, tb, it, hnew, hit, _, _, hseek, _⟩ :=
    built_table_reads_back opt hok rp hrp sched es t0 n hb hn hsz w file hcw hempty
  exact ⟨w1, tb, it, hnew, hit, hseek⟩

/-- the right-hand side is the property's wording: `lowerBound = some i` iff entry `i` is the first
    whose key is not below the target; `none` iff every key is below it -/
theorem C03_lowerBound_spec (cmp : Cmp) (es : List Entry) (t : Bytes) :
    (∀ i, lowerBound cmp es t = some i ↔
        ∃ h : i < es.length, (∀ j (hj : j < i), cmp.cmp (es[j]'(by omega)).1 t = .lt) ∧ cmp.cmp es[i].1 t ≠ .lt)
    ∧ (lowerBound cmp es t = none ↔ ∀ e ∈ es, cmp.cmp e.1 t = .lt) :=
  ⟨fun i => TwoLevel.lowerBound_eq_some_iff cmp es t i, TwoLevel.lowerBound_eq_none_iff cmp es t⟩

-- below the first key: the first entry; between keys: the next one; equal: that one; above: invalid
example : lowerBound defaultCmp [([1], []), ([3], []), ([5], [])] [0] = some 0 := by decide
example : lowerBound defaultCmp [([1], []), ([3], []), ([5], [])] [3, 0] = some 2 := by decide
example : lowerBound defaultCmp [([1], []), ([3], []), ([5], [])] [3] = some 1 := by decide
example : lowerBound defaultCmp [([1], []), ([3], []), ([5], [])] [5, 0] = none := by decide

end Sst

#print axioms Sst.C03_seek
#print axioms Sst.C03_seek_new
#print axioms Sst.C03_lowerBound_spec
