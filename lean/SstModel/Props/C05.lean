import SstModel.Lemmas.SpecConform
/-
  C05 — What the writer writes is a LevelDB table.

  For every input and every writer configuration: whenever a build reports success (whatever the sink
  did in between), the bytes the sink received are accepted by the INDEPENDENT decoder written from the
  format specification (`Spec.Format.decodeTable`), decoding yields exactly the entries added, no data
  block is empty, index keys bracket their blocks, the metaindex names the filter block, the filter
  block is readable, every key passes the independently computed bloom filter of its block, and the
  data blocks lie in the file in order without overlap -- i.e. the executable conformance judge
  `Judge.c05`, which the harness runs on every file the real crate produces, answers "ok" on every
  file the model writer produces.

  Hypotheses (all from `build_any_sink_wf`): lawful configuration `WOptsOK`, reported size below 4 GiB,
  and (when compressing) the a-priori bound `sizeBound` on uncompressed block sizes.
  No further size proviso for the bloom clause: since fix D19 the crate (hence the model) computes the
  number of filter bits `(len-1)*8` in 64 bits, like LevelDB's `size_t`, so the model's and the Spec's
  bloom tests agree on every filter below 2^61 bytes (`specBloomMayMatch_eq`), in particular on every
  filter of a file below 4 GiB.  (Before the fix the bit count was a `u32`, wrapped for filters longer
  than 512 MiB, and this theorem needed `n ≤ 2^29` when `isBloom`.)
-/
namespace Sst

/-- C05 on the model: whatever the sink does, a successfully finished build produced an image that the
    independent decoder accepts and that satisfies every clause of the conformance judge -/
theorem C05_conforms (opt : WOpts) (hok : WOptsOK opt) (sched : List SinkResp) (es : List (Bytes × Bytes))
    (t0 : TableBuilder) (n : Nat) (hb : TableBuilder.build opt { sched := sched } es = (t0, .ok n))
    (hn : n < 2 ^ 32) (hsz : opt.compression = 1 → sizeBound opt es < 2 ^ 32)
    (isBloom : Bool) (hbloom : isBloom = true → ∃ b, opt.filter = Bloom.policy b) :
    Judge.c05 opt.cmp t0.sink.received es opt.filter.name isBloom = "ok" := by
  obtain ⟨hlen, t, himg, hwf, hent, ⟨fh, hmeta⟩, ⟨fb, hview, hsound⟩, hord, _, _, hx⟩ :=
    build_any_sink_wf opt hok sched es t0 n hb hn hsz
  have := SC.c05_of_wf opt.cmp t hwf hx (by rw [himg, ← hlen]; omega) opt.filter fh hmeta fb hview hsound
    hord isBloom (fun hB => ⟨hbloom hB, by rw [himg, ← hlen]; exact hn⟩)
  rw [himg, hent] at this
  exact this

/-- C05 for the crate's DEFAULT configuration (bytewise comparator, no compression, bloom filter with any
    bits per key -- 10 by default), bloom clause of the judge switched on: no hypothesis on the
    configuration is left -/
theorem C05_conforms_bloom (blockSize ri : Nat) (hri : 1 ≤ ri) (b : Nat) (compress : Bytes → Bytes)
    (sched : List SinkResp) (es : List (Bytes × Bytes)) (t0 : TableBuilder) (n : Nat)
    (hb : TableBuilder.build { cmp := defaultCmp, blockSize, restartInterval := ri, compression := 0,
                               filter := Bloom.policy b, compress } { sched := sched } es = (t0, .ok n))
    (hn : n < 2 ^ 32) :
    Judge.c05 defaultCmp t0.sink.received es (Bloom.policy b).name true = "ok" :=
  C05_conforms _ (wOptsOK_bloom blockSize ri hri b compress) sched es t0 n hb hn (fun h => by cases h)
    true (fun _ => ⟨b, rfl⟩)

/-- in particular the independent decoder decodes exactly the entries added -/
theorem C05_decodes (opt : WOpts) (hok : WOptsOK opt) (sched : List SinkResp) (es : List (Bytes × Bytes))
    (t0 : TableBuilder) (n : Nat) (hb : TableBuilder.build opt { sched := sched } es = (t0, .ok n))
    (hn : n < 2 ^ 32) (hsz : opt.compression = 1 → sizeBound opt es < 2 ^ 32) :
    ∃ d, Spec.Format.decodeTable t0.sink.received = some d ∧ d.entries = es := by
  obtain ⟨hlen, t, himg, hwf, hent, _, _, _, _, _, hx⟩ :=
    build_any_sink_wf opt hok sched es t0 n hb hn hsz
  refine ⟨SC.decoded t, ?_, ?_⟩
  · rw [← himg]
    exact SC.decodeTable_of_wf opt.cmp t hwf hx (by rw [himg, ← hlen]; omega)
  · rw [SC.decoded_entries, hent]

end Sst

#print axioms Sst.C05_conforms
#print axioms Sst.C05_conforms_bloom
#print axioms Sst.C05_decodes
