import SstModel.Lemmas.OpenFooter
/-
  C15 — A partially written table file is never accepted as a table.

  Any strict prefix of a table image, opened with the prefix length as its size, makes `Table::new`
  fail with an error: it neither succeeds nor panics.  The only way a prefix could look like a table is
  that its own last 8 bytes are the magic number (`NoInnerMagic` excludes that shape; finding F1).
-/
namespace Sst

/-- a file whose last 8 bytes are not the magic number (or that is shorter than a footer) is rejected
    with an error by `Table::new`, whatever the read-fault schedule -/
theorem open_rejects_without_magic (opt : ROpts) (file size : Nat) (w : World) (content : Bytes)
    (hf : w.files.getD file [] = content) (hsz : size = content.length)
    (hbad : size < 48 ∨ content.drop (size - 8) ≠ Consts.magicFooterEncoded) :
    ∃ c, (Table.new opt file size w).2 = .err c :=
  let ⟨c, h, _⟩ := Table.new_rejects opt file size w content hf hsz hbad
  ⟨c, h⟩

/-- no strict prefix of `img` of length ≥ 48 ends with the magic number (true of every table whose
    keys/values do not embed a magic number at such a position; see finding F1 for the excluded shape) -/
def NoInnerMagic (img : Bytes) : Prop :=
  ∀ n, 48 ≤ n → n < img.length → (img.take n).drop (n - 8) ≠ Consts.magicFooterEncoded

/-- C15 -/
theorem C15_prefix_rejected (opt : ROpts) (img : Bytes) (n : Nat) (hn : n < img.length)
    (hm : NoInnerMagic img) (w : World) (file : Nat) (hf : w.files.getD file [] = img.take n) :
    ∃ c, (Table.new opt file n w).2 = .err c := by
  apply open_rejects_without_magic opt file n w (img.take n) hf
  · rw [List.length_take]; omega
  · by_cases h : n < 48
    · exact Or.inl h
    · exact Or.inr (hm n (by omega) hn)

/-- with a fault-free source the error is `Corruption` -/
theorem C15_prefix_rejected_corruption (opt : ROpts) (img : Bytes) (n : Nat) (hn : n < img.length)
    (hm : NoInnerMagic img) (w : World) (file : Nat) (hf : w.files.getD file [] = img.take n)
    (hs : w.sched = []) :
    (Table.new opt file n w).2 = .err .corruption := by
  have hsz : n = (img.take n).length := by rw [List.length_take]; omega
  have hbad : n < 48 ∨ (img.take n).drop (n - 8) ≠ Consts.magicFooterEncoded := by
    by_cases h : n < 48
    · exact Or.inl h
    · exact Or.inr (hm n (by omega) hn)
  obtain ⟨c, h, hc⟩ := Table.new_rejects opt file n w (img.take n) hf hsz hbad
  rw [h, hc hs]

/-! ### non-vacuity checks -/

example : NoInnerMagic [] := by intro n _ h2; simp at h2

/-- an all-zero image of any length has no inner magic -/
example (m : Nat) : NoInnerMagic (List.replicate m 0) := by
  intro n h1 h2 heq
  rw [List.length_replicate] at h2
  have h7 := congrArg (fun l => l[7]?) heq
  simp only [List.getElem?_drop, List.getElem?_take, List.getElem?_replicate] at h7
  rw [if_pos (by omega), if_pos (by omega)] at h7
  revert h7
  simp [Consts.magicFooterEncoded]

/-- the hypothesis is not trivially true: an image that embeds the magic at bytes 40..48 violates it -/
example : ¬ NoInnerMagic (List.replicate 40 0 ++ Consts.magicFooterEncoded ++ [0]) := by
  intro h
  exact h 48 (by decide) (by decide) (by decide)

/-- a concrete instance: the 59-byte prefix of a 60-byte zero image is rejected with `Corruption` -/
example (opt : ROpts) (c : LruCache Bytes) :
    (Table.new opt 0 59 { files := [List.replicate 59 0], cache := c }).2 = .err .corruption := by
  apply C15_prefix_rejected_corruption opt (List.replicate 60 0) 59 (by decide) _ _ 0 (by simp) rfl
  intro n h1 h2 heq
  rw [List.length_replicate] at h2
  have h7 := congrArg (fun l => l[7]?) heq
  simp only [List.getElem?_drop, List.getElem?_take, List.getElem?_replicate] at h7
  rw [if_pos (by omega), if_pos (by omega)] at h7
  revert h7
  simp [Consts.magicFooterEncoded]

end Sst

#print axioms Sst.open_rejects_without_magic
#print axioms Sst.C15_prefix_rejected
#print axioms Sst.C15_prefix_rejected_corruption
