import SstModel.Lemmas.BuiltRead
/-
  C19 — Approximate offsets are monotone, in range, and point at the containing block.

  "For every table, the approximate offset of a key is non-decreasing in the key, always lies within
  the file, equals the start offset of the data block that holds the key for every stored key, and for
  keys greater than every stored key is not smaller than the end of the last data block."

  The theorems are about the table built from `es` (any `WOptsOK` writer, any compatible reader policy,
  any sink schedule, any cache capacity; side conditions as in C01.lean).  `C19_approx` provides
  * the table image `t : TableImg` (TableSpec.lean) of the bytes the sink received: `t.WF opt.cmp`
    ties `t.blocks` (data blocks with their handles `offset`/`size`, index keys `sep` and key lists
    `keys`) to the bytes of the image, and `t.entries = es`;
  * the opened handle `tb` and a function `approx` with `tb.approxOffsetOf k = approx k` for EVERY key
    `k`, the world being left untouched by the call;
  and the four clauses about `approx`.  `C19_stored_key`, `C19_in_range`, `C19_monotone` and
  `C19_past_last_partial` are the clauses one by one.

  FINDING F4 (format-inherent): the last clause as worded — "for keys greater than every stored key" —
  is FALSE for the keys in (last stored key, last index key]: the index key of the last block is
  `sep last (succ last)` (for the bytewise comparator: the shortest successor of the last key), and a
  key `k` with `last < k ≤ that index key` is mapped to the START of the last data block.  The clause
  is therefore proved for keys above the last INDEX key (`∀ s ∈ t.seps, cmp s k = .lt`); then the
  approximate offset is the metaindex block's offset, which is not smaller than the end
  (`offset + size + 5`, 5 = type byte + checksum) of every data block.
-/
namespace Sst
open Spec

/-- C19, all clauses about one `approx` function -/
theorem C19_approx (opt : WOpts) (hok : WOptsOK opt) (rp : FilterPolicy)
    (hrp : ReaderPolicyOK opt.filter rp)
    (sched : List SinkResp) (es : List (Bytes × Bytes)) (t0 : TableBuilder) (n : Nat)
    (hb : TableBuilder.build opt { sched := sched } es = (t0, .ok n)) (hn : n < 2 ^ 32)
    (hsz : opt.compression = 1 → sizeBound opt es < 2 ^ 32)
    (w : World) (file : Nat) (hcw : CleanWorld w file t0.sink.received) (hempty : w.cache.entries = []) :
    ∃ (t : TableImg) (w1 : World) (tb : Table) (approx : Bytes → Nat),
      t.img = t0.sink.received ∧ t.WF opt.cmp ∧ t.entries = es
      ∧ Table.new ⟨opt.cmp, rp⟩ file n w = (w1, .ok tb)
      ∧ (∀ k, tb.approxOffsetOf k w1 = (w1, .ok (approx k)))
      -- (a) a stored key: the start of the data block holding it (and every entry is in a block)
      ∧ (∀ d ∈ t.blocks, ∀ k ∈ d.keys, approx k = d.handle.offset)
      ∧ (∀ e ∈ es, ∃ d ∈ t.blocks, e.1 ∈ d.keys ∧ approx e.1 = d.handle.offset)
      -- (b) within the file
      ∧ (∀ k, approx k ≤ n)
      -- (c) non-decreasing in the key
      ∧ (∀ k1 k2, opt.cmp.cmp k1 k2 ≠ .gt → approx k1 ≤ approx k2)
      -- (d) above the last index key: the metaindex offset, at or after the end of every data block
      ∧ (∀ k, (∀ s ∈ t.seps, opt.cmp.cmp s k = .lt) →
            approx k = t.metaHandle.offset
            ∧ ∀ d ∈ t.blocks, d.handle.offset + d.handle.size + 5 ≤ approx k) := by
  obtain ⟨t, w1, tb, himg, hlen, twf, hent, hord, hbefore, hnew, happrox⟩ :=
    built_approx opt hok rp hrp sched es t0 n hb hn hsz w file hcw hempty
  have hc := hok.lawful
  have ha := BR.approxOf_stored opt.cmp hc t twf
  refine ⟨t, w1, tb, BR.approxOf opt.cmp t, himg, twf, hent, hnew, happrox, ha, ?_, ?_, ?_, ?_⟩
  · intro e he
    rw [← hent] at he
    obtain ⟨d, hd, hk⟩ := TableImg.mem_entries he
    exact ⟨d, hd, hk, ha d hd e.1 hk⟩
  · intro k
    rw [← hlen]
    exact BR.approxOf_le_size opt.cmp t twf hbefore k
  · exact BR.approxOf_mono opt.cmp hc t hord hbefore
  · intro k hk
    have h := BR.approxOf_past_last opt.cmp t k hk
    exact ⟨h, fun d hd => by rw [h]; exact hbefore d hd⟩

/-- C19 (a): for a key stored in data block `d` the approximate offset is the start of `d` -/
theorem C19_stored_key (opt : WOpts) (hok : WOptsOK opt) (rp : FilterPolicy)
    (hrp : ReaderPolicyOK opt.filter rp)
    (sched : List SinkResp) (es : List (Bytes × Bytes)) (t0 : TableBuilder) (n : Nat)
    (hb : TableBuilder.build opt { sched := sched } es = (t0, .ok n)) (hn : n < 2 ^ 32)
    (hsz : opt.compression = 1 → sizeBound opt es < 2 ^ 32)
    (w : World) (file : Nat) (hcw : CleanWorld w file t0.sink.received) (hempty : w.cache.entries = []) :
    ∃ (t : TableImg) (w1 : World) (tb : Table) (approx : Bytes → Nat),
      t.img = t0.sink.received ∧ t.WF opt.cmp ∧ t.entries = es
      ∧ Table.new ⟨opt.cmp, rp⟩ file n w = (w1, .ok tb)
      ∧ (∀ k, tb.approxOffsetOf k w1 = (w1, .ok (approx k)))
      ∧ (∀ d ∈ t.blocks, ∀ k ∈ d.keys, approx k = d.handle.offset)
      ∧ (∀ e ∈ es, ∃ d ∈ t.blocks, e.1 ∈ d.keys ∧ approx e.1 = d.handle.offset) := by
  obtain ⟨t, w1, tb, approx, h1, h2, h3, h4, h5, ha, ha', _⟩ :=
    C19_approx opt hok rp hrp sched es t0 n hb hn hsz w file hcw hempty
  exact ⟨t, w1, tb, approx, h1, h2, h3, h4, h5, ha, ha'⟩

/-- C19 (b): the approximate offset of every key lies within the file -/
theorem C19_in_range (opt : WOpts) (hok : WOptsOK opt) (rp : FilterPolicy)
    (hrp : ReaderPolicyOK opt.filter rp)
    (sched : List SinkResp) (es : List (Bytes × Bytes)) (t0 : TableBuilder) (n : Nat)
    (hb : TableBuilder.build opt { sched := sched } es = (t0, .ok n)) (hn : n < 2 ^ 32)
    (hsz : opt.compression = 1 → sizeBound opt es < 2 ^ 32)
    (w : World) (file : Nat) (hcw : CleanWorld w file t0.sink.received) (hempty : w.cache.entries = []) :
    ∃ (w1 : World) (tb : Table) (approx : Bytes → Nat),
      Table.new ⟨opt.cmp, rp⟩ file n w = (w1, .ok tb)
      ∧ (∀ k, tb.approxOffsetOf k w1 = (w1, .ok (approx k)))
      ∧ ∀ k, approx k ≤ n := by
  obtain ⟨_, w1, tb, approx, _, _, _, h4, h5, _, _, hb', _⟩ :=
    C19_approx opt hok rp hrp sched es t0 n hb hn hsz w file hcw hempty
  exact ⟨w1, tb, approx, h4, h5, hb'⟩

/-- C19 (c): the approximate offset is non-decreasing in the key -/
theorem C19_monotone (opt : WOpts) (hok : WOptsOK opt) (rp : FilterPolicy)
    (hrp : ReaderPolicyOK opt.filter rp)
    (sched : List SinkResp) (es : List (Bytes × Bytes)) (t0 : TableBuilder) (n : Nat)
    (hb : TableBuilder.build opt { sched := sched } es = (t0, .ok n)) (hn : n < 2 ^ 32)
    (hsz : opt.compression = 1 → sizeBound opt es < 2 ^ 32)
    (w : World) (file : Nat) (hcw : CleanWorld w file t0.sink.received) (hempty : w.cache.entries = []) :
    ∃ (w1 : World) (tb : Table) (approx : Bytes → Nat),
      Table.new ⟨opt.cmp, rp⟩ file n w = (w1, .ok tb)
      ∧ (∀ k, tb.approxOffsetOf k w1 = (w1, .ok (approx k)))
      ∧ ∀ k1 k2, opt.cmp.cmp k1 k2 ≠ .gt → approx k1 ≤ approx k2 := by
  obtain ⟨_, w1, tb, approx, _, _, _, h4, h5, _, _, _, hc', _⟩ :=
    C19_approx opt hok rp hrp sched es t0 n hb hn hsz w file hcw hempty
  exact ⟨w1, tb, approx, h4, h5, hc'⟩

/-- C19 (d), PARTIAL (finding F4): for keys above the last INDEX key the approximate offset is the
    metaindex offset, which is not smaller than the end of any data block.  For keys in
    (last stored key, last index key] the clause of the property does not hold: by clause (a)'s
    mechanism they are mapped to the start of the last data block. -/
theorem C19_past_last_partial (opt : WOpts) (hok : WOptsOK opt) (rp : FilterPolicy)
    (hrp : ReaderPolicyOK opt.filter rp)
    (sched : List SinkResp) (es : List (Bytes × Bytes)) (t0 : TableBuilder) (n : Nat)
    (hb : TableBuilder.build opt { sched := sched } es = (t0, .ok n)) (hn : n < 2 ^ 32)
    (hsz : opt.compression = 1 → sizeBound opt es < 2 ^ 32)
    (w : World) (file : Nat) (hcw : CleanWorld w file t0.sink.received) (hempty : w.cache.entries = []) :
    ∃ (t : TableImg) (w1 : World) (tb : Table) (approx : Bytes → Nat),
      t.img = t0.sink.received ∧ t.WF opt.cmp ∧ t.entries = es
      ∧ Table.new ⟨opt.cmp, rp⟩ file n w = (w1, .ok tb)
      ∧ (∀ k, tb.approxOffsetOf k w1 = (w1, .ok (approx k)))
      ∧ ∀ k, (∀ s ∈ t.seps, opt.cmp.cmp s k = .lt) →
            approx k = t.metaHandle.offset
            ∧ ∀ d ∈ t.blocks, d.handle.offset + d.handle.size + 5 ≤ approx k := by
  obtain ⟨t, w1, tb, approx, h1, h2, h3, h4, h5, _, _, _, _, hd⟩ :=
    C19_approx opt hok rp hrp sched es t0 n hb hn hsz w file hcw hempty
  exact ⟨t, w1, tb, approx, h1, h2, h3, h4, h5, hd⟩

/-- FINDING F4, proved: every key between a key of data block `d` and `d`'s index key (inclusive) has
    the START of `d` as approximate offset.  For the last block and a key above all stored keys but
    not above the last index key this is smaller than the end of the last data block, so the
    property's last clause fails there (the index key of the last block is `sep last (succ last)`,
    which for the bytewise comparator is strictly above `last`, see the examples below). -/
theorem C19_gap_maps_to_block_start (opt : WOpts) (hok : WOptsOK opt) (rp : FilterPolicy)
    (hrp : ReaderPolicyOK opt.filter rp)
    (sched : List SinkResp) (es : List (Bytes × Bytes)) (t0 : TableBuilder) (n : Nat)
    (hb : TableBuilder.build opt { sched := sched } es = (t0, .ok n)) (hn : n < 2 ^ 32)
    (hsz : opt.compression = 1 → sizeBound opt es < 2 ^ 32)
    (w : World) (file : Nat) (hcw : CleanWorld w file t0.sink.received) (hempty : w.cache.entries = []) :
    ∃ (t : TableImg) (w1 : World) (tb : Table) (approx : Bytes → Nat),
      t.img = t0.sink.received ∧ t.WF opt.cmp ∧ t.entries = es
      ∧ Table.new ⟨opt.cmp, rp⟩ file n w = (w1, .ok tb)
      ∧ (∀ k, tb.approxOffsetOf k w1 = (w1, .ok (approx k)))
      ∧ ∀ d ∈ t.blocks, ∀ k k0, k0 ∈ d.keys → opt.cmp.cmp k0 k ≠ .gt → opt.cmp.cmp k d.sep ≠ .gt →
          approx k = d.handle.offset := by
  obtain ⟨t, w1, tb, himg, _, twf, hent, _, _, hnew, happrox⟩ :=
    built_approx opt hok rp hrp sched es t0 n hb hn hsz w file hcw hempty
  exact ⟨t, w1, tb, BR.approxOf opt.cmp t, himg, twf, hent, hnew, happrox,
    fun d hd k k0 => BR.approxOf_in_block opt.cmp hok.lawful t twf d hd k k0⟩

-- F4 witness (Spec level): with the bytewise comparator the index key written for a last block ending
-- in "zzz" is "zzz\0" (`sep last (succ last)`), strictly above the last stored key; by clause (a)'s
-- mechanism the probe "zzz\0" is answered with the START of the last data block, although it is
-- greater than every stored key
example : defaultCmp.sep [122, 122, 122] (defaultCmp.succ [122, 122, 122]) = [122, 122, 122, 0] := by decide
example : defaultCmp.cmp [122, 122, 122] [122, 122, 122, 0] = .lt := by decide

end Sst

#print axioms Sst.C19_approx
#print axioms Sst.C19_stored_key
#print axioms Sst.C19_in_range
#print axioms Sst.C19_monotone
#print axioms Sst.C19_past_last_partial
#print axioms Sst.C19_gap_maps_to_block_start
