import SstModel.Props.ReaderWF
import SstModel.Lemmas.SpecTable
/-
  C06 — The reader reads every well-formed table, not only those its own writer emits.

  `Spec.Format.WFTable cmp img d` (Spec/WFTable.lean) says: the INDEPENDENT decoder decodes `img` to `d`
  (footer, checksummed blocks, restart arrays, prefix sharing, per-block compression, index entries),
  data blocks are non-empty, keys strictly increase, every index key is ≥ the keys of its block and
  < the keys of all later blocks (so a separator equal to the block's last key is allowed), data
  blocks are distinct regions, metaindex keys increase. Nothing is assumed about restart spacing,
  amount of prefix sharing, compression choice, block placement or extra metaindex entries.
-/
namespace Sst
open Spec

/-- what the reader's filter policy may assume about the image (`FilterCompat` of DESIGN §7 C02):
    whatever filter block the policy `p` finds under its own name denies no stored key of the block it
    is consulted for. A policy whose name does not occur in the metaindex satisfies this trivially
    (`filterCompat_of_absent`): the filter of another policy is ignored, not consulted. -/
def FilterCompat (cmp : Cmp) (p : FilterPolicy) (img : Bytes) (d : Format.Decoded) : Prop :=
  ∀ t : TableImg, t.img = img → t.metaix.kvs = d.metaEntries → t.WF cmp →
    ∃ fv, FilterView p t fv ∧ ∀ fb, fv = some fb → FilterSound p t fb

theorem filterCompat_of_absent (cmp : Cmp) (p : FilterPolicy) (img : Bytes) (d : Format.Decoded)
    (h : ∀ e ∈ d.metaEntries, e.1 ≠ Table.filterName p) : FilterCompat cmp p img d := by
  intro t _ hm _
  exact ⟨none, .absent (by rw [hm]; exact h), fun _ hfb => by cases hfb⟩

/-- C06: for every well-formed image, every lawful comparator and every compatible reader policy:
    opening succeeds, and on the handle
    * a forward scan returns exactly the encoded entries, then `none`;
    * a point lookup of ANY key returns what the sorted entry list stores under it;
    * a seek to ANY target lands on the least entry not below it (and `valid` says whether there is one);
    * EVERY finite history of iterator calls refines the Spec cursor. -/
theorem C06_reader (cmp : Cmp) (hc : cmp.Lawful) (p : FilterPolicy) (img : Bytes) (d : Format.Decoded)
    (hwf : Format.WFTable cmp img d) (hfc : FilterCompat cmp p img d)
    (w : World) (file : Nat) (hcw : CleanWorld w file img) (hempty : w.cache.entries = []) :
    ∃ w1 tb it, Table.new ⟨cmp, p⟩ file img.length w = (w1, .ok tb)
      ∧ TableIter.new tb w1 = (w1, .ok it)
      ∧ (∃ w2 it2, it.run (List.replicate (d.entries.length + 1) IterOp.next) w1
            = (w2, .ok (it2, d.entries.map (fun e => IterOut.entry (some e)) ++ [IterOut.entry none])))
      ∧ (∀ k, ∃ w2, tb.get k w1 = (w2, .ok (Spec.lookup cmp d.entries k)))
      ∧ (∀ target, ∃ w2 it2, it.run [.seek target, .current, .valid] w1
            = (w2, .ok (it2, [.unit, .entry (entryAt d.entries (lowerBound cmp d.entries target)),
                              .flag (lowerBound cmp d.entries target).isSome])))
      ∧ (∀ ops, ∃ w2 it2 p2 outs, it.run ops w1 = (w2, .ok (it2, outs))
            ∧ CursorRun cmp d.entries none ops p2 outs) := by
  obtain ⟨t, himg, twf, hent, hmeta, _⟩ := specTable_wf cmp img d hwf
  obtain ⟨fv, hfv, hsound⟩ := hfc t himg hmeta twf
  subst himg
  obtain ⟨w1, tb, hnew, hop, hfile, _, hcw1, _, hentries, _, _, _⟩ :=
    open_ok cmp hc p t twf fv hfv w file hcw
  have hw1 : WorldOK w1 tb t := by
    refine ⟨by rw [hfile]; exact hcw1, ?_⟩
    intro off c hmem
    rw [hentries, hempty] at hmem
    cases hmem
  have hfwf : ∀ fb, fv = some fb → FilterBlockReader.isWellFormed fb = true := by
    intro fb hfb
    cases hfv with
    | absent _ => cases hfb
    | empty _ _ _ _ _ _ => cases hfb
    | present v fh n fb' _ _ _ _ _ hw => cases hfb; exact hw
  obtain ⟨it, hit, hsim, _⟩ := reader_iter_new cmp hc p t twf fv tb hop w1
  refine ⟨w1, tb, it, hnew, hit, ?_, ?_, ?_, ?_⟩
  · obtain ⟨w2, it2, hrun, _⟩ := reader_scan cmp hc p t twf fv tb hop w1 hw1 it hsim
    rw [hent] at hrun
    exact ⟨w2, it2, hrun⟩
  · intro k
    obtain ⟨w2, hget, _, _⟩ := get_ok cmp hc p t twf fv tb hop hsound hfwf w1 hw1 k
    rw [hent] at hget
    exact ⟨w2, hget⟩
  · intro target
    obtain ⟨w2, it2, hrun⟩ := reader_seek_current cmp hc p t twf fv tb hop w1 hw1 it none hsim target
    rw [hent] at hrun
    exact ⟨w2, it2, hrun⟩
  · intro ops
    obtain ⟨w2, it2, pos2, outs, hrun, hcr, _, _, _⟩ :=
      reader_history cmp hc p t twf fv tb hop ops w1 hw1 it none hsim
    rw [hent] at hcr
    exact ⟨w2, it2, t.flatPos pos2, outs, hrun, hcr⟩

end Sst
