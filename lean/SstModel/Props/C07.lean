import SstModel.Lemmas.BlockVerify
/-
  C07 — Corrupted bytes never turn into wrong answers; only damaged blocks are lost.
  (block level: the checksum layer; the table-level consequence is in Props/C07Table.lean)
-/
namespace Sst

/-- the reader hands out the contents of a block only if contents + type byte verify against the
    stored (masked) CRC-32C: whenever `read_block_contents` succeeds, the bytes it read satisfy the
    checksum equation -/
theorem C07_nothing_unverified (file : Nat) (loc : BlockHandle) (w w' : World) (d : Bytes)
    (h : readBlockContents file loc w = (w', .ok d)) :
    ∃ buf, verifyBlock buf loc.size = .ok d
      ∧ crc32c (buf.take loc.size ++ [UInt8.ofNat (buf.getD loc.size 0).toNat])
          = unmaskCrc (decodeFixed32 ((buf.drop (loc.size + 1)).take 4)) := by
  obtain ⟨buf, _, _, _, hv, hc⟩ := readBlockContents_ok file loc w w' d h
  exact ⟨buf, hv, hc⟩

/-- CRC-32C detects every alteration confined to 4 consecutive bytes (any burst of ≤ 32 bits) — proved
    for ALL messages, prefixes and suffixes (not sampled) -/
theorem C07_crc_burst (p w w' s : Bytes) (hlen : w.length = w'.length) (h4 : w.length ≤ 4) (hne : w ≠ w') :
    crc32c (p ++ w ++ s) ≠ crc32c (p ++ w' ++ s) := crc32c_detects_burst4 p w w' s hlen h4 hne

/-- hence: a block that verified, altered anywhere in contents/type within a window of ≤ 4 bytes
    (every single-byte change, every bit flip, zero/one fill of a byte …) with its checksum bytes
    intact, is rejected as `Corruption` -/
theorem C07_altered_block_rejected (p w w' s ck : Bytes) (hlen : w.length = w'.length) (h4 : w.length ≤ 4)
    (hne : w ≠ w') (size : Nat) (hsize : size + 1 = (p ++ w ++ s).length) (d : Bytes)
    (hok : verifyBlock (p ++ w ++ s ++ ck) size = .ok d) :
    verifyBlock (p ++ w' ++ s ++ ck) size = .err .corruption :=
  verifyBlock_detects_burst p w w' s ck hlen h4 hne size hsize d hok

/-- … and so is any alteration of the 4 checksum bytes themselves -/
theorem C07_altered_checksum_rejected (body ck ck' : Bytes) (hck : ck.length = 4) (hck' : ck'.length = 4)
    (hne : ck ≠ ck') (size : Nat) (hsize : size + 1 = body.length) (d : Bytes)
    (hok : verifyBlock (body ++ ck) size = .ok d) : verifyBlock (body ++ ck') size = .err .corruption :=
  verifyBlock_detects_cksum body ck ck' hck hck' hne size hsize d hok

/-- the mask is a bijection on u32, so masking loses nothing -/
theorem C07_mask_roundtrip (c : Nat) (h : c < 2 ^ 32) : unmaskCrc (maskCrc c) = c := unmaskCrc_maskCrc c h

end Sst
