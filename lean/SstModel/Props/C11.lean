import SstModel.Lemmas.CacheRefine
/-
  C11 — The cache is a memory-safe, capacity-bounded LRU map for every operation history.

  `HCache` is the statement-by-statement model of cache.rs on an explicit heap of nodes (owning `next`,
  raw `prev`, every dereference checked for liveness: a dangling access is the outcome `panic`).
  `Spec.Lru` is the abstract LRU map. `Rep c s` is the representation invariant: the forward chain from
  the head visits exactly the live nodes in most-recent-first order and carries the spec's keys, every
  `prev` is the predecessor, `head.prev` is the tail, the count is the number of items, the map has
  exactly the spec's keys pointing at the nodes carrying them, and NO other node is live (no leak).
-/
namespace Sst.HCache
open Sst.Spec

/-- C11: for every capacity ≥ 1 and EVERY finite history of insert / get / remove — including
    re-inserting a present key and removing the oldest, newest or only entry — the model never panics
    (no use-after-free, no failed assert, no underflow), returns exactly what the abstract LRU map
    returns, ends in a state satisfying the representation invariant for the abstract LRU state, and
    never holds more than `cap` entries. -/
theorem C11_refines (cap : Nat) (hcap : 0 < cap) (ops : List Op) :
    ∃ c outs, runM cap ops = .ok (c, outs) ∧ outs = (Spec.Lru.run { cap := cap } ops).2
      ∧ Rep c (Spec.Lru.run { cap := cap } ops).1 ∧ c.count ≤ cap :=
  run_refines cap hcap ops

/-- single step form (the invariant is inductive) -/
theorem C11_step (c : Cache) (s : Spec.Lru.State) (op : Op) (hcap : 0 < s.cap)
    (hlen : s.items.length ≤ s.cap) (h : Rep c s) :
    ∃ c', stepM c op = .ok (c', (Spec.Lru.step s op).2) ∧ Rep c' (Spec.Lru.step s op).1 :=
  step_refines c s op hcap hlen h

/-- the abstract LRU itself keeps its bound and distinct keys -/
theorem C11_spec_invariant (s : Spec.Lru.State) (op : Spec.Lru.Op) (hcap : 0 < s.cap)
    (hl : s.items.length ≤ s.cap) (hn : (s.items.map (·.1)).Nodup) :
    (Spec.Lru.step s op).1.cap = s.cap ∧ (Spec.Lru.step s op).1.items.length ≤ s.cap
      ∧ ((Spec.Lru.step s op).1.items.map (·.1)).Nodup :=
  Lru.step_inv s op hcap hl hn

-- non-vacuity (test): a 10-operation history with re-insert, eviction and removal of the only entry
example : (runM 2 [.insert 1 10, .insert 1 11, .get 1, .insert 2 20, .insert 3 30, .get 1, .remove 3,
                   .remove 2, .get 2, .insert 4 40]).isOk = true := by decide

end Sst.HCache
