import SstModel.Spec.Cursor
import SstModel.Lemmas.IterRun
import SstModel.Lemmas.TableOpen
import SstModel.Lemmas.TableGet
/-
  The reader on EVERY well-formed table image (`TableImg.WF`): C04 (every finite call history on a
  table iterator refines the Spec cursor `Spec.CursorRun`, never panics or diverges, keeps the world
  invariant), C01 (full forward scan), C03 (seek then current), and open + lookup (C02) / open +
  approximate offset (C19).

  Standing hypotheses: a lawful comparator `cmp`, a reader filter policy `p`, an image `t` with
  `t.WF cmp`, and the filter block `fv` that policy `p` sees in it.
-/
namespace Sst
open Spec

section
variable (cmp : Cmp) (hc : cmp.Lawful) (p : FilterPolicy) (t : TableImg) (hwf : t.WF cmp)
  (fv : Option Bytes)
include hc hwf

/-- C04 on every well-formed image: EVERY finite call history refines the Spec cursor, never panics or
    diverges, and keeps the world invariant -/
theorem reader_history (tb : Table) (hop : Opened tb t cmp p fv) (ops : List IterOp) :
    ∀ (w : World), WorldOK w tb t → ∀ (it : TableIter) (pos : Option (Nat × Nat)),
      SimT t tb it pos →
    ∃ w' it' pos' outs, it.run ops w = (w', .ok (it', outs))
      ∧ CursorRun cmp t.entries (t.flatPos pos) ops (t.flatPos pos') outs
      ∧ SimT t tb it' pos' ∧ WorldOK w' tb t ∧ Frame w w' tb := by
  induction ops with
  | nil =>
    intro w hw it pos h
    exact ⟨w, it, pos, [], rfl, CursorRun.nil _, h, hw, Frame.refl w tb⟩
  | cons op ops ih =>
    intro w hw it pos h
    obtain ⟨w1, it1, pos1, out, hcall, hstep, hs1, hw1, hfr1⟩ :=
      call_ok cmp hc p t hwf fv tb hop op w hw it pos h
    obtain ⟨w2, it2, pos2, outs, hrun, hcr, hs2, hw2, hfr2⟩ := ih w1 hw1 it1 pos1 hs1
    exact ⟨w2, it2, pos2, out :: outs, TableIter.run_cons hcall hrun, CursorRun.cons hstep hcr, hs2,
      hw2, hfr1.trans hfr2⟩

/-- a new iterator is the before-first cursor -/
theorem reader_iter_new (tb : Table) (hop : Opened tb t cmp p fv) (w : World) :
    ∃ it, TableIter.new tb w = (w, .ok it) ∧ SimT t tb it none ∧ t.flatPos none = none := by
  obtain ⟨it, hnew, hs⟩ := iter_new_ok cmp hc p t hwf fv tb hop w
  exact ⟨it, hnew, hs, rfl⟩

/-- C01 on every well-formed image: from a new iterator, `entries.length + 1` calls of `next` return
    exactly the entries in order and then `none` -/
theorem reader_scan (tb : Table) (hop : Opened tb t cmp p fv) (w : World) (hw : WorldOK w tb t)
    (it : TableIter) (h : SimT t tb it none) :
    ∃ w' it', it.run (List.replicate (t.entries.length + 1) IterOp.next) w
        = (w', .ok (it', (t.entries.map (fun e => IterOut.entry (some e))) ++ [IterOut.entry none]))
      ∧ WorldOK w' tb t := by
  obtain ⟨w', it', pos', outs, hrun, hcr, _, hw', _⟩ :=
    reader_history cmp hc p t hwf fv tb hop _ w hw it none h
  have houts := cursorRun_scan cmp t.entries _ outs hcr
  rw [houts] at hrun
  exact ⟨w', it', hrun, hw'⟩

/-- C03: seek then current, from any state -/
theorem reader_seek_current (tb : Table) (hop : Opened tb t cmp p fv) (w : World) (hw : WorldOK w tb t)
    (it : TableIter) (pos : Option (Nat × Nat)) (h : SimT t tb it pos) (target : Bytes) :
    ∃ w' it', it.run [.seek target, .current, .valid] w
      = (w', .ok (it', [.unit, .entry (entryAt t.entries (lowerBound cmp t.entries target)),
                        .flag (lowerBound cmp t.entries target).isSome])) := by
  obtain ⟨w', it', pos', outs, hrun, hcr, _, _, _⟩ :=
    reader_history cmp hc p t hwf fv tb hop _ w hw it pos h
  have houts := cursorRun_seek_current cmp t.entries _ _ target outs hcr
  rw [houts] at hrun
  exact ⟨w', it', hrun⟩

/-- open + lookup (C02): opening a well-formed image in a clean world with a fresh (empty) cache
    succeeds, and a lookup on the handle returns what the Spec map stores under the key.
    `hempty` makes cache coherence for the new table's id trivially true. -/
theorem reader_open_get (w : World) (file : Nat) (hcw : CleanWorld w file t.img)
    (hfv : FilterView p t fv) (hsound : ∀ fb, fv = some fb → FilterSound p t fb)
    (hempty : w.cache.entries = []) (k : Bytes) :
    ∃ w1 tb w2, Table.new ⟨cmp, p⟩ file t.img.length w = (w1, .ok tb)
      ∧ tb.get k w1 = (w2, .ok (Spec.lookup cmp t.entries k)) := by
  obtain ⟨w1, tb, hnew, hop, hfile, _, hcw1, _, hent, _, _, _⟩ :=
    open_ok cmp hc p t hwf fv hfv w file hcw
  have hw1 : WorldOK w1 tb t := by
    refine ⟨by rw [hfile]; exact hcw1, ?_⟩
    intro off c hmem
    rw [hent, hempty] at hmem
    cases hmem
  have hfwf : ∀ fb, fv = some fb → FilterBlockReader.isWellFormed fb = true := by
    intro fb hfb
    subst hfb
    cases hfv with
    | present v fh n fb h hd hz hb hr hw => exact hw
  obtain ⟨w2, hget, _, _⟩ := get_ok cmp hc p t hwf fv tb hop hsound hfwf w1 hw1 k
  exact ⟨w1, tb, w2, hnew, hget⟩

/-- open + approximate offset (C19): the offset of the first block whose index key is not below `k`,
    or the metaindex offset if there is none; the call leaves the world untouched -/
theorem reader_open_approx (w : World) (file : Nat) (hcw : CleanWorld w file t.img)
    (hfv : FilterView p t fv) (k : Bytes) :
    ∃ w1 tb, Table.new ⟨cmp, p⟩ file t.img.length w = (w1, .ok tb)
      ∧ tb.approxOffsetOf k w1 =
          (w1, .ok (match Spec.lowerBound cmp (t.seps.map (fun s => (s, ([] : Bytes)))) k with
                    | some bi => ((t.blocks[bi]?).map (·.handle.offset)).getD 0
                    | none => t.metaHandle.offset)) := by
  obtain ⟨w1, tb, hnew, hop, _⟩ := open_ok cmp hc p t hwf fv hfv w file hcw
  exact ⟨w1, tb, hnew, approx_ok cmp hc p t hwf fv tb hop w1 k⟩

end

/-! ### the Spec cursor is inhabited as expected (tests) -/

-- a one-entry table scanned forward, then stepped back
example (cmp : Cmp) (a b : Bytes) :
    CursorRun cmp [(a, b)] none [.next, .valid, .prev, .next, .next] none
      [.entry (some (a, b)), .flag true, .flag false, .entry (some (a, b)), .entry none] :=
  .cons (.next none) (.cons (.valid (some 0)) (.cons (.prevValid 0) (.cons (.next none)
    (.cons (.next (some 0)) (.nil none)))))

-- `prev` from the invalid position may land on the stored entry, with a consistent flag …
example (cmp : Cmp) (a b : Bytes) :
    CursorRun cmp [(a, b)] none [.prev, .current] (some 0) [.flag true, .entry (some (a, b))] :=
  .cons (.prevInvalid (some 0) (by intro i h; cases h; exact Nat.zero_lt_one)) (.cons (.current (some 0)) (.nil _))

-- … but never outside the table
example (cmp : Cmp) (a b : Bytes) (q : Pos) (outs : List IterOut)
    (h : CursorRun cmp [(a, b)] none [.prev] q outs) : q = none ∨ q = some 0 := by
  cases h with
  | cons hs hr =>
    cases hr
    cases hs with
    | prevInvalid _ hlt =>
      cases q with
      | none => exact .inl rfl
      | some i =>
        have hi : i < 1 := hlt i rfl
        have hi : i = 0 := by omega
        exact .inr (by rw [hi])

end Sst

#print axioms Sst.reader_history
#print axioms Sst.reader_iter_new
#print axioms Sst.reader_scan
#print axioms Sst.reader_seek_current
#print axioms Sst.reader_open_get
#print axioms Sst.reader_open_approx
